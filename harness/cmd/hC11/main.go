// hC11: failed transactions leave only their fee behind.
//
// (a) blocks of synthetic-driver transactions ("verifst" = ExecLocalSameTime, "verifno" =
//
//	ordinary order), coins transfers and transaction groups, executed by the real executor
//	of a test node through EventExecTxList on top of a mined base block; observables:
//	receipts (type, KV list, log types) and every value a script read (state Get, local
//	Get / List), recorded by the drivers also when the transaction fails afterwards;
//
// (b) operation histories on executor.NewLocalDB(client, api, false) directly.
package main

import (
	"bytes"
	"encoding/hex"
	"encoding/json"
	"fmt"
	"sort"
	"strings"
	"time"

	"github.com/33cn/chain33/common/address"
	"github.com/33cn/chain33/common/crypto"
	dbm "github.com/33cn/chain33/common/db"
	"github.com/33cn/chain33/common/log"
	"github.com/33cn/chain33/executor"
	_ "github.com/33cn/chain33/system"
	drivers "github.com/33cn/chain33/system/dapp"
	"github.com/33cn/chain33/types"
	"github.com/33cn/chain33/util"
	"github.com/33cn/chain33/util/testnode"
	"verifharness/hlib"
)

// ---------------------------------------------------------------- scripts

// Op is one script operation.  O: sset ssetonly skv sget xlget xllist xlset sfail spanic
// (Exec phase) / lset lsetonly lkv lget llist lfail (ExecLocal phase).
type Op struct {
	O string `json:"o"`
	K string `json:"k,omitempty"`
	V string `json:"v,omitempty"`
}

type payload struct {
	ID int  `json:"id"`
	Ex []Op `json:"ex,omitempty"`
	Lo []Op `json:"lo,omitempty"`
}

// Tx is one transaction of a generated block.
type Tx struct {
	From  int    `json:"from"`            // payer index
	Fee   int64  `json:"fee"`             // requested fee (the group head carries the sum)
	Kind  string `json:"kind"`            // st | no | coins
	Ex    []Op   `json:"ex,omitempty"`
	Lo    []Op   `json:"lo,omitempty"`
	To    int    `json:"to,omitempty"`    // coins: recipient index
	Amt   int64  `json:"amt,omitempty"`
	Group int    `json:"group,omitempty"` // >0: member of that group (consecutive)
}

type inp struct {
	Op  string   `json:"op"` // block | ops
	Txs []Tx     `json:"txs,omitempty"`
	Ops []Op     `json:"ops,omitempty"` // begin commit rollback set get list
}

type obsRec struct {
	Kind string   // S V L D
	Some bool
	Val  []byte
	List [][]byte
}

var recording bool
var traces = map[int][]obsRec{}

func record(id int, o obsRec) {
	if recording {
		traces[id] = append(traces[id], o)
	}
}

const scriptLogTy = 77

type synDriver struct {
	drivers.DriverBase
	name     string
	sameTime bool
}

func newSyn(name string, st bool) drivers.DriverCreate {
	return func() drivers.Driver {
		d := &synDriver{name: name, sameTime: st}
		d.SetChild(d)
		return d
	}
}

func (d *synDriver) GetDriverName() string { return d.name }
func (d *synDriver) ExecutorOrder() int64 {
	if d.sameTime {
		return drivers.ExecLocalSameTime
	}
	return 0
}
func (d *synDriver) CheckTx(tx *types.Transaction, index int) error { return nil }

func val(s string) []byte {
	if s == "" {
		return nil
	}
	return []byte(s)
}

func localGet(db dbm.KVDB, id int, k string) {
	v, err := db.Get([]byte(k))
	switch err {
	case nil:
		record(id, obsRec{Kind: "V", Some: true, Val: v})
	case types.ErrNotFound:
		record(id, obsRec{Kind: "V"})
	case types.ErrDisableRead:
		record(id, obsRec{Kind: "D"})
	default:
		record(id, obsRec{Kind: "E:" + err.Error()})
	}
}

func localList(db dbm.KVDB, id int, p string) {
	vs, err := db.List([]byte(p), nil, 0, 1)
	switch err {
	case nil:
		record(id, obsRec{Kind: "L", List: vs})
	case types.ErrNotFound:
		record(id, obsRec{Kind: "L"})
	case types.ErrDisableRead:
		record(id, obsRec{Kind: "D"})
	default:
		record(id, obsRec{Kind: "E:" + err.Error()})
	}
}

func (d *synDriver) Exec(tx *types.Transaction, index int) (*types.Receipt, error) {
	var p payload
	if err := json.Unmarshal(tx.Payload, &p); err != nil {
		return nil, types.ErrActionNotSupport
	}
	r := &types.Receipt{Ty: types.ExecOk, Logs: []*types.ReceiptLog{{Ty: scriptLogTy, Log: []byte("s")}}}
	for _, o := range p.Ex {
		switch o.O {
		case "sset", "ssetonly":
			if err := d.GetStateDB().Set([]byte(o.K), val(o.V)); err != nil {
				return nil, err
			}
			if o.O == "sset" {
				r.KV = append(r.KV, &types.KeyValue{Key: []byte(o.K), Value: val(o.V)})
			}
		case "skv":
			r.KV = append(r.KV, &types.KeyValue{Key: []byte(o.K), Value: val(o.V)})
		case "sget":
			v, err := d.GetStateDB().Get([]byte(o.K))
			if err == nil {
				record(p.ID, obsRec{Kind: "S", Some: true, Val: v})
			} else if err == types.ErrNotFound {
				record(p.ID, obsRec{Kind: "S"})
			} else {
				record(p.ID, obsRec{Kind: "E:" + err.Error()})
			}
		case "xlget":
			localGet(d.GetLocalDB(), p.ID, o.K)
		case "xllist":
			localList(d.GetLocalDB(), p.ID, o.K)
		case "xlset":
			if err := d.GetLocalDB().Set([]byte(o.K), val(o.V)); err != nil {
				return nil, err
			}
		case "sfail":
			return nil, types.ErrInvalidParam
		case "spanic":
			panic("script panic")
		}
	}
	return r, nil
}

func (d *synDriver) ExecLocal(tx *types.Transaction, rd *types.ReceiptData, index int) (*types.LocalDBSet, error) {
	var p payload
	if err := json.Unmarshal(tx.Payload, &p); err != nil {
		return &types.LocalDBSet{}, nil
	}
	set := &types.LocalDBSet{}
	for _, o := range p.Lo {
		switch o.O {
		case "lset", "lsetonly":
			if err := d.GetLocalDB().Set([]byte(o.K), val(o.V)); err != nil {
				return nil, err
			}
			if o.O == "lset" {
				set.KV = append(set.KV, &types.KeyValue{Key: []byte(o.K), Value: val(o.V)})
			}
		case "lkv":
			set.KV = append(set.KV, &types.KeyValue{Key: []byte(o.K), Value: val(o.V)})
		case "lget":
			localGet(d.GetLocalDB(), p.ID, o.K)
		case "llist":
			localList(d.GetLocalDB(), p.ID, o.K)
		case "lfail":
			return nil, types.ErrInvalidParam
		}
	}
	return set, nil
}

func (d *synDriver) ExecDelLocal(tx *types.Transaction, rd *types.ReceiptData, index int) (*types.LocalDBSet, error) {
	return &types.LocalDBSet{}, nil
}

// ---------------------------------------------------------------- node

const (
	stName = "verifst"
	noName = "verifno"
)

var stateKeys = []string{"mavl-verifst-a", "mavl-verifst-b", "mavl-verifst-c", "mavl-verifst-d",
	"mavl-verifno-a", "mavl-verifno-b", "mavl-verifno-c", "mavl-verifno-d"}
var localKeys = []string{"LODB-verifst-a", "LODB-verifst-ab", "LODB-verifst-b", "LODB-verifst-c", "LODB-verifst-ca", "LODB-verifst-d"}
var localPrefixes = []string{"LODB-verifst-", "LODB-verifst-a", "LODB-verifst-c", "LODB-verifst-x"}

type payer struct {
	priv crypto.PrivKey
	addr string
}

type node struct {
	mock   *testnode.Chain33Mock
	cfg    *types.Chain33Config
	base   *types.Block
	payers []payer
	accPre string
	nextID int
	store  [][2][]byte // sorted state entries visible to the cases (accounts canonicalised)
	main   [][2][]byte // sorted local entries
}

func newNode() *node {
	cfg := types.NewChain33Config(types.GetDefaultCfgstring())
	cfg.GetModuleConfig().BlockChain.Driver = "memdb"
	cfg.GetModuleConfig().Store.Driver = "memdb"
	cfg.GetModuleConfig().Wallet.Driver = "memdb"
	drivers.Register(cfg, stName, newSyn(stName, true), 0)
	drivers.Register(cfg, noName, newSyn(noName, false), 0)
	types.AllowUserExec = append(types.AllowUserExec, []byte(stName), []byte(noName))
	m := testnode.NewWithConfig(cfg, nil)
	log.SetLogLevel("crit")
	n := &node{mock: m, cfg: cfg, nextID: 1}
	n.accPre = "mavl-" + cfg.GetCoinExec() + "-" + cfg.GetCoinSymbol() + "-"
	n.payers = append(n.payers, payer{m.GetGenesisKey(), m.GetGenesisAddress()})
	cr, err := crypto.Load(types.GetSignName("", types.SECP256K1), -1)
	if err != nil {
		panic(err)
	}
	for i := 0; i < 3; i++ {
		// fixed keys: the addresses are constants of Check.v (checked by the CEnv case)
		p, err := cr.PrivKeyFromBytes(bytes.Repeat([]byte{byte(0x11 * (i + 1))}, 32))
		if err != nil {
			panic(err)
		}
		n.payers = append(n.payers, payer{p, address.PubKeyToAddr(address.DefaultID, p.PubKey().Bytes())})
	}
	deadline := time.Now().Add(60 * time.Second)
	for m.GetBlockChain().GetBlockHeight() < 0 {
		if time.Now().After(deadline) {
			panic("genesis block not created")
		}
		time.Sleep(2 * time.Millisecond)
	}
	// base block(s): fund two payers, give both drivers some state and local data
	var txs []*types.Transaction
	txs = append(txs, n.coinsTx(0, 1, 7000000), n.coinsTx(0, 3, 2500000))
	txs = append(txs, n.scriptTx(0, 1000000, stName, payload{ID: 0,
		Ex: []Op{{"sset", "mavl-verifst-a", "A0"}, {"sset", "mavl-verifst-b", "B0"}},
		Lo: []Op{{"lkv", "LODB-verifst-a", "la0"}, {"lkv", "LODB-verifst-b", "lb0"}, {"lkv", "LODB-verifst-ca", "lca0"}}}))
	txs = append(txs, n.scriptTx(0, 1000000, noName, payload{ID: 0,
		Ex: []Op{{"sset", "mavl-verifno-a", "NA0"}, {"sset", "mavl-verifno-c", "NC0"}}}))
	for _, tx := range txs {
		if _, err := m.GetAPI().SendTx(tx); err != nil {
			panic(fmt.Sprint("base tx rejected: ", err))
		}
	}
	last := txs[len(txs)-1].Hash()
	for {
		if time.Now().After(deadline) {
			panic("base block not mined")
		}
		d, err := m.GetAPI().QueryTx(&types.ReqHash{Hash: last})
		if err == nil && d != nil && d.Receipt != nil {
			break
		}
		time.Sleep(5 * time.Millisecond)
	}
	cl := m.GetClient()
	_ = cl.Send(cl.NewMessage("consensus", types.EventMinerStop, nil), false)
	time.Sleep(300 * time.Millisecond)
	// wait until the height is stable
	h := m.GetBlockChain().GetBlockHeight()
	for i := 0; i < 100; i++ {
		time.Sleep(20 * time.Millisecond)
		h2 := m.GetBlockChain().GetBlockHeight()
		if h2 == h && i > 10 {
			break
		}
		h = h2
	}
	n.base = m.GetBlock(h)
	n.snapshot()
	return n
}

func (n *node) accKey(i int) string { return n.accPre + n.payers[i].addr }

// snapshot reads the state and local entries of the key alphabet at the base block.
func (n *node) snapshot() {
	var keys [][]byte
	for i := range n.payers {
		keys = append(keys, []byte(n.accKey(i)))
	}
	for _, k := range stateKeys {
		keys = append(keys, []byte(k))
	}
	cl := n.mock.GetClient()
	msg := cl.NewMessage("store", types.EventStoreGet, &types.StoreGet{StateHash: n.base.StateHash, Keys: keys})
	if err := cl.Send(msg, true); err != nil {
		panic(err)
	}
	resp, err := cl.Wait(msg)
	if err != nil {
		panic(err)
	}
	vals := resp.GetData().(*types.StoreReplyValue).Values
	for i, k := range keys {
		if i < len(vals) && vals[i] != nil {
			n.store = append(n.store, [2][]byte{k, vals[i]})
		}
	}
	sort.Slice(n.store, func(i, j int) bool { return bytes.Compare(n.store[i][0], n.store[j][0]) < 0 })
	var lkeys [][]byte
	for _, k := range localKeys {
		lkeys = append(lkeys, []byte(k))
	}
	lv, err := n.mock.GetAPI().LocalGet(&types.LocalDBGet{Keys: lkeys})
	if err != nil {
		panic(err)
	}
	for i, k := range lkeys {
		if i < len(lv.Values) && lv.Values[i] != nil {
			n.main = append(n.main, [2][]byte{k, lv.Values[i]})
		}
	}
	sort.Slice(n.main, func(i, j int) bool { return bytes.Compare(n.main[i][0], n.main[j][0]) < 0 })
}

func (n *node) coinsTx(from, to int, amt int64) *types.Transaction {
	tx := util.CreateCoinsTx(n.cfg, nil, n.payers[to].addr, amt)
	tx.Nonce = int64(n.nextID)
	n.nextID++
	tx.Sign(types.SECP256K1, n.payers[from].priv)
	return tx
}

func (n *node) scriptTxUnsigned(fee int64, execer string, p payload) *types.Transaction {
	b, _ := json.Marshal(p)
	tx := &types.Transaction{Execer: []byte(execer), Payload: b, To: address.ExecAddress(execer)}
	tx, err := types.FormatTx(n.cfg, execer, tx)
	if err != nil {
		panic(err)
	}
	if tx.Fee < fee {
		tx.Fee = fee
	}
	tx.Nonce = int64(n.nextID)
	n.nextID++
	return tx
}

func (n *node) scriptTx(from int, fee int64, execer string, p payload) *types.Transaction {
	tx := n.scriptTxUnsigned(fee, execer, p)
	tx.Sign(types.SECP256K1, n.payers[from].priv)
	return tx
}

// ---------------------------------------------------------------- Gallina rendering

func isASCII(b []byte) bool {
	for _, c := range b {
		if c < 0x20 || c > 0x7e || c == '"' {
			return false
		}
	}
	return true
}

var names = map[string]string{}

func bt(b []byte) string {
	if len(b) == 0 {
		return "[]"
	}
	if nm, ok := names[string(b)]; ok {
		return nm
	}
	if isASCII(b) {
		return `(bs "` + string(b) + `")`
	}
	return hlib.Hx(b)
}

func bx(s string) string { return bt([]byte(s)) }

// stVal renders a state value: account values are canonicalised to (eb balance).
func (n *node) stVal(k, v []byte) string {
	if strings.HasPrefix(string(k), n.accPre) && len(v) > 0 {
		var acc types.Account
		if err := types.Decode(v, &acc); err == nil {
			return "(eb " + hlib.Z(acc.Balance) + ")"
		}
	}
	return bt(v)
}

// stKey renders a state key: account keys are canonicalised to the model's acc_key.
func (n *node) stKey(k []byte) string {
	if strings.HasPrefix(string(k), n.accPre) {
		if nm, ok := names[string(k[len(n.accPre):])]; ok {
			return "K" + nm[1:]
		}
		return "(acc_key " + bx(string(k[len(n.accPre):])) + ")"
	}
	return bt(k)
}

func (n *node) kvList(kvs [][2][]byte, state bool) string {
	it := make([]string, len(kvs))
	for i, e := range kvs {
		if state {
			it[i] = hlib.Pair(n.stKey(e[0]), n.stVal(e[0], e[1]))
		} else {
			it[i] = hlib.Pair(bt(e[0]), bt(e[1]))
		}
	}
	return hlib.List(it)
}

func opTerm(o Op) string {
	switch o.O {
	case "sset":
		return hlib.App("SSet", bx(o.K), bx(o.V))
	case "ssetonly":
		return hlib.App("SSetOnly", bx(o.K), bx(o.V))
	case "skv":
		return hlib.App("SKV", bx(o.K), bx(o.V))
	case "sget":
		return hlib.App("SGet", bx(o.K))
	case "xlget":
		return hlib.App("XLGet", bx(o.K))
	case "xllist":
		return hlib.App("XLList", bx(o.K))
	case "xlset":
		return hlib.App("XLSet", bx(o.K), bx(o.V))
	case "sfail":
		return "SFail"
	case "spanic":
		return "SPanic"
	case "lset":
		return hlib.App("LSet", bx(o.K), bx(o.V))
	case "lsetonly":
		return hlib.App("LSetOnly", bx(o.K), bx(o.V))
	case "lkv":
		return hlib.App("LKV", bx(o.K), bx(o.V))
	case "lget":
		return hlib.App("LGet", bx(o.K))
	case "llist":
		return hlib.App("LList", bx(o.K))
	case "lfail":
		return "LFail"
	case "begin":
		return "XBegin"
	case "commit":
		return "XCommit"
	case "rollback":
		return "XRollback"
	case "set":
		return hlib.App("XSet", bx(o.K), bx(o.V))
	case "get":
		return hlib.App("XGet", bx(o.K))
	case "list":
		return hlib.App("XList", bx(o.K))
	}
	panic("bad op " + o.O)
}

func opsTerm(ops []Op) string {
	it := make([]string, len(ops))
	for i, o := range ops {
		it[i] = opTerm(o)
	}
	return hlib.List(it)
}

func obsTerm(o obsRec) string {
	switch o.Kind {
	case "S":
		return "(OS " + hlib.Opt(o.Some, bt(o.Val)) + ")"
	case "V":
		return "(OV " + hlib.Opt(o.Some, bt(o.Val)) + ")"
	case "L":
		it := make([]string, len(o.List))
		for i, v := range o.List {
			it[i] = bt(v)
		}
		return "(OL " + hlib.List(it) + ")"
	case "D":
		return "ODis"
	}
	// unexpected error: a term no model produces
	return `(OV (Some (bs "` + strings.ReplaceAll(o.Kind, `"`, "'") + `")))`
}

// ---------------------------------------------------------------- block cases

func (n *node) doBlock(o *hlib.Out, kind string, in inp) {
	// build the transactions
	txs := make([]*types.Transaction, len(in.Txs))
	ids := make([]int, len(in.Txs))
	fees := make([]int64, len(in.Txs))
	for i := 0; i < len(in.Txs); {
		t := in.Txs[i]
		j := i + 1
		if t.Group > 0 {
			for j < len(in.Txs) && in.Txs[j].Group == t.Group {
				j++
			}
		}
		var raw []*types.Transaction
		for k := i; k < j; k++ {
			tk := in.Txs[k]
			var tx *types.Transaction
			if tk.Kind == "coins" {
				tx = util.CreateCoinsTx(n.cfg, nil, n.payers[tk.To].addr, tk.Amt)
				if tx.Fee < tk.Fee {
					tx.Fee = tk.Fee
				}
				tx.Nonce = int64(n.nextID)
				n.nextID++
			} else {
				ex := stName
				if tk.Kind == "no" {
					ex = noName
				}
				ids[k] = n.nextID
				tx = n.scriptTxUnsigned(tk.Fee, ex, payload{ID: n.nextID, Ex: tk.Ex, Lo: tk.Lo})
			}
			raw = append(raw, tx)
		}
		if j-i >= 2 {
			g, err := types.CreateTxGroup(raw, n.cfg.GetMinTxFeeRate())
			if err != nil {
				panic(err)
			}
			for k := i; k < j; k++ {
				_ = g.SignN(k-i, types.SECP256K1, n.payers[in.Txs[k].From].priv)
			}
			raw = g.GetTxs()
		} else {
			raw[0].Sign(types.SECP256K1, n.payers[t.From].priv)
		}
		for k := i; k < j; k++ {
			txs[k] = raw[k-i]
			fees[k] = raw[k-i].Fee
		}
		i = j
	}
	list := &types.ExecTxList{
		StateHash:  n.base.StateHash,
		ParentHash: n.base.Hash(n.cfg),
		Txs:        txs,
		BlockTime:  n.base.BlockTime + 10,
		Height:     n.base.Height + 1,
		Difficulty: uint64(n.base.Difficulty),
	}
	traces = map[int][]obsRec{}
	recording = true
	cl := n.mock.GetClient()
	msg := cl.NewMessage("execs", types.EventExecTxList, list)
	if err := cl.Send(msg, true); err != nil {
		panic(err)
	}
	resp, err := cl.Wait(msg)
	recording = false
	var rs *types.Receipts
	if err == nil {
		rs, _ = resp.GetData().(*types.Receipts)
	}
	// render
	var items []string
	for i := 0; i < len(in.Txs); {
		j := i + 1
		if in.Txs[i].Group > 0 {
			for j < len(in.Txs) && in.Txs[j].Group == in.Txs[i].Group {
				j++
			}
		}
		var ms []string
		for k := i; k < j; k++ {
			t := in.Txs[k]
			var body string
			switch t.Kind {
			case "coins":
				body = hlib.App("BCoins", bx(n.payers[t.To].addr), hlib.Z(t.Amt))
			case "st":
				body = hlib.App("BScript", "0%N", opsTerm(t.Ex), opsTerm(t.Lo))
			default:
				body = hlib.App("BScript", "1%N", opsTerm(t.Ex), opsTerm(t.Lo))
			}
			ms = append(ms, hlib.App("T", bx(n.payers[t.From].addr), hlib.Z(fees[k]), body))
		}
		if j-i >= 2 {
			items = append(items, hlib.App("IGroup", hlib.List(ms)))
		} else {
			items = append(items, hlib.App("ISingle", ms[0]))
		}
		i = j
	}
	var rcs, trs []string
	implOut := []interface{}{}
	failedSeen, nontrivial := false, false
	for i := range in.Txs {
		ty := uint64(99)
		var kvs [][2][]byte
		var logs []string
		if rs != nil && i < len(rs.Receipts) {
			rc := rs.Receipts[i]
			ty = uint64(rc.Ty)
			for _, kv := range rc.KV {
				kvs = append(kvs, [2][]byte{kv.Key, kv.Value})
			}
			for _, lg := range rc.Logs {
				logs = append(logs, hlib.N(uint64(lg.Ty)))
			}
		}
		rcs = append(rcs, hlib.App("Rc", hlib.N(ty), n.kvList(kvs, true), hlib.List(logs)))
		var tr []string
		for _, ob := range traces[ids[i]] {
			tr = append(tr, obsTerm(ob))
		}
		if in.Txs[i].Kind == "coins" {
			tr = nil
		}
		trs = append(trs, hlib.List(tr))
		if failedSeen && len(tr) > 0 {
			nontrivial = true
		}
		if ty == types.ExecPack {
			failedSeen = true
		}
		implOut = append(implOut, map[string]interface{}{"ty": ty, "nkv": len(kvs), "reads": len(tr)})
	}
	o.Emit(kind, nontrivial,
		hlib.App("CBlock", n.kvList(n.store, true), n.kvList(n.main, false), hlib.List(items), hlib.List(rcs), hlib.List(trs)),
		in, map[string]interface{}{"receipts": implOut, "err": fmt.Sprint(err)})
}

// ---------------------------------------------------------------- block generators

type gen struct {
	r       *hlib.Rng
	guarded bool
}

func (g *gen) value(i int) string {
	if g.r.Chance(1, 10) {
		return ""
	}
	return fmt.Sprintf("%c%d", 'p'+g.r.Intn(4), i%10)
}

func ownKey(r *hlib.Rng, kind string) string {
	return "mavl-verif" + kind + "-" + hlib.Pick(r, []string{"a", "b", "c", "d"})
}

// script generates the two scripts of a synthetic transaction; fail: may it fail; lw: may it write local data
func (g *gen) script(i int, kind string, fail, lw bool) ([]Op, []Op) {
	r := g.r
	var ex, lo []Op
	ne := r.Intn(6)
	for j := 0; j < ne; j++ {
		switch r.Intn(12) {
		case 0, 1, 2:
			ex = append(ex, Op{"sset", ownKey(r, kind), g.value(i)})
		case 3:
			ex = append(ex, Op{"skv", ownKey(r, kind), g.value(i)})
		case 4, 5, 6:
			ex = append(ex, Op{"sget", hlib.Pick(r, stateKeys), ""})
		case 7, 8:
			ex = append(ex, Op{"xlget", hlib.Pick(r, localKeys), ""})
		case 9, 10:
			ex = append(ex, Op{"xllist", hlib.Pick(r, localPrefixes), ""})
		default:
			if fail {
				switch r.Intn(6) {
				case 0:
					ex = append(ex, Op{"ssetonly", ownKey(r, kind), g.value(i)})
				case 1:
					other := "st"
					if kind == "st" {
						other = "no"
					}
					ex = append(ex, Op{hlib.Pick(r, []string{"sset", "skv"}), ownKey(r, other), g.value(i)})
				case 2:
					ex = append(ex, Op{"xlset", hlib.Pick(r, localKeys), g.value(i)})
				case 3:
					ex = append(ex, Op{"spanic", "", ""})
				default:
					ex = append(ex, Op{"sfail", "", ""})
				}
			}
		}
	}
	if kind == "st" && fail && !lw && r.Chance(1, 2) {
		// a local writer that flushes (List) before it fails: Rollback finds nothing buffered
		var keep []Op
		for _, o := range ex {
			switch o.O {
			case "sget", "xlget", "xllist":
				keep = append(keep, o)
			case "sset", "skv":
				if strings.HasPrefix(o.K, "mavl-verif"+kind+"-") {
					keep = append(keep, o)
				}
			}
		}
		ex = keep
		for j := r.Range(1, 2); j > 0; j-- {
			lo = append(lo, Op{"lset", hlib.Pick(r, localKeys), g.value(i)})
		}
		lo = append(lo, Op{"llist", hlib.Pick(r, localPrefixes), ""})
		if r.Chance(1, 2) {
			lo = append(lo, Op{"lget", hlib.Pick(r, localKeys), ""})
		}
		lo = append(lo, Op{"lfail", "", ""})
		return ex, lo
	}
	if kind == "st" || r.Chance(1, 5) {
		nl := r.Intn(5)
		for j := 0; j < nl; j++ {
			switch r.Intn(10) {
			case 0, 1:
				if lw {
					lo = append(lo, Op{"lset", hlib.Pick(r, localKeys), g.value(i)})
				}
			case 2, 3:
				if lw {
					lo = append(lo, Op{"lkv", hlib.Pick(r, localKeys), g.value(i)})
				}
			case 4, 5:
				lo = append(lo, Op{"lget", hlib.Pick(r, localKeys), ""})
			case 6, 7, 8:
				lo = append(lo, Op{"llist", hlib.Pick(r, localPrefixes), ""})
			default:
				if fail {
					if lw && r.Chance(1, 2) {
						lo = append(lo, Op{"lsetonly", hlib.Pick(r, localKeys), g.value(i)})
					} else {
						lo = append(lo, Op{"lfail", "", ""})
					}
				}
			}
		}
	}
	return ex, lo
}

func (g *gen) tx(i int, fail, lw, coinsOK bool) Tx {
	r := g.r
	t := Tx{From: hlib.Pick(r, []int{0, 0, 0, 1, 1, 2, 3}), Fee: int64(1000000 * r.Range(1, 2))}
	if coinsOK && r.Chance(1, 5) {
		t.Kind = "coins"
		t.To = r.Intn(4)
		t.Amt = hlib.Pick(r, []int64{1, 500000, 1500000, 3000000, 6000000})
		if !fail && t.To == t.From {
			t.To = (t.To + 1) % 4
		}
		return t
	}
	t.Kind = hlib.Pick(r, []string{"st", "st", "no"})
	t.Ex, t.Lo = g.script(i, t.Kind, fail, lw)
	return t
}

// block: guarded = no Rollback can happen while local writes are buffered
// (a transaction or group that may fail writes no local data; coins transfers, which
// fail on low balances, are not grouped with local writers)
func (g *gen) block(maxItems int) inp {
	r := g.r
	in := inp{Op: "block"}
	ni := r.Range(1, maxItems)
	gid := 0
	for it := 0; it < ni && len(in.Txs) < 20; it++ {
		mayFail := r.Chance(1, 3)
		lw := true
		if g.guarded && mayFail {
			lw = false
		}
		if r.Chance(1, 4) {
			gid++
			m := r.Range(2, 4)
			failAt := -1
			if mayFail {
				failAt = r.Intn(m)
			}
			for k := 0; k < m; k++ {
				t := g.tx(len(in.Txs), k == failAt, lw, !g.guarded || !lw || mayFail && !lw)
				if g.guarded && t.Kind == "coins" && lw {
					t = g.tx(len(in.Txs), k == failAt, lw, false)
				}
				t.Group = gid
				in.Txs = append(in.Txs, t)
			}
		} else {
			in.Txs = append(in.Txs, g.tx(len(in.Txs), mayFail, lw, true))
		}
	}
	// a reader at the end
	rd := Tx{From: 0, Fee: 1000000, Kind: "st"}
	for _, k := range []string{"mavl-verifst-a", "mavl-verifno-a", hlib.Pick(r, stateKeys)} {
		rd.Ex = append(rd.Ex, Op{"sget", k, ""})
	}
	rd.Ex = append(rd.Ex, Op{"xlget", hlib.Pick(r, localKeys), ""})
	rd.Lo = append(rd.Lo, Op{"llist", "LODB-verifst-", ""}, Op{"lget", hlib.Pick(r, localKeys), ""})
	if len(in.Txs) < 20 {
		in.Txs = append(in.Txs, rd)
	}
	return in
}

// the block-level witness of the known finding
func witnessBlocks() []inp {
	w1 := inp{Op: "block", Txs: []Tx{
		{From: 0, Fee: 1000000, Kind: "st", Group: 1, Lo: []Op{{"lset", "LODB-verifst-d", "W"}}},
		{From: 0, Fee: 1000000, Kind: "no", Group: 1, Ex: []Op{{"sfail", "", ""}}},
		{From: 0, Fee: 1000000, Kind: "st", Lo: []Op{{"llist", "LODB-verifst-", ""}}},
	}}
	w2 := inp{Op: "block", Txs: []Tx{
		{From: 0, Fee: 1000000, Kind: "st", Lo: []Op{{"lset", "LODB-verifst-d", "W"}, {"lfail", "", ""}}},
		{From: 0, Fee: 1000000, Kind: "st", Lo: []Op{{"lkv", "LODB-verifst-c", "x"}}},
		{From: 0, Fee: 1000000, Kind: "st", Ex: []Op{{"xlget", "LODB-verifst-d", ""}}},
	}}
	return []inp{w1, w2}
}

func fixedBlocks() []inp {
	return []inp{
		{Op: "block", Txs: []Tx{{From: 0, Fee: 1000000, Kind: "st", Ex: []Op{{"sget", "mavl-verifst-a", ""}}}}},
		{Op: "block", Txs: []Tx{
			{From: 0, Fee: 1000000, Kind: "st", Ex: []Op{{"sset", "mavl-verifst-a", "X"}, {"sfail", "", ""}}},
			{From: 0, Fee: 1000000, Kind: "no", Ex: []Op{{"sget", "mavl-verifst-a", ""}}}}},
		{Op: "block", Txs: []Tx{
			{From: 2, Fee: 1000000, Kind: "st", Ex: []Op{{"sset", "mavl-verifst-a", "X"}}},
			{From: 0, Fee: 1000000, Kind: "coins", To: 2, Amt: 1500000},
			{From: 2, Fee: 1000000, Kind: "st", Ex: []Op{{"sset", "mavl-verifst-a", "Y"}}},
			{From: 2, Fee: 1000000, Kind: "no", Ex: []Op{{"sget", "mavl-verifst-a", ""}}}}},
		{Op: "block", Txs: []Tx{
			{From: 1, Fee: 1000000, Kind: "st", Group: 1, Ex: []Op{{"sset", "mavl-verifst-b", "G"}}},
			{From: 0, Fee: 1000000, Kind: "coins", Group: 1, To: 2, Amt: 1},
			{From: 0, Fee: 1000000, Kind: "no", Group: 1, Ex: []Op{{"sget", "mavl-verifst-b", ""}, {"spanic", "", ""}}},
			{From: 0, Fee: 1000000, Kind: "no", Ex: []Op{{"sget", "mavl-verifst-b", ""}}}}},
	}
}

// ---------------------------------------------------------------- cheap layer

func (n *node) doOps(o *hlib.Out, kind string, in inp) {
	ldb := executor.NewLocalDB(n.mock.GetClient(), n.mock.GetAPI(), false)
	defer ldb.(*executor.LocalDB).Close()
	var outs []string
	nontrivial := false
	afterRb := false
	for _, op := range in.Ops {
		switch op.O {
		case "begin":
			ldb.Begin()
			outs = append(outs, "XUnit")
		case "commit":
			_ = ldb.Commit()
			outs = append(outs, "XUnit")
		case "rollback":
			ldb.Rollback()
			afterRb = true
			outs = append(outs, "XUnit")
		case "set":
			_ = ldb.Set([]byte(op.K), val(op.V))
			outs = append(outs, "XUnit")
		case "get", "list":
			recording = true
			traces = map[int][]obsRec{}
			if op.O == "get" {
				localGet(ldb, 0, op.K)
			} else {
				localList(ldb, 0, op.K)
			}
			recording = false
			outs = append(outs, "(XObs "+obsTerm(traces[0][0])+")")
			if afterRb {
				nontrivial = true
			}
		}
	}
	o.Emit(kind, nontrivial, hlib.App("COps", n.kvList(n.main, false), opsTerm(in.Ops), hlib.List(outs)),
		in, map[string]interface{}{"outs": len(outs)})
}

func genOps(r *hlib.Rng, mode string) inp {
	in := inp{Op: "ops"}
	nops := r.Range(3, 25)
	intx := false
	dirty := false // writes buffered since the last flush
	for i := 0; i < nops; i++ {
		c := r.Intn(10)
		if mode == "free" {
			switch c {
			case 0:
				in.Ops = append(in.Ops, Op{"begin", "", ""})
			case 1:
				in.Ops = append(in.Ops, Op{"commit", "", ""})
			case 2:
				in.Ops = append(in.Ops, Op{"rollback", "", ""})
			case 3, 4, 5:
				in.Ops = append(in.Ops, Op{"set", hlib.Pick(r, localKeys), fmt.Sprintf("s%d", i)})
			case 6, 7:
				in.Ops = append(in.Ops, Op{"get", hlib.Pick(r, localKeys), ""})
			default:
				in.Ops = append(in.Ops, Op{"list", hlib.Pick(r, localPrefixes), ""})
			}
			continue
		}
		if !intx {
			switch {
			case c < 5:
				in.Ops = append(in.Ops, Op{"begin", "", ""})
				intx = true
			case c < 8:
				in.Ops = append(in.Ops, Op{"get", hlib.Pick(r, localKeys), ""})
			default:
				in.Ops = append(in.Ops, Op{"list", hlib.Pick(r, localPrefixes), ""})
			}
			continue
		}
		switch c {
		case 0:
			in.Ops = append(in.Ops, Op{"commit", "", ""})
			intx, dirty = false, false
		case 1:
			if mode == "guarded" && dirty {
				in.Ops = append(in.Ops, Op{"list", hlib.Pick(r, localPrefixes), ""})
			}
			in.Ops = append(in.Ops, Op{"rollback", "", ""})
			intx, dirty = false, false
		case 2, 3, 4:
			v := fmt.Sprintf("s%d", i)
			if r.Chance(1, 8) {
				v = ""
			}
			in.Ops = append(in.Ops, Op{"set", hlib.Pick(r, localKeys), v})
			dirty = true
		case 5, 6, 7:
			in.Ops = append(in.Ops, Op{"get", hlib.Pick(r, localKeys), ""})
		default:
			in.Ops = append(in.Ops, Op{"list", hlib.Pick(r, localPrefixes), ""})
			dirty = false
		}
	}
	return in
}

// ---------------------------------------------------------------- main

func main() {
	opts := hlib.ParseFlags()
	o := hlib.NewOut(opts.OutDir)
	defer o.Close()
	log.SetLogLevel("crit")
	n := newNode()
	_ = hex.EncodeToString
	// environment case: the constants of Check.v are the strings used here
	var env []string
	for i, p := range n.payers {
		env = append(env, `(bs "`+p.addr+`")`)
		names[p.addr] = fmt.Sprintf("A%d", i)
	}
	var kn []string
	for i, k := range stateKeys {
		kn = append(kn, `(bs "`+k+`")`)
		names[k] = fmt.Sprintf("s%d", i)
	}
	for i, k := range localKeys {
		kn = append(kn, `(bs "`+k+`")`)
		names[k] = fmt.Sprintf("l%d", i)
	}
	kn = append(kn, `(bs "`+localPrefixes[0]+`")`, `(bs "`+localPrefixes[3]+`")`)
	names[localPrefixes[0]] = "lp"
	names[localPrefixes[3]] = "lx"
	o.Emit("env", true, hlib.App("CEnv", hlib.List(env), hlib.List(kn)), inp{Op: "env"}, nil)

	if opts.Replay != "" {
		var in inp
		if err := hlib.ReplayInput(opts.Replay, &in); err != nil {
			panic(err)
		}
		if in.Op == "env" {
			return
		}
		if in.Op == "ops" {
			n.doOps(o, "replay", in)
		} else {
			n.doBlock(o, "replay", in)
		}
		return
	}
	r := hlib.NewRng(opts.Seed)
	mul := 1
	if opts.Thorough() {
		mul = 15
	}
	// cheap layer
	n.doOps(o, "ops-witness", inp{Op: "ops", Ops: []Op{{"begin", "", ""}, {"set", "LODB-verifst-d", "1"}, {"rollback", "", ""},
		{"begin", "", ""}, {"set", "LODB-verifst-c", "2"}, {"commit", "", ""}, {"list", "LODB-verifst-", ""}}})
	ro := r.Fork()
	for i := 0; i < 100*mul; i++ {
		n.doOps(o, "ops-guarded", genOps(ro, "guarded"))
	}
	for i := 0; i < 60*mul; i++ {
		n.doOps(o, "ops-unrestricted", genOps(ro, "open"))
	}
	for i := 0; i < 40*mul; i++ {
		n.doOps(o, "ops-unbracketed", genOps(ro, "free"))
	}
	// blocks
	for _, in := range fixedBlocks() {
		n.doBlock(o, "block-fixed", in)
	}
	for _, in := range witnessBlocks() {
		n.doBlock(o, "block-witness", in)
	}
	gg := &gen{r: r.Fork(), guarded: true}
	for i := 0; i < 70*mul; i++ {
		mx := 3
		if i > 30 {
			mx = 8
		}
		n.doBlock(o, "block-guarded", gg.block(mx))
	}
	gu := &gen{r: r.Fork(), guarded: false}
	for i := 0; i < 50*mul; i++ {
		mx := 3
		if i > 20 {
			mx = 8
		}
		n.doBlock(o, "block-unrestricted", gu.block(mx))
	}
}
