// hC24: runs push/remove/walk histories on common/skiplist.Queue and records
// every API-level observable per operation.
package main

import (
	"encoding/json"
	"fmt"
	"math"
	"math/rand"
	"strings"

	"github.com/33cn/chain33/common/skiplist"
	"github.com/33cn/chain33/types"
	"verifharness/hlib"
)

// sc is the Scorer used by the harness: Compare orders by rank.
type sc struct {
	key               int
	score, rank, size int64
	seq               int
}

func (s *sc) GetScore() int64 { return s.score }
func (s *sc) Hash() []byte    { return []byte(keyHash(s.key)) }
func (s *sc) ByteSize() int64 { return s.size }
func (s *sc) Compare(o skiplist.Scorer) int {
	r := o.(*sc).rank
	if s.rank > r {
		return skiplist.Big
	} else if s.rank == r {
		return skiplist.Equal
	}
	return skiplist.Small
}

func keyHash(k int) string { return fmt.Sprintf("key-%d", k) }

// Op is one operation of a history (the replay format).
type Op struct {
	K     string `json:"k"` // push | remove | walk
	Key   int    `json:"key,omitempty"`
	Score int64  `json:"score,omitempty"`
	Rank  int64  `json:"rank,omitempty"`
	Size  int64  `json:"size,omitempty"`
	Count int    `json:"count,omitempty"`
	Snap  bool   `json:"snap,omitempty"`
	Probe []int  `json:"probe,omitempty"` // keys for Exist/GetItem when Snap (nil: all keys)
}

// Hist is a whole history.
type Hist struct {
	Cap   int64  `json:"cap"`
	NKeys int    `json:"nkeys"`
	Ops   []Op   `json:"ops"`
	Skip  *SHist `json:"skip,omitempty"` // layer 2: a SkipList history instead of a Queue history
}

// Snap is the observer snapshot after an operation. -1 = nil, -2 = panic.
type Snap struct {
	Walk   []int    `json:"walk"`
	First  int      `json:"first"`
	Last   int      `json:"last"`
	Size   int      `json:"size"`
	Bytes  int64    `json:"bytes"`
	Probes [][2]int `json:"probes"` // (key, code): 0 absent, stamp+1 present, negative inconsistent
}

// StepOut is what one operation returned.
type StepOut struct {
	Err  int   `json:"err"` // 0 ok 1 exist 2 full 3 notfound 4 panic 9 other; -1 for walk
	List []int `json:"list,omitempty"`
	Snap *Snap `json:"snap,omitempty"`
}

func errClass(err error) int {
	switch err {
	case nil:
		return 0
	case types.ErrTxExist:
		return 1
	case types.ErrMemFull:
		return 2
	case types.ErrNotFound:
		return 3
	}
	return 9
}

func seqOf(s skiplist.Scorer) int {
	if s == nil {
		return -1
	}
	p, ok := s.(*sc)
	if !ok || p == nil {
		return -1
	}
	return p.seq
}

func guardInt(f func() int) (r int) {
	defer func() {
		if e := recover(); e != nil {
			r = -2
		}
	}()
	return f()
}

func walkAll(q *skiplist.Queue, count int) (out []int) {
	out = []int{}
	defer func() {
		if e := recover(); e != nil {
			out = append(out, -2)
		}
	}()
	q.Walk(count, func(v skiplist.Scorer) bool {
		out = append(out, seqOf(v))
		return true
	})
	return out
}

func snapshot(q *skiplist.Queue, nkeys int, probe []int) *Snap {
	s := &Snap{}
	s.Walk = walkAll(q, 0)
	s.First = guardInt(func() int { return seqOf(q.First()) })
	s.Last = guardInt(func() int { return seqOf(q.Last()) })
	s.Size = q.Size()
	s.Bytes = q.GetCacheBytes()
	if probe == nil {
		for k := 0; k < nkeys; k++ {
			probe = append(probe, k)
		}
	}
	s.Probes = [][2]int{}
	for _, k := range probe {
		ex := q.Exist(keyHash(k))
		it, err := q.GetItem(keyHash(k))
		code := -7
		switch {
		case err == types.ErrNotFound && it == nil && !ex:
			code = 0
		case err == nil && it != nil && ex && seqOf(it) >= 0:
			code = seqOf(it) + 1
		case ex && err != nil:
			code = -5
		case !ex && err == nil:
			code = -6
		}
		s.Probes = append(s.Probes, [2]int{k, code})
	}
	return s
}

// run executes the history on a fresh queue with math/rand seeded by rseed.
func run(h Hist, rseed int64) []StepOut {
	rand.Seed(rseed) //nolint
	q := skiplist.NewQueue(h.Cap)
	outs := make([]StepOut, 0, len(h.Ops))
	for i, o := range h.Ops {
		var so StepOut
		switch o.K {
		case "push":
			it := &sc{key: o.Key, score: o.Score, rank: o.Rank, size: o.Size, seq: i}
			so.Err = guardInt(func() int { return errClass(q.Push(it)) })
			if so.Err == -2 {
				so.Err = 4
			}
		case "remove":
			so.Err = guardInt(func() int { return errClass(q.Remove(keyHash(o.Key))) })
			if so.Err == -2 {
				so.Err = 4
			}
		case "walk":
			so.Err = -1
			so.List = walkAll(q, o.Count)
		}
		if o.Snap {
			so.Snap = snapshot(q, h.NKeys, o.Probe)
		}
		outs = append(outs, so)
	}
	return outs
}

func ints(sb *strings.Builder, xs ...int64) {
	for _, x := range xs {
		if sb.Len() > 0 {
			sb.WriteString("; ")
		}
		fmt.Fprintf(sb, "%d", x)
	}
}

func seqCode(v int) int64 {
	if v < 0 {
		return -999999 // nil / panic marker inside a walk: never a valid stamp
	}
	return int64(v)
}

// coqCase renders the history in the flat layout documented in Check.v.
func coqCase(h Hist, outs []StepOut, det bool) string {
	steps := make([]string, len(h.Ops))
	for i, o := range h.Ops {
		var sb strings.Builder
		switch o.K {
		case "push":
			ints(&sb, 0, int64(o.Key), o.Score, o.Rank, o.Size, int64(outs[i].Err))
		case "remove":
			ints(&sb, 1, int64(o.Key), int64(outs[i].Err))
		case "walk":
			ints(&sb, 2, int64(o.Count), int64(len(outs[i].List)))
			for _, x := range outs[i].List {
				ints(&sb, seqCode(x))
			}
		}
		if s := outs[i].Snap; s != nil {
			ints(&sb, int64(s.First), int64(s.Last), int64(s.Size), s.Bytes, int64(len(s.Probes)))
			for _, p := range s.Probes {
				ints(&sb, int64(p[0]), int64(p[1]))
			}
			for _, x := range s.Walk {
				ints(&sb, seqCode(x))
			}
		}
		steps[i] = "[" + sb.String() + "]"
	}
	return hlib.App("CHist", fmt.Sprintf("(%d)", h.Cap), fmt.Sprint(h.NKeys), hlib.Bool(det), hlib.List(steps))
}

func emit(o *hlib.Out, kind string, h Hist) {
	a := run(h, 1)
	b := run(h, 0x5eed1234)
	c := run(h, 77777)
	ja, _ := json.Marshal(a)
	jb, _ := json.Marshal(b)
	jc, _ := json.Marshal(c)
	det := string(ja) == string(jb) && string(ja) == string(jc)
	// non-trivial: some Push was answered on a full queue (eviction or ErrMemFull)
	nontrivial := false
	size := 0
	for i, op := range h.Ops {
		switch op.K {
		case "push":
			if int64(size) >= h.Cap && (a[i].Err == 0 || a[i].Err == 2) {
				nontrivial = true
			}
			if a[i].Err == 0 && int64(size) < h.Cap {
				size++
			}
		case "remove":
			if a[i].Err == 0 {
				size--
			}
		}
	}
	o.Emit(kind, nontrivial, coqCase(h, a, det), h, a)
}

type gen struct {
	r *hlib.Rng
}

func (g *gen) hist(cap int64, nkeys, n int, scores, ranks, sizes []int64, pPush, pRemove int, snapEvery int) Hist {
	h := Hist{Cap: cap, NKeys: nkeys}
	for i := 0; i < n; i++ {
		var o Op
		x := g.r.Intn(100)
		switch {
		case x < pPush:
			o = Op{K: "push", Key: g.r.Intn(nkeys), Score: hlib.Pick(g.r, scores), Rank: hlib.Pick(g.r, ranks), Size: hlib.Pick(g.r, sizes)}
		case x < pPush+pRemove:
			o = Op{K: "remove", Key: g.r.Intn(nkeys)}
		default:
			o = Op{K: "walk", Count: g.r.Range(-1, int(cap)+2)}
		}
		o.Snap = snapEvery <= 1 || i%snapEvery == snapEvery-1 || i == n-1
		if o.Snap && i != n-1 {
			o.Probe = []int{g.r.Intn(nkeys)}
			if o.K != "walk" {
				o.Probe = append(o.Probe, o.Key)
			}
		}
		h.Ops = append(h.Ops, o)
	}
	return h
}

func (g *gen) subset(pool []int64, k int) []int64 {
	out := make([]int64, k)
	for i := range out {
		out[i] = hlib.Pick(g.r, pool)
	}
	return out
}

func main() {
	opts := hlib.ParseFlags()
	o := hlib.NewOut(opts.OutDir)
	defer o.Close()
	if opts.Replay != "" {
		var h Hist
		if err := hlib.ReplayInput(opts.Replay, &h); err != nil {
			panic(err)
		}
		if h.Skip != nil {
			emitSkip(o, "replay", *h.Skip)
			return
		}
		emit(o, "replay", h)
		return
	}
	g := &gen{r: hlib.NewRng(opts.Seed)}
	mult := 1
	if opts.Thorough() {
		mult = 20
	}
	smallScores := []int64{-3, -2, -1, 0, 1, 2, 3}
	sizes := []int64{0, 1, 2, 7, 100, 1000, -1}
	ranks := []int64{0, 1, 2}

	// fixed tiny histories first (hand-written corner cases)
	p := func(k int, s, rk, z int64) Op { return Op{K: "push", Key: k, Score: s, Rank: rk, Size: z, Snap: true} }
	rm := func(k int) Op { return Op{K: "remove", Key: k, Snap: true} }
	wk := func(c int) Op { return Op{K: "walk", Count: c, Snap: true} }
	fixed := []Hist{
		{Cap: 1, NKeys: 3, Ops: []Op{p(0, 1, 0, 5), p(1, 1, 0, 6), p(1, 1, 1, 6), p(2, 2, 0, 7), p(0, 1, 0, 5), rm(2), rm(2), p(0, -1, 0, 1)}},
		{Cap: 2, NKeys: 4, Ops: []Op{p(0, 5, 1, 1), p(1, 5, 3, 2), p(2, 5, 2, 3), p(3, 5, 4, 4), wk(1), wk(0), wk(-1), wk(2), wk(3)}},
		{Cap: 3, NKeys: 4, Ops: []Op{p(0, -1, 0, 1), p(1, -1, 0, 2), p(2, -2, 0, 3), p(3, -2, 0, 4), p(3, -2, 5, 4), p(3, -1, 0, 4), rm(0), rm(1), rm(3), rm(2), p(0, 0, 0, 9)}},
		{Cap: 2, NKeys: 3, Ops: []Op{p(0, math.MaxInt64, 0, 1), p(1, math.MinInt64, 0, 1), p(2, 0, 0, 1), p(2, math.MinInt64, 1, 1), rm(0), p(0, -1, 0, 1)}},
	}
	for _, h := range fixed {
		emit(o, "fixed", h)
	}
	// capacity <= 0 (former finding 1): the queue is full while empty, every Push is ErrMemFull
	for _, c := range []int64{0, -1, math.MinInt64} {
		emit(o, "edge-cap-nonpositive", Hist{Cap: c, NKeys: 2, Ops: []Op{p(0, 1, 0, 1)}})
		emit(o, "edge-cap-nonpositive", Hist{Cap: c, NKeys: 2, Ops: []Op{wk(0), rm(0), p(0, 1, 0, 1), p(1, 2, 0, 1), rm(0), p(0, 1, 3, 1), wk(1)}})
	}
	ge := &gen{r: hlib.NewRng(opts.Seed + 2400)} // own stream: the other streams stay as they were
	for i := 0; i < 12*mult; i++ {
		c := hlib.Pick(ge.r, []int64{0, 0, -1, -2, math.MinInt64})
		h := ge.hist(1, ge.r.Range(1, 3), ge.r.Range(3, 12), ge.subset(smallScores, ge.r.Range(1, 3)), ranks, sizes, 70, 15, 1)
		h.Cap = c
		emit(o, "edge-cap-nonpositive", h)
	}

	// small capacities, few scores: ties, evictions and rejections everywhere
	for i := 0; i < 200*mult; i++ {
		cap := int64(g.r.Range(1, 5))
		nk := int(cap) + g.r.Range(1, 4)
		sc := g.subset(smallScores, g.r.Range(1, 4))
		emit(o, "small", g.hist(cap, nk, g.r.Range(4, 28), sc, ranks, sizes, 62, 25, 1))
	}
	// all scores equal: only the tie-break and arrival order matter
	for i := 0; i < 60*mult; i++ {
		cap := int64(g.r.Range(1, 5))
		nk := int(cap) + g.r.Range(1, 4)
		s := hlib.Pick(g.r, []int64{-7, 0, 3})
		emit(o, "ties", g.hist(cap, nk, g.r.Range(6, 30), []int64{s}, []int64{0, 0, 1, 2, 3}, sizes, 65, 25, 1))
	}
	// extreme scores
	ext := []int64{math.MinInt64, math.MinInt64 + 1, -1, 0, 1, math.MaxInt64 - 1, math.MaxInt64}
	for i := 0; i < 40*mult; i++ {
		cap := int64(g.r.Range(1, 5))
		nk := int(cap) + g.r.Range(1, 4)
		emit(o, "extreme", g.hist(cap, nk, g.r.Range(6, 30), ext, ranks, []int64{1, math.MaxInt32, -5}, 62, 25, 1))
	}
	// fill, then many newcomers against a full queue
	for i := 0; i < 60*mult; i++ {
		cap := int64(g.r.Range(1, 5))
		nk := int(cap) + g.r.Range(2, 6)
		sc := g.subset(smallScores, g.r.Range(2, 5))
		emit(o, "full-queue", g.hist(cap, nk, g.r.Range(10, 30), sc, ranks, sizes, 88, 6, 1))
	}
	// larger queues with many distinct scores: several skip-list levels, deletions in the middle
	for i := 0; i < 8*mult; i++ {
		cap := int64(g.r.Range(12, 40))
		nk := int(cap) + g.r.Range(4, 20)
		var sc []int64
		for s := -40; s <= 40; s++ {
			sc = append(sc, int64(s))
		}
		h := g.hist(cap, nk, g.r.Range(120, 250), sc, ranks, sizes, 58, 36, 20)
		emit(o, "large", h)
	}
	// layer 2: the SkipList itself
	skipStreams(o, opts.Seed, mult)
}
