// Layer 2 of C24: drives the real common/skiplist.SkipList (Insert / Delete /
// Find / FindGreaterOrEqual / in-place update of a found value) with a seeded
// math/rand and records every result together with Len, Level, FindCount, the
// forward walk, the backward walk over prev pointers, First and Last.
//
// The rand.Int() results randomLevel consumes are re-computed by a second
// generator with the same seed that is advanced in lock-step (one draw per loop
// test of randomLevel) and handed to the Coq model as its input stream.
package main

import (
	"fmt"
	"math"
	"math/rand"
	"strings"

	"github.com/33cn/chain33/common/skiplist"
	"verifharness/hlib"
)

// SOp is one SkipList operation. K: ins | del | find | ge | upd.
type SOp struct {
	K     string `json:"k"`
	Score int64  `json:"score"`
	Val   int    `json:"val,omitempty"`
	Snap  bool   `json:"snap,omitempty"`
}

// SHist is one SkipList history.
type SHist struct {
	Seed int64 `json:"seed"`
	Ops  []SOp `json:"ops"`
}

// SSnap is the observer snapshot of the SkipList. Entries are (score, value id).
type SSnap struct {
	Len, Level, FindCount int
	First, Last           *[2]int64
	Fwd, Bwd              [][2]int64
}

// SOut is what one operation returned.
type SOut struct {
	Ret   int64   `json:"ret"` // Insert/Delete return value, upd: 1 found 0 not; -99 panic
	Found bool    `json:"found,omitempty"`
	FS    int64   `json:"fs,omitempty"`
	FV    int64   `json:"fv,omitempty"`
	Snap  *SSnap  `json:"snap,omitempty"`
	Draws []int64 `json:"draws,omitempty"`
}

const panicRet = -99

func svEntry(v *skiplist.SkipValue) [2]int64 {
	id := int64(-1)
	if n, ok := v.Value.(int); ok {
		id = int64(n)
	}
	return [2]int64{v.Score, id}
}

func skipSnap(sl *skiplist.SkipList) *SSnap {
	s := &SSnap{Len: sl.Len(), Level: sl.Level(), FindCount: sl.FindCount(), Fwd: [][2]int64{}, Bwd: [][2]int64{}}
	limit := sl.Len() + 3
	sl.WalkS(func(v interface{}) bool {
		s.Fwd = append(s.Fwd, svEntry(v.(*skiplist.SkipValue)))
		return len(s.Fwd) < limit
	})
	it := sl.GetIterator()
	if v := it.First(); v != nil {
		e := svEntry(v)
		s.First = &e
	}
	if v := it.Last(); v != nil {
		e := svEntry(v)
		s.Last = &e
		s.Bwd = append(s.Bwd, e)
		// Prev until the node is nil (Value() on a nil node panics: that is the end marker)
		for len(s.Bwd) < limit {
			it.Prev()
			var cur *skiplist.SkipValue
			func() {
				defer func() { _ = recover() }()
				cur = it.Value()
			}()
			if cur == nil {
				break
			}
			s.Bwd = append(s.Bwd, svEntry(cur))
		}
	}
	return s
}

// drawsForInsert advances the shadow generator the way randomLevel does.
func drawsForInsert(shadow *rand.Rand) []int64 {
	var ds []int64
	level := 1
	tf := 0.35 * 0xFFFF
	t := int(tf)
	for {
		d := shadow.Int() & 0xFFFF
		ds = append(ds, int64(d))
		if d >= t {
			break
		}
		level++
		if level == 32 {
			break
		}
	}
	return ds
}

func runSkip(h SHist) []SOut {
	rand.Seed(h.Seed) //nolint
	shadow := rand.New(rand.NewSource(h.Seed))
	sl := skiplist.NewSkipList(&skiplist.SkipValue{Score: -1, Value: nil})
	outs := make([]SOut, 0, len(h.Ops))
	for _, o := range h.Ops {
		var so SOut
		func() {
			defer func() {
				if e := recover(); e != nil {
					so.Ret = panicRet
				}
			}()
			switch o.K {
			case "ins":
				so.Draws = drawsForInsert(shadow)
				so.Ret = int64(sl.Insert(&skiplist.SkipValue{Score: o.Score, Value: o.Val}))
			case "del":
				so.Ret = int64(sl.Delete(&skiplist.SkipValue{Score: o.Score}))
			case "find":
				if v := sl.Find(&skiplist.SkipValue{Score: o.Score}); v != nil {
					e := svEntry(v)
					so.Found, so.FS, so.FV = true, e[0], e[1]
				}
			case "ge":
				if v := sl.FindGreaterOrEqual(&skiplist.SkipValue{Score: o.Score}); v != nil {
					e := svEntry(v)
					so.Found, so.FS, so.FV = true, e[0], e[1]
				}
			case "upd":
				if v := sl.Find(&skiplist.SkipValue{Score: o.Score}); v != nil {
					v.Value = o.Val
					so.Ret = 1
				}
			}
		}()
		if o.Snap {
			func() {
				defer func() {
					if e := recover(); e != nil {
						so.Snap = &SSnap{Len: -99}
					}
				}()
				so.Snap = skipSnap(sl)
			}()
		}
		outs = append(outs, so)
	}
	return outs
}

func b2i(b bool) int64 {
	if b {
		return 1
	}
	return 0
}

func entries(sb *strings.Builder, es [][2]int64) {
	ints(sb, int64(len(es)))
	for _, e := range es {
		ints(sb, e[0], e[1])
	}
}

func optEntry(sb *strings.Builder, e *[2]int64) {
	if e == nil {
		ints(sb, 0, 0, 0)
	} else {
		ints(sb, 1, e[0], e[1])
	}
}

// coqSkip renders the history in the flat layout documented in Check.v.
func coqSkip(h SHist, outs []SOut) string {
	var rnd []string
	steps := make([]string, len(h.Ops))
	for i, o := range h.Ops {
		var sb strings.Builder
		r := outs[i]
		switch o.K {
		case "ins":
			ints(&sb, 3, o.Score, int64(o.Val), r.Ret)
			for _, d := range r.Draws {
				rnd = append(rnd, fmt.Sprint(d))
			}
		case "del":
			ints(&sb, 4, o.Score, r.Ret)
		case "find":
			ints(&sb, 5, o.Score, r.Ret, b2i(r.Found), r.FS, r.FV)
		case "ge":
			ints(&sb, 6, o.Score, r.Ret, b2i(r.Found), r.FS, r.FV)
		case "upd":
			ints(&sb, 7, o.Score, int64(o.Val), r.Ret)
		}
		if s := r.Snap; s != nil {
			ints(&sb, int64(s.Len), int64(s.Level), int64(s.FindCount))
			optEntry(&sb, s.First)
			optEntry(&sb, s.Last)
			entries(&sb, s.Fwd)
			entries(&sb, s.Bwd)
		}
		steps[i] = "[" + sb.String() + "]"
	}
	return hlib.App("CSkip", hlib.List(rnd), hlib.List(steps))
}

func emitSkip(o *hlib.Out, kind string, h SHist) {
	a := runSkip(h)
	// non-trivial: the list reached at least 3 levels and some Delete removed a node
	deep, deleted := false, false
	for i, op := range h.Ops {
		if a[i].Snap != nil && a[i].Snap.Level >= 3 {
			deep = true
		}
		if op.K == "del" && a[i].Ret == 1 {
			deleted = true
		}
	}
	o.Emit(kind, deep && deleted, coqSkip(h, a), Hist{Skip: &h}, a)
}

func (g *gen) skipHist(n int, scores []int64, pIns, pDel, pFind, pGe int, nodup bool, snapEvery int) SHist {
	h := SHist{Seed: int64(g.r.Intn(1 << 30))}
	present := map[int64]int{}
	for i := 0; i < n; i++ {
		s := hlib.Pick(g.r, scores)
		x := g.r.Intn(100)
		var o SOp
		switch {
		case x < pIns:
			if nodup && present[s] > 0 {
				// what Queue does: Find first, mutate the bucket when it exists
				o = SOp{K: "upd", Score: s, Val: i + 1}
			} else {
				o = SOp{K: "ins", Score: s, Val: i + 1}
				present[s]++
			}
		case x < pIns+pDel:
			o = SOp{K: "del", Score: s}
			if present[s] > 0 {
				present[s]--
			}
		case x < pIns+pDel+pFind:
			o = SOp{K: "find", Score: s}
		case x < pIns+pDel+pFind+pGe:
			o = SOp{K: "ge", Score: s}
		default:
			o = SOp{K: "upd", Score: s, Val: i + 1}
		}
		o.Snap = snapEvery <= 1 || i%snapEvery == snapEvery-1 || i == n-1
		h.Ops = append(h.Ops, o)
	}
	return h
}

func skipStreams(o *hlib.Out, seed uint64, mult int) {
	g := &gen{r: hlib.NewRng(seed + 2401)}
	ins := func(s int64, v int) SOp { return SOp{K: "ins", Score: s, Val: v, Snap: true} }
	del := func(s int64) SOp { return SOp{K: "del", Score: s, Snap: true} }
	fnd := func(s int64) SOp { return SOp{K: "find", Score: s, Snap: true} }
	ge := func(s int64) SOp { return SOp{K: "ge", Score: s, Snap: true} }
	upd := func(s int64, v int) SOp { return SOp{K: "upd", Score: s, Val: v, Snap: true} }
	fixed := []SHist{
		{Seed: 1, Ops: []SOp{fnd(1), ge(1), del(1), upd(1, 9), ins(1, 1), fnd(1), ge(2), ge(0), del(2), del(1), fnd(1)}},
		{Seed: 2, Ops: []SOp{ins(5, 1), ins(5, 2), ins(5, 3), fnd(5), del(5), fnd(5), upd(5, 7), del(5), del(5), del(5)}},
		{Seed: 3, Ops: []SOp{ins(math.MaxInt64, 1), ins(math.MinInt64, 2), ins(0, 3), ins(-1, 4), ge(math.MinInt64), ge(math.MaxInt64), fnd(-1), del(0), del(math.MaxInt64), del(math.MinInt64), del(-1)}},
	}
	for _, h := range fixed {
		emitSkip(o, "skip-fixed", h)
	}
	small := []int64{-3, -2, -1, 0, 1, 2, 3}
	var wide []int64
	for s := -40; s <= 40; s++ {
		wide = append(wide, int64(s))
	}
	// few scores, duplicates allowed (the SkipList API does not forbid them)
	for i := 0; i < 40*mult; i++ {
		emitSkip(o, "skip-dups", g.skipHist(g.r.Range(6, 40), g.subset(small, g.r.Range(2, 6)), 45, 25, 12, 10, false, 1))
	}
	// the way Queue uses it: one node per score (Find first; mutate or Insert)
	for i := 0; i < 40*mult; i++ {
		emitSkip(o, "skip-queue-like", g.skipHist(g.r.Range(10, 50), small, 50, 30, 10, 5, true, 1))
	}
	// many distinct scores: several levels, deletions in the middle, level shrinking
	for i := 0; i < 10*mult; i++ {
		emitSkip(o, "skip-large", g.skipHist(g.r.Range(120, 260), wide, 48, 34, 9, 5, i%2 == 0, 15))
	}
	// grow, then drain completely (level goes back to 1)
	for i := 0; i < 6*mult; i++ {
		h := g.skipHist(g.r.Range(40, 90), wide, 90, 2, 4, 2, true, 20)
		seen := map[int64]bool{}
		for _, op := range h.Ops {
			if op.K == "ins" && !seen[op.Score] {
				seen[op.Score] = true
			}
		}
		k := 0
		for s := range wide {
			if seen[wide[s]] {
				h.Ops = append(h.Ops, SOp{K: "del", Score: wide[s], Snap: k%7 == 0})
				k++
			}
		}
		h.Ops = append(h.Ops, SOp{K: "find", Score: 0, Snap: true}, SOp{K: "ins", Score: 0, Val: 1, Snap: true})
		emitSkip(o, "skip-drain", h)
	}
}
