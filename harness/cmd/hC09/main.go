// hC09: version chains through chain33's MVCC layer (common/db/mvcc.go, mvcc_iter.go), and block
// histories through the kvmvcc plugin and StateDB (blocks.go).
//
// One case = one chain: AddMVCC per version (kvlist written to the store the way
// blockchain/blockstore.go writes local KVs: nil value -> Delete, else Set), a dump of
// the store keys, GetV of every query key at every query version, then on copies of the
// store: Trash(cut) for every cut point + all reads again, DelMVCC(top) + dump + reads,
// DelMVCC(top-1) (must be refused), and the same chain through MVCCIter.
package main

import (
	"bytes"
	"encoding/hex"
	"fmt"
	"os"
	"path/filepath"
	"strings"

	dbm "github.com/33cn/chain33/common/db"
	clog "github.com/33cn/chain33/common/log"
	"github.com/33cn/chain33/types"
	"verifharness/hlib"
)

// ---------- scenario (also the replay format) ----------

type Write struct {
	K string  `json:"k"`           // hex key
	V *string `json:"v,omitempty"` // hex value; absent = nil
}

type Add struct {
	Hash string  `json:"hash"`
	Prev *string `json:"prev,omitempty"`
	Ver  int64   `json:"ver"`
	Ws   []Write `json:"ws"`
}

type Scenario struct {
	Backend string   `json:"backend"` // memdb | leveldb
	Adds    []Add    `json:"adds"`
	QKeys   []string `json:"qkeys"`
	QVers   []int64  `json:"qvers"`
	Cuts    []int64  `json:"cuts"`
}

func unhex(s string) []byte {
	b, err := hex.DecodeString(s)
	if err != nil {
		panic(err)
	}
	if b == nil {
		b = []byte{}
	}
	return b
}

// ---------- observables ----------

func errCode(err error) uint64 {
	switch err {
	case nil:
		return 0
	case types.ErrNotFound:
		return 1
	case types.ErrVersion:
		return 2
	case types.ErrPrevVersion:
		return 3
	case types.ErrCanOnlyDelTopVersion:
		return 4
	}
	return 9
}

func encRead(val []byte, err error) uint64 {
	if err != nil {
		return errCode(err)
	}
	acc := uint64(len(val))
	for _, c := range val {
		acc = acc*256 + uint64(c)
	}
	return 10 + acc
}

var dbSeq int

func newDB(backend, dir string) dbm.DB {
	dbSeq++
	name := fmt.Sprintf("c09_%d", dbSeq)
	if backend == "leveldb" {
		d, err := dbm.NewGoLevelDB(name, dir, 4)
		if err != nil {
			panic(err)
		}
		return d
	}
	d, err := dbm.NewGoMemDB(name, dir, 4)
	if err != nil {
		panic(err)
	}
	return d
}

func writeKVs(db dbm.DB, kvs []*types.KeyValue) {
	for _, kv := range kvs {
		var err error
		if kv.Value == nil {
			_ = db.Delete(kv.Key) // memdb reports "not found" for an absent key; a leveldb batch does not
		} else {
			err = db.Set(kv.Key, kv.Value)
		}
		if err != nil {
			panic(err)
		}
	}
}

func cloneKVs(kvs []*types.KeyValue) []*types.KeyValue {
	out := make([]*types.KeyValue, len(kvs))
	for i, kv := range kvs {
		n := &types.KeyValue{Key: append([]byte{}, kv.Key...)}
		if kv.Value != nil {
			n.Value = append([]byte{}, kv.Value...)
		}
		out[i] = n
	}
	return out
}

func dumpKeys(db dbm.DB) [][]byte {
	var out [][]byte
	it := db.Iterator(nil, types.EmptyValue, false)
	defer it.Close()
	for it.Rewind(); it.Valid(); it.Next() {
		out = append(out, append([]byte{}, it.Key()...))
	}
	return out
}

type getter interface {
	GetV(key []byte, version int64) ([]byte, error)
}

func allReads(m getter, qkeys [][]byte, qvers []int64) (out []uint64) {
	for _, k := range qkeys {
		for _, v := range qvers {
			func() {
				defer func() {
					if r := recover(); r != nil {
						out = append(out, 8)
					}
				}()
				val, err := m.GetV(k, v)
				out = append(out, encRead(val, err))
			}()
		}
	}
	return out
}

// keysSum: (count, polynomial checksum mod 2^32-5) of an ascending key list — Check.keys_sum
func keysSum(keys [][]byte) string {
	const m = 4294967291
	h := uint64(0)
	for _, k := range keys {
		a := uint64(7)
		for _, c := range k {
			a = (a*257 + uint64(c) + 1) % m
		}
		h = (h*1000003 + a) % m
	}
	return hlib.Pair(hlib.N(uint64(len(keys))), hlib.N(h))
}

func nlist(xs []uint64) string {
	it := make([]string, len(xs))
	for i, x := range xs {
		it[i] = fmt.Sprintf("%d", x)
	}
	return "[" + strings.Join(it, ";") + "]%N"
}

func toKVs(ws []Write) []*types.KeyValue {
	out := make([]*types.KeyValue, len(ws))
	for i, w := range ws {
		kv := &types.KeyValue{Key: unhex(w.K)}
		if w.V != nil {
			kv.Value = unhex(*w.V)
		}
		out[i] = kv
	}
	return out
}

func iterList(m *dbm.MVCCIter) string {
	var items []string
	it := m.Iterator(nil, nil, false)
	defer it.Close()
	for it.Rewind(); it.Valid(); it.Next() {
		items = append(items, hlib.Pair(hlib.Hx(it.Key()), hlib.Hx(it.Value())))
	}
	return hlib.List(items)
}

func safeCall(f func() error) (code uint64) {
	defer func() {
		if r := recover(); r != nil {
			code = 8
		}
	}()
	return errCode(f())
}

// ---------- one scenario ----------

func runScenario(o *hlib.Out, kind string, sc Scenario, tmp string) {
	main := newDB(sc.Backend, tmp)
	defer main.Close()
	mv := dbm.NewMVCC(main)
	var applied [][]*types.KeyValue
	var addRes []uint64
	var addTerms []string
	var okAdds []Add
	for _, a := range sc.Adds {
		var prev []byte
		if a.Prev != nil {
			prev = unhex(*a.Prev)
		}
		var kvl []*types.KeyValue
		code := safeCall(func() error {
			var err error
			kvl, err = mv.AddMVCC(toKVs(a.Ws), unhex(a.Hash), prev, a.Ver)
			return err
		})
		addRes = append(addRes, code)
		if code == 0 {
			kvl = cloneKVs(kvl)
			writeKVs(main, kvl)
			applied = append(applied, kvl)
			okAdds = append(okAdds, a)
		}
		ws := make([]string, len(a.Ws))
		for i, w := range a.Ws {
			v := "None"
			if w.V != nil {
				v = "(Some " + hlib.Hx(unhex(*w.V)) + ")"
			}
			ws[i] = hlib.Pair(hlib.Hx(unhex(w.K)), v)
		}
		p := "None"
		if a.Prev != nil {
			p = "(Some " + hlib.Hx(prev) + ")"
		}
		addTerms = append(addTerms, "("+hlib.Hx(unhex(a.Hash))+", "+p+", "+hlib.Z(a.Ver)+", "+hlib.List(ws)+")")
	}
	copyDB := func() dbm.DB {
		d := newDB(sc.Backend, tmp)
		for _, kvl := range applied {
			writeKVs(d, kvl)
		}
		return d
	}
	qkeys := make([][]byte, len(sc.QKeys))
	for i, k := range sc.QKeys {
		qkeys[i] = unhex(k)
	}
	dump0 := dumpKeys(main)
	reads0 := allReads(mv, qkeys, sc.QVers)

	// Trash at every cut point, each on a fresh copy
	var trashTerms []string
	trashImpl := map[string]interface{}{}
	for _, cut := range sc.Cuts {
		d := copyDB()
		m2 := dbm.NewMVCC(d)
		code := safeCall(func() error { return m2.Trash(cut) })
		cnt := uint64(len(dumpKeys(d)))
		if code != 0 {
			cnt = 999999
		}
		rds := allReads(m2, qkeys, sc.QVers)
		trashTerms = append(trashTerms, "("+hlib.Z(cut)+", ("+hlib.N(cnt)+", "+nlist(rds)+"))")
		trashImpl[fmt.Sprint(cut)] = rds
		d.Close()
	}

	// DelMVCC of the top version (strict), and of the one below it (must be refused)
	top := int64(len(okAdds)) - 1
	var topHash, secondHash []byte
	if top >= 0 {
		topHash = unhex(okAdds[top].Hash)
	} else {
		topHash = []byte{}
	}
	if top >= 1 {
		secondHash = unhex(okAdds[top-1].Hash)
	} else {
		secondHash = []byte{}
	}
	dd := copyDB()
	md := dbm.NewMVCC(dd)
	var dkv []*types.KeyValue
	delRes := safeCall(func() error {
		var err error
		dkv, err = md.DelMVCC(topHash, top, true)
		return err
	})
	if delRes == 0 {
		writeKVs(dd, cloneKVs(dkv))
	}
	dumpDel := dumpKeys(dd)
	readsDel := allReads(md, qkeys, sc.QVers)
	dd.Close()
	del2Res := safeCall(func() error {
		_, err := mv.DelMVCC(secondHash, top-1, true)
		return err
	})

	// the same chain through MVCCIter
	di := newDB(sc.Backend, tmp)
	mi := dbm.NewMVCCIter(di)
	iterOK := true
	for i, a := range sc.Adds {
		var prev []byte
		if a.Prev != nil {
			prev = unhex(*a.Prev)
		}
		var kvl []*types.KeyValue
		code := safeCall(func() error {
			var err error
			kvl, err = mi.AddMVCC(toKVs(a.Ws), unhex(a.Hash), prev, a.Ver)
			return err
		})
		if code != addRes[i] {
			iterOK = false
		}
		if code == 0 {
			writeKVs(di, cloneKVs(kvl))
		}
	}
	iterList0 := iterList(mi)
	var ikv []*types.KeyValue
	iterDelRes := safeCall(func() error {
		var err error
		ikv, err = mi.DelMVCC(topHash, top, true)
		return err
	})
	if iterDelRes == 0 {
		writeKVs(di, cloneKVs(ikv))
	}
	iterListDel := iterList(mi)
	di.Close()
	if !iterOK {
		iterDelRes = 77
	}

	qv := make([]string, len(sc.QVers))
	for i, v := range sc.QVers {
		qv[i] = hlib.Z(v)
	}
	term := "(CC " + hlib.App("CChain",
		hlib.List(addTerms), nlist(addRes), keysSum(dump0),
		hlib.ListHx(qkeys), hlib.List(qv), nlist(reads0),
		hlib.List(trashTerms),
		hlib.N(delRes), keysSum(dumpDel), nlist(readsDel), hlib.N(del2Res),
		hlib.N(iterDelRes), iterList0, iterListDel) + ")"
	// non-trivial: at least two versions and some key written in two different versions
	seen := map[string]int64{}
	nontrivial := false
	for _, a := range okAdds {
		for _, w := range a.Ws {
			if v, ok := seen[w.K]; ok && v != a.Ver {
				nontrivial = true
			}
			seen[w.K] = a.Ver
		}
	}
	o.Emit(kind, nontrivial, term, sc, map[string]interface{}{
		"add_res": addRes, "reads0": reads0, "trash_reads": trashImpl, "del_res": delRes, "reads_del": readsDel,
		"del2_res": del2Res, "iter_del_res": iterDelRes, "nkeys_store": len(dump0)})
}

// ---------- generators ----------

// safe2: no key is another key followed by a byte <= '.'
func safe2(keys [][]byte) bool {
	for _, a := range keys {
		for _, b := range keys {
			if len(b) > len(a) && bytes.HasPrefix(b, a) && b[len(a)] <= '.' {
				return false
			}
		}
	}
	return true
}

var bases = []string{"a", "b", "ab", "a0", "k"}
var alphabet = []byte(".-0123456789!~")
var dangerous = []string{".", "-", "!", ".0", ".5", ".00", ".00000000000000000005", ".00000000000000000000", ".00000000000000000001",
	"-.", "..", ".!", ".~", "-0", "!.", ".-", ",", "/", "+", " ", ".00000000000000000005.", ".0000000000000000000"}
var harmless = []string{"~", "0", "5", "9", "~.", "0.", "5-", "/", "00000000000000000005", "a", "z.", "~~", "0!", "3.1", ":", "_"}

func genKeys(r *hlib.Rng, guarded bool, n int) [][]byte {
	var keys [][]byte
	seen := map[string]bool{}
	tries := 0
	for len(keys) < n && tries < 200 {
		tries++
		var k string
		switch {
		case r.Chance(1, 3) || len(keys) == 0:
			k = hlib.Pick(r, bases)
		case r.Chance(1, 2):
			base := string(keys[r.Intn(len(keys))])
			if guarded {
				k = base + hlib.Pick(r, harmless)
			} else if r.Chance(3, 4) {
				k = base + hlib.Pick(r, dangerous)
			} else {
				k = base + hlib.Pick(r, harmless)
			}
		default:
			base := hlib.Pick(r, bases)
			l := r.Range(1, 3)
			b := []byte(base)
			for i := 0; i < l; i++ {
				b = append(b, alphabet[r.Intn(len(alphabet))])
			}
			k = string(b)
		}
		if !guarded && r.Chance(1, 60) {
			k = ""
		}
		if seen[k] {
			continue
		}
		cand := append(append([][]byte{}, keys...), []byte(k))
		if guarded && !safe2(cand) {
			continue
		}
		seen[k] = true
		keys = cand
	}
	return keys
}

func hx(b []byte) string { return hex.EncodeToString(b) }

func genScenario(r *hlib.Rng, guarded bool, emptyVals bool, badAdds bool, backend string, maxVer, maxKeys int) Scenario {
	nkeys := r.Range(1, maxKeys)
	all := genKeys(r, guarded, nkeys+r.Range(0, 2))
	// the last few keys are only queried, never written
	nw := nkeys
	if nw > len(all) {
		nw = len(all)
	}
	wkeys := all[:nw]
	nver := r.Range(1, maxVer)
	sc := Scenario{Backend: backend}
	hashOf := func(v int64) string { return hx([]byte(fmt.Sprintf("H%07d", v))) }
	for v := int64(0); v < int64(nver); v++ {
		if badAdds && r.Chance(1, 4) {
			// refused adds: wrong previous hash, or a gap in the version numbers
			bad := Add{Hash: hx([]byte(fmt.Sprintf("X%07d", v))), Ver: v, Ws: []Write{{K: hx(wkeys[0]), V: strp(hx([]byte{0xee}))}}}
			if v > 0 && r.Chance(1, 2) {
				p := hx([]byte("WRONGHSH"))
				bad.Prev = &p
			} else {
				bad.Ver = v + 1 + int64(r.Intn(2))
				p := hashOf(v - 1)
				bad.Prev = &p
			}
			sc.Adds = append(sc.Adds, bad)
		}
		a := Add{Hash: hashOf(v), Ver: v}
		if v > 0 {
			p := hashOf(v - 1)
			a.Prev = &p
		}
		nwr := r.Range(0, 4)
		if r.Chance(1, 8) {
			nwr = len(wkeys)
		}
		for i := 0; i < nwr; i++ {
			k := wkeys[r.Intn(len(wkeys))]
			val := []byte{byte(v + 1), byte(i + 1)}
			if r.Chance(1, 4) {
				val = []byte{byte(16*(v+1) + int64(i) + 1)}
			}
			w := Write{K: hx(k), V: strp(hx(val))}
			if emptyVals && r.Chance(1, 4) {
				if r.Chance(1, 2) {
					w.V = nil
				} else {
					w.V = strp("")
				}
			}
			a.Ws = append(a.Ws, w)
		}
		sc.Adds = append(sc.Adds, a)
	}
	for _, k := range all {
		sc.QKeys = append(sc.QKeys, hx(k))
	}
	if r.Chance(1, 4) {
		sc.QVers = append(sc.QVers, -1)
	}
	for v := int64(0); v <= int64(nver); v++ {
		sc.QVers = append(sc.QVers, v)
		if v < int64(nver) {
			sc.Cuts = append(sc.Cuts, v)
		}
	}
	if r.Chance(1, 6) {
		sc.QVers = append(sc.QVers, 1000000007)
		sc.Cuts = append(sc.Cuts, int64(nver)+3)
	}
	return sc
}

func strp(s string) *string { return &s }

// the two reproduced defects, as fixed scenarios in the unrestricted stream
func witnessScenarios() []Scenario {
	h0, h1 := hx([]byte("H0000000")), hx([]byte("H0000001"))
	a, a5, am := hx([]byte("a")), hx([]byte("a.00000000000000000005")), hx([]byte("a-"))
	w := func(k string, v byte) Write { return Write{K: k, V: strp(hx([]byte{v}))} }
	s1 := Scenario{Backend: "memdb",
		Adds:  []Add{{Hash: h0, Ver: 0, Ws: []Write{w(a, 1), w(a5, 2)}}, {Hash: h1, Prev: &h0, Ver: 1, Ws: []Write{w(a, 3)}}},
		QKeys: []string{a, a5}, QVers: []int64{0, 1, 5, 6}, Cuts: []int64{0, 1}}
	s2 := Scenario{Backend: "memdb",
		Adds:  []Add{{Hash: h0, Ver: 0, Ws: []Write{w(a, 1), w(am, 2)}}, {Hash: h1, Prev: &h0, Ver: 1, Ws: []Write{w(a, 3)}}},
		QKeys: []string{a, am}, QVers: []int64{0, 1, 2}, Cuts: []int64{0, 1}}
	s3 := s2
	s3.Backend = "leveldb"
	s4 := s1
	s4.Backend = "leveldb"
	return []Scenario{s1, s2, s3, s4}
}

func main() {
	opts := hlib.ParseFlags()
	clog.SetLogLevel("crit")
	o := hlib.NewOut(opts.OutDir)
	defer o.Close()
	tmp := filepath.Join(opts.OutDir, "dbtmp")
	os.RemoveAll(tmp)
	if err := os.MkdirAll(tmp, 0o755); err != nil {
		panic(err)
	}
	defer os.RemoveAll(tmp)
	if opts.Replay != "" {
		var bsc BScenario
		if err := hlib.ReplayInput(opts.Replay, &bsc); err == nil && bsc.Blocks {
			runBlocks(o, "replay", bsc, tmp)
			return
		}
		var sc Scenario
		if err := hlib.ReplayInput(opts.Replay, &sc); err != nil {
			panic(err)
		}
		runScenario(o, "replay", sc, tmp)
		return
	}
	r := hlib.NewRng(opts.Seed)
	for _, sc := range witnessScenarios() {
		runScenario(o, "witness-unrestricted-"+sc.Backend, sc, tmp)
	}
	mult := 1
	if opts.Thorough() {
		mult = 15
	}
	backendOf := func(i int) string {
		if i%8 == 7 {
			return "leveldb"
		}
		return "memdb"
	}
	// small cases first
	for i := 0; i < 30*mult; i++ {
		runScenario(o, "small-guarded", genScenario(r, true, false, false, backendOf(i), 3, 3), tmp)
		runScenario(o, "small-unrestricted", genScenario(r, false, false, false, backendOf(i), 3, 3), tmp)
	}
	for i := 0; i < 50*mult; i++ {
		be := backendOf(i)
		runScenario(o, "medium-guarded-"+be, genScenario(r, true, false, false, be, 6, 6), tmp)
		runScenario(o, "medium-unrestricted-"+be, genScenario(r, false, false, false, be, 6, 6), tmp)
	}
	for i := 0; i < 12*mult; i++ {
		be := backendOf(i)
		runScenario(o, "big-guarded-"+be, genScenario(r, true, false, false, be, 12, 8), tmp)
		runScenario(o, "big-unrestricted-"+be, genScenario(r, false, false, false, be, 12, 8), tmp)
	}
	for i := 0; i < 15*mult; i++ {
		be := backendOf(i)
		runScenario(o, "badadds-guarded-"+be, genScenario(r, true, false, true, be, 7, 6), tmp)
		runScenario(o, "emptyvals-"+be, genScenario(r, i%2 == 0, true, i%3 == 0, be, 7, 6), tmp)
	}
	// block histories through the kvmvcc plugin and StateDB (blocks.go); own generator so that the
	// chain streams above stay what they were
	blockStreams(o, hlib.NewRng(opts.Seed+0x9e37), tmp, mult)
}
