// Block histories through the kvmvcc plugin and StateDB (executor/plugin_kvmvcc.go,
// execenv.go AddMVCC/DelMVCC, statedb.go enableMVCC/Get).
//
// One case = one history of connect / disconnect / restart operations on one store.
// connect follows procExecAddBlock: NewStateDB(block hash, height) + enableMVCC(prev hash),
// Set of the block's KV set + Get of the query keys, plugin CheckEnable, plugin ExecLocal
// (= executor.AddMVCC), kv list written to the store the way blockstore does.  disconnect
// follows procExecDelBlock (enableMVCC(nil), CheckEnable, ExecDelLocal = executor.DelMVCC).
// After every operation each state hash of the case is queried: NewStateDB(hash, ctx
// height) + enableMVCC(nil) + Get of every query key.
//
// Local layer: "raw" = db.NewKVDB(store); "local" = executor.LocalDB whose API calls are
// answered the way blockchain/localdb.go answers them (common/db LocalDB over the store).
package main

import (
	"crypto/sha256"
	"fmt"
	"os"
	"syscall"

	"github.com/33cn/chain33/client"
	"github.com/33cn/chain33/common"
	dbm "github.com/33cn/chain33/common/db"
	"github.com/33cn/chain33/executor"
	"github.com/33cn/chain33/types"
	"verifharness/hlib"
)

// ---------- the node's local-db service (blockchain/localdb.go), without a queue ----------

type localAPI struct {
	client.QueueProtocolAPI
	main dbm.DB
}

func (f *localAPI) tx(id int64) dbm.KVDB {
	p, err := common.GetPointer(id)
	if err != nil {
		panic(err)
	}
	return p.(dbm.KVDB)
}
func (f *localAPI) LocalNew(readOnly bool) (*types.Int64, error) {
	return &types.Int64{Data: common.StorePointer(dbm.NewLocalDB(f.main, readOnly))}, nil
}
func (f *localAPI) LocalClose(p *types.Int64) error    { common.RemovePointer(p.Data); return nil }
func (f *localAPI) LocalBegin(p *types.Int64) error    { f.tx(p.Data).Begin(); return nil }
func (f *localAPI) LocalCommit(p *types.Int64) error   { return f.tx(p.Data).Commit() }
func (f *localAPI) LocalRollback(p *types.Int64) error { f.tx(p.Data).Rollback(); return nil }
func (f *localAPI) LocalSet(p *types.LocalDBSet) error {
	t := f.tx(p.Txid)
	for _, kv := range p.KV {
		_ = t.Set(kv.Key, kv.Value)
	}
	return nil
}
func (f *localAPI) LocalGet(p *types.LocalDBGet) (*types.LocalReplyValue, error) {
	t := f.tx(p.Txid)
	var reply types.LocalReplyValue
	for _, k := range p.Keys {
		v, _ := t.Get(k)
		reply.Values = append(reply.Values, v)
	}
	return &reply, nil
}
func (f *localAPI) LocalList(q *types.LocalDBList) (*types.LocalReplyValue, error) {
	values, err := f.tx(q.Txid).List(q.Prefix, q.Key, q.Count, q.Direction)
	if err != nil {
		return nil, err
	}
	return &types.LocalReplyValue{Values: values}, nil
}

// ---------- scenario (also the replay format) ----------

type BKV struct {
	K int     `json:"k"`           // key index
	V *string `json:"v,omitempty"` // hex value; absent = nil
}

type BOp struct {
	Kind   string `json:"kind"` // c | d | r
	Height int64  `json:"height"`
	Hash   int    `json:"hash"`
	Prev   int    `json:"prev"` // 0 = nil, i+1 = hash i
	KVs    []BKV  `json:"kvs,omitempty"`
}

type BScenario struct {
	Blocks  bool     `json:"blocks"` // marks the replay format
	Layer   string   `json:"layer"`  // raw | local
	SDB     bool     `json:"sdb"`
	Backend string   `json:"backend"`
	Hashes  []string `json:"hashes"`
	Keys    []string `json:"keys"`
	QKeys   []int    `json:"qkeys"`
	Ops     []BOp    `json:"ops"`
}

func quiet(f func()) {
	// enableMVCC println()s to fd 2 before it panics
	null, err := os.OpenFile(os.DevNull, os.O_WRONLY, 0)
	if err != nil {
		f()
		return
	}
	saved, err := syscall.Dup(2)
	if err != nil {
		null.Close()
		f()
		return
	}
	_ = syscall.Dup2(int(null.Fd()), 2)
	defer func() {
		_ = syscall.Dup2(saved, 2)
		syscall.Close(saved)
		null.Close()
	}()
	f()
}

// stage runs f; a panic or a returned error is what makes procExecAddBlock panic
func stage(f func() error) (bad bool) {
	defer func() {
		if r := recover(); r != nil {
			bad = true
		}
	}()
	return f() != nil
}

func runBlocks(o *hlib.Out, kind string, sc BScenario, tmp string) {
	quiet(func() { runBlocksInner(o, kind, sc, tmp) })
}

func runBlocksInner(o *hlib.Out, kind string, sc BScenario, tmp string) {
	main := newDB(sc.Backend, tmp)
	defer main.Close()
	api := &localAPI{main: main}
	var open []dbm.KVDB
	layer := func(readOnly bool) dbm.KVDB {
		if sc.Layer == "local" {
			l := executor.NewLocalDB(nil, api, readOnly)
			open = append(open, l)
			return l
		}
		return dbm.NewKVDB(main)
	}
	closeAll := func() {
		for _, l := range open {
			_ = l.(*executor.LocalDB).Close()
		}
		open = nil
	}
	hashes := make([][]byte, len(sc.Hashes))
	for i, h := range sc.Hashes {
		hashes[i] = unhex(h)
	}
	keys := make([][]byte, len(sc.Keys))
	for i, k := range sc.Keys {
		keys[i] = unhex(k)
	}
	plugin := &executor.VerifMVCCPlugin{}
	// the harness' own idea of the chain (hash index per height), only to pick the ctx height of the queries
	var chain []int

	var opTerms []string
	var implOps []interface{}
	done := 0
	for _, op := range sc.Ops {
		outcome, ever := uint64(0), int64(-2)
		var inreads []uint64
		var kvTerms []string
		if op.Kind != "r" {
			for _, kv := range op.KVs {
				v := "None"
				if kv.V != nil {
					v = "(Some " + hlib.Hx(unhex(*kv.V)) + ")"
				}
				kvTerms = append(kvTerms, hlib.Pair(hlib.N(uint64(kv.K)), v))
			}
		}
		switch op.Kind {
		case "r":
			plugin = &executor.VerifMVCCPlugin{}
		case "c", "d":
			detail := &types.BlockDetail{Block: &types.Block{Height: op.Height, StateHash: hashes[op.Hash]}}
			if op.Prev > 0 {
				detail.PrevStatusHash = hashes[op.Prev-1]
			}
			for _, kv := range op.KVs {
				x := &types.KeyValue{Key: keys[kv.K]}
				if kv.V != nil {
					x.Value = unhex(*kv.V)
				}
				detail.KV = append(detail.KV, x)
			}
			ldb := layer(false)
			var out []*types.KeyValue
			func() {
				if sc.SDB {
					sdb := executor.NewStateDB(nil, detail.Block.StateHash, ldb,
						&executor.StateDBOption{EnableMVCC: true, Height: op.Height})
					var en []byte // procExecDelBlock: enableMVCC(nil)
					if op.Kind == "c" {
						en = detail.PrevStatusHash
					}
					if stage(func() error { ever = executor.VerifEnableMVCC(sdb, en); return nil }) {
						outcome, ever = 1, -2
						return
					}
					if op.Kind == "c" {
						for _, kv := range detail.KV {
							_ = sdb.Set(kv.Key, kv.Value)
						}
						for _, qi := range sc.QKeys {
							func() {
								defer func() {
									if r := recover(); r != nil {
										inreads = append(inreads, 8)
									}
								}()
								val, err := sdb.Get(keys[qi])
								inreads = append(inreads, encRead(val, err))
							}()
						}
					}
				}
				var fkv, kvs []*types.KeyValue
				if stage(func() error {
					var err error
					fkv, _, err = plugin.CheckEnable(ldb, op.Height, true)
					return err
				}) {
					outcome = 2
					return
				}
				if stage(func() error {
					var err error
					if op.Kind == "c" {
						kvs, err = plugin.ExecLocal(ldb, detail)
					} else {
						kvs, err = plugin.ExecDelLocal(ldb, detail)
					}
					return err
				}) {
					outcome = 3
					return
				}
				out = append(cloneKVs(fkv), cloneKVs(kvs)...)
			}()
			closeAll()
			if outcome == 0 {
				writeKVs(main, out)
				done++
				if op.Kind == "c" {
					if int(op.Height) == len(chain) {
						chain = append(chain, op.Hash)
					}
				} else if int(op.Height) == len(chain)-1 {
					chain = chain[:len(chain)-1]
				}
			}
		}
		// queries: every state hash of the case
		var qTerms []string
		var implQ []interface{}
		for hi := range hashes {
			cth := int64(1)
			for ht := len(chain) - 1; ht >= 0; ht-- {
				if chain[ht] == hi {
					cth = int64(ht) + 1
					break
				}
			}
			vc := uint64(0)
			var reads []uint64
			ldb := layer(true)
			sdb := executor.NewStateDB(nil, hashes[hi], ldb, &executor.StateDBOption{EnableMVCC: true, Height: cth})
			var ver int64
			if !stage(func() error { ver = executor.VerifEnableMVCC(sdb, nil); return nil }) {
				vc = uint64(ver + 2)
				for _, qi := range sc.QKeys {
					func() {
						defer func() {
							if r := recover(); r != nil {
								reads = append(reads, 8)
							}
						}()
						val, err := sdb.Get(keys[qi])
						reads = append(reads, encRead(val, err))
					}()
				}
			}
			closeAll()
			qTerms = append(qTerms, "("+hlib.N(uint64(hi))+", "+hlib.Z(cth)+", "+hlib.N(vc)+", "+nlist(reads)+")")
			implQ = append(implQ, []interface{}{hi, cth, vc, reads})
		}
		var opTerm string
		switch op.Kind {
		case "r":
			opTerm = "BRestart"
		case "c":
			opTerm = hlib.App("BConnect", hlib.Z(op.Height), hlib.N(uint64(op.Hash)), hlib.N(uint64(op.Prev)), hlib.List(kvTerms))
		default:
			opTerm = hlib.App("BDisconnect", hlib.Z(op.Height), hlib.N(uint64(op.Hash)), hlib.N(uint64(op.Prev)), hlib.List(kvTerms))
		}
		opTerms = append(opTerms, "("+opTerm+", ("+hlib.N(outcome)+", "+hlib.Z(ever)+", "+nlist(inreads)+", "+hlib.List(qTerms)+"))")
		implOps = append(implOps, map[string]interface{}{"outcome": outcome, "enable_version": ever, "inblock": inreads, "queries": implQ})
	}
	qk := make([]string, len(sc.QKeys))
	for i, q := range sc.QKeys {
		qk[i] = hlib.N(uint64(q))
	}
	term := "(CB " + hlib.App("BCase", hlib.Bool(sc.Layer == "local"), hlib.Bool(sc.SDB),
		hlib.ListHx(hashes), hlib.ListHx(keys), hlib.List(qk), hlib.List(opTerms), keysSum(dumpKeys(main))) + ")"
	// non-trivial: at least two operations were carried out
	o.Emit(kind, done >= 2, term, sc, map[string]interface{}{"ops": implOps})
}

// ---------- generators ----------

func stateHash(n int) []byte {
	h := sha256.Sum256([]byte(fmt.Sprintf("c09-state-%d", n)))
	return h[:]
}

type bgen struct {
	r         *hlib.Rng
	sc        BScenario
	chain     []int   // hash index per height
	kvOf      [][]BKV // per hash index
	removed   []int   // hash indices of removed blocks (may come back)
	nkeys     int
	valN      int
	emptyVals bool
}

func (g *bgen) newKVs(max int) []BKV {
	n := g.r.Range(0, max)
	var out []BKV
	for i := 0; i < n; i++ {
		g.valN++
		val := []byte{byte(g.valN)}
		if g.r.Chance(1, 3) {
			val = []byte{byte(g.valN), byte(i + 1)}
		}
		kv := BKV{K: g.r.Intn(g.nkeys), V: strp(hx(val))}
		if g.emptyVals && g.r.Chance(1, 3) {
			if g.r.Chance(1, 2) {
				kv.V = nil
			} else {
				kv.V = strp("")
			}
		}
		out = append(out, kv)
	}
	return out
}

func (g *bgen) addHash(h []byte, kvs []BKV) int {
	g.sc.Hashes = append(g.sc.Hashes, hx(h))
	g.kvOf = append(g.kvOf, kvs)
	return len(g.sc.Hashes) - 1
}

func (g *bgen) prevIdx() int {
	if len(g.chain) == 0 {
		return 0
	}
	return g.chain[len(g.chain)-1] + 1
}

func (g *bgen) connect(hi int) {
	g.sc.Ops = append(g.sc.Ops, BOp{Kind: "c", Height: int64(len(g.chain)), Hash: hi, Prev: g.prevIdx(), KVs: g.kvOf[hi]})
	g.chain = append(g.chain, hi)
}

func (g *bgen) disconnect() {
	top := len(g.chain) - 1
	hi := g.chain[top]
	g.chain = g.chain[:top]
	g.sc.Ops = append(g.sc.Ops, BOp{Kind: "d", Height: int64(top), Hash: hi, Prev: g.prevIdx(), KVs: g.kvOf[hi]})
	g.removed = append(g.removed, hi)
}

// genBlocks: a node-shaped history. sameHash: blocks may repeat the state hash of the block below
// (empty KV set, as an empty block does). bad: some operations do not fit the chain.
func genBlocks(r *hlib.Rng, layer string, sdb bool, backend string, maxOps, maxChain int, sameHash, emptyVals, bad bool) BScenario {
	g := &bgen{r: r, emptyVals: emptyVals}
	g.sc = BScenario{Blocks: true, Layer: layer, SDB: sdb, Backend: backend}
	all := genKeys(r, true, r.Range(2, 5))
	for _, k := range all {
		g.sc.Keys = append(g.sc.Keys, hx(k))
	}
	g.nkeys = len(all)
	if g.nkeys > 1 && r.Chance(1, 2) {
		g.nkeys-- // the last key is only queried
	}
	for i := range all {
		g.sc.QKeys = append(g.sc.QKeys, i)
	}
	nops := r.Range(2, maxOps)
	seq := 0
	for len(g.sc.Ops) < nops {
		switch {
		case bad && len(g.chain) > 0 && r.Chance(1, 4):
			// an operation that does not fit: wrong previous hash, wrong height, removal below the top
			seq++
			hi := g.addHash(stateHash(1000+seq+int(r.U64()%1000)*7), g.newKVs(2))
			op := BOp{Kind: "c", Height: int64(len(g.chain)), Hash: hi, Prev: g.prevIdx(), KVs: g.kvOf[hi]}
			switch r.Intn(5) {
			case 0:
				op.Prev = hi + 1
			case 1:
				op.Height += int64(r.Range(1, 2))
			case 2:
				op.Height -= 1
			case 3:
				op.Prev = 0
			default:
				lo := r.Intn(len(g.chain))
				op = BOp{Kind: "d", Height: int64(lo), Hash: g.chain[lo], KVs: g.kvOf[g.chain[lo]]}
				if lo == len(g.chain)-1 {
					op.Hash = hi // top height, foreign hash
				}
			}
			g.sc.Ops = append(g.sc.Ops, op)
		case r.Chance(1, 10):
			g.sc.Ops = append(g.sc.Ops, BOp{Kind: "r"})
		case len(g.chain) > 0 && (len(g.chain) >= maxChain || r.Chance(1, 3)):
			n := 1
			if r.Chance(1, 3) {
				n = r.Range(1, len(g.chain))
			}
			for i := 0; i < n && len(g.chain) > 0; i++ {
				g.disconnect()
			}
		case sameHash && len(g.chain) > 0 && r.Chance(1, 2):
			top := g.chain[len(g.chain)-1]
			var kvs []BKV
			if r.Chance(1, 5) {
				kvs = g.kvOf[top] // the same writes again
			}
			hi := g.addHash(unhex(g.sc.Hashes[top]), kvs)
			g.connect(hi)
		case len(g.removed) > 0 && r.Chance(1, 4):
			// a removed block comes back (if its hash is not on the chain)
			hi := g.removed[r.Intn(len(g.removed))]
			onChain := false
			for _, c := range g.chain {
				if g.sc.Hashes[c] == g.sc.Hashes[hi] {
					onChain = true
				}
			}
			if !onChain {
				g.connect(hi)
			}
		default:
			seq++
			g.connect(g.addHash(stateHash(seq+int(r.U64()%100000)*16), g.newKVs(3)))
		}
	}
	return g.sc
}

func bwitnesses() []BScenario {
	h := func(n int) string { return hx(stateHash(n)) }
	v := func(b byte) *string { return strp(hx([]byte{b})) }
	// two blocks, then an empty block with the state hash of its parent is connected and removed
	dup := BScenario{Blocks: true, Layer: "raw", SDB: true, Backend: "memdb",
		Hashes: []string{h(0), h(1), h(1)}, Keys: []string{hx([]byte("a")), hx([]byte("b"))}, QKeys: []int{0, 1},
		Ops: []BOp{
			{Kind: "c", Height: 0, Hash: 0, Prev: 0, KVs: []BKV{{K: 0, V: v(1)}}},
			{Kind: "c", Height: 1, Hash: 1, Prev: 1, KVs: []BKV{{K: 0, V: v(2)}, {K: 1, V: v(3)}}},
			{Kind: "c", Height: 2, Hash: 2, Prev: 2},
			{Kind: "d", Height: 2, Hash: 2, Prev: 2},
			{Kind: "d", Height: 1, Hash: 1, Prev: 1, KVs: []BKV{{K: 0, V: v(2)}, {K: 1, V: v(3)}}},
		}}
	dupPlugin := dup
	dupPlugin.SDB = false
	// the node's local layer: the state of height 0 cannot be opened
	loc := BScenario{Blocks: true, Layer: "local", SDB: true, Backend: "memdb",
		Hashes: []string{h(0), h(1)}, Keys: []string{hx([]byte("a"))}, QKeys: []int{0},
		Ops: []BOp{
			{Kind: "c", Height: 0, Hash: 0, Prev: 0, KVs: []BKV{{K: 0, V: v(1)}}},
			{Kind: "c", Height: 1, Hash: 1, Prev: 1, KVs: []BKV{{K: 0, V: v(2)}}},
		}}
	locPlugin := loc
	locPlugin.SDB = false
	locPlugin.Hashes = []string{h(0), h(1), h(2)}
	locPlugin.Ops = append(append([]BOp{}, loc.Ops...),
		BOp{Kind: "c", Height: 2, Hash: 2, Prev: 2}, // empty KV set: its key list reads as deleted
		BOp{Kind: "d", Height: 2, Hash: 2, Prev: 2})
	return []BScenario{dup, dupPlugin, loc, locPlugin}
}

func blockStreams(o *hlib.Out, r *hlib.Rng, tmp string, mult int) {
	names := []string{"dup-hash", "dup-hash-plugin", "local", "local-plugin"}
	for i, sc := range bwitnesses() {
		runBlocks(o, "blocks-witness-"+names[i], sc, tmp)
	}
	be := func(i int) string {
		if i%8 == 7 {
			return "leveldb"
		}
		return "memdb"
	}
	for i := 0; i < 12*mult; i++ {
		runBlocks(o, "blocks-small-raw", genBlocks(r, "raw", i%3 != 0, "memdb", 4, 2, false, false, false), tmp)
	}
	for i := 0; i < 24*mult; i++ {
		runBlocks(o, "blocks-raw-statedb-"+be(i), genBlocks(r, "raw", true, be(i), 9, 5, false, false, false), tmp)
	}
	for i := 0; i < 10*mult; i++ {
		runBlocks(o, "blocks-raw-plugin-"+be(i), genBlocks(r, "raw", false, be(i), 9, 5, false, false, false), tmp)
	}
	for i := 0; i < 14*mult; i++ {
		runBlocks(o, "blocks-raw-samehash", genBlocks(r, "raw", i%4 != 0, "memdb", 9, 4, true, false, false), tmp)
	}
	for i := 0; i < 10*mult; i++ {
		runBlocks(o, "blocks-local", genBlocks(r, "local", i%2 == 0, be(i), 7, 4, i%5 == 4, false, false), tmp)
	}
	for i := 0; i < 8*mult; i++ {
		runBlocks(o, "blocks-raw-emptyvals", genBlocks(r, "raw", true, "memdb", 8, 4, false, true, false), tmp)
	}
	for i := 0; i < 10*mult; i++ {
		runBlocks(o, "blocks-raw-badops", genBlocks(r, "raw", i%2 == 0, "memdb", 9, 4, false, false, true), tmp)
	}
}
