// hC32: drives the real blockchain.Push (push.go) of /repo over an in-memory
// SequenceStore / CommonStore and a scripted PostService.
//
// Two kinds of cases:
//
//	CGpd  — one call of getPushData(type, start, count, maxSize) on a generated
//	        sequence store (small limits so that the size/count boundaries are hit);
//	CHist — one history of a subscriber task: registration, chain growth, scripted
//	        post results (fail/ok), re-registrations, close/restart. The task
//	        goroutine is observed at its interaction points (LoadBlockLastSequence =
//	        start of a processing round, PostData, SetSync) and held there ("parked")
//	        while the script performs the next operation, so that the recorded trace is
//	        the real order of events. The only real-time waits are the code's own
//	        one-second sleeps after a failed post.
package main

import (
	"crypto/sha256"
	"encoding/binary"
	"errors"
	"fmt"
	"os"
	"runtime"
	"sort"
	"strings"
	"sync"
	"time"

	"github.com/33cn/chain33/blockchain"
	"github.com/33cn/chain33/common"
	dbm "github.com/33cn/chain33/common/db"
	clog "github.com/33cn/chain33/common/log"
	"github.com/33cn/chain33/types"
	"verifharness/hlib"
)

var cfg *types.Chain33Config

const subName = "s"
const contract = "coins"

// ---------------------------------------------------------------- store entries

// Spec describes one sequence-log entry (replay format).
type Spec struct {
	Size int64 `json:"size"` // type 0: size returned by LoadBlockBySequence; type 1: header size target; type 2: per-block receipt size target
	Has  bool  `json:"has"`  // type 2: the block contains a transaction of the subscribed contract
	Del  bool  `json:"del"`  // DelBlock entry (a reorganisation step of the sequence log)
}

type ent struct {
	seq    *types.BlockSequence
	detail *types.BlockDetail
	size   int
	header *types.Header
	bhash  []byte // detail.Block.Hash(cfg)
	msize  int64  // size as the push type sees it (given to the model)
	mhas   bool
}

func entHash(salt uint64, i int) []byte {
	var b [16]byte
	binary.BigEndian.PutUint64(b[:8], salt)
	binary.BigEndian.PutUint64(b[8:], uint64(i))
	h := sha256.Sum256(b[:])
	return h[:]
}

func recvPerBlk(d *types.BlockDetail, seqType int64, i int64, contracts map[string]bool) *types.TxReceipts4SubscribePerBlk {
	p := &types.TxReceipts4SubscribePerBlk{}
	for idx, tx := range d.Block.Txs {
		if contracts[string(tx.Execer)] {
			p.Tx = append(p.Tx, tx)
			p.ReceiptData = append(p.ReceiptData, d.Receipts[idx])
		}
	}
	if len(p.Tx) > 0 {
		p.Height = d.Block.Height
		p.BlockHash = d.Block.Hash(cfg)
		p.ParentHash = d.Block.ParentHash
		p.PreviousHash = []byte{}
		p.AddDelType = int32(seqType)
		p.SeqNum = i
	}
	return p
}

const evmAddr = "1EvmContractAddrSubscribed"

// evmPerBlk mirrors the per-block part of getEVMEvent.
func evmPerBlk(d *types.BlockDetail, seqType int64, i int64, contracts map[string]bool) *types.EVMTxLogPerBlk {
	p := &types.EVMTxLogPerBlk{}
	for idx, tx := range d.Block.Txs {
		if !strings.Contains(string(tx.Execer), "evm") {
			continue
		}
		var act types.EVMContractAction4Chain33
		if types.Decode(tx.Payload, &act) != nil {
			continue
		}
		if !contracts[act.ContractAddr] || d.Receipts[idx].Ty != types.ExecOk {
			continue
		}
		per := &types.EVMLogsPerTx{}
		for _, lg := range d.Receipts[idx].Logs {
			if lg.Ty != 605 {
				continue
			}
			var el types.EVMLog
			if types.Decode(lg.Log, &el) != nil {
				continue
			}
			per.Logs = append(per.Logs, &el)
		}
		if per.Logs != nil {
			p.TxAndLogs = append(p.TxAndLogs, &types.EVMTxAndLogs{Tx: tx, LogsPerTx: per})
		}
	}
	if len(p.TxAndLogs) > 0 {
		p.Height = d.Block.Height
		p.BlockHash = d.Block.Hash(cfg)
		p.ParentHash = d.Block.ParentHash
		p.PreviousHash = []byte{}
		p.AddDelType = int32(seqType)
		p.SeqNum = i
	}
	return p
}

func tune(target int, build func(p int) int) {
	p := target - build(0)
	if p < 0 {
		p = 0
	}
	for k := 0; k < 10; k++ {
		got := build(p)
		if got == target {
			return
		}
		p += target - got
		if p < 0 {
			build(0)
			return
		}
	}
}

// buildEnts realises the specs for one push type.
func buildEnts(ty int, salt uint64, specs []Spec) []*ent {
	out := make([]*ent, len(specs))
	height := int64(-1)
	var prev []byte
	contracts := map[string]bool{contract: true}
	for i, sp := range specs {
		e := &ent{}
		typ := types.AddBlock
		if sp.Del && height > 1 {
			typ = types.DelBlock
			height--
		} else {
			height++
		}
		h := entHash(salt, i)
		e.seq = &types.BlockSequence{Hash: h, Type: typ}
		blk := &types.Block{Height: height, ParentHash: prev, BlockTime: 1600000000 + int64(i), Version: 1}
		tx0 := &types.Transaction{Execer: []byte("ticket"), Payload: []byte{byte(i)}, Nonce: int64(i), To: "t"}
		blk.Txs = []*types.Transaction{tx0}
		rc := func() *types.ReceiptData {
			return &types.ReceiptData{Ty: types.ExecOk, Logs: []*types.ReceiptLog{{Ty: 1, Log: []byte("l")}}}
		}
		recs := []*types.ReceiptData{rc()}
		e.detail = &types.BlockDetail{Block: blk, Receipts: recs}
		e.mhas = true
		switch ty {
		case 0:
			e.size = int(sp.Size)
			e.msize = sp.Size
		case 1:
			hd := &types.Header{Version: 1, ParentHash: prev, StateHash: h[:8], Height: height, BlockTime: blk.BlockTime, TxCount: 1, Hash: h, Difficulty: 1}
			tune(int(sp.Size), func(p int) int { hd.TxHash = make([]byte, p); return hd.Size() })
			e.header = hd
			e.msize = int64(hd.Size())
		case 4:
			evc := map[string]bool{evmAddr: true}
			// an evm transaction of another contract and a failed one of the subscribed contract: never delivered
			other := &types.Transaction{Execer: []byte("user.evm.x"), Payload: types.Encode(&types.EVMContractAction4Chain33{ContractAddr: "1Other"}), Nonce: int64(i), To: "o"}
			blk.Txs = append(blk.Txs, other)
			e.detail.Receipts = append(e.detail.Receipts, &types.ReceiptData{Ty: types.ExecOk, Logs: []*types.ReceiptLog{{Ty: 605, Log: types.Encode(&types.EVMLog{Data: []byte("d")})}}})
			failed := &types.Transaction{Execer: []byte("evm"), Payload: types.Encode(&types.EVMContractAction4Chain33{ContractAddr: evmAddr}), Nonce: int64(i) + 1000, To: "f"}
			blk.Txs = append(blk.Txs, failed)
			e.detail.Receipts = append(e.detail.Receipts, &types.ReceiptData{Ty: types.ExecPack, Logs: []*types.ReceiptLog{{Ty: 605, Log: types.Encode(&types.EVMLog{Data: []byte("d")})}}})
			if sp.Has {
				tx1 := &types.Transaction{Execer: []byte("evm"), Payload: types.Encode(&types.EVMContractAction4Chain33{ContractAddr: evmAddr, Note: "n"}), Nonce: int64(i), To: "c"}
				blk.Txs = append(blk.Txs, tx1)
				r1 := &types.ReceiptData{Ty: types.ExecOk, Logs: []*types.ReceiptLog{{Ty: 1, Log: []byte("l")}, {Ty: 605}}}
				e.detail.Receipts = append(e.detail.Receipts, r1)
				tune(int(sp.Size), func(p int) int {
					r1.Logs[1].Log = types.Encode(&types.EVMLog{Topic: [][]byte{[]byte("topic")}, Data: make([]byte, p), Address: evmAddr})
					return types.Size(evmPerBlk(e.detail, typ, int64(i), evc))
				})
			}
			pb := evmPerBlk(e.detail, typ, int64(i), evc)
			e.mhas = len(pb.TxAndLogs) > 0
			e.msize = int64(types.Size(pb))
		case 2:
			if sp.Has {
				tx1 := &types.Transaction{Execer: []byte(contract), Nonce: int64(i), To: "c"}
				blk.Txs = append(blk.Txs, tx1)
				e.detail.Receipts = append(e.detail.Receipts, rc())
				tune(int(sp.Size), func(p int) int {
					tx1.Payload = make([]byte, p)
					return types.Size(recvPerBlk(e.detail, typ, int64(i), contracts))
				})
			}
			pb := recvPerBlk(e.detail, typ, int64(i), contracts)
			e.mhas = len(pb.Tx) > 0
			e.msize = int64(types.Size(pb))
		default:
			e.msize = 0
		}
		e.bhash = blk.Hash(cfg)
		if e.header == nil {
			e.header = &types.Header{Version: 1, Height: height, Hash: h}
		}
		prev = h
		out[i] = e
	}
	return out
}

func storeTerm(ents []*ent) string {
	var sb strings.Builder
	sb.WriteString("[")
	for i, e := range ents {
		if i > 0 {
			sb.WriteString(";")
		}
		hb := 0
		if e.mhas {
			hb = 1
		}
		fmt.Fprintf(&sb, "%d;%d", e.msize, hb)
	}
	sb.WriteString("]")
	return sb.String()
}

// ---------------------------------------------------------------- mocks

const (
	evRound = 1
	evPost  = 2
)

type event struct {
	kind   int
	t      time.Time
	seqs   []int64
	upd    int64
	cok    bool
	replyL chan int64
	replyB chan bool
	g      int           // multi mode: index of the task goroutine
	goCh   chan struct{} // multi mode: release of a start-up / shutdown / registration park
}

type world struct {
	ty   int
	enc  string
	f2s  int32
	ents []*ent

	mu      sync.Mutex
	visible int
	kv      map[string][]byte
	trace   [][]int64
	started int
	deacts  int
	recs    int

	events  chan *event
	abortCh chan struct{}
	parkOff bool // function-level use: no parking

	push    *blockchain.Push
	pushKey string
	lastKey string

	// multi mode (reg.go): several task goroutines of the one name, each identified and
	// parked at its start-up read, its rounds, its posts and its shutdown steps
	multi       bool
	gmu         sync.Mutex
	gids        map[int64]int
	logHook     bool // park at the "exceed 3 times" log call (status notRunning written, entry not yet deleted)
	parkPersist int  // >0: park the next persisAndStart at its record store
}

func (w *world) logf(v ...int64) {
	w.mu.Lock()
	w.trace = append(w.trace, v)
	w.mu.Unlock()
}

func (w *world) latest() int64 {
	w.mu.Lock()
	defer w.mu.Unlock()
	return int64(w.visible) - 1
}

func (w *world) get(i int64) *ent {
	w.mu.Lock()
	defer w.mu.Unlock()
	if i < 0 || i >= int64(w.visible) {
		return nil
	}
	return w.ents[i]
}

func calledFrom(fn string) bool {
	pcs := make([]uintptr, 24)
	n := runtime.Callers(2, pcs)
	fr := runtime.CallersFrames(pcs[:n])
	for {
		f, more := fr.Next()
		if strings.HasSuffix(f.Function, fn) {
			return true
		}
		if !more {
			return false
		}
	}
}

// SequenceStore
func (w *world) LoadBlockLastSequence() (int64, error) {
	if w.parkOff {
		return w.latest(), nil
	}
	if calledFrom(".updateLastSeq") {
		w.mu.Lock()
		w.trace = append(w.trace, []int64{8})
		w.started++
		l := int64(w.visible) - 1
		w.mu.Unlock()
		return l, nil
	}
	ev := &event{kind: evRound, t: time.Now(), replyL: make(chan int64, 1)}
	if w.multi {
		ev.g = w.gidx()
	}
	select {
	case w.events <- ev:
	case <-w.abortCh:
		return w.latest(), nil
	}
	select {
	case l := <-ev.replyL:
		if l == replyErr {
			return -1, errors.New("scripted sequence store failure")
		}
		return l, nil
	case <-w.abortCh:
		return w.latest(), nil
	}
}

func (w *world) GetBlockSequence(seq int64) (*types.BlockSequence, error) {
	e := w.get(seq)
	if e == nil {
		return nil, types.ErrHeightNotExist
	}
	return e.seq, nil
}

func (w *world) GetBlockHeaderByHash(hash []byte) (*types.Header, error) {
	w.mu.Lock()
	defer w.mu.Unlock()
	for i := 0; i < w.visible; i++ {
		if string(w.ents[i].seq.Hash) == string(hash) {
			return w.ents[i].header, nil
		}
	}
	return nil, types.ErrHashNotExist
}

func (w *world) LoadBlockBySequence(seq int64) (*types.BlockDetail, int, error) {
	e := w.get(seq)
	if e == nil {
		return nil, 0, types.ErrHeightNotExist
	}
	return e.detail, e.size, nil
}

func (w *world) LastHeader() *types.Header {
	e := w.get(w.latest())
	if e == nil {
		return nil
	}
	return e.header
}

func (w *world) GetSequenceByHash(hash []byte) (int64, error) {
	w.mu.Lock()
	defer w.mu.Unlock()
	for i := 0; i < w.visible; i++ {
		if string(w.ents[i].seq.Hash) == string(hash) {
			return int64(i), nil
		}
	}
	return -1, types.ErrHashNotExist
}

// CommonStore (same conventions as BlockStore's generic interface)
func (w *world) SetSync(key, value []byte) error {
	if w.multi && string(key) == w.pushKey {
		w.parkRecordStore()
	}
	w.mu.Lock()
	defer w.mu.Unlock()
	w.kv[string(key)] = append([]byte{}, value...)
	switch string(key) {
	case w.lastKey:
		var n types.Int64
		if types.Decode(value, &n) != nil {
			n.Data = -99
		}
		w.trace = append(w.trace, []int64{4, n.Data})
		w.recs++
	case w.pushKey:
		var p types.PushWithStatus
		if types.Decode(value, &p) != nil {
			p.Status = -99
		}
		w.trace = append(w.trace, []int64{5, int64(p.Status)})
		if p.Status == 2 {
			w.deacts++
		}
	}
	return nil
}
func (w *world) Set(key, value []byte) error { return w.SetSync(key, value) }
func (w *world) GetKey(key []byte) ([]byte, error) {
	if w.multi && string(key) == w.lastKey && calledFrom(".runTask.func1") {
		g := w.gidx()
		w.park(&event{kind: evStart, g: g, goCh: make(chan struct{}, 1)})
		// the read and its trace entry are one step
		w.mu.Lock()
		defer w.mu.Unlock()
		v, ok := w.kv[string(key)]
		val := int64(-1)
		if ok {
			var n types.Int64
			if types.Decode(v, &n) == nil {
				val = n.Data
			} else {
				val = -99
			}
		}
		w.trace = append(w.trace, []int64{20, int64(g), val})
		if !ok {
			return nil, dbm.ErrNotFoundInDb
		}
		return v, nil
	}
	w.mu.Lock()
	defer w.mu.Unlock()
	v, ok := w.kv[string(key)]
	if !ok {
		return nil, dbm.ErrNotFoundInDb
	}
	return v, nil
}
func (w *world) keysWithPrefix(prefix []byte) []string {
	var ks []string
	for k := range w.kv {
		if strings.HasPrefix(k, string(prefix)) {
			ks = append(ks, k)
		}
	}
	sort.Strings(ks)
	return ks
}
func (w *world) PrefixCount(prefix []byte) int64 {
	w.mu.Lock()
	defer w.mu.Unlock()
	return int64(len(w.keysWithPrefix(prefix)))
}
func (w *world) List(prefix []byte) ([][]byte, error) {
	w.mu.Lock()
	defer w.mu.Unlock()
	ks := w.keysWithPrefix(prefix)
	if len(ks) == 0 {
		return nil, types.ErrNotFound
	}
	var vs [][]byte
	for _, k := range ks {
		vs = append(vs, w.kv[k])
	}
	return vs, nil
}

// decodePayload extracts the sequence numbers of a payload and checks that every
// item carries the data of that sequence number.
func (w *world) decodePayload(sub *types.PushSubscribeReq, data []byte) (seqs []int64, cok bool) {
	dec := func(m types.Message) bool {
		if sub.Encode == "jrpc" {
			return types.JSONToPB(data, m) == nil
		}
		return types.Decode(data, m) == nil
	}
	cok = true
	chk := func(num int64, hash []byte, typ int64, byBlockHash bool) {
		seqs = append(seqs, num)
		e := w.get(num)
		if e == nil {
			cok = false
			return
		}
		want := e.seq.Hash
		if byBlockHash {
			want = e.bhash
		}
		if string(want) != string(hash) || e.seq.Type != typ {
			cok = false
		}
	}
	switch sub.Type {
	case 0:
		var m types.BlockSeqs
		if !dec(&m) {
			return nil, false
		}
		for _, s := range m.Seqs {
			chk(s.Num, s.GetSeq().GetHash(), s.GetSeq().GetType(), false)
			if e := w.get(s.Num); e != nil && s.GetDetail().GetBlock().GetHeight() != e.detail.Block.Height {
				cok = false
			}
		}
	case 1:
		var m types.HeaderSeqs
		if !dec(&m) {
			return nil, false
		}
		for _, s := range m.Seqs {
			chk(s.Num, s.GetSeq().GetHash(), s.GetSeq().GetType(), false)
			if string(s.GetHeader().GetHash()) != string(s.GetSeq().GetHash()) {
				cok = false
			}
		}
	case 2:
		var m types.TxReceipts4Subscribe
		if !dec(&m) {
			return nil, false
		}
		for _, s := range m.TxReceipts {
			chk(s.SeqNum, s.BlockHash, int64(s.AddDelType), true)
			if len(s.Tx) == 0 || len(s.Tx) != len(s.ReceiptData) {
				cok = false
			}
		}
	case 3:
		var m types.TxResultSeqs
		if !dec(&m) {
			return nil, false
		}
		for _, s := range m.Items {
			chk(s.SeqNum, s.BlockHash, int64(s.AddDelType), true)
		}
	case 4:
		var m types.EVMTxLogsInBlks
		if !dec(&m) {
			return nil, false
		}
		for _, s := range m.Logs4EVMPerBlk {
			chk(s.SeqNum, s.BlockHash, int64(s.AddDelType), true)
			if len(s.TxAndLogs) != 1 || s.TxAndLogs[0].GetTx().GetTo() != "c" {
				cok = false
			}
		}
	default:
		return nil, false
	}
	return seqs, cok
}

// PostService
func (w *world) PostData(sub *types.PushSubscribeReq, data []byte, seq int64) error {
	seqs, cok := w.decodePayload(sub, data)
	ev := &event{kind: evPost, t: time.Now(), seqs: seqs, upd: seq, cok: cok, replyB: make(chan bool, 1)}
	if w.multi {
		ev.g = w.gidx()
	}
	select {
	case w.events <- ev:
	case <-w.abortCh:
		return nil
	}
	select {
	case ok := <-ev.replyB:
		if ok {
			return nil
		}
		return errors.New("scripted post failure")
	case <-w.abortCh:
		return nil
	}
}

func subscribeReq(ty int, enc string) *types.PushSubscribeReq {
	s := &types.PushSubscribeReq{Name: subName, URL: "http://mock.invalid/cb", Encode: enc, Type: int32(ty)}
	if ty == 2 {
		s.Contract = map[string]bool{contract: true}
	}
	if ty == 4 {
		s.Contract = map[string]bool{evmAddr: true}
	}
	return s
}

func newWorld(ty int, enc string, f2s int32, salt uint64, specs []Spec) *world {
	w := &world{ty: ty, enc: enc, f2s: f2s, ents: buildEnts(ty, salt, specs), kv: map[string][]byte{},
		events: make(chan *event), abortCh: make(chan struct{})}
	pk, lk := blockchain.PushKeysVerif(subName)
	w.pushKey, w.lastKey = string(pk), string(lk)
	return w
}

// ---------------------------------------------------------------- function-level cases

// Gpd is the replay format of a getPushData case.
type Gpd struct {
	Kind   string `json:"kind"`
	Ty     int    `json:"ty"`
	Enc    string `json:"enc"`
	Salt   uint64 `json:"salt"`
	Specs  []Spec `json:"specs"`
	Start  int64  `json:"start"`
	Count  int    `json:"count"`
	MaxSz  int    `json:"max"`
	Stream string `json:"stream"`
}

type gpdImpl struct {
	Code int64   `json:"code"` // 0 data, 1 nil data, 2 error, 3 panic
	Upd  int64   `json:"upd"`
	Seqs []int64 `json:"seqs"`
	Cok  bool    `json:"content_ok"`
}

func runGpd(o *hlib.Out, g Gpd) {
	w := newWorld(g.Ty, g.Enc, 1, g.Salt, g.Specs)
	w.parkOff = true
	w.visible = len(w.ents)
	w.push = blockchain.NewPushVerif(w, w, w, cfg, 1)
	sub := subscribeReq(g.Ty, g.Enc)
	var r gpdImpl
	func() {
		defer func() {
			if e := recover(); e != nil {
				r = gpdImpl{Code: 3}
			}
		}()
		data, upd, err := w.push.GetPushDataVerif(sub, g.Start, g.Count, g.MaxSz)
		switch {
		case err != nil:
			r = gpdImpl{Code: 2}
		case data == nil:
			r = gpdImpl{Code: 1, Upd: upd}
		default:
			seqs, cok := w.decodePayload(sub, data)
			r = gpdImpl{Code: 0, Upd: upd, Seqs: seqs, Cok: cok}
			if !cok {
				r.Code = 8
			}
		}
	}()
	res := []string{fmt.Sprint(r.Code), fmt.Sprint(r.Upd)}
	for _, s := range r.Seqs {
		res = append(res, fmt.Sprint(s))
	}
	term := fmt.Sprintf("(CGpd %d %s (%d) (%d) (%d) [%s])", g.Ty, storeTerm(w.ents), g.Start, g.Count, g.MaxSz, strings.Join(res, ";"))
	nontriv := r.Code != 0 || len(r.Seqs) < g.Count
	g.Kind = "gpd"
	o.Emit("gpd-"+g.Stream, nontriv, term, g, r)
}

// ---------------------------------------------------------------- histories

// Op is one script operation.
type Op struct {
	Op     string `json:"op"` // grow | sub | step | resume | probe | close | restart | wait
	N      int    `json:"n,omitempty"`
	Notify int    `json:"notify,omitempty"`
	R0     int64  `json:"r0,omitempty"`
	Hash   bool   `json:"hash,omitempty"`
	Ok     bool   `json:"ok,omitempty"`
	Same   bool   `json:"same,omitempty"`
}

// Hist is the replay format of a history case.
type Hist struct {
	Kind   string `json:"kind"`
	Ty     int    `json:"ty"`
	Enc    string `json:"enc"`
	F2S    int32  `json:"f2s"`
	Salt   uint64 `json:"salt"`
	Specs  []Spec `json:"specs"`
	Ops    []Op   `json:"ops"`
	Stream string `json:"stream"`
}

const (
	stNone = iota
	stParked
	stDead
	stSleeping
	stClosed
	stAborted
)

type driver struct {
	w          *world
	st         int
	parked     *event
	failAt     time.Time
	failPend   bool
	lpKnown    int64
	nfail, nok int
	retryOK    bool
	deactSeen  bool
	resumed    bool
	timeout    time.Duration
}

func (d *driver) abort(why int64) {
	d.w.logf(99, why)
	d.st = stAborted
	close(d.w.abortCh)
}

func (d *driver) waitEvent() *event {
	select {
	case ev := <-d.w.events:
		return ev
	case <-time.After(d.timeout):
		return nil
	}
}

// waitRound: the next thing the task does must be the start of a round.
func (d *driver) waitRound(why int64) bool {
	ev := d.waitEvent()
	if ev == nil || ev.kind != evRound {
		d.abort(why)
		return false
	}
	d.parked = ev
	d.st = stParked
	return true
}

func (d *driver) info() (exists bool, sleep int32, queued int) {
	e, _, s, q := d.w.push.TaskInfoVerif(subName)
	return e, s, q
}

func (d *driver) lastSeq() int64 {
	d.w.mu.Lock()
	defer d.w.mu.Unlock()
	v, ok := d.w.kv[d.w.lastKey]
	if !ok {
		return -1
	}
	var n types.Int64
	if types.Decode(v, &n) != nil {
		return -99
	}
	return n.Data
}

func (d *driver) dbStatus() int64 {
	d.w.mu.Lock()
	defer d.w.mu.Unlock()
	v, ok := d.w.kv[d.w.pushKey]
	if !ok {
		return 0
	}
	var p types.PushWithStatus
	if types.Decode(v, &p) != nil {
		return -99
	}
	return int64(p.Status)
}

func errCode(err error) int64 {
	switch err {
	case nil:
		return 0
	case types.ErrNotAllowModifyPush:
		return 1
	case types.ErrHeightNotExist:
		return 2
	case types.ErrInvalidParam:
		return 3
	}
	return 9
}

func (d *driver) startedCount() int {
	d.w.mu.Lock()
	defer d.w.mu.Unlock()
	return d.w.started
}

func (d *driver) addSubscriber(req *types.PushSubscribeReq) {
	before := d.startedCount()
	err := d.w.push.AddSubscriberVerif(req)
	d.w.logf(9, errCode(err))
	if d.startedCount() > before {
		d.lpKnown = d.lastSeq()
		d.waitRound(101)
	}
}

// handlePost logs a post, answers it and brings the task to its next resting point.
func (d *driver) handlePost(ev *event, ok bool, L int64) {
	w := d.w
	ent := []int64{2, ev.upd, b2i(ev.cok)}
	ent = append(ent, ev.seqs...)
	w.logf(ent...)
	w.logf(3, b2i(ok))
	deactsBefore := func() int { w.mu.Lock(); defer w.mu.Unlock(); return w.deacts }()
	if ok {
		d.nok++
		if d.nfail > 0 {
			d.retryOK = true
		}
		d.lpKnown = ev.upd
		ev.replyB <- true
		if _, _, q := d.info(); q == 0 {
			w.push.UpdateSeq(w.latest())
		}
		d.waitRound(102)
		return
	}
	d.nfail++
	d.failAt = time.Now()
	d.failPend = true
	ev.replyB <- false
	deadline := time.Now().Add(d.timeout)
	for {
		select {
		case ev2 := <-w.events:
			if ev2.kind != evRound {
				d.abort(103)
				return
			}
			d.parked = ev2
			d.st = stParked
			return
		case <-time.After(500 * time.Microsecond):
		}
		w.mu.Lock()
		dn := w.deacts
		w.mu.Unlock()
		exists, sleep, q := d.info()
		if dn > deactsBefore && !exists {
			d.st = stDead
			d.failPend = false
			d.deactSeen = true
			return
		}
		if w.f2s >= 2 && exists && sleep > 0 && q == 0 {
			d.st = stSleeping
			return
		}
		if time.Now().After(deadline) {
			d.abort(104)
			return
		}
	}
}

func b2i(b bool) int64 {
	if b {
		return 1
	}
	return 0
}

// release lets the parked round run with the current newest sequence.
func (d *driver) release(closing bool) int64 {
	w := d.w
	L := w.latest()
	dflag := int64(0)
	if d.failPend && d.parked.t.Sub(d.failAt) >= 900*time.Millisecond {
		dflag = 1
	}
	d.failPend = false
	w.logf(1, L, dflag)
	d.parked.replyL <- L
	d.parked = nil
	return L
}

func (d *driver) step(ok bool) {
	w := d.w
	if d.st == stSleeping {
		d.wait()
	}
	if d.st != stParked {
		return
	}
	L := w.latest()
	willPost := d.lpKnown > 0 && d.lpKnown < L
	_, _, q := d.info()
	emptyRelease := w.f2s >= 2 && willPost && !ok && q == 0 && w.ty != 2 && w.ty != 4
	if q == 0 && !emptyRelease {
		w.push.UpdateSeq(L)
	}
	L = d.release(false)
	ev := d.waitEvent()
	if ev == nil {
		d.abort(105)
		return
	}
	if ev.kind == evRound {
		d.parked = ev
		d.st = stParked
		return
	}
	if w.f2s >= 2 && !emptyRelease {
		ok = true // a failure with a queued notification would race with the sleep ticks
	}
	d.handlePost(ev, ok, L)
}

func (d *driver) wait() {
	w := d.w
	if d.st != stSleeping {
		return
	}
	deadline := time.Now().Add(d.timeout + time.Duration(w.f2s)*time.Second)
	for {
		_, sleep, _ := d.info()
		if sleep <= 0 {
			break
		}
		if time.Now().After(deadline) {
			d.abort(106)
			return
		}
		time.Sleep(2 * time.Millisecond)
	}
	el := time.Since(d.failAt) + 100*time.Millisecond
	k := int64(el / time.Second)
	if k > int64(w.f2s) {
		k = int64(w.f2s)
	}
	w.logf(10, k)
	d.failPend = false
	w.push.UpdateSeq(w.latest())
	d.waitRound(107)
}

func (d *driver) closeOp() {
	w := d.w
	if d.st != stParked && d.st != stDead && d.st != stSleeping {
		return
	}
	done := make(chan struct{})
	go func() { w.push.Close(); close(done) }()
	if d.st == stParked {
		d.release(true)
	}
	deadline := time.After(d.timeout)
loop:
	for {
		select {
		case ev := <-w.events:
			if ev.kind == evRound {
				d.parked = ev
				d.release(true)
			} else {
				ent := []int64{2, ev.upd, b2i(ev.cok)}
				ent = append(ent, ev.seqs...)
				w.logf(ent...)
				w.logf(3, 1)
				d.nok++
				ev.replyB <- true
			}
		case <-done:
			break loop
		case <-deadline:
			d.abort(108)
			return
		}
	}
	w.logf(11)
	d.st = stClosed
}

func (d *driver) probe() {
	if d.st == stAborted {
		return
	}
	exists, sleep, _ := d.info()
	// the sleep counter is only reported where it is well defined for the script
	// (a parked task has already consumed its notification)
	sl := int64(-1)
	if d.st == stSleeping || d.st == stDead {
		sl = b2i(sleep > 0)
	}
	d.w.logf(14, b2i(exists), sl, d.lastSeq(), d.dbStatus())
}

func runHist(h Hist) (term string, impl interface{}, nontriv bool) {
	w := newWorld(h.Ty, h.Enc, h.F2S, h.Salt, h.Specs)
	w.push = blockchain.NewPushVerif(w, w, w, cfg, h.F2S)
	d := &driver{w: w, st: stNone, timeout: 30 * time.Second}
	for _, op := range h.Ops {
		if d.st == stAborted {
			break
		}
		switch op.Op {
		case "grow":
			if d.st == stSleeping && op.Notify > 0 {
				op.Notify = 0
			}
			w.mu.Lock()
			w.visible += op.N
			if w.visible > len(w.ents) {
				w.visible = len(w.ents)
			}
			w.mu.Unlock()
			if w.f2s >= 2 {
				op.Notify = 0
			}
			for i := 0; i < op.Notify; i++ {
				w.push.UpdateSeq(w.latest())
			}
		case "sub":
			if d.st != stNone {
				continue
			}
			req := subscribeReq(h.Ty, h.Enc)
			hashok := int64(0)
			if op.R0 != 0 {
				req.LastSequence = op.R0
				req.LastHeight = 1
				e := w.get(op.R0)
				if e != nil && e.detail.Block.Height > 0 {
					req.LastHeight = e.detail.Block.Height
				}
				if e != nil && op.Hash {
					req.LastBlockHash = common.ToHex(e.seq.Hash)
					hashok = 1
				} else {
					req.LastBlockHash = common.ToHex(entHash(h.Salt+77, int(op.R0)))
				}
			}
			w.logf(6, op.R0, hashok, w.latest())
			d.addSubscriber(req)
		case "resume":
			if d.st == stNone || d.st == stAborted || d.st == stClosed {
				continue
			}
			req := subscribeReq(h.Ty, h.Enc)
			if !op.Same {
				req.URL = "http://other.invalid/cb"
			}
			w.logf(7, b2i(op.Same))
			wasSleeping := d.st == stSleeping
			if op.Same {
				d.failPend = false
				d.resumed = true
			}
			d.addSubscriber(req)
			if wasSleeping && op.Same && d.st == stSleeping {
				w.push.UpdateSeq(w.latest())
				d.waitRound(109)
			}
		case "step":
			d.step(op.Ok)
		case "wait":
			d.wait()
		case "probe":
			d.probe()
		case "close":
			d.closeOp()
		case "restart":
			if d.st != stClosed {
				continue
			}
			w.logf(12)
			before := d.startedCount()
			w.push = blockchain.NewPushVerif(w, w, w, cfg, h.F2S)
			if d.startedCount() > before {
				d.lpKnown = d.lastSeq()
				d.waitRound(110)
			} else {
				d.st = stDead
			}
		}
	}
	d.probe()
	if d.st != stAborted {
		d.closeOp()
	}
	if d.st != stAborted {
		close(w.abortCh)
	}
	w.mu.Lock()
	defer w.mu.Unlock()
	var sb strings.Builder
	sb.WriteString("[")
	for i, e := range w.trace {
		if i > 0 {
			sb.WriteString(";")
		}
		sb.WriteString("[")
		for j, v := range e {
			if j > 0 {
				sb.WriteString(";")
			}
			fmt.Fprint(&sb, v)
		}
		sb.WriteString("]")
	}
	sb.WriteString("]")
	term = fmt.Sprintf("(CHist %d (%d) (%d) %s %s)", h.Ty, blockchain.PushMaxSizeVerif, h.F2S, storeTerm(w.ents), sb.String())
	nontriv = d.retryOK || (d.deactSeen && d.resumed)
	return term, map[string]interface{}{"trace": w.trace, "posts_ok": d.nok, "posts_failed": d.nfail}, nontriv
}

// ---------------------------------------------------------------- generators

type gen struct{ r *hlib.Rng }

var blockSizesEdge = []int64{0, 1, 1000, 300000, 524287, 524288, 524289, 1048575, 1048576, 1048577, 2000000}

func (g *gen) specs(ty int, profile string, n int) []Spec {
	sp := make([]Spec, n)
	for i := range sp {
		s := &sp[i]
		s.Del = i > 2 && g.r.Chance(1, 8)
		switch ty {
		case 0:
			switch profile {
			case "small":
				s.Size = int64(g.r.Range(0, 900))
			case "mid":
				s.Size = int64(g.r.Range(250000, 560000))
			default:
				s.Size = hlib.Pick(g.r, blockSizesEdge)
			}
		case 1:
			if profile == "big" {
				s.Size = hlib.Pick(g.r, []int64{200, 300000, 524287, 524288, 524289, 1048576 - 200, 1100000})
			} else {
				s.Size = int64(g.r.Range(60, 160))
			}
		case 2, 4:
			s.Has = g.r.Chance(3, 5)
			if profile == "big" {
				s.Size = hlib.Pick(g.r, []int64{150, 150, 400000, 524288, 1048576 - 150, 1048576, 1048577, 1300000})
			} else {
				s.Size = int64(g.r.Range(110, 200))
				if ty == 4 {
					s.Size += 60
				}
			}
		}
	}
	if n > 0 {
		sp[0].Del = false
	}
	return sp
}

func (g *gen) hist(stream string, ty int, profile string, f2s int32, maxFails int) Hist {
	r := g.r
	n := r.Range(8, 30)
	if profile == "big" {
		n = r.Range(6, 12)
	}
	long := profile == "long"
	if long {
		n = r.Range(24, 40)
		if ty == 2 {
			n = r.Range(104, 125)
		}
	}
	h := Hist{Kind: "hist", Ty: ty, Enc: "proto", F2S: f2s, Salt: r.U64() >> 8, Stream: stream}
	if profile != "big" && r.Chance(1, 4) {
		h.Enc = "jrpc"
	}
	h.Specs = g.specs(ty, profile, n)
	n0 := r.Range(1, 6)
	if long {
		n0 = n - r.Range(2, 6)
	}
	h.Ops = append(h.Ops, Op{Op: "grow", N: n0})
	// registration
	switch c := r.Intn(100); {
	case f2s >= 2 || c < 40:
		if n0 >= 2 {
			r0 := int64(r.Range(1, n0-1))
			if long {
				r0 = int64(r.Range(1, 3))
			}
			h.Ops = append(h.Ops, Op{Op: "sub", R0: r0, Hash: true})
		} else {
			h.Ops = append(h.Ops, Op{Op: "sub"})
		}
	case c < 80:
		h.Ops = append(h.Ops, Op{Op: "sub"})
	case c < 90:
		h.Ops = append(h.Ops, Op{Op: "sub", R0: int64(r.Range(1, n0)), Hash: false})
	default:
		h.Ops = append(h.Ops, Op{Op: "sub", R0: int64(n0 + r.Range(0, 3)), Hash: true}, Op{Op: "sub"})
	}
	failP := hlib.Pick(r, []int{0, 20, 45, 70, 90})
	fails := 0
	shown := n0
	rounds := r.Range(5, 12)
	closed := false
	for k := 0; k < rounds; k++ {
		if shown < n {
			kk := r.Range(1, 4)
			if r.Chance(1, 6) {
				kk = r.Range(8, 14)
			}
			h.Ops = append(h.Ops, Op{Op: "grow", N: kk, Notify: hlib.Pick(r, []int{0, 1, 1, kk})})
			shown += kk
		}
		for s := r.Range(1, 3); s > 0; s-- {
			ok := !r.Chance(failP, 100) || fails >= maxFails
			if !ok {
				fails++
			}
			h.Ops = append(h.Ops, Op{Op: "step", Ok: ok})
			if !ok && f2s >= 2 {
				switch r.Intn(3) {
				case 0:
					h.Ops = append(h.Ops, Op{Op: "resume", Same: true})
				default:
					h.Ops = append(h.Ops, Op{Op: "wait"})
				}
			}
		}
		switch c := r.Intn(100); {
		case c < 14:
			h.Ops = append(h.Ops, Op{Op: "resume", Same: true})
		case c < 18:
			h.Ops = append(h.Ops, Op{Op: "resume", Same: false})
		case c < 30:
			h.Ops = append(h.Ops, Op{Op: "probe"})
		case c < 38 && !closed:
			h.Ops = append(h.Ops, Op{Op: "close"}, Op{Op: "probe"})
			if r.Chance(1, 2) {
				h.Ops = append(h.Ops, Op{Op: "grow", N: r.Range(1, 3)})
			}
			h.Ops = append(h.Ops, Op{Op: "restart"})
		}
	}
	h.Ops = append(h.Ops, Op{Op: "resume", Same: true})
	for s := 0; s < 3; s++ {
		h.Ops = append(h.Ops, Op{Op: "step", Ok: true})
	}
	return h
}

func fixedHists() []Hist {
	sm := func(n int) []Spec {
		s := make([]Spec, n)
		for i := range s {
			s[i] = Spec{Size: 150, Has: true}
		}
		return s
	}
	st := func(ok bool) Op { return Op{Op: "step", Ok: ok} }
	var hs []Hist
	// size boundary (fixed finding C32-F1): a receipt whose size fills the limit exactly ends the batch and opens
	// the next one (before the fix it was counted without being sent); alone it fills the limit and is not passed
	gap := sm(6)
	gap[3].Size = 1048576 - 150
	hs = append(hs, Hist{Stream: "fixed-gap", Ty: 2, Enc: "proto", F2S: 1, Salt: 11, Specs: gap,
		Ops: []Op{{Op: "grow", N: 5}, {Op: "sub", R0: 1, Hash: true}, st(true), st(true), {Op: "grow", N: 1, Notify: 1}, st(true), st(true)}})
	gap2 := sm(5)
	gap2[2].Size = 1048576
	hs = append(hs, Hist{Stream: "fixed-gap", Ty: 2, Enc: "proto", F2S: 1, Salt: 12, Specs: gap2,
		Ops: []Op{{Op: "grow", N: 4}, {Op: "sub", R0: 1, Hash: true}, st(true), st(true), {Op: "grow", N: 1, Notify: 1}, st(true), st(true)}})
	// liveness remark: a matching block not smaller than the limit never advances
	big := sm(6)
	big[2].Size = 1048577
	hs = append(hs, Hist{Stream: "fixed-stall", Ty: 2, Enc: "proto", F2S: 1, Salt: 13, Specs: big,
		Ops: []Op{{Op: "grow", N: 4}, {Op: "sub", R0: 1, Hash: true}, st(true), st(true), st(true), {Op: "probe"}, {Op: "grow", N: 2, Notify: 2}, st(true), st(true), {Op: "probe"}}})
	// block type: first block of a batch is always sent, whatever its size
	be := []Spec{{Size: 10}, {Size: 10}, {Size: 2000000}, {Size: 1048576}, {Size: 1048575}, {Size: 1}, {Size: 0}, {Size: 0}, {Size: 1048576}, {Size: 5}}
	hs = append(hs, Hist{Stream: "fixed-block", Ty: 0, Enc: "proto", F2S: 1, Salt: 14, Specs: be,
		Ops: []Op{{Op: "grow", N: 10}, {Op: "sub", R0: 1, Hash: true}, st(true), st(false), st(true), st(true), st(true), st(true), st(true), st(true), st(true)}})
	// deactivation after three consecutive failures, growth while dead, re-registration
	hs = append(hs, Hist{Stream: "fixed-deact", Ty: 0, Enc: "jrpc", F2S: 1, Salt: 15, Specs: sm(12),
		Ops: []Op{{Op: "grow", N: 3}, {Op: "sub"}, st(true), {Op: "grow", N: 2, Notify: 2}, st(true), st(true), {Op: "grow", N: 1, Notify: 1}, st(false), st(false), st(false),
			{Op: "probe"}, {Op: "grow", N: 3, Notify: 1}, {Op: "resume", Same: true}, {Op: "probe"}, st(true), st(true), st(true)}})
	// failure counter is reset by a success
	hs = append(hs, Hist{Stream: "fixed-reset", Ty: 1, Enc: "proto", F2S: 1, Salt: 16, Specs: sm(12),
		Ops: []Op{{Op: "grow", N: 4}, {Op: "sub", R0: 2, Hash: true}, st(false), st(false), st(true), {Op: "grow", N: 2, Notify: 1}, st(false), st(false), st(true), {Op: "grow", N: 2, Notify: 1},
			st(false), st(false), st(false), {Op: "probe"}, {Op: "resume", Same: true}, st(true), st(true)}})
	// close and restart in the middle, inactive subscriber is not restarted
	hs = append(hs, Hist{Stream: "fixed-restart", Ty: 3, Enc: "proto", F2S: 1, Salt: 17, Specs: sm(14),
		Ops: []Op{{Op: "grow", N: 4}, {Op: "sub", R0: 1, Hash: true}, st(true), {Op: "close"}, {Op: "grow", N: 3}, {Op: "restart"}, st(true), st(true), {Op: "grow", N: 2, Notify: 2},
			st(false), st(false), st(false), {Op: "close"}, {Op: "restart"}, {Op: "probe"}, {Op: "grow", N: 2}, {Op: "resume", Same: true}, st(true), st(true)}})
	// count limit: 25 blocks behind
	hs = append(hs, Hist{Stream: "fixed-count", Ty: 0, Enc: "proto", F2S: 1, Salt: 18, Specs: sm(30),
		Ops: []Op{{Op: "grow", N: 28}, {Op: "sub", R0: 2, Hash: true}, st(true), st(true), st(false), st(true), st(true), st(true)}})
	// multi-tick sleep and re-registration during the sleep
	hs = append(hs, Hist{Stream: "fixed-sleep", Ty: 0, Enc: "proto", F2S: 3, Salt: 19, Specs: sm(12),
		Ops: []Op{{Op: "grow", N: 5}, {Op: "sub", R0: 1, Hash: true}, st(false), {Op: "probe"}, {Op: "wait"}, st(false), {Op: "resume", Same: true}, st(true), {Op: "grow", N: 2}, st(true), st(true)}})
	// the same boundary in getEVMEvent
	egap := sm(6)
	for i := range egap {
		egap[i].Size = 260
	}
	egap[3].Size = 1048576 - 260
	hs = append(hs, Hist{Stream: "fixed-evm-gap", Ty: 4, Enc: "proto", F2S: 1, Salt: 21, Specs: egap,
		Ops: []Op{{Op: "grow", N: 5}, {Op: "sub", R0: 1, Hash: true}, st(true), st(true), {Op: "grow", N: 1, Notify: 1}, st(true), st(true)}})
	for i := range hs {
		hs[i].Kind = "hist"
	}
	return hs
}

func (g *gen) gpd(stream string, ty int) Gpd {
	r := g.r
	n := r.Range(1, 9)
	specs := make([]Spec, n)
	var maxs int
	switch ty {
	case 0:
		for i := range specs {
			specs[i].Size = int64(r.Range(0, 6))
		}
		maxs = r.Range(0, 14)
	case 1:
		for i := range specs {
			specs[i].Size = int64(r.Range(60, 90))
		}
	case 2, 4:
		for i := range specs {
			specs[i].Size = int64(r.Range(110, 140))
			if ty == 4 {
				specs[i].Size += 60
			}
			specs[i].Has = r.Chance(2, 3)
		}
	}
	for i := range specs {
		specs[i].Del = i > 1 && r.Chance(1, 6)
	}
	q := Gpd{Ty: ty, Enc: "proto", Salt: r.U64() >> 8, Specs: specs, Stream: stream}
	if r.Chance(1, 5) {
		q.Enc = "jrpc"
	}
	q.Start = int64(r.Range(0, n-1))
	if r.Chance(1, 12) {
		q.Start = int64(r.Range(-2, n+1))
	}
	q.Count = r.Range(1, n-int(clamp(q.Start, 0, int64(n-1))))
	if r.Chance(1, 10) {
		q.Count = r.Range(-1, n+2)
	}
	if ty == 1 || ty == 2 || ty == 4 {
		// limit near a window sum of real sizes (computed after building)
		ents := buildEnts(ty, q.Salt, specs)
		s := int(clamp(q.Start, 0, int64(n-1)))
		e := s + r.Range(0, n-1-s)
		sum := 0
		for i := s; i <= e; i++ {
			if ents[i].mhas {
				sum += int(ents[i].msize)
			}
		}
		maxs = sum + hlib.Pick(r, []int{-1, 0, 0, 1, 1, 2, 1000})
		if r.Chance(1, 10) {
			maxs = r.Range(0, 150)
		}
	}
	q.MaxSz = maxs
	return q
}

func clamp(v, lo, hi int64) int64 {
	if v < lo {
		return lo
	}
	if v > hi {
		return hi
	}
	return v
}

// ---------------------------------------------------------------- main

type histRes struct {
	term    string
	impl    interface{}
	nontriv bool
}

func runHists(o *hlib.Out, hs []Hist, par int) {
	res := make([]histRes, len(hs))
	sem := make(chan struct{}, par)
	bigSem := make(chan struct{}, 3)
	var wg sync.WaitGroup
	for i := range hs {
		wg.Add(1)
		sem <- struct{}{}
		go func(i int) {
			defer wg.Done()
			defer func() { <-sem }()
			if strings.Contains(hs[i].Stream, "big") || strings.HasPrefix(hs[i].Stream, "fixed-gap") || strings.HasPrefix(hs[i].Stream, "fixed-evm") || hs[i].Stream == "fixed-stall" {
				bigSem <- struct{}{}
				defer func() { <-bigSem }()
			}
			t, im, nt := runHist(hs[i])
			res[i] = histRes{t, im, nt}
		}(i)
	}
	wg.Wait()
	for i := range hs {
		o.Emit(hs[i].Stream, res[i].nontriv, res[i].term, hs[i], res[i].impl)
	}
}

func main() {
	opts := hlib.ParseFlags()
	clog.SetLogLevel("crit")
	cfg = types.NewChain33Config(types.GetDefaultCfgstring())
	o := hlib.NewOut(opts.OutDir)
	defer o.Close()
	if opts.Replay != "" {
		var probe struct {
			Kind string `json:"kind"`
		}
		if err := hlib.ReplayInput(opts.Replay, &probe); err != nil {
			panic(err)
		}
		if probe.Kind == "race" {
			var rr struct {
				World Race `json:"world"`
			}
			if err := hlib.ReplayInput(opts.Replay, &rr); err != nil {
				panic(err)
			}
			runRace(o, rr.World)
		} else if probe.Kind == "reg" {
			var h Reg
			if err := hlib.ReplayInput(opts.Replay, &h); err != nil {
				panic(err)
			}
			installLogHook()
			runRegs(o, []Reg{h}, 1)
		} else if probe.Kind == "gpd" {
			var q Gpd
			if err := hlib.ReplayInput(opts.Replay, &q); err != nil {
				panic(err)
			}
			runGpd(o, q)
		} else {
			var h Hist
			if err := hlib.ReplayInput(opts.Replay, &h); err != nil {
				panic(err)
			}
			runHists(o, []Hist{h}, 1)
		}
		return
	}
	g := &gen{r: hlib.NewRng(opts.Seed)}
	mult := 1
	if opts.Thorough() {
		mult = 8
	}
	if opts.Extra == "reg" { // development aid: only the multi-goroutine histories
		installLogHook()
		runRegs(o, g.regs(mult), 96)
		for _, h := range g.races(mult) {
			runRace(o, h)
		}
		fmt.Fprintf(os.Stderr, "hC32: %d cases\n", o.Count())
		return
	}
	// function-level cases first (small)
	for _, q := range []Gpd{
		{Ty: 0, Enc: "proto", Salt: 1, Specs: []Spec{{Size: 5}, {Size: 5}, {Size: 5}}, Start: 0, Count: 3, MaxSz: 10, Stream: "fixed"},
		{Ty: 0, Enc: "proto", Salt: 1, Specs: []Spec{{Size: 5}, {Size: 5}, {Size: 5}}, Start: 0, Count: 3, MaxSz: 11, Stream: "fixed"},
		{Ty: 0, Enc: "proto", Salt: 1, Specs: []Spec{{Size: 50}, {Size: 5}}, Start: 0, Count: 2, MaxSz: 10, Stream: "fixed"},
		{Ty: 0, Enc: "proto", Salt: 1, Specs: []Spec{{Size: 5}}, Start: 0, Count: 0, MaxSz: 10, Stream: "fixed"},
		{Ty: 3, Enc: "proto", Salt: 1, Specs: []Spec{{Size: 5}}, Start: 0, Count: 0, MaxSz: 10, Stream: "fixed"},
		{Ty: 2, Enc: "proto", Salt: 1, Specs: []Spec{{Size: 120, Has: true}}, Start: 0, Count: 0, MaxSz: 10, Stream: "fixed"},
		{Ty: 3, Enc: "jrpc", Salt: 2, Specs: []Spec{{}, {}, {}}, Start: 1, Count: 2, MaxSz: 0, Stream: "fixed"},
		{Ty: 3, Enc: "proto", Salt: 2, Specs: []Spec{{}, {}, {}}, Start: 1, Count: 3, MaxSz: 0, Stream: "fixed"},
	} {
		runGpd(o, q)
	}
	for i := 0; i < 260*mult; i++ {
		runGpd(o, g.gpd("block", 0))
	}
	for i := 0; i < 160*mult; i++ {
		runGpd(o, g.gpd("header", 1))
	}
	for i := 0; i < 320*mult; i++ {
		runGpd(o, g.gpd("receipt", 2))
	}
	for i := 0; i < 40*mult; i++ {
		runGpd(o, g.gpd("result", 3))
	}
	for i := 0; i < 160*mult; i++ {
		runGpd(o, g.gpd("evm", 4))
	}
	// histories
	hs := fixedHists()
	maxFails := 7
	add := func(n int, stream string, ty int, profile string, f2s int32) {
		for i := 0; i < n; i++ {
			hs = append(hs, g.hist(stream, ty, profile, f2s, maxFails))
		}
	}
	add(40*mult, "hist-block-small", 0, "small", 1)
	add(30*mult, "hist-block-mid", 0, "mid", 1)
	add(40*mult, "hist-block-edge", 0, "edge", 1)
	add(30*mult, "hist-header", 1, "small", 1)
	add(50*mult, "hist-receipt", 2, "small", 1)
	add(25*mult, "hist-result", 3, "small", 1)
	add(25*mult, "hist-evm", 4, "small", 1)
	add(4*mult, "hist-evm-big", 4, "big", 1)
	add(12*mult, "hist-block-long", 0, "long", 1)
	add(4*mult, "hist-receipt-long", 2, "long", 1)
	for i := 0; i < 16*mult; i++ {
		add(1, "hist-sleepN", hlib.Pick(g.r, []int{0, 1, 3}), "small", int32(g.r.Range(2, 3)))
	}
	add(3*mult, "hist-header-big", 1, "big", 1)
	add(8*mult, "hist-receipt-big", 2, "big", 1)
	par := 96
	runHists(o, hs, par)
	installLogHook()
	runRegs(o, g.regs(mult), par)
	for _, h := range g.races(mult) {
		runRace(o, h)
	}
	fmt.Fprintf(os.Stderr, "hC32: %d cases\n", o.Count())
}
