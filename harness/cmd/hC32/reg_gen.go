package main

import (
	"fmt"
	"sync"

	"verifharness/hlib"
)

// regs generates the multi-goroutine histories.
func (g *gen) regs(mult int) []Reg {
	r := g.r
	var hs []Reg
	mk := func(stream, tmpl string, ty int, guarded bool) Reg {
		n := r.Range(26, 44)
		h := Reg{Kind: "reg", Stream: stream, Tmpl: tmpl, Guarded: guarded, Ty: ty, Enc: "proto", Salt: r.U64() >> 8,
			Sched: r.U64() >> 8, Steps: r.Range(14, 40)}
		if r.Chance(1, 5) {
			h.Enc = "jrpc"
		}
		h.Specs = g.specs(ty, "small", n)
		for i := range h.Specs {
			h.Specs[i].Del = false
		}
		h.N0 = r.Range(4, 22)
		h.R0 = int64(r.Range(1, h.N0-2))
		return h
	}
	tys := []int{0, 0, 1, 3, 2, 4}
	// fixed small ones first
	f1 := mk("reg-fixed", "rand", 0, false)
	f1.N0, f1.R0, f1.Steps, f1.Early, f1.Sched = 8, 2, 12, true, 1
	hs = append(hs, f1)
	for i := 0; i < 36*mult; i++ {
		h := mk("reg-guarded", "rand", hlib.Pick(r, tys), true)
		h.FailP = hlib.Pick(r, []int{0, 0, 20, 50})
		h.MaxFail = 4
		h.LogHook = r.Chance(1, 2)
		h.EndErr = r.Chance(1, 8)
		h.Close2 = r.Chance(1, 6)
		hs = append(hs, h)
	}
	for i := 0; i < 44*mult; i++ {
		h := mk("reg-overlap", "rand", hlib.Pick(r, tys), false)
		h.FailP = hlib.Pick(r, []int{0, 0, 15, 40})
		h.MaxFail = 4
		h.LogHook = r.Chance(1, 3)
		h.Early = r.Chance(2, 3)
		h.Close2 = r.Chance(1, 8)
		hs = append(hs, h)
	}
	for i := 0; i < 12*mult; i++ {
		h := mk("reg-deactwin", "deactwin", hlib.Pick(r, []int{0, 1, 3}), false)
		h.LogHook = true
		h.Steps = r.Range(4, 16)
		hs = append(hs, h)
	}
	for i := 0; i < 12*mult; i++ {
		h := mk("reg-addtask", "addtask", hlib.Pick(r, []int{0, 1, 3}), false)
		h.Steps = r.Range(4, 16)
		hs = append(hs, h)
	}
	return hs
}

type regRes struct {
	term    string
	impl    interface{}
	nontriv bool
}

func runRegs(o *hlib.Out, hs []Reg, par int) {
	res := make([]regRes, len(hs))
	sem := make(chan struct{}, par)
	var wg sync.WaitGroup
	for i := range hs {
		wg.Add(1)
		sem <- struct{}{}
		go func(i int) {
			defer wg.Done()
			defer func() { <-sem }()
			defer func() {
				if e := recover(); e != nil { // a driver crash is an observation, not a harness failure
					res[i] = regRes{fmt.Sprintf("(CReg %d (0) [] [[99;900]])", hs[i].Ty), map[string]interface{}{"panic": fmt.Sprint(e)}, false}
				}
			}()
			t, im, nt, _ := runReg(hs[i])
			res[i] = regRes{t, im, nt}
		}(i)
	}
	wg.Wait()
	for i := range hs {
		o.Emit(hs[i].Stream, res[i].nontriv, res[i].term, hs[i], res[i].impl)
	}
}
