// Free-running race stream ("race" cases): nothing is parked.  Several subscriber
// names on one Push; each name is registered and then registered again twice
// right away (variant "fresh": the first task may still be in its start-up), or is
// first deactivated by a dead endpoint and then re-registered twice in a row
// (variant "deact").  Whether a second goroutine starts depends on the scheduler;
// one case per name records what that name's endpoint received.
package main

import (
	"errors"
	"fmt"
	"strings"
	"sync"
	"sync/atomic"
	"time"

	"github.com/33cn/chain33/blockchain"
	"github.com/33cn/chain33/common"
	dbm "github.com/33cn/chain33/common/db"
	"github.com/33cn/chain33/types"
	"verifharness/hlib"
)

// Race is the replay format: one world, one case per name.
type Race struct {
	Kind    string `json:"kind"`
	Stream  string `json:"stream"`
	Variant string `json:"variant"` // fresh | deact
	Names   int    `json:"names"`
	Salt    uint64 `json:"salt"`
	Specs   []Spec `json:"specs"`
	R0      int64  `json:"r0"`
	N0      int    `json:"n0"` // entries visible at registration (deact: more appear while the endpoint is down)
}

type rpost struct {
	g    int
	upd  int64
	seqs []int64
}

type rname struct {
	lastKey, pushKey string
	gids             map[int64]int
	start            map[int]int64 // value each goroutine read at start-up
	posts            []rpost
	fails            int
}

type raceWorld struct {
	ents    []*ent
	visible int64
	mu      sync.Mutex
	kv      map[string][]byte
	names   map[string]*rname
	byLast  map[string]*rname
	down    int32
	inner   *world // payload decoding
}

func (w *raceWorld) LoadBlockLastSequence() (int64, error) { return atomic.LoadInt64(&w.visible) - 1, nil }
func (w *raceWorld) get(i int64) *ent {
	if i < 0 || i >= atomic.LoadInt64(&w.visible) {
		return nil
	}
	return w.ents[i]
}
func (w *raceWorld) GetBlockSequence(seq int64) (*types.BlockSequence, error) {
	e := w.get(seq)
	if e == nil {
		return nil, types.ErrHeightNotExist
	}
	return e.seq, nil
}
func (w *raceWorld) GetBlockHeaderByHash(hash []byte) (*types.Header, error) {
	for i := int64(0); i < atomic.LoadInt64(&w.visible); i++ {
		if string(w.ents[i].seq.Hash) == string(hash) {
			return w.ents[i].header, nil
		}
	}
	return nil, types.ErrHashNotExist
}
func (w *raceWorld) LoadBlockBySequence(seq int64) (*types.BlockDetail, int, error) {
	e := w.get(seq)
	if e == nil {
		return nil, 0, types.ErrHeightNotExist
	}
	return e.detail, e.size, nil
}
func (w *raceWorld) LastHeader() *types.Header {
	e := w.get(atomic.LoadInt64(&w.visible) - 1)
	if e == nil {
		return nil
	}
	return e.header
}
func (w *raceWorld) GetSequenceByHash(hash []byte) (int64, error) {
	for i := int64(0); i < atomic.LoadInt64(&w.visible); i++ {
		if string(w.ents[i].seq.Hash) == string(hash) {
			return i, nil
		}
	}
	return -1, types.ErrHashNotExist
}
func (w *raceWorld) SetSync(key, value []byte) error {
	w.mu.Lock()
	defer w.mu.Unlock()
	w.kv[string(key)] = append([]byte{}, value...)
	return nil
}
func (w *raceWorld) Set(key, value []byte) error { return w.SetSync(key, value) }
func (w *raceWorld) GetKey(key []byte) ([]byte, error) {
	w.mu.Lock()
	defer w.mu.Unlock()
	v, ok := w.kv[string(key)]
	if n := w.byLast[string(key)]; n != nil && calledFrom(".runTask.func1") {
		id := goid()
		if _, seen := n.gids[id]; !seen {
			g := len(n.gids)
			n.gids[id] = g
			val := int64(-1)
			var x types.Int64
			if ok && types.Decode(v, &x) == nil {
				val = x.Data
			}
			n.start[g] = val
		}
	}
	if !ok {
		return nil, dbm.ErrNotFoundInDb
	}
	return v, nil
}
func (w *raceWorld) PrefixCount(prefix []byte) int64 {
	w.mu.Lock()
	defer w.mu.Unlock()
	n := int64(0)
	for k := range w.kv {
		if strings.HasPrefix(k, string(prefix)) {
			n++
		}
	}
	return n
}
func (w *raceWorld) List(prefix []byte) ([][]byte, error) { return nil, types.ErrNotFound }

func (w *raceWorld) PostData(sub *types.PushSubscribeReq, data []byte, seq int64) error {
	if atomic.LoadInt32(&w.down) != 0 {
		w.mu.Lock()
		w.names[sub.Name].fails++
		w.mu.Unlock()
		return errors.New("endpoint down")
	}
	seqs, _ := w.inner.decodePayload(sub, data)
	id := goid()
	w.mu.Lock()
	defer w.mu.Unlock()
	n := w.names[sub.Name]
	g, ok := n.gids[id]
	if !ok {
		g = len(n.gids)
		n.gids[id] = g
	}
	n.posts = append(n.posts, rpost{g: g, upd: seq, seqs: seqs})
	return nil
}

func (w *raceWorld) lastSeq(n *rname) int64 {
	w.mu.Lock()
	defer w.mu.Unlock()
	v, ok := w.kv[n.lastKey]
	if !ok {
		return -1
	}
	var x types.Int64
	if types.Decode(v, &x) != nil {
		return -99
	}
	return x.Data
}

// quiet: every goroutine that was seen for the name has delivered up to L.
func (w *raceWorld) quiet(n *rname, L int64) bool {
	w.mu.Lock()
	defer w.mu.Unlock()
	if len(n.gids) == 0 {
		return false
	}
	last := map[int]int64{}
	for g, v := range n.start {
		last[g] = v
	}
	for _, p := range n.posts {
		last[p.g] = p.upd
	}
	for _, g := range n.gids {
		if last[g] < L {
			return false
		}
	}
	return true
}

// addSubTimed: addSubscriber can block for ever (send on a full queue with push.mu held).
func addSubTimed(push *blockchain.Push, req *types.PushSubscribeReq) int64 {
	res := make(chan error, 1)
	go func() { res <- push.AddSubscriberVerif(req) }()
	select {
	case err := <-res:
		return errCode(err)
	case <-time.After(30 * time.Second):
		return 8
	}
}

func runRace(o *hlib.Out, h Race) {
	ents := buildEnts(0, h.Salt, h.Specs)
	w := &raceWorld{ents: ents, visible: int64(h.N0), kv: map[string][]byte{}, names: map[string]*rname{}, byLast: map[string]*rname{}}
	w.inner = &world{ty: 0, ents: ents, visible: len(ents)}
	var order []string
	for i := 0; i < h.Names; i++ {
		nm := fmt.Sprintf("r%d", i)
		pk, lk := blockchain.PushKeysVerif(nm)
		n := &rname{lastKey: string(lk), pushKey: string(pk), gids: map[int64]int{}, start: map[int]int64{}}
		w.names[nm] = n
		w.byLast[string(lk)] = n
		order = append(order, nm)
	}
	push := blockchain.NewPushVerif(w, w, w, cfg, 1)
	req := func(nm string, withResume bool) *types.PushSubscribeReq {
		s := &types.PushSubscribeReq{Name: nm, URL: "http://mock.invalid/cb", Encode: "proto", Type: 0}
		if withResume {
			e := ents[h.R0]
			s.LastSequence, s.LastHeight, s.LastBlockHash = h.R0, 1, common.ToHex(e.seq.Hash)
			if e.detail.Block.Height > 0 {
				s.LastHeight = e.detail.Block.Height
			}
		}
		return s
	}
	codes := map[string][]int64{}
	switch h.Variant {
	case "fresh":
		for _, nm := range order {
			codes[nm] = append(codes[nm], addSubTimed(push, (req(nm, true))))
			codes[nm] = append(codes[nm], addSubTimed(push, (req(nm, false))))
			codes[nm] = append(codes[nm], addSubTimed(push, (req(nm, false))))
		}
	case "deact":
		atomic.StoreInt32(&w.down, 1)
		for _, nm := range order {
			codes[nm] = append(codes[nm], addSubTimed(push, (req(nm, true))))
		}
		// three failed posts per name (one second apart), then the task is gone
		deadline := time.Now().Add(60 * time.Second)
		for time.Now().Before(deadline) {
			gone := true
			for _, nm := range order {
				if e, _, _, _ := push.TaskInfoVerif(nm); e {
					gone = false
				}
			}
			if gone {
				break
			}
			push.UpdateSeq(atomic.LoadInt64(&w.visible) - 1)
			time.Sleep(20 * time.Millisecond)
		}
		time.Sleep(50 * time.Millisecond)
		w.mu.Lock()
		for _, n := range w.names {
			n.gids = map[int64]int{} // goroutines of the first life are not counted
			n.start = map[int]int64{}
		}
		w.mu.Unlock()
		atomic.StoreInt64(&w.visible, int64(len(ents)))
		atomic.StoreInt32(&w.down, 0)
		for _, nm := range order {
			codes[nm] = append(codes[nm], addSubTimed(push, (req(nm, false))))
			codes[nm] = append(codes[nm], addSubTimed(push, (req(nm, false))))
		}
	}
	L := atomic.LoadInt64(&w.visible) - 1
	deadline := time.Now().Add(60 * time.Second)
	for time.Now().Before(deadline) {
		all := true
		for _, nm := range order {
			if !w.quiet(w.names[nm], L) {
				all = false
			}
		}
		if all {
			break
		}
		push.UpdateSeq(L) // a goroutine whose notification was taken by another one waits for the next
		time.Sleep(5 * time.Millisecond)
	}
	time.Sleep(30 * time.Millisecond)
	for i, nm := range order {
		n := w.names[nm]
		complete := w.quiet(n, L)
		rcd := w.lastSeq(n)
		w.mu.Lock()
		var sb strings.Builder
		sb.WriteString("[")
		for k, p := range n.posts {
			if k > 0 {
				sb.WriteString(";")
			}
			fmt.Fprintf(&sb, "[%d;%d", p.g, p.upd)
			for _, s := range p.seqs {
				fmt.Fprintf(&sb, ";%d", s)
			}
			sb.WriteString("]")
		}
		sb.WriteString("]")
		spawns := len(n.gids)
		posts := append([]rpost{}, n.posts...)
		w.mu.Unlock()
		cs := []string{}
		for _, c := range codes[nm] {
			cs = append(cs, fmt.Sprint(c))
		}
		term := fmt.Sprintf("(CRace 0 (%d) %s (%d) (%d) (%d) (%d) %d [%s] %s)", blockchain.PushMaxSizeVerif, storeTerm(ents), h.R0, L, rcd,
			spawns, b2i(complete), strings.Join(cs, ";"), sb.String())
		in := h
		in.Kind = "race"
		o.Emit(h.Stream, spawns >= 2, term, map[string]interface{}{"kind": "race", "world": in, "name_index": i},
			map[string]interface{}{"spawns": spawns, "posts": len(posts), "rcd": rcd, "complete": complete})
	}
	// the tasks are left running: Close would wait for every goroutine
	done := make(chan struct{})
	go func() { push.Close(); close(done) }()
	select {
	case <-done:
	case <-time.After(2 * time.Second):
	}
}

func (g *gen) races(mult int) []Race {
	r := g.r
	var hs []Race
	mk := func(variant string, names int) Race {
		n := r.Range(20, 34)
		h := Race{Kind: "race", Stream: "race-" + variant, Variant: variant, Names: names, Salt: r.U64() >> 8}
		h.Specs = g.specs(0, "small", n)
		for i := range h.Specs {
			h.Specs[i].Del = false
		}
		h.R0 = int64(r.Range(1, 5))
		h.N0 = int(h.R0) + r.Range(3, 12)
		if variant == "fresh" {
			h.N0 = n
		}
		return h
	}
	for i := 0; i < 3*mult; i++ {
		hs = append(hs, mk("fresh", 20))
	}
	for i := 0; i < 2*mult; i++ {
		hs = append(hs, mk("deact", 20))
	}
	return hs
}
