// Multi-goroutine histories ("reg" cases): registration and task start-up /
// shutdown steps of ONE subscriber name interleaved with task steps.
//
// Every task goroutine that runTask spawns is identified (goroutine id -> index in
// spawn order) and parked at
//   - its first store read (getLastPushSeq)                       evStart
//   - every LoadBlockLastSequence (start of a round)               evRound
//   - every PostData                                               evPost
//   - the "exceed 3 times" log call (status notRunning written,
//     push.tasks entry not yet deleted)                            evDeactLog
//   - the record store of its deactivation                         evDeact
// and a first registration can be parked at its record store (evPersist).
// Only one goroutine is released at a time, so the trace is the real order of
// the steps.
package main

import (
	"bytes"
	"fmt"
	"runtime"
	"strconv"
	"strings"
	"sync"
	"time"

	"github.com/33cn/chain33/blockchain"
	"github.com/33cn/chain33/common"
	"github.com/33cn/chain33/common/log/log15"
	"github.com/33cn/chain33/types"
	"verifharness/hlib"
)

const (
	evStart    = 3
	evDeactLog = 4
	evDeact    = 5
	evPersist  = 6
	evExit     = 7
)

const replyErr = int64(-999999)

func goid() int64 {
	var buf [64]byte
	n := runtime.Stack(buf[:], false)
	f := bytes.Fields(buf[:n])
	if len(f) < 2 {
		return -1
	}
	id, _ := strconv.ParseInt(string(f[1]), 10, 64)
	return id
}

var worldOf sync.Map // goroutine id -> *world (task goroutines of multi worlds)

// gidx: index of the calling task goroutine, assigned at its first hook call.
func (w *world) gidx() int {
	id := goid()
	w.gmu.Lock()
	defer w.gmu.Unlock()
	if w.gids == nil {
		w.gids = map[int64]int{}
	}
	g, ok := w.gids[id]
	if !ok {
		g = len(w.gids)
		w.gids[id] = g
		worldOf.Store(id, w)
	}
	return g
}

// park hands ev to the driver and waits for its release.
func (w *world) park(ev *event) {
	select {
	case w.events <- ev:
	case <-w.abortCh:
		return
	}
	select {
	case <-ev.goCh:
	case <-w.abortCh:
	}
}

func (w *world) parkRecordStore() {
	if calledFrom(".runTask.func1") {
		w.park(&event{kind: evDeact, g: w.gidx(), goCh: make(chan struct{}, 1)})
		return
	}
	if calledFrom(".persisAndStart") {
		w.gmu.Lock()
		p := w.parkPersist > 0
		if p {
			w.parkPersist--
		}
		w.gmu.Unlock()
		if p {
			w.park(&event{kind: evPersist, g: -1, goCh: make(chan struct{}, 1)})
		}
	}
}

// installLogHook routes error records to the world of the calling goroutine.
func installLogHook() {
	log15.Root().SetHandler(log15.FuncHandler(int(log15.LvlInfo), func(r *log15.Record) error {
		third := r.Msg == "postdata failed exceed 3 times"
		closed := r.Msg == "getPushData" && len(r.Ctx) >= 2 && fmt.Sprint(r.Ctx[len(r.Ctx)-2]) == "push task closed for subscribe"
		if !third && !closed {
			return nil
		}
		v, ok := worldOf.Load(goid())
		if !ok {
			return nil
		}
		w := v.(*world)
		if !w.multi {
			return nil
		}
		if third && w.logHook {
			w.park(&event{kind: evDeactLog, g: w.gidx(), goCh: make(chan struct{}, 1)})
		}
		if closed {
			// the goroutine took closechan and called Done: a notice, it does not wait
			select {
			case w.events <- &event{kind: evExit, g: w.gidx()}:
			case <-w.abortCh:
			}
		}
		return nil
	}))
}

// ---------------------------------------------------------------- replay format

// Reg is one multi-goroutine history: a template plus the seed of the scheduler.
type Reg struct {
	Kind    string `json:"kind"`
	Stream  string `json:"stream"`
	Tmpl    string `json:"tmpl"` // rand | deactwin | addtask
	Guarded bool   `json:"guarded"`
	Ty      int    `json:"ty"`
	Enc     string `json:"enc"`
	Salt    uint64 `json:"salt"`
	Specs   []Spec `json:"specs"`
	N0      int    `json:"n0"`
	R0      int64  `json:"r0"`
	Steps   int    `json:"steps"`
	Sched   uint64 `json:"sched"`
	FailP   int    `json:"failp"`
	MaxFail int    `json:"maxfail"`
	LogHook bool   `json:"loghook"`
	EndErr  bool   `json:"enderr"`
	Close2  bool   `json:"close2"`
	Early   bool   `json:"early"` // a re-registration right after the first registration may come before the first start-up
}

type gstate struct {
	ev      *event // where it is parked (nil: not parked)
	nid     int    // driver's idea of its pushNotify
	fcUB    int    // upper bound of its consecutive-failure counter
	lp      int64  // mirror of lastProcessedseq (orphans, block kinds)
	roundL  int64
	dead    bool
	idle    bool // orphan that went back to an empty select
	started bool
}

type mdriver struct {
	w        *world
	h        Reg
	r        *hlib.Rng
	gs       []*gstate
	entryNid int // -1: no entry
	nextNid  int
	oq       map[int]int // queue mirror of orphaned notifies
	persist  *event
	aborted  bool
	fails    int
	deadline time.Time // of the whole case
	dupPosts int
	overlap  bool
	nregs    int
	leaked   bool
	regDone  chan error
}

func (d *mdriver) abort(why int64) {
	if d.aborted {
		return
	}
	d.w.logf(99, why)
	d.aborted = true
	close(d.w.abortCh)
}

// wait: how long the driver waits for one step (the whole case has a deadline).
func (d *mdriver) wait() time.Duration {
	rem := time.Until(d.deadline)
	if rem > 30*time.Second {
		rem = 30 * time.Second
	}
	if rem < 20*time.Millisecond {
		rem = 20 * time.Millisecond
	}
	return rem
}

// call runs an addSubscriber; it can block for ever (updateLastSeq sends on a full queue while push.mu is held).
func (d *mdriver) call(req *types.PushSubscribeReq) (int64, bool) {
	res := make(chan error, 1)
	go func() { res <- d.w.push.AddSubscriberVerif(req) }()
	select {
	case err := <-res:
		return errCode(err), true
	case <-time.After(d.wait()):
		d.abort(216)
		return -1, false
	}
}

func (d *mdriver) orphan(g int) bool { return d.gs[g].nid != d.entryNid }

// collect receives n parks and files them.
func (d *mdriver) collect(n int, why int64) bool {
	for k := 0; k < n; k++ {
		select {
		case ev := <-d.w.events:
			if ev.kind == evPersist {
				d.persist = ev
				continue
			}
			for ev.g >= len(d.gs) {
				d.gs = append(d.gs, &gstate{nid: -2})
			}
			d.gs[ev.g].ev = ev
			switch ev.kind {
			case evPost:
				ent := []int64{2, int64(ev.g), ev.upd, b2i(ev.cok)}
				ent = append(ent, ev.seqs...)
				d.w.logf(ent...)
			case evDeactLog:
				d.w.logf(24, int64(ev.g))
			case evDeact:
				d.w.logf(32, int64(ev.g)) // it has deleted the task entry and is held at its record store
			}
		case <-time.After(d.wait()):
			d.abort(why)
			return false
		}
	}
	return true
}

func (d *mdriver) info() (exists bool, status int32, queued int) {
	e, s, _, q := d.w.push.TaskInfoVerif(subName)
	return e, s, q
}

func (d *mdriver) startedCount() int {
	d.w.mu.Lock()
	defer d.w.mu.Unlock()
	return d.w.started
}

func (d *mdriver) lastSeq() int64 {
	d.w.mu.Lock()
	defer d.w.mu.Unlock()
	v, ok := d.w.kv[d.w.lastKey]
	if !ok {
		return -1
	}
	var n types.Int64
	if types.Decode(v, &n) != nil {
		return -99
	}
	return n.Data
}

func (d *mdriver) dbStatus() int64 {
	d.w.mu.Lock()
	defer d.w.mu.Unlock()
	v, ok := d.w.kv[d.w.pushKey]
	if !ok {
		return 0
	}
	var p types.PushWithStatus
	if types.Decode(v, &p) != nil {
		return -99
	}
	return int64(p.Status)
}

// newGoroutine files the goroutine a spawn produced (its start park).
func (d *mdriver) newGoroutine(nid int, why int64) {
	before := len(d.gs)
	if !d.collect(1, why) {
		return
	}
	if len(d.gs) != before+1 || d.gs[before].ev == nil || d.gs[before].ev.kind != evStart {
		d.abort(why + 1000)
		return
	}
	d.gs[before].nid = nid
}

func (d *mdriver) inWindow() bool {
	for _, g := range d.gs {
		if g.ev != nil && !g.dead && (g.ev.kind == evStart || g.ev.kind == evDeactLog) {
			return true
		}
	}
	return false
}

func (d *mdriver) atDeactLog() bool {
	for _, s := range d.gs {
		if s.ev != nil && !s.dead && s.ev.kind == evDeactLog {
			return true
		}
	}
	return false
}

func (d *mdriver) liveOn(nid int) int {
	n := 0
	for _, g := range d.gs {
		if !g.dead && g.nid == nid {
			n++
		}
	}
	return n
}

// register performs a re-registration (check2ResumePush + setActive).
func (d *mdriver) register() {
	if d.aborted {
		return
	}
	exists, _, q := d.info()
	if exists && q >= 8 {
		return // updateLastSeq would block on the full queue with push.mu held
	}
	if d.inWindow() {
		d.overlap = true
	}
	before := d.startedCount()
	d.w.logf(7, 1)
	code, ok := d.call(subscribeReq(d.h.Ty, d.h.Enc))
	if !ok {
		return
	}
	d.w.logf(9, code)
	d.nregs++
	if d.startedCount() > before {
		nid := d.entryNid
		if !exists {
			nid = d.nextNid
			d.nextNid++
			d.entryNid = nid
		}
		d.newGoroutine(nid, 201)
	}
}

func (d *mdriver) ensureQ() {
	if _, _, q := d.info(); q == 0 {
		d.w.push.UpdateSeq(d.w.latest())
	}
}

// willRepark: after releasing g from its current park, will it park again?
func (d *mdriver) willRepark(g int, ok bool, L int64) bool {
	s := d.gs[g]
	if !d.orphan(g) {
		return true
	}
	q := d.oq[s.nid]
	switch s.ev.kind {
	case evStart:
		return q > 0
	case evRound:
		if s.lp > 0 && s.lp < L {
			return true
		}
		return q > 0
	case evPost:
		return s.ev.upd < s.roundL || q > 0
	}
	return true
}

func (d *mdriver) blockKind() bool { return d.h.Ty == 0 || d.h.Ty == 1 || d.h.Ty == 3 }

// schedule releases goroutine g from its park and waits for its next park.
func (d *mdriver) schedule(g int, ok bool, asErr bool) {
	if d.aborted {
		return
	}
	if g < 0 || g >= len(d.gs) {
		d.abort(217) // the script expects a goroutine that was never spawned
		return
	}
	s := d.gs[g]
	ev := s.ev
	if ev == nil || s.dead || s.idle {
		return
	}
	w := d.w
	orphan := d.orphan(g)
	if !orphan {
		d.ensureQ()
	}
	L := w.latest()
	repark := d.willRepark(g, ok, L)
	s.ev = nil
	switch ev.kind {
	case evStart:
		// the value read is logged by the store hook at the moment of the read
		ev.goCh <- struct{}{}
		s.started = true
		if !d.waitStartRead(g) {
			return
		}
		s.lp = d.lastStartRead(g)
	case evRound:
		if asErr {
			w.logf(29, int64(g))
			ev.replyL <- replyErr
			s.dead = true
			d.leaked = true
			// the goroutine returns; nothing more to observe
			return
		}
		w.logf(1, int64(g), L)
		s.roundL = L
		if orphan && s.lp <= 0 && s.lp < L {
			s.lp = L
		}
		ev.replyL <- L
	case evPost:
		w.logf(3, int64(g), b2i(ok))
		if ok {
			s.fcUB = 0
			s.lp = ev.upd
			if orphan && ev.upd < s.roundL && d.oq[s.nid] == 0 {
				d.oq[s.nid] = 1
			}
		} else {
			s.fcUB++
			d.fails++
		}
		w.mu.Lock()
		rb := w.recs
		w.mu.Unlock()
		ev.replyB <- ok
		if ok && !d.waitRec(rb) {
			return
		}
	case evDeactLog:
		w.logf(26, int64(g))
		ev.goCh <- struct{}{}
	case evDeact:
		w.mu.Lock()
		before := w.deacts
		w.mu.Unlock()
		w.logf(23, int64(g))
		ev.goCh <- struct{}{}
		deadline := time.Now().Add(d.wait())
		for {
			w.mu.Lock()
			dn := w.deacts
			w.mu.Unlock()
			if dn > before {
				break
			}
			if time.Now().After(deadline) {
				d.abort(202)
				return
			}
			time.Sleep(200 * time.Microsecond)
		}
		s.dead = true
		return
	}
	if !repark {
		s.idle = true
		return
	}
	if !d.collect(1, 203) {
		return
	}
	if s.ev == nil {
		d.abort(204)
		return
	}
	if orphan && s.ev.kind == evRound {
		d.oq[s.nid]--
	}
	if s.ev.kind == evDeact {
		// the entry is gone: the others on this pushNotify are orphans now
		if d.entryNid == s.nid {
			d.entryNid = -1
		}
	}
}

// waitRec waits until a last push sequence was stored after the rb-th one.
func (d *mdriver) waitRec(rb int) bool {
	for t0 := time.Now(); time.Since(t0) < d.wait(); time.Sleep(100 * time.Microsecond) {
		d.w.mu.Lock()
		rn := d.w.recs
		d.w.mu.Unlock()
		if rn > rb {
			return true
		}
	}
	d.abort(213)
	return false
}

// waitStartRead waits until goroutine g logged its start-up read.
func (d *mdriver) waitStartRead(g int) bool {
	deadline := time.Now().Add(d.wait())
	for {
		d.w.mu.Lock()
		found := false
		for i := len(d.w.trace) - 1; i >= 0 && !found; i-- {
			e := d.w.trace[i]
			found = len(e) == 3 && e[0] == 20 && e[1] == int64(g)
		}
		d.w.mu.Unlock()
		if found {
			return true
		}
		if time.Now().After(deadline) {
			d.abort(212)
			return false
		}
		time.Sleep(100 * time.Microsecond)
	}
}

// lastStartRead: the value goroutine g read at start-up (from the trace).
func (d *mdriver) lastStartRead(g int) int64 {
	d.w.mu.Lock()
	defer d.w.mu.Unlock()
	for i := len(d.w.trace) - 1; i >= 0; i-- {
		e := d.w.trace[i]
		if len(e) == 3 && e[0] == 20 && e[1] == int64(g) {
			return e[2]
		}
	}
	return -1
}

func (d *mdriver) probe() {
	if d.aborted {
		return
	}
	exists, status, _ := d.info()
	st := int64(-1)
	if exists {
		st = int64(status)
	}
	d.w.logf(14, b2i(exists), st, d.lastSeq(), d.dbStatus())
}

func (d *mdriver) parkedLive() []int {
	var l []int
	for g, s := range d.gs {
		if s.ev != nil && !s.dead && !s.idle {
			l = append(l, g)
		}
	}
	return l
}

// noteQueueBeforeShutdown remembers the queue length of the entry's pushNotify
// (it is the orphans' queue once the entry is deleted).
func (d *mdriver) noteQueue() {
	if d.entryNid >= 0 {
		if e, _, q := d.info(); e {
			d.oq[d.entryNid] = q
		}
	}
}

func (d *mdriver) closeOp(second bool) {
	if d.aborted {
		return
	}
	w := d.w
	// answer every post in flight first
	for _, g := range d.parkedLive() {
		if d.gs[g].ev.kind == evPost {
			d.schedule(g, true, false)
		}
	}
	for _, g := range d.parkedLive() {
		k := d.gs[g].ev.kind
		if k == evDeactLog {
			d.schedule(g, true, false)
		}
	}
	for _, g := range d.parkedLive() {
		if d.gs[g].ev.kind == evDeact {
			d.schedule(g, true, false)
		}
	}
	if d.aborted {
		return
	}
	expectHang := d.leaked
	for g, s := range d.gs {
		if !s.dead && d.orphan(g) {
			expectHang = true
		}
	}
	done := make(chan struct{})
	w.logf(31)
	go func() { w.push.Close(); close(done) }()
	// goroutines on the entry's pushNotify: one after the other runs until it takes closechan
	for _, g := range d.parkedLive() {
		if d.orphan(g) || d.aborted {
			continue
		}
		s := d.gs[g]
		ev := s.ev
		s.ev = nil
	one:
		for {
			switch ev.kind {
			case evStart:
				ev.goCh <- struct{}{}
				if !d.waitStartRead(g) {
					return
				}
			case evRound:
				w.logf(1, int64(g), w.latest())
				ev.replyL <- w.latest()
			case evPost:
				ent := []int64{2, int64(ev.g), ev.upd, b2i(ev.cok)}
				ent = append(ent, ev.seqs...)
				w.logf(ent...)
				w.logf(3, int64(ev.g), 1)
				w.mu.Lock()
				rb := w.recs
				w.mu.Unlock()
				ev.replyB <- true
				if !d.waitRec(rb) {
					return
				}
			case evExit:
				w.logf(30, int64(g))
				s.dead = true
				break one
			default:
				d.abort(205)
				return
			}
			select {
			case ev = <-w.events:
				if ev.g != g {
					d.abort(214)
					return
				}
			case <-time.After(d.wait()):
				d.abort(215)
				return
			}
		}
	}
	wait := d.wait()
	if expectHang {
		wait = 1500 * time.Millisecond
	}
	ret := int64(0)
	select {
	case <-done:
		ret = 1
	case <-time.After(wait):
	}
	w.logf(11, ret)
	if second && ret == 1 {
		p := int64(0)
		func() {
			defer func() {
				if e := recover(); e != nil {
					p = 1
				}
			}()
			w.push.Close()
		}()
		w.logf(28, p)
	}
}

func (d *mdriver) firstSub(parkPersist bool) {
	w := d.w
	req := subscribeReq(d.h.Ty, d.h.Enc)
	req.LastSequence = d.h.R0
	req.LastHeight = 1
	e := w.get(d.h.R0)
	if e == nil {
		d.abort(206)
		return
	}
	if e.detail.Block.Height > 0 {
		req.LastHeight = e.detail.Block.Height
	}
	req.LastBlockHash = common.ToHex(e.seq.Hash)
	d.entryNid = d.nextNid
	d.nextNid++
	if !parkPersist {
		w.logf(6, d.h.R0, 1, w.latest(), 0)
		code, ok := d.call(req)
		if !ok {
			return
		}
		w.logf(9, code)
		d.newGoroutine(d.entryNid, 207)
		return
	}
	w.gmu.Lock()
	w.parkPersist = 1
	w.gmu.Unlock()
	w.logf(6, d.h.R0, 1, w.latest(), 1)
	d.regDone = make(chan error, 1)
	go func() { d.regDone <- w.push.AddSubscriberVerif(req) }()
	// its goroutine parks at start, the call parks at its record store
	before := len(d.gs)
	if !d.collect(2, 208) {
		return
	}
	if d.persist == nil || len(d.gs) != before+1 {
		d.abort(209)
		return
	}
	d.gs[before].nid = d.entryNid
	// the second first registration, complete
	req2 := subscribeReq(d.h.Ty, d.h.Enc)
	req2.LastSequence, req2.LastHeight, req2.LastBlockHash = req.LastSequence, req.LastHeight, req.LastBlockHash
	w.logf(25, d.h.R0, 1)
	d.noteQueue()
	code, ok := d.call(req2)
	if !ok {
		return
	}
	w.logf(9, code)
	d.entryNid = d.nextNid
	d.nextNid++
	d.overlap = true
	d.newGoroutine(d.entryNid, 210)
	if d.aborted {
		return
	}
	w.logf(27)
	d.persist.goCh <- struct{}{}
	select {
	case err := <-d.regDone:
		w.logf(9, errCode(err))
	case <-time.After(d.wait()):
		d.abort(211)
	}
}

func (d *mdriver) grow(n int) {
	w := d.w
	w.mu.Lock()
	w.visible += n
	if w.visible > len(w.ents) {
		w.visible = len(w.ents)
	}
	w.mu.Unlock()
}

// pickAndSchedule: one random scheduling step.
func (d *mdriver) pickAndSchedule() bool {
	live := d.parkedLive()
	if len(live) == 0 {
		return false
	}
	g := live[d.r.Intn(len(live))]
	s := d.gs[g]
	ok := true
	if s.ev.kind == evPost && d.fails < d.h.MaxFail && d.r.Chance(d.h.FailP, 100) {
		ok = false
		// a third failure deletes the entry: only when nobody else lives on this pushNotify
		if s.fcUB >= 2 && (d.liveOn(s.nid) > 1 || d.orphan(g)) {
			ok = true
		}
		if d.orphan(g) {
			ok = true
		}
	}
	if s.ev.kind == evPost && !ok && s.fcUB >= 2 {
		d.noteQueue()
	}
	d.schedule(g, ok, false)
	return true
}

func runReg(h Reg) (term string, impl interface{}, nontriv bool, kind string) {
	w := newWorld(h.Ty, h.Enc, 1, h.Salt, h.Specs)
	w.multi = true
	w.logHook = h.LogHook
	w.push = blockchain.NewPushVerif(w, w, w, cfg, 1)
	d := &mdriver{w: w, h: h, r: hlib.NewRng(h.Sched), entryNid: -1, oq: map[int]int{}, deadline: time.Now().Add(75 * time.Second)}
	d.grow(h.N0)
	switch h.Tmpl {
	case "rand":
		d.firstSub(false)
		if h.Early && !h.Guarded && d.r.Chance(1, 2) {
			d.register()
		}
		for k := 0; k < h.Steps && !d.aborted; k++ {
			c := d.r.Intn(100)
			if !h.Guarded && d.inWindow() && !d.atDeactLog() && d.r.Chance(2, 5) {
				d.register() // a registration inside a start-up window
				continue
			}
			switch {
			case c < 12:
				d.grow(d.r.Range(1, 4))
			case c < 26:
				if d.atDeactLog() || (h.Guarded && d.inWindow()) {
					d.pickAndSchedule()
				} else {
					d.register()
					if !h.Guarded && d.r.Chance(1, 2) {
						d.register()
					}
				}
			case c < 30:
				d.probe()
			default:
				d.pickAndSchedule()
			}
		}
	case "deactwin":
		// G0 fails three times and is held between "status notRunning" and delete(tasks);
		// a registration arrives; G0 goes on; a second registration arrives while the
		// orphan still has a backlog
		d.firstSub(false)
		d.schedule(0, true, false) // start
		for k := 0; k < 3 && !d.aborted; k++ {
			if d.gs[0].ev == nil || d.gs[0].ev.kind != evRound {
				d.abort(220)
				break
			}
			d.schedule(0, true, false) // round -> post
			if d.gs[0].ev == nil || d.gs[0].ev.kind != evPost {
				d.abort(221)
				break
			}
			if k == 2 {
				d.noteQueue()
			}
			d.schedule(0, false, false)
		}
		if !d.aborted && (d.gs[0].ev == nil || d.gs[0].ev.kind != evDeactLog) {
			d.abort(222)
		}
		d.grow(d.r.Range(0, 3))
		d.register() // G1 on the old pushNotify
		d.noteQueue()
		d.probe()
		d.schedule(0, true, false) // delete(tasks)
		d.schedule(0, true, false) // record store: dead
		d.probe()
		if d.r.Chance(1, 2) {
			d.schedule(1, true, false)
		}
		d.register() // G2 on a new pushNotify
		for k := 0; k < h.Steps && !d.aborted; k++ {
			if d.r.Chance(1, 8) {
				d.grow(d.r.Range(1, 3))
			}
			if !d.pickAndSchedule() {
				break
			}
		}
	case "addtask":
		d.firstSub(true)
		for k := 0; k < h.Steps && !d.aborted; k++ {
			if d.r.Chance(1, 8) {
				d.grow(d.r.Range(1, 3))
			}
			if !d.pickAndSchedule() {
				break
			}
		}
	}
	d.probe()
	if h.EndErr && !d.aborted {
		for _, g := range d.parkedLive() {
			if d.gs[g].ev.kind == evRound && !d.orphan(g) {
				d.schedule(g, true, true)
				break
			}
		}
	}
	d.closeOp(h.Close2)
	if !d.aborted {
		close(w.abortCh)
	}
	w.mu.Lock()
	defer w.mu.Unlock()
	var sb strings.Builder
	sb.WriteString("[")
	posts := 0
	for i, e := range w.trace {
		if i > 0 {
			sb.WriteString(";")
		}
		sb.WriteString("[")
		for j, v := range e {
			if j > 0 {
				sb.WriteString(";")
			}
			fmt.Fprint(&sb, v)
		}
		sb.WriteString("]")
		if e[0] == 3 && e[2] == 1 {
			posts++
		}
	}
	sb.WriteString("]")
	term = fmt.Sprintf("(CReg %d (%d) %s %s)", h.Ty, blockchain.PushMaxSizeVerif, storeTerm(w.ents), sb.String())
	nontriv = len(d.gs) >= 2 && posts >= 2
	kind = h.Stream
	return term, map[string]interface{}{"trace": w.trace, "goroutines": len(d.gs), "posts_ok": posts, "overlap": d.overlap}, nontriv, kind
}
