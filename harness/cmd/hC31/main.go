// hC31: account blacklist (types/account_blacklist.go) and its enforcement points.
//
// Streams
//
//	parse    blacklist configurations (valid / panicking) with IsBlockedAccount /
//	         IsBlockedAccountRaw probes in many spellings           -> CParse
//	name     types.GetRealExecName                                   -> CName
//	scen-*   one submission (single / proxied single / group) under one blacklist,
//	         observed at every enforcement point of one test node    -> CScen
//	         exported predicates, EventExecTxList receipts (empty blacklist and
//	         this blacklist), AddTxsToBlock, EventTx reply (empty blacklist and this
//	         blacklist), EventAddDelayTx reply, delayed transaction embedded in a
//	         block handed to the pool (EventAddBlock) then probed.
//	para     exported predicates with the coins executor type bound to a
//	         para-chain configuration (real recipient differs from To) -> CScen
//	hist-*   histories in ONE process: one transaction body (one Hash()) signed by
//	         several accounts (clean signer then listed signer, the reverse, triples),
//	         each copy put through the enforcement points (exported predicates,
//	         EventExecTxList, AddTxsToBlock, EventTx, EventAddDelayTx, delayed
//	         transaction in a block) one after the other, with blacklist reloads
//	         only where the history says so                          -> CHist
package main

import (
	"encoding/hex"
	"encoding/json"
	"fmt"
	"math/big"
	"os"
	"strings"
	"time"

	"github.com/33cn/chain33/common"
	"github.com/33cn/chain33/common/address"
	"github.com/33cn/chain33/common/crypto"
	"github.com/33cn/chain33/common/log"
	"github.com/33cn/chain33/queue"
	erpctypes "github.com/33cn/chain33/rpc/ethrpc/types"
	_ "github.com/33cn/chain33/system"
	"github.com/33cn/chain33/system/consensus/solo"
	"github.com/33cn/chain33/system/crypto/secp256k1eth"
	drivers "github.com/33cn/chain33/system/dapp"
	cty "github.com/33cn/chain33/system/dapp/coins/types"
	nty "github.com/33cn/chain33/system/dapp/none/types"
	"github.com/33cn/chain33/types"
	"github.com/33cn/chain33/util/testnode"
	"github.com/decred/base58"
	ecommon "github.com/ethereum/go-ethereum/common"
	ethtypes "github.com/ethereum/go-ethereum/core/types"
	ethcrypto "github.com/ethereum/go-ethereum/crypto"
	"verifharness/hlib"
)

const forkH = 10 // ForkAccountBlacklist on the test node

var fillerTo = btcAddrOf(0, []byte("filler-recipient-000"))

func die(f string, a ...interface{}) {
	fmt.Fprintf(os.Stderr, "hC31: "+f+"\n", a...)
	os.Exit(2)
}

// ---------------------------------------------------------------- stub evm driver
// /repo has no evm executor (it is a plugin). The stub accepts every transaction so
// that evm-named transactions can pass the pool's remote check and execute.

type evmStub struct{ drivers.DriverBase }

func newEvmStub() drivers.Driver {
	d := &evmStub{}
	d.SetChild(d)
	return d
}
func (d *evmStub) GetDriverName() string                          { return "evm" }
func (d *evmStub) CheckTx(tx *types.Transaction, index int) error { return nil }
func (d *evmStub) Exec(tx *types.Transaction, i int) (*types.Receipt, error) {
	return &types.Receipt{Ty: types.ExecOk}, nil
}
func (d *evmStub) ExecLocal(tx *types.Transaction, r *types.ReceiptData, i int) (*types.LocalDBSet, error) {
	return &types.LocalDBSet{}, nil
}
func (d *evmStub) ExecDelLocal(tx *types.Transaction, r *types.ReceiptData, i int) (*types.LocalDBSet, error) {
	return &types.LocalDBSet{}, nil
}

// ---------------------------------------------------------------- actors

type actor struct {
	Name  string
	priv  crypto.PrivKey
	sigTy int32
	Addr  string // canonical spelling
	Raw   []byte
	eth   bool
	esk   string // hex secp256k1 key for eth-style signing (proxy sender)
}

func rawOf(addr string) []byte {
	if address.IsEthAddress(addr) {
		b, _ := common.FromHex(addr)
		return b
	}
	a, err := address.NewBtcAddress(addr)
	if err != nil {
		return nil
	}
	return a.Hash160[:]
}

func btcAddrOf(version byte, h160 []byte) string {
	b := append([]byte{version}, h160...)
	sum := common.Sha2Sum(b)
	return base58.Encode(append(b, sum[:4]...))
}

// spellings of an address that name the same account (hex) or the literal (base58)
func spellings(r *hlib.Rng, addr string) string {
	if !address.IsEthAddress(addr) {
		return addr
	}
	body := addr
	if strings.HasPrefix(body, "0x") || strings.HasPrefix(body, "0X") {
		body = body[2:]
	}
	switch r.Intn(6) {
	case 0:
		return "0x" + strings.ToLower(body)
	case 1:
		return "0x" + strings.ToUpper(body)
	case 2:
		return "0X" + strings.ToLower(body)
	case 3:
		return ecommon.HexToAddress(body).Hex() // EIP-55
	case 4:
		b := []byte(strings.ToLower(body))
		for i := range b {
			if r.Chance(1, 2) && b[i] >= 'a' && b[i] <= 'f' {
				b[i] -= 32
			}
		}
		return "0X" + string(b)
	default:
		return "0x" + strings.ToLower(body)
	}
}

// ---------------------------------------------------------------- node

type node struct {
	mock   *testnode.Chain33Mock
	cfg    *types.Chain33Config
	solo   *solo.Client
	tip    *types.Block
	actors []*actor // senders (funded)
	recips []*actor // pure recipients
	unfunded *actor // a key without coins (histories)
	all    []*actor
	proxy  string
	nonce  int64
}

func keyFrom(seed byte) crypto.PrivKey {
	c, err := crypto.Load(types.GetSignName("", types.SECP256K1), -1)
	if err != nil {
		die("crypto load: %v", err)
	}
	b := make([]byte, 32)
	for i := range b {
		b[i] = seed + byte(i*7) + 1
	}
	k, err := c.PrivKeyFromBytes(b)
	if err != nil {
		die("priv key: %v", err)
	}
	return k
}

func newNode() *node {
	cfg := types.NewChain33Config(strings.Replace(types.GetDefaultCfgstring(), "eth=-2", "eth=0", 1))
	mc := cfg.GetModuleConfig()
	mc.BlockChain.Driver = "memdb"
	mc.Store.Driver = "memdb"
	mc.Wallet.Driver = "memdb"
	mc.Mempool.PoolCacheSize = 400000
	cfg.SetFork(types.ForkAccountBlacklist, forkH)
	types.AllowUserExec = append(types.AllowUserExec, []byte("evm"))
	drivers.Register(cfg, "evm", newEvmStub, 0)
	m := testnode.NewWithConfig(cfg, nil)
	log.SetLogLevel("crit")
	n := &node{mock: m, cfg: cfg, proxy: mc.Exec.ProxyExecAddress, nonce: 1000}
	deadline := time.Now().Add(30 * time.Second)
	for m.GetBlockChain().GetBlockHeight() < 0 {
		if time.Now().After(deadline) {
			die("genesis block not created")
		}
		time.Sleep(2 * time.Millisecond)
	}
	// actors
	for i := 0; i < 3; i++ {
		k := keyFrom(byte(10 + i))
		a := &actor{Name: fmt.Sprintf("S%d", i), priv: k, sigTy: types.SECP256K1}
		a.Addr = address.PubKeyToAddr(0, k.PubKey().Bytes())
		a.Raw = rawOf(a.Addr)
		n.actors = append(n.actors, a)
	}
	for i := 0; i < 2; i++ {
		k := keyFrom(byte(40 + i))
		a := &actor{Name: fmt.Sprintf("E%d", i), priv: k, sigTy: types.EncodeSignID(types.SECP256K1, 2), eth: true}
		a.Addr = address.PubKeyToAddr(2, k.PubKey().Bytes())
		a.Raw = rawOf(a.Addr)
		n.actors = append(n.actors, a)
	}
	// proxy sender: eth-style key
	{
		esk := "7939624566468cfa3cb2c9f39d5ad83bdc7cf4356bfd1a7b8094abda6b0699d1"
		sk, _ := ethcrypto.ToECDSA(ecommon.FromHex(esk))
		addr := strings.ToLower(ethcrypto.PubkeyToAddress(sk.PublicKey).Hex())
		a := &actor{Name: "P0", Addr: addr, Raw: rawOf(addr), eth: true, esk: esk}
		n.actors = append(n.actors, a)
	}
	for i := 0; i < 2; i++ {
		h := make([]byte, 20)
		for j := range h {
			h[j] = byte(0x31*i + 7*j + 3)
		}
		a := &actor{Name: fmt.Sprintf("R%d", i), Addr: btcAddrOf(0, h), Raw: h}
		n.recips = append(n.recips, a)
	}
	for i := 0; i < 2; i++ {
		h := make([]byte, 20)
		for j := range h {
			h[j] = byte(0xab - 0x1d*i + 11*j)
		}
		a := &actor{Name: fmt.Sprintf("Q%d", i), Addr: "0x" + hex.EncodeToString(h), Raw: h, eth: true}
		n.recips = append(n.recips, a)
	}
	n.all = append(append([]*actor{}, n.actors...), n.recips...)
	{
		k := keyFrom(byte(90))
		a := &actor{Name: "U0", priv: k, sigTy: types.SECP256K1}
		a.Addr = address.PubKeyToAddr(0, k.PubKey().Bytes())
		a.Raw = rawOf(a.Addr)
		n.unfunded = a
	}
	// funding (miner still running)
	gen := m.GetGenesisKey()
	for _, a := range n.actors {
		tx := n.coinsTx(gen, types.SECP256K1, a.Addr, 100*types.DefaultCoinPrecision)
		if _, err := m.GetAPI().SendTx(tx); err != nil {
			die("funding %s: %v", a.Name, err)
		}
	}
	deadline = time.Now().Add(60 * time.Second)
	for {
		ok := true
		last := m.GetLastBlock()
		for _, a := range n.actors {
			if m.GetAccount(last.StateHash, a.Addr).GetBalance() == 0 {
				ok = false
			}
		}
		if ok {
			break
		}
		if time.Now().After(deadline) {
			die("funding not mined")
		}
		time.Sleep(20 * time.Millisecond)
	}
	// the test node's rpc module does not serve its queue topic; answer the pool's nonce
	// query the way rpc/server.go does when no evm executor type is registered
	rc := m.GetClient().GetQueue().Client()
	rc.Sub("rpc")
	go func() {
		for msg := range rc.Recv() {
			if msg.Ty == types.EventGetEvmNonce {
				msg.Reply(rc.NewMessage("", types.EventGetEvmNonce, &types.Reply{IsOk: false}))
			}
		}
	}()
	cl := m.GetClient()
	msg := cl.NewMessage("consensus", types.EventMinerStop, nil)
	_ = cl.Send(msg, true)
	_, _ = cl.Wait(msg)
	time.Sleep(300 * time.Millisecond)
	n.tip = m.GetLastBlock()
	if n.tip.Height >= forkH-2 {
		die("chain too high: %d", n.tip.Height)
	}
	// producer under the same configuration
	q := queue.New("channel")
	q.SetConfig(cfg)
	sc := solo.New(&types.Consensus{Name: "solo"}, nil).(*solo.Client)
	sc.InitClient(q.Client(), func() {})
	n.solo = sc
	return n
}

func (n *node) nextNonce() int64 { n.nonce++; return n.nonce }

func (n *node) coinsTx(priv crypto.PrivKey, sigTy int32, to string, amount int64) *types.Transaction {
	act := &cty.CoinsAction{Ty: cty.CoinsActionTransfer, Value: &cty.CoinsAction_Transfer{Transfer: &types.AssetsTransfer{Amount: amount, To: to}}}
	tx := &types.Transaction{Execer: []byte("coins"), Payload: types.Encode(act), To: to, Fee: 1e6, Nonce: n.nextNonce(), ChainID: n.cfg.GetChainID()}
	if priv != nil {
		tx.Sign(sigTy, priv)
	}
	return tx
}

// ---------------------------------------------------------------- scenario description (replayable)

type txD struct {
	Kind   string `json:"kind"`             // coins | none | evm | proxy
	From   int    `json:"from"`             // index into actors
	To     string `json:"to,omitempty"`     // coins: recipient spelling; evm: tx.To override ("" = exec address)
	Execer string `json:"execer,omitempty"` // evm: execer name
	CAddr  string `json:"caddr,omitempty"`  // evm: ContractAddr
	Para   string `json:"para,omitempty"`   // evm: Para (hex)
	BadPay bool   `json:"badpay,omitempty"` // evm: undecodable payload
	Inner  *txD   `json:"inner,omitempty"`  // proxy: inner transaction (unsigned); nil = garbage Para
	Nonce0 bool   `json:"nonce0,omitempty"`
}

type scenD struct {
	L    []string `json:"L"`
	H    int64    `json:"h"` // call height
	Txs  []txD    `json:"txs"`
	Para bool     `json:"para,omitempty"` // para-chain stream: predicates only
}

// ---------------------------------------------------------------- building transactions

func (n *node) build(d txD, variant int64) *types.Transaction {
	a := n.actors[d.From%len(n.actors)]
	nonce := int64(1)<<40 + variant<<32 + n.nextNonce()
	switch d.Kind {
	case "coins":
		if a.priv == nil {
			a = n.actors[0]
		}
		act := &cty.CoinsAction{Ty: cty.CoinsActionTransfer, Value: &cty.CoinsAction_Transfer{Transfer: &types.AssetsTransfer{Amount: 1000, To: d.To}}}
		tx := &types.Transaction{Execer: []byte("coins"), Payload: types.Encode(act), To: d.To, Fee: 1e6, Nonce: nonce, ChainID: n.cfg.GetChainID()}
		tx.Sign(a.sigTy, a.priv)
		return tx
	case "none":
		if a.priv == nil {
			a = n.actors[1]
		}
		tx := &types.Transaction{Execer: []byte("none"), Payload: []byte(fmt.Sprintf("n%d", nonce)), To: address.ExecAddress("none"), Fee: 1e6, Nonce: nonce, ChainID: n.cfg.GetChainID()}
		tx.Sign(a.sigTy, a.priv)
		return tx
	case "evm":
		if a.priv == nil {
			a = n.actors[2]
		}
		ex := d.Execer
		if ex == "" {
			ex = "evm"
		}
		para, _ := hex.DecodeString(d.Para)
		payload := types.Encode(&types.EVMContractAction4Chain33{Amount: 1, GasLimit: 10000, GasPrice: 1, Para: para, ContractAddr: d.CAddr, Note: fmt.Sprintf("%d", nonce)})
		if d.BadPay {
			payload = []byte{0xff, 0xff, 0xff, byte(nonce)}
		}
		to := d.To
		if to == "" {
			to = address.ExecAddress(ex)
		}
		tx := &types.Transaction{Execer: []byte(ex), Payload: payload, To: to, Fee: 1e6, Nonce: nonce, ChainID: n.cfg.GetChainID()}
		tx.Sign(a.sigTy, a.priv)
		return tx
	case "proxy":
		var data []byte
		if d.Inner != nil {
			in := n.buildUnsigned(*d.Inner, nonce)
			data = types.Encode(in)
		} else {
			data = []byte{0xff, 0xfe, byte(nonce), byte(nonce >> 8)}
		}
		var p *actor
		for _, x := range n.actors {
			if x.esk != "" {
				p = x
			}
		}
		sk, _ := ethcrypto.ToECDSA(ecommon.FromHex(p.esk))
		chainID := big.NewInt(secp256k1eth.GetEvmChainID())
		signer := ethtypes.NewEIP155Signer(chainID)
		etx := ethtypes.NewTransaction(0, ecommon.HexToAddress(n.proxy), big.NewInt(0), 3000000+uint64(variant), big.NewInt(10e9), data)
		signtx, err := ethtypes.SignTx(etx, signer, sk)
		if err != nil {
			die("eth sign: %v", err)
		}
		v, r, s := signtx.RawSignatureValues()
		cv, err := erpctypes.CaculateRealV(v, signtx.ChainId().Uint64(), signtx.Type())
		if err != nil {
			die("realv: %v", err)
		}
		sig := make([]byte, 65)
		copy(sig[32-len(r.Bytes()):32], r.Bytes())
		copy(sig[64-len(s.Bytes()):64], s.Bytes())
		sig[64] = cv
		pub, err := ethcrypto.Ecrecover(signer.Hash(signtx).Bytes(), sig)
		if err != nil {
			die("ecrecover: %v", err)
		}
		tx := erpctypes.AssembleChain33Tx(signtx, sig, pub, n.cfg)
		if tx == nil {
			die("assemble failed")
		}
		if d.CAddr != "" { // outer ContractAddr override (payload is not covered by the eth signature check of the executor)
			var act types.EVMContractAction4Chain33
			_ = types.Decode(tx.Payload, &act)
			act.ContractAddr = d.CAddr
			tx.Payload = types.Encode(&act)
		}
		return tx
	}
	die("unknown kind %q", d.Kind)
	return nil
}

func (n *node) buildUnsigned(d txD, nonce int64) *types.Transaction {
	switch d.Kind {
	case "coins":
		act := &cty.CoinsAction{Ty: cty.CoinsActionTransfer, Value: &cty.CoinsAction_Transfer{Transfer: &types.AssetsTransfer{Amount: 1000, To: d.To}}}
		return &types.Transaction{Execer: []byte("coins"), Payload: types.Encode(act), To: d.To, Fee: 1e6, Nonce: nonce, ChainID: n.cfg.GetChainID()}
	case "evm":
		ex := d.Execer
		if ex == "" {
			ex = "evm"
		}
		para, _ := hex.DecodeString(d.Para)
		to := d.To
		if to == "" {
			to = address.ExecAddress(ex)
		}
		return &types.Transaction{Execer: []byte(ex), Payload: types.Encode(&types.EVMContractAction4Chain33{Para: para, ContractAddr: d.CAddr}), To: to, Fee: 1e6, Nonce: nonce, ChainID: n.cfg.GetChainID()}
	default:
		return &types.Transaction{Execer: []byte("none"), Payload: []byte("in"), To: address.ExecAddress("none"), Fee: 1e6, Nonce: nonce, ChainID: n.cfg.GetChainID()}
	}
}

// entry builds the submission: a single transaction or a merged group; members are the expanded transactions.
func (n *node) entry(s scenD, variant int64) (entry *types.Transaction, members []*types.Transaction) {
	if len(s.Txs) == 1 {
		tx := n.build(s.Txs[0], variant)
		return tx, []*types.Transaction{tx}
	}
	var txs []*types.Transaction
	var privs []crypto.PrivKey
	var tys []int32
	for _, d := range s.Txs {
		tx := n.build(d, variant)
		tx.Signature = nil
		txs = append(txs, tx)
		a := n.actors[d.From%len(n.actors)]
		if a.priv == nil {
			a = n.actors[0]
		}
		privs = append(privs, a.priv)
		tys = append(tys, a.sigTy)
	}
	g, err := types.CreateTxGroup(txs, n.cfg.GetMinTxFeeRate())
	if err != nil {
		die("CreateTxGroup: %v", err)
	}
	for i := range g.Txs {
		if err := g.SignN(i, tys[i], privs[i]); err != nil {
			die("SignN: %v", err)
		}
	}
	head := g.Tx()
	gg, err := head.GetTxGroup()
	if err != nil || gg == nil {
		die("GetTxGroup: %v", err)
	}
	return head, gg.GetTxs()
}

// ---------------------------------------------------------------- facts and rendering

type cktab map[string][]byte

func (t cktab) add(s string) {
	dec := base58.Decode(s)
	if len(dec) == 25 {
		k := string(dec[:21])
		if _, ok := t[k]; !ok {
			t[k] = common.Sha2Sum(dec[:21])[:4]
		}
	}
}
func (t cktab) coq() string {
	keys := make([]string, 0, len(t))
	for k := range t {
		keys = append(keys, k)
	}
	// deterministic order
	for i := 1; i < len(keys); i++ {
		for j := i; j > 0 && keys[j] < keys[j-1]; j-- {
			keys[j], keys[j-1] = keys[j-1], keys[j]
		}
	}
	it := make([]string, len(keys))
	for i, k := range keys {
		it[i] = hlib.Pair(hlib.Hx([]byte(k)), hlib.Hx(t[k]))
	}
	return hlib.List(it)
}

func S(s string) string { return hlib.Hx([]byte(s)) }

func listS(ss []string) string {
	it := make([]string, len(ss))
	for i, s := range ss {
		it[i] = S(s)
	}
	return hlib.List(it)
}

func (n *node) facts(tx *types.Transaction, height int64, tab cktab) string {
	from, to, realto := tx.From(), tx.GetTo(), tx.GetRealToAddr()
	tab.add(from)
	tab.add(to)
	tab.add(realto)
	evm := "None"
	var act types.EVMContractAction4Chain33
	if err := types.Decode(tx.GetPayload(), &act); err == nil {
		tab.add(act.GetContractAddr())
		evm = "(Some " + hlib.Pair(S(act.GetContractAddr()), hlib.Hx(act.GetPara())) + ")"
	}
	valid := address.CheckAddress(tx.To, height) == nil
	return hlib.App("mkTx", S(from), S(to), S(realto), hlib.Hx(tx.GetExecer()), evm,
		hlib.Bool(types.IsEthSignID(tx.GetSignature().GetTy())), hlib.Bool(valid))
}

// innerOf mirrors the protobuf steps of proxyGetRealTx/proxyExecTx (decoding only).
func innerOf(tx *types.Transaction) *types.Transaction {
	if string(types.GetRealExecName(tx.GetExecer())) != "evm" {
		return nil
	}
	var act types.EVMContractAction4Chain33
	if err := types.Decode(tx.GetPayload(), &act); err != nil || len(act.GetPara()) == 0 {
		return nil
	}
	var real types.Transaction
	if err := types.Decode(act.Para, &real); err != nil {
		return nil
	}
	real.Signature = tx.Signature
	return &real
}

func replyClass(err error) string {
	if err == nil {
		return "ROk"
	}
	if strings.Contains(err.Error(), types.ErrBlockedAccount.Error()) {
		return "RBlocked"
	}
	return "ROther"
}

func blocked(err error) bool { return err != nil }

func bools(bs []bool) string {
	it := make([]string, len(bs))
	for i, b := range bs {
		it[i] = hlib.Bool(b)
	}
	return hlib.List(it)
}
func ns(v []uint64) string {
	it := make([]string, len(v))
	for i, b := range v {
		it[i] = hlib.N(b)
	}
	return hlib.List(it)
}

// ---------------------------------------------------------------- observation

func setBL(L []string) (ok bool) {
	defer func() {
		if r := recover(); r != nil {
			ok = false
		}
	}()
	types.SetBlockedAccountsForTest(L)
	return true
}

func (n *node) execTypes(h int64, txs []*types.Transaction) []uint64 {
	list := &types.ExecTxList{
		StateHash:  n.tip.StateHash,
		ParentHash: n.tip.Hash(n.cfg),
		Txs:        txs,
		BlockTime:  n.tip.BlockTime + 1,
		Height:     h,
		Difficulty: uint64(n.tip.Difficulty),
	}
	cl := n.mock.GetClient()
	msg := cl.NewMessage("execs", types.EventExecTxList, list)
	if err := cl.Send(msg, true); err != nil {
		die("exec send: %v", err)
	}
	resp, err := cl.WaitTimeout(msg, 20*time.Second)
	if err != nil {
		die("exec wait: %v", err)
	}
	rs, ok := resp.GetData().(*types.Receipts)
	if !ok {
		return nil
	}
	out := make([]uint64, len(rs.Receipts))
	for i, r := range rs.Receipts {
		out[i] = uint64(r.Ty)
	}
	return out
}

func (n *node) poolRemove(tx *types.Transaction) {
	cl := n.mock.GetClient()
	msg := cl.NewMessage("mempool", types.EventDelTxList, &types.TxHashList{Hashes: [][]byte{tx.Hash()}, Count: 1})
	if err := cl.Send(msg, true); err == nil {
		_, _ = cl.WaitTimeout(msg, 10*time.Second)
	}
}

func (n *node) poolSend(tx *types.Transaction) string {
	_, err := n.mock.GetAPI().SendTx(tx)
	c := replyClass(err)
	if c == "ROk" {
		n.poolRemove(tx)
	}
	return c
}

var delayEnd int64 = 1 << 50

func (n *node) delaySend(tx *types.Transaction) (string, error) {
	delayEnd++
	_, err := n.mock.GetAPI().SendDelayTx(&types.DelayTx{Tx: tx, EndDelayTime: delayEnd}, true)
	return replyClass(err), err
}

// embedded delayed transaction in a (fake) block handed to the pool; then probed with an empty blacklist
func (n *node) delayBlock(tx *types.Transaction, L []string) (cached bool, ok bool) {
	delayEnd++
	action := &nty.NoneAction{Ty: nty.TyCommitDelayTxAction, Value: &nty.NoneAction_CommitDelayTx{CommitDelayTx: &nty.CommitDelayTx{
		DelayTx: common.ToHex(types.Encode(tx)), RelativeDelayHeight: delayEnd}}}
	btx := &types.Transaction{Execer: []byte(nty.NoneX), Payload: types.Encode(action), To: address.ExecAddress(nty.NoneX)}
	blk := &types.Block{Height: n.tip.Height, BlockTime: n.tip.BlockTime, Txs: []*types.Transaction{btx}}
	cl := n.mock.GetClient()
	if !setBL(L) {
		return false, false
	}
	if err := cl.Send(cl.NewMessage("mempool", types.EventAddBlock, &types.BlockDetail{Block: blk}), false); err != nil {
		return false, false
	}
	// the pool's event loop is sequential: a size query returns after the block was handled
	if _, err := n.mock.GetAPI().GetLastMempool(); err != nil {
		return false, false
	}
	setBL(nil)
	_, err := n.delaySend(tx)
	if err == nil {
		return false, true
	}
	if strings.Contains(err.Error(), types.ErrDupTx.Error()) {
		return true, true
	}
	return false, false
}

var tmark = time.Now()

func lap(what string) {
	if os.Getenv("HC31_TIMING") != "" {
		fmt.Fprintf(os.Stderr, "lap %s %v\n", what, time.Since(tmark))
	}
	tmark = time.Now()
}

func (n *node) runScen(o *hlib.Out, kind string, s scenD) {
	lap("start")
	tab := cktab{}
	for _, l := range s.L {
		tab.add(l)
	}
	if !setBL(s.L) {
		// the generators only produce lists the model accepts: report the panic as a parse case
		setBL(nil)
		runParse(parseIn{L: s.L}, o)
		return
	}
	entry, members := n.entry(s, 0)
	poolH := n.tip.Height
	// facts
	mf := make([]string, len(members))
	for i, m := range members {
		mf[i] = n.facts(m, poolH, tab)
	}
	bundle := ""
	innerHit := false
	if len(members) == 1 {
		inner := "None"
		if in := innerOf(entry); in != nil {
			inner = "(Some " + n.facts(in, poolH, tab) + ")"
			innerHit = blocked(types.CheckTxBlockedAccountImmediate(in))
		}
		bundle = hlib.App("BSingle", mf[0], inner)
	} else {
		bundle = hlib.App("BGroup", hlib.List(mf))
	}
	// exported predicates
	var oTx, oImm []bool
	for _, m := range members {
		oTx = append(oTx, blocked(types.CheckTxBlockedAccount(n.cfg, s.H, m)))
		oImm = append(oImm, blocked(types.CheckTxBlockedAccountImmediate(m)))
	}
	oTxs := blocked(types.CheckTxsBlockedAccount(n.cfg, s.H, members))
	oTxsImm := blocked(types.CheckTxsBlockedAccountImmediate(members))
	oNil := blocked(types.CheckTxBlockedAccount(nil, s.H, members[0]))
	impl := map[string]interface{}{"tx": oTx, "imm": oImm, "txs": oTxs, "txsimm": oTxsImm}
	oEx, oProd, oPool, oDelay, oDblock := "None", "None", "None", "None", "None"
	if !s.Para {
		// executor
		if s.H >= 1 {
			setBL(nil)
			base := n.execTypes(s.H, members)
			setBL(s.L)
			with := n.execTypes(s.H, members)
			if base != nil && with != nil {
				oEx = "(Some " + hlib.Pair(ns(base), ns(with)) + ")"
				impl["exec"] = [][]uint64{base, with}
			}
		}
		lap("exec")
		// producer
		{
			// clean filler: genesis account pays an address outside the actor set
			filler := n.coinsTx(n.mock.GetGenesisKey(), types.SECP256K1, fillerTo, 1)
			setBL(s.L)
			blk := &types.Block{Height: s.H}
			added := n.solo.AddTxsToBlock(blk, []*types.Transaction{entry, filler})
			kept := uint64(0)
			fillerKept := false
			for _, a := range added {
				if a == filler {
					fillerKept = true
				} else {
					kept++
				}
			}
			oProd = "(Some " + hlib.Pair(hlib.N(kept), hlib.Bool(fillerKept)) + ")"
			impl["prod"] = []interface{}{kept, fillerKept}
		}
		lap("prod")
		// pool
		{
			// stage of checkTxs in front of the per-member checkTx (Transaction.Check on the merged
			// transaction, group decoding): an oracle fact computed through the exported API
			hdr := n.mock.GetLastBlock().Height + 1
			preOk := types.NewTransactionCache(entry).Check(n.cfg, hdr, n.cfg.GetModuleConfig().Mempool.MinTxFeeRate, n.cfg.GetMaxTxFee(hdr)) == nil
			if preOk {
				if _, err := entry.GetTxGroup(); err != nil {
					preOk = false
				}
			}
			setBL(nil)
			base := n.poolSend(entry)
			setBL(s.L)
			with := n.poolSend(entry)
			oPool = "(Some " + hlib.Pair(hlib.Pair(hlib.Bool(preOk), base), with) + ")"
			impl["pool"] = []interface{}{preOk, base, with}
		}
		lap("pool")
		// delay entry (a fresh copy of the submission)
		{
			e1, _ := n.entry(s, 1)
			setBL(s.L)
			c, _ := n.delaySend(e1)
			oDelay = "(Some " + c + ")"
			impl["delay"] = c
		}
		lap("delay")
		// delayed transaction embedded in a block
		{
			e2, _ := n.entry(s, 2)
			cached, ok := n.delayBlock(e2, s.L)
			if ok {
				oDblock = "(Some " + hlib.Bool(cached) + ")"
				impl["dblock"] = cached
			}
		}
		lap("dblock")
		setBL(nil)
	}
	obs := hlib.App("mkObs", bools(oTx), bools(oImm), hlib.Bool(oTxs), hlib.Bool(oTxsImm), hlib.Bool(oNil), oEx, oProd, oPool, oDelay, oDblock)
	env := hlib.App("mkEnv", hlib.Z(n.cfg.GetFork(types.ForkAccountBlacklist)), hlib.Z(n.cfg.GetFork("ForkProxyExec")), S(n.proxy), hlib.Z(s.H))
	term := hlib.App("CScen", tab.coq(), listS(s.L), env, bundle, obs)
	hit := innerHit
	for _, b := range oImm {
		hit = hit || b
	}
	o.Emit(kind, hit, term, s, impl)
}

// ---------------------------------------------------------------- generators

func (n *node) pickAddr(r *hlib.Rng) string {
	a := hlib.Pick(r, n.all)
	return spellings(r, a.Addr)
}

func (n *node) genTx(r *hlib.Rng, allowProxy bool) txD {
	k := r.Intn(10)
	switch {
	case k < 4:
		return txD{Kind: "coins", From: r.Intn(5), To: n.pickAddr(r)}
	case k < 5:
		return txD{Kind: "none", From: r.Intn(5)}
	case k < 8 || !allowProxy:
		d := txD{Kind: "evm", From: r.Intn(5), Execer: hlib.Pick(r, []string{"evm", "evm", "user.evm.tok", "user.p.para.evm", "user.p.para.user.evm.x", "evmx", "user.evm"})}
		switch r.Intn(4) {
		case 0:
			d.CAddr = n.pickAddr(r)
		case 1:
			d.CAddr = address.ExecAddress("evm")
			d.Para = hex.EncodeToString(hlib.Pick(r, n.all).Raw)
		case 2:
			d.CAddr = n.pickAddr(r)
			d.Para = hex.EncodeToString(append(hlib.Pick(r, n.all).Raw, byte(r.Intn(3)))[r.Intn(2):])
		default:
			d.BadPay = r.Chance(1, 2)
			d.Para = hex.EncodeToString(hlib.Pick(r, n.all).Raw)
		}
		return d
	default:
		d := txD{Kind: "proxy", From: 5}
		if r.Chance(1, 4) {
			d.CAddr = n.pickAddr(r)
		}
		if r.Chance(9, 10) {
			in := n.genTx(r, false)
			d.Inner = &in
		}
		return d
	}
}

func (n *node) genL(r *hlib.Rng, txs []txD) []string {
	var L []string
	k := r.Intn(4)
	for i := 0; i < k; i++ {
		a := hlib.Pick(r, n.all)
		s := spellings(r, a.Addr)
		if a.eth && r.Chance(1, 6) {
			s = strings.TrimPrefix(strings.TrimPrefix(s, "0x"), "0X")
		}
		L = append(L, s)
	}
	if r.Chance(1, 12) {
		L = append(L, address.ExecAddress(hlib.Pick(r, []string{"none", "evm", "coins"})))
	}
	if r.Chance(1, 20) {
		L = append(L, n.proxy)
	}
	return L
}

func (n *node) genScen(r *hlib.Rng, shape string) scenD {
	var s scenD
	switch shape {
	case "single":
		s.Txs = []txD{n.genTx(r, false)}
	case "proxy":
		d := txD{Kind: "proxy", From: 5}
		if r.Chance(1, 4) {
			d.CAddr = n.pickAddr(r)
		}
		if r.Chance(9, 10) {
			in := n.genTx(r, false)
			d.Inner = &in
		}
		s.Txs = []txD{d}
	default:
		k := r.Range(2, 3)
		for i := 0; i < k; i++ {
			s.Txs = append(s.Txs, n.genTx(r, false))
		}
	}
	s.L = n.genL(r, s.Txs)
	s.H = int64(hlib.Pick(r, []int{1, 2, forkH - 1, forkH, forkH, forkH + 1, forkH + 5, 1000}))
	return s
}

// ---------------------------------------------------------------- parse / name streams

func mutateAddr(r *hlib.Rng, addr string) string {
	b := []byte(addr)
	switch r.Intn(8) {
	case 0:
		if len(b) > 3 {
			i := r.Intn(len(b))
			b[i] = "123456789ABCDEFGHJKLMNPQRSTUVWXYZabcdefghijkmnopqrstuvwxyz0OIl xX"[r.Intn(65)]
		}
	case 1:
		b = append(b, byte('1'+r.Intn(9)))
	case 2:
		if len(b) > 1 {
			b = b[:len(b)-1]
		}
	case 3:
		b = append([]byte{'1'}, b...)
	case 4:
		b = append([]byte{' '}, b...)
	case 5:
		raw := rawOf(addr)
		if raw != nil {
			return btcAddrOf(byte(hlib.Pick(r, []int{0, 5, 111, 255, 1})), raw) // same hash160, other version byte
		}
	case 6:
		raw := rawOf(addr)
		if raw != nil {
			return "0x" + hex.EncodeToString(raw)
		}
	case 7:
		if len(b) > 2 {
			b = b[1:]
		}
	}
	return string(b)
}

type parseIn struct {
	L      []string `json:"L"`
	Probes []string `json:"probes"`
	Raws   []string `json:"raws"`
}

func (n *node) genParse(r *hlib.Rng) parseIn {
	var in parseIn
	k := r.Intn(4)
	for i := 0; i < k; i++ {
		a := hlib.Pick(r, n.all)
		s := spellings(r, a.Addr)
		if a.eth && r.Chance(1, 4) {
			s = strings.TrimPrefix(strings.TrimPrefix(s, "0x"), "0X")
		}
		if r.Chance(1, 5) {
			s = mutateAddr(r, s)
		}
		in.L = append(in.L, s)
	}
	for i := 0; i < 6; i++ {
		a := hlib.Pick(r, n.all)
		s := spellings(r, a.Addr)
		if r.Chance(1, 3) {
			s = mutateAddr(r, s)
		}
		if r.Chance(1, 10) {
			s = hlib.Pick(r, []string{"", "0x", "0", "1", "0x0", "11111111111111111111111111", strings.Repeat("f", 40), "0x" + strings.Repeat("0", 40)})
		}
		in.Probes = append(in.Probes, s)
	}
	for i := 0; i < 3; i++ {
		raw := append([]byte{}, hlib.Pick(r, n.all).Raw...)
		switch r.Intn(6) {
		case 0:
			raw = raw[:19]
		case 1:
			raw = append(raw, 0)
		case 2:
			raw[r.Intn(20)] ^= 1
		case 3:
			raw = nil
		}
		in.Raws = append(in.Raws, hex.EncodeToString(raw))
	}
	return in
}

func runParse(in parseIn, out *hlib.Out) {
	tab := cktab{}
	for _, s := range in.L {
		tab.add(s)
	}
	ok := setBL(in.L)
	var probes, raws []string
	var pob, rob []bool
	nontriv := false
	if ok {
		for _, s := range in.Probes {
			tab.add(s)
			b := types.IsBlockedAccount(s)
			nontriv = nontriv || b
			probes = append(probes, hlib.Pair(S(s), hlib.Bool(b)))
			pob = append(pob, b)
		}
		for _, h := range in.Raws {
			raw, _ := hex.DecodeString(h)
			b := types.IsBlockedAccountRaw(raw)
			raws = append(raws, hlib.Pair(hlib.Hx(raw), hlib.Bool(b)))
			rob = append(rob, b)
		}
	}
	setBL(nil)
	term := hlib.App("CParse", tab.coq(), listS(in.L), hlib.Bool(!ok), hlib.List(probes), hlib.List(raws))
	out.Emit("parse", nontriv || !ok, term, in, map[string]interface{}{"panics": !ok, "probes": pob, "raws": rob})
}

func runName(r *hlib.Rng, out *hlib.Out) {
	parts := []string{"user", "p", "evm", "para", "coins", "", "x", "user.p", "none"}
	k := r.Range(1, 6)
	var ps []string
	for i := 0; i < k; i++ {
		ps = append(ps, hlib.Pick(r, parts))
	}
	e := strings.Join(ps, ".")
	if r.Chance(1, 5) {
		e += "."
	}
	runNameIn(e, out)
}

func runNameIn(e string, out *hlib.Out) {
	got := types.GetRealExecName([]byte(e))
	out.Emit("name", string(got) != e, hlib.App("CName", S(e), hlib.Hx(got)), e, string(got))
}

// ---------------------------------------------------------------- para stream (predicates only)

type paraIn struct {
	L      []string `json:"L"`
	H      int64    `json:"h"`
	From   int      `json:"from"`
	RealTo string   `json:"realto"`
	ToReal bool     `json:"toreal,omitempty"` // tx.To = the real recipient instead of the exec address
}

func (n *node) genPara(r *hlib.Rng) paraIn {
	in := paraIn{From: r.Intn(3), RealTo: n.pickAddr(r), ToReal: r.Chance(1, 5)}
	in.L = n.genL(r, nil)
	in.H = int64(hlib.Pick(r, []int{forkH - 1, forkH, forkH + 3}))
	if r.Chance(1, 2) {
		in.L = append(in.L, spellings(r, in.RealTo))
	}
	return in
}

func (n *node) runPara(in paraIn, out *hlib.Out, pcfg *types.Chain33Config) {
	title := pcfg.GetTitle()
	a := n.actors[in.From%3]
	act := &cty.CoinsAction{Ty: cty.CoinsActionTransfer, Value: &cty.CoinsAction_Transfer{Transfer: &types.AssetsTransfer{Amount: 1000, To: in.RealTo}}}
	ex := title + "coins"
	tx := &types.Transaction{Execer: []byte(ex), Payload: types.Encode(act), To: address.ExecAddress(ex), Fee: 1e6, Nonce: n.nextNonce()}
	if in.ToReal {
		tx.To = in.RealTo
	}
	tx.Sign(a.sigTy, a.priv)
	tab := cktab{}
	for _, l := range in.L {
		tab.add(l)
	}
	if !setBL(in.L) {
		setBL(nil)
		runParse(parseIn{L: in.L}, out)
		return
	}
	f := n.facts(tx, 1, tab)
	oTx := []bool{blocked(types.CheckTxBlockedAccount(n.cfg, in.H, tx))}
	oImm := []bool{blocked(types.CheckTxBlockedAccountImmediate(tx))}
	oTxs := blocked(types.CheckTxsBlockedAccount(n.cfg, in.H, []*types.Transaction{tx}))
	oTxsImm := blocked(types.CheckTxsBlockedAccountImmediate([]*types.Transaction{tx}))
	oNil := blocked(types.CheckTxBlockedAccount(nil, in.H, tx))
	setBL(nil)
	obs := hlib.App("mkObs", bools(oTx), bools(oImm), hlib.Bool(oTxs), hlib.Bool(oTxsImm), hlib.Bool(oNil), "None", "None", "None", "None", "None")
	env := hlib.App("mkEnv", hlib.Z(n.cfg.GetFork(types.ForkAccountBlacklist)), hlib.Z(n.cfg.GetFork("ForkProxyExec")), S(n.proxy), hlib.Z(in.H))
	term := hlib.App("CScen", tab.coq(), listS(in.L), env, hlib.App("BSingle", f, "None"), obs)
	out.Emit("para", oImm[0], term, in, map[string]interface{}{"tx": oTx, "imm": oImm, "realto_fact": tx.GetRealToAddr(), "to": tx.To})
}

func (n *node) paraPhase(out *hlib.Out, ins []paraIn) {
	// rebinding the coins executor type to a para configuration changes GetRealToAddr
	pcfg := types.NewChain33Config(strings.Replace(types.GetDefaultCfgstring(), "Title=\"local\"", "Title=\"user.p.para.\"", 1))
	setBL(nil)
	et := types.LoadExecutorType("coins")
	if et == nil {
		die("coins executor type missing")
	}
	old := et.GetConfig()
	et.SetConfig(pcfg)
	for _, in := range ins {
		n.runPara(in, out, pcfg)
	}
	et.SetConfig(old)
}

// ---------------------------------------------------------------- histories (one process, many checks)
//
// One transaction body (fixed nonce, so one Hash()) is signed by several accounts and the
// differently signed copies are put through the enforcement points one after the other, with
// blacklist loads only where the history says so. Observables that need the reply "without a
// blacklist" are taken in a preliminary phase, before the first load of the history.

type hstepD struct {
	Op   string   `json:"op"`             // load | pred | exec | prod | pool | delay | dblock
	L    []string `json:"L,omitempty"`    // load: the list
	From int      `json:"from,omitempty"` // asks: signer (index into actors; 6 = the unfunded account)
	H    int64    `json:"h,omitempty"`    // asks: call height
}

type histD struct {
	Body  txD      `json:"body"` // coins | none | evm; From is not used
	Grp   bool     `json:"grp,omitempty"`  // submitted as the second member of a group [none transaction, body]
	Head  int      `json:"head,omitempty"` // group: signer of the first member
	Steps []hstepD `json:"steps"`
}

const unfundedIx = 6

func (n *node) signer(ix int) *actor {
	if ix == unfundedIx {
		return n.unfunded
	}
	a := n.actors[ix%len(n.actors)]
	if a.priv == nil {
		a = n.actors[0]
	}
	return a
}

type hvariant struct {
	entry   *types.Transaction
	members []*types.Transaction
	ixs     []int // positions of the members in the facts table
	inner   int   // position of the unwrapped inner transaction, -1 = none
	execB   map[int64][]uint64
	poolB   string
}

// variant builds the submission of the history signed by account `from`
func (n *node) variant(h histD, nonce int64, from int) (entry *types.Transaction, members []*types.Transaction) {
	a := n.signer(from)
	body := n.buildUnsigned(h.Body, nonce)
	if !h.Grp {
		body.Sign(a.sigTy, a.priv)
		return body, []*types.Transaction{body}
	}
	head := n.buildUnsigned(txD{Kind: "none"}, nonce+1)
	g, err := types.CreateTxGroup([]*types.Transaction{head, body}, n.cfg.GetMinTxFeeRate())
	if err != nil {
		die("hist CreateTxGroup: %v", err)
	}
	hs := n.signer(h.Head)
	if err := g.SignN(0, hs.sigTy, hs.priv); err != nil {
		die("hist SignN: %v", err)
	}
	if err := g.SignN(1, a.sigTy, a.priv); err != nil {
		die("hist SignN: %v", err)
	}
	e := g.Tx()
	gg, err := e.GetTxGroup()
	if err != nil || gg == nil {
		die("hist GetTxGroup: %v", err)
	}
	return e, gg.GetTxs()
}

func listedRaw(L []string, raw []byte) bool {
	for _, l := range L {
		if r := rawOf(l); r != nil && string(r) == string(raw) {
			return true
		}
	}
	return false
}

func nlist(v []int) string {
	it := make([]string, len(v))
	for i, x := range v {
		it[i] = hlib.N(uint64(x))
	}
	return hlib.List(it)
}

func (n *node) runHist(o *hlib.Out, kind string, h histD) {
	setBL(nil)
	tab := cktab{}
	poolH := n.tip.Height
	nonce := int64(1)<<41 + n.nextNonce()<<4
	var facts []string
	vars := map[int]*hvariant{}
	var order []int
	var hashes [][]byte
	// preliminary phase (empty blacklist): facts and baselines of every signed copy
	for _, st := range h.Steps {
		if st.Op == "load" {
			for _, l := range st.L {
				tab.add(l)
			}
			continue
		}
		v := vars[st.From]
		if v == nil {
			v = &hvariant{inner: -1, execB: map[int64][]uint64{}}
			v.entry, v.members = n.variant(h, nonce, st.From)
			for _, m := range v.members {
				v.ixs = append(v.ixs, len(facts))
				facts = append(facts, n.facts(m, poolH, tab))
			}
			if len(v.members) == 1 {
				if in := innerOf(v.entry); in != nil {
					v.inner = len(facts)
					facts = append(facts, n.facts(in, poolH, tab))
				}
			}
			vars[st.From] = v
			order = append(order, st.From)
			var hs []byte
			for _, m := range v.members {
				hs = append(hs, m.Hash()...)
			}
			hashes = append(hashes, hs)
		}
		switch st.Op {
		case "exec":
			if _, ok := v.execB[st.H]; !ok && st.H >= 1 {
				v.execB[st.H] = n.execTypes(st.H, v.members)
			}
		case "pool":
			if v.poolB == "" {
				v.poolB = n.poolSend(v.entry)
			}
		}
	}
	sameHash := true
	for _, hs := range hashes {
		if string(hs) != string(hashes[0]) {
			sameHash = false
		}
	}
	if !sameHash {
		die("history: the signed copies do not share their hashes")
	}
	// the history itself
	var steps []string
	var impl []interface{}
	var cur []string
	nontriv := false
	load := func(L []string) {
		if !setBL(L) {
			die("history: list does not load: %v", L)
		}
		cur = L
		steps = append(steps, hlib.App("SLoad", listS(L)))
		impl = append(impl, map[string]interface{}{"load": L})
	}
	delayed := false // the body's hash sits in the delay cache
	for _, st := range h.Steps {
		if st.Op == "load" {
			load(st.L)
			continue
		}
		v := vars[st.From]
		if listedRaw(cur, n.signer(st.From).Raw) {
			nontriv = true
		}
		pt := ""
		var ob interface{}
		extraLoad := false
		switch st.Op {
		case "pred":
			var oTx, oImm []bool
			for _, m := range v.members {
				oTx = append(oTx, blocked(types.CheckTxBlockedAccount(n.cfg, st.H, m)))
				oImm = append(oImm, blocked(types.CheckTxBlockedAccountImmediate(m)))
			}
			oTxs := blocked(types.CheckTxsBlockedAccount(n.cfg, st.H, v.members))
			oTxsImm := blocked(types.CheckTxsBlockedAccountImmediate(v.members))
			oNil := blocked(types.CheckTxBlockedAccount(nil, st.H, v.members[0]))
			pt = hlib.App("PtPred", bools(oTx), bools(oImm), hlib.Bool(oTxs), hlib.Bool(oTxsImm), hlib.Bool(oNil))
			ob = map[string]interface{}{"tx": oTx, "imm": oImm, "txs": oTxs, "txsimm": oTxsImm}
			nontriv = nontriv || oTxsImm
		case "exec":
			base := v.execB[st.H]
			if st.H < 1 || base == nil {
				continue
			}
			with := n.execTypes(st.H, v.members)
			if with == nil {
				continue
			}
			pt = hlib.App("PtExec", ns(base), ns(with))
			ob = [][]uint64{base, with}
		case "prod":
			filler := n.coinsTx(n.mock.GetGenesisKey(), types.SECP256K1, fillerTo, 1)
			blk := &types.Block{Height: st.H}
			added := n.solo.AddTxsToBlock(blk, []*types.Transaction{v.entry, filler})
			kept := uint64(0)
			fillerKept := false
			for _, a := range added {
				if a == filler {
					fillerKept = true
				} else {
					kept++
				}
			}
			pt = hlib.App("PtProd", hlib.N(kept), hlib.Bool(fillerKept))
			ob = []interface{}{kept, fillerKept}
		case "pool":
			hdr := n.mock.GetLastBlock().Height + 1
			preOk := types.NewTransactionCache(v.entry).Check(n.cfg, hdr, n.cfg.GetModuleConfig().Mempool.MinTxFeeRate, n.cfg.GetMaxTxFee(hdr)) == nil
			if preOk {
				if _, err := v.entry.GetTxGroup(); err != nil {
					preOk = false
				}
			}
			with := n.poolSend(v.entry)
			pt = hlib.App("PtPool", hlib.Bool(preOk), v.poolB, with)
			ob = []interface{}{preOk, v.poolB, with}
			nontriv = nontriv || with == "RBlocked"
		case "delay":
			base := "ROk"
			if delayed {
				base = "ROther" // ErrDupTx of the delay cache
			}
			c, _ := n.delaySend(v.entry)
			if c == "ROk" {
				delayed = true
			}
			pt = hlib.App("PtDelay", base, c)
			ob = []string{base, c}
			nontriv = nontriv || c == "RBlocked"
		case "dblock":
			if delayed {
				continue
			}
			cached, ok := n.delayBlockHist(v.entry)
			delayed = true
			extraLoad = true
			if !ok {
				load(cur)
				continue
			}
			pt = hlib.App("PtDblock", hlib.Bool(cached))
			ob = cached
		default:
			die("history: unknown op %q", st.Op)
		}
		inner := "None"
		if v.inner >= 0 {
			inner = "(Some " + hlib.N(uint64(v.inner)) + ")"
		}
		steps = append(steps, hlib.App("SAsk", hlib.Z(st.H), nlist(v.ixs), inner, hlib.List([]string{pt})))
		impl = append(impl, map[string]interface{}{"op": st.Op, "from": st.From, "obs": ob})
		if extraLoad {
			load(cur) // the probe of the delay cache emptied the list: what follows runs after a reload
		}
	}
	setBL(nil)
	term := hlib.App("CHist", tab.coq(), hlib.Z(n.cfg.GetFork(types.ForkAccountBlacklist)), hlib.Z(n.cfg.GetFork("ForkProxyExec")),
		S(n.proxy), hlib.List(facts), hlib.List(steps))
	o.Emit(kind, nontriv, term, h, impl)
}

// delayBlockHist: like delayBlock, but the list is not touched before the block is handled
func (n *node) delayBlockHist(tx *types.Transaction) (cached bool, ok bool) {
	delayEnd++
	action := &nty.NoneAction{Ty: nty.TyCommitDelayTxAction, Value: &nty.NoneAction_CommitDelayTx{CommitDelayTx: &nty.CommitDelayTx{
		DelayTx: common.ToHex(types.Encode(tx)), RelativeDelayHeight: delayEnd}}}
	btx := &types.Transaction{Execer: []byte(nty.NoneX), Payload: types.Encode(action), To: address.ExecAddress(nty.NoneX)}
	blk := &types.Block{Height: n.tip.Height, BlockTime: n.tip.BlockTime, Txs: []*types.Transaction{btx}}
	cl := n.mock.GetClient()
	if err := cl.Send(cl.NewMessage("mempool", types.EventAddBlock, &types.BlockDetail{Block: blk}), false); err != nil {
		return false, false
	}
	if _, err := n.mock.GetAPI().GetLastMempool(); err != nil {
		return false, false
	}
	setBL(nil)
	_, err := n.delaySend(tx)
	if err == nil {
		return false, true
	}
	if strings.Contains(err.Error(), types.ErrDupTx.Error()) {
		return true, true
	}
	return false, false
}

var histPoints = []string{"pred", "exec", "prod", "pool", "delay"}

func (n *node) histBody(r *hlib.Rng, avoid map[string]bool) txD {
	pick := func() string {
		for {
			a := hlib.Pick(r, n.recips)
			if !avoid[a.Name] {
				return spellings(r, a.Addr)
			}
		}
	}
	switch r.Intn(6) {
	case 0:
		return txD{Kind: "none"}
	case 1:
		return txD{Kind: "evm", Execer: hlib.Pick(r, []string{"evm", "user.evm.tok", "user.p.para.evm"}), CAddr: pick()}
	default:
		return txD{Kind: "coins", To: pick()}
	}
}

func histHeight(r *hlib.Rng) int64 {
	return int64(hlib.Pick(r, []int{forkH, forkH, forkH, forkH + 1, 1000, forkH - 1, 1}))
}

// pair: [load L; first signer at p1; second signer at p2]; the listed signer is second (or first when rev);
// the body itself does not touch the list
func (n *node) genHistPair(r *hlib.Rng, p1, p2 string, rev bool) histD {
	listed := r.Intn(5)
	clean := (listed + 1 + r.Intn(4)) % 5
	if r.Chance(1, 4) {
		clean = unfundedIx
	}
	h := histD{Body: n.histBody(r, nil), Grp: r.Chance(1, 5)}
	L := []string{spellings(r, n.actors[listed].Addr)}
	if r.Chance(1, 3) {
		x := hlib.Pick(r, n.recips)
		if string(rawOf(h.Body.To)) != string(x.Raw) && string(rawOf(h.Body.CAddr)) != string(x.Raw) {
			L = append(L, spellings(r, x.Addr))
		}
	}
	hh := histHeight(r)
	a, b := clean, listed
	if rev {
		a, b = listed, clean
	}
	if h.Grp {
		h.Head = clean
	}
	h.Steps = []hstepD{{Op: "load", L: L}, {Op: p1, From: a, H: hh}, {Op: p2, From: b, H: hh}}
	if r.Chance(1, 3) {
		h.Steps = append(h.Steps, hstepD{Op: hlib.Pick(r, histPoints), From: a, H: hh}, hstepD{Op: hlib.Pick(r, histPoints), From: b, H: hh})
	}
	return h
}

// random: 2-3 signers, 3-7 steps, loads in between
func (n *node) genHistRand(r *hlib.Rng) histD {
	h := histD{Body: n.histBody(r, nil), Grp: r.Chance(1, 4)}
	signers := []int{r.Intn(5), r.Intn(5), hlib.Pick(r, []int{0, 1, 2, 3, 4, unfundedIx})}
	genL := func() []string {
		var L []string
		for _, s := range signers {
			if s != unfundedIx && r.Chance(1, 2) {
				L = append(L, spellings(r, n.actors[s].Addr))
			}
		}
		if r.Chance(1, 3) {
			L = append(L, spellings(r, hlib.Pick(r, n.recips).Addr))
		}
		return L
	}
	if h.Grp {
		h.Head = hlib.Pick(r, signers)
	}
	h.Steps = append(h.Steps, hstepD{Op: "load", L: genL()})
	k := r.Range(3, 7)
	pts := append([]string{"dblock"}, histPoints...)
	for i := 0; i < k; i++ {
		if r.Chance(1, 5) {
			h.Steps = append(h.Steps, hstepD{Op: "load", L: genL()})
			continue
		}
		op := hlib.Pick(r, pts)
		h.Steps = append(h.Steps, hstepD{Op: op, From: hlib.Pick(r, signers), H: histHeight(r)})
	}
	return h
}

// reload: the same transaction asked under lists that do / do not name its sender or recipient
func (n *node) genHistReload(r *hlib.Rng) histD {
	x := r.Intn(5)
	rc := hlib.Pick(r, n.recips)
	h := histD{Body: txD{Kind: "coins", To: spellings(r, rc.Addr)}}
	other := spellings(r, n.actors[(x+1)%5].Addr)
	hit := []string{spellings(r, n.actors[x].Addr)}
	if r.Chance(1, 2) {
		hit = []string{spellings(r, rc.Addr)}
	}
	hh := histHeight(r)
	p := func() string { return hlib.Pick(r, histPoints) }
	h.Steps = []hstepD{
		{Op: "load", L: []string{other}}, {Op: p(), From: x, H: hh},
		{Op: "load", L: append([]string{other}, hit...)}, {Op: p(), From: x, H: hh}, {Op: p(), From: x, H: hh},
		{Op: "load", L: []string{other}}, {Op: p(), From: x, H: hh},
		{Op: "load", L: hit}, {Op: p(), From: x, H: hh},
	}
	return h
}

// ---------------------------------------------------------------- main

func main() {
	opts := hlib.ParseFlags()
	out := hlib.NewOut(opts.OutDir)
	rng := hlib.NewRng(opts.Seed)
	n := newNode()

	if opts.Replay != "" {
		b, err := os.ReadFile(opts.Replay)
		if err != nil {
			die("replay: %v", err)
		}
		var rf struct {
			Case struct {
				Kind  string          `json:"kind"`
				Input json.RawMessage `json:"input"`
			} `json:"case"`
		}
		if err := json.Unmarshal(b, &rf); err != nil {
			die("replay: %v", err)
		}
		k := rf.Case.Kind
		switch {
		case k == "parse":
			var in parseIn
			if err := json.Unmarshal(rf.Case.Input, &in); err != nil {
				die("replay: %v", err)
			}
			runParse(in, out)
		case k == "name":
			var e string
			if err := json.Unmarshal(rf.Case.Input, &e); err != nil {
				die("replay: %v", err)
			}
			runNameIn(e, out)
		case strings.HasPrefix(k, "hist") || strings.HasPrefix(k, "w-hist"):
			var h histD
			if err := json.Unmarshal(rf.Case.Input, &h); err != nil {
				die("replay: %v", err)
			}
			n.runHist(out, k, h)
		case k == "para":
			var in paraIn
			if err := json.Unmarshal(rf.Case.Input, &in); err != nil {
				die("replay: %v", err)
			}
			n.paraPhase(out, []paraIn{in})
		default:
			var sc scenD
			if err := json.Unmarshal(rf.Case.Input, &sc); err != nil {
				die("replay: %v", err)
			}
			n.runScen(out, k, sc)
		}
		out.Close()
		os.Exit(0)
	}

	nScen, nParse, nName, nPara := 72, 160, 60, 40
	if opts.Thorough() {
		nScen, nParse, nName, nPara = 1600, 3000, 600, 600
	}
	nPairRounds, nPairRev, nHistRand, nHistReload := 1, 10, 24, 10
	if opts.Thorough() {
		nPairRounds, nPairRev, nHistRand, nHistReload = 8, 100, 600, 200
	}
	if opts.Extra == "probe" {
		nScen, nParse, nName, nPara = 4, 3, 3, 3
		nPairRev, nHistRand, nHistReload = 2, 3, 2
	}

	// hand-written small cases first: plain, spelling, and the witnesses of the open findings
	q0 := n.recips[2].Addr
	r0 := n.recips[0].Addr
	r1 := n.recips[1].Addr
	witnesses := []struct {
		k string
		s scenD
	}{
		{"w-plain-to", scenD{L: []string{r0}, H: forkH, Txs: []txD{{Kind: "coins", From: 0, To: r0}}}},
		{"w-plain-before", scenD{L: []string{r0}, H: forkH - 1, Txs: []txD{{Kind: "coins", From: 0, To: r0}}}},
		{"w-spelling", scenD{L: []string{"0X" + strings.ToUpper(q0[2:])}, H: forkH, Txs: []txD{{Kind: "coins", From: 0, To: q0}}}},
		{"w-proxy-inner", scenD{L: []string{r0}, H: forkH, Txs: []txD{{Kind: "proxy", From: 5, Inner: &txD{Kind: "coins", To: r0}}}}},
		{"w-proxy-inner-before", scenD{L: []string{r0}, H: forkH - 1, Txs: []txD{{Kind: "proxy", From: 5, Inner: &txD{Kind: "coins", To: r0}}}}},
		{"w-proxy-outer", scenD{L: []string{q0}, H: forkH, Txs: []txD{{Kind: "proxy", From: 5, CAddr: q0, Inner: &txD{Kind: "coins", To: r1}}}}},
		{"w-delay-group", scenD{L: []string{r0}, H: forkH, Txs: []txD{{Kind: "none", From: 1}, {Kind: "coins", From: 0, To: r0}}}},
	}
	for _, w := range witnesses {
		n.runScen(out, w.k, w.s)
	}
	// histories: the same body from a clean signer, then from the listed one
	{
		s0, s1 := n.actors[0].Addr, n.actors[1].Addr
		hw := []struct {
			k string
			h histD
		}{
			{"w-hist-pred", histD{Body: txD{Kind: "coins", To: r1}, Steps: []hstepD{
				{Op: "load", L: []string{s0}}, {Op: "pred", From: 1, H: forkH}, {Op: "pred", From: 0, H: forkH}}}},
			{"w-hist-node", histD{Body: txD{Kind: "coins", To: r1}, Steps: []hstepD{
				{Op: "load", L: []string{s1}}, {Op: "pool", From: unfundedIx, H: forkH}, {Op: "pool", From: 1, H: forkH},
				{Op: "prod", From: 1, H: forkH}, {Op: "exec", From: 1, H: forkH}}}},
			{"w-hist-group", histD{Body: txD{Kind: "coins", To: r1}, Grp: true, Head: 1, Steps: []hstepD{
				{Op: "load", L: []string{s0}}, {Op: "exec", From: 2, H: forkH}, {Op: "pred", From: 0, H: forkH}, {Op: "pool", From: 0, H: forkH},
				{Op: "delay", From: 0, H: forkH}, {Op: "dblock", From: 0, H: forkH}, {Op: "delay", From: 2, H: forkH}, {Op: "delay", From: 0, H: forkH}}}},
			{"w-hist-reload", histD{Body: txD{Kind: "coins", To: r0}, Steps: []hstepD{
				{Op: "load", L: []string{r1}}, {Op: "pool", From: 0, H: forkH}, {Op: "load", L: []string{r1, r0}}, {Op: "pool", From: 0, H: forkH},
				{Op: "load", L: []string{s0}}, {Op: "delay", From: 0, H: forkH}, {Op: "load", L: nil}, {Op: "dblock", From: 0, H: forkH}}}},
		}
		for _, w := range hw {
			n.runHist(out, w.k, w.h)
		}
	}
	for i := 0; i < nName; i++ {
		runName(rng.Fork(), out)
	}
	for i := 0; i < nParse; i++ {
		runParse(n.genParse(rng.Fork()), out)
	}
	shapes := []string{"single", "single", "group", "proxy"}
	for i := 0; i < nScen; i++ {
		sh := shapes[i%len(shapes)]
		s := n.genScen(rng.Fork(), sh)
		n.runScen(out, "scen-"+sh, s)
	}
	var pins []paraIn
	for i := 0; i < nPara; i++ {
		pins = append(pins, n.genPara(rng.Fork()))
	}
	n.paraPhase(out, pins)
	for k := 0; k < nPairRounds; k++ {
		for _, p1 := range histPoints {
			for _, p2 := range histPoints {
				n.runHist(out, "hist-pair", n.genHistPair(rng.Fork(), p1, p2, false))
			}
		}
	}
	for i := 0; i < nPairRev; i++ {
		r := rng.Fork()
		n.runHist(out, "hist-pair-rev", n.genHistPair(r, hlib.Pick(r, histPoints), hlib.Pick(r, histPoints), true))
	}
	for i := 0; i < nHistRand; i++ {
		n.runHist(out, "hist-rand", n.genHistRand(rng.Fork()))
	}
	for i := 0; i < nHistReload; i++ {
		n.runHist(out, "hist-reload", n.genHistReload(rng.Fork()))
	}
	fmt.Printf("hC31: %d cases\n", out.Count())
	out.Close()
	os.Exit(0)
}
