// hC21: drives the real mempool bookkeeping (system/mempool Mempool + SimpleQueue,
// no running node) through generated event histories and records, after every
// event, everything the API lets one observe.
//
// Hook files used: /repo/system/mempool/access_verif.go and (delay.go) access21b_verif.go (build tag verif).
package main

import (
	"bytes"
	"crypto/sha256"
	"encoding/binary"
	"fmt"
	"os"
	"sort"
	"strings"
	"sync"
	"time"

	log "github.com/33cn/chain33/common/log/log15"
	"github.com/33cn/chain33/queue"
	"github.com/33cn/chain33/system/mempool"
	"github.com/33cn/chain33/types"
	"verifharness/hlib"
)

const unknownID = 999999

var (
	cfg     *types.Chain33Config
	qclient queue.Client
	senders [][]byte // fake public keys
	addrs   []string
	collide [][2]*types.Transaction // pairs of transactions whose hashes share the first 5 bytes
)

// ---------------------------------------------------------------- transactions

type txInfo struct {
	Tx      *types.Transaction   // pool-level transaction (group: Transactions.Tx())
	Members []*types.Transaction // block-level transactions (1 for a plain tx)
	Sender  int
}

func sig(s int) *types.Signature {
	return &types.Signature{Ty: types.SECP256K1, Pubkey: senders[s]}
}

func plainTx(payload uint64, fee, expire int64) *types.Transaction {
	p := make([]byte, 8)
	binary.LittleEndian.PutUint64(p, payload)
	return &types.Transaction{Execer: []byte("none"), Payload: p, Fee: fee, Expire: expire,
		Nonce: 7, To: addrs[0], ChainID: cfg.GetChainID()}
}

// findCollisions: brute-force birthday search over the 8-byte payload of a fixed
// transaction template for pairs whose sha256 hashes agree on the first 5 bytes.
func findCollisions(n int) [][2]*types.Transaction {
	marker := uint64(0x1122334455667788)
	tmpl := plainTx(marker, 1000, 0)
	enc := types.Encode(tmpl)
	mb := make([]byte, 8)
	binary.LittleEndian.PutUint64(mb, marker)
	idx := bytes.Index(enc, mb)
	if idx < 0 || bytes.LastIndex(enc, mb) != idx {
		panic("payload offset not found")
	}
	keys := make([]uint64, n)
	var wg sync.WaitGroup
	workers := 4
	for w := 0; w < workers; w++ {
		wg.Add(1)
		go func(w int) {
			defer wg.Done()
			buf := append([]byte(nil), enc...)
			for i := w; i < n; i += workers {
				binary.LittleEndian.PutUint64(buf[idx:], uint64(i))
				s := sha256.Sum256(buf)
				k := uint64(s[0])<<32 | uint64(s[1])<<24 | uint64(s[2])<<16 | uint64(s[3])<<8 | uint64(s[4])
				keys[i] = k<<22 | uint64(i)
			}
		}(w)
	}
	wg.Wait()
	sort.Slice(keys, func(a, b int) bool { return keys[a] < keys[b] })
	var out [][2]*types.Transaction
	for i := 1; i < n; i++ {
		if keys[i]>>22 == keys[i-1]>>22 {
			a := plainTx(keys[i-1]&(1<<22-1), 1000, 0)
			b := plainTx(keys[i]&(1<<22-1), 1000, 0)
			ha, hb := a.Hash(), b.Hash()
			if bytes.Equal(ha, hb) || types.CalcTxShortHash(ha) != types.CalcTxShortHash(hb) {
				panic("collision search disagrees with Transaction.Hash")
			}
			out = append(out, [2]*types.Transaction{a, b})
		}
	}
	return out
}

// ---------------------------------------------------------------- history description (replayable)

type evSpec struct {
	Op     string `json:"op"` // push remove expire addblock delblock
	Dt     int64  `json:"dt"` // seconds the virtual clock advances before the event
	Txs    []int  `json:"txs,omitempty"`
	Height int64  `json:"height,omitempty"`
	BtOff  int64  `json:"btoff,omitempty"` // block time = virtual now + BtOff
	// delay streams (delay.go): CommitDelayTx actions of an added block; EndDelayTime of an
	// "adddelay" event (>= 2e9: seconds relative to T0, as for Expire)
	Commits []commitSpec `json:"commits,omitempty"`
	End     int64        `json:"end,omitempty"`
}

type txSpec struct {
	Kind    string  `json:"kind"` // plain group collideA collideB
	Sender  int     `json:"sender"`
	Fee     int64   `json:"fee"`
	Expire  []int64 `json:"expire"` // per member: 0, height (<1e9) or seconds relative to T0 (encoded as 2e9+off)
	Payload uint64  `json:"payload"`
	Pair    int     `json:"pair,omitempty"`
}

type histSpec struct {
	Stream   string   `json:"stream"`
	Seed     uint64   `json:"seed"`
	Index    int      `json:"index"`
	QCap     int64    `json:"qcap"`
	PerAcc   int64    `json:"peracc"`
	LastMax  int64    `json:"lastmax"`
	ShMax    int64    `json:"shmax"`
	Interval int64    `json:"interval"`
	Txs      []txSpec `json:"txs"`
	Events   []evSpec `json:"events"`
	Workers  int      `json:"workers,omitempty"`
	Delay    bool     `json:"delay,omitempty"` // run with runDHist (pool + delayed-transaction cache)
}

const relTime = int64(2000000000)

func genHist(stream string, seed uint64, index int, thorough bool) histSpec {
	r := hlib.NewRng(seed*1000003 + uint64(index)*7919 + uint64(len(stream)))
	h := histSpec{Stream: stream, Seed: seed, Index: index}
	h.QCap = int64(r.Range(1, 6))
	h.PerAcc = int64(r.Range(1, 4))
	h.LastMax = int64(r.Range(1, 4))
	h.ShMax = h.QCap
	if r.Chance(1, 4) {
		h.ShMax += int64(r.Range(1, 3))
	}
	h.Interval = int64(r.Range(30, 150))
	ntx := r.Range(4, 10)
	for i := 0; i < ntx; i++ {
		t := txSpec{Kind: "plain", Sender: r.Intn(3), Fee: int64(r.Range(0, 9)) * 1000, Payload: uint64(index)*100000 + uint64(i)*16 + r.U64()%16}
		nm := 1
		if r.Chance(1, 5) {
			t.Kind = "group"
			nm = r.Range(2, 3)
		}
		for m := 0; m < nm; m++ {
			var e int64
			switch r.Intn(6) {
			case 0, 1, 2:
				e = 0
			case 3:
				e = int64(r.Range(1, 14))
			default:
				e = relTime + int64(r.Range(20, 520))
			}
			t.Expire = append(t.Expire, e)
		}
		h.Txs = append(h.Txs, t)
	}
	if stream == "collide" && len(collide) > 0 {
		np := r.Range(1, 2)
		for p := 0; p < np; p++ {
			pair := r.Intn(len(collide))
			dup := false
			for _, t := range h.Txs {
				if t.Kind == "collideA" && t.Pair == pair {
					dup = true
				}
			}
			if dup {
				continue
			}
			h.Txs = append(h.Txs, txSpec{Kind: "collideA", Sender: r.Intn(3), Fee: 1000, Expire: []int64{0}, Pair: pair})
			h.Txs = append(h.Txs, txSpec{Kind: "collideB", Sender: r.Intn(3), Fee: 1000, Expire: []int64{0}, Pair: pair})
		}
	}
	nev := r.Range(3, 40)
	if index < 20 {
		nev = r.Range(1, 8)
	}
	if thorough {
		nev = r.Range(3, 80)
	}
	height := int64(0)
	var clock int64
	pickTxs := func(lo, hi int) []int {
		k := r.Range(lo, hi)
		var out []int
		for i := 0; i < k; i++ {
			out = append(out, r.Intn(len(h.Txs)))
		}
		return out
	}
	for i := 0; i < nev; i++ {
		var e evSpec
		if r.Chance(1, 3) {
			e.Dt = int64(r.Range(0, 25))
		}
		if clock+e.Dt > 540 {
			e.Dt = 0
		}
		clock += e.Dt
		x := r.Intn(100)
		switch {
		case x < 50:
			e.Op = "push"
			// favour the colliding transactions in the collide stream
			if stream == "collide" && r.Chance(1, 3) {
				var c []int
				for j, t := range h.Txs {
					if strings.HasPrefix(t.Kind, "collide") {
						c = append(c, j)
					}
				}
				if len(c) > 0 {
					e.Txs = []int{hlib.Pick(r, c)}
				}
			}
			if e.Txs == nil {
				e.Txs = pickTxs(1, 1)
			}
		case x < 64:
			e.Op = "remove"
			e.Txs = pickTxs(1, 3)
		case x < 72:
			e.Op = "expire"
		case x < 88:
			e.Op = "addblock"
			e.Txs = pickTxs(0, 3)
			switch r.Intn(6) {
			case 0:
				e.Height = height // not higher: header unchanged
			case 1:
				e.Height = height + int64(r.Range(2, 4))
			default:
				e.Height = height + 1
			}
			if e.Height > height {
				height = e.Height
			}
			e.BtOff = int64(r.Range(-40, 40))
		default:
			e.Op = "delblock"
			e.Txs = pickTxs(1, 3)
			if height > 0 {
				height--
			}
			e.Height = height
			e.BtOff = int64(r.Range(-40, 40))
		}
		h.Events = append(h.Events, e)
	}
	return h
}

// ---------------------------------------------------------------- execution

type run struct {
	spec    histSpec
	t0      int64
	mem     *mempool.Mempool
	txs     []txInfo
	hashes  [][]byte       // id-1 -> hash
	idOf    map[string]int // hash -> id (1-based)
	shortID map[string]int
}

func (ru *run) idOfHash(h []byte) int {
	if id, ok := ru.idOf[string(h)]; ok {
		return id
	}
	return unknownID
}

func (ru *run) addHash(h []byte) int {
	if id, ok := ru.idOf[string(h)]; ok {
		return id
	}
	ru.hashes = append(ru.hashes, h)
	ru.idOf[string(h)] = len(ru.hashes)
	s := types.CalcTxShortHash(h)
	if _, ok := ru.shortID[s]; !ok {
		ru.shortID[s] = len(ru.shortID) + 1
	}
	return len(ru.hashes)
}

func setNow(v int64) {
	types.SetTimeDelta(v*int64(time.Second) + int64(time.Second)/2 - time.Now().UnixNano())
}

func checkNow(v int64) {
	if types.Now().Unix() != v {
		fmt.Println("virtual clock slipped")
		os.Exit(3)
	}
}

func (ru *run) absExpire(e int64) int64 {
	if e >= relTime {
		return ru.t0 + (e - relTime)
	}
	return e
}

func newRun(spec histSpec) *run {
	ru := &run{spec: spec, idOf: map[string]int{}, shortID: map[string]int{}}
	ru.t0 = time.Now().Unix() - 280
	mcfg := &types.Mempool{PoolCacheSize: spec.ShMax, MaxTxNumPerAccount: spec.PerAcc, MaxTxLast: spec.LastMax, MinTxFeeRate: 0}
	ru.mem = mempool.NewMempool(mcfg)
	ru.mem.SetQueueCache(mempool.NewSimpleQueue(mempool.SubConfig{PoolCacheSize: spec.QCap}))
	if err := ru.mem.VerifSetClient(qclient); err != nil {
		panic(err)
	}
	mempool.VerifSetExpiredInterval(spec.Interval)
	for _, ts := range spec.Txs {
		var ti txInfo
		ti.Sender = ts.Sender
		switch ts.Kind {
		case "plain":
			tx := plainTx(ts.Payload, ts.Fee, ru.absExpire(ts.Expire[0]))
			tx.Signature = sig(ts.Sender)
			ti.Tx, ti.Members = tx, []*types.Transaction{tx}
		case "collideA", "collideB":
			k := 0
			if ts.Kind == "collideB" {
				k = 1
			}
			tx := types.CloneTx(collide[ts.Pair][k])
			tx.Signature = sig(ts.Sender)
			ti.Tx, ti.Members = tx, []*types.Transaction{tx}
		case "group":
			var ms []*types.Transaction
			for m, e := range ts.Expire {
				t := plainTx(ts.Payload*8+uint64(m)+1<<40, ts.Fee, ru.absExpire(e))
				ms = append(ms, t)
			}
			g, err := types.CreateTxGroup(ms, 0)
			if err != nil {
				panic(err)
			}
			for m := range g.Txs {
				// members may be signed by different accounts; the pool sees the first
				g.Txs[m].Signature = sig((ts.Sender + m) % len(senders))
			}
			ti.Tx, ti.Members = g.Tx(), g.Txs
		}
		ru.txs = append(ru.txs, ti)
	}
	for _, ti := range ru.txs {
		ru.addHash(ti.Tx.Hash())
	}
	for _, ti := range ru.txs {
		for _, m := range ti.Members {
			ru.addHash(m.Hash())
		}
	}
	return ru
}

func (ru *run) close() {
	ru.mem.VerifSetClientNil()
	ru.mem.Close()
}

type obsT struct {
	Err     int     `json:"err"`
	Walk    []int   `json:"walk"`
	Count   []int64 `json:"count"`
	AccTx   [][]int `json:"acctx"`
	Last    []int   `json:"last"`
	Short   []int   `json:"short"` // 0 = not found
	Present []bool  `json:"present"`
	Fee     int64   `json:"fee"`
	Bytes   int64   `json:"bytes"`
	Size    int64   `json:"size"`
}

func (ru *run) observe(err int) obsT {
	o := obsT{Err: err, Walk: []int{}, Last: []int{}}
	ru.mem.VerifWalk(func(tx *types.Transaction, enter int64) { o.Walk = append(o.Walk, ru.idOfHash(tx.Hash())) })
	for _, a := range addrs {
		o.Count = append(o.Count, ru.mem.TxNumOfAccount(a))
		d := ru.mem.GetAccTxs(&types.ReqAddrs{Addrs: []string{a}})
		l := []int{}
		for _, t := range d.Txs {
			if t.Fromaddr != a {
				l = append(l, unknownID)
			} else {
				l = append(l, ru.idOfHash(t.Tx.Hash()))
			}
		}
		o.AccTx = append(o.AccTx, l)
	}
	for _, t := range ru.mem.GetLatestTx() {
		o.Last = append(o.Last, ru.idOfHash(t.Hash()))
	}
	for _, h := range ru.hashes {
		rs := ru.mem.VerifTxListByHash(&types.ReqTxHashList{Hashes: []string{types.CalcTxShortHash(h)}, IsShortHash: true})
		if len(rs.Txs) != 1 || rs.Txs[0] == nil {
			o.Short = append(o.Short, 0)
		} else {
			o.Short = append(o.Short, ru.idOfHash(rs.Txs[0].Hash()))
		}
		rf := ru.mem.VerifTxListByHash(&types.ReqTxHashList{Hashes: []string{string(h)}})
		p := len(rf.Txs) == 1 && rf.Txs[0] != nil && bytes.Equal(rf.Txs[0].Hash(), h)
		if p != ru.mem.VerifExist(h) {
			p = !p // make the disagreement visible: Exist and GetItem differ
			o.Walk = append(o.Walk, unknownID)
		}
		o.Present = append(o.Present, p)
	}
	o.Fee = ru.mem.VerifTotalFee()
	o.Bytes = ru.mem.GetTotalCacheBytes()
	o.Size = int64(ru.mem.Size())
	return o
}

func errClass(err error) int {
	switch err {
	case nil:
		return 0
	case types.ErrManyTx:
		return 1
	case types.ErrTxExist:
		return 2
	case types.ErrMemFull:
		return 3
	}
	return 9
}

// ---- Coq rendering

// hexS renders a list of small numbers as a Coq string of hex bytes (decoded by
// Lib.Harness.hx on the Coq side); anything >= 255 (unknown hash) becomes ff.
func hexS(xs []int) string {
	b := make([]byte, len(xs))
	for i, x := range xs {
		if x < 0 || x >= 255 {
			x = 255
		}
		b[i] = byte(x)
	}
	return `"` + hlib.HexS(b) + `"`
}

func zlit(v int64) string {
	if v < 0 {
		return fmt.Sprintf("(%d)", v)
	}
	return fmt.Sprintf("%d", v)
}

func (ru *run) coqTx(ti txInfo) string {
	var ex []string
	for _, m := range ti.Members {
		ex = append(ex, zlit(m.Expire))
	}
	return hlib.App("mkTx", hlib.N(uint64(ru.idOfHash(ti.Tx.Hash()))), hlib.N(uint64(ti.Sender)),
		zlit(ti.Tx.Fee), zlit(int64(types.Size(ti.Tx))), hlib.List(ex))
}

func coqObs(o obsT) string {
	var cnt, pr []int
	var acc []string
	for _, c := range o.Count {
		cnt = append(cnt, int(c))
	}
	for _, a := range o.AccTx {
		acc = append(acc, hexS(a))
	}
	for _, p := range o.Present {
		if p {
			pr = append(pr, 1)
		} else {
			pr = append(pr, 0)
		}
	}
	return hlib.App("ob", hlib.N(uint64(o.Err)), hexS(o.Walk), hexS(cnt), hlib.List(acc), hexS(o.Last),
		hexS(o.Short), hexS(pr), zlit(o.Fee), zlit(o.Bytes), zlit(o.Size))
}

func (ru *run) coqHeader() []string {
	s := ru.spec
	c := hlib.App("mkCfg", zlit(s.QCap), zlit(s.PerAcc), zlit(s.LastMax), zlit(s.ShMax), zlit(s.Interval))
	var tab []int
	var txs []string
	if len(ru.hashes) >= 250 || len(addrs) != 3 {
		panic("too many hashes for the wire format")
	}
	for _, h := range ru.hashes {
		tab = append(tab, ru.shortID[types.CalcTxShortHash(h)])
	}
	seen := map[int]bool{}
	for _, ti := range ru.txs {
		id := ru.idOfHash(ti.Tx.Hash())
		if seen[id] {
			continue
		}
		seen[id] = true
		txs = append(txs, ru.coqTx(ti))
	}
	return []string{c, hexS(tab), hlib.List(txs)}
}

func (ru *run) blockOf(ids []int) *types.Block {
	b := &types.Block{}
	for _, i := range ids {
		b.Txs = append(b.Txs, ru.txs[i].Members...)
	}
	return b
}

// applies one event to the real mempool; returns the Gallina event and the error class
func (ru *run) apply(e evSpec, now int64) (string, int) {
	setNow(now)
	defer checkNow(now)
	switch e.Op {
	case "push":
		ti := ru.txs[e.Txs[0]]
		err := ru.mem.PushTx(ti.Tx)
		return hlib.App("XPush", zlit(now), hlib.N(uint64(ru.idOfHash(ti.Tx.Hash())))), errClass(err)
	case "remove":
		var hl types.TxHashList
		var ids []int
		for _, i := range e.Txs {
			h := ru.txs[i].Tx.Hash()
			hl.Hashes = append(hl.Hashes, h)
			ids = append(ids, ru.idOfHash(h))
		}
		err := ru.mem.RemoveTxs(&hl)
		return hlib.App("XRemove", hexS(ids)), errClass(err)
	case "expire":
		ru.mem.VerifRemoveExpired()
		return hlib.App("XExpire", zlit(now)), 0
	case "addblock":
		b := ru.blockOf(e.Txs)
		b.Height, b.BlockTime = e.Height, now+e.BtOff
		var ids []int
		for _, t := range b.Txs {
			ids = append(ids, ru.idOfHash(t.Hash()))
		}
		ru.mem.VerifEventAddBlock(b)
		return hlib.App("XAddBlock", zlit(now), zlit(b.Height), zlit(b.BlockTime), hexS(ids)), 0
	case "delblock":
		b := ru.blockOf(e.Txs)
		b.Height = e.Height + 1
		tip := &types.Header{Height: e.Height, BlockTime: now + e.BtOff}
		var ts []int
		for _, i := range e.Txs {
			ts = append(ts, ru.idOfHash(ru.txs[i].Tx.Hash()))
		}
		ru.mem.VerifDelBlock(tip, b)
		return hlib.App("XDelBlock", zlit(now), zlit(tip.Height), zlit(tip.BlockTime), hexS(ts)), 0
	}
	panic("unknown op " + e.Op)
}

func runHist(o *hlib.Out, spec histSpec) {
	ru := newRun(spec)
	defer ru.close()
	now := ru.t0
	var steps []string
	var impl []obsT
	nontrivial := false
	for _, e := range spec.Events {
		now += e.Dt
		ev, ec := ru.apply(e, now)
		ob := ru.observe(ec)
		if len(ob.Walk) > 0 {
			nontrivial = true
		}
		steps = append(steps, hlib.Pair(ev, coqObs(ob)))
		impl = append(impl, ob)
	}
	hd := ru.coqHeader()
	o.Emit(spec.Stream, nontrivial, hlib.App("XHist", append(hd, hlib.List(steps))...), spec, impl)
}

// concurrent smoke run (a test, not part of the proof): 8 clients hammer one pool
func runConcurrent(o *hlib.Out, spec histSpec) {
	ru := newRun(spec)
	defer ru.close()
	now := ru.t0 + 100
	setNow(now)
	var wg sync.WaitGroup
	for w := 0; w < spec.Workers; w++ {
		wg.Add(1)
		go func(w int) {
			defer wg.Done()
			r := hlib.NewRng(spec.Seed*31 + uint64(spec.Index)*977 + uint64(w))
			height := int64(0)
			for i := 0; i < 150; i++ {
				k := r.Intn(len(ru.txs))
				switch x := r.Intn(100); {
				case x < 55:
					_ = ru.mem.PushTx(ru.txs[k].Tx)
				case x < 70:
					_ = ru.mem.RemoveTxs(&types.TxHashList{Hashes: [][]byte{ru.txs[k].Tx.Hash()}})
				case x < 78:
					ru.mem.VerifRemoveExpired()
				case x < 90:
					height++
					b := ru.blockOf([]int{k})
					b.Height, b.BlockTime = height, now
					ru.mem.RemoveTxsOfBlock(b)
				default:
					_ = ru.mem.GetLatestTx()
					_ = ru.mem.TxNumOfAccount(addrs[r.Intn(len(addrs))])
					_ = ru.mem.Size()
				}
			}
		}(w)
	}
	wg.Wait()
	ob := ru.observe(0)
	hd := ru.coqHeader()
	o.Emit("concurrent-smoke", len(ob.Walk) > 0, hlib.App("XFinal", append(hd, coqObs(ob))...), spec, ob)
}

func main() {
	opts := hlib.ParseFlags()
	log.Root().SetHandler(log.DiscardHandler())
	cfg = types.NewChain33Config(types.GetDefaultCfgstring())
	q := queue.New("channel")
	q.SetConfig(cfg)
	qclient = q.Client()
	for i := 0; i < 3; i++ {
		pk := make([]byte, 33)
		pk[0] = 2
		for j := 1; j < 33; j++ {
			pk[j] = byte(17*i + j)
		}
		senders = append(senders, pk)
		addrs = append(addrs, (&types.Transaction{Signature: &types.Signature{Ty: types.SECP256K1, Pubkey: pk}}).From())
	}
	o := hlib.NewOut(opts.OutDir)
	defer o.Close()

	if opts.Replay != "" {
		var in histSpec
		if err := hlib.ReplayInput(opts.Replay, &in); err != nil {
			panic(err)
		}
		for _, t := range in.Txs {
			if strings.HasPrefix(t.Kind, "collide") && collide == nil {
				collide = findCollisions(3000000)
			}
		}
		if in.Stream == "concurrent-smoke" {
			runConcurrent(o, in)
		} else if in.Delay {
			runDHist(o, in)
		} else {
			runHist(o, in)
		}
		return
	}

	t0 := time.Now()
	collide = findCollisions(3000000)
	fmt.Printf("short-hash collisions found: %d pairs in %.1fs\n", len(collide), time.Since(t0).Seconds())
	if len(collide) == 0 {
		fmt.Println("no 40-bit collision found")
		os.Exit(2)
	}
	nGuard, nColl, nConc := 220, 80, 20
	if opts.Thorough() {
		nGuard, nColl, nConc = 7000, 3000, 500
	}
	pairTxs := []txSpec{{Kind: "collideA", Sender: 0, Fee: 1000, Expire: []int64{0}, Pair: 0}, {Kind: "collideB", Sender: 1, Fee: 1000, Expire: []int64{0}, Pair: 0}}
	witness := func(stream string, evs ...evSpec) {
		runHist(o, histSpec{Stream: stream, Seed: opts.Seed, QCap: 4, PerAcc: 4, LastMax: 4, ShMax: 4, Interval: 600, Txs: pairTxs, Events: evs})
	}
	pushA, pushB := evSpec{Op: "push", Txs: []int{0}}, evSpec{Op: "push", Txs: []int{1}}
	// the witness of C21_refuted_shash on the real code: push A, push B (same short hash), remove A
	witness("collide-witness", pushA, pushB, evSpec{Op: "remove", Txs: []int{0}})
	// the earlier witness (repaired by chain33 a576c70, C21_owner_kept_under_collision): push A, push B, remove B;
	// variants removing B through a block / removing and re-adding: no spec failure may occur in these
	witness("collide-repaired", pushA, pushB, evSpec{Op: "remove", Txs: []int{1}})
	witness("collide-repaired", pushA, pushB, evSpec{Op: "addblock", Txs: []int{1}, Height: 1})
	witness("collide-repaired", pushB, pushA, evSpec{Op: "remove", Txs: []int{0}}, pushA, evSpec{Op: "remove", Txs: []int{0, 0}})
	witness("collide-repaired", pushA, pushB, evSpec{Op: "remove", Txs: []int{1, 0}}, pushB, pushA, evSpec{Op: "addblock", Txs: []int{0}, Height: 1})
	for i := 0; i < nGuard; i++ {
		runHist(o, genHist("guarded", opts.Seed, i, opts.Thorough()))
	}
	for i := 0; i < nColl; i++ {
		runHist(o, genHist("collide", opts.Seed, i, opts.Thorough()))
	}
	delayStreams(o, opts.Seed, opts.Thorough())
	types.SetTimeDelta(0)
	for i := 0; i < nConc; i++ {
		s := genHist("guarded", opts.Seed, 100000+i, false)
		s.Stream = "concurrent-smoke"
		s.Events = nil
		s.Workers = 8
		runConcurrent(o, s)
	}
	fmt.Printf("cases: %d\n", o.Count())
}
