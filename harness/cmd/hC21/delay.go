// Delay streams of hC21: the real Mempool with its delayed-transaction cache
// (system/mempool/cache.go delayTxCache, eventprocess.go eventAddDelayTx and the
// tail of eventAddBlock) next to the pool bookkeeping.
//
// Hook file used in addition: /repo/system/mempool/access21b_verif.go.
package main

import (
	"fmt"
	"time"

	"github.com/33cn/chain33/common"
	nty "github.com/33cn/chain33/system/dapp/none/types"
	"github.com/33cn/chain33/types"
	"verifharness/hlib"
)

type commitSpec struct {
	Tx        int   `json:"tx"`
	RelTime   int64 `json:"reltime"`
	RelHeight int64 `json:"relheight"`
}

// genDHist: a pool history over plain transactions with delay events mixed in.
// mode "tiny": delay capacity 0..2 (overflow), "std": capacity 2..5
func genDHist(stream, mode string, seed uint64, index int, thorough bool) histSpec {
	h := genHist("guarded", seed^0xde1a, 700000+index, thorough)
	r := hlib.NewRng(seed*4241 + uint64(index)*389 + uint64(len(mode)))
	h.Stream, h.Index, h.Delay = stream, index, true
	for i := range h.Txs {
		h.Txs[i].Kind = "plain"
		h.Txs[i].Expire = h.Txs[i].Expire[:1]
	}
	dsize := int64(r.Range(2, 5))
	if mode == "tiny" {
		dsize = int64(r.Range(0, 2))
	}
	h.ShMax = 2*dsize + int64(r.Intn(2))
	if h.ShMax < h.QCap {
		h.QCap = h.ShMax
	}
	if h.QCap < 1 {
		h.QCap, h.ShMax = 1, 1
	}
	// the block times of the history (relative to T0): ends are aimed at them to hit the window bounds
	var btimes []int64
	{
		clk := int64(0)
		for _, e := range h.Events {
			clk += e.Dt
			if e.Op == "addblock" || e.Op == "delblock" {
				btimes = append(btimes, clk+e.BtOff)
			}
		}
	}
	height, clock := int64(0), int64(0)
	var evs []evSpec
	for _, e := range h.Events {
		clock += e.Dt
		switch e.Op {
		case "addblock":
			if e.Height > height {
				height = e.Height
			}
			nc := 0
			if r.Chance(1, 2) {
				nc = r.Range(1, 3)
			}
			for k := 0; k < nc; k++ {
				cm := commitSpec{Tx: r.Intn(len(h.Txs))}
				switch r.Intn(6) {
				case 0:
					cm.RelTime = int64(r.Range(1, 60))
				case 1:
					cm.RelTime = int64(r.Range(1, 60))
					if d := hlib.Pick(r, btimes) - (clock + e.BtOff) + int64(r.Range(-1, 1)); d > 0 {
						cm.RelTime = d // ends at (or next to) the time of another block
					}
				case 2:
					cm.RelTime, cm.RelHeight = int64(-r.Range(0, 2)), int64(r.Range(0, 3))
				case 3:
					cm.RelHeight = -1 // ends below the block's height
				default:
					cm.RelHeight = int64(r.Range(0, 3))
				}
				e.Commits = append(e.Commits, cm)
			}
		case "delblock":
			if height > 0 {
				height--
			}
		case "remove", "expire":
			if r.Chance(2, 3) {
				e = evSpec{Op: "adddelay", Dt: e.Dt, Txs: []int{r.Intn(len(h.Txs))}}
				switch r.Intn(8) {
				case 0:
					e.Txs = []int{-1} // DelayTx without a transaction
					e.End = 5
				case 1:
					e.End = relTime + clock + int64(r.Range(-30, 120))
				case 2, 3:
					e.End = relTime + clock + int64(r.Range(-30, 120))
					if len(btimes) > 0 {
						e.End = relTime + hlib.Pick(r, btimes) + int64(r.Range(-1, 1))
					}
				default:
					e.End = height + int64(r.Range(-1, 4))
				}
			}
		}
		evs = append(evs, e)
	}
	h.Events = evs
	return h
}

// ---------------------------------------------------------------- execution

type dobsT struct {
	Err int     `json:"err"`
	Rel []int   `json:"rel"`
	Tab []int64 `json:"tab"` // contains: EndDelayTime (meaningful where Has)
	Has []bool  `json:"has"`
	Len int     `json:"len"`
}

func delayErrClass(rep *types.Reply) int {
	if rep.GetIsOk() {
		return 0
	}
	switch string(rep.GetMsg()) {
	case types.ErrNilTransaction.Error():
		return 1
	case types.ErrCacheOverFlow.Error():
		return 2
	case types.ErrDupTx.Error():
		return 3
	case types.ErrInvalidParam.Error():
		return 4
	}
	return 9
}

func (ru *run) commitTx(cm commitSpec) *types.Transaction {
	inner := ru.txs[cm.Tx].Tx
	act := &nty.NoneAction{Ty: nty.TyCommitDelayTxAction, Value: &nty.NoneAction_CommitDelayTx{
		CommitDelayTx: &nty.CommitDelayTx{DelayTx: common.ToHex(types.Encode(inner)),
			RelativeDelayTime: cm.RelTime, RelativeDelayHeight: cm.RelHeight}}}
	return &types.Transaction{Execer: []byte(nty.NoneX), Payload: types.Encode(act), Nonce: 99}
}

// a pool transaction must not look like a CommitDelayTx to addDelayTx(block)
func notACommit(tx *types.Transaction) {
	act := &nty.NoneAction{}
	if err := types.Decode(tx.Payload, act); err == nil && act.Ty == nty.TyCommitDelayTxAction {
		panic("a generated payload decodes as CommitDelayTx")
	}
}

// applyD: one event on the real mempool: Gallina event, pool error class, delay error class, released ids
func (ru *run) applyD(e evSpec, now int64) (ev string, pec, dec int, rel []int) {
	rel = []int{}
	defer func() {
		if x := recover(); x != nil {
			fmt.Println("implementation panicked:", x)
			dec, pec = 8, 8
			if ev == "" {
				ev = hlib.App("XDAdd", "None", zlit(0))
			}
		}
	}()
	switch e.Op {
	case "adddelay":
		setNow(now)
		defer checkNow(now)
		end := ru.absExpire(e.End)
		dt := &types.DelayTx{EndDelayTime: end}
		txTerm := "None"
		if e.Txs[0] >= 0 {
			dt.Tx = ru.txs[e.Txs[0]].Tx
			txTerm = "(Some " + hlib.N(uint64(ru.idOfHash(dt.Tx.Hash()))) + ")"
		}
		ev = hlib.App("XDAdd", txTerm, zlit(end))
		msg := qclient.NewMessage("mempool", types.EventAddDelayTx, dt)
		ru.mem.VerifEventAddDelayTx(msg)
		rep, err := qclient.WaitTimeout(msg, 5*time.Second)
		if err != nil {
			return ev, 0, 9, rel
		}
		return ev, 0, delayErrClass(rep.GetData().(*types.Reply)), rel
	case "addblock":
		setNow(now)
		defer checkNow(now)
		b := ru.blockOf(e.Txs)
		for _, t := range b.Txs {
			notACommit(t)
		}
		b.Height, b.BlockTime = e.Height, now+e.BtOff
		var cms []string
		for _, cm := range e.Commits {
			b.Txs = append(b.Txs, ru.commitTx(cm))
			cms = append(cms, hlib.App("mkCommit", hlib.N(uint64(ru.idOfHash(ru.txs[cm.Tx].Tx.Hash()))), zlit(cm.RelTime), zlit(cm.RelHeight)))
		}
		var ids []int
		for _, t := range b.Txs {
			ids = append(ids, ru.idOfHash(t.Hash()))
		}
		ru.mem.VerifEventAddBlock(b)
		for _, l := range ru.mem.VerifDrainDelayTxs() {
			for _, t := range l {
				rel = append(rel, ru.idOfHash(t.Hash()))
			}
		}
		x := hlib.App("XAddBlock", zlit(now), zlit(b.Height), zlit(b.BlockTime), hexS(ids))
		return hlib.App("XD", x, hlib.List(cms)), 0, 0, rel
	}
	x, ec := ru.apply(e, now)
	for _, l := range ru.mem.VerifDrainDelayTxs() { // nothing may appear here
		for _, t := range l {
			rel = append(rel, ru.idOfHash(t.Hash()))
		}
	}
	return hlib.App("XD", x, "[]"), ec, 0, rel
}

func (ru *run) dobserve(err int, rel []int) dobsT {
	o := dobsT{Err: err, Rel: rel, Len: ru.mem.VerifDelayLen()}
	for _, h := range ru.hashes {
		end, ok := ru.mem.VerifDelayContains(h)
		o.Tab = append(o.Tab, end)
		o.Has = append(o.Has, ok)
	}
	return o
}

func coqDobs(o dobsT) string {
	var tab []string
	for i, e := range o.Tab {
		if !o.Has[i] {
			tab = append(tab, "None")
		} else {
			tab = append(tab, "(Some "+zlit(e)+")")
		}
	}
	return hlib.App("dob", hlib.N(uint64(o.Err)), hexS(o.Rel), hlib.List(tab), zlit(int64(o.Len)))
}

type dImpl struct {
	Pool  obsT  `json:"pool"`
	Delay dobsT `json:"delay"`
}

func runDHist(o *hlib.Out, spec histSpec) {
	ru := newRun(spec)
	defer ru.close()
	now := ru.t0
	ru.mem.VerifSetHeader(&types.Header{Height: 0, BlockTime: ru.t0})
	var steps []string
	var impl []dImpl
	nontrivial := false
	for _, e := range spec.Events {
		now += e.Dt
		ev, pec, dec, rel := ru.applyD(e, now)
		ob := ru.observe(pec)
		dob := ru.dobserve(dec, rel)
		if dob.Len > 0 || len(rel) > 0 {
			nontrivial = true
		}
		steps = append(steps, "("+ev+", "+coqObs(ob)+", "+coqDobs(dob)+")")
		impl = append(impl, dImpl{ob, dob})
	}
	hd := ru.coqHeader()
	args := []string{hd[0], zlit(spec.ShMax / 2), hlib.Pair(zlit(0), zlit(ru.t0)), hd[1], hd[2], hlib.List(steps)}
	o.Emit(spec.Stream, nontrivial, hlib.App("XDHist", args...), spec, impl)
}

func delayStreams(o *hlib.Out, seed uint64, thorough bool) {
	txs := []txSpec{{Kind: "plain", Sender: 0, Fee: 1000, Expire: []int64{0}, Payload: 21},
		{Kind: "plain", Sender: 1, Fee: 2000, Expire: []int64{0}, Payload: 22},
		{Kind: "plain", Sender: 2, Fee: 3000, Expire: []int64{0}, Payload: 23}}
	w := func(shmax int64, evs ...evSpec) {
		runDHist(o, histSpec{Stream: "delay-fixed", Seed: seed, QCap: 3, PerAcc: 3, LastMax: 3, ShMax: shmax, Interval: 600,
			Txs: txs, Events: evs, Delay: true})
	}
	add := func(i int, end int64) evSpec { return evSpec{Op: "adddelay", Txs: []int{i}, End: end} }
	blk := func(h, dt, bt int64, cms ...commitSpec) evSpec {
		return evSpec{Op: "addblock", Height: h, Dt: dt, BtOff: bt, Commits: cms}
	}
	// release by height, by time, duplicates, overflow (capacity 2), nil
	w(4, add(0, 2), add(0, 3), add(1, relTime+15), add(2, 9), add(-1, 1), blk(1, 5, 0), blk(2, 5, 0), blk(3, 10, 0), add(0, 4), blk(4, 1, 0))
	// one key is in the time window and is the height: released once; both lists in one block
	w(8, add(0, relTime+10), add(1, relTime+10), add(2, 1), blk(1, 10, 0))
	// commits inside blocks: relative height 0 is due at once, relative time later
	w(8, blk(1, 5, 0, commitSpec{0, 0, 0}, commitSpec{1, 7, 0}, commitSpec{2, 0, 2}), blk(2, 5, 0), blk(3, 5, 0))
	// an end below the current height / before the last block time is accepted and never released;
	// with capacity 1 it blocks every later delayed transaction
	w(3, blk(1, 5, 0), blk(2, 5, 0), add(0, 1), blk(3, 5, 0), add(1, 5), blk(4, 5, 0), blk(5, 5, 0), blk(6, 5, 0))
	// a skipped height: the entry for height 3 is never due
	w(8, add(0, 3), blk(1, 5, 0), blk(2, 5, 0), blk(4, 5, 0), blk(5, 5, 0))
	// window bounds: an end equal to the last block time is not due any more, an end equal to the new block time is
	w(8, blk(1, 5, 0), add(0, relTime+5), add(1, relTime+10), add(2, relTime+11), blk(2, 5, 0), blk(3, 1, 0), blk(4, 1, 0))
	// the delayed transaction is pooled as well: the two structures are independent
	w(8, evSpec{Op: "push", Txs: []int{0}}, add(0, 2), blk(1, 5, 0), blk(2, 5, 0), evSpec{Op: "push", Txs: []int{0}})

	nStd, nTiny := 110, 40
	if thorough {
		nStd, nTiny = 5000, 2000
	}
	for i := 0; i < nStd; i++ {
		runDHist(o, genDHist("delay", "std", seed, i, thorough))
	}
	for i := 0; i < nTiny; i++ {
		runDHist(o, genDHist("delay-tiny", "tiny", seed, i, thorough))
	}
}
