// JoinTable part of hC10: runs histories of operations on the left and right
// table of a real table.JoinTable and of join.Save calls; records the error
// class of every call and, after every join.Save (+ util.SaveKVList), the dump
// of the whole database (as a difference to the previous dump) and a batch of
// JoinTable.ListIndex / JoinTable.GetData results.
package main

import (
	"bytes"
	"fmt"
	"os"
	"runtime/debug"
	"sort"

	dbm "github.com/33cn/chain33/common/db"
	"github.com/33cn/chain33/common/db/table"
	"github.com/33cn/chain33/types"
	"verifharness/hlib"
)

// ---------- input / replay format ----------

type jqIn struct {
	Kind   string `json:"kind"`          // list | get
	Idx    string `json:"idx,omitempty"` // "as" = addr#status, "s" = #status
	HasPre bool   `json:"haspre,omitempty"`
	Addr   string `json:"addr,omitempty"`
	St     string `json:"st,omitempty"`
	Cut    int    `json:"cut,omitempty"` // keep only the first Cut bytes of the JoinKey prefix (0 = all)
	Start  string `json:"start,omitempty"`
	Count  int32  `json:"count,omitempty"`
	Asc    bool   `json:"asc,omitempty"`
	PK     string `json:"pk,omitempty"`
}

type jopIn struct {
	Tab string `json:"tab,omitempty"` // l | r ; empty for save
	T   string `json:"t"`             // add | replace | update | del | delrow | save
	PK  string `json:"pk,omitempty"`
	Row *rowIn `json:"row,omitempty"`
	Qs  []jqIn `json:"qs,omitempty"`
}

// ---------- row metas: both tables hold types.AssetsTransfer ----------
// left : txhash = Cointoken (primary), gameID = To (foreign key), addr = Note
// right: gameID = Cointoken (primary), status = To, tag = Note

type lMeta struct{ *types.AssetsTransfer }

func (r *lMeta) CreateRow() *table.Row { return &table.Row{Data: &types.AssetsTransfer{}} }
func (r *lMeta) SetPayload(data types.Message) error {
	if d, ok := data.(*types.AssetsTransfer); ok {
		r.AssetsTransfer = d
		return nil
	}
	return types.ErrTypeAsset
}
func (r *lMeta) Get(key string) ([]byte, error) {
	switch key {
	case "txhash":
		return []byte(r.Cointoken), nil
	case "gameID":
		return []byte(r.To), nil
	case "addr":
		return r.Note, nil
	}
	return nil, types.ErrNotFound
}

type gMeta struct{ *types.AssetsTransfer }

func (r *gMeta) CreateRow() *table.Row { return &table.Row{Data: &types.AssetsTransfer{}} }
func (r *gMeta) SetPayload(data types.Message) error {
	if d, ok := data.(*types.AssetsTransfer); ok {
		r.AssetsTransfer = d
		return nil
	}
	return types.ErrTypeAsset
}
func (r *gMeta) Get(key string) ([]byte, error) {
	switch key {
	case "gameID":
		return []byte(r.Cointoken), nil
	case "status":
		return []byte(r.To), nil
	case "tag":
		return r.Note, nil
	}
	return nil, types.ErrNotFound
}

// ---------- interning of byte strings ----------

type chunkTab struct {
	idx   map[string]int
	terms []string
}

func newChunkTab() *chunkTab { return &chunkTab{idx: map[string]int{}} }

func (t *chunkTab) ref(b []byte) string {
	i, ok := t.idx[string(b)]
	if !ok {
		i = len(t.terms)
		t.idx[string(b)] = i
		t.terms = append(t.terms, hlib.Hx(b))
	}
	return hlib.N(uint64(i))
}

var joinKeyPrefixes = []string{
	"p-a-d-", "p-a-m-gameID-", "p-a-m-addr-", "p-g-d-", "p-g-m-status-", "p-g-m-tag-",
	"p-a#g-m-addr#status-", "p-a#g-m-#status-",
}

// key splits a database key into interned pieces (any split is sound: the Coq
// side concatenates the pieces).
func (t *chunkTab) key(k []byte) string {
	var parts []string
	rest := k
	for _, p := range joinKeyPrefixes {
		if bytes.HasPrefix(k, []byte(p)) {
			parts = append(parts, t.ref([]byte(p)))
			rest = k[len(p):]
			break
		}
	}
	if i := bytes.LastIndexByte(rest, '-'); i >= 0 {
		parts = append(parts, t.ref(rest[:i]), t.ref(rest[i:]))
	} else {
		parts = append(parts, t.ref(rest))
	}
	return hlib.List(parts)
}

// ---------- running one join history ----------

type dumpEntry struct {
	raw []byte // raw value, for the diff
	val string // Coq term of the value
}

func (rn *runner) dumpJoin(ct *chunkTab, rt *rowTab) (map[string]dumpEntry, int) {
	it := rn.ldb.Iterator([]byte("p"), nil, false)
	defer it.Close()
	out := map[string]dumpEntry{}
	njoin := 0
	for it.Rewind(); it.Valid(); it.Next() {
		k := append([]byte{}, it.Key()...)
		v := append([]byte{}, it.Value()...)
		var vt string
		if bytes.HasPrefix(k, []byte("p-a-d-")) || bytes.HasPrefix(k, []byte("p-g-d-")) {
			primary, data, err := table.DecodeRow(v)
			var m types.AssetsTransfer
			if err != nil {
				vt = hlib.App("YP", ct.ref([]byte("!decode-row")))
			} else if err := types.Decode(data, &m); err != nil {
				vt = hlib.App("YP", ct.ref([]byte("!decode-msg")))
			} else {
				vt = hlib.App("YRow", ct.ref(primary), rt.msg(&m))
			}
		} else {
			vt = hlib.App("YP", ct.ref(v))
		}
		if bytes.HasPrefix(k, []byte("p-a#g-")) {
			njoin++
		}
		out[string(k)] = dumpEntry{raw: v, val: vt}
	}
	return out, njoin
}

func diffDump(ct *chunkTab, prev, cur map[string]dumpEntry) (dels, puts string) {
	var dk, pk []string
	for k := range prev {
		if _, ok := cur[k]; !ok {
			dk = append(dk, k)
		}
	}
	for k, e := range cur {
		if p, ok := prev[k]; !ok || !bytes.Equal(p.raw, e.raw) {
			pk = append(pk, k)
		}
	}
	sort.Strings(dk)
	sort.Strings(pk)
	var ds, ps []string
	for _, k := range dk {
		ds = append(ds, ct.key([]byte(k)))
	}
	for _, k := range pk {
		ps = append(ps, hlib.Pair(ct.key([]byte(k)), cur[k].val))
	}
	return hlib.List(ds), hlib.List(ps)
}

func jresTerm(ct *chunkTab, rt *rowTab, r *table.Row) (string, bool) {
	jd, ok := r.Data.(*table.JoinData)
	if !ok {
		return "", false
	}
	l, ok1 := jd.Left.(*types.AssetsTransfer)
	g, ok2 := jd.Right.(*types.AssetsTransfer)
	if !ok1 || !ok2 {
		return "", false
	}
	return "(" + ct.ref(r.Primary) + ", " + rt.msg(l) + ", " + rt.msg(g) + ")", true
}

func (q *jqIn) prefix() []byte {
	if !q.HasPre {
		return nil
	}
	var a []byte
	if q.Idx == "as" && q.Addr != "" {
		a = []byte(q.Addr)
	}
	p := table.JoinKey(a, []byte(q.St))
	if q.Cut > 0 && q.Cut < len(p) {
		p = p[:q.Cut]
	}
	return p
}

func (rn *runner) jquery(ct *chunkTab, rt *rowTab, join *table.JoinTable, q *jqIn) (term string, nrows int) {
	var rows []*table.Row
	var err error
	panicked := false
	func() {
		defer func() {
			if r := recover(); r != nil {
				panicked = true
			}
		}()
		if q.Kind == "get" {
			var row *table.Row
			row, err = join.GetData([]byte(q.PK))
			if err == nil {
				rows = []*table.Row{row}
			}
			return
		}
		dir := dbm.ListDESC
		if q.Asc {
			dir = dbm.ListASC
		}
		name := "addr#status"
		if q.Idx == "s" {
			name = "#status"
		}
		rows, err = join.ListIndex(name, q.prefix(), nilIfEmpty(q.Start), q.Count, dir)
	}()
	e := errClass(err)
	if panicked {
		e = 5
	}
	var items []string
	if err == nil && !panicked {
		for _, r := range rows {
			t, ok := jresTerm(ct, rt, r)
			if !ok {
				e = 6
				items = nil
				break
			}
			items = append(items, t)
		}
	}
	if q.Kind == "get" {
		return hlib.App("YG", ct.ref([]byte(q.PK)), hlib.N(e), hlib.List(items)), len(items)
	}
	idx := "JAddrSt"
	if q.Idx == "s" {
		idx = "JSt"
	}
	return hlib.App("YQ", idx, ct.ref(q.prefix()), ct.ref([]byte(q.Start)), hlib.Z(int64(q.Count)), hlib.Bool(q.Asc),
		hlib.N(e), hlib.List(items)), len(items)
}

func jxopTerm(ct *chunkTab, rt *rowTab, o *jopIn) string {
	var x string
	switch o.T {
	case "add":
		x = hlib.App("XAdd", rt.rowIn(o.Row))
	case "replace":
		x = hlib.App("XRep", rt.rowIn(o.Row))
	case "update":
		x = hlib.App("XUpd", ct.ref([]byte(o.PK)), rt.rowIn(o.Row))
	case "del":
		x = hlib.App("XDel", ct.ref([]byte(o.PK)))
	case "delrow":
		x = hlib.App("XDelRow", rt.rowIn(o.Row))
	default:
		return "YSave"
	}
	if o.Tab == "r" {
		return "(YR (" + x + "))"
	}
	return "(YL (" + x + "))"
}

func (rn *runner) runJoin(c *caseIn) (string, runStats, map[string]interface{}) {
	rn.wipe()
	var st runStats
	left, err := table.NewTable(&lMeta{AssetsTransfer: &types.AssetsTransfer{}}, rn.kvdb,
		&table.Option{Prefix: "p", Name: "a", Primary: "txhash", Index: []string{"gameID", "addr"}})
	if err != nil {
		panic(err)
	}
	right, err := table.NewTable(&gMeta{AssetsTransfer: &types.AssetsTransfer{}}, rn.kvdb,
		&table.Option{Prefix: "p", Name: "g", Primary: "gameID", Index: []string{"status", "tag"}})
	if err != nil {
		panic(err)
	}
	join, err := table.NewJoinTable(left, right, []string{"addr#status", "#status"})
	if err != nil {
		panic(err)
	}
	ct, rt := newChunkTab(), newRowTab()
	prev := map[string]dumpEntry{}
	var steps []string
	var errsSeen []uint64
	for i := range c.JOps {
		o := &c.JOps[i]
		tab := left
		if o.Tab == "r" {
			tab = right
		}
		var e uint64
		var obs string
		func() {
			defer func() {
				if r := recover(); r != nil {
					if os.Getenv("C10_DEBUG") != "" {
						fmt.Fprintf(os.Stderr, "panic in join op %d (%s): %v\n%s\n", i, o.T, r, debug.Stack())
					}
					e = 5
					if o.T == "save" {
						obs = hlib.App("YSv", hlib.N(5), "[]", "[]", "[]")
					}
				}
			}()
			switch o.T {
			case "add":
				e = errClass(tab.Add(mkMsg(o.Row)))
			case "replace":
				e = errClass(tab.Replace(mkMsg(o.Row)))
			case "update":
				e = errClass(tab.Update([]byte(o.PK), mkMsg(o.Row)))
			case "del":
				e = errClass(tab.Del([]byte(o.PK)))
			case "delrow":
				e = errClass(tab.DelRow(mkMsg(o.Row)))
			case "save":
				kvs, err := join.Save()
				e = errClass(err)
				if err == nil {
					rn.applyKVs(kvs)
				}
				cur, njoin := rn.dumpJoin(ct, rt)
				st.saves++
				if njoin > 0 {
					st.nonEmptySaves++
				}
				dels, puts := diffDump(ct, prev, cur)
				prev = cur
				var qts []string
				for j := range o.Qs {
					t, nr := rn.jquery(ct, rt, join, &o.Qs[j])
					st.qrows += nr
					qts = append(qts, t)
				}
				obs = hlib.App("YSv", hlib.N(e), dels, puts, hlib.List(qts))
			}
		}()
		if obs == "" {
			obs = hlib.App("YErr", hlib.N(e))
		}
		if e != 0 {
			st.errs++
		}
		errsSeen = append(errsSeen, e)
		steps = append(steps, hlib.Pair(jxopTerm(ct, rt, o), obs))
		if o.T == "save" && e != 0 {
			break // a failed join.Save leaves the caches as they are: the history ends here
		}
	}
	term := "(CJoin " + hlib.App("JCase", hlib.List(ct.terms), hlib.List(rt.terms), hlib.List(steps)) + ")"
	return term, st, map[string]interface{}{"errs": errsSeen, "saves": st.saves}
}
