// Generators of JoinTable histories for hC10 (see join.go).
package main

import (
	"sort"
	"strings"

	"verifharness/hlib"
)

type jgen struct {
	r       *hlib.Rng
	guarded bool
	lpks    []string
	rkeys   []string
	addrs   []string
	sts     []string
	tags    []string
	L, R    map[string]*rowIn // abstract tables now (only used to steer generation)
	L0, R0  map[string]*rowIn // abstract tables at the last join.Save
}

func newJGen(r *hlib.Rng, guarded bool) *jgen {
	g := &jgen{r: r, guarded: guarded}
	lp := []string{"h1", "h2", "h3", "x", "h10", "y"}
	g.lpks = lp[:r.Range(3, 6)]
	if guarded {
		rk := []string{"g1", "g2", "k", "g3"} // no key is a prefix of another
		g.rkeys = rk[:r.Range(2, 4)]
	} else {
		rk := []string{"g1", "g10", "g2", "g"} // prefix-related keys
		g.rkeys = rk[:r.Range(2, 4)]
	}
	g.addrs = []string{"a", "b", "ab", ""}
	g.sts = []string{"1", "2", "12", ""}
	g.tags = []string{"t", "u", ""}
	g.L, g.R, g.L0, g.R0 = map[string]*rowIn{}, map[string]*rowIn{}, map[string]*rowIn{}, map[string]*rowIn{}
	return g
}

func copyTab(m map[string]*rowIn) map[string]*rowIn {
	out := map[string]*rowIn{}
	for k, v := range m {
		out[k] = v
	}
	return out
}

// ---- Go mirror of JoinSpec.save_safe (steering only; check_case recomputes the guard in Coq) ----

func rightEffective(R0, R1 map[string]*rowIn, k string) bool {
	a, b := R0[k], R1[k]
	switch {
	case a == nil && b == nil:
		return false
	case a != nil && b != nil:
		return a.To != b.To
	}
	return true
}

func needsRight(o0, o1 *rowIn) (string, bool) {
	switch {
	case o0 == nil && o1 != nil:
		return o1.To, true
	case o0 != nil && o1 == nil:
		return o0.To, true
	case o0 != nil && o1 != nil && o0.Note != o1.Note:
		return o1.To, true
	}
	return "", false
}

// a pending left row whose right row exists neither pending nor stored: join.Save fails
func dangling(L0, R0, L1, R1 map[string]*rowIn) bool {
	lk := map[string]bool{}
	for p := range L0 {
		lk[p] = true
	}
	for p := range L1 {
		lk[p] = true
	}
	for p := range lk {
		if g, ok := needsRight(L0[p], L1[p]); ok && R0[g] == nil && R1[g] == nil {
			return true
		}
	}
	return false
}

func saveSafe(L0, R0, L1, R1 map[string]*rowIn) bool {
	rk := map[string]bool{}
	for k := range R0 {
		rk[k] = true
	}
	for k := range R1 {
		rk[k] = true
	}
	lk := map[string]bool{}
	for p := range L0 {
		lk[p] = true
	}
	for p := range L1 {
		lk[p] = true
	}
	for p := range lk {
		o0, o1 := L0[p], L1[p]
		if o0 != nil && o1 != nil && o0.To != o1.To {
			return false
		}
		if g, ok := needsRight(o0, o1); ok && R0[g] == nil && R1[g] == nil {
			return false
		}
		if o0 != nil && o1 == nil && R1[o0.To] != nil && rightEffective(R0, R1, o0.To) {
			return false
		}
		if o0 != nil {
			for k := range rk {
				if rightEffective(R0, R1, k) && strings.HasPrefix(o0.To, k) && k != o0.To {
					return false
				}
			}
		}
	}
	return true
}

// ---- operations ----

func deletedSaved(cur, saved map[string]*rowIn, p string) bool {
	return saved[p] != nil && cur[p] == nil
}

// applyOp mirrors the abstract map (Spec.s_step).
func applyOp(m map[string]*rowIn, o *jopIn) {
	switch o.T {
	case "add":
		if m[o.Row.PK] == nil {
			m[o.Row.PK] = o.Row
		}
	case "replace":
		m[o.Row.PK] = o.Row
	case "update":
		if o.Row.PK == o.PK && m[o.PK] != nil {
			m[o.PK] = o.Row
		}
	case "del":
		delete(m, o.PK)
	case "delrow":
		delete(m, o.Row.PK)
	}
}

func (g *jgen) leftRow(p string) *rowIn {
	base := g.L[p]
	if base == nil {
		base = g.L0[p]
	}
	var gid string
	switch {
	case base != nil && (g.guarded || g.r.Chance(4, 5)):
		gid = base.To // the foreign key of an existing row stays
	case g.guarded || g.r.Chance(6, 7):
		var present []string
		for _, k := range g.rkeys {
			if g.R[k] != nil {
				present = append(present, k)
			}
		}
		if len(present) > 0 && g.r.Chance(9, 10) {
			gid = hlib.Pick(g.r, present)
		} else {
			gid = hlib.Pick(g.r, g.rkeys)
		}
	default:
		gid = hlib.Pick(g.r, append([]string{"zz"}, g.rkeys...))
	}
	n := &rowIn{PK: p, To: gid, Note: hlib.Pick(g.r, g.addrs), Amt: int64(g.r.Intn(3))}
	if base != nil && g.r.Chance(1, 3) {
		n.Note = base.Note // addr unchanged
	}
	return n
}

func (g *jgen) rightRow(k string) *rowIn {
	base := g.R[k]
	if base == nil {
		base = g.R0[k]
	}
	if base == nil || g.r.Chance(1, 4) {
		return &rowIn{PK: k, To: hlib.Pick(g.r, g.sts), Note: hlib.Pick(g.r, g.tags), Amt: int64(g.r.Intn(3))}
	}
	n := *base
	switch g.r.Intn(4) {
	case 0:
		n.Amt = base.Amt + 1 // payload only
	case 1:
		n.To = hlib.Pick(g.r, g.sts) // status
	case 2:
		n.Note = hlib.Pick(g.r, g.tags) // tag only
	case 3: // identical
	}
	return &n
}

// one operation; nil when the key must not be touched (both streams stay inside
// the guard of the plain-table theorem: nothing after the Del of a saved row)
func (g *jgen) op() *jopIn {
	left := g.r.Chance(11, 20)
	tab, cur, saved, keys := "r", g.R, g.R0, g.rkeys
	if left {
		tab, cur, saved, keys = "l", g.L, g.L0, g.lpks
	}
	p := hlib.Pick(g.r, keys)
	if deletedSaved(cur, saved, p) {
		return nil
	}
	mk := func() *rowIn {
		if left {
			return g.leftRow(p)
		}
		return g.rightRow(p)
	}
	k := g.r.Intn(100)
	var o *jopIn
	switch {
	case k < 30:
		o = &jopIn{Tab: tab, T: "add", Row: mk()}
	case k < 45:
		o = &jopIn{Tab: tab, T: "replace", Row: mk()}
	case k < 75:
		o = &jopIn{Tab: tab, T: "update", PK: p, Row: mk()}
		if g.r.Chance(1, 30) {
			o.Row.PK = hlib.Pick(g.r, keys) // mismatch -> ErrInvalidParam
		}
	case k < 92:
		o = &jopIn{Tab: tab, T: "del", PK: p}
	default:
		o = &jopIn{Tab: tab, T: "delrow", Row: mk()}
	}
	applyOp(cur, o)
	return o
}

func (g *jgen) window(first bool) []jopIn {
	for try := 0; ; try++ {
		sl, sr := copyTab(g.L), copyTab(g.R)
		n := g.r.Range(1, 7)
		if first {
			n = g.r.Range(3, 8)
		}
		var ops []jopIn
		for i := 0; i < n; i++ {
			if o := g.op(); o != nil {
				ops = append(ops, *o)
			}
		}
		ok := saveSafe(g.L0, g.R0, g.L, g.R)
		if !g.guarded {
			// the unrestricted stream mostly avoids the failing Save (it ends the history)
			ok = !dangling(g.L0, g.R0, g.L, g.R) || (try >= 3 && g.r.Chance(1, 2))
		}
		if ok {
			return ops
		}
		g.L, g.R = sl, sr // outside the guard: try another window
		if try >= 12 {
			return nil
		}
	}
}

func (g *jgen) queries() []jqIn {
	var lp []string
	for p := range g.L {
		lp = append(lp, p)
	}
	sort.Strings(lp)
	pickRow := func() (addr, st string) {
		// steer towards values that occur in the join
		if len(lp) > 0 && g.r.Chance(3, 4) {
			l := g.L[hlib.Pick(g.r, lp)]
			if r := g.R[l.To]; r != nil {
				return l.Note, r.To
			}
		}
		return hlib.Pick(g.r, g.addrs), hlib.Pick(g.r, g.sts)
	}
	var qs []jqIn
	a, s := pickRow()
	qs = append(qs, jqIn{Kind: "list", Idx: "as", HasPre: true, Addr: a, St: s, Asc: g.r.Chance(1, 2)})
	_, s = pickRow()
	qs = append(qs, jqIn{Kind: "list", Idx: "s", HasPre: true, St: s, Asc: g.r.Chance(1, 2)})
	idx := hlib.Pick(g.r, []string{"as", "s"})
	qs = append(qs, jqIn{Kind: "list", Idx: idx, Asc: g.r.Chance(1, 2)})
	// a page, a cut prefix or a start key
	a, s = pickRow()
	q := jqIn{Kind: "list", Idx: hlib.Pick(g.r, []string{"as", "s"}), Asc: g.r.Chance(1, 2)}
	switch g.r.Intn(3) {
	case 0:
		q.Count = int32(g.r.Range(1, 2))
	case 1:
		q.HasPre, q.Addr, q.St, q.Cut = true, a, s, g.r.Range(1, 4)
	case 2:
		q.Start = hlib.Pick(g.r, g.lpks)
		q.Count = int32(g.r.Range(0, 2))
		if g.r.Chance(1, 2) {
			q.HasPre, q.Addr, q.St = true, a, s
		}
	}
	qs = append(qs, q)
	qs = append(qs, jqIn{Kind: "get", PK: hlib.Pick(g.r, g.lpks)})
	return qs
}

func (g *jgen) history(nsaves int) []jopIn {
	var ops []jopIn
	for s := 0; s < nsaves; s++ {
		ops = append(ops, g.window(s == 0)...)
		ops = append(ops, jopIn{T: "save", Qs: g.queries()})
		g.L0, g.R0 = copyTab(g.L), copyTab(g.R)
	}
	return ops
}

// ---- deterministic witnesses ----

func jfullQs() []jqIn {
	return []jqIn{
		{Kind: "list", Idx: "as", Asc: true}, {Kind: "list", Idx: "s", Asc: false},
		{Kind: "list", Idx: "s", HasPre: true, St: "2", Asc: true},
		{Kind: "list", Idx: "as", HasPre: true, Addr: "a", St: "1", Asc: true},
		{Kind: "get", PK: "h1"}, {Kind: "get", PK: "h2"},
	}
}

func joinWitnesses() []caseIn {
	lr := func(pk, gid, addr string) *rowIn { return &rowIn{PK: pk, To: gid, Note: addr} }
	gr := func(k, st string) *rowIn { return &rowIn{PK: k, To: st, Note: "t"} }
	save := jopIn{T: "save", Qs: jfullQs()}
	L := func(t string, r *rowIn) jopIn { return jopIn{Tab: "l", T: t, PK: r.PK, Row: r} }
	R := func(t string, r *rowIn) jopIn { return jopIn{Tab: "r", T: t, PK: r.PK, Row: r} }
	return []caseIn{
		// inside the guard: a right change of g1 with a pending left row of g2, left addr
		// change with a right status change, right Del with its left rows, re-Add
		{Kind: "join-witness-safe", JOps: []jopIn{
			R("add", gr("g1", "1")), R("add", gr("g2", "5")), L("add", lr("h1", "g1", "a")), save,
			R("update", gr("g1", "2")), L("add", lr("h2", "g2", "b")), save,
			L("update", lr("h1", "g1", "b")), R("update", gr("g1", "1")), {Tab: "r", T: "del", PK: "g2"}, save,
			R("add", gr("g2", "7")), {Tab: "l", T: "del", PK: "h1"}, save}},
		// finding 5: the foreign-key lookup is a prefix scan (g1 also finds the rows of g10)
		{Kind: "join-witness-prefix", JOps: []jopIn{
			R("add", gr("g1", "1")), R("add", gr("g10", "5")), L("add", lr("h1", "g1", "a")), L("add", lr("h2", "g10", "b")), save,
			R("update", gr("g1", "2")), save}},
		// finding 6: left Del and a status change of its right row in one window
		{Kind: "join-witness-del-right-change", JOps: []jopIn{
			R("add", gr("g1", "1")), L("add", lr("h1", "g1", "a")), L("add", lr("h2", "g1", "b")), save,
			{Tab: "l", T: "del", PK: "h1"}, R("update", gr("g1", "2")), save}},
		// finding 7: the foreign key of a stored left row changes
		{Kind: "join-witness-fk-change", JOps: []jopIn{
			R("add", gr("g1", "1")), R("add", gr("g2", "5")), L("add", lr("h1", "g1", "a")), save,
			L("update", lr("h1", "g2", "a")), save}},
		// finding 8: a left row whose right row does not exist makes join.Save fail
		{Kind: "join-witness-dangling", JOps: []jopIn{
			R("add", gr("g1", "1")), L("add", lr("h1", "g1", "a")), save,
			L("add", lr("h2", "zz", "a")), save}},
	}
}
