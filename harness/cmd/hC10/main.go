// hC10: runs generated operation histories (Add/Replace/Update/Del/DelRow/Save)
// on a real table.Table (common/db/table) over goleveldb or memdb and records,
// per operation, the error class and, after every Save (+ util.SaveKVList),
// the full KV dump and a batch of ListIndex query results.
package main

import (
	"bytes"
	"fmt"
	"os"
	"path/filepath"
	"runtime/debug"
	"strings"

	dbm "github.com/33cn/chain33/common/db"
	"github.com/33cn/chain33/common/db/table"
	clog "github.com/33cn/chain33/common/log"
	"github.com/33cn/chain33/types"
	"github.com/33cn/chain33/util"
	"verifharness/hlib"
)

// ---------- input / replay format ----------

type rowIn struct {
	PK   string `json:"pk"`
	To   string `json:"to"`
	Note string `json:"note"`
	Amt  int64  `json:"amt"`
}

type queryIn struct {
	Idx    string `json:"idx"` // "" (primary), "To", "Note"
	Prefix string `json:"prefix"`
	Start  string `json:"start"`
	Count  int32  `json:"count"`
	Asc    bool   `json:"asc"`
}

type opIn struct {
	T   string    `json:"t"` // add | replace | update | del | delrow | save
	PK  string    `json:"pk,omitempty"`
	Row *rowIn    `json:"row,omitempty"`
	Qs  []queryIn `json:"qs,omitempty"`
}

type caseIn struct {
	Backend string  `json:"backend"` // leveldb | memdb
	Kind    string  `json:"kind"`
	Ops     []opIn  `json:"ops"`
	JOps    []jopIn `json:"jops,omitempty"` // JoinTable history (join.go)
}

// ---------- row meta over types.AssetsTransfer ----------

type atRow struct{ *types.AssetsTransfer }

func newATRow() *atRow { return &atRow{AssetsTransfer: &types.AssetsTransfer{}} }

func (r *atRow) CreateRow() *table.Row { return &table.Row{Data: &types.AssetsTransfer{}} }

func (r *atRow) SetPayload(data types.Message) error {
	if d, ok := data.(*types.AssetsTransfer); ok {
		r.AssetsTransfer = d
		return nil
	}
	return types.ErrTypeAsset
}

func (r *atRow) Get(key string) ([]byte, error) {
	switch key {
	case "Cointoken":
		return []byte(r.Cointoken), nil
	case "To":
		return []byte(r.To), nil
	case "Note":
		return r.Note, nil
	}
	return nil, types.ErrNotFound
}

func mkMsg(r *rowIn) *types.AssetsTransfer {
	m := &types.AssetsTransfer{Cointoken: r.PK, To: r.To, Amount: r.Amt}
	if len(r.Note) > 0 {
		m.Note = []byte(r.Note)
	}
	return m
}

// ---------- Coq literals ----------

// rowTab interns row contents: the case carries the table once and every
// mention of a row is its position.
type rowTab struct {
	idx   map[string]int
	terms []string
}

func newRowTab() *rowTab { return &rowTab{idx: map[string]int{}} }

func (t *rowTab) ref(pk, to, note []byte, amt int64) string {
	term := hlib.App("R", hlib.Hx(pk), hlib.Hx(to), hlib.Hx(note), hlib.Z(amt))
	i, ok := t.idx[term]
	if !ok {
		i = len(t.terms)
		t.idx[term] = i
		t.terms = append(t.terms, term)
	}
	return hlib.N(uint64(i))
}

func (t *rowTab) rowIn(r *rowIn) string {
	return t.ref([]byte(r.PK), []byte(r.To), []byte(r.Note), r.Amt)
}

func (t *rowTab) msg(m *types.AssetsTransfer) string {
	return t.ref([]byte(m.Cointoken), []byte(m.To), m.Note, m.Amount)
}

func errClass(err error) uint64 {
	switch err {
	case nil:
		return 0
	case types.ErrNotFound:
		return 1
	case table.ErrDupPrimaryKey:
		return 2
	case types.ErrInvalidParam:
		return 3
	}
	return 4
}

func (t *rowTab) opTerm(o *opIn) string {
	switch o.T {
	case "add":
		return hlib.App("AAdd", t.rowIn(o.Row))
	case "replace":
		return hlib.App("ARep", t.rowIn(o.Row))
	case "update":
		return hlib.App("AUpd", hlib.Hx([]byte(o.PK)), t.rowIn(o.Row))
	case "del":
		return hlib.App("ADel", hlib.Hx([]byte(o.PK)))
	case "delrow":
		return hlib.App("ADelRow", t.rowIn(o.Row))
	}
	return "ASave"
}

func queryTerm(q *queryIn) string {
	idx := "QPrimary"
	switch q.Idx {
	case "To":
		idx = "(QIdx ITo)"
	case "Note":
		idx = "(QIdx INote)"
	}
	return hlib.App("mkQ", idx, hlib.Hx([]byte(q.Prefix)), hlib.Hx([]byte(q.Start)), hlib.Z(int64(q.Count)), hlib.Bool(q.Asc))
}

// ---------- running one history ----------

type runner struct {
	ldb  dbm.DB
	kvdb dbm.KVDB
	mem  bool
}

const tablePrefix = "p-t-"

func (rn *runner) wipe() {
	it := rn.ldb.Iterator([]byte("p"), nil, false)
	var keys [][]byte
	for it.Rewind(); it.Valid(); it.Next() {
		keys = append(keys, append([]byte{}, it.Key()...))
	}
	it.Close()
	for _, k := range keys {
		if err := rn.ldb.Delete(k); err != nil {
			panic(err)
		}
	}
}

// applyKVs writes the key/values returned by Save like util.SaveKVList does
// (Value == nil means delete).  The memdb backend's batch fails with
// "not found" when a batch deletes an absent key, so that backend is written
// key by key and a delete of an absent key is a no-op there too.
func (rn *runner) applyKVs(kvs []*types.KeyValue) {
	if !rn.mem {
		util.SaveKVList(rn.ldb, kvs)
		return
	}
	for _, kv := range kvs {
		if kv.Value == nil {
			_ = rn.ldb.Delete(kv.Key)
			continue
		}
		if err := rn.ldb.Set(kv.Key, kv.Value); err != nil {
			panic(err)
		}
	}
}

func (rn *runner) dump(t *rowTab) (string, int) {
	it := rn.ldb.Iterator([]byte("p"), nil, false)
	defer it.Close()
	var items []string
	for it.Rewind(); it.Valid(); it.Next() {
		k := append([]byte{}, it.Key()...)
		v := append([]byte{}, it.Value()...)
		var vt string
		if bytes.HasPrefix(k, []byte(tablePrefix+"d-")) {
			primary, data, err := table.DecodeRow(v)
			if err != nil {
				vt = hlib.App("XP", hlib.Hx([]byte("!decode-row")))
			} else {
				var m types.AssetsTransfer
				if err := types.Decode(data, &m); err != nil {
					vt = hlib.App("XP", hlib.Hx([]byte("!decode-msg")))
				} else {
					vt = hlib.App("XR", hlib.Hx(primary), t.msg(&m))
				}
			}
		} else {
			vt = hlib.App("XP", hlib.Hx(v))
		}
		items = append(items, hlib.Pair(hlib.Hx(k), vt))
	}
	return hlib.List(items), len(items)
}

func nilIfEmpty(s string) []byte {
	if s == "" {
		return nil
	}
	return []byte(s)
}

func (rn *runner) query(t *rowTab, tab *table.Table, q *queryIn) (term string, nrows int) {
	var rows []*table.Row
	var err error
	panicked := false
	func() {
		defer func() {
			if r := recover(); r != nil {
				panicked = true
			}
		}()
		dir := dbm.ListDESC
		if q.Asc {
			dir = dbm.ListASC
		}
		name := q.Idx
		if name == "" {
			name = "Cointoken"
		}
		rows, err = tab.ListIndex(name, nilIfEmpty(q.Prefix), nilIfEmpty(q.Start), q.Count, dir)
	}()
	e := errClass(err)
	if panicked {
		e = 5
	}
	var items []string
	if err == nil && !panicked {
		for _, r := range rows {
			m, ok := r.Data.(*types.AssetsTransfer)
			if !ok {
				e = 6
				break
			}
			items = append(items, hlib.Pair(hlib.Hx(r.Primary), t.msg(m)))
		}
	}
	return hlib.App("XQ", queryTerm(q), hlib.N(e), hlib.List(items)), len(items)
}

type runStats struct {
	saves, nonEmptySaves, errs, qrows int
}

func (rn *runner) run(c *caseIn) (string, runStats, map[string]interface{}) {
	rn.wipe()
	var st runStats
	opt := &table.Option{Prefix: "p", Name: "t", Primary: "Cointoken", Index: []string{"To", "Note"}}
	tab, err := table.NewTable(newATRow(), rn.kvdb, opt)
	if err != nil {
		panic(err)
	}
	rt := newRowTab()
	var steps []string
	var errsSeen []uint64
	for i := range c.Ops {
		o := &c.Ops[i]
		var e uint64
		var obs string
		func() {
			defer func() {
				if r := recover(); r != nil {
					if os.Getenv("C10_DEBUG") != "" {
						fmt.Fprintf(os.Stderr, "panic in op %d (%s): %v\n%s\n", i, o.T, r, debug.Stack())
					}
					e = 5
					if o.T == "save" {
						obs = hlib.App("XSave", hlib.N(5), "[]", "[]")
					} else {
						obs = hlib.App("XErr", hlib.N(5))
					}
				}
			}()
			switch o.T {
			case "add":
				e = errClass(tab.Add(mkMsg(o.Row)))
			case "replace":
				e = errClass(tab.Replace(mkMsg(o.Row)))
			case "update":
				e = errClass(tab.Update([]byte(o.PK), mkMsg(o.Row)))
			case "del":
				e = errClass(tab.Del([]byte(o.PK)))
			case "delrow":
				e = errClass(tab.DelRow(mkMsg(o.Row)))
			case "save":
				kvs, err := tab.Save()
				e = errClass(err)
				if err == nil {
					rn.applyKVs(kvs)
				}
				d, n := rn.dump(rt)
				st.saves++
				if n > 0 {
					st.nonEmptySaves++
				}
				var qts []string
				for j := range o.Qs {
					t, nr := rn.query(rt, tab, &o.Qs[j])
					st.qrows += nr
					qts = append(qts, t)
				}
				obs = hlib.App("XSave", hlib.N(e), d, hlib.List(qts))
			}
			if obs == "" {
				obs = hlib.App("XErr", hlib.N(e))
			}
		}()
		if e != 0 {
			st.errs++
		}
		errsSeen = append(errsSeen, e)
		steps = append(steps, hlib.Pair(rt.opTerm(o), obs))
	}
	return hlib.App("CHist", hlib.List(rt.terms), hlib.List(steps)), st, map[string]interface{}{"errs": errsSeen, "saves": st.saves}
}

// ---------- generators ----------

type gen struct {
	r       *hlib.Rng
	guarded bool
	sepmix  bool // primaries / index values containing the separator
	pks     []string
	tos     []string
	notes   []string
	cur     map[string]*rowIn // spec view (only used to steer generation)
	saved   map[string]*rowIn
}

func (g *gen) deletedSaved(p string) bool { return g.saved[p] != nil && g.cur[p] == nil }

func (g *gen) newRow(p string) *rowIn {
	r := &rowIn{PK: p, To: hlib.Pick(g.r, g.tos), Note: hlib.Pick(g.r, g.notes), Amt: int64(g.r.Intn(4))}
	if g.sepmix && g.r.Chance(1, 2) {
		// steer towards (To=a, primary b-k1) and (To=a-b, primary k1): same index key
		switch p {
		case "b-k1":
			r.To = "a"
		case "k1":
			r.To = "a-b"
		}
	}
	return r
}

// variation of an existing row: sometimes only the payload changes, sometimes one or both indexed fields
func (g *gen) vary(p string) *rowIn {
	base := g.cur[p]
	if base == nil {
		base = g.saved[p]
	}
	if base == nil || g.r.Chance(1, 4) {
		return g.newRow(p)
	}
	n := *base
	switch g.r.Intn(5) {
	case 0:
		n.Amt = base.Amt + 1
	case 1:
		n.To = hlib.Pick(g.r, g.tos)
	case 2:
		n.Note = hlib.Pick(g.r, g.notes)
	case 3:
		n.To = hlib.Pick(g.r, g.tos)
		n.Note = hlib.Pick(g.r, g.notes)
	case 4: // identical data
	}
	return &n
}

// one operation on key p; returns nil when the guarded stream must not touch p
func (g *gen) opOn(p string) *opIn {
	if g.deletedSaved(p) && (g.guarded || g.r.Chance(3, 5)) {
		// outside the guard; the unrestricted stream goes there only sometimes so
		// that histories also reach the other findings
		return nil
	}
	present := g.cur[p] != nil
	k := g.r.Intn(100)
	var o *opIn
	switch {
	case k < 22:
		o = &opIn{T: "add", Row: g.vary(p)}
		if !present {
			g.cur[p] = o.Row
		}
	case k < 40:
		o = &opIn{T: "replace", Row: g.vary(p)}
		g.cur[p] = o.Row
	case k < 68:
		o = &opIn{T: "update", PK: p, Row: g.vary(p)}
		if g.r.Chance(1, 25) { // primary key mismatch -> ErrInvalidParam
			o.Row.PK = hlib.Pick(g.r, g.pks)
		}
		if present && o.Row.PK == p {
			g.cur[p] = o.Row
		}
	default:
		if g.r.Chance(1, 3) {
			o = &opIn{T: "delrow", Row: g.vary(p)}
		} else {
			o = &opIn{T: "del", PK: p}
		}
		delete(g.cur, p)
	}
	return o
}

func prefixesOf(vals []string) []string {
	seen := map[string]bool{}
	var out []string
	for _, v := range vals {
		for l := 0; l <= len(v); l++ {
			p := v[:l]
			if strings.Contains(p, "-") || seen[p] {
				continue
			}
			seen[p] = true
			out = append(out, p)
		}
	}
	return out
}

func (g *gen) queries() []queryIn {
	var qs []queryIn
	// full listings
	for _, idx := range []string{"", "To", "Note"} {
		var vals []string
		switch idx {
		case "":
			vals = g.pks
		case "To":
			vals = g.tos
		default:
			vals = g.notes
		}
		ps := prefixesOf(vals)
		ps = append(ps, "zz")
		// a full listing, a full listing under a prefix, and one page
		qs = append(qs, queryIn{Idx: idx, Asc: g.r.Chance(1, 2)},
			queryIn{Idx: idx, Asc: g.r.Chance(1, 2), Prefix: hlib.Pick(g.r, ps)})
		if g.r.Chance(1, 2) {
			qs = append(qs, queryIn{Idx: idx, Asc: g.r.Chance(1, 2), Prefix: hlib.Pick(g.r, ps), Count: int32(g.r.Range(1, 3))})
		} else {
			q := queryIn{Idx: idx, Asc: g.r.Chance(1, 2), Start: hlib.Pick(g.r, g.pks), Count: int32(g.r.Range(0, 2))}
			if g.r.Chance(1, 2) {
				q.Prefix = hlib.Pick(g.r, ps)
			}
			qs = append(qs, q)
		}
	}
	return qs
}

func (g *gen) history(nsaves int) []opIn {
	g.cur = map[string]*rowIn{}
	g.saved = map[string]*rowIn{}
	var ops []opIn
	for s := 0; s < nsaves; s++ {
		// budget of operations per key in this window
		budget := map[string]int{}
		total := 0
		for _, p := range g.pks {
			if g.r.Chance(3, 4) {
				budget[p] = g.r.Range(1, 6)
				if s == 0 && g.r.Chance(1, 2) {
					budget[p] = g.r.Range(1, 2)
				}
				total += budget[p]
			}
		}
		for total > 0 {
			p := hlib.Pick(g.r, g.pks)
			if budget[p] == 0 {
				continue
			}
			budget[p]--
			total--
			if o := g.opOn(p); o != nil {
				ops = append(ops, *o)
			}
		}
		ops = append(ops, opIn{T: "save", Qs: g.queries()})
		g.saved = map[string]*rowIn{}
		for k, v := range g.cur {
			g.saved[k] = v
		}
	}
	return ops
}

func newGen(r *hlib.Rng, guarded, sepmix bool) *gen {
	g := &gen{r: r, guarded: guarded, sepmix: sepmix}
	all := []string{"k1", "k2", "k10", "q", "k", "q7"}
	g.pks = all[:r.Range(4, 6)]
	g.tos = []string{"a", "b", "ab", "", "a1"}
	g.notes = []string{"x", "y", "xy", ""}
	if sepmix {
		g.pks = []string{"k1", "b-k1", "k2", "q"}
		g.tos = []string{"a", "a-b", "b", ""}
		g.notes = []string{"x", "x-b", "-", ""}
	}
	return g
}

// ---------- main ----------

func fullQs() []queryIn {
	var qs []queryIn
	for _, idx := range []string{"", "To", "Note"} {
		qs = append(qs, queryIn{Idx: idx, Asc: true}, queryIn{Idx: idx, Asc: false})
	}
	qs = append(qs, queryIn{Idx: "To", Asc: true, Prefix: "a"}, queryIn{Idx: "To", Asc: true, Prefix: "b"})
	return qs
}

func witnesses() []caseIn {
	r1 := &rowIn{PK: "k1", To: "a", Note: "x", Amt: 1}
	r1b := &rowIn{PK: "k1", To: "b", Note: "x", Amt: 1}
	r2 := &rowIn{PK: "k2", To: "a", Note: "y", Amt: 2}
	save := opIn{T: "save", Qs: fullQs()}
	return []caseIn{
		{Kind: "witness-del-add", Ops: []opIn{{T: "add", Row: r1}, {T: "add", Row: r2}, save, {T: "del", PK: "k1"}, {T: "add", Row: r1}, save}},
		{Kind: "witness-del-replace", Ops: []opIn{{T: "add", Row: r1}, {T: "add", Row: r2}, save, {T: "del", PK: "k1"}, {T: "replace", Row: r1}, save}},
		{Kind: "witness-update-del", Ops: []opIn{{T: "add", Row: r1}, {T: "add", Row: r2}, save, {T: "update", PK: "k1", Row: r1b}, {T: "del", PK: "k1"}, save}},
		{Kind: "witness-sep-collision", Ops: []opIn{{T: "add", Row: &rowIn{PK: "b-k1", To: "a", Note: "x", Amt: 1}},
			{T: "add", Row: &rowIn{PK: "k1", To: "a-b", Note: "y", Amt: 2}}, save}},
		// safe words: Add.Update*.Del, Update*, Add.Del.Add, Replace chains
		{Kind: "witness-safe", Ops: []opIn{{T: "add", Row: r1}, {T: "update", PK: "k1", Row: r1b}, {T: "del", PK: "k1"}, {T: "add", Row: r1},
			{T: "add", Row: r2}, save, {T: "update", PK: "k1", Row: r1b}, {T: "update", PK: "k1", Row: r1}, {T: "replace", Row: r2},
			{T: "del", PK: "k2"}, save, {T: "add", Row: r2}, {T: "del", PK: "k1"}, save}},
	}
}

func main() {
	opts := hlib.ParseFlags()
	clog.SetLogLevel("crit")
	o := hlib.NewOut(opts.OutDir)
	defer o.Close()

	dir, err := os.MkdirTemp(opts.OutDir, "c10db")
	if err != nil {
		panic(err)
	}
	defer os.RemoveAll(dir)
	ldb, err := dbm.NewGoLevelDB("c10", filepath.Join(dir, "l"), 16)
	if err != nil {
		panic(err)
	}
	defer ldb.Close()
	mdb, err := dbm.NewGoMemDB("c10m", filepath.Join(dir, "m"), 16)
	if err != nil {
		panic(err)
	}
	runners := map[string]*runner{
		"leveldb": {ldb: ldb, kvdb: dbm.NewKVDB(ldb)},
		"memdb":   {ldb: mdb, kvdb: dbm.NewKVDB(mdb), mem: true},
	}
	emit := func(c *caseIn) {
		rn := runners[c.Backend]
		if rn == nil {
			panic(fmt.Sprintf("unknown backend %q", c.Backend))
		}
		if len(c.JOps) > 0 {
			// non-trivial: some join.Save left join index records and some join query returned rows
			term, st, impl := rn.runJoin(c)
			o.Emit(c.Kind+"/"+c.Backend, st.nonEmptySaves > 0 && st.qrows > 0, term, c, impl)
			return
		}
		term, st, impl := rn.run(c)
		// non-trivial: at least one save left a non-empty store and some query returned rows
		o.Emit(c.Kind+"/"+c.Backend, st.nonEmptySaves > 0 && st.qrows > 0, term, c, impl)
	}

	if opts.Replay != "" {
		var c caseIn
		if err := hlib.ReplayInput(opts.Replay, &c); err != nil {
			panic(err)
		}
		emit(&c)
		return
	}

	for _, w := range witnesses() {
		for _, b := range []string{"leveldb", "memdb"} {
			c := w
			c.Backend = b
			emit(&c)
		}
	}
	for _, w := range joinWitnesses() {
		for _, b := range []string{"leveldb", "memdb"} {
			c := w
			c.Backend = b
			emit(&c)
		}
	}
	r := hlib.NewRng(opts.Seed)
	nGuard, nFree, nSep, nSepGuard := 160, 200, 60, 0
	nJoinGuard, nJoinFree := 90, 90
	if opts.Thorough() {
		nGuard, nFree, nSep = 3000, 4500, 1200
		nJoinGuard, nJoinFree = 2500, 2500
	}
	_ = nSepGuard
	backend := func(i int) string {
		if i%3 == 2 {
			return "memdb"
		}
		return "leveldb"
	}
	mk := func(kind string, n int, guarded, sepmix bool) {
		for i := 0; i < n; i++ {
			g := newGen(r.Fork(), guarded, sepmix)
			ns := 1 + i%4
			if i < 12 {
				ns = 1 + i%2 // small cases first
			}
			c := caseIn{Backend: backend(i), Kind: kind, Ops: g.history(ns)}
			emit(&c)
		}
	}
	// JoinTable histories (own generator state: the plain-table streams below are unchanged)
	jr := hlib.NewRng(opts.Seed ^ 0x6a6f696e)
	mkJoin := func(kind string, n int, guarded bool) {
		for i := 0; i < n; i++ {
			g := newJGen(jr.Fork(), guarded)
			ns := 2 + i%3
			if i < 10 {
				ns = 1 + i%2 // small cases first
			}
			c := caseIn{Backend: backend(i), Kind: kind, JOps: g.history(ns)}
			emit(&c)
		}
	}
	mkJoin("join-guarded", nJoinGuard, true)
	mkJoin("join-unrestricted", nJoinFree, false)
	mk("guarded", nGuard, true, false)
	mk("unrestricted", nFree, false, false)
	mk("sep-safe-words", nSep/2, true, true)
	mk("unrestricted-sep", nSep-nSep/2, false, true)
}
