// hC18, stream "serve": the proof-serving path on a real node.
//
// One test node with ForkRootHash moved to height 6 (heights 1..5 before the
// fork, the rest after it).  Blocks with generated mixes of main-chain and
// user.p.X. transactions are
//   - built like a producer does (util.CreateNewBlock: TransactionSort after the
//     fork) and connected through BlockChain.ProcessBlock as a peer block,
//   - mined by the node's own solo consensus from the mempool,
//   - or built with the list in the generated (interleaved / regrouped) order
//     and TxHash as util.ExecBlock computes it, then connected as a peer block
//     (unrestricted stream: the node accepts these, known finding 1).
//
// For every stored block: header TxHash, the para-tx table rows
// (LoadParaTxByHeight) and the QueryTx reply of every transaction (through the
// queue API, i.e. ProcQueryTxMsg / getMultiLayerProofs).
package main

import (
	"bytes"
	"fmt"
	"sort"
	"strings"
	"time"

	"github.com/33cn/chain33/blockchain"
	"github.com/33cn/chain33/common/address"
	"github.com/33cn/chain33/common/crypto"
	"github.com/33cn/chain33/common/log/log15"
	"github.com/33cn/chain33/queue"
	_ "github.com/33cn/chain33/system"
	"github.com/33cn/chain33/types"
	"github.com/33cn/chain33/util"
	"github.com/33cn/chain33/util/testnode"
	"verifharness/hlib"
)

const serveFork = 6

// para titles; ids are the ranks in byte order (sort.Strings), 0 = main
var serveTitles = []string{"user.p.B.", "user.p.a.", "user.p.ab.", "user.p.b.", "user.p.game."}

var serveExecs = []string{"none", "token", "coins", "trade"}

type servePlan struct {
	Mode   string `json:"mode"` // "producer" | "mined" | "raw"
	Titles []int  `json:"titles"`
	Main   int64  `json:"main,omitempty"` // para-chain node: MainHeight of the block (decides the fork there)
}

// the para-chain node runs the chain of this title (id 4)
const paraNodeTitle = "user.p.b."

// blocks for the para-chain node, all with the list in TransactionSort order after the fork
func genParaPlans(seed uint64, thorough bool) []servePlan {
	r := hlib.NewRng(seed ^ 0x9a7a)
	ps := []servePlan{
		{"raw", []int{4, 4, 4}, 3}, {"raw", []int{4, 0, 4, 0, 2}, 5}, // before the fork (main height < 6)
		{"producer", []int{4}, 6}, {"producer", []int{4, 4}, 7}, {"producer", []int{4, 4, 4, 4, 4}, 8},
		{"producer", []int{0, 0, 0}, 9}, // one title: guard holds
		{"producer", []int{0, 4}, 10},   // two one-transaction chains: the single-layer root happens to be the same
		{"producer", []int{0, 0, 4}, 11}, {"producer", []int{0, 4, 4, 4}, 12}, {"producer", []int{2, 4, 4}, 13},
		{"producer", []int{0, 0, 1, 1, 4, 4, 4}, 14},
	}
	n := 4
	if thorough {
		n = 60
	}
	for i := 0; i < n; i++ {
		k := r.Range(1, 12)
		t := make([]int, k)
		for j := range t {
			t[j] = 4
			if r.Chance(1, 4) && i%2 == 1 {
				t[j] = []int{0, 0, 2, 5}[r.Intn(4)]
			}
		}
		ps = append(ps, servePlan{"producer", t, int64(20 + i)})
	}
	return ps
}

func titleString(t int) string {
	if t == 0 {
		return types.MainChainName
	}
	return serveTitles[t-1]
}

func titleIDs() map[string]int {
	s := append([]string(nil), serveTitles...)
	sort.Strings(s)
	for i := range s {
		if s[i] != serveTitles[i] {
			panic("serveTitles must be listed in byte order")
		}
	}
	m := map[string]int{types.MainChainName: 0}
	for i, t := range serveTitles {
		if !(types.MainChainName < t) {
			panic("main must sort first")
		}
		m[t] = i + 1
	}
	return m
}

func isSortedInts(l []int) bool {
	for i := 1; i < len(l); i++ {
		if l[i-1] > l[i] {
			return false
		}
	}
	return true
}

// a mix: counts per chosen title, then an order pattern
func genMix(r *hlib.Rng, maxPer int, pattern int) []int {
	nt := r.Range(1, 4)
	var chosen []int
	if r.Chance(3, 4) {
		chosen = append(chosen, 0)
	}
	for len(chosen) < nt {
		t := r.Range(1, len(serveTitles))
		dup := false
		for _, c := range chosen {
			dup = dup || c == t
		}
		if !dup {
			chosen = append(chosen, t)
		}
	}
	sort.Ints(chosen)
	var groups [][]int
	for _, t := range chosen {
		n := r.Range(1, maxPer)
		if r.Chance(1, 3) {
			n = r.Range(1, 3)
		}
		g := make([]int, n)
		for i := range g {
			g[i] = t
		}
		groups = append(groups, g)
	}
	var out []int
	switch pattern {
	case 0: // grouped, title order
		for _, g := range groups {
			out = append(out, g...)
		}
	case 1: // grouped, groups in reverse / rotated order
		if r.Chance(1, 2) {
			for i := len(groups) - 1; i >= 0; i-- {
				out = append(out, groups[i]...)
			}
		} else {
			k := r.Intn(len(groups))
			for i := range groups {
				out = append(out, groups[(i+k)%len(groups)]...)
			}
		}
	case 2: // interleaved
		for _, g := range groups {
			out = append(out, g...)
		}
		for i := len(out) - 1; i > 0; i-- {
			j := r.Intn(i + 1)
			out[i], out[j] = out[j], out[i]
		}
	default: // a group split in two around the others (A B A)
		for _, g := range groups {
			out = append(out, g...)
		}
		g0 := groups[r.Intn(len(groups))]
		out = append(out, g0[0])
	}
	return out
}

func genServePlans(seed uint64, thorough bool) []servePlan {
	r := hlib.NewRng(seed ^ 0x5e57e)
	var ps []servePlan
	// heights 1..5: before the fork, any order
	ps = append(ps, servePlan{Mode: "raw", Titles: []int{0}})
	ps = append(ps, servePlan{Mode: "raw", Titles: []int{2, 0, 1}})
	ps = append(ps, servePlan{Mode: "producer", Titles: genMix(r, 5, 2)})
	ps = append(ps, servePlan{Mode: "mined", Titles: []int{3, 0, 3, 1, 0}})
	ps = append(ps, servePlan{Mode: "raw", Titles: genMix(r, 6, 1)})
	// after the fork: fixed small shapes first
	fixed := [][]int{
		{0}, {3}, {0, 0}, {0, 2}, {1, 1, 1}, {0, 0, 0, 1, 2, 2, 4}, {1, 3}, {2, 3, 4}, {0, 0, 0, 0, 0, 5},
	}
	for _, f := range fixed {
		ps = append(ps, servePlan{Mode: "producer", Titles: f})
	}
	ps = append(ps, servePlan{Mode: "raw", Titles: []int{2, 0}})          // para, main (the refutation witness)
	ps = append(ps, servePlan{Mode: "raw", Titles: []int{4, 0, 1, 4}})    // b main a b
	ps = append(ps, servePlan{Mode: "raw", Titles: []int{0, 1, 0}})       // main a main
	ps = append(ps, servePlan{Mode: "raw", Titles: []int{4, 2, 2, 0, 0}}) // reverse order
	ps = append(ps, servePlan{Mode: "raw", Titles: []int{0, 0, 1, 3, 3}}) // in order: guard holds
	nProd, nRaw, nMined, maxPer := 22, 14, 3, 7
	if thorough {
		nProd, nRaw, nMined, maxPer = 220, 160, 12, 9
	}
	for i := 0; i < nProd; i++ {
		mp := maxPer
		if thorough && r.Chance(1, 12) {
			mp = 100 // child chains above the 80-leaf threshold of the parallel root
		}
		ps = append(ps, servePlan{Mode: "producer", Titles: genMix(r, mp, r.Intn(3))})
	}
	for i := 0; i < nRaw; i++ {
		ps = append(ps, servePlan{Mode: "raw", Titles: genMix(r, maxPer, r.Range(0, 3))})
	}
	for i := 0; i < nMined; i++ {
		ps = append(ps, servePlan{Mode: "mined", Titles: genMix(r, 5, 2)})
	}
	return ps
}

type snode struct {
	m     *testnode.Chain33Mock
	cfg   *types.Chain33Config
	chain *blockchain.BlockChain
	cl    queue.Client
	priv  crypto.PrivKey
	nonce int64
	para  bool
}

func (w *snode) miner(ty int64) {
	msg := w.cl.NewMessage("consensus", ty, nil)
	if err := w.cl.Send(msg, true); err == nil {
		_, _ = w.cl.WaitTimeout(msg, 5*time.Second)
	}
}

func newServeNode(para bool) *snode {
	cs := types.GetDefaultCfgstring()
	if para {
		cs = strings.Replace(cs, `Title="local"`, `Title="`+paraNodeTitle+`"`, 1)
	}
	cfg := types.NewChain33Config(cs)
	if cfg.IsPara() != para {
		panic("para title not applied")
	}
	mc := cfg.GetModuleConfig()
	mc.BlockChain.IsParaChain = para
	mc.BlockChain.Driver = "memdb"
	mc.Store.Driver = "memdb"
	mc.Wallet.Driver = "memdb"
	cfg.SetFork("ForkRootHash", serveFork)
	m := testnode.NewWithConfig(cfg, nil)
	log15.Root().SetHandler(log15.DiscardHandler()) // getMultiLayerProofs logs every refused query
	w := &snode{m: m, cfg: cfg, chain: m.GetBlockChain(), cl: m.GetClient(), priv: m.GetGenesisKey(), nonce: 1, para: para}
	w.miner(types.EventMinerStop)
	deadline := time.Now().Add(30 * time.Second)
	for w.chain.GetBlockHeight() < 0 {
		if time.Now().After(deadline) {
			panic("genesis block not created")
		}
		time.Sleep(2 * time.Millisecond)
	}
	time.Sleep(30 * time.Millisecond)
	if cfg.IsFork(serveFork-1, "ForkRootHash") || !cfg.IsFork(serveFork, "ForkRootHash") {
		panic("ForkRootHash not moved")
	}
	return w
}

func (w *snode) mkTx(seed uint64, title int, r *hlib.Rng) *types.Transaction {
	exec := serveExecs[r.Intn(len(serveExecs))]
	if title > 0 {
		exec = titleString(title) + exec
	} else if exec != "none" {
		exec = "none"
	}
	w.nonce++
	tx := &types.Transaction{Execer: []byte(exec), Payload: leafBytes(seed, int(w.nonce)), Fee: 1000000, Nonce: w.nonce}
	tx.To = address.ExecAddress(exec)
	tx.ChainID = w.cfg.GetChainID()
	tx.Sign(types.SECP256K1, w.priv)
	return tx
}

func (w *snode) tip() *types.Block {
	d, err := w.chain.GetBlock(w.chain.GetBlockHeight())
	if err != nil {
		panic(err)
	}
	return d.Block
}

// connect a peer block; producer = put together by util.CreateNewBlock (on the para-chain
// node: like CreateNewBlock, with the fork decided by the main height)
func (w *snode) connect(txs []*types.Transaction, producer bool, mainHeight int64) error {
	par := w.tip()
	var b *types.Block
	if producer && w.para {
		b = &types.Block{Height: par.Height + 1, ParentHash: par.Hash(w.cfg)}
		b.Txs = append(b.Txs, txs...)
		if w.cfg.IsFork(mainHeight, "ForkRootHash") {
			b.Txs = types.TransactionSort(b.Txs)
		}
	} else if producer {
		b = util.CreateNewBlock(w.cfg, par, txs)
	} else {
		b = &types.Block{Height: par.Height + 1, ParentHash: par.Hash(w.cfg)}
		b.Txs = append(b.Txs, txs...)
	}
	b.Difficulty = 0x1f2fffff
	b.MainHeight = mainHeight
	b.BlockTime = par.BlockTime // not ahead of the clock: the node's own miner stamps later blocks with Now()
	d, _, err := util.ExecBlock(w.cl, par.StateHash, b, false, true, false)
	if err != nil {
		return fmt.Errorf("ExecBlock: %v", err)
	}
	blk := types.Clone(d.Block).(*types.Block)
	_, _, _, err = w.chain.ProcessBlock(false, &types.BlockDetail{Block: blk}, "peer1", true, 0)
	if err != nil {
		return fmt.Errorf("ProcessBlock: %v", err)
	}
	if w.chain.GetBlockHeight() != par.Height+1 {
		return fmt.Errorf("block not connected")
	}
	return nil
}

// let the node's own consensus mine what is in the pool
func (w *snode) mine(txs []*types.Transaction) error {
	h0 := w.chain.GetBlockHeight()
	for _, tx := range txs {
		rep, err := w.m.GetAPI().SendTx(tx)
		if err != nil || !rep.GetIsOk() {
			return fmt.Errorf("SendTx: %v", err)
		}
	}
	w.miner(types.EventMinerStart)
	deadline := time.Now().Add(30 * time.Second)
	for {
		n := 0
		for k := h0 + 1; k <= w.chain.GetBlockHeight(); k++ {
			d, err := w.chain.GetBlock(k)
			if err == nil {
				n += len(d.Block.Txs)
			}
		}
		if n >= len(txs) {
			break
		}
		if time.Now().After(deadline) {
			w.miner(types.EventMinerStop)
			return fmt.Errorf("mining timed out")
		}
		time.Sleep(5 * time.Millisecond)
	}
	w.miner(types.EventMinerStop)
	time.Sleep(30 * time.Millisecond)
	return nil
}

// the chain partition of calcMultiLayerMerkleInfo's scan, re-implemented on title ids
func refScan(titles []int) (starts []int) {
	first := -1
	for i, t := range titles {
		if t == 0 && i == 0 {
			starts = append(starts, 0)
		} else if t != 0 && (first < 0 || t != first) {
			first = t
			starts = append(starts, i)
		}
	}
	return
}

// adds the hash facts of the multi-layer tree over (titles, fulls)
func (in *intern) refMulti(titles []int, fulls [][]byte) {
	starts := refScan(titles)
	if len(starts) <= 1 {
		in.refTree(fulls)
		return
	}
	var roots [][]byte
	for k, s := range starts {
		e := len(fulls)
		if k+1 < len(starts) {
			e = starts[k+1]
		}
		roots = append(roots, in.refTree(fulls[s:e]))
	}
	in.refTree(roots)
}

type serveIn struct {
	Seed  uint64 `json:"seed"`
	Tier  string `json:"tier"`
	Serve int    `json:"serve"` // 1-based number of the plan
	Sub   int    `json:"sub"`   // which of the blocks the plan produced (mined plans may give several)
	Plan  string `json:"plan"`
}

func nilIfEmpty(b []byte) []byte {
	if len(b) == 0 {
		return nil
	}
	return b
}

func emitServeBlock(o *hlib.Out, w *snode, seed uint64, tier string, height int64, plan, sub int, mode string, tids map[string]int) {
	d, err := w.chain.GetBlock(height)
	if err != nil {
		panic(err)
	}
	blk := d.Block
	fork := w.cfg.IsFork(height, "ForkRootHash")
	if w.para {
		fork = w.cfg.IsFork(blk.MainHeight, "ForkRootHash")
	}
	it := newIntern()
	n := len(blk.Txs)
	titles := make([]int, n)
	hashes := make([][]byte, n)
	fulls := make([][]byte, n)
	var txl []int
	for i, tx := range blk.Txs {
		t, ok := types.GetParaExecTitleName(string(tx.Execer))
		if !ok {
			t = types.MainChainName
		}
		id, known := tids[t]
		if !known {
			id = 999999
		}
		titles[i], hashes[i], fulls[i] = id, tx.Hash(), tx.FullHash()
		txl = append(txl, id, it.id(hashes[i]), it.id(fulls[i]))
	}
	// reference hash facts (crypto/sha256 only)
	var rows []int
	if !fork {
		it.refTree(hashes)
	} else {
		it.refTree(fulls)
		it.refMulti(titles, fulls)
		idx := make([]int, n)
		for i := range idx {
			idx[i] = i
		}
		sort.SliceStable(idx, func(a, b int) bool { return titles[idx[a]] < titles[idx[b]] })
		st := make([]int, n)
		sf := make([][]byte, n)
		for k, i := range idx {
			st[k], sf[k] = titles[i], fulls[i]
		}
		it.refMulti(st, sf)
		hp, err := w.chain.LoadParaTxByHeight(height, "", 0, 1)
		if err == nil && !w.para {
			var rh [][]byte
			for _, r := range hp.Items {
				id, known := tids[r.Title]
				if !known {
					id = 999999
				}
				if !bytes.Equal(r.Hash, blk.Hash(w.cfg)) || r.Height != height {
					id = 999998 // a row of another block
				}
				rows = append(rows, id, int(r.StartIndex), int(r.TxCount), int(r.ChildHashIndex), it.id(r.ChildHash))
				rh = append(rh, r.ChildHash)
			}
			it.refTree(rh)
		}
	}
	var reps []string
	nrep := 0
	for _, tx := range blk.Txs {
		rep, err := w.m.GetAPI().QueryTx(&types.ReqHash{Hash: tx.Hash()})
		if err != nil || rep == nil {
			reps = append(reps, fmt.Sprintf("(%s, %s, [], [])", hlib.N(999999), hlib.N(0)))
			continue
		}
		if rep.Tx == nil || !bytes.Equal(rep.Tx.Hash(), tx.Hash()) || rep.Height != height {
			reps = append(reps, fmt.Sprintf("(%s, %s, [], [])", hlib.N(999997), hlib.N(0)))
			continue
		}
		var tps []string
		for _, p := range rep.TxProofs {
			tps = append(tps, fmt.Sprintf("(%s, %s, %s)", strs(it.idsOf(p.Proofs)), hlib.N(uint64(p.Index)),
				hlib.N(uint64(it.id(nilIfEmpty(p.RootHash))))))
		}
		nrep++
		reps = append(reps, fmt.Sprintf("(%s, %s, %s, %s)", hlib.N(uint64(rep.Index)),
			hlib.N(uint64(it.id(nilIfEmpty(rep.FullHash)))), strs(it.idsOf(rep.Proofs)), hlib.List(tps)))
	}
	kind := "serve-pre-fork"
	if fork {
		switch {
		case !isSortedInts(titles):
			kind = "serve-unsorted(unrestricted)"
		case len(refScan(titles)) <= 1:
			kind = "serve-sorted-1chain"
		default:
			kind = "serve-sorted-chains"
		}
	}
	if mode == "mined" {
		kind += "-mined"
	}
	if w.para {
		kind = "serve-paranode-pre-fork"
		if fork {
			kind = "serve-paranode-mixed(unrestricted)"
			if len(refScan(titles)) <= 1 && isSortedInts(titles) {
				kind = "serve-paranode-1title"
			}
		}
	}
	term := hlib.App("CServe", hlib.Bool(fork), hlib.Bool(w.para), hlib.Bool(mode == "raw"), strs(txl), strs(it.triples), hlib.N(uint64(it.id(blk.TxHash))),
		strs(rows), hlib.List(reps))
	o.Emit(kind, n >= 2, term, serveIn{Seed: seed, Tier: tier, Serve: plan, Sub: sub, Plan: mode},
		map[string]interface{}{"height": height, "ntx": n, "fork": fork, "titles": titles, "replies": nrep,
			"rows": len(rows) / 5, "paranode": w.para})
}

// runServe drives the main-chain node, then the para-chain node; only > 0 emits just the
// blocks of that plan (replay; para-chain plans are numbered after the main-chain ones)
func runServe(o *hlib.Out, opts hlib.Opts, only int) int {
	plans := genServePlans(opts.Seed, opts.Thorough())
	pplans := genParaPlans(opts.Seed, opts.Thorough())
	n := 0
	if only <= len(plans) {
		n += runServeNode(o, opts, false, plans, 0, only)
	}
	if only <= 0 || only > len(plans) {
		n += runServeNode(o, opts, true, pplans, len(plans), only)
	}
	return n
}

func runServeNode(o *hlib.Out, opts hlib.Opts, para bool, plans []servePlan, base int, only int) int {
	tids := titleIDs()
	w := newServeNode(para)
	defer w.m.Close()
	r := hlib.NewRng(opts.Seed ^ 0x7a11 ^ uint64(base))
	emitted, rejected := 0, 0
	for k, p := range plans {
		pi := base + k
		h0 := w.chain.GetBlockHeight()
		if only > 0 && pi+1 > only {
			break
		}
		txs := make([]*types.Transaction, len(p.Titles))
		for i, t := range p.Titles {
			txs[i] = w.mkTx(opts.Seed, t, r)
		}
		var err error
		switch p.Mode {
		case "producer":
			err = w.connect(txs, true, p.Main)
		case "raw":
			err = w.connect(txs, false, p.Main)
		default:
			err = w.mine(txs)
		}
		if err != nil {
			fork := w.cfg.IsFork(h0+1, "ForkRootHash")
			if para {
				fork = w.cfg.IsFork(p.Main, "ForkRootHash")
			}
			if p.Mode == "raw" && fork && !isSortedInts(p.Titles) && w.chain.GetBlockHeight() == h0 {
				// a node that refuses a block whose list is not in TransactionSort order is fine
				rejected++
				continue
			}
			if w.chain.GetBlockHeight() != h0 {
				panic(fmt.Sprintf("serve plan %d (%s %v) at height %d: %v", pi, p.Mode, p.Titles, h0+1, err))
			}
			if only > 0 && pi+1 != only {
				continue
			}
			// a producer-built, mined, pre-fork or in-order block was not connected: a case that fails
			var txl []int
			for i, t := range p.Titles {
				txl = append(txl, t, 2*i+1, 2*i+2)
			}
			term := hlib.App("CServe", hlib.Bool(fork), hlib.Bool(para), hlib.Bool(p.Mode == "raw"), strs(txl), "[]", hlib.N(0), "[]", "[]")
			o.Emit("serve-not-connected", len(txs) >= 2, term,
				serveIn{Seed: opts.Seed, Tier: opts.Tier, Serve: pi + 1, Plan: p.Mode},
				map[string]interface{}{"height": h0 + 1, "error": err.Error(), "titles": p.Titles, "paranode": para})
			emitted++
			continue
		}
		for h := h0 + 1; h <= w.chain.GetBlockHeight(); h++ {
			if only > 0 && pi+1 != only {
				continue
			}
			emitServeBlock(o, w, opts.Seed, opts.Tier, h, pi+1, int(h-h0-1), p.Mode, tids)
			emitted++
		}
	}
	if rejected > 0 {
		fmt.Printf("hC18 serve: %d unsorted raw blocks were refused by the node\n", rejected)
	}
	return emitted
}
