// hC18: runs common/merkle on generated leaf lists / transaction lists.
//
// The worker count of the parallel root (runtime.NumCPU()) is varied by
// re-executing this binary under `taskset -c 0-(k-1)` (child mode,
// --extra child:k); the parent merges the children's answers per job.
//
// Hash evidence for the Coq side: every 32-byte value is interned as a small
// id per case, and a table of (left id, right id, digest id) triples is
// computed here with crypto/sha256 by a plain level-by-level reference that
// does not call merkle.go.
package main

import (
	"bytes"
	"crypto/sha256"
	"encoding/binary"
	"encoding/hex"
	"encoding/json"
	"fmt"
	"os"
	"os/exec"
	"path/filepath"
	"runtime"
	"strconv"
	"strings"

	"github.com/33cn/chain33/common/merkle"
	"github.com/33cn/chain33/types"
	"verifharness/hlib"
)

// ---------------------------------------------------------------- jobs

type txd struct {
	Title int `json:"t"` // 0 = main chain tx, k>0 = para chain k
	ID    int `json:"i"`
}

type job struct {
	Kind   string `json:"kind"`
	Leaves []int  `json:"leaves,omitempty"`
	L2     []int  `json:"l2,omitempty"`
	Pos    []int  `json:"pos,omitempty"`
	Txs    []txd  `json:"txs,omitempty"`
}

type replayIn struct {
	Seed  uint64 `json:"seed"`
	Tier  string `json:"tier"`
	Job   int    `json:"job"`
	Sub   int    `json:"sub"` // position index for branch jobs
	J     job    `json:"j"`
	Serve int    `json:"serve"` // > 0: a case of the serve stream (serve.go), number of its plan
}

func seqInts(n int) []int {
	r := make([]int, n)
	for i := range r {
		r[i] = i + 1
	}
	return r
}

func genJobs(seed uint64, thorough bool) []job {
	r := hlib.NewRng(seed)
	var js []job
	// 1. every small count (both sides of the 80 threshold), distinct leaves
	small := 400
	if thorough {
		small = 3000
	}
	for n := 0; n <= small; n++ {
		js = append(js, job{Kind: "root", Leaves: seqInts(n)})
	}
	// 2. sampled larger counts: boundaries of the step computation
	set := map[int]bool{}
	maxN := 3000
	nsamp := 40
	if thorough {
		maxN = 20000
		nsamp = 300
	}
	for _, c := range []int{2, 3, 4, 5, 6, 7, 8, 12, 16} {
		for k := 1; k <= 9; k++ {
			b := c << uint(k)
			for _, d := range []int{-1, 0, 1} {
				if b+d > small && b+d <= maxN && (thorough || r.Chance(1, 3)) {
					set[b+d] = true
				}
			}
		}
	}
	for m := 256; m <= maxN; m += 256 {
		for _, d := range []int{-1, 0, 1, 2} {
			if m+d > small && m+d <= maxN && (thorough || r.Chance(1, 4)) {
				set[m+d] = true
			}
		}
	}
	for i := 0; i < nsamp; i++ {
		set[r.Range(small+1, maxN)] = true
	}
	var ns []int
	for n := small + 1; n <= maxN; n++ {
		if set[n] {
			ns = append(ns, n)
		}
	}
	for _, n := range ns {
		js = append(js, job{Kind: "root", Leaves: seqInts(n)})
	}
	// 3. small alphabets: repeated leaves everywhere
	nrep := 150
	if thorough {
		nrep = 2000
	}
	for i := 0; i < nrep; i++ {
		n := r.Range(1, 40)
		if r.Chance(1, 4) {
			n = r.Range(70, 200)
		}
		a := r.Range(1, 3)
		l := make([]int, n)
		for k := range l {
			l[k] = r.Range(1, a)
		}
		js = append(js, job{Kind: "root-rep", Leaves: l})
	}
	// 4. duplicated tails and other near-miss pairs
	npair := 300
	if thorough {
		npair = 3000
	}
	for i := 0; i < npair; i++ {
		n := r.Range(1, 48)
		if r.Chance(1, 6) {
			n = r.Range(60, 300)
		}
		l1 := seqInts(n)
		if r.Chance(1, 5) { // repeated leaves in the base list too
			for k := range l1 {
				l1[k] = r.Range(1, 4)
			}
		}
		var l2 []int
		kind := ""
		switch r.Intn(7) {
		case 0, 1, 2: // aligned duplicated tail (same root expected)
			kind = "pair-duptail"
			j := 0
			for (n>>uint(j))&1 == 0 && n > 0 {
				j++
			}
			// n = q*2^j, q odd: duplicating the last 2^j' block for j' <= j keeps alignment when n-2^j' is a multiple of 2^(j'+1)
			bs := 1 << uint(j)
			if bs >= n { // no non-empty prefix: not a valid pattern, use block 1 (root changes)
				bs = 1
				kind = "pair-dup-unaligned"
			}
			l2 = append(append([]int{}, l1...), l1[n-bs:]...)
			if r.Chance(1, 3) && kind == "pair-duptail" { // one more round of the pattern
				m := len(l2)
				jj := 0
				for (m>>uint(jj))&1 == 0 {
					jj++
				}
				b2 := 1 << uint(jj)
				if b2 < m {
					l2 = append(l2, l2[m-b2:]...)
					kind = "pair-duptail2"
				}
			}
		case 3: // unaligned duplicate of the last leaf / last two
			kind = "pair-dup-unaligned"
			k := r.Range(1, 3)
			if k > n {
				k = n
			}
			l2 = append(append([]int{}, l1...), l1[n-k:]...)
		case 4: // one leaf replaced
			kind = "pair-replace"
			l2 = append([]int{}, l1...)
			l2[r.Intn(n)] = 9000 + i
		case 5: // two leaves swapped / last dropped
			kind = "pair-swap-drop"
			l2 = append([]int{}, l1...)
			if n >= 2 && r.Chance(1, 2) {
				a, b := r.Intn(n), r.Intn(n)
				l2[a], l2[b] = l2[b], l2[a]
			} else {
				l2 = l2[:n-1]
			}
		default: // identical
			kind = "pair-same"
			l2 = append([]int{}, l1...)
		}
		js = append(js, job{Kind: kind, Leaves: l1, L2: l2})
	}
	// 5. branches: every position for small counts, sampled for larger ones
	allUpTo := 64
	if thorough {
		allUpTo = 200
	}
	for n := 1; n <= allUpTo; n++ {
		pos := seqInts(n + 1) // 1..n+1
		for k := range pos {
			pos[k]-- // 0..n  (n = first out-of-range position)
		}
		pos = append(pos, n+7)
		js = append(js, job{Kind: "branch-all", Leaves: seqInts(n), Pos: pos})
	}
	nbr := 60
	if thorough {
		nbr = 600
	}
	for i := 0; i < nbr; i++ {
		n := r.Range(allUpTo+1, maxN)
		if r.Chance(1, 3) {
			n = r.Range(allUpTo+1, 600)
		}
		pos := []int{0, n - 1, r.Intn(n), r.Intn(n)}
		if n%2 == 1 {
			pos = append(pos, n-2)
		}
		l := seqInts(n)
		if r.Chance(1, 6) && n <= 600 {
			for k := range l {
				l[k] = r.Range(1, 3)
			}
		}
		js = append(js, job{Kind: "branch-sampled", Leaves: l, Pos: pos})
	}
	// 6. multi-layer: mixed main / para transaction lists
	nmulti := 120
	if thorough {
		nmulti = 600
	}
	for i := 0; i < nmulti; i++ {
		var txs []txd
		id := 1
		nseg := r.Range(0, 5)
		if i == 0 {
			nseg = 0
		}
		big := r.Chance(1, 8)
		for s := 0; s < nseg; s++ {
			t := r.Range(0, 3) // 0 = main
			if s == 0 && r.Chance(1, 2) {
				t = 0
			}
			cnt := r.Range(1, 9)
			if big && r.Chance(1, 2) {
				cnt = r.Range(75, 260)
			}
			for k := 0; k < cnt; k++ {
				txs = append(txs, txd{Title: t, ID: id})
				id++
			}
		}
		js = append(js, job{Kind: "multi", Txs: txs})
	}
	return js
}

// ---------------------------------------------------------------- data

func leafBytes(seed uint64, ident int) []byte {
	var b [24]byte
	copy(b[:], "C18leaf.")
	binary.LittleEndian.PutUint64(b[8:], seed)
	binary.LittleEndian.PutUint64(b[16:], uint64(ident))
	s := sha256.Sum256(b[:])
	return s[:]
}

func leavesOf(seed uint64, ids []int) [][]byte {
	out := make([][]byte, len(ids))
	for i, id := range ids {
		out[i] = leafBytes(seed, id)
	}
	return out
}

func clone(l [][]byte) [][]byte { // merkle.getMerkleRoot overwrites its argument
	return append([][]byte(nil), l...)
}

func titleOf(t int) string { return fmt.Sprintf("user.p.chain%d.", t) }

func mkTx(seed uint64, d txd) *types.Transaction {
	exec := "coins"
	if d.Title > 0 {
		exec = titleOf(d.Title) + "token"
	}
	return &types.Transaction{Execer: []byte(exec), Payload: leafBytes(seed, d.ID), Fee: 100000,
		Nonce: int64(d.ID), To: "1JmFaA6unrCFYEWPGRi7uuXY1KthTJxJEP",
		Signature: &types.Signature{Ty: 1, Pubkey: leafBytes(seed, d.ID+100000), Signature: leafBytes(seed, d.ID+200000)}}
}

// independent double SHA-256 of left||right
func dsha(l, r []byte) []byte {
	buf := make([]byte, 0, 64)
	buf = append(buf, l...)
	buf = append(buf, r...)
	a := sha256.Sum256(buf)
	b := sha256.Sum256(a[:])
	return b[:]
}

type intern struct {
	ids     map[string]int
	next    int
	triples []int
	seen    map[[2]int]bool
}

func newIntern() *intern {
	return &intern{ids: map[string]int{}, next: 1, seen: map[[2]int]bool{}}
}

func (in *intern) id(b []byte) int {
	if b == nil {
		return 0
	}
	k := string(b)
	if v, ok := in.ids[k]; ok {
		return v
	}
	v := in.next
	in.next++
	in.ids[k] = v
	return v
}

func (in *intern) idsOf(l [][]byte) []int {
	o := make([]int, len(l))
	for i, b := range l {
		o[i] = in.id(b)
	}
	return o
}

// refTree adds the hash facts of the plain sequential tree over leaves
// (duplicate the last element of an odd level) and returns its root.
func (in *intern) refTree(leaves [][]byte) []byte {
	if len(leaves) == 0 {
		return nil
	}
	cur := append([][]byte(nil), leaves...)
	for len(cur) > 1 {
		if len(cur)%2 == 1 {
			cur = append(cur, cur[len(cur)-1])
		}
		nxt := make([][]byte, 0, len(cur)/2)
		for i := 0; i < len(cur); i += 2 {
			d := dsha(cur[i], cur[i+1])
			a, b, c := in.id(cur[i]), in.id(cur[i+1]), in.id(d)
			if !in.seen[[2]int{a, b}] {
				in.seen[[2]int{a, b}] = true
				in.triples = append(in.triples, a, b, c)
			}
			nxt = append(nxt, d)
		}
		cur = nxt
	}
	return cur[0]
}

func hexInts(l []int) string {
	var sb strings.Builder
	for i, v := range l {
		if i > 0 {
			sb.WriteByte(' ')
		}
		sb.WriteString(strconv.FormatInt(int64(v), 16))
	}
	return sb.String()
}

// strs renders a list of hex numbers as a Coq list of string chunks (whole numbers per chunk).
func strs(l []int) string {
	var chunks []string
	for i := 0; i < len(l); i += 150 {
		e := i + 150
		if e > len(l) {
			e = len(l)
		}
		chunks = append(chunks, `"`+hexInts(l[i:e])+`"`)
	}
	return hlib.List(chunks)
}

// idList renders leaf ids: (LSeq n) when they are 1..n.
func idList(l []int) string {
	for i, v := range l {
		if v != i+1 {
			return "(LIds " + strs(l) + ")"
		}
	}
	return fmt.Sprintf("(LSeq %s)", hlib.N(uint64(len(l))))
}

// tableTerm renders the hash table: TCanon when the interned reference tree over the
// leaves has exactly the canonical numbering (every digest new, level by level).
func (in *intern) tableTerm(lids []int) string {
	mx := 0
	for _, v := range lids {
		if v > mx {
			mx = v
		}
	}
	next := mx + 1
	cur := append([]int(nil), lids...)
	var canon []int
	for len(cur) > 1 {
		if len(cur)%2 == 1 {
			cur = append(cur, cur[len(cur)-1])
		}
		var nxt []int
		for i := 0; i < len(cur); i += 2 {
			canon = append(canon, cur[i], cur[i+1], next)
			nxt = append(nxt, next)
			next++
		}
		cur = nxt
	}
	same := len(canon) == len(in.triples)
	for i := 0; same && i < len(canon); i++ {
		same = canon[i] == in.triples[i]
	}
	if same {
		return "TCanon"
	}
	return "(TExplicit " + strs(in.triples) + ")"
}

// ---------------------------------------------------------------- child mode

type childChainOut struct {
	Title string `json:"title"`
	Start int32  `json:"start"`
	Count int32  `json:"count"`
	Hash  string `json:"hash"`
}

type childAns struct {
	Root     string          `json:"root,omitempty"` // hex, "" = nil
	Nil      bool            `json:"nil,omitempty"`
	Panic    string          `json:"panic,omitempty"`
	Root2    string          `json:"root2,omitempty"` // CalcMerkleRoot
	Children []childChainOut `json:"children,omitempty"`
}

type childOut struct {
	NumCPU int        `json:"numcpu"`
	Ans    []childAns `json:"ans"`
}

var cfgCache *types.Chain33Config
var forkHeight int64 = 100000000

func getCfg() *types.Chain33Config {
	if cfgCache == nil {
		cfgCache = types.NewChain33Config(types.GetDefaultCfgstring())
	}
	return cfgCache
}

func safeRoot(l [][]byte) (root []byte, pmsg string) {
	defer func() {
		if e := recover(); e != nil {
			pmsg = fmt.Sprint(e)
			root = nil
		}
	}()
	return merkle.GetMerkleRoot(clone(l)), ""
}

func answer(seed uint64, j job) (a childAns) {
	defer func() {
		if e := recover(); e != nil {
			a = childAns{Panic: fmt.Sprint(e)}
		}
	}()
	if j.Kind == "multi" {
		txs := make([]*types.Transaction, len(j.Txs))
		for i, d := range j.Txs {
			txs[i] = mkTx(seed, d)
		}
		cfg := getCfg()
		root, cs := merkle.CalcMultiLayerMerkleInfo(cfg, forkHeight, txs)
		a.Root = hex.EncodeToString(root)
		a.Nil = root == nil
		a.Root2 = hex.EncodeToString(merkle.CalcMerkleRoot(cfg, forkHeight, txs))
		for _, c := range cs {
			a.Children = append(a.Children, childChainOut{c.Title, c.StartIndex, c.TxCount, hex.EncodeToString(c.ChildHash)})
		}
		return a
	}
	root, p := safeRoot(leavesOf(seed, j.Leaves))
	a.Root = hex.EncodeToString(root)
	a.Nil = root == nil
	a.Panic = p
	return a
}

func wantsChild(j job) bool { return j.Kind == "root" || j.Kind == "root-rep" || j.Kind == "multi" }

func runChild(opts hlib.Opts, k int, only int) {
	js := genJobs(opts.Seed, opts.Thorough())
	out := childOut{NumCPU: runtime.NumCPU(), Ans: make([]childAns, len(js))}
	for i, j := range js {
		if !wantsChild(j) || (only >= 0 && i != only) {
			continue
		}
		out.Ans[i] = answer(opts.Seed, j)
	}
	b, _ := json.Marshal(out)
	if err := os.WriteFile(filepath.Join(opts.OutDir, fmt.Sprintf("child_%d.json", k)), b, 0o644); err != nil {
		panic(err)
	}
}

// ---------------------------------------------------------------- parent

func unhex(s string, isNil bool) []byte {
	if isNil {
		return nil
	}
	b, _ := hex.DecodeString(s)
	if b == nil {
		b = []byte{}
	}
	return b
}

var zero32 = make([]byte, 32)

func emitRoot(o *hlib.Out, in replayIn, widths []int, answers map[int]*childOut) {
	j := in.J
	leaves := leavesOf(in.Seed, j.Leaves)
	it := newIntern()
	lids := it.idsOf(leaves)
	it.refTree(leaves)
	tb := it.tableTerm(lids) // before any implementation value is interned
	var pars []string
	impl := map[string]interface{}{}
	for _, k := range widths {
		a := answers[k].Ans[in.Job]
		rid := it.id(unhex(a.Root, a.Nil))
		if a.Panic != "" {
			rid = it.id([]byte("panic:" + a.Panic))
		}
		pars = append(pars, hlib.Pair(hlib.Z(int64(k)), hlib.N(uint64(rid))))
		impl[fmt.Sprintf("root@%d", k)] = a.Root
	}
	cr, cm, _ := merkle.Computation(clone(leaves), 1, 0)
	impl["comp_root"] = hex.EncodeToString(cr)
	impl["mutated"] = cm
	var fe []string
	for _, fl := range []int{0, 2, 3, 4, -1} {
		r, _, b := merkle.Computation(clone(leaves), fl, 0)
		fe = append(fe, fmt.Sprintf("(%s, %s, %s)", hlib.Z(int64(fl)), hlib.N(uint64(it.id(r))), hlib.N(uint64(len(b)))))
	}
	kind := j.Kind
	if j.Kind == "root" {
		switch {
		case len(leaves) <= 80:
			kind = "root-seq(n<=80)"
		case len(leaves) <= 512:
			kind = "root-par(81..512)"
		default:
			kind = "root-par(>512)"
		}
	}
	term := hlib.App("CRoot", idList(lids), tb, hlib.List(pars),
		hlib.N(uint64(it.id(cr))), hlib.Bool(cm), hlib.List(fe))
	o.Emit(kind, len(leaves) >= 2, term, in, impl)
}

func emitPair(o *hlib.Out, in replayIn) {
	j := in.J
	l1, l2 := leavesOf(in.Seed, j.Leaves), leavesOf(in.Seed, j.L2)
	it := newIntern()
	i1, i2 := it.idsOf(l1), it.idsOf(l2)
	it.refTree(l1)
	it.refTree(l2)
	r1, m1, _ := merkle.Computation(clone(l1), 1, 0)
	r2, m2, _ := merkle.Computation(clone(l2), 1, 0)
	term := hlib.App("CPair", idList(i1), idList(i2), strs(it.triples),
		hlib.N(uint64(it.id(r1))), hlib.N(uint64(it.id(r2))), hlib.Bool(m1), hlib.Bool(m2))
	o.Emit(j.Kind, len(l1) >= 2, term, in, map[string]interface{}{
		"root1": hex.EncodeToString(r1), "root2": hex.EncodeToString(r2), "mutated1": m1, "mutated2": m2,
		"same_root": bytes.Equal(r1, r2)})
}

func emitBranch(o *hlib.Out, in replayIn, only int) {
	j := in.J
	leaves := leavesOf(in.Seed, j.Leaves)
	it := newIntern()
	lids := it.idsOf(leaves)
	it.refTree(leaves)
	ls, tb := idList(lids), it.tableTerm(lids)
	root, _ := safeRoot(leaves)
	for pi, p := range j.Pos {
		if only >= 0 && pi != only {
			continue
		}
		br := merkle.GetMerkleBranch(clone(leaves), uint32(p))
		rbr, rbb := merkle.GetMerkleRootAndBranch(clone(leaves), uint32(p))
		var fb []byte
		if p < len(leaves) {
			fb = merkle.GetMerkleRootFromBranch(br, leaves[p], uint32(p))
		}
		sub := in
		sub.Sub = pi
		kind := j.Kind
		if p >= len(leaves) {
			kind = "branch-out-of-range"
		}
		term := hlib.App("CBranch", ls, tb, hlib.N(uint64(p)), strs(it.idsOf(br)),
			hlib.N(uint64(it.id(rbr))), strs(it.idsOf(rbb)), hlib.N(uint64(it.id(fb))), hlib.N(uint64(it.id(root))))
		o.Emit(kind, len(leaves) >= 2 && p < len(leaves), term, sub, map[string]interface{}{
			"branch_len": len(br), "root": hex.EncodeToString(root), "from_branch": hex.EncodeToString(fb)})
	}
}

func emitMulti(o *hlib.Out, in replayIn, widths []int, answers map[int]*childOut) {
	j := in.J
	txs := make([]*types.Transaction, len(j.Txs))
	full := make([][]byte, len(j.Txs))
	for i, d := range j.Txs {
		txs[i] = mkTx(in.Seed, d)
		full[i] = txs[i].FullHash()
	}
	it := newIntern()
	var txl []int
	titleID := map[string]int{types.MainChainName: 0}
	for i, d := range j.Txs {
		txl = append(txl, d.Title, it.id(full[i]))
		if d.Title > 0 {
			titleID[titleOf(d.Title)] = d.Title
		}
	}
	it.refTree(full)
	rootID := func(b []byte, isNil bool) int {
		if isNil {
			return 0
		}
		if len(txs) == 0 && bytes.Equal(b, zero32) {
			return 0 // zeroHash for the empty list
		}
		return it.id(b)
	}
	var pars []string
	impl := map[string]interface{}{}
	for _, k := range widths {
		a := answers[k].Ans[in.Job]
		if a.Panic != "" {
			a.Root = hex.EncodeToString([]byte("panic:" + a.Panic))
		}
		var quad []int
		var hashes [][]byte
		for _, c := range a.Children {
			hb := unhex(c.Hash, false)
			s, n := int(c.Start), int(c.Count)
			if s >= 0 && n >= 0 && s+n <= len(full) {
				it.refTree(full[s : s+n])
			}
			tid, ok := titleID[c.Title]
			if !ok {
				tid = 999999
			}
			quad = append(quad, tid, s, n, it.id(hb))
			hashes = append(hashes, hb)
		}
		it.refTree(hashes)
		pars = append(pars, hlib.Pair(hlib.Z(int64(k)),
			fmt.Sprintf("(%s, %s, %s)", hlib.N(uint64(rootID(unhex(a.Root, a.Nil), a.Nil))),
				hlib.N(uint64(rootID(unhex(a.Root2, false), false))), strs(quad))))
		impl[fmt.Sprintf("root@%d", k)] = a.Root
		impl[fmt.Sprintf("nchildren@%d", k)] = len(a.Children)
	}
	// proofs as blockchain/query_tx.go getMultiLayerProofs builds them (two GetMerkleBranch calls), in this process
	var proofs []string
	if len(txs) > 0 && len(txs) <= 64 {
		_, cs := merkle.CalcMultiLayerMerkleInfo(getCfg(), forkHeight, txs)
		var chashes [][]byte
		for _, c := range cs {
			chashes = append(chashes, c.ChildHash)
		}
		for idx := range txs {
			for ci, c := range cs {
				s, n := int(c.StartIndex), int(c.TxCount)
				if idx < s || idx >= s+n || s+n > len(full) {
					continue
				}
				if len(cs) == 1 {
					b := merkle.GetMerkleBranch(clone(full), uint32(idx))
					proofs = append(proofs, fmt.Sprintf("(%s, %s, %s, %s, %s)", hlib.N(uint64(idx)), hlib.N(uint64(idx)),
						strs(it.idsOf(b)), hlib.N(0), "[]"))
					continue
				}
				b1 := merkle.GetMerkleBranch(clone(full[s:s+n]), uint32(idx-s))
				b2 := merkle.GetMerkleBranch(clone(chashes), uint32(ci))
				proofs = append(proofs, fmt.Sprintf("(%s, %s, %s, %s, %s)", hlib.N(uint64(idx)), hlib.N(uint64(idx-s)),
					strs(it.idsOf(b1)), hlib.N(uint64(ci)), strs(it.idsOf(b2))))
			}
		}
	}
	term := hlib.App("CMulti", strs(txl), strs(it.triples), hlib.List(pars), hlib.List(proofs))
	nchains := 0
	if len(widths) > 0 {
		nchains = len(answers[widths[0]].Ans[in.Job].Children)
	}
	kind := "multi-1chain"
	if nchains > 1 {
		kind = "multi-chains"
	}
	if len(txs) == 0 {
		kind = "multi-empty"
	}
	o.Emit(kind, len(txs) >= 2, term, in, impl)
}

func spawnChildren(opts hlib.Opts, widths []int, only int) map[int]*childOut {
	self, err := os.Executable()
	if err != nil {
		panic(err)
	}
	res := map[int]*childOut{}
	type done struct {
		k   int
		err error
		out string
	}
	ch := make(chan done, len(widths))
	sem := make(chan struct{}, 4)
	for _, k := range widths {
		go func(k int) {
			sem <- struct{}{}
			defer func() { <-sem }()
			extra := fmt.Sprintf("child:%d:%d", k, only)
			cmd := exec.Command("taskset", "-c", fmt.Sprintf("0-%d", k-1), self, "--seed", fmt.Sprint(opts.Seed),
				"--tier", opts.Tier, "--out", opts.OutDir, "--extra", extra)
			b, err := cmd.CombinedOutput()
			ch <- done{k, err, string(b)}
		}(k)
	}
	for range widths {
		d := <-ch
		if d.err != nil {
			fmt.Fprintf(os.Stderr, "child width %d failed: %v\n%s\n", d.k, d.err, d.out)
			os.Exit(3)
		}
	}
	for _, k := range widths {
		p := filepath.Join(opts.OutDir, fmt.Sprintf("child_%d.json", k))
		b, err := os.ReadFile(p)
		if err != nil {
			panic(err)
		}
		var co childOut
		if err := json.Unmarshal(b, &co); err != nil {
			panic(err)
		}
		if co.NumCPU != k {
			fmt.Fprintf(os.Stderr, "child under taskset width %d saw NumCPU=%d\n", k, co.NumCPU)
			os.Exit(4)
		}
		os.Remove(p)
		res[k] = &co
	}
	return res
}

func main() {
	opts := hlib.ParseFlags()
	if strings.HasPrefix(opts.Extra, "child:") {
		parts := strings.Split(opts.Extra, ":")
		k, _ := strconv.Atoi(parts[1])
		only := -1
		if len(parts) > 2 {
			only, _ = strconv.Atoi(parts[2])
		}
		runChild(opts, k, only)
		return
	}
	if opts.Extra == "serve-only" { // development aid: only the node stream
		o := hlib.NewOut(opts.OutDir)
		defer o.Close()
		fmt.Printf("hC18: %d served blocks\n", runServe(o, opts, 0))
		return
	}
	only, onlySub := -1, -1
	if opts.Replay != "" {
		var in replayIn
		if err := hlib.ReplayInput(opts.Replay, &in); err != nil {
			panic(err)
		}
		opts.Seed, opts.Tier = in.Seed, in.Tier
		only, onlySub = in.Job, in.Sub
		if in.Serve > 0 {
			o := hlib.NewOut(opts.OutDir)
			defer o.Close()
			n := runServe(o, opts, in.Serve)
			fmt.Printf("hC18: replay of serve plan %d, %d cases\n", in.Serve, n)
			return
		}
	}
	avail := runtime.NumCPU()
	cand := []int{1, 2, 3, 4, 8, 16}
	if opts.Thorough() {
		cand = []int{1, 2, 3, 4, 5, 6, 7, 8, 9, 10, 11, 12, 13, 14, 15, 16}
	}
	var widths []int
	for _, k := range cand {
		if k <= avail {
			widths = append(widths, k)
		}
	}
	if len(widths) < 3 {
		fmt.Fprintln(os.Stderr, "fewer than 3 CPUs available: the parallel root cannot be exercised with different worker counts")
		os.Exit(5)
	}
	o := hlib.NewOut(opts.OutDir)
	defer o.Close()
	answers := spawnChildren(opts, widths, only)
	js := genJobs(opts.Seed, opts.Thorough())
	// emission order: spread the expensive jobs (many leaves x every worker count) evenly over
	// the cheap ones so that the evaluation shards are balanced
	var heavy, light []int
	for i, j := range js {
		if len(j.Leaves) > 1500 || len(j.Txs) > 150 {
			heavy = append(heavy, i)
		} else {
			light = append(light, i)
		}
	}
	var order []int
	per := len(light)
	if len(heavy) > 0 {
		per = len(light)/len(heavy) + 1
	}
	hi := 0
	for k, i := range light {
		order = append(order, i)
		if (k+1)%per == 0 && hi < len(heavy) {
			order = append(order, heavy[hi])
			hi++
		}
	}
	order = append(order, heavy[hi:]...)
	for _, i := range order {
		j := js[i]
		if only >= 0 && i != only {
			continue
		}
		in := replayIn{Seed: opts.Seed, Tier: opts.Tier, Job: i, J: j}
		switch {
		case j.Kind == "root" || j.Kind == "root-rep":
			emitRoot(o, in, widths, answers)
		case strings.HasPrefix(j.Kind, "pair-"):
			emitPair(o, in)
		case strings.HasPrefix(j.Kind, "branch-"):
			emitBranch(o, in, onlySub)
		case j.Kind == "multi":
			emitMulti(o, in, widths, answers)
		}
	}
	nserve := 0
	if only < 0 {
		nserve = runServe(o, opts, 0)
	}
	fmt.Printf("hC18: %d jobs, %d cases (%d served blocks), widths %v\n", len(js), o.Count(), nserve, widths)
}
