// hC12: write-permission rule of the executor (allow.go / execenv.go / types name helpers).
//
// (a) direct calls of FindExecer, GetExecKey, GetParaExec, GetParaExecName, GetRealExecName,
//
//	IsAllowExecName, isAllowKeyWrite, isAllowExec/getRealExecName, isAllowLocalKey on generated
//	(title, fork, executor name, key) tuples (unexported ones through executor/access_verif.go);
//
// (b) end to end: synthetic drivers registered with drivers.Register, transactions executed by a
//
//	test node through EventExecTxList (state keys; single transactions here, transaction groups in
//	group.go) and EventAddBlock (local keys).
package main

import (
	"encoding/hex"
	"encoding/json"
	"fmt"
	"os"
	"sort"
	"strings"
	"time"

	"github.com/33cn/chain33/client"
	"github.com/33cn/chain33/common/address"
	"github.com/33cn/chain33/common/crypto"
	"github.com/33cn/chain33/common/log"
	"github.com/33cn/chain33/executor"
	"github.com/33cn/chain33/queue"
	_ "github.com/33cn/chain33/system"
	drivers "github.com/33cn/chain33/system/dapp"
	"github.com/33cn/chain33/types"
	"github.com/33cn/chain33/util/testnode"
	"github.com/pkg/errors"
	"verifharness/hlib"
)

// ---------------------------------------------------------------- synthetic drivers

var synNames = []string{"token", "config", "coinsx", "tok", "vsa"}
var realNames = []string{"coins", "manage", "none"}

var friendYes = map[string]bool{}
var friendCalls [][2]string
var synRan []string // names of synthetic drivers whose Exec ran (in order)

type kvS struct {
	K string `json:"k"`
	V string `json:"v"`
}

// script is the payload of a synthetic transaction.
type script struct {
	Err     bool     `json:"err,omitempty"`    // Exec returns an error
	KV      []kvS    `json:"kv,omitempty"`     // receipt KV
	Direct  []kvS    `json:"direct,omitempty"` // stateDB.Set during Exec
	Probe   []string `json:"probe,omitempty"`  // state keys to read (reported in a log)
	Local   []kvS    `json:"local,omitempty"`  // ExecLocal result KV
	LocNil  bool     `json:"locnil,omitempty"` // ExecLocal returns a nil KV list
	LDirect []string `json:"ldirect,omitempty"`
	Salt    int      `json:"salt,omitempty"`
}

type synDriver struct {
	drivers.DriverBase
	name string
}

func newSyn(name string) drivers.DriverCreate {
	return func() drivers.Driver {
		d := &synDriver{name: name}
		d.SetChild(d)
		return d
	}
}

func (d *synDriver) GetDriverName() string { return d.name }

func (d *synDriver) IsFriend(self, key []byte, tx *types.Transaction) bool {
	friendCalls = append(friendCalls, [2]string{d.name, string(self)})
	return friendYes[d.name]
}

func (d *synDriver) CheckTx(tx *types.Transaction, index int) error { return nil }

const probeLogTy = 7777

func (d *synDriver) Exec(tx *types.Transaction, index int) (*types.Receipt, error) {
	var s script
	if err := json.Unmarshal(tx.Payload, &s); err != nil {
		return nil, types.ErrActionNotSupport
	}
	synRan = append(synRan, d.name)
	ranSalt[s.Salt] = true
	for _, kv := range s.Direct {
		if err := d.GetStateDB().Set([]byte(kv.K), []byte(kv.V)); err != nil {
			return nil, err
		}
	}
	if s.Err {
		return nil, types.ErrInvalidParam
	}
	r := &types.Receipt{Ty: types.ExecOk}
	for _, kv := range s.KV {
		r.KV = append(r.KV, &types.KeyValue{Key: []byte(kv.K), Value: []byte(kv.V)})
	}
	if s.Probe != nil {
		vals := make([]*string, len(s.Probe))
		for i, k := range s.Probe {
			v, err := d.GetStateDB().Get([]byte(k))
			if err == nil && v != nil {
				h := hex.EncodeToString(v)
				vals[i] = &h
			}
		}
		b, _ := json.Marshal(vals)
		r.Logs = append(r.Logs, &types.ReceiptLog{Ty: probeLogTy, Log: b})
	}
	return r, nil
}

func (d *synDriver) ExecLocal(tx *types.Transaction, rd *types.ReceiptData, index int) (*types.LocalDBSet, error) {
	var s script
	if err := json.Unmarshal(tx.Payload, &s); err != nil {
		return &types.LocalDBSet{}, nil
	}
	for _, k := range s.LDirect {
		_ = d.GetLocalDB().Set([]byte(k), []byte("d"))
	}
	set := &types.LocalDBSet{}
	if !s.LocNil {
		set.KV = []*types.KeyValue{}
		for _, kv := range s.Local {
			set.KV = append(set.KV, &types.KeyValue{Key: []byte(kv.K), Value: []byte(kv.V)})
		}
	}
	return set, nil
}

func (d *synDriver) ExecDelLocal(tx *types.Transaction, rd *types.ReceiptData, index int) (*types.LocalDBSet, error) {
	return &types.LocalDBSet{}, nil
}

// ---------------------------------------------------------------- inputs

type inp struct {
	Op     string   `json:"op"`
	Title  string   `json:"title,omitempty"`
	Fork   bool     `json:"fork,omitempty"`
	Yes    []string `json:"yes,omitempty"`
	Key    string   `json:"key,omitempty"`
	Real   string   `json:"real,omitempty"`
	Exec   string   `json:"exec,omitempty"`
	Name   string   `json:"name,omitempty"`
	Execs  []string `json:"execs,omitempty"`
	Txs    []script `json:"txs,omitempty"`
	Height int64    `json:"height,omitempty"`
	Layout []int    `json:"layout,omitempty"` // gblock: 1 = single transaction, k = group of k
}

func bx(s string) string { return hlib.Hx([]byte(s)) }

func lst(ss []string) string {
	it := make([]string, len(ss))
	for i, s := range ss {
		it[i] = bx(s)
	}
	return hlib.List(it)
}

func kvLst(kvs []kvS) string {
	it := make([]string, len(kvs))
	for i, kv := range kvs {
		it[i] = hlib.Pair(bx(kv.K), bx(kv.V))
	}
	return hlib.List(it)
}

func yesList(yes map[string]bool) []string {
	var l []string
	for _, n := range synNames {
		if yes[n] {
			l = append(l, n)
		}
	}
	return l
}

// ---------------------------------------------------------------- direct-call environment

type env struct {
	cfg    *types.Chain33Config
	api    client.QueueProtocolAPI
	allReg []string
}

const forkHeight = 100

func heightFor(fork bool) int64 {
	if fork {
		return forkHeight + 50
	}
	return forkHeight - 50
}

func newEnv() *env {
	cfg := types.NewChain33Config(types.GetDefaultCfgstring())
	cfg.SetFork("ForkExecKey", forkHeight)
	_ = executor.New(cfg) // registers the system drivers (coins, manage, none) once
	q := queue.New("channel")
	q.SetConfig(cfg)
	api, err := client.New(q.Client(), nil)
	if err != nil {
		panic(err)
	}
	return &env{cfg: cfg, api: api, allReg: append(append([]string{}, realNames...), synNames...)}
}

func safeExecAddr(name string) (a string) {
	defer func() {
		if r := recover(); r != nil {
			a = "PANIC"
		}
	}()
	return drivers.ExecAddress(name)
}

func errCode(err error) uint64 {
	switch errors.Cause(err) {
	case nil:
		return 0
	case types.ErrLocalPrefix:
		return 1
	case types.ErrLocalKeyLen:
		return 2
	}
	return 9
}

func callsTerm(calls [][2]string) string {
	it := make([]string, len(calls))
	for i, c := range calls {
		it[i] = hlib.Pair(bx(c[0]), bx(c[1]))
	}
	return hlib.List(it)
}

func (e *env) doName(o *hlib.Out, kind string, in inp) {
	e.cfg.SetTitleOnlyForTest(in.Title)
	execer, name := []byte(in.Exec), []byte(in.Name)
	para := e.cfg.GetParaExec(execer)
	pn := types.GetParaExecName(execer)
	real := types.GetRealExecName(execer)
	al := types.IsAllowExecName(name, execer)
	o.Emit(kind, al || string(real) != in.Exec || string(para) != in.Exec,
		hlib.App("CName", bx(in.Title), bx(in.Exec), bx(in.Name),
			bx(string(para)), bx(string(pn)), bx(string(real)), hlib.Bool(al)),
		in, map[string]interface{}{"para": string(para), "paraname": string(pn), "real": string(real), "allow": al})
}

func (e *env) doKey(o *hlib.Out, kind string, in inp) {
	key := []byte(in.Key)
	ex, err := types.FindExecer(key)
	code := uint64(0)
	switch err {
	case nil:
	case types.ErrMavlKeyNotStartWithMavl:
		code = 1
	case types.ErrNoExecerInMavlKey:
		code = 2
	default:
		code = 9
	}
	addr, ok := types.GetExecKey(key)
	o.Emit(kind, err == nil,
		hlib.App("CKey", bx(in.Key), hlib.N(code), bx(string(ex)), hlib.Opt(ok, bx(addr))),
		in, map[string]interface{}{"find": code, "execer": string(ex), "execkey": addr, "ok": ok})
}

func setYes(yes []string) {
	friendYes = map[string]bool{}
	for _, y := range yes {
		friendYes[y] = true
	}
}

func (e *env) doAllow(o *hlib.Out, kind string, in inp) {
	e.cfg.SetTitleOnlyForTest(in.Title)
	setYes(in.Yes)
	friendCalls = nil
	tx := &types.Transaction{Execer: []byte(in.Exec), Payload: []byte("x")}
	var res bool
	func() {
		defer func() {
			if r := recover(); r != nil {
				friendCalls = append(friendCalls, [2]string{"PANIC", fmt.Sprint(r)})
			}
		}()
		ve := executor.NewVerifExecutor(e.api, heightFor(in.Fork))
		res = ve.IsAllowKeyWrite([]byte(in.Key), []byte(in.Real), tx, 0)
	}()
	o.Emit(kind, res,
		hlib.App("CAllow", bx(in.Title), hlib.Bool(in.Fork), lst(in.Yes),
			bx(in.Key), bx(in.Real), bx(in.Exec), bx(safeExecAddr(in.Exec)), bx(safeExecAddr(in.Real)),
			hlib.Bool(res), callsTerm(friendCalls)),
		in, map[string]interface{}{"res": res, "calls": friendCalls})
}

func (e *env) doAllowExec(o *hlib.Out, kind string, in inp) {
	e.cfg.SetTitleOnlyForTest(in.Title)
	setYes(in.Yes)
	tx := &types.Transaction{Execer: []byte(in.Exec), Payload: []byte("x")}
	var res bool
	var real []byte
	func() {
		defer func() {
			if r := recover(); r != nil {
				friendCalls = append(friendCalls, [2]string{"PANIC", fmt.Sprint(r)})
			}
		}()
		ve := executor.NewVerifExecutor(e.api, heightFor(in.Fork))
		real = ve.GetRealExecName(tx, 0)
		friendCalls = nil
		res = ve.IsAllowExec([]byte(in.Key), tx, 0)
	}()
	o.Emit(kind, res,
		hlib.App("CAllowExec", bx(in.Title), hlib.Bool(in.Fork), lst(in.Yes),
			bx(in.Key), bx(in.Exec), bx(safeExecAddr(in.Exec)), bx(safeExecAddr(string(real))),
			bx(string(real)), hlib.Bool(res), callsTerm(friendCalls)),
		in, map[string]interface{}{"real": string(real), "res": res, "calls": friendCalls})
}

func (e *env) doLocal(o *hlib.Out, kind string, in inp) {
	err := executor.VerifIsAllowLocalKey(e.cfg, []byte(in.Exec), []byte(in.Key))
	c := errCode(err)
	o.Emit(kind, c == 0, hlib.App("CLocal", bx(in.Exec), bx(in.Key), hlib.N(c)), in, map[string]interface{}{"err": c})
}

// ---------------------------------------------------------------- generators

var titles = []string{"local", "local", "user.p.x.", "user.p.x.", "user.p.xy.", "user.p.x", "user.p.a.b", "user.p.."}

var baseNames = []string{"coins", "coinsx", "coin", "token", "tok", "tokenx", "manage", "config", "none", "vsa",
	"create", "exec", "mavl", "", "a-b", "user.", "user..a", "user.p.", "user.token", "user.token.abc", "user.vsa",
	"user.coinsx.q", "paracross"}

func genName(r *hlib.Rng) string {
	switch r.Intn(10) {
	case 0, 1, 2, 3:
		return hlib.Pick(r, baseNames)
	case 4, 5, 6:
		t := hlib.Pick(r, []string{"user.p.x.", "user.p.x.", "user.p.xy.", "user.p.y.", "user.p.x", "user.p.a.b", "user.p.."})
		return t + hlib.Pick(r, baseNames)
	case 7:
		return "user.p.x.user.p.y." + hlib.Pick(r, baseNames)
	case 8:
		return hlib.Pick(r, synNames)
	default:
		n := hlib.Pick(r, baseNames)
		switch r.Intn(3) {
		case 0:
			if len(n) > 0 {
				return n[:len(n)-1]
			}
			return n
		case 1:
			return n + hlib.Pick(r, []string{"x", ".", "-", "#a", ".b.c"})
		default:
			return "user." + n + hlib.Pick(r, []string{"", ".z", "."})
		}
	}
}

// genKey builds a state key around the executor names that matter for this case.
func genKey(r *hlib.Rng, title, txexec, real string) string {
	own := txexec
	if strings.HasPrefix(txexec, title) && strings.Count(title, ".") == 3 {
		own = txexec[len(title):]
	}
	prefix := "mavl-"
	if r.Chance(1, 8) {
		prefix = hlib.Pick(r, []string{"mavl", "mavl--", "Mavl-", "LODB-", "", "mavl:", "mav"})
	}
	var ex string
	switch r.Intn(8) {
	case 0, 1:
		ex = own
	case 2:
		ex = txexec
	case 3:
		ex = real
	case 4:
		ex = hlib.Pick(r, synNames)
	case 5:
		ex = own + hlib.Pick(r, []string{"x", ".", "s"})
	case 6:
		if len(own) > 1 {
			ex = own[:len(own)-1]
		} else {
			ex = "coins"
		}
	default:
		ex = genName(r)
	}
	if r.Chance(1, 10) {
		ex = hlib.Pick(r, []string{"create", "config", "coins", "manage", "token"})
	}
	sep := "-"
	if r.Chance(1, 10) {
		sep = hlib.Pick(r, []string{"", "--", ":", "."})
	}
	addr := func() string {
		switch r.Intn(6) {
		case 0, 1:
			return safeExecAddr(txexec)
		case 2:
			return safeExecAddr(real)
		case 3:
			return safeExecAddr(own)
		case 4:
			return safeExecAddr(hlib.Pick(r, synNames))
		default:
			return hlib.Pick(r, []string{"", "addr", "a-b"})
		}
	}
	var tail string
	switch r.Intn(12) {
	case 0:
		tail = ""
	case 1:
		tail = "x"
	case 2, 3, 4:
		tail = "bty-exec-" + addr() + ":" + hlib.Pick(r, []string{"", "u", "u:v", "u-v"})
	case 5:
		tail = "bty-exec-" + addr()
	case 6:
		tail = "exec-" + addr() + ":u"
	case 7:
		tail = "a-b-exec-" + addr() + ":u"
	case 8:
		tail = hlib.Pick(r, []string{"-exec-", "bty-exec", "bty-execs-", "bty-Exec-", "bty--exec-"}) + addr() + ":u"
	case 9:
		tail = "token-" + hlib.Pick(r, []string{"", "SYM", "SYM-x"})
	case 10:
		tail = "bty-exec-" + addr() + hlib.Pick(r, []string{";", ":", "::", "-:"})
	default:
		tail = hlib.Pick(r, []string{"a", "a-b", "-", "a:b", "exec", "exec-"})
	}
	return prefix + ex + sep + tail
}

func genYes(r *hlib.Rng) []string {
	var y []string
	for _, n := range synNames {
		if r.Chance(1, 3) {
			y = append(y, n)
		}
	}
	return y
}

func genReal(r *hlib.Rng, txexec string) string {
	switch r.Intn(5) {
	case 0, 1, 2:
		return string(types.GetRealExecName([]byte(txexec)))
	case 3:
		return txexec
	default:
		return genName(r)
	}
}

func genLocalKey(r *hlib.Rng, execer string) string {
	real := string(types.GetRealExecName([]byte(execer)))
	p := "LODB-"
	if r.Chance(1, 6) {
		p = hlib.Pick(r, []string{"LODB", "LODC-", "lodb-", "LODB_", "", "LODB--", "mavl-", "XLODB-"})
	}
	var e string
	switch r.Intn(7) {
	case 0, 1:
		e = execer
	case 2, 3:
		e = real
	case 4:
		if len(execer) > 0 {
			e = execer[:len(execer)-1]
		}
	case 5:
		e = execer + hlib.Pick(r, []string{"x", "-", "."})
	default:
		e = genName(r)
	}
	sep := "-"
	if r.Chance(1, 6) {
		sep = hlib.Pick(r, []string{"", "_", "--", ":"})
	}
	rest := hlib.Pick(r, []string{"", "", "x", "-", "abc-def", "k:1", "xy"})
	return p + e + sep + rest
}

func (e *env) runDirect(o *hlib.Out, r *hlib.Rng, thorough bool) {
	mul := 1
	if thorough {
		mul = 12
	}
	// fixed witnesses first (legacy exceptions, prefix confusion probes)
	for _, fork := range []bool{false, true} {
		for _, t := range []string{"local", "user.p.x."} {
			for _, w := range [][2]string{{"manage", "mavl-config-x"}, {"token", "mavl-create-token-SYM"},
				{t + "manage", "mavl-config-"}, {t + "token", "mavl-create-token-"},
				{"coins", "mavl-coinsx-a"}, {"coinsx", "mavl-coins-a"}, {"tok", "mavl-token-a"}, {"token", "mavl-tok-a"},
				{"token", "mavl-token-a"}, {"user.p.x.token", "mavl-token-a"}, {"user.p.x.token", "mavl-user.p.x.token-a"}} {
				in := inp{Op: "allow", Title: t, Fork: fork, Key: w[1], Exec: w[0], Real: string(types.GetRealExecName([]byte(w[0])))}
				e.doAllow(o, "allow-fixed", in)
				in.Op = "allowexec"
				e.doAllowExec(o, "allowexec-fixed", in)
			}
		}
	}
	for i := 0; i < 600*mul; i++ {
		t := hlib.Pick(r, titles)
		ex := genName(r)
		var name string
		switch r.Intn(4) {
		case 0:
			name = ex
		case 1:
			name = string(types.GetRealExecName([]byte(ex)))
		default:
			name = genName(r)
		}
		e.doName(o, "name", inp{Op: "name", Title: t, Exec: ex, Name: name})
	}
	for i := 0; i < 800*mul; i++ {
		t := hlib.Pick(r, titles)
		ex := genName(r)
		e.doKey(o, "key", inp{Op: "key", Key: genKey(r, t, ex, genReal(r, ex))})
	}
	for i := 0; i < 2400*mul; i++ {
		t := hlib.Pick(r, titles)
		ex := genName(r)
		real := genReal(r, ex)
		// guarded stream: post-fork heights only; unrestricted: both
		fork := true
		kind := "allow-postfork"
		if i%3 == 0 {
			fork = false
			kind = "allow-prefork"
			if r.Chance(1, 3) {
				ex = hlib.Pick(r, []string{"manage", "token", t + "manage", t + "token"})
				real = genReal(r, ex)
			}
		}
		e.doAllow(o, kind, inp{Op: "allow", Title: t, Fork: fork, Yes: genYes(r), Key: genKey(r, t, ex, real), Real: real, Exec: ex})
	}
	for i := 0; i < 1200*mul; i++ {
		t := hlib.Pick(r, titles)
		ex := genName(r)
		fork := i%3 != 0
		kind := "allowexec-postfork"
		if !fork {
			kind = "allowexec-prefork"
		}
		real := string(types.GetRealExecName([]byte(ex)))
		e.doAllowExec(o, kind, inp{Op: "allowexec", Title: t, Fork: fork, Yes: genYes(r), Key: genKey(r, t, ex, real), Exec: ex})
	}
	e.cfg.SetTitleOnlyForTest("local")
	for i := 0; i < 1200*mul; i++ {
		ex := genName(r)
		e.doLocal(o, "local", inp{Op: "local", Exec: ex, Key: genLocalKey(r, ex)})
	}
}

// ---------------------------------------------------------------- end to end

type node struct {
	mock *testnode.Chain33Mock
	cfg  *types.Chain33Config
	gen  *types.Block
	priv crypto.PrivKey
	feeK string
}

func newNode() *node {
	cfg := types.NewChain33Config(types.GetDefaultCfgstring())
	cfg.GetModuleConfig().BlockChain.Driver = "memdb"
	cfg.GetModuleConfig().Store.Driver = "memdb"
	cfg.GetModuleConfig().Wallet.Driver = "memdb"
	cfg.SetFork("ForkExecKey", forkHeight)
	m := testnode.NewWithConfig(cfg, nil)
	log.SetLogLevel("crit")
	cl := m.GetClient()
	_ = cl.Send(cl.NewMessage("consensus", types.EventMinerStop, nil), false)
	deadline := time.Now().Add(30 * time.Second)
	for m.GetBlockChain().GetBlockHeight() < 0 {
		if time.Now().After(deadline) {
			panic("genesis block not created")
		}
		time.Sleep(2 * time.Millisecond)
	}
	n := &node{mock: m, cfg: cfg, gen: m.GetBlock(0), priv: m.GetGenesisKey()}
	n.feeK = "mavl-" + cfg.GetCoinExec() + "-" + cfg.GetCoinSymbol() + "-" + m.GetGenesisAddress()
	return n
}

func (n *node) mkTx(execer string, s script, nonce int64) *types.Transaction {
	payload, _ := json.Marshal(s)
	tx := &types.Transaction{Execer: []byte(execer), Payload: payload, To: address.ExecAddress(execer)}
	tx, err := types.FormatTx(n.cfg, execer, tx)
	if err != nil {
		panic(err)
	}
	tx.Nonce = nonce
	tx.Sign(types.SECP256K1, n.priv)
	return tx
}

// allowUserList is types.AllowUserExec sorted, without duplicates.
func allowUserList() []string {
	seen := map[string]bool{}
	var allow []string
	for _, a := range types.AllowUserExec {
		if !seen[string(a)] {
			seen[string(a)] = true
			allow = append(allow, string(a))
		}
	}
	sort.Strings(allow)
	return allow
}

// doBlock executes the scripts through EventExecTxList.
func (n *node) doBlock(o *hlib.Out, kind string, in inp) {
	setYes(in.Yes)
	synRan = nil
	h := heightFor(in.Fork)
	var txs []*types.Transaction
	for i, s := range in.Txs {
		txs = append(txs, n.mkTx(in.Execs[i], s, int64(1000+i)))
	}
	list := &types.ExecTxList{
		StateHash:  n.gen.StateHash,
		ParentHash: n.gen.Hash(n.cfg),
		Txs:        txs,
		BlockTime:  n.gen.BlockTime + 10,
		Height:     h,
		Difficulty: uint64(n.gen.Difficulty),
	}
	cl := n.mock.GetClient()
	msg := cl.NewMessage("execs", types.EventExecTxList, list)
	if err := cl.Send(msg, true); err != nil {
		panic(err)
	}
	resp, err := cl.Wait(msg)
	var rs *types.Receipts
	if err == nil {
		rs, _ = resp.GetData().(*types.Receipts)
	}
	addrs := map[string]string{}
	var obs []string
	var probe []string
	implOut := []interface{}{}
	nontrivial := false
	for i, s := range in.Txs {
		ex := in.Execs[i]
		addrs[ex] = safeExecAddr(ex)
		real := string(types.GetRealExecName([]byte(ex)))
		addrs[real] = safeExecAddr(real)
		ty := uint64(99)
		var ikv []kvS
		var fee []kvS
		if rs != nil && i < len(rs.Receipts) {
			rc := rs.Receipts[i]
			ty = uint64(rc.Ty)
			for j, kv := range rc.KV {
				e := kvS{K: string(kv.Key), V: string(kv.Value)}
				ikv = append(ikv, e)
				if j == 0 && e.K == n.feeK {
					fee = append(fee, e)
				}
			}
			if ty == types.ExecOk && len(s.KV) > 0 {
				nontrivial = true
			}
			for _, lg := range rc.Logs {
				if lg.Ty == probeLogTy {
					var vals []*string
					_ = json.Unmarshal(lg.Log, &vals)
					for j, k := range s.Probe {
						if j < len(vals) && vals[j] != nil {
							b, _ := hex.DecodeString(*vals[j])
							probe = append(probe, hlib.Pair(bx(k), "(Some "+hlib.Hx(b)+")"))
						} else {
							probe = append(probe, hlib.Pair(bx(k), "None"))
						}
					}
				}
			}
		}
		var er string
		if s.Err {
			er = "ER_err"
		} else {
			var ms []string
			for _, d := range s.Direct {
				ms = append(ms, d.K)
			}
			er = hlib.App("ER_ok", hlib.N(types.ExecOk), kvLst(s.KV), lst(ms))
		}
		obs = append(obs, hlib.App("TxObs", bx(ex), kvLst(fee), er, hlib.N(ty), kvLst(ikv)))
		implOut = append(implOut, map[string]interface{}{"ty": ty, "keys": keysOf(ikv)})
	}
	var al []string
	names := make([]string, 0, len(addrs))
	for k := range addrs {
		names = append(names, k)
	}
	sort.Strings(names)
	for _, k := range names {
		al = append(al, hlib.Pair(bx(k), bx(addrs[k])))
	}
	o.Emit(kind, nontrivial,
		hlib.App("CBlock", bx(n.cfg.GetTitle()), hlib.Bool(in.Fork), lst(in.Yes),
			hlib.List(al), hlib.List(obs), hlib.List(probe)),
		in, map[string]interface{}{"receipts": implOut, "err": fmt.Sprint(err), "ran": synRan})
}

func keysOf(kvs []kvS) []string {
	var l []string
	for _, kv := range kvs {
		l = append(l, kv.K)
	}
	return l
}

// doLocalBlock sends EventAddBlock with ExecOk receipts.
func (n *node) doLocalBlock(o *hlib.Out, kind string, in inp) {
	var txs []*types.Transaction
	var rds []*types.ReceiptData
	emitted := map[string]bool{}
	for i, s := range in.Txs {
		txs = append(txs, n.mkTx(in.Execs[i], s, int64(5000+i)))
		rds = append(rds, &types.ReceiptData{Ty: types.ExecOk})
		for _, kv := range s.Local {
			emitted[kv.K] = true
		}
	}
	blk := &types.Block{
		ParentHash: n.gen.Hash(n.cfg),
		StateHash:  n.gen.StateHash,
		Height:     1,
		BlockTime:  n.gen.BlockTime + 10,
		Difficulty: n.gen.Difficulty,
		Txs:        txs,
	}
	detail := &types.BlockDetail{Block: blk, Receipts: rds, PrevStatusHash: n.gen.StateHash}
	cl := n.mock.GetClient()
	msg := cl.NewMessage("execs", types.EventAddBlock, detail)
	if err := cl.Send(msg, true); err != nil {
		panic(err)
	}
	resp, err := cl.Wait(msg)
	code := uint64(3)
	var keys []string
	if err == nil {
		if set, ok := resp.GetData().(*types.LocalDBSet); ok {
			code = 0
			for _, kv := range set.KV {
				if emitted[string(kv.Key)] {
					keys = append(keys, string(kv.Key))
				}
			}
		}
	} else if err == types.ErrNotAllowMemSetLocalKey {
		code = 1
	} else if err == types.ErrExecPanic {
		code = 2
	}
	var lt []string
	for i, s := range in.Txs {
		ks := "None"
		// the none driver (parachain names on the main chain) returns an empty set
		if synRunsFor(n.cfg, in.Execs[i]) && !s.LocNil {
			var l []string
			for _, kv := range s.Local {
				l = append(l, kv.K)
			}
			ks = "(Some " + lst(l) + ")"
		}
		lt = append(lt, hlib.App("LTx", bx(in.Execs[i]), ks, "[]"))
	}
	o.Emit(kind, code == 0 && len(keys) > 0,
		hlib.App("CLocalBlock", hlib.List(lt), hlib.N(code), lst(keys)),
		in, map[string]interface{}{"code": code, "keys": keys, "err": fmt.Sprint(err)})
}

// synRunsFor: does the transaction's own synthetic driver run (default Allow rule)?
func synRunsFor(cfg *types.Chain33Config, execer string) bool {
	real := string(types.GetRealExecName([]byte(execer)))
	for _, s := range synNames {
		if s == real && string(cfg.GetParaExec([]byte(execer))) == real {
			return true
		}
	}
	return false
}

var blockExecs = []string{"token", "token", "tok", "coinsx", "config", "vsa", "user.p.x.token", "user.token", "user.p.x.vsa"}

func (n *node) genBlock(r *hlib.Rng, fork bool) inp {
	in := inp{Op: "block", Fork: fork, Yes: genYes(r)}
	cnt := r.Range(2, 6)
	var probe []string
	for i := 0; i < cnt; i++ {
		ex := hlib.Pick(r, blockExecs)
		if !fork && r.Chance(1, 4) {
			ex = "token"
		}
		real := string(types.GetRealExecName([]byte(ex)))
		s := script{Salt: i}
		nk := r.Intn(4)
		for j := 0; j < nk; j++ {
			var k string
			if r.Chance(3, 5) {
				// mostly-valid: own namespace / own exec area
				if r.Chance(1, 2) {
					k = "mavl-" + ex + "-" + hlib.Pick(r, []string{"a", "b", "c"})
				} else {
					k = "mavl-coins-bty-exec-" + safeExecAddr(ex) + ":" + hlib.Pick(r, []string{"u", "v"})
				}
			} else {
				k = genKey(r, "local", ex, real)
			}
			v := fmt.Sprintf("v%d.%d", i, j)
			s.KV = append(s.KV, kvS{K: k, V: v})
			probe = append(probe, k)
			if r.Chance(1, 2) {
				s.Direct = append(s.Direct, kvS{K: k, V: v + "d"})
			}
		}
		if r.Chance(1, 6) {
			k := "mavl-" + ex + "-hidden" + hlib.Pick(r, []string{"1", "2"})
			s.Direct = append(s.Direct, kvS{K: k, V: "h"})
			probe = append(probe, k)
		}
		if r.Chance(1, 12) {
			s.Err = true
		}
		in.Execs = append(in.Execs, ex)
		in.Txs = append(in.Txs, s)
	}
	in.Execs = append(in.Execs, "vsa")
	in.Txs = append(in.Txs, script{Probe: probe, Salt: 99})
	return in
}

func (n *node) genLocalBlock(r *hlib.Rng) inp {
	in := inp{Op: "localblock"}
	cnt := r.Range(1, 4)
	for i := 0; i < cnt; i++ {
		ex := hlib.Pick(r, blockExecs)
		s := script{Salt: i}
		nk := r.Intn(4)
		for j := 0; j < nk; j++ {
			var k string
			if r.Chance(5, 6) {
				k = "LODB-" + hlib.Pick(r, []string{ex, string(types.GetRealExecName([]byte(ex)))}) + "-" + hlib.Pick(r, []string{"a", "b", "cc"})
			} else {
				k = genLocalKey(r, ex)
			}
			s.Local = append(s.Local, kvS{K: k, V: "l"})
		}
		if r.Chance(1, 8) {
			s.LocNil = true
			s.Local = nil
		}
		if r.Chance(1, 4) {
			s.LDirect = append(s.LDirect, "LODB-"+ex+"-direct")
		}
		in.Execs = append(in.Execs, ex)
		in.Txs = append(in.Txs, s)
	}
	return in
}

// ---------------------------------------------------------------- main

func main() {
	opts := hlib.ParseFlags()
	o := hlib.NewOut(opts.OutDir)
	defer o.Close()
	log.SetLogLevel("crit")

	e := newEnv()
	for _, s := range synNames {
		drivers.Register(e.cfg, s, newSyn(s), 0)
	}
	var nd *node
	getNode := func() *node {
		if nd == nil {
			nd = newNode()
			for _, s := range synNames {
				types.AllowUserExec = append(types.AllowUserExec, []byte(s))
			}
		}
		return nd
	}

	if opts.Replay != "" {
		var in inp
		if err := hlib.ReplayInput(opts.Replay, &in); err != nil {
			panic(err)
		}
		switch in.Op {
		case "name":
			e.doName(o, "replay", in)
		case "key":
			e.doKey(o, "replay", in)
		case "allow":
			e.doAllow(o, "replay", in)
		case "allowexec":
			e.doAllowExec(o, "replay", in)
		case "local":
			e.doLocal(o, "replay", in)
		case "block":
			getNode().doBlock(o, "replay", in)
		case "localblock":
			getNode().doLocalBlock(o, "replay", in)
		case "gblock":
			getNode().doGroupBlock(o, "replay", in)
		}
		return
	}

	r := hlib.NewRng(opts.Seed)
	o.Emit("env", true, hlib.App("CEnv", lst(e.allReg), lst(synNames), lst(allowUserList())),
		inp{Op: "env"}, map[string]interface{}{"reg": e.allReg, "allow": allowUserList()})
	e.runDirect(o, r.Fork(), opts.Thorough())

	if os.Getenv("HC12_NO_NODE") == "" {
		n := getNode()
		o.Emit("env", true, hlib.App("CEnvNode", lst(allowUserList())), inp{Op: "envnode"}, map[string]interface{}{"allow": allowUserList()})
		rb := r.Fork()
		nb, nl := 100, 50
		if opts.Thorough() {
			nb, nl = 1200, 600
		}
		for i := 0; i < nb; i++ {
			fork := i%3 != 0
			kind := "block-postfork"
			if !fork {
				kind = "block-prefork"
			}
			n.doBlock(o, kind, n.genBlock(rb, fork))
		}
		for i := 0; i < nl; i++ {
			n.doLocalBlock(o, "localblock", n.genLocalBlock(rb))
		}
		n.runGroups(o, r.Fork(), opts.Thorough())
	}
}
