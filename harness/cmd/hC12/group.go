// hC12, transaction groups: blocks of single transactions and transaction groups (2-4 members)
// of the synthetic drivers through EventExecTxList on the test node.  A later member of a group
// Sets, reported or not, a key that an earlier member (or an earlier single transaction) wrote
// and reported; honest groups; random groups.  Observables: receipt type and KV of every
// transaction, whether the synthetic driver's Exec really ran, and the state values that a last
// (single) probe transaction reads.
package main

import (
	"encoding/hex"
	"encoding/json"
	"fmt"
	"sort"

	"github.com/33cn/chain33/common/address"
	"github.com/33cn/chain33/types"
	"verifharness/hlib"
)

// ranSalt: Salt values of the scripts whose synthetic Exec ran (set by synDriver.Exec).
var ranSalt = map[int]bool{}

// mkRawTx builds the unsigned transaction of a script.
func (n *node) mkRawTx(execer string, s script, nonce int64) *types.Transaction {
	payload, _ := json.Marshal(s)
	tx := &types.Transaction{Execer: []byte(execer), Payload: payload, To: address.ExecAddress(execer)}
	tx, err := types.FormatTx(n.cfg, execer, tx)
	if err != nil {
		panic(err)
	}
	tx.Nonce = nonce
	return tx
}

// dict interns the byte strings of one case: the case term refers to them as (d i) and is
// wrapped in  let d := dn [..] in ..  (literals dominate the evaluation time of a case file).
type dict struct {
	idx map[string]int
	all []string
}

func newDict() *dict { return &dict{idx: map[string]int{}} }

func (d *dict) bx(s string) string {
	i, ok := d.idx[s]
	if !ok {
		i = len(d.all)
		d.idx[s] = i
		d.all = append(d.all, s)
	}
	return fmt.Sprintf("(d %d%%N)", i)
}

func (d *dict) lst(ss []string) string {
	it := make([]string, len(ss))
	for i, s := range ss {
		it[i] = d.bx(s)
	}
	return hlib.List(it)
}

func (d *dict) kvLst(kvs []kvS) string {
	it := make([]string, len(kvs))
	for i, kv := range kvs {
		it[i] = hlib.Pair(d.bx(kv.K), d.bx(kv.V))
	}
	return hlib.List(it)
}

func (d *dict) wrap(term string) string {
	return "(let d := dn " + lst(d.all) + " in " + term + ")"
}

func (d *dict) memberTerm(ex string, s script) string {
	res := "GR_err"
	if !s.Err {
		res = hlib.App("GR_ok", hlib.N(types.ExecOk), d.kvLst(s.KV))
	}
	return hlib.App("Member", d.bx(ex), d.kvLst(s.Direct), res)
}

// doGroupBlock executes in.Txs with the partition in.Layout (1 = single transaction, k >= 2 = a
// group of k consecutive transactions) through EventExecTxList.
func (n *node) doGroupBlock(o *hlib.Out, kind string, in inp) {
	setYes(in.Yes)
	ranSalt = map[int]bool{}
	h := heightFor(in.Fork)
	total := 0
	for _, k := range in.Layout {
		total += k
	}
	if total != len(in.Txs) || len(in.Execs) != len(in.Txs) {
		panic("gblock: layout does not cover the transactions")
	}
	var txs []*types.Transaction
	pos := 0
	for _, k := range in.Layout {
		if k == 1 {
			tx := n.mkRawTx(in.Execs[pos], in.Txs[pos], int64(9000+pos))
			tx.Sign(types.SECP256K1, n.priv)
			txs = append(txs, tx)
			pos++
			continue
		}
		var g []*types.Transaction
		for j := 0; j < k; j++ {
			g = append(g, n.mkRawTx(in.Execs[pos+j], in.Txs[pos+j], int64(9000+pos+j)))
		}
		grp, err := types.CreateTxGroup(g, n.cfg.GetMinTxFeeRate())
		if err != nil {
			panic(err)
		}
		for j := range g {
			if err := grp.SignN(j, types.SECP256K1, n.priv); err != nil {
				panic(err)
			}
		}
		txs = append(txs, grp.GetTxs()...)
		pos += k
	}
	list := &types.ExecTxList{
		StateHash:  n.gen.StateHash,
		ParentHash: n.gen.Hash(n.cfg),
		Txs:        txs,
		BlockTime:  n.gen.BlockTime + 10,
		Height:     h,
		Difficulty: uint64(n.gen.Difficulty),
	}
	cl := n.mock.GetClient()
	msg := cl.NewMessage("execs", types.EventExecTxList, list)
	if err := cl.Send(msg, true); err != nil {
		panic(err)
	}
	resp, err := cl.Wait(msg)
	var rs *types.Receipts
	if err == nil {
		rs, _ = resp.GetData().(*types.Receipts)
	}

	d := newDict()
	addrs := map[string]string{}
	var probe []string
	implOut := []interface{}{}
	nontrivial := false
	// per transaction: fee KVs found at the head of its receipt, observation term
	obsOf := func(i int) (string, []kvS) {
		s := in.Txs[i]
		ex := in.Execs[i]
		addrs[ex] = safeExecAddr(ex)
		real := string(types.GetRealExecName([]byte(ex)))
		addrs[real] = safeExecAddr(real)
		ty := uint64(99)
		var ikv, fee []kvS
		if rs != nil && i < len(rs.Receipts) {
			rc := rs.Receipts[i]
			ty = uint64(rc.Ty)
			for j, kv := range rc.KV {
				e := kvS{K: string(kv.Key), V: string(kv.Value)}
				ikv = append(ikv, e)
				if j == 0 && e.K == n.feeK {
					fee = append(fee, e)
				}
			}
			if ty == types.ExecOk && len(s.KV) > 0 {
				nontrivial = true
			}
			for _, lg := range rc.Logs {
				if lg.Ty != probeLogTy {
					continue
				}
				var vals []*string
				_ = json.Unmarshal(lg.Log, &vals)
				for j, k := range s.Probe {
					if j < len(vals) && vals[j] != nil {
						b, _ := hex.DecodeString(*vals[j])
						probe = append(probe, hlib.Pair(d.bx(k), "(Some "+d.bx(string(b))+")"))
					} else {
						probe = append(probe, hlib.Pair(d.bx(k), "None"))
					}
				}
			}
		}
		ran := ranSalt[s.Salt]
		if ran && len(s.Direct) > 0 {
			nontrivial = true
		}
		implOut = append(implOut, map[string]interface{}{"ty": ty, "keys": keysOf(ikv), "ran": ran})
		return hlib.App("GmObs", d.memberTerm(ex, s), hlib.Bool(ran), hlib.N(ty), d.kvLst(ikv)), fee
	}
	var items []string
	pos = 0
	for _, k := range in.Layout {
		if k == 1 {
			t, fee := obsOf(pos)
			items = append(items, hlib.App("GI1", d.kvLst(fee), t))
			pos++
			continue
		}
		var ms []string
		var fee0 []kvS
		for j := 0; j < k; j++ {
			t, fee := obsOf(pos + j)
			if j == 0 {
				fee0 = fee
			}
			ms = append(ms, t)
		}
		items = append(items, hlib.App("GIG", d.kvLst(fee0), hlib.List(ms)))
		pos += k
	}
	var al []string
	names := make([]string, 0, len(addrs))
	for k := range addrs {
		names = append(names, k)
	}
	sort.Strings(names)
	for _, k := range names {
		al = append(al, hlib.Pair(d.bx(k), d.bx(addrs[k])))
	}
	o.Emit(kind, nontrivial,
		d.wrap(hlib.App("CGroupBlock", d.bx(n.cfg.GetTitle()), hlib.Bool(in.Fork), d.lst(in.Yes),
			hlib.List(al), hlib.List(items), hlib.List(probe))),
		in, map[string]interface{}{"receipts": implOut, "err": fmt.Sprint(err)})
}

// ---------------------------------------------------------------- generators

// main-chain names only: a group may not mix parachain and main-chain executors
var groupExecs = []string{"token", "tok", "coinsx", "config", "vsa"}

type gblockBuilder struct {
	in    inp
	probe map[string]bool
}

func (b *gblockBuilder) add(ex string, s script) {
	s.Salt = len(b.in.Txs) + 1
	for _, kv := range s.KV {
		b.probe[kv.K] = true
	}
	for _, kv := range s.Direct {
		b.probe[kv.K] = true
	}
	b.in.Execs = append(b.in.Execs, ex)
	b.in.Txs = append(b.in.Txs, s)
}

func (b *gblockBuilder) finish() inp {
	var keys []string
	for k := range b.probe {
		keys = append(keys, k)
	}
	sort.Strings(keys)
	b.add("vsa", script{Probe: keys})
	b.in.Layout = append(b.in.Layout, 1)
	return b.in
}

func ownKey(r *hlib.Rng, ex string) string {
	if r.Chance(1, 4) {
		return "mavl-coins-bty-exec-" + safeExecAddr(ex) + ":" + hlib.Pick(r, []string{"u", "v"})
	}
	return "mavl-" + ex + "-" + hlib.Pick(r, []string{"a", "b", "c"})
}

// honestMember writes and reports keys of its own namespace / exec area.
func honestMember(r *hlib.Rng, ex string, tag string) script {
	s := script{}
	nk := r.Range(0, 2)
	for j := 0; j < nk; j++ {
		k := ownKey(r, ex)
		v := fmt.Sprintf("%s.%d", tag, j)
		s.KV = append(s.KV, kvS{K: k, V: v})
		if r.Chance(1, 2) {
			s.Direct = append(s.Direct, kvS{K: k, V: v + "d"})
		}
	}
	return s
}

// genScenarioBlock: a block around one group in which member `owner` reports key K and a later
// member `other` touches K in the way `mode` says:
//
//	sly   - Sets K without reporting it            (must be refused: unreported write)
//	loud  - Sets K and reports it                  (foreign executor: decided by the write rule)
//	honest- leaves K alone
//
// The key may also have been written by an earlier single transaction (`early`).
func (n *node) genScenarioBlock(r *hlib.Rng, mode string) inp {
	b := &gblockBuilder{in: inp{Op: "gblock", Fork: true, Yes: genYes(r)}, probe: map[string]bool{}}
	size := r.Range(2, 4)
	ownerEx := hlib.Pick(r, groupExecs)
	otherEx := hlib.Pick(r, groupExecs) // may be the owner's executor itself
	k := "mavl-" + ownerEx + "-" + hlib.Pick(r, []string{"a", "b", "k"})
	early := r.Chance(1, 4)
	if early {
		b.add(ownerEx, script{KV: []kvS{{K: k, V: "early"}}})
		b.in.Layout = append(b.in.Layout, 1)
	}
	// positions of the owner and the other member inside the group
	oi := r.Intn(size - 1)
	xi := oi + 1 + r.Intn(size-1-oi)
	if early && r.Chance(1, 2) {
		oi = -1 // nobody in the group reports K: only the earlier single transaction did
	}
	for i := 0; i < size; i++ {
		switch i {
		case oi:
			s := honestMember(r, ownerEx, fmt.Sprintf("o%d", i))
			s.KV = append(s.KV, kvS{K: k, V: "good"})
			if r.Chance(1, 2) {
				s.Direct = append(s.Direct, kvS{K: k, V: "gd"})
			}
			b.add(ownerEx, s)
		case xi:
			s := honestMember(r, otherEx, fmt.Sprintf("x%d", i))
			switch mode {
			case "sly":
				s.Direct = append(s.Direct, kvS{K: k, V: "evil"})
			case "loud":
				s.Direct = append(s.Direct, kvS{K: k, V: "evil"})
				s.KV = append(s.KV, kvS{K: k, V: "evil"})
				if r.Chance(1, 3) {
					s.Direct = s.Direct[:len(s.Direct)-1] // reported only
				}
			}
			b.add(otherEx, s)
		default:
			ex := hlib.Pick(r, groupExecs)
			if r.Chance(1, 10) {
				ex = "user.token" // the none driver answers
			}
			b.add(ex, honestMember(r, ex, fmt.Sprintf("m%d", i)))
		}
	}
	b.in.Layout = append(b.in.Layout, size)
	if r.Chance(1, 3) {
		// something after the group: a single transaction or a second (honest) group
		if r.Chance(1, 2) {
			ex := hlib.Pick(r, groupExecs)
			b.add(ex, honestMember(r, ex, "after"))
			b.in.Layout = append(b.in.Layout, 1)
		} else {
			for i := 0; i < 2; i++ {
				ex := hlib.Pick(r, groupExecs)
				b.add(ex, honestMember(r, ex, fmt.Sprintf("g2m%d", i)))
			}
			b.in.Layout = append(b.in.Layout, 2)
		}
	}
	return b.finish()
}

// genRandomGroupBlock: groups and singles of random members (own / foreign / malformed keys,
// hidden direct writes, errors), small key alphabet so that members collide.
func (n *node) genRandomGroupBlock(r *hlib.Rng) inp {
	b := &gblockBuilder{in: inp{Op: "gblock", Fork: true, Yes: genYes(r)}, probe: map[string]bool{}}
	nitems := r.Range(1, 3)
	for it := 0; it < nitems; it++ {
		size := 1
		if it == 0 || r.Chance(2, 3) {
			size = r.Range(2, 4)
		}
		for i := 0; i < size; i++ {
			ex := hlib.Pick(r, groupExecs)
			real := string(types.GetRealExecName([]byte(ex)))
			s := script{}
			nk := r.Intn(3)
			for j := 0; j < nk; j++ {
				var k string
				switch r.Intn(5) {
				case 0, 1, 2:
					k = ownKey(r, ex)
				case 3:
					k = ownKey(r, hlib.Pick(r, groupExecs))
				default:
					k = genKey(r, "local", ex, real)
				}
				v := fmt.Sprintf("r%d.%d.%d", it, i, j)
				s.KV = append(s.KV, kvS{K: k, V: v})
				if r.Chance(1, 2) {
					s.Direct = append(s.Direct, kvS{K: k, V: v + "d"})
				}
			}
			if r.Chance(1, 8) {
				s.Direct = append(s.Direct, kvS{K: ownKey(r, hlib.Pick(r, groupExecs)), V: "h"})
			}
			if r.Chance(1, 16) {
				s.Err = true
			}
			b.add(ex, s)
		}
		b.in.Layout = append(b.in.Layout, size)
	}
	return b.finish()
}

func (n *node) runGroups(o *hlib.Out, r *hlib.Rng, thorough bool) {
	cnt := 40
	if thorough {
		cnt = 700
	}
	for i := 0; i < cnt; i++ {
		n.doGroupBlock(o, "group-sly", n.genScenarioBlock(r, "sly"))
		n.doGroupBlock(o, "group-loud", n.genScenarioBlock(r, "loud"))
		if i%2 == 0 {
			n.doGroupBlock(o, "group-honest", n.genScenarioBlock(r, "honest"))
		}
		n.doGroupBlock(o, "group-random", n.genRandomGroupBlock(r))
	}
}
