// hC28: histories of hand-built peer blocks, producer blocks, re-organisations and mempool offers
// on fresh chain33 test nodes, with duplicates (same block, later block, after a re-organisation,
// TxHeight transactions inside/outside their window), expired, under-paid, wrong-chain and
// mis-signed transactions, single and in groups of 2-4 (groups.go, scen_groups.go) (C28).
// The nodes keep 128 (default), 1 or 3 blocks in memory (BlockChain.DefCacheSize); scen_evict.go
// makes the refill of the duplicate window on a disconnection depend on a block outside that cache.
//
// The mempool is part of the case: before every delivery it is asked which of the table's Hash
// ids it holds (XSnap: the model's pool must answer the same), after a delivery that
// disconnected blocks it is asked again behind the EventDelBlock messages (XSync: which
// transactions of the disconnected blocks it took back depends on message timing; the model
// adopts the answer after checking that every id can be explained).
//
// A factory node executes every block on its parent state so that peer blocks carry the right
// TxHash/StateHash; when the factory's producer path drops a transaction, the block is rebuilt
// by hand with the intended list (such a block must be rejected before its state hash matters).
// The receiving node gets the blocks through BlockChain.ProcessBlock.  From the tip before/after
// each delivery the connectBlock/disconnectBlock sequence is derived and written as the case's
// operation list; at the end the chain, the transaction index and the duplicate query are read back.
package main

import (
	"bytes"
	"fmt"
	"os"
	"strings"
	"time"

	"github.com/33cn/chain33/blockchain"
	"github.com/33cn/chain33/common/address"
	"github.com/33cn/chain33/common/crypto"
	"github.com/33cn/chain33/common/log"
	"github.com/33cn/chain33/common/merkle"
	_ "github.com/33cn/chain33/system"
	"github.com/33cn/chain33/types"
	"github.com/33cn/chain33/util"
	"github.com/33cn/chain33/util/testnode"
	"verifharness/hlib"
)

const (
	unknownID = 999999
	evictBase = 1000000 // Idx of the reorg-evict cases (their own sequence beside the cycle of kinds)
	diffBits  = 0x1f2fffff
)

func quiet() { log.SetLogLevel("crit") }

// ---------- nodes ----------

// cache = number of blocks the node keeps in memory (BlockChain.DefCacheSize; 0 = the default, 128)
func newNode(low, high, cache int64) *testnode.Chain33Mock {
	cfg := types.NewChain33Config(types.GetDefaultCfgstring())
	mc := cfg.GetModuleConfig()
	mc.BlockChain.Driver = "memdb"
	mc.Store.Driver = "memdb"
	mc.Wallet.Driver = "memdb"
	mc.BlockChain.LowAllowPackHeight = low
	mc.BlockChain.HighAllowPackHeight = high
	if cache > 0 {
		mc.BlockChain.DefCacheSize = cache
	}
	m := testnode.NewWithConfig(cfg, nil)
	quiet()
	cl := m.GetClient()
	// the block producer must be off before anything is offered: ask until an answer has arrived
	// (a loaded machine can take seconds), then once more (the second answer must be "not started")
	answers := 0
	for try := 0; try < 40 && answers < 2; try++ {
		stop := cl.NewMessage("consensus", types.EventMinerStop, nil)
		if err := cl.Send(stop, true); err != nil {
			time.Sleep(50 * time.Millisecond)
			continue
		}
		if _, err := cl.WaitTimeout(stop, 15*time.Second); err == nil || err.Error() == types.ErrMinerNotStared.Error() {
			answers++
		}
	}
	if answers < 2 {
		panic("block producer did not answer the stop request")
	}
	deadline := time.Now().Add(20 * time.Second)
	for m.GetBlockChain().GetBlockHeight() < 0 {
		if time.Now().After(deadline) {
			panic("genesis block not created")
		}
		time.Sleep(2 * time.Millisecond)
	}
	time.Sleep(15 * time.Millisecond) // a block-producing round that began before the stop has ended
	if types.LowAllowPackHeight != low || types.HighAllowPackHeight != high {
		panic("pack window not applied")
	}
	return m
}

func key(seed byte) crypto.PrivKey {
	cr, err := crypto.Load(types.GetSignName("", types.SECP256K1), -1)
	if err != nil {
		panic(err)
	}
	b := make([]byte, 32)
	for i := range b {
		b[i] = seed + byte(3*i)
	}
	p, err := cr.PrivKeyFromBytes(b)
	if err != nil {
		panic(err)
	}
	return p
}

func addrOf(p crypto.PrivKey) string {
	return address.PubKeyToAddr(address.DefaultID, p.PubKey().Bytes())
}

// ---------- the world of one case ----------

type utx struct {
	Tx   *types.Transaction
	Th   uint64
	Tk   uint64
	Tf   uint64
	Sig  bool
	Gc   int32
	Hdr  uint64
	Nx   uint64
	Desc string
}

type bnode struct {
	B    *types.Block
	ID   int
	Par  int
	Idx  []int // table positions of the transactions, in block order
	Good bool  // consistent and not rejected: may be built upon
}

type caseIn struct {
	Seed   uint64   `json:"seed"`
	Idx    int      `json:"idx"`
	Kind   string   `json:"kind"`
	Low    int64    `json:"low"`
	High   int64    `json:"high"`
	Cache  int64    `json:"cache,omitempty"`  // blocks the node keeps in memory (0 = default 128); not part of the Coq case
	Script []string `json:"script,omitempty"` // what was done (informational; the case is regenerated from seed/idx/kind)
}

type caseOut struct {
	Ops       []string `json:"ops"`
	Final     []string `json:"final"`
	Anomalies []string `json:"anomalies,omitempty"`
}

type world struct {
	f     *testnode.Chain33Mock
	r     *testnode.Chain33Mock
	chain *blockchain.BlockChain
	cfg   *types.Chain33Config
	rng   *hlib.Rng
	low   int64
	high  int64
	keys  []crypto.PrivKey // G, A, B, C
	univ  []*utx
	full  map[string]int
	thID  map[string]uint64
	tkID  map[string]uint64

	blocks []*bnode
	byHash map[string]int
	tip    int

	used []int // table positions that were offered in some block so far (group members too)

	bits     uint32  // Difficulty of the blocks built next (a heavier side branch wins at equal or lower height)
	groups   [][]int // groups made so far (table positions of the members, in group order)
	lastSet  map[uint64]bool
	selfSeen map[string]bool // hashes of the producer blocks handed over so far

	ops       []string
	script    []string
	guardOK   bool
	nontriv   bool
	sawKF     bool
	anomalies []string
}

func (w *world) node(id int) *bnode { return w.blocks[id-1] }
func (w *world) tipNode() *bnode    { return w.node(w.tip) }
func (w *world) note(f string, a ...interface{}) {
	w.script = append(w.script, fmt.Sprintf(f, a...))
}
func (w *world) anomaly(f string, a ...interface{}) {
	s := fmt.Sprintf(f, a...)
	w.anomalies = append(w.anomalies, s)
	fmt.Fprintln(os.Stderr, "hC28: anomaly:", s)
	if os.Getenv("HC28_DEBUG") != "" {
		fmt.Fprintln(os.Stderr, strings.Join(w.script, "\n"))
	}
}

// ---------- transactions ----------

func (w *world) add(tx *types.Transaction, desc string) int {
	fh := string(tx.FullHash())
	if i, ok := w.full[fh]; ok {
		return i
	}
	h := tx.Hash()
	hs := string(h)
	if _, ok := w.thID[hs]; !ok {
		w.thID[hs] = uint64(len(w.thID) + 1)
	}
	ks := string(h[:16])
	if _, ok := w.tkID[ks]; !ok {
		w.tkID[ks] = uint64(len(w.tkID) + 1)
	}
	u := &utx{Tx: tx, Th: w.thID[hs], Tk: w.tkID[ks], Tf: uint64(len(w.univ) + 1), Sig: tx.CheckSign(w.tipNode().B.Height + 1),
		Gc: tx.GroupCount, Hdr: w.hashID(tx.Header), Nx: w.hashID(tx.Next), Desc: desc}
	w.univ = append(w.univ, u)
	w.full[fh] = len(w.univ) - 1
	return len(w.univ) - 1
}

// hashID numbers a 32-byte value in the id space of Hash() (0 = nil)
func (w *world) hashID(b []byte) uint64 {
	if len(b) == 0 {
		return 0
	}
	if _, ok := w.thID[string(b)]; !ok {
		w.thID[string(b)] = uint64(len(w.thID) + 1)
	}
	return w.thID[string(b)]
}

type txSpec struct {
	owner   int    // 1..3
	exp     string // "none" "height" "time" "txheight" "raw"
	d       int64
	fee     string // "ok" "low" "zero" "high" "max" "double"
	chainID int32
	pad     int // payload padding ("none" executor transaction of about this size) or 0 = coins transfer
}

// body: the unsigned transaction of a spec (Fee 0)
func (w *world) body(s txSpec) (*types.Transaction, string) {
	var tx *types.Transaction
	tipB := w.tipNode().B
	if s.pad > 0 {
		tx = &types.Transaction{Execer: []byte("none"), Payload: bytes.Repeat([]byte{'x'}, s.pad)}
		tx.To = address.ExecAddress("none")
	} else {
		to := addrOf(w.keys[1+(s.owner%3)])
		tx = util.CreateCoinsTx(w.cfg, nil, to, int64(w.rng.Range(1, 100000)))
	}
	tx.Nonce = int64(w.rng.U64() >> 2)
	tx.ChainID = w.cfg.GetChainID()
	if s.chainID != 0 {
		tx.ChainID = s.chainID
	}
	desc := s.exp
	switch s.exp {
	case "none":
		tx.Expire = 0
	case "height":
		tx.Expire = tipB.Height + 1 + s.d
	case "time":
		tx.Expire = tipB.BlockTime + s.d
	case "txheight":
		tx.Expire = types.TxHeightFlag + tipB.Height + 1 + s.d
	case "raw":
		tx.Expire = s.d
	}
	desc += fmt.Sprintf("(%d)", s.d)
	tx.Fee = 0
	return tx, desc
}

func (w *world) newTx(s txSpec) int {
	tx, desc := w.body(s)
	tipB := w.tipNode().B
	minfee := w.cfg.GetMinTxFeeRate()
	// the fee is set for the signed size
	tx.Sign(types.SECP256K1, w.keys[s.owner])
	need := int64(types.Size(tx)/1000+1) * minfee
	// the fee field itself changes the size by a few bytes: iterate once
	tx.Fee = need
	tx.Sign(types.SECP256K1, w.keys[s.owner])
	need = int64(types.Size(tx)/1000+1) * minfee
	switch s.fee {
	case "ok":
		tx.Fee = need
	case "low":
		tx.Fee = need - 1
	case "zero":
		tx.Fee = 0
	case "double":
		tx.Fee = 2 * need
	case "max":
		tx.Fee = w.cfg.GetMaxTxFee(tipB.Height + 1)
	case "high":
		tx.Fee = w.cfg.GetMaxTxFee(tipB.Height+1) + 1
	}
	tx.Sign(types.SECP256K1, w.keys[s.owner])
	if s.fee != "ok" {
		desc += " fee=" + s.fee
	}
	if s.chainID != 0 {
		desc += " chainid!"
	}
	if s.pad > 0 {
		desc += fmt.Sprintf(" size=%d", types.Size(tx))
	}
	return w.add(tx, desc)
}

// twin: the same body signed by another account (same Hash, valid signature)
func (w *world) twin(i int, k int) int {
	t := types.CloneTx(w.univ[i].Tx)
	t.Sign(types.SECP256K1, w.keys[k])
	return w.add(t, fmt.Sprintf("twin of %d signed by key %d", i, k))
}

// forge: the same body with another account's public key and a signature that does not verify
func (w *world) forge(i int, k int) int {
	t := types.CloneTx(w.univ[i].Tx)
	sig := w.rng.Bytes(64 + w.rng.Intn(8))
	t.Signature = &types.Signature{Ty: types.SECP256K1, Pubkey: w.keys[k].PubKey().Bytes(), Signature: sig}
	return w.add(t, fmt.Sprintf("forgery of %d with the public key of %d", i, k))
}

func (w *world) plain() int {
	return w.newTx(txSpec{owner: w.rng.Range(1, 3), exp: "none", fee: "ok"})
}

// validNow: a transaction that the next block (height tip+1, time tip+dt, dt <= 3) may carry
func (w *world) validNow() int {
	o := w.rng.Range(1, 3)
	switch w.rng.Intn(6) {
	case 0:
		return w.newTx(txSpec{owner: o, exp: "height", d: int64(w.rng.Range(1, 4)), fee: "ok"})
	case 1:
		return w.newTx(txSpec{owner: o, exp: "time", d: int64(w.rng.Range(4, 9)), fee: "ok"})
	case 2, 3:
		return w.newTx(txSpec{owner: o, exp: "txheight", d: int64(w.rng.Range(int(-w.high), int(w.low))), fee: "ok"})
	case 4:
		return w.newTx(txSpec{owner: o, exp: "none", fee: hlib.Pick(w.rng, []string{"ok", "double", "max"})})
	}
	return w.plain()
}

// anyNew: valid or not
func (w *world) anyNew() int {
	o := w.rng.Range(1, 3)
	switch w.rng.Intn(12) {
	case 0:
		return w.newTx(txSpec{owner: o, exp: "height", d: int64(w.rng.Range(-1, 2)), fee: "ok"})
	case 1:
		return w.newTx(txSpec{owner: o, exp: "time", d: int64(w.rng.Range(0, 4)), fee: "ok"})
	case 2, 3:
		return w.newTx(txSpec{owner: o, exp: "txheight", d: int64(w.rng.Range(int(-w.high)-2, int(w.low)+2)), fee: "ok"})
	case 4:
		return w.newTx(txSpec{owner: o, exp: "none", fee: hlib.Pick(w.rng, []string{"low", "zero", "high", "max"})})
	case 5:
		return w.newTx(txSpec{owner: o, exp: "none", fee: "ok", chainID: 34})
	case 6:
		// sizes around the 1000-byte fee step
		return w.newTx(txSpec{owner: o, exp: "none", fee: hlib.Pick(w.rng, []string{"ok", "low"}), pad: w.rng.Range(860, 900)})
	case 7:
		raw := []int64{-1, 1, types.ExpireBound, types.ExpireBound + 1, types.TxHeightFlag, types.TxHeightFlag - 1}
		return w.newTx(txSpec{owner: o, exp: "raw", d: hlib.Pick(w.rng, raw), fee: "ok"})
	case 8:
		if w.rng.Chance(1, 4) {
			return w.newTx(txSpec{owner: o, exp: "none", fee: "ok", pad: types.MaxTxSize - w.rng.Range(0, 200)})
		}
	}
	return w.validNow()
}

// ---------- blocks ----------

func (w *world) register(b *types.Block, par int, idx []int, good bool) *bnode {
	n := &bnode{B: b, ID: len(w.blocks) + 1, Par: par, Idx: idx, Good: good}
	w.blocks = append(w.blocks, n)
	w.byHash[string(b.Hash(w.cfg))] = n.ID
	return n
}

func (w *world) idxOf(txs []*types.Transaction) []int {
	out := make([]int, len(txs))
	for i, t := range txs {
		if k, ok := w.full[string(t.FullHash())]; ok {
			out[i] = k
		} else {
			out[i] = unknownID
		}
	}
	return out
}

func cloneTxs(w *world, idx []int) []*types.Transaction {
	txs := make([]*types.Transaction, len(idx))
	for i, k := range idx {
		txs[i] = types.CloneTx(w.univ[k].Tx)
	}
	return txs
}

func sameTxs(a, b []*types.Transaction) bool {
	if len(a) != len(b) {
		return false
	}
	for i := range a {
		if !bytes.Equal(a[i].FullHash(), b[i].FullHash()) {
			return false
		}
	}
	return true
}

// build a peer block on par carrying exactly the given transactions
func (w *world) build(par *bnode, dt int64, idx []int) *bnode {
	b := util.CreateNewBlock(w.cfg, par.B, cloneTxs(w, idx))
	b.BlockTime = par.B.BlockTime + dt
	b.Difficulty = diffBits
	if w.bits != 0 {
		b.Difficulty = w.bits
	}
	want := append([]*types.Transaction{}, b.Txs...)
	good := false
	d, _, err := util.ExecBlock(w.f.GetClient(), par.B.StateHash, types.Clone(b).(*types.Block), false, true, false)
	if err == nil && sameTxs(d.Block.Txs, want) {
		b = d.Block
		good = true
	} else {
		// the factory's producer path dropped something: hand-built block with the intended list
		b.Txs = want
		b.TxHash = merkle.CalcMerkleRoot(w.cfg, b.Height, b.Txs)
		b.StateHash = par.B.StateHash
		if err == nil {
			b.StateHash = d.Block.StateHash
		}
	}
	if _, dup := w.byHash[string(b.Hash(w.cfg))]; dup {
		// the very same block was offered before (the node would answer ErrBlockExist): another block time
		return w.build(par, dt+1, idx)
	}
	for _, k := range idx {
		w.used = append(w.used, k)
	}
	return w.register(b, par.ID, w.idxOf(b.Txs), good)
}

func errClass(err error) int {
	switch err {
	case nil:
		return 0
	case types.ErrSign:
		return 1
	case types.ErrTxDup:
		return 2
	case types.ErrBlockExec:
		return 3
	case types.ErrEmptyTx:
		return 4
	case types.ErrBlockTime:
		return 5
	case types.ErrBlockHashNoMatch:
		return 6
	}
	// consensus CheckBlock errors come back through a queue reply as fresh error values
	switch err.Error() {
	case types.ErrEmptyTx.Error():
		return 4
	case types.ErrBlockTime.Error():
		return 5
	}
	return 9
}

func (w *world) poolSnapshot() []uint64 { return w.poolSnapshotPrio(true) }

// snap: the mempool's answer just before a delivery, as an operation of the case
func (w *world) snap() []uint64 {
	pool := w.poolSnapshot()
	w.ops = append(w.ops, "XSnap "+nList(pool))
	w.setLast(pool)
	return pool
}

func (w *world) setLast(pool []uint64) {
	w.lastSet = map[uint64]bool{}
	for _, id := range pool {
		w.lastSet[id] = true
	}
}

func (w *world) poolSnapshotPrio(high bool) []uint64 {
	req := &types.ReqCheckTxsExist{}
	var ids []uint64
	seen := map[uint64]bool{}
	for _, u := range w.univ {
		if !seen[u.Th] {
			seen[u.Th] = true
			req.TxHashes = append(req.TxHashes, u.Tx.Hash())
			ids = append(ids, u.Th)
		}
	}
	if len(ids) == 0 {
		return nil
	}
	cl := w.r.GetClient()
	msg := cl.NewMessage("mempool", types.EventCheckTxsExist, req)
	if err := cl.Send(msg, high); err != nil {
		panic(err)
	}
	rp, err := cl.WaitTimeout(msg, 10*time.Second)
	if err != nil {
		panic(err)
	}
	flags := rp.GetData().(*types.ReplyCheckTxsExist).ExistFlags
	var out []uint64
	for i, f := range flags {
		if f {
			out = append(out, ids[i])
		}
	}
	return out
}

func (w *world) tipID() int {
	h := w.chain.GetStore().LastHeader().Hash
	if id, ok := w.byHash[string(h)]; ok {
		return id
	}
	return unknownID
}

func (w *world) ancestors(id int) []int { // id, parent, ... genesis
	var out []int
	for id > 0 {
		out = append(out, id)
		id = w.node(id).Par
	}
	return out
}

func nList(xs []uint64) string {
	s := make([]string, len(xs))
	for i, x := range xs {
		s[i] = hlib.N(x)
	}
	return hlib.List(s)
}

func (w *world) rblk(n *bnode, idx []int) string {
	xs := make([]string, len(idx))
	for i, k := range idx {
		xs[i] = hlib.N(uint64(k))
	}
	return fmt.Sprintf("(%s, %s, %s, %s, %s)", hlib.N(uint64(n.ID)), hlib.N(uint64(n.Par)), hlib.Z(n.B.Height), hlib.Z(n.B.BlockTime), hlib.List(xs))
}

// settle: the mempool drops the transactions of connected blocks asynchronously
func (w *world) settle(connected []*bnode, disc int) {
	if disc > 0 {
		return // the caller asks behind the EventDelBlock messages; re-pooled transactions may sit in the pool
	}
	want := map[uint64]bool{}
	for _, n := range connected {
		for _, k := range n.Idx {
			if k != unknownID {
				want[w.univ[k].Th] = true
			}
		}
	}
	deadline := time.Now().Add(3 * time.Second)
	for len(want) > 0 {
		busy := false
		for _, id := range w.poolSnapshot() {
			if want[id] {
				busy = true
			}
		}
		if !busy {
			break
		}
		if time.Now().After(deadline) {
			w.anomaly("mempool still holds transactions of a connected block")
			break
		}
		time.Sleep(time.Millisecond)
	}
}

// deliver a registered peer block and derive the connect/disconnect operations from the tips
func (w *world) deliver(n *bnode) int {
	pool := w.snap()
	old := w.tip
	var err error
	pan := ""
	func() {
		defer func() {
			if e := recover(); e != nil {
				pan = fmt.Sprint(e)
			}
		}()
		_, _, _, err = w.chain.ProcessBlock(false, &types.BlockDetail{Block: types.Clone(n.B).(*types.Block)}, "peer1", true, 0)
	}()
	if pan != "" {
		w.anomaly("ProcessBlock panicked: %s", pan)
		w.ops = append(w.ops, fmt.Sprintf("XPeer %s %s", w.rblk(n, n.Idx), hlib.N(8)))
		return 8
	}
	now := w.tipID()
	ec := errClass(err)
	if now == unknownID {
		hd := w.chain.GetStore().LastHeader()
		desc := fmt.Sprintf("height %d time %d txs %d", hd.Height, hd.BlockTime, hd.TxCount)
		if bd, e := w.chain.GetBlock(hd.Height); e == nil && bd != nil {
			desc += fmt.Sprintf(" %v difficulty %x", w.idxOf(bd.Block.Txs), bd.Block.Difficulty)
		}
		w.anomaly("tip is an unknown block: %s", desc)
		w.ops = append(w.ops, fmt.Sprintf("XPeer %s %s", w.rblk(n, n.Idx), hlib.N(7)))
		return 7
	}
	// old tip -> common ancestor -> new tip
	ao, an := w.ancestors(old), w.ancestors(now)
	inNew := map[int]bool{}
	for _, id := range an {
		inNew[id] = true
	}
	disc := 0
	for _, id := range ao {
		if inNew[id] {
			break
		}
		disc++
	}
	lca := ao[disc]
	var conn []*bnode
	for _, id := range an {
		if id == lca {
			break
		}
		conn = append([]*bnode{w.node(id)}, conn...)
	}
	for i := 0; i < disc; i++ {
		w.ops = append(w.ops, "XDisc")
	}
	if disc > 0 {
		w.nontriv = true
		w.note("  re-organisation: %d disconnected, %d connected", disc, len(conn))
	}
	guard := func(b *bnode) {
		inPool := map[uint64]bool{}
		for _, id := range pool {
			inPool[id] = true
		}
		for _, k := range b.Idx {
			if k != unknownID && !w.univ[k].Sig && inPool[w.univ[k].Th] {
				w.guardOK = false
			}
		}
	}
	for _, b := range conn {
		guard(b)
		w.ops = append(w.ops, fmt.Sprintf("XPeer %s %s", w.rblk(b, b.Idx), hlib.N(0)))
		for _, k := range b.Idx {
			if k != unknownID && !w.univ[k].Sig {
				w.sawKF = true
			}
		}
	}
	w.tip = now
	if err != nil {
		// the block whose connection failed: the child of the new tip on the way to n
		fail := n
		ok := false
		for id := n.ID; id > 0; id = w.node(id).Par {
			if w.node(id).Par == now {
				fail = w.node(id)
				ok = true
				break
			}
		}
		if !ok {
			w.anomaly("error %v but the delivered block does not descend from the tip", err)
		}
		fail.Good = false
		guard(fail)
		w.nontriv = true
		w.ops = append(w.ops, fmt.Sprintf("XPeer %s %s", w.rblk(fail, fail.Idx), hlib.N(uint64(ec))))
		w.note("  -> %v (block %d)", err, fail.ID)
	}
	w.settle(conn, disc)
	if disc > 0 {
		// behind the EventDelBlock messages (low priority): what the mempool holds now
		back := w.poolSnapshotPrio(false)
		w.ops = append(w.ops, "XSync "+nList(back))
		w.setLast(back)
		w.note("  pool after the re-organisation: %v", back)
	}
	return ec
}

func (w *world) peer(par *bnode, dt int64, idx []int) int {
	n := w.build(par, dt, idx)
	w.note("peer block %d on %d (height %d, dt %d) txs %v%s", n.ID, par.ID, n.B.Height, dt, n.Idx, map[bool]string{true: "", false: " [hand-built]"}[n.Good])
	return w.deliver(n)
}

// self: the producer's block on the tip (pid "self": duplicates and failing transactions are dropped)
func (w *world) self(dt int64, idx []int) int {
	par := w.tipNode()
	b := util.CreateNewBlock(w.cfg, par.B, cloneTxs(w, idx))
	b.BlockTime = par.B.BlockTime + dt
	b.Difficulty = diffBits
	if hs := string(b.Hash(w.cfg)); w.selfSeen[hs] {
		// the very same block was handed over before (the node would answer ErrBlockExist): another block time
		return w.self(dt+1, idx)
	} else {
		w.selfSeen[hs] = true
	}
	w.snap()
	in := w.idxOf(b.Txs)
	for _, k := range idx {
		w.used = append(w.used, k)
	}
	var d *types.BlockDetail
	var err error
	pan := ""
	func() {
		defer func() {
			if e := recover(); e != nil {
				pan = fmt.Sprint(e)
			}
		}()
		d, _, _, err = w.chain.ProcessBlock(false, &types.BlockDetail{Block: b}, "self", true, -1)
	}()
	tmp := &bnode{B: b, ID: len(w.blocks) + 1, Par: par.ID}
	w.note("producer block on %d (height %d, dt %d) txs %v", par.ID, b.Height, dt, in)
	if pan != "" {
		w.anomaly("ProcessBlock(self) panicked: %s", pan)
		w.ops = append(w.ops, fmt.Sprintf("XSelf %s %s []", w.rblk(tmp, in), hlib.N(8)))
		return 8
	}
	ec := errClass(err)
	if err != nil || d == nil {
		if ec == 0 {
			ec = 9
		}
		w.ops = append(w.ops, fmt.Sprintf("XSelf %s %s []", w.rblk(tmp, in), hlib.N(uint64(ec))))
		w.note("  -> %v", err)
		w.nontriv = true
		return ec
	}
	kept := w.idxOf(d.Block.Txs)
	n := w.register(d.Block, par.ID, kept, true)
	ks := make([]string, len(kept))
	for i, k := range kept {
		ks[i] = hlib.N(uint64(k))
	}
	w.ops = append(w.ops, fmt.Sprintf("XSelf %s %s %s", w.rblk(n, in), hlib.N(0), hlib.List(ks)))
	if len(kept) != len(in) {
		w.nontriv = true
		w.note("  kept %v", kept)
	}
	if w.tipID() != n.ID {
		w.anomaly("producer block accepted but it is not the tip")
	}
	w.tip = n.ID
	// the factory learns the new state
	fd, _, ferr := util.ExecBlock(w.f.GetClient(), par.B.StateHash, types.Clone(d.Block).(*types.Block), false, true, false)
	if ferr != nil || !bytes.Equal(fd.Block.StateHash, d.Block.StateHash) {
		w.anomaly("factory cannot reproduce the producer block: %v", ferr)
		n.Good = false
	}
	w.settle([]*bnode{n}, 0)
	return 0
}

func (w *world) pool(i int) bool {
	rep, err := w.r.GetAPI().SendTx(types.CloneTx(w.univ[i].Tx))
	acc := err == nil && rep != nil && rep.IsOk
	w.ops = append(w.ops, fmt.Sprintf("XPool [%s] %s", hlib.N(uint64(i)), hlib.Bool(acc)))
	w.note("pool offer %d (%s) -> %v", i, w.univ[i].Desc, acc)
	return acc
}

// ---------- final observables and rendering ----------

func (w *world) finish(o *hlib.Out, in caseIn) {
	store := w.chain.GetStore()
	h := store.Height()
	var final []string
	for k := h; k >= 0; k-- {
		bd, err := w.chain.GetBlock(k)
		if err != nil || bd == nil {
			final = append(final, fmt.Sprintf("(%s, 0%%N, %s, 0%%Z, [])", hlib.N(unknownID), hlib.Z(k)))
			continue
		}
		id, ok := w.byHash[string(bd.Block.Hash(w.cfg))]
		if !ok {
			id = unknownID
		}
		par := 0
		if k > 0 {
			if p, ok := w.byHash[string(bd.Block.ParentHash)]; ok {
				par = p
			} else {
				par = unknownID
			}
		}
		idx := w.idxOf(bd.Block.Txs)
		if k == 0 {
			idx = nil // the genesis transactions are not part of the table
		}
		n := &bnode{B: bd.Block, ID: id, Par: par}
		final = append(final, w.rblk(n, idx))
	}
	look := make([]string, len(w.univ))
	for i, u := range w.univ {
		res, err := store.GetTx(u.Tx.Hash())
		if err != nil || res == nil || res.Tx == nil {
			look[i] = hlib.Pair(hlib.Z(-1), hlib.N(0))
			continue
		}
		f := uint64(unknownID)
		if k, ok := w.full[string(res.Tx.FullHash())]; ok {
			f = w.univ[k].Tf
		}
		look[i] = hlib.Pair(hlib.Z(res.Height), hlib.N(f))
	}
	// duplicate query as the producer would ask it for the next block
	hasq := make([]string, len(w.univ))
	req := &types.TxHashList{Count: h + 1}
	for _, u := range w.univ {
		req.Hashes = append(req.Hashes, u.Tx.Hash())
		req.Expire = append(req.Expire, u.Tx.Expire)
	}
	dups := map[string]bool{}
	if len(w.univ) > 0 {
		cl := w.r.GetClient()
		msg := cl.NewMessage("blockchain", types.EventTxHashList, req)
		if err := cl.Send(msg, true); err != nil {
			panic(err)
		}
		rp, err := cl.WaitTimeout(msg, 10*time.Second)
		if err != nil {
			panic(err)
		}
		if l, ok := rp.GetData().(*types.TxHashList); ok {
			for _, x := range l.Hashes {
				dups[string(x)] = true
			}
		} else {
			w.anomaly("duplicate query failed")
		}
	}
	for i, u := range w.univ {
		hasq[i] = hlib.Bool(dups[string(u.Tx.Hash())])
	}
	txs := make([]string, len(w.univ))
	for i, u := range w.univ {
		txs[i] = fmt.Sprintf("mkTx %d %d %d %s %s %d %d %s %d %d %d", u.Th, u.Tk, u.Tf, zlit(u.Tx.Expire), zlit(u.Tx.Fee), types.Size(u.Tx), u.Tx.ChainID, hlib.Bool(u.Sig), u.Gc, u.Hdr, u.Nx)
	}
	gen := w.node(1).B
	cfgT := fmt.Sprintf("(mkCfg %d %d %d %d %d %d %s)", w.low, w.high, w.cfg.GetMinTxFeeRate(), w.cfg.GetMaxTxFee(1), w.cfg.GetChainID(), types.MaxTxSize,
		hlib.Bool(w.cfg.IsFork(1, types.ForkTxChainIDStrict)))
	term := hlib.App("Case", cfgT, hlib.N(1), hlib.Z(gen.BlockTime), hlib.List(txs), hlib.List(w.ops), hlib.List(final), hlib.List(look), hlib.List(hasq))
	if len(w.anomalies) > 0 {
		// an anomaly is a harness-level failure of the run: make the case disagree
		term = hlib.App("Case", cfgT, hlib.N(unknownID), hlib.Z(gen.BlockTime), hlib.List(txs), hlib.List(w.ops), hlib.List(final), hlib.List(look), hlib.List(hasq))
	}
	kind := in.Kind
	if w.guardOK {
		kind = "guarded/" + kind
	} else {
		kind = "unrestricted/" + kind
	}
	in.Script = w.script
	o.Emit(kind, w.nontriv, term, in, caseOut{Ops: w.ops, Final: final, Anomalies: w.anomalies})
}

func zlit(v int64) string {
	if v < 0 {
		return fmt.Sprintf("(%d)", v)
	}
	return fmt.Sprintf("%d", v)
}

// ---------- scenarios ----------

func (w *world) pickUsed() (int, bool) {
	if len(w.used) == 0 {
		return 0, false
	}
	return hlib.Pick(w.rng, w.used), true
}

// some transactions for a block offered now
func (w *world) mixed(n int, signedOnly bool) []int {
	var out []int
	for len(out) < n {
		switch w.rng.Intn(10) {
		case 0, 1:
			if k, ok := w.pickUsed(); ok && (!signedOnly || w.univ[k].Sig) {
				out = append(out, k)
			}
		case 2:
			if k, ok := w.pickUsed(); ok {
				out = append(out, w.twin(k, w.rng.Range(1, 3)))
			}
		case 3, 4:
			out = append(out, w.anyNew())
		case 5:
			// the same transaction (or its twin) twice in one list
			k := w.validNow()
			out = append(out, k)
			if w.rng.Chance(1, 2) {
				out = append(out, k)
			} else {
				out = append(out, w.twin(k, w.rng.Range(1, 3)))
			}
		default:
			out = append(out, w.validNow())
		}
	}
	return out
}

func (w *world) dt() int64 {
	switch w.rng.Intn(12) {
	case 0:
		return 0
	case 1:
		return -1
	case 2, 3:
		return int64(w.rng.Range(2, 4))
	}
	return 1
}

// edgeStep: a block exactly at, just before and just after the end of a transaction's validity
func (w *world) edgeStep() {
	o := w.rng.Range(1, 3)
	dt := int64(1)
	var k int
	switch w.rng.Intn(3) {
	case 0:
		d := int64(w.rng.Range(1, 3))
		k = w.newTx(txSpec{owner: o, exp: "time", d: d, fee: "ok"})
		dt = d + int64(w.rng.Range(-1, 1))
	case 1:
		k = w.newTx(txSpec{owner: o, exp: "height", d: int64(w.rng.Range(0, 1)), fee: "ok"})
	default:
		ds := []int64{w.low, w.low + 1, -w.high, -w.high - 1}
		k = w.newTx(txSpec{owner: o, exp: "txheight", d: hlib.Pick(w.rng, ds), fee: "ok"})
	}
	if w.rng.Chance(1, 3) {
		w.self(dt, []int{k, w.plain()})
	} else {
		w.peer(w.tipNode(), dt, []int{k})
	}
}

func (w *world) randomStep(allowForgery bool) {
	switch w.rng.Intn(20) {
	case 0, 1, 2, 3, 4:
		// a block of valid transactions
		n := w.rng.Range(1, 3)
		var idx []int
		for i := 0; i < n; i++ {
			idx = append(idx, w.validNow())
		}
		w.peer(w.tipNode(), hlib.Pick(w.rng, []int64{1, 1, 1, 2, 3, 1, 2, 0, -1}), idx)
	case 5, 6, 7:
		w.peer(w.tipNode(), w.dt(), w.mixed(w.rng.Range(1, 3), false))
	case 8:
		w.edgeStep()
	case 9, 10, 11, 12, 13:
		w.self(w.dt(), w.mixed(w.rng.Range(1, 4), true))
	case 14, 15:
		w.pool(w.validNow())
	case 16:
		k := w.anyNew()
		if w.rng.Chance(1, 2) {
			k = w.forge(w.validNow(), w.rng.Range(1, 3))
		}
		w.pool(k)
	case 17:
		// a forged transaction whose body nobody has seen: ErrSign
		k := w.forge(w.validNow(), w.rng.Range(1, 3))
		w.peer(w.tipNode(), 1, append(w.mixed(w.rng.Range(0, 1), false), k))
	case 18:
		if len(w.used) > 0 {
			k, _ := w.pickUsed()
			w.peer(w.tipNode(), 1, []int{k})
		} else {
			w.peer(w.tipNode(), 1, nil) // an empty block
		}
	case 19:
		if allowForgery {
			w.forgeryOfPooled()
		} else {
			w.peer(w.tipNode(), 1, nil)
		}
	}
}

// the known finding: T in the pool, a block with T's body under another account's key
func (w *world) forgeryOfPooled() {
	t := w.newTx(txSpec{owner: 1, exp: hlib.Pick(w.rng, []string{"none", "none", "txheight"}), fee: "ok"})
	if !w.pool(t) {
		return
	}
	f := w.forge(t, w.rng.Range(2, 3))
	idx := []int{f}
	if w.rng.Chance(1, 2) {
		idx = append(idx, w.validNow())
	}
	w.peer(w.tipNode(), 1, idx)
}

func (w *world) funding() {
	coin := w.cfg.GetCoinPrecision()
	var idx []int
	for k := 1; k <= 3; k++ {
		tx := util.CreateCoinsTx(w.cfg, nil, addrOf(w.keys[k]), 1000*coin)
		tx.Nonce = int64(w.rng.U64() >> 2)
		tx.Sign(types.SECP256K1, w.keys[0])
		idx = append(idx, w.add(tx, "funding"))
	}
	if w.peer(w.tipNode(), 1, idx) != 0 {
		w.anomaly("funding block rejected")
	}
}

func scenarioLinear(w *world, steps int, forgery bool) {
	w.funding()
	for i := 0; i < steps; i++ {
		w.randomStep(forgery)
	}
}

func scenarioForgery(w *world) {
	w.funding()
	for i := w.rng.Range(0, 2); i > 0; i-- {
		w.randomStep(false)
	}
	w.forgeryOfPooled()
	for i := w.rng.Range(0, 3); i > 0; i-- {
		w.randomStep(true)
	}
}

// window: one TxHeight transaction, then attempts to repeat it at every later height up to and
// beyond the end of its window (exercises both ends of the cache window)
func scenarioWindow(w *world) {
	w.funding()
	d := int64(w.rng.Range(int(w.low)-1, int(w.low)+1)) // first inclusion at the start of the window (or just before it)
	x := w.newTx(txSpec{owner: 1, exp: "txheight", d: d, fee: "ok"})
	w.peer(w.tipNode(), 1, []int{x})
	for i := int64(0); i < w.low+w.high+2; i++ {
		if w.rng.Chance(2, 3) {
			if w.rng.Chance(1, 3) {
				w.self(1, []int{x, w.plain()})
			} else {
				w.peer(w.tipNode(), 1, []int{x})
			}
		}
		if w.rng.Chance(1, 5) {
			w.self(1, []int{w.validNow()})
		} else {
			w.peer(w.tipNode(), 1, []int{w.validNow()})
		}
	}
}

// reorg: a trunk up to height 13 or 14, a side branch from a fork point 2-4 blocks below the
// tip that repeats transactions of the blocks it replaces, of the common prefix, and of itself
func scenarioReorg(w *world) {
	w.funding()
	for w.tipNode().B.Height < 9 {
		w.peer(w.tipNode(), 1, []int{w.plain()})
	}
	top := int64(w.rng.Range(13, 14))
	for w.tipNode().B.Height < top {
		idx := []int{w.validNow()}
		if w.rng.Chance(1, 2) {
			idx = append(idx, w.validNow())
		}
		if w.peer(w.tipNode(), 1, idx) != 0 {
			w.peer(w.tipNode(), 1, []int{w.plain()})
		}
	}
	trunk := w.ancestors(w.tip) // tip ... genesis
	back := w.rng.Range(2, 4)
	fork := w.node(trunk[back])
	var above, below []int
	for i, id := range trunk {
		for _, k := range w.node(id).Idx {
			if i < back {
				above = append(above, k)
			} else if i < back+4 {
				below = append(below, k)
			}
		}
	}
	par := fork
	var sideTxs []int
	for par.B.Height <= top && par.Good {
		var idx []int
		for n := w.rng.Range(1, 2); n > 0; n-- {
			switch w.rng.Intn(8) {
			case 0, 1, 2:
				idx = append(idx, hlib.Pick(w.rng, above)) // replaced with its block: allowed again
			case 3:
				if w.rng.Chance(1, 2) {
					idx = append(idx, hlib.Pick(w.rng, below)) // still on the chain: a duplicate
				} else {
					idx = append(idx, w.plain())
				}
			case 4:
				if len(sideTxs) > 0 && w.rng.Chance(1, 2) {
					idx = append(idx, hlib.Pick(w.rng, sideTxs))
				} else {
					idx = append(idx, w.twin(hlib.Pick(w.rng, above), w.rng.Range(1, 3)))
				}
			default:
				idx = append(idx, w.validNow())
			}
		}
		n := w.build(par, 1, idx)
		w.note("side block %d on %d (height %d) txs %v%s", n.ID, par.ID, n.B.Height, n.Idx, map[bool]string{true: "", false: " [hand-built]"}[n.Good])
		sideTxs = append(sideTxs, n.Idx...)
		ec := w.deliver(n)
		if ec != 0 {
			break
		}
		par = n
	}
	// afterwards: transactions of both branches again, and the window cache after the disconnections
	for i := w.rng.Range(2, 5); i > 0; i-- {
		switch w.rng.Intn(6) {
		case 0, 1:
			w.peer(w.tipNode(), 1, []int{hlib.Pick(w.rng, above)})
		case 2:
			w.self(1, []int{hlib.Pick(w.rng, above), hlib.Pick(w.rng, sideTxs), w.plain()})
		case 3:
			w.peer(w.tipNode(), 1, []int{hlib.Pick(w.rng, sideTxs)})
		default:
			w.randomStep(false)
		}
	}
	// the old trunk may win again
	if w.rng.Chance(1, 3) {
		old := w.node(trunk[0])
		if old.Good {
			p := old
			for k := 0; k < 8 && w.tip != p.ID && p.Good; k++ {
				n := w.build(p, 1, []int{w.plain()})
				w.note("old trunk extended: block %d on %d", n.ID, p.ID)
				if w.deliver(n) != 0 {
					break
				}
				p = n
			}
		}
	}
}

// reorg-window: a TxHeight transaction x sits exactly low+high blocks below the tip, at the first
// height of its window; a side branch replaces the tip (or the last two blocks) with a block that
// carries x again at the last height of its window.  Disconnecting the tip must bring x's block
// back into the cache window.
func scenarioReorgWindow(w *world) {
	w.funding()
	top := int64(w.rng.Range(13, 14))
	h0 := top - w.low - w.high
	for w.tipNode().B.Height < h0-1 {
		w.peer(w.tipNode(), 1, []int{w.plain()})
	}
	x := w.newTx(txSpec{owner: w.rng.Range(1, 3), exp: "txheight", d: w.low, fee: "ok"})
	y := -1
	w.peer(w.tipNode(), 1, []int{x})
	for w.tipNode().B.Height < top {
		idx := []int{w.plain()}
		if w.tipNode().B.Height == top-1 && w.rng.Chance(1, 2) {
			// a TxHeight transaction in the block that will be replaced: allowed again afterwards
			y = w.newTx(txSpec{owner: 1, exp: "txheight", d: int64(w.rng.Range(0, int(w.low))), fee: "ok"})
			idx = append(idx, y)
		}
		w.peer(w.tipNode(), 1, idx)
	}
	trunk := w.ancestors(w.tip)
	back := w.rng.Range(1, 2)
	par := w.node(trunk[back])
	for par.B.Height <= top && par.Good {
		idx := []int{w.plain()}
		if par.B.Height == top-1 {
			switch w.rng.Intn(4) {
			case 0:
				idx = []int{x}
			case 1:
				idx = append(idx, x)
			case 2:
				if y >= 0 {
					idx = append(idx, y)
				}
			}
		}
		n := w.build(par, 1, idx)
		w.note("side block %d on %d (height %d) txs %v", n.ID, par.ID, n.B.Height, n.Idx)
		if w.deliver(n) != 0 {
			break
		}
		par = n
	}
	for i := w.rng.Range(1, 3); i > 0; i-- {
		switch w.rng.Intn(4) {
		case 0:
			w.peer(w.tipNode(), 1, []int{x})
		case 1:
			if y >= 0 {
				w.peer(w.tipNode(), 1, []int{y})
			} else {
				w.self(1, []int{x, w.plain()})
			}
		case 2:
			w.self(1, []int{x, w.plain()})
		default:
			w.peer(w.tipNode(), 1, []int{w.validNow()})
		}
	}
}

// ---------- main ----------

func runCase(o *hlib.Out, f *testnode.Chain33Mock, in caseIn) {
	t0 := time.Now()
	r := newNode(in.Low, in.High, in.Cache)
	t1 := time.Now()
	defer func() {
		t2 := time.Now()
		r.Close()
		if os.Getenv("HC28_DEBUG") != "" {
			fmt.Fprintln(os.Stderr, "hC28: case", in.Idx, in.Kind, "new", t1.Sub(t0), "run", t2.Sub(t1), "close", time.Since(t2))
		}
	}()
	cfg := f.GetClient().GetConfig()
	w := &world{f: f, r: r, chain: r.GetBlockChain(), cfg: cfg, rng: hlib.NewRng(in.Seed*1000003 + uint64(in.Idx)), low: in.Low, high: in.High,
		keys: []crypto.PrivKey{f.GetGenesisKey(), key(11), key(23), key(37)},
		full: map[string]int{}, thID: map[string]uint64{}, tkID: map[string]uint64{}, byHash: map[string]int{}, selfSeen: map[string]bool{}, guardOK: true}
	gen := r.GetBlock(0)
	if !bytes.Equal(gen.Hash(cfg), f.GetBlock(0).Hash(cfg)) {
		panic("receiver has a different genesis block")
	}
	w.register(gen, 0, nil, true)
	w.tip = 1
	switch {
	case in.Kind == "forgery":
		scenarioForgery(w)
	case in.Kind == "window":
		scenarioWindow(w)
	case in.Kind == "reorg":
		scenarioReorg(w)
	case in.Kind == "reorg-window":
		scenarioReorgWindow(w)
	case in.Kind == "reorg-evict":
		scenarioReorgEvict(w)
	case in.Kind == "group-forge":
		scenarioGroupForge(w)
	case in.Kind == "group-hdrempty":
		scenarioGroupHdrEmpty(w)
	case in.Kind == "group-window":
		scenarioGroupWindow(w)
	case in.Kind == "group-reorg":
		scenarioGroupReorg(w)
	case strings.HasPrefix(in.Kind, "group-linear"):
		scenarioGroupLinear(w, w.rng.Range(5, 10), in.Kind == "group-linear-any")
	case strings.HasPrefix(in.Kind, "linear"):
		scenarioLinear(w, w.rng.Range(6, 12), in.Kind == "linear-any")
	default:
		panic("unknown kind " + in.Kind)
	}
	w.finish(o, in)
}

func main() {
	quiet()
	opts := hlib.ParseFlags()
	o := hlib.NewOut(opts.OutDir)
	defer o.Close()
	f := newNode(2, 3, 0)
	defer f.Close()
	quiet()
	start := time.Now()

	if opts.Replay != "" {
		var in caseIn
		if err := hlib.ReplayInput(opts.Replay, &in); err != nil {
			panic(err)
		}
		runCase(o, f, in)
		return
	}
	n, budget := 160, 60*time.Second
	if opts.Thorough() {
		n, budget = 3200, 30*time.Minute
	}
	if v := os.Getenv("HC28_N"); v != "" {
		fmt.Sscan(v, &n)
	}
	kinds := []string{"linear", "group-linear", "window", "group-hdrempty", "reorg", "group-reorg", "forgery", "group-forge",
		"reorg-window", "group-window", "linear-any", "group-linear-any", "group-linear", "reorg", "group-reorg", "group-hdrempty"}
	if v := os.Getenv("HC28_KINDS"); v != "" {
		kinds = strings.Split(v, ",")
	}
	windows := [][2]int64{{2, 3}, {1, 1}, {2, 3}, {1, 2}, {3, 2}}
	// blocks the node keeps in memory: must not be observable (0 = the default of 128, more than any chain here)
	caches := []int64{0, 1, 3}
	evict := os.Getenv("HC28_EVICT") != "0" && os.Getenv("HC28_KINDS") == ""
	for i := 0; i < n; i++ {
		if time.Since(start) > budget {
			fmt.Fprintln(os.Stderr, "hC28: time budget reached after", i, "cases")
			break
		}
		if evict && i%8 == 2 {
			// reorg-evict: the block that a disconnection must bring back into the duplicate window has
			// left (cache <= low+high) or is the oldest block of (cache = low+high+1) the in-memory block cache
			j := i / 8
			wd := windows[(j+1)%len(windows)]
			cs := []int64{1, wd[0] + wd[1], 2, wd[0] + wd[1] - 1, wd[0] + wd[1] + 1}
			runCase(o, f, caseIn{Seed: opts.Seed, Idx: evictBase + j, Kind: "reorg-evict", Low: wd[0], High: wd[1], Cache: cs[j%len(cs)]})
		}
		if os.Getenv("HC28_EVICT") == "only" {
			continue
		}
		r := i / len(kinds)
		wd := windows[r%len(windows)]
		runCase(o, f, caseIn{Seed: opts.Seed, Idx: i, Kind: kinds[i%len(kinds)], Low: wd[0], High: wd[1], Cache: caches[r%len(caches)]})
	}
}
