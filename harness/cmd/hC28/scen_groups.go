// hC28, scenarios with transaction groups.
package main

import (
	"verifharness/hlib"
)

func scenarioGroupLinear(w *world, steps int, forgery bool) {
	w.funding()
	for i := 0; i < steps; i++ {
		w.groupStep(forgery)
	}
}

func scenarioGroupForge(w *world) {
	w.funding()
	for i := w.rng.Range(0, 2); i > 0; i-- {
		w.groupStep(false)
	}
	w.forgeryOfPooledGroup(w.rng.Chance(2, 3))
	for i := w.rng.Range(0, 3); i > 0; i-- {
		w.groupStep(true)
	}
}

// group-hdrempty: groups whose 32-byte header hash decodes as an empty protobuf group (the value
// for which the member-level Transaction.IsExpire answers "not expired" whatever the member's
// Expire says), with a member at / before / after the end of its validity, through a peer block
// and through the producer's path; a group of the same shape with an ordinary header for contrast
func scenarioGroupHdrEmpty(w *world) {
	w.funding()
	for i := w.rng.Range(0, 2); i > 0; i-- {
		w.peer(w.tipNode(), 1, []int{w.plain()})
	}
	for round := w.rng.Range(2, 3); round > 0; round-- {
		n := w.rng.Range(2, 3)
		gs := groupSpec{grind: true}
		for i := 0; i < n; i++ {
			gs.members = append(gs.members, txSpec{owner: w.rng.Range(1, 3), exp: "none"})
		}
		pos := w.rng.Intn(n)
		switch w.rng.Intn(5) {
		case 0:
			gs.members[pos] = txSpec{owner: 1, exp: "height", d: int64(w.rng.Range(-3, 0))} // expired by height
		case 1:
			gs.members[pos] = txSpec{owner: 2, exp: "time", d: int64(w.rng.Range(-5, 1))} // expired by block time (dt = 1)
		case 2:
			gs.members[pos] = txSpec{owner: 3, exp: "txheight", d: hlib.Pick(w.rng, []int64{w.low + 1, w.low + 2, -w.high - 1, -w.high - 3})}
		case 3:
			gs.members[pos] = w.memberEdge()
		default:
			gs.members[pos] = w.memberValid() // ground, not expired: accepted
		}
		g := w.newGroup(gs)
		plainHdr := gs
		plainHdr.grind = false
		switch w.rng.Intn(4) {
		case 0:
			w.self(1, append(append([]int{w.plain()}, g...), w.plain()))
		case 1:
			w.poolGroup(g)
			w.peer(w.tipNode(), 1, g)
		case 2:
			w.peer(w.tipNode(), 1, w.newGroup(plainHdr))
			w.peer(w.tipNode(), 1, g)
		default:
			w.peer(w.tipNode(), 1, w.withSingles(g))
		}
		if w.rng.Chance(1, 2) {
			// once more one block later (a member that was still valid may have expired; an accepted group is a duplicate)
			if w.rng.Chance(1, 2) {
				w.self(1, append(append([]int{}, g...), w.plain()))
			} else {
				w.peer(w.tipNode(), 1, g)
			}
		}
	}
}

// group-window: a group with a TxHeight member, then attempts to repeat the group (or the member
// inside another block) at every later height up to and beyond the end of the window
func scenarioGroupWindow(w *world) {
	w.funding()
	d := int64(w.rng.Range(int(w.low)-1, int(w.low)+1))
	n := w.rng.Range(2, 3)
	gs := groupSpec{}
	for i := 0; i < n; i++ {
		gs.members = append(gs.members, txSpec{owner: w.rng.Range(1, 3), exp: "none"})
	}
	pos := w.rng.Intn(n)
	gs.members[pos] = txSpec{owner: 1, exp: "txheight", d: d}
	if w.rng.Chance(1, 3) {
		gs.members[(pos+1)%n] = txSpec{owner: 2, exp: "txheight", d: d + int64(w.rng.Range(-1, 1))}
	}
	g := w.newGroup(gs)
	w.peer(w.tipNode(), 1, g)
	for i := int64(0); i < w.low+w.high+2; i++ {
		if w.rng.Chance(2, 3) {
			switch w.rng.Intn(4) {
			case 0:
				w.self(1, append(append([]int{}, g...), w.plain()))
			case 1:
				w.peer(w.tipNode(), 1, []int{g[pos]})
			default:
				w.peer(w.tipNode(), 1, g)
			}
		}
		if w.rng.Chance(1, 4) {
			w.self(1, w.validGroup())
		} else {
			w.peer(w.tipNode(), 1, []int{w.validNow()})
		}
	}
}

// group-reorg: a trunk whose last blocks carry groups; a side branch from 2-3 blocks below the
// tip repeats groups of the replaced blocks (allowed again), of the common prefix (duplicates), parts
// of them, and its own; afterwards the groups of both branches are offered again, and a group
// that the mempool took back after the re-organisation comes in a block with a mis-signed member
func scenarioGroupReorg(w *world) {
	w.funding()
	top := int64(w.rng.Range(13, 14))
	for w.tipNode().B.Height < top-5 {
		w.peer(w.tipNode(), 1, []int{w.plain()})
	}
	type gb struct {
		g  []int
		id int
	}
	var trunkGroups []gb
	for w.tipNode().B.Height < top {
		g := w.poolableGroup() // the mempool may take it back when its block is replaced
		l := g
		if w.rng.Chance(1, 3) {
			l = w.withSingles(g)
		}
		if w.peer(w.tipNode(), 1, l) != 0 {
			w.peer(w.tipNode(), 1, []int{w.plain()})
		} else {
			trunkGroups = append(trunkGroups, gb{g, w.tip})
		}
	}
	trunk := w.ancestors(w.tip)
	back := w.rng.Range(2, 3)
	fork := w.node(trunk[back])
	replaced := map[int]bool{}
	for i := 0; i < back; i++ {
		replaced[trunk[i]] = true
	}
	var above, below [][]int
	for _, x := range trunkGroups {
		if replaced[x.id] {
			above = append(above, x.g)
		} else {
			below = append(below, x.g)
		}
	}
	par := fork
	var side [][]int
	if w.rng.Chance(1, 2) {
		// a heavier branch takes over at equal (or lower) height: the mempool's header stays at the
		// old tip's height and EventDelBlock puts the old tip's transactions back
		w.bits = 0x1f1fffff
	}
	defer func() { w.bits = 0 }()
	for par.B.Height <= top && par.Good {
		var l []int
		sel := w.rng.Intn(8)
		if par.B.Height < top && sel >= 3 && sel <= 5 {
			sel = 6 // the blocks below the old tip's height are good ones: the branch must get its chance
		}
		switch sel {
		case 0, 1, 2:
			if len(above) > 0 {
				l = hlib.Pick(w.rng, above)
			}
		case 3:
			if len(below) > 0 {
				l = hlib.Pick(w.rng, below)
			}
		case 4:
			if len(above) > 0 {
				l = w.arrange(hlib.Pick(w.rng, above))
			}
		case 5:
			if len(side) > 0 {
				l = hlib.Pick(w.rng, side)
			}
		}
		if l == nil {
			l = w.plainGroup()
		}
		if w.rng.Chance(1, 4) {
			l = append(append([]int{}, l...), w.plain())
		}
		n := w.build(par, 1, l)
		w.note("side block %d on %d (height %d) txs %v", n.ID, par.ID, n.B.Height, n.Idx)
		side = append(side, l)
		if w.deliver(n) != 0 {
			break
		}
		par = n
	}
	// a group of a replaced block that the mempool took back, in a block with a mis-signed member
	var backIn [][]int
	for _, g := range above {
		if w.lastSet[w.univ[g[0]].Th] {
			backIn = append(backIn, g)
		}
	}
	if len(backIn) > 0 && w.rng.Chance(3, 4) {
		g := hlib.Pick(w.rng, backIn)
		pos := 0
		if w.rng.Chance(1, 4) {
			pos = w.rng.Range(1, len(g)-1)
		}
		w.peer(w.tipNode(), 1, w.forgeIn(g, pos))
	}
	for i := w.rng.Range(1, 3); i > 0; i-- {
		sel := w.rng.Intn(7)
		switch sel {
		case 0, 1:
			if len(above) > 0 {
				w.peer(w.tipNode(), 1, hlib.Pick(w.rng, above))
			}
		case 2:
			if len(above) > 0 {
				w.self(1, append(append([]int{}, hlib.Pick(w.rng, above)...), w.plain()))
			}
		case 3:
			w.peer(w.tipNode(), 1, hlib.Pick(w.rng, side))
		case 4, 5:
			// a group of a replaced block, possibly back in the pool, with a mis-signed member
			if len(above) > 0 {
				g := hlib.Pick(w.rng, above)
				pos := 0
				if w.rng.Chance(1, 3) {
					pos = w.rng.Range(1, len(g)-1)
				}
				w.peer(w.tipNode(), 1, w.forgeIn(g, pos))
			}
		default:
			w.groupStep(false)
		}
	}
}
