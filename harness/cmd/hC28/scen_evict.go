// reorg-evict: the duplicate window must be refilled from blocks that the node no longer holds in memory.
//
// txHashCache.Del(height) (disconnection of the tip) has to bring the transactions of block
// height-(low+high) back into the window.  That block is low+high blocks old; the node created for
// this scenario keeps only `cache` blocks in memory (BlockChain.DefCacheSize, 1 .. low+high+1), so for
// cache <= low+high the block has to come from the database.  Which blocks are in memory is not part
// of the model: the observables must be the same for every cache size.
package main

import (
	"verifharness/hlib"
)

// The last d trunk blocks that leave the window when the trunk reaches `top` carry one TxHeight
// transaction each, packed at the first height of its validity: X_j in block h0-j (h0 = top-low-high),
// valid up to height top-j, dropped from the window by the connection of block top-j.  A side branch
// from d below the tip replaces the blocks top-d+1..top; disconnecting block top-j must bring X_j
// back, so the side block at height top-j that repeats X_j (the last height where X_j is unexpired) is
// a replay and must be refused; X_i with i < j at that height likewise; X_i with i > j is expired there.
func scenarioReorgEvict(w *world) {
	w.funding()
	n := w.low + w.high
	top := int64(w.rng.Range(13, 14))
	d := w.rng.Range(1, 3)
	h0 := top - n
	for int64(d) > h0-2 {
		d-- // block 1 is the funding block
	}
	xs := make([]int, d) // xs[j] sits in block h0-j
	for w.tipNode().B.Height < h0-int64(d) {
		w.peer(w.tipNode(), 1, []int{w.plain()})
	}
	for j := d - 1; j >= 0; j-- {
		xs[j] = w.newTx(txSpec{owner: w.rng.Range(1, 3), exp: "txheight", d: w.low, fee: "ok"})
		idx := []int{xs[j]}
		if w.rng.Chance(1, 3) {
			idx = append(idx, w.plain())
		}
		if w.peer(w.tipNode(), 1, idx) != 0 {
			w.anomaly("reorg-evict: block with a fresh TxHeight transaction rejected")
			return
		}
	}
	y := -1
	for w.tipNode().B.Height < top {
		idx := []int{w.plain()}
		if w.tipNode().B.Height >= top-int64(d) && w.rng.Chance(1, 3) {
			// a TxHeight transaction in a block that will be replaced: allowed again afterwards
			y = w.newTx(txSpec{owner: 1, exp: "txheight", d: int64(w.rng.Range(0, int(w.low))), fee: "ok"})
			idx = append(idx, y)
		}
		if w.peer(w.tipNode(), 1, idx) != 0 {
			w.anomaly("reorg-evict: trunk block rejected")
			return
		}
	}
	trunk := w.ancestors(w.tip)
	par := w.node(trunk[d])
	// the side block at height top-js repeats a transaction; in 1 of 8 histories none does
	js := w.rng.Intn(d)
	rep := xs[js]
	switch w.rng.Intn(8) {
	case 0:
		rep = -1
	case 1:
		rep = xs[w.rng.Intn(js+1)] // an earlier one (still in the window too), or the same
	case 2:
		if js+1 < d {
			rep = xs[js+1] // its window ended one block earlier: expired
		}
	}
	if w.rng.Chance(1, 2) {
		w.bits = 0x1f1fffff // heavier blocks: the branch takes over at equal or lower height
	}
	defer func() { w.bits = 0 }()
	for par.B.Height <= top {
		idx := []int{w.plain()}
		if !par.Good {
			// a block with an expired transaction was offered as a side block: one block on top of it (built on
			// the state without that transaction) makes the node switch over and judge it
		} else if par.B.Height+1 == top-int64(js) && rep >= 0 {
			if w.rng.Chance(1, 2) {
				idx = []int{rep}
			} else {
				idx = append(idx, rep)
			}
		} else if y >= 0 && par.B.Height+1 > top-int64(js) && w.rng.Chance(1, 3) {
			idx = append(idx, y)
		}
		b := w.build(par, 1, idx)
		w.note("side block %d on %d (height %d) txs %v", b.ID, par.ID, b.B.Height, b.Idx)
		if w.deliver(b) != 0 {
			break
		}
		par = b
	}
	w.bits = 0
	// afterwards: the window transactions again on whatever tip the node has now
	for i := w.rng.Range(1, 3); i > 0; i-- {
		x := hlib.Pick(w.rng, xs)
		switch w.rng.Intn(5) {
		case 0, 1:
			w.peer(w.tipNode(), 1, []int{x})
		case 2:
			w.self(1, []int{x, w.plain()})
		case 3:
			if y >= 0 {
				w.peer(w.tipNode(), 1, []int{y})
			} else {
				w.self(1, append([]int{w.plain()}, xs...))
			}
		default:
			w.peer(w.tipNode(), 1, []int{w.validNow()})
		}
	}
}
