// hC28, transaction groups: builders for well-formed and defective groups (2-4 members), groups
// whose header hash is ground until it decodes as an empty protobuf group, offers of groups to
// the mempool, and the scenarios that put them into peer blocks, producer blocks and side branches.
package main

import (
	"fmt"

	"github.com/33cn/chain33/types"
	"verifharness/hlib"
)

type groupSpec struct {
	members []txSpec
	defect  string // "" "feelow" "memberfee" "count" "hdr" "next" "maxfee"
	grind   bool   // grind the last member's nonce until the group hash decodes as an empty Transactions
}

func decodesAsEmptyGroup(h []byte) bool {
	var g types.Transactions
	return types.Decode(h, &g) == nil && len(g.Txs) == 0
}

// newGroup builds, signs and registers the members; the result lists their table positions in
// group order
func (w *world) newGroup(gs groupSpec) []int {
	n := len(gs.members)
	ms := make([]*types.Transaction, n)
	descs := make([]string, n)
	for i, s := range gs.members {
		ms[i], descs[i] = w.body(s)
	}
	g, err := types.CreateTxGroup(ms, w.cfg.GetMinTxFeeRate())
	if err != nil {
		panic(err)
	}
	sign := func() {
		for i := range ms {
			ms[i].Sign(types.SECP256K1, w.keys[gs.members[i].owner])
		}
	}
	// the head pays for the signed sizes: settle the fee, then the hashes
	need := func() int64 {
		t := int64(0)
		for _, m := range ms {
			f, _ := m.GetRealFee(w.cfg.GetMinTxFeeRate())
			t += f
		}
		return t
	}
	for round := 0; round < 6; round++ {
		g.RebuiltGroup()
		sign()
		want := need()
		switch gs.defect {
		case "feelow":
			want--
		case "maxfee":
			want = w.cfg.GetMaxTxFee(w.tipNode().B.Height+1) + 1
		}
		if ms[0].Fee == want {
			break
		}
		ms[0].Fee = want
	}
	g.RebuiltGroup()
	switch gs.defect {
	case "memberfee":
		ms[n-1].Fee = 1
		g.RebuiltGroup()
	case "count":
		for i := range ms {
			ms[i].GroupCount = int32(n + 1)
		}
		g.RebuiltGroup()
	}
	if gs.grind {
		base := ms[n-1].Nonce
		ctr := int64(0)
		for !decodesAsEmptyGroup(ms[0].Header) {
			ctr++
			if ctr > 400000 {
				panic("header grinding failed")
			}
			ms[n-1].Nonce = base + ctr<<20
			g.RebuiltGroup()
		}
	}
	switch gs.defect {
	case "hdr":
		ms[n-1].Header = w.rng.Bytes(32) // Hash() does not cover it; signed below
	case "next":
		ms[n-1].Next = w.rng.Bytes(32)
	}
	sign()
	if gs.grind && !decodesAsEmptyGroup(ms[0].Header) {
		panic("ground header lost")
	}
	idx := make([]int, n)
	for i := range ms {
		d := fmt.Sprintf("group member %d/%d %s", i+1, n, descs[i])
		if gs.defect != "" {
			d += " defect=" + gs.defect
		}
		if gs.grind {
			d += " ground"
		}
		idx[i] = w.add(ms[i], d)
	}
	w.groups = append(w.groups, idx)
	return idx
}

func (w *world) memberValid() txSpec {
	o := w.rng.Range(1, 3)
	switch w.rng.Intn(8) {
	case 0:
		return txSpec{owner: o, exp: "height", d: int64(w.rng.Range(1, 4))}
	case 1:
		return txSpec{owner: o, exp: "time", d: int64(w.rng.Range(4, 9))}
	case 2, 3:
		return txSpec{owner: o, exp: "txheight", d: int64(w.rng.Range(int(-w.high), int(w.low)))}
	case 4:
		return txSpec{owner: o, exp: "none", pad: w.rng.Range(40, 300)}
	}
	return txSpec{owner: o, exp: "none"}
}

// memberEdge: a member at, just before or just after the end of its validity (for dt = 1)
func (w *world) memberEdge() txSpec {
	o := w.rng.Range(1, 3)
	switch w.rng.Intn(3) {
	case 0:
		return txSpec{owner: o, exp: "height", d: int64(w.rng.Range(-1, 1))}
	case 1:
		return txSpec{owner: o, exp: "time", d: int64(w.rng.Range(0, 2))}
	}
	ds := []int64{w.low, w.low + 1, -w.high, -w.high - 1}
	return txSpec{owner: o, exp: "txheight", d: hlib.Pick(w.rng, ds)}
}

func (w *world) validGroup() []int {
	n := w.rng.Range(2, 4)
	gs := groupSpec{}
	for i := 0; i < n; i++ {
		gs.members = append(gs.members, w.memberValid())
	}
	return w.newGroup(gs)
}

// plainGroup: members without Expire (valid at any height)
func (w *world) plainGroup() []int {
	n := w.rng.Range(2, 4)
	gs := groupSpec{}
	for i := 0; i < n; i++ {
		m := txSpec{owner: w.rng.Range(1, 3), exp: "none"}
		if w.rng.Chance(1, 4) {
			m.pad = w.rng.Range(40, 300)
		}
		gs.members = append(gs.members, m)
	}
	return w.newGroup(gs)
}

// poolableGroup: valid and without a block-time Expire (the mempool compares those with the wall clock)
func (w *world) poolableGroup() []int {
	n := w.rng.Range(2, 4)
	gs := groupSpec{}
	for i := 0; i < n; i++ {
		m := w.memberValid()
		for m.exp == "time" {
			m = w.memberValid()
		}
		gs.members = append(gs.members, m)
	}
	return w.newGroup(gs)
}

// anyGroup: valid, or with one flaw (structure, fee, chain id, an expired member)
func (w *world) anyGroup() []int {
	n := w.rng.Range(2, 4)
	gs := groupSpec{}
	for i := 0; i < n; i++ {
		gs.members = append(gs.members, w.memberValid())
	}
	switch w.rng.Intn(10) {
	case 0, 1:
		gs.members[w.rng.Intn(n)] = w.memberEdge()
	case 2:
		gs.defect = hlib.Pick(w.rng, []string{"feelow", "memberfee", "maxfee"})
	case 3:
		gs.defect = hlib.Pick(w.rng, []string{"count", "hdr", "next"})
	case 4:
		gs.members[w.rng.Range(0, n-1)].chainID = 34
	}
	return w.newGroup(gs)
}

// block lists made of a group: whole, or broken in the ways a block can break it
func (w *world) arrange(g []int) []int {
	out := append([]int{}, g...)
	switch w.rng.Intn(12) {
	case 0: // two members swapped
		i := w.rng.Intn(len(out) - 1)
		out[i], out[i+1] = out[i+1], out[i]
	case 1: // the last member missing
		out = out[:len(out)-1]
	case 2: // the first member missing
		out = out[1:]
	case 3: // one member alone
		out = []int{hlib.Pick(w.rng, g)}
	case 4: // a member twice
		out = append(out, hlib.Pick(w.rng, g))
	case 5: // the whole group twice
		out = append(out, g...)
	case 6: // a single transaction in the middle
		out = append(append(append([]int{}, g[:1]...), w.plain()), g[1:]...)
	}
	return out
}

func (w *world) poolGroup(g []int) bool {
	ms := make([]*types.Transaction, len(g))
	for i, k := range g {
		ms[i] = types.CloneTx(w.univ[k].Tx)
	}
	grp := &types.Transactions{Txs: ms}
	rep, err := w.r.GetAPI().SendTx(grp.Tx())
	acc := err == nil && rep != nil && rep.IsOk
	xs := make([]string, len(g))
	for i, k := range g {
		xs[i] = hlib.N(uint64(k))
	}
	w.ops = append(w.ops, fmt.Sprintf("XPool %s %s", hlib.List(xs), hlib.Bool(acc)))
	w.note("pool offer of group %v -> %v %v", g, acc, err)
	return acc
}

// forgeIn: the group's list with member pos replaced by a forgery of it
func (w *world) forgeIn(g []int, pos int) []int {
	out := append([]int{}, g...)
	out[pos] = w.forge(g[pos], w.rng.Range(1, 3))
	return out
}

func (w *world) pickGroup() ([]int, bool) {
	if len(w.groups) == 0 {
		return nil, false
	}
	return hlib.Pick(w.rng, w.groups), true
}

func (w *world) withSingles(l []int) []int {
	out := l
	if w.rng.Chance(1, 3) {
		out = append([]int{w.validNow()}, out...)
	}
	if w.rng.Chance(1, 3) {
		out = append(out, w.validNow())
	}
	return out
}

func (w *world) groupStep(allowForgery bool) {
	switch w.rng.Intn(16) {
	case 0, 1, 2:
		w.peer(w.tipNode(), hlib.Pick(w.rng, []int64{1, 1, 2, 3}), w.withSingles(w.validGroup()))
	case 3, 4:
		w.peer(w.tipNode(), 1, w.withSingles(w.anyGroup()))
	case 5:
		w.peer(w.tipNode(), 1, w.arrange(w.validGroup()))
	case 6, 7:
		// the producer's list: a group, possibly broken or flawed, among single transactions
		l := w.arrange(w.anyGroup())
		if g, ok := w.pickGroup(); ok && w.rng.Chance(1, 2) {
			l = append(l, g...) // an earlier group again (on the chain, rejected, or unknown)
		}
		w.self(w.dt(), w.withSingles(l))
	case 8, 9:
		// an earlier group (or a part of it) again
		if g, ok := w.pickGroup(); ok {
			l := g
			if w.rng.Chance(1, 3) {
				l = w.arrange(g)
			}
			if w.rng.Chance(1, 2) {
				w.peer(w.tipNode(), 1, w.withSingles(l))
			} else {
				w.self(1, w.withSingles(l))
			}
		} else {
			w.peer(w.tipNode(), 1, w.validGroup())
		}
	case 10:
		// pooled, then in a block with its own signatures
		g := w.poolableGroup()
		w.poolGroup(g)
		w.peer(w.tipNode(), 1, w.withSingles(g))
	case 11:
		// a mis-signed member of a group nobody pooled: ErrSign
		g := w.validGroup()
		w.peer(w.tipNode(), 1, w.forgeIn(g, w.rng.Intn(len(g))))
	case 12:
		w.pool(w.validNow())
	case 13:
		w.poolGroup(w.anyGroup())
	case 14:
		if allowForgery {
			w.forgeryOfPooledGroup(w.rng.Chance(1, 2))
		} else {
			w.randomStep(false)
		}
	default:
		w.randomStep(false)
	}
}

// a group is pooled; a block carries it with a mis-signed first member (the shortcut applies:
// the open finding) or with a mis-signed later member (its Hash() is not the pooled one: ErrSign)
func (w *world) forgeryOfPooledGroup(head bool) {
	g := w.poolableGroup()
	if !w.poolGroup(g) {
		return
	}
	pos := 0
	if !head {
		pos = w.rng.Range(1, len(g)-1)
	}
	w.peer(w.tipNode(), 1, w.withSingles(w.forgeIn(g, pos)))
}
