// Handler streams of hC08: histories of EventLocal* requests served by the blockchain module of a
// test node (blockchain/localdb.go), sent through the queue client API directly or by
// executor.NewLocalDB objects; every request and reply is recorded at the API boundary.
package main

import (
	"bytes"
	"fmt"
	"os"
	"strings"
	"time"

	"github.com/33cn/chain33/client"
	"github.com/33cn/chain33/common"
	"github.com/33cn/chain33/common/db"
	clog "github.com/33cn/chain33/common/log"
	"github.com/33cn/chain33/executor"
	"github.com/33cn/chain33/queue"
	_ "github.com/33cn/chain33/system"
	"github.com/33cn/chain33/types"
	"github.com/33cn/chain33/util/testnode"
	"verifharness/hlib"
)

// marker: every key and prefix of the handler streams starts with this byte; the chain's own
// local keys are ASCII, so the range [01, 02) of the block-store database belongs to the harness.
const marker = 0x01

// ---------- script ----------

// sop is one scripted step. Direct mode: the request itself (ID = model transaction id).
// Executor mode: a call on the H-th executor.LocalDB created by the script.
type sop struct {
	Op     string   `json:"op"` // new close begin commit rollback set get list count starttx
	ID     int64    `json:"id,omitempty"`
	H      int      `json:"h,omitempty"`
	RO     bool     `json:"ro,omitempty"`
	Keys   []string `json:"keys,omitempty"` // hex, without the marker
	Vals   []string `json:"vals,omitempty"` // hex ("" = nil)
	Prefix string   `json:"prefix,omitempty"`
	Key    string   `json:"key,omitempty"`
	HasKey bool     `json:"haskey,omitempty"`
	Count  int32    `json:"count,omitempty"`
	Dir    int32    `json:"dir,omitempty"`
}

type hinput struct {
	Mode    string    `json:"mode"` // direct | exec
	Backend string    `json:"backend"`
	Base    []hlib.KV `json:"base"` // keys without the marker
	Script  []sop     `json:"script"`
}

// ---------- node ----------

type hnode struct {
	mock *testnode.Chain33Mock
	raw  db.DB
}

func newHNode(backend string) *hnode {
	cfg := types.NewChain33Config(types.GetDefaultCfgstring())
	mc := cfg.GetModuleConfig()
	if backend == "memdb" {
		mc.BlockChain.Driver = "memdb"
	}
	mc.Store.Driver = "memdb"
	mc.Wallet.Driver = "memdb"
	m := testnode.NewWithConfig(cfg, nil)
	clog.SetLogLevel("crit")
	deadline := time.Now().Add(120 * time.Second)
	for m.GetBlockChain().GetBlockHeight() < 0 {
		if time.Now().After(deadline) {
			panic("genesis block not created")
		}
		time.Sleep(2 * time.Millisecond)
	}
	cl := m.GetClient()
	msg := cl.NewMessage("consensus", types.EventMinerStop, nil)
	if err := cl.Send(msg, true); err == nil {
		_, _ = cl.WaitTimeout(msg, 5*time.Second)
	}
	time.Sleep(30 * time.Millisecond)
	return &hnode{mock: m, raw: m.GetBlockChain().GetDB()}
}

func mk(b []byte) []byte { return append([]byte{marker}, b...) }

// resetBase empties the harness range of the raw database and stores the base entries.
func (n *hnode) resetBase(base []hlib.KV) {
	it := n.raw.Iterator([]byte{marker}, []byte{marker + 1}, false)
	var ks [][]byte
	for it.Rewind(); it.Valid(); it.Next() {
		ks = append(ks, append([]byte{}, it.Key()...))
	}
	it.Close()
	for _, k := range ks {
		if err := n.raw.Delete(k); err != nil {
			panic(err)
		}
	}
	for _, kv := range base {
		if err := n.raw.Set(mk(hx(kv.Key)), hx(kv.Val)); err != nil {
			panic(err)
		}
	}
}

// ---------- recording API ----------

type spy struct {
	client.QueueProtocolAPI
	cl         queue.Client
	offset     int64
	ops, outs  []string
	impl       []interface{}
	nontrivial bool
	open       map[int64]bool // model ids handed out and not closed (used by the C08_COUNT_TXID switch only)
}

func (s *spy) rel(id int64) int64 {
	if id > 0 {
		return id - s.offset
	}
	return id
}

func (s *spy) abs(id int64) int64 {
	if id > 0 {
		return id + s.offset
	}
	return id
}

func errTok(err error) string {
	switch {
	case err == common.ErrPointerNotFound:
		return "e0"
	case err == types.ErrNotSetInTransaction:
		return "e1"
	case strings.Contains(err.Error(), types.ErrExecPanic.Error()):
		return "e2"
	}
	return "e3"
}

func (s *spy) rec(op, out string, obs interface{}) {
	s.ops = append(s.ops, op)
	s.outs = append(s.outs, out)
	s.impl = append(s.impl, obs)
}

func unitOut(err error) (string, interface{}) {
	if err != nil {
		return errTok(err), "err:" + err.Error()
	}
	return "o", "ok"
}

func (s *spy) LocalNew(ro bool) (*types.Int64, error) {
	r, err := s.QueueProtocolAPI.LocalNew(ro)
	op := "n0"
	if ro {
		op = "n1"
	}
	if err != nil {
		s.rec(op, errTok(err), "err:"+err.Error())
	} else {
		s.rec(op, fmt.Sprintf("i%d", s.rel(r.Data)), s.rel(r.Data))
		s.open[s.rel(r.Data)] = true
	}
	return r, err
}

func (s *spy) LocalClose(p *types.Int64) error {
	err := s.QueueProtocolAPI.LocalClose(p)
	delete(s.open, s.rel(p.Data))
	out, obs := unitOut(err)
	s.rec(fmt.Sprintf("c%d", s.rel(p.Data)), out, obs)
	return err
}

func (s *spy) LocalBegin(p *types.Int64) error {
	err := s.QueueProtocolAPI.LocalBegin(p)
	out, obs := unitOut(err)
	s.rec(fmt.Sprintf("b%d", s.rel(p.Data)), out, obs)
	return err
}

func (s *spy) LocalCommit(p *types.Int64) error {
	err := s.QueueProtocolAPI.LocalCommit(p)
	out, obs := unitOut(err)
	s.rec(fmt.Sprintf("m%d", s.rel(p.Data)), out, obs)
	return err
}

func (s *spy) LocalRollback(p *types.Int64) error {
	err := s.QueueProtocolAPI.LocalRollback(p)
	out, obs := unitOut(err)
	s.rec(fmt.Sprintf("r%d", s.rel(p.Data)), out, obs)
	return err
}

func (s *spy) LocalSet(p *types.LocalDBSet) error {
	var sb strings.Builder
	fmt.Fprintf(&sb, "s%d:", s.rel(p.Txid))
	for _, kv := range p.KV {
		sb.WriteString(hlib.HexS(kv.Key) + "=" + hlib.HexS(kv.Value) + ",")
	}
	err := s.QueueProtocolAPI.LocalSet(p)
	out, obs := unitOut(err)
	s.rec(sb.String(), out, obs)
	return err
}

func (s *spy) LocalGet(p *types.LocalDBGet) (*types.LocalReplyValue, error) {
	var sb strings.Builder
	fmt.Fprintf(&sb, "g%d:", s.rel(p.Txid))
	for _, k := range p.Keys {
		sb.WriteString(hlib.HexS(k) + ",")
	}
	r, err := s.QueueProtocolAPI.LocalGet(p)
	if err != nil {
		s.rec(sb.String(), errTok(err), "err:"+err.Error())
		return r, err
	}
	out := "v"
	obs := []string{}
	for _, v := range r.Values {
		if len(v) == 0 { // nil and empty are the same bytes field on the wire
			out += "-,"
			obs = append(obs, "-")
		} else {
			out += hlib.HexS(v) + ","
			obs = append(obs, hlib.HexS(v))
			s.nontrivial = true
		}
	}
	s.rec(sb.String(), out, obs)
	return r, err
}

func (s *spy) LocalList(p *types.LocalDBList) (*types.LocalReplyValue, error) {
	op := fmt.Sprintf("l%d:%s:%s:%d:%d", s.rel(p.Txid), hlib.HexS(p.Prefix), hlib.HexS(p.Key), p.Count, p.Direction)
	r, err := s.QueueProtocolAPI.LocalList(p)
	if err != nil {
		s.rec(op, errTok(err), "err:"+err.Error())
		return r, err
	}
	out := "t"
	obs := []string{}
	for _, v := range r.Values {
		out += hlib.HexS(v) + ","
		obs = append(obs, hlib.HexS(v))
		s.nontrivial = true
	}
	s.rec(op, out, obs)
	return r, err
}

// count sends EventLocalPrefixCount (the client API has no method for it); onBehalf is the model id of
// the transaction the caller works in — the request cannot carry it.
func (s *spy) count(onBehalf int64, prefix []byte) {
	op := fmt.Sprintf("k%d:%s", onBehalf, hlib.HexS(prefix))
	var data interface{} = &types.ReqKey{Key: prefix}
	if os.Getenv("C08_COUNT_TXID") != "" && s.open[onBehalf] {
		// only for trying /verif/work/C08/fix.diff: the patched handler accepts the transaction id in a LocalDBList
		data = &types.LocalDBList{Txid: s.abs(onBehalf), Prefix: prefix}
	}
	msg := s.cl.NewMessage("blockchain", types.EventLocalPrefixCount, data)
	if err := s.cl.Send(msg, true); err != nil {
		s.rec(op, "e3", "err:"+err.Error())
		return
	}
	r, err := s.cl.WaitTimeout(msg, 30*time.Second)
	if err != nil {
		s.rec(op, errTok(err), "err:"+err.Error())
		return
	}
	if c, ok := r.GetData().(*types.Int64); ok {
		s.rec(op, fmt.Sprintf("k%d", c.Data), c.Data)
	} else {
		s.rec(op, "f", "bad reply type")
	}
}

// ---------- running a script ----------

func guard(f func()) {
	defer func() { _ = recover() }()
	f()
}

func nilIfEmpty(b []byte) []byte {
	if len(b) == 0 {
		return nil
	}
	return b
}

func (e *env) runHandlers(kind string, in hinput) {
	n := e.nodes[in.Backend]
	n.resetBase(in.Base)
	layer := hlib.Layer{}
	for _, kv := range in.Base {
		layer[string(mk(hx(kv.Key)))] = hx(kv.Val)
	}
	api := n.mock.GetAPI()
	s := &spy{QueueProtocolAPI: api, cl: n.mock.GetClient(), open: map[int64]bool{}}
	// the value of the global pointer counter: ids of this history are relative to it
	probe, err := api.LocalNew(true)
	if err != nil {
		panic(err)
	}
	if err := api.LocalClose(probe); err != nil {
		panic(err)
	}
	s.offset = probe.Data

	var xdbs []db.KVDB // executor mode
	xids := []int64{}  // their model ids
	for _, o := range in.Script {
		o := o
		keys := [][]byte{}
		for _, k := range o.Keys {
			keys = append(keys, mk(hx(k)))
		}
		var listKey []byte
		if o.HasKey {
			listKey = mk(hx(o.Key))
		}
		if in.Mode == "direct" {
			id := &types.Int64{Data: s.abs(o.ID)}
			switch o.Op {
			case "new":
				_, _ = s.LocalNew(o.RO)
			case "close":
				_ = s.LocalClose(id)
			case "begin":
				_ = s.LocalBegin(id)
			case "commit":
				_ = s.LocalCommit(id)
			case "rollback":
				_ = s.LocalRollback(id)
			case "set":
				p := &types.LocalDBSet{Txid: id.Data}
				for i, k := range keys {
					p.KV = append(p.KV, &types.KeyValue{Key: k, Value: nilIfEmpty(hx(o.Vals[i]))})
				}
				_ = s.LocalSet(p)
			case "get":
				_, _ = s.LocalGet(&types.LocalDBGet{Txid: id.Data, Keys: keys})
			case "list":
				_, _ = s.LocalList(&types.LocalDBList{Txid: id.Data, Prefix: mk(hx(o.Prefix)), Key: listKey, Count: o.Count, Direction: o.Dir})
			case "count":
				s.count(o.ID, mk(hx(o.Prefix)))
			}
			continue
		}
		// executor mode
		if o.Op == "new" {
			before := len(s.ops)
			guard(func() { xdbs = append(xdbs, executor.NewLocalDB(n.mock.GetClient(), s, o.RO)) })
			if len(s.ops) > before && strings.HasPrefix(s.outs[before], "i") {
				var id int64
				fmt.Sscanf(s.outs[before], "i%d", &id)
				xids = append(xids, id)
			}
			continue
		}
		if o.H < 0 || o.H >= len(xdbs) {
			continue
		}
		x := xdbs[o.H]
		guard(func() {
			switch o.Op {
			case "close":
				_ = x.(*executor.LocalDB).Close()
			case "begin":
				x.Begin()
			case "commit":
				_ = x.Commit()
			case "rollback":
				x.Rollback()
			case "starttx":
				x.(*executor.LocalDB).StartTx()
			case "set":
				for i, k := range keys {
					_ = x.Set(k, nilIfEmpty(hx(o.Vals[i])))
				}
			case "get":
				for _, k := range keys {
					_, _ = x.Get(k)
				}
			case "list":
				_, _ = x.List(mk(hx(o.Prefix)), listKey, o.Count, o.Dir)
			case "count":
				s.count(xids[o.H], mk(hx(o.Prefix)))
			}
		})
	}
	// leave no pointer behind (not part of the history)
	for i := int64(1); i <= 64; i++ {
		_ = api.LocalClose(&types.Int64{Data: s.offset + i})
	}
	e.out.Emit(kind, s.nontrivial,
		hlib.App("CHand", layer.Coq(), `(phops "`+strings.Join(s.ops, ";")+term(s.ops)+`")`,
			`(phouts "`+strings.Join(s.outs, ";")+term(s.outs)+`")`), in, s.impl)
}

// ---------- generators ----------

type hgen struct {
	r      *hlib.Rng
	pool   [][]byte
	live   []int64
	closed []int64
	next   int64 // ids handed out so far
	last   int64 // id of the previous request (runs of requests on one transaction)
}

func (g *hgen) key() string {
	if g.r.Chance(1, 8) {
		return hlib.HexS(randKey(g.r, 1, 3))
	}
	return hlib.HexS(hlib.Pick(g.r, g.pool))
}

func (g *hgen) val(i int) string {
	if g.r.Chance(3, 10) {
		return ""
	}
	return hlib.HexS([]byte{'w', byte('0' + i%70)})
}

func (g *hgen) id() int64 {
	if g.last > 0 && g.r.Chance(1, 2) {
		for _, l := range g.live {
			if l == g.last {
				return l
			}
		}
	}
	g.last = g.pickID()
	return g.last
}

func (g *hgen) pickID() int64 {
	x := g.r.Intn(100)
	switch {
	case x < 80 && len(g.live) > 0:
		return hlib.Pick(g.r, g.live)
	case x < 87:
		return 0
	case x < 92 && len(g.closed) > 0:
		return hlib.Pick(g.r, g.closed)
	case x < 95:
		return g.next + int64(g.r.Range(1, 5)) // not handed out yet
	case x < 98:
		return -int64(g.r.Range(1, 3))
	}
	return int64(g.r.Range(1, 6))
}

func (g *hgen) listOp(o *sop) {
	o.Prefix = hlib.HexS(hlib.Pick(g.r, prefixes))
	if g.r.Chance(1, 2) {
		o.HasKey, o.Key = true, g.key()
	}
	o.Count = hlib.Pick(g.r, []int32{0, 0, 1, 2, 3, -1})
	o.Dir = hlib.Pick(g.r, []int32{0, 1, 4, 5, 8, 9, 2, 3, 12})
	if g.r.Chance(1, 10) {
		o.Count, o.Dir = 1, 2
	}
}

func genBase(r *hlib.Rng, pool [][]byte) []hlib.KV {
	base := hlib.Layer{}
	for _, k := range pool {
		if r.Chance(1, 2) {
			if r.Chance(1, 8) {
				base[string(k)] = []byte{}
			} else {
				base[string(k)] = []byte{'b', byte('0' + len(base))}
			}
		}
	}
	return base.JSON()
}

func genDirect(r *hlib.Rng, nops int, backend string) hinput {
	g := &hgen{r: r, pool: genPool(r, r.Range(2, 6))}
	in := hinput{Mode: "direct", Backend: backend, Base: genBase(r, g.pool)}
	for i := 0; i < nops; i++ {
		var o sop
		x := r.Intn(100)
		if len(g.live) == 0 && r.Chance(3, 4) {
			x = 0
		}
		switch {
		case x < 8:
			o = sop{Op: "new", RO: r.Chance(1, 6)}
			g.next++
			g.live = append(g.live, g.next)
		case x < 13:
			o = sop{Op: "close", ID: g.id()}
			for j, l := range g.live {
				if l == o.ID {
					g.live = append(g.live[:j:j], g.live[j+1:]...)
					g.closed = append(g.closed, l)
					break
				}
			}
		case x < 22:
			o = sop{Op: "begin", ID: g.id()}
		case x < 29:
			o = sop{Op: "commit", ID: g.id()}
		case x < 35:
			o = sop{Op: "rollback", ID: g.id()}
		case x < 57:
			o = sop{Op: "set", ID: g.id()}
			for j, m := 0, hlib.Pick(r, []int{1, 1, 1, 2, 3, 0}); j < m; j++ {
				o.Keys = append(o.Keys, g.key())
				o.Vals = append(o.Vals, g.val(i+j))
			}
		case x < 74:
			o = sop{Op: "get", ID: g.id()}
			for j, m := 0, hlib.Pick(r, []int{1, 1, 2, 3, 0}); j < m; j++ {
				o.Keys = append(o.Keys, g.key())
			}
		case x < 90:
			o = sop{Op: "list", ID: g.id()}
			g.listOp(&o)
		default:
			o = sop{Op: "count", ID: g.id(), Prefix: hlib.HexS(hlib.Pick(r, prefixes))}
		}
		in.Script = append(in.Script, o)
	}
	return in
}

func genExec(r *hlib.Rng, nops int, backend string) hinput {
	g := &hgen{r: r, pool: genPool(r, r.Range(2, 6))}
	in := hinput{Mode: "exec", Backend: backend, Base: genBase(r, g.pool)}
	ndb := 0
	for i := 0; i < nops; i++ {
		var o sop
		x := r.Intn(100)
		if ndb == 0 || (ndb < 3 && x < 6) {
			in.Script = append(in.Script, sop{Op: "new", RO: ndb > 0 && r.Chance(1, 8)})
			ndb++
			continue
		}
		h := r.Intn(ndb)
		switch {
		case x < 9:
			o = sop{Op: "close"}
		case x < 21:
			o = sop{Op: "begin"}
		case x < 30:
			o = sop{Op: "commit"}
		case x < 37:
			o = sop{Op: "rollback"}
		case x < 40:
			o = sop{Op: "starttx"}
		case x < 62:
			o = sop{Op: "set"}
			for j, m := 0, r.Range(1, 2); j < m; j++ {
				o.Keys = append(o.Keys, g.key())
				o.Vals = append(o.Vals, g.val(i+j))
			}
		case x < 76:
			o = sop{Op: "get", Keys: []string{g.key()}}
		case x < 93:
			o = sop{Op: "list"}
			g.listOp(&o)
		default:
			o = sop{Op: "count", Prefix: hlib.HexS(hlib.Pick(r, prefixes))}
		}
		o.H = h
		in.Script = append(in.Script, o)
	}
	return in
}

// fixed scenarios around the table and the requests without a transaction id
func edgeScripts() []hinput {
	k := func(s string) string { return hlib.HexS([]byte(s)) }
	base := []hlib.KV{{Key: k("a1"), Val: k("one")}, {Key: k("a2"), Val: k("two")}, {Key: k("a4"), Val: ""}}
	set := func(id int64, key, val string) sop {
		return sop{Op: "set", ID: id, Keys: []string{k(key)}, Vals: []string{k(val)}}
	}
	get := func(id int64, keys ...string) sop {
		o := sop{Op: "get", ID: id}
		for _, x := range keys {
			o.Keys = append(o.Keys, k(x))
		}
		return o
	}
	list := func(id int64, p string) sop { return sop{Op: "list", ID: id, Prefix: k(p), Dir: 1} }
	cnt := func(id int64, p string) sop { return sop{Op: "count", ID: id, Prefix: k(p)} }
	scripts := [][]sop{
		// the count request inside a transaction (known finding 2) and outside
		{{Op: "new"}, cnt(1, "a"), set(1, "a3", "x"), get(1, "a3"), list(1, "a"), cnt(1, "a"), cnt(0, "a"), {Op: "new"}, cnt(2, "a")},
		{{Op: "new"}, {Op: "begin", ID: 1}, set(1, "a1", ""), get(1, "a1"), list(1, "a"), cnt(1, "a"), {Op: "rollback", ID: 1}, list(1, "a"), cnt(1, "a")},
		// unknown, closed and non-positive ids
		{{Op: "begin", ID: 1}, {Op: "commit", ID: 1}, {Op: "rollback", ID: 1}, {Op: "close", ID: 1}, get(1, "a1"), set(1, "a1", "x"), list(1, "a"),
			{Op: "new"}, {Op: "close", ID: 1}, {Op: "close", ID: 1}, get(1, "a1"), set(1, "a1", "x"), list(1, "a"), {Op: "begin", ID: 1}, {Op: "new"}, get(2, "a1")},
		{{Op: "new"}, set(0, "a1", "x"), set(-1, "a1", "x"), get(0, "a1", "a4", "zz"), get(-1, "a1"), list(0, "a"), list(-1, "a"), list(-2, ""),
			{Op: "begin", ID: 0}, {Op: "commit", ID: 0}, {Op: "rollback", ID: -1}, {Op: "close", ID: 0}, get(1, "a1", "a4", "zz")},
		// read-only transactions: Set panics in the handler
		{{Op: "new", RO: true}, get(1, "a1"), {Op: "begin", ID: 1}, set(1, "a1", "x"), get(1, "a1"), {Op: "commit", ID: 1}, {Op: "set", ID: 1}, list(1, "a"), {Op: "rollback", ID: 1},
			{Op: "set", ID: 1, Keys: []string{k("a1"), k("a2")}, Vals: []string{k("x"), k("y")}}, get(1, "a1", "a2")},
		// two transactions: neither uncommitted nor committed writes cross over
		{{Op: "new"}, {Op: "new"}, {Op: "begin", ID: 1}, set(1, "a1", "x"), set(1, "a9", "n"), get(2, "a1", "a9"), list(2, "a"), get(0, "a1", "a9"), list(0, "a"),
			{Op: "commit", ID: 1}, get(2, "a1", "a9"), list(2, "a"), get(1, "a1", "a9"), list(1, "a"), {Op: "close", ID: 1}, get(2, "a1"), {Op: "new"}, get(3, "a1", "a9"),
			{Op: "get", ID: 2}, {Op: "get", ID: 0}, {Op: "set", ID: 2}},
	}
	var ins []hinput
	for i, sc := range scripts {
		be := "memdb"
		if i%2 == 1 {
			be = "leveldb"
		}
		ins = append(ins, hinput{Mode: "direct", Backend: be, Base: base, Script: sc})
	}
	return ins
}

func (e *env) handlerStreams(r *hlib.Rng, thorough bool) {
	for _, in := range edgeScripts() {
		e.runHandlers("hand-edge", in)
	}
	nd, nx, maxOps := 130, 50, 44
	if thorough {
		nd, nx, maxOps = 4000, 1500, 70
	}
	for h := 0; h < nd; h++ {
		be := "memdb"
		if h%3 == 1 {
			be = "leveldb"
		}
		e.runHandlers("hand-"+be, genDirect(r, 6+(h*(maxOps-6))/nd, be))
	}
	for h := 0; h < nx; h++ {
		be := "memdb"
		if h%3 == 1 {
			be = "leveldb"
		}
		e.runHandlers("hand-exec", genExec(r, 8+(h*(maxOps-8))/nx, be))
	}
}

func (e *env) startNodes(outDir string) {
	_ = os.Setenv("TMPDIR", outDir)
	e.nodes = map[string]*hnode{}
	for _, be := range []string{"memdb", "leveldb"} {
		e.nodes[be] = newHNode(be)
	}
}

func (e *env) stopNodes() {
	for _, n := range e.nodes {
		n.mock.Close()
	}
}

var _ = bytes.Compare
