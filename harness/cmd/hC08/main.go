// hC08: drives db.NewLocalDB over a pre-populated GoMemDB / GoLevelDB with generated
// Begin / Set / Get / List / PrefixCount / Commit / Rollback histories, and the EventLocal* handlers
// of a test node's blockchain module (handlers.go).
package main

import (
	"encoding/hex"
	"fmt"
	"os"
	"path/filepath"
	"strings"

	"github.com/33cn/chain33/common/db"
	clog "github.com/33cn/chain33/common/log"
	"github.com/33cn/chain33/types"
	"verifharness/hlib"
)

type opIn struct {
	Op     string `json:"op"` // begin commit rollback set get list count
	Key    string `json:"key,omitempty"`
	Val    string `json:"val,omitempty"`
	Prefix string `json:"prefix,omitempty"`
	Count  int32  `json:"count,omitempty"`
	Dir    int32  `json:"dir,omitempty"`
}

type input struct {
	RO      bool      `json:"ro"`
	Backend string    `json:"backend"`
	Base    []hlib.KV `json:"base"`
	Ops     []opIn    `json:"ops"`
}

type env struct {
	out   *hlib.Out
	ldb   db.DB
	nodes map[string]*hnode // test nodes of the handler streams, by block-store backend
}

func clearDB(d db.DB) {
	it := d.Iterator(nil, types.EmptyValue, false)
	var ks [][]byte
	for it.Rewind(); it.Valid(); it.Next() {
		ks = append(ks, append([]byte{}, it.Key()...))
	}
	it.Close()
	for _, k := range ks {
		if err := d.Delete(k); err != nil {
			panic(err)
		}
	}
}

// term is the terminator after the last field ("" for an empty list).
func term(xs []string) string {
	if len(xs) == 0 {
		return ""
	}
	return ";"
}

func hx(s string) []byte {
	b, err := hex.DecodeString(s)
	if err != nil {
		panic(err)
	}
	return b
}

func (e *env) run(kind string, in input) {
	var base db.DB
	if in.Backend == "leveldb" {
		base = e.ldb
		clearDB(base)
	} else {
		m, err := db.NewGoMemDB("", "", 0)
		if err != nil {
			panic(err)
		}
		base = m
	}
	layer := hlib.Layer{}
	for _, kv := range in.Base {
		layer[string(hx(kv.Key))] = hx(kv.Val)
		if err := base.Set(hx(kv.Key), hx(kv.Val)); err != nil {
			panic(err)
		}
	}
	ldb := db.NewLocalDB(base, in.RO)
	ops := []string{}
	outs := []string{}
	implJSON := []interface{}{}
	nontrivial := false
	for _, o := range in.Ops {
		var opTerm, outTerm string
		var obs interface{}
		func() {
			defer func() {
				if r := recover(); r != nil {
					outTerm = "P"
					obs = "panic"
				}
			}()
			switch o.Op {
			case "begin":
				opTerm = "B"
				ldb.Begin()
				outTerm, obs = "U", "ok"
			case "commit":
				opTerm = "C"
				if err := ldb.Commit(); err != nil {
					outTerm, obs = "F", "err"
				} else {
					outTerm, obs = "U", "ok"
				}
			case "rollback":
				opTerm = "R"
				ldb.Rollback()
				outTerm, obs = "U", "ok"
			case "set":
				opTerm = "S" + o.Key + ":" + o.Val
				var v []byte
				if o.Val != "" {
					v = hx(o.Val)
				}
				if err := ldb.Set(hx(o.Key), v); err != nil {
					outTerm, obs = "F", "err"
				} else {
					outTerm, obs = "U", "ok"
				}
			case "get":
				opTerm = "G" + o.Key
				v, err := ldb.Get(hx(o.Key))
				switch {
				case err == nil:
					outTerm = "V" + hlib.HexS(v)
					obs = hlib.HexS(v)
					nontrivial = true
				case err == db.ErrNotFoundInDb:
					outTerm, obs = "X", "notfound"
				default:
					outTerm, obs = "F", "err:"+err.Error()
				}
			case "list":
				opTerm = fmt.Sprintf("L%s:%s:%d:%d", o.Prefix, o.Key, o.Count, o.Dir)
				vs, err := ldb.List(hx(o.Prefix), hx(o.Key), o.Count, o.Dir)
				if err != nil {
					outTerm, obs = "F", "err:"+err.Error()
				} else {
					outTerm = "I"
					hs := []string{}
					for _, v := range vs {
						hs = append(hs, hlib.HexS(v))
						outTerm += hlib.HexS(v) + ","
					}
					obs = hs
					if len(vs) > 0 {
						nontrivial = true
					}
				}
			case "count":
				opTerm = "N" + o.Prefix
				c := ldb.PrefixCount(hx(o.Prefix))
				outTerm, obs = fmt.Sprintf("K%d", c), c
			}
		}()
		if opTerm == "" { // panic before the term was built cannot happen (terms are built first)
			opTerm = "B"
		}
		ops = append(ops, opTerm)
		outs = append(outs, outTerm)
		implJSON = append(implJSON, obs)
	}
	e.out.Emit(kind, nontrivial,
		hlib.App("CHist", hlib.Bool(in.RO), layer.Coq(), `(pops "`+strings.Join(ops, ";")+term(ops)+`")`, `(pouts "`+strings.Join(outs, ";")+term(outs)+`")`), in, implJSON)
}

// ---------- generator ----------

var alphabet = []byte{0x00, 'a', 'b', 0xff}
var prefixes = [][]byte{{}, []byte("a"), []byte("ab"), {0xff}, {'a', 0xff}, []byte("b")}

func randKey(r *hlib.Rng, minLen, maxLen int) []byte {
	n := r.Range(minLen, maxLen)
	k := make([]byte, n)
	for i := range k {
		k[i] = hlib.Pick(r, alphabet)
	}
	return k
}

func genHistory(r *hlib.Rng, nops int, ro bool, backend string, pool [][]byte, extraPrefix []byte) input {
	in := input{RO: ro, Backend: backend}
	base := hlib.Layer{}
	for _, k := range pool {
		if r.Chance(1, 2) {
			if r.Chance(1, 8) {
				base[string(k)] = []byte{} // an empty value already in the base
			} else {
				base[string(k)] = []byte{'b', byte('0' + len(base))}
			}
		}
	}
	in.Base = base.JSON()
	pick := func() []byte {
		if r.Chance(1, 8) {
			return randKey(r, 1, 3)
		}
		return hlib.Pick(r, pool)
	}
	pfx := func() []byte {
		if extraPrefix != nil && r.Chance(1, 2) {
			return extraPrefix
		}
		return hlib.Pick(r, prefixes)
	}
	for i := 0; i < nops; i++ {
		var o opIn
		switch x := r.Intn(100); {
		case x < 10:
			o = opIn{Op: "begin"}
		case x < 17:
			o = opIn{Op: "commit"}
		case x < 24:
			o = opIn{Op: "rollback"}
		case x < 50:
			k := pick()
			v := []byte{'w', byte('0' + i)}
			if r.Chance(3, 10) {
				v = nil
			}
			o = opIn{Op: "set", Key: hlib.HexS(k), Val: hlib.HexS(v)}
		case x < 70:
			o = opIn{Op: "get", Key: hlib.HexS(pick())}
		case x < 92:
			var key []byte
			if r.Chance(1, 2) {
				key = pick()
			}
			o = opIn{Op: "list", Prefix: hlib.HexS(pfx()), Key: hlib.HexS(key),
				Count: hlib.Pick(r, []int32{0, 0, 1, 2, 3, -1}), Dir: hlib.Pick(r, []int32{0, 1, 4, 5, 8, 9, 2, 3, 12})}
			if r.Chance(1, 10) {
				o.Count, o.Dir = 1, 2
			}
		default:
			o = opIn{Op: "count", Prefix: hlib.HexS(pfx())}
		}
		in.Ops = append(in.Ops, o)
	}
	return in
}

func genPool(r *hlib.Rng, n int) [][]byte {
	p := hlib.Pick(r, prefixes)
	seen := map[string]bool{}
	pool := [][]byte{}
	for len(pool) < n {
		var k []byte
		if r.Chance(2, 3) {
			k = append(append([]byte{}, p...), randKey(r, 0, 2)...)
		} else {
			k = randKey(r, 1, 3)
		}
		if len(k) == 0 || seen[string(k)] {
			if len(k) == 0 {
				k = []byte{hlib.Pick(r, alphabet)}
			}
			if seen[string(k)] {
				continue
			}
		}
		seen[string(k)] = true
		pool = append(pool, k)
	}
	return pool
}

func main() {
	opts := hlib.ParseFlags()
	clog.SetLogLevel("crit")
	o := hlib.NewOut(opts.OutDir)
	defer o.Close()
	e := &env{out: o}
	tmp := filepath.Join(opts.OutDir, "ldbtmp")
	os.RemoveAll(tmp)
	if err := os.MkdirAll(tmp, 0o755); err != nil {
		panic(err)
	}
	defer os.RemoveAll(tmp)
	d, err := db.NewGoLevelDB("c08ldb", tmp, 4)
	if err != nil {
		panic(err)
	}
	e.ldb = d
	defer d.Close()

	if opts.Replay != "" {
		var hin hinput
		if err := hlib.ReplayInput(opts.Replay, &hin); err == nil && hin.Mode != "" {
			e.startNodes(opts.OutDir)
			defer e.stopNodes()
			e.runHandlers("replay", hin)
			return
		}
		var in input
		if err := hlib.ReplayInput(opts.Replay, &in); err != nil {
			panic(err)
		}
		e.run("replay", in)
		return
	}
	r := hlib.NewRng(opts.Seed)
	nhist, maxOps := 240, 50
	if opts.Thorough() {
		nhist, maxOps = 10000, 80
	}
	for h := 0; h < nhist; h++ {
		nops := 4 + (h*(maxOps-4))/nhist // short histories first
		ro := h%9 == 8
		backend := "memdb"
		if h%4 == 1 {
			backend = "leveldb"
		}
		pool := genPool(r, r.Range(2, 7))
		kind := fmt.Sprintf("hist-%s", backend)
		if ro {
			kind = "hist-readonly"
		}
		e.run(kind, genHistory(r, nops, ro, backend, pool, nil))
	}
	// the EventLocal* handlers of a node (blockchain/localdb.go)
	e.startNodes(opts.OutDir)
	defer e.stopNodes()
	e.handlerStreams(r.Fork(), opts.Thorough())
	// unrestricted stream: listing the prefix whose upper bound is types.EmptyValue (C07's finding)
	ev := types.EmptyValue
	p0 := append([]byte{}, ev...)
	p0[len(p0)-1]--
	for h := 0; h < 6; h++ {
		pool := [][]byte{append(append([]byte{}, p0...), 'x'), p0, ev, []byte("z"), []byte("A"), []byte("a")}
		e.run("emptyvalue-prefix", genHistory(r, 25, false, "memdb", pool, p0))
	}
}
