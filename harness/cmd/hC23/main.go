// hC23: asks the real mempool (system/mempool Mempool + SimpleQueue, no running
// node) for transaction lists the way a block producer does and records the
// reply together with the nonce requests the pool sent to the rpc module.
//
// Hook files used (build tag verif): /repo/system/mempool/access23_verif.go
// (getTxList, eventTxList, eventGetMempool) and C21's access_verif.go
// (VerifSetClient, VerifSetHeader, VerifWalk, VerifSetExpiredInterval, VerifSetClientNil).
package main

import (
	"bytes"
	"encoding/binary"
	"errors"
	"fmt"
	"math"
	"os"
	"sync"
	"time"

	log "github.com/33cn/chain33/common/log/log15"
	"github.com/33cn/chain33/queue"
	_ "github.com/33cn/chain33/system/address"
	"github.com/33cn/chain33/system/crypto/secp256k1eth"
	"github.com/33cn/chain33/system/mempool"
	"github.com/33cn/chain33/types"
	"verifharness/hlib"
)

var (
	cfg     *types.Chain33Config
	qclient queue.Client
	stub    *rpcStub
	ethTy   = types.EncodeSignID(secp256k1eth.ID, types.EthAddressID)
)

// signature types the generator mixes: the eth-sign id, plain secp256k1, the eth
// crypto with the default address format and secp256k1 with the eth address format
// (only the first is "eth-signed" for the pool)
var sigTypes = []int32{ethTy, ethTy, ethTy, types.SECP256K1, secp256k1eth.ID, types.EncodeSignID(types.SECP256K1, types.EthAddressID), types.ED25519}

// execers: plain, parachain, exactly the parachain prefix, two near misses
var execers = []string{"none", "user.p.verif.none", "user.p.", "user.pverif.none", "user.evm"}

const (
	relTime  = int64(2000000000)  // expire = seconds relative to T0, encoded as relTime + off
	txhBase  = int64(1) << 62     // expire = TxHeightFlag + h
	unknownH = 200                // ids of hashes that are not in the pool
)

// ---------------------------------------------------------------- stub rpc module

type nrep struct {
	Kind string `json:"kind"` // rep err bad timeout
	N    int64  `json:"n,omitempty"`
}

type rpcStub struct {
	mu     sync.Mutex
	cli    queue.Client
	table  map[string]nrep
	asked  []string
	others int
}

func newStub(q queue.Queue) *rpcStub {
	s := &rpcStub{cli: q.Client(), table: map[string]nrep{}}
	s.cli.Sub("rpc")
	go func() {
		for msg := range s.cli.Recv() {
			req, ok := msg.GetData().(*types.ReqEvmAccountNonce)
			if msg.Ty != types.EventGetEvmNonce || !ok {
				s.mu.Lock()
				s.others++
				s.mu.Unlock()
				continue
			}
			s.mu.Lock()
			s.asked = append(s.asked, req.Addr)
			r, ok := s.table[req.Addr]
			s.mu.Unlock()
			if !ok {
				r = nrep{Kind: "rep", N: 0}
			}
			switch r.Kind {
			case "rep":
				msg.Reply(s.cli.NewMessage("", types.EventGetEvmNonce, &types.EvmAccountNonce{Addr: req.Addr, Nonce: r.N}))
			case "err":
				msg.Reply(s.cli.NewMessage("", types.EventGetEvmNonce, errors.New("stub error")))
			case "bad":
				msg.Reply(s.cli.NewMessage("", types.EventGetEvmNonce, &types.Reply{IsOk: true}))
			case "timeout":
				// no answer: getCurrentNonce gives up after 2 s
			}
		}
	}()
	return s
}

func (s *rpcStub) reset(t map[string]nrep) {
	s.mu.Lock()
	s.table, s.asked, s.others = t, nil, 0
	s.mu.Unlock()
}

func (s *rpcStub) taken() ([]string, int) {
	s.mu.Lock()
	defer s.mu.Unlock()
	return append([]string(nil), s.asked...), s.others
}

// ---------------------------------------------------------------- scenario description (replayable)

type txSpec struct {
	Group   int     `json:"group"` // 0: plain, else number of members
	SigTy   int32   `json:"sigty"`
	Sender  int     `json:"sender"`
	Exec    int     `json:"exec,omitempty"` // index into execers
	Nonce   int64   `json:"nonce"`
	Expire  []int64 `json:"expire"` // per member: 0, height (<1e9), relTime+off, txhBase+h
	Payload uint64  `json:"payload"`
	PushAt  int64   `json:"pushat"` // seconds after T0
}

type reqSpec struct {
	Op    string `json:"op"` // event get mempool
	Count int64  `json:"count"`
	Excl  []int  `json:"excl,omitempty"` // index into Txs; >= unknownH: a hash that is not pooled
	IsAll bool   `json:"isall,omitempty"`
	Nil   bool   `json:"nil,omitempty"` // EventGetMempool without a request body
}

type scenario struct {
	Stream   string       `json:"stream"`
	Seed     uint64       `json:"seed"`
	Index    int          `json:"index"`
	Interval int64        `json:"interval"`
	Txs      []txSpec     `json:"txs"`
	NowOff   int64        `json:"nowoff"`
	NoHeader bool         `json:"noheader,omitempty"`
	Height   int64        `json:"height"`
	BtOff    int64        `json:"btoff"` // block time = T0 + BtOff
	ForkSort int64        `json:"forksort"`
	TxhOn    bool         `json:"txhon,omitempty"`
	ForkTxh  int64        `json:"forktxh"`
	Nonces   map[int]nrep `json:"nonces"` // by sender index
	Req      *reqSpec     `json:"req,omitempty"`
}

func pubkey(i int) []byte {
	pk := make([]byte, 33)
	pk[0] = 2
	for j := 1; j < 33; j++ {
		pk[j] = byte(29*i + j)
	}
	return pk
}

func absExpire(t0, e int64) int64 {
	if e >= txhBase {
		return e
	}
	if e >= relTime {
		return t0 + (e - relTime)
	}
	return e
}

func buildTx(t0 int64, ts txSpec) *types.Transaction {
	mk := func(m int, e int64) *types.Transaction {
		p := make([]byte, 9)
		binary.LittleEndian.PutUint64(p, ts.Payload)
		p[8] = byte(m)
		ex := execers[ts.Exec]
		return &types.Transaction{Execer: []byte(ex), Payload: p, Fee: 100000, Expire: absExpire(t0, e),
			Nonce: ts.Nonce, To: "1Q4NhureJxKNBf71d26B9J3fBQoQcfmez2", ChainID: cfg.GetChainID()}
	}
	sig := &types.Signature{Ty: ts.SigTy, Pubkey: pubkey(ts.Sender)}
	if ts.Group == 0 {
		tx := mk(0, ts.Expire[0])
		tx.Signature = sig
		return tx
	}
	var ms []*types.Transaction
	for m := 0; m < ts.Group; m++ {
		ms = append(ms, mk(m, ts.Expire[m]))
	}
	g, err := types.CreateTxGroup(ms, 0)
	if err != nil {
		panic(err)
	}
	for m := range g.Txs {
		g.Txs[m].Signature = sig
	}
	return g.Tx()
}

// ---------------------------------------------------------------- virtual clock

func setNow(v int64) {
	types.SetTimeDelta(v*int64(time.Second) + int64(time.Second)/2 - time.Now().UnixNano())
}

func checkNow(v int64) {
	if types.Now().Unix() != v {
		fmt.Println("virtual clock slipped")
		os.Exit(3)
	}
}

// ---------------------------------------------------------------- execution

type built struct {
	sc      scenario
	t0      int64
	mem     *mempool.Mempool
	idOf    map[string]int // hash -> id (1-based, in Txs order)
	hashes  [][]byte       // Txs index -> hash
	fromID  map[string]int
	fromOf  []string
	pool    []string // Gallina items in Walk order
	poolLen int
}

func (b *built) fid(addr string) int {
	if id, ok := b.fromID[addr]; ok {
		return id
	}
	id := len(b.fromOf)
	b.fromID[addr] = id
	b.fromOf = append(b.fromOf, addr)
	return id
}

func zl(v int64) string { return hlib.Z(v) }

func build(sc scenario) *built {
	b := &built{sc: sc, idOf: map[string]int{}, fromID: map[string]int{}}
	b.t0 = time.Now().Unix() - 280
	cfg.SetFork("ForkCheckEthTxSort", sc.ForkSort)
	cfg.SetFork("ForkTxHeight", sc.ForkTxh)
	cfg.S("TxHeight", sc.TxhOn)
	b.mem = mempool.NewMempool(&types.Mempool{PoolCacheSize: 200, MaxTxNumPerAccount: 200, MaxTxLast: 10})
	b.mem.SetQueueCache(mempool.NewSimpleQueue(mempool.SubConfig{PoolCacheSize: 200}))
	if err := b.mem.VerifSetClient(qclient); err != nil {
		panic(err)
	}
	mempool.VerifSetExpiredInterval(sc.Interval)
	if !sc.NoHeader {
		b.mem.VerifSetHeader(&types.Header{Height: sc.Height, BlockTime: b.t0 + sc.BtOff})
	}
	for _, ts := range sc.Txs {
		tx := buildTx(b.t0, ts)
		h := tx.Hash()
		b.hashes = append(b.hashes, h)
		if _, ok := b.idOf[string(h)]; !ok {
			b.idOf[string(h)] = len(b.idOf) + 1
		}
		setNow(b.t0 + ts.PushAt)
		_ = b.mem.PushTx(tx) // ErrTxExist for an identical body is fine
		checkNow(b.t0 + ts.PushAt)
	}
	b.mem.VerifWalk(func(tx *types.Transaction, enter int64) {
		id, ok := b.idOf[string(tx.Hash())]
		if !ok {
			id = 255
		}
		var ex []string
		if g, _ := tx.GetTxGroup(); g != nil {
			for _, m := range g.Txs {
				ex = append(ex, zl(m.Expire))
			}
		} else {
			ex = append(ex, zl(tx.Expire))
		}
		b.pool = append(b.pool, hlib.App("T", hlib.N(uint64(id)),
			hlib.Bool(types.IsEthSignID(tx.GetSignature().GetTy())),
			hlib.Bool(bytes.HasPrefix(tx.GetExecer(), []byte(types.ParaKeyX))),
			hlib.N(uint64(b.fid(tx.From()))), zl(tx.GetNonce()), hlib.List(ex), zl(enter)))
	})
	b.poolLen = len(b.pool)
	return b
}

func (b *built) close() {
	b.mem.VerifSetClientNil()
	b.mem.Close()
}

type implT struct {
	Err   bool     `json:"err"`
	Res   []int    `json:"res"`
	Asked []string `json:"asked"`
}

func (b *built) request(o *hlib.Out, rq reqSpec) {
	sc := b.sc
	now := b.t0 + sc.NowOff
	// nonce table by address
	tab := map[string]nrep{}
	var ncoq []string
	for s, r := range sc.Nonces {
		// the address depends on the signature type's address format: register the sender under
		// every address it can have
		for _, ty := range sigTypes {
			a := (&types.Transaction{Signature: &types.Signature{Ty: ty, Pubkey: pubkey(s)}}).From()
			tab[a] = r
		}
	}
	stub.reset(tab)
	hl := &types.TxHashList{Count: rq.Count}
	var excl []string
	for _, x := range rq.Excl {
		if x >= unknownH {
			h := make([]byte, 32)
			h[0], h[1] = 0xee, byte(x)
			hl.Hashes = append(hl.Hashes, h)
			excl = append(excl, hlib.N(uint64(x)))
		} else {
			h := b.hashes[x]
			hl.Hashes = append(hl.Hashes, h)
			excl = append(excl, hlib.N(uint64(b.idOf[string(h)])))
		}
	}
	setNow(now)
	var txs []*types.Transaction
	impl := implT{Res: []int{}}
	var op string
	func() {
		defer func() {
			if r := recover(); r != nil {
				impl.Err = true
				impl.Res = []int{254}
				fmt.Println("panic in request:", r)
			}
		}()
		switch rq.Op {
		case "event":
			op = hlib.App("OpEvent", zl(rq.Count), hlib.List(excl))
			msg := qclient.NewMessage("mempool", types.EventTxList, hl)
			b.mem.VerifEventTxList(msg)
			rep, err := qclient.WaitTimeout(msg, 5*time.Second)
			if err != nil {
				impl.Err = true
				if err != types.ErrSize {
					impl.Res = []int{253} // any other failure is not the modelled error reply
				}
			} else {
				txs = rep.GetData().(*types.ReplyTxList).GetTxs()
			}
		case "get":
			op = hlib.App("OpGet", zl(rq.Count), hlib.List(excl))
			txs = b.mem.VerifGetTxList(hl)
		case "mempool":
			op = hlib.App("OpMempool", hlib.Bool(rq.IsAll))
			var data interface{} = &types.ReqGetMempool{IsAll: rq.IsAll}
			if rq.Nil && !rq.IsAll {
				data = nil
			}
			msg := qclient.NewMessage("mempool", types.EventGetMempool, data)
			b.mem.VerifEventGetMempool(msg)
			rep, err := qclient.WaitTimeout(msg, 5*time.Second)
			if err != nil {
				impl.Err = true
				impl.Res = []int{253}
			} else {
				txs = rep.GetData().(*types.ReplyTxList).GetTxs()
			}
		default:
			panic("unknown op " + rq.Op)
		}
	}()
	slow := false
	for _, r := range sc.Nonces {
		if r.Kind == "timeout" {
			slow = true // the 2 s wait outlives the half-second the virtual clock is pinned for
		}
	}
	if !slow {
		checkNow(now)
	}
	for _, tx := range txs {
		id, ok := b.idOf[string(tx.Hash())]
		if !ok {
			id = 255
		}
		impl.Res = append(impl.Res, id)
	}
	asked, others := stub.taken()
	impl.Asked = asked
	var askedCoq []string
	for _, a := range asked {
		askedCoq = append(askedCoq, hlib.N(uint64(b.fid(a))))
	}
	if others > 0 {
		askedCoq = append(askedCoq, hlib.N(999)) // unexpected traffic on the rpc topic
	}
	// nonce answers by sender id (addresses the pool never mentioned need no entry)
	for a, id := range b.fromID {
		if r, ok := tab[a]; ok {
			var t string
			switch r.Kind {
			case "rep":
				t = hlib.App("NRep", zl(r.N))
			case "err":
				t = "NErr"
			case "bad":
				t = "NBadType"
			default:
				t = "NTimeout"
			}
			ncoq = append(ncoq, hlib.Pair(hlib.N(uint64(id)), t))
		}
	}
	sortStrings(ncoq)
	var res string
	if impl.Err && len(impl.Res) == 0 {
		res = "None"
	} else {
		var ids []string
		for _, id := range impl.Res {
			ids = append(ids, hlib.N(uint64(id)))
		}
		res = "(Some " + hlib.List(ids) + ")"
	}
	height, bt := sc.Height, b.t0+sc.BtOff
	if sc.NoHeader {
		height, bt = 0, 0
	}
	env := hlib.App("mkEnv", zl(now), zl(sc.Interval), zl(height), zl(bt), zl(sc.ForkSort), hlib.Bool(sc.TxhOn), zl(sc.ForkTxh))
	term := hlib.App("Case", env, hlib.List(b.pool), hlib.List(ncoq), op, hlib.List(askedCoq), res)
	in := sc
	in.Req = &rq
	o.Emit(sc.Stream+"/"+rq.Op, b.poolLen > 0, term, in, impl)
}

func sortStrings(s []string) {
	for i := 1; i < len(s); i++ {
		for j := i; j > 0 && s[j] < s[j-1]; j-- {
			s[j], s[j-1] = s[j-1], s[j]
		}
	}
}

// ---------------------------------------------------------------- generators

func genScenario(stream string, seed uint64, index int) scenario {
	r := hlib.NewRng(seed*1000003 + uint64(index)*7919 + uint64(len(stream))*131)
	sc := scenario{Stream: stream, Seed: seed, Index: index, Nonces: map[int]nrep{}}
	sc.Interval = int64(r.Range(40, 200))
	sc.NowOff = int64(r.Range(300, 540))
	sc.Height = int64(r.Range(0, 30))
	sc.BtOff = sc.NowOff + int64(r.Range(-30, 30))
	sc.ForkSort = 0
	sc.ForkTxh = 0
	if r.Chance(1, 12) {
		sc.NoHeader = true
	}
	switch stream {
	case "prefork":
		sc.ForkSort = sc.Height + int64(r.Range(0, 2)) // height >= fork is active: boundary included
		if r.Chance(1, 6) {
			sc.Height = -1 // IsFork treats -1 as "always"
		}
	case "txheight":
		sc.TxhOn = r.Chance(3, 4)
		sc.Height = int64(r.Range(150, 900))
		sc.ForkTxh = sc.Height + int64(r.Range(-1, 2))
		if r.Chance(1, 2) {
			sc.ForkTxh = 0
		}
	}
	nSenders := 4
	base := map[int]int64{}
	for s := 0; s < nSenders; s++ {
		cur := int64(r.Range(0, 4))
		if stream == "wrap" {
			switch r.Intn(3) {
			case 0:
				cur = math.MaxInt64 - int64(r.Range(0, 2))
			case 1:
				cur = math.MinInt64 + int64(r.Range(0, 1))
			default:
				cur = -int64(r.Range(0, 2))
			}
		}
		base[s] = cur
		k := "rep"
		if stream == "replies" {
			k = hlib.Pick(r, []string{"rep", "err", "bad", "rep"})
		}
		sc.Nonces[s] = nrep{Kind: k, N: cur}
	}
	ntx := r.Range(0, 10)
	if index < 12 {
		ntx = r.Range(0, 3)
	}
	for i := 0; i < ntx; i++ {
		ts := txSpec{Sender: r.Intn(nSenders), Payload: uint64(index)*4096 + uint64(i)}
		ts.SigTy = hlib.Pick(r, sigTypes)
		if r.Chance(1, 5) {
			ts.Exec = r.Range(1, len(execers)-1)
		}
		// nonces around the sender's current nonce: below, at, runs, gaps, duplicates
		ts.Nonce = base[ts.Sender] + int64(r.Range(-1, 4)) // int64 wrap-around intended in the wrap stream
		if r.Chance(1, 6) {
			ts.Group = r.Range(2, 3)
		}
		nm := 1
		if ts.Group > 0 {
			nm = ts.Group
		}
		for m := 0; m < nm; m++ {
			var e int64
			switch x := r.Intn(12); {
			case x < 5:
				e = 0
			case x < 8: // by height: around the next block's height
				e = sc.Height + int64(r.Range(0, 3))
				if r.Chance(1, 10) {
					e = -int64(r.Range(1, 3))
				}
			case x < 11: // by block time: around the last block's time
				e = relTime + sc.BtOff + int64(r.Range(-2, 2))
			default:
				e = txhBase + sc.Height + int64(r.Range(-2, 3))
			}
			if stream == "txheight" && r.Chance(2, 3) {
				// window: txHeight-200 <= height+1 <= txHeight+600
				h1 := sc.Height + 1
				switch r.Intn(5) {
				case 0:
					e = txhBase + h1 + 200 + int64(r.Range(-1, 1))
				case 1:
					e = txhBase + h1 - 600 + int64(r.Range(-1, 1))
				case 2:
					e = txhBase + int64(r.Range(1, 3))
				default:
					e = txhBase + h1 + int64(r.Range(-250, 250))
				}
				if e <= txhBase {
					e = txhBase + 1
				}
			}
			ts.Expire = append(ts.Expire, e)
		}
		// pool age around the expiry interval at query time
		switch r.Intn(4) {
		case 0:
			ts.PushAt = sc.NowOff - sc.Interval + int64(r.Range(-1, 1))
		default:
			ts.PushAt = sc.NowOff - int64(r.Range(0, int(sc.Interval)-2))
		}
		if ts.PushAt < 0 {
			ts.PushAt = 0
		}
		sc.Txs = append(sc.Txs, ts)
	}
	// queue order = push order: keep the virtual clock monotone
	for i := 1; i < len(sc.Txs); i++ {
		for j := i; j > 0 && sc.Txs[j].PushAt < sc.Txs[j-1].PushAt; j-- {
			sc.Txs[j], sc.Txs[j-1] = sc.Txs[j-1], sc.Txs[j]
		}
	}
	// occasionally an exact copy of a transaction body under another signature (same hash)
	if len(sc.Txs) > 1 && r.Chance(1, 8) {
		c := sc.Txs[0]
		c.Sender = (c.Sender + 1) % nSenders
		c.PushAt = sc.Txs[len(sc.Txs)-1].PushAt
		sc.Txs = append(sc.Txs, c)
	}
	return sc
}

func genRequests(r *hlib.Rng, sc scenario, thorough bool) []reqSpec {
	n := len(sc.Txs)
	var out []reqSpec
	excl := func() []int {
		var e []int
		if r.Chance(1, 3) {
			return nil
		}
		k := r.Range(1, 4)
		for i := 0; i < k; i++ {
			if n > 0 && r.Chance(4, 5) {
				e = append(e, r.Intn(n))
			} else {
				e = append(e, unknownH+r.Intn(5))
			}
		}
		return e
	}
	// every count 0 .. n+2 once through the event handler
	for c := int64(-1); c <= int64(n)+2; c++ {
		if c >= 0 || r.Chance(1, 3) {
			var e []int
			if r.Chance(1, 2) {
				e = excl()
			}
			out = append(out, reqSpec{Op: "event", Count: c, Excl: e})
		}
	}
	extra := 4
	if thorough {
		extra = 8
	}
	for i := 0; i < extra; i++ {
		c := int64(r.Range(-1, n+2))
		switch r.Intn(4) {
		case 0:
			out = append(out, reqSpec{Op: "get", Count: c, Excl: excl()})
		case 1:
			out = append(out, reqSpec{Op: "mempool", IsAll: r.Chance(1, 2), Nil: r.Chance(1, 3)})
		default:
			out = append(out, reqSpec{Op: "event", Count: c, Excl: excl()})
		}
	}
	return out
}

func runScenario(o *hlib.Out, sc scenario, reqs []reqSpec) {
	b := build(sc)
	defer b.close()
	for _, rq := range reqs {
		b.request(o, rq)
	}
}

func main() {
	opts := hlib.ParseFlags()
	log.Root().SetHandler(log.DiscardHandler())
	cfg = types.NewChain33Config(types.GetDefaultCfgstring())
	q := queue.New("channel")
	q.SetConfig(cfg)
	qclient = q.Client()
	stub = newStub(q)
	o := hlib.NewOut(opts.OutDir)
	defer o.Close()
	defer types.SetTimeDelta(0)

	if opts.Replay != "" {
		var in scenario
		if err := hlib.ReplayInput(opts.Replay, &in); err != nil {
			panic(err)
		}
		if in.Req == nil {
			panic("replay input without request")
		}
		rq := *in.Req
		in.Req = nil
		runScenario(o, in, []reqSpec{rq})
		return
	}

	plan := []struct {
		stream string
		n      int
	}{{"mixed", 70}, {"prefork", 14}, {"wrap", 14}, {"replies", 12}, {"txheight", 14}}
	if opts.Thorough() {
		for i := range plan {
			plan[i].n *= 25
		}
	}
	for _, p := range plan {
		for i := 0; i < p.n; i++ {
			sc := genScenario(p.stream, opts.Seed, i)
			r := hlib.NewRng(opts.Seed*7 + uint64(i)*104729 + uint64(len(p.stream)))
			runScenario(o, sc, genRequests(r, sc, opts.Thorough()))
		}
	}
	// one nonce request that is never answered (2 s): nonce 0 is assumed
	nt := 1
	if opts.Thorough() {
		nt = 6
	}
	for i := 0; i < nt; i++ {
		sc := genScenario("timeout", opts.Seed, 1000+i)
		sc.Txs = []txSpec{
			{SigTy: ethTy, Sender: 0, Nonce: 0, Expire: []int64{0}, Payload: 1, PushAt: 200},
			{SigTy: types.SECP256K1, Sender: 1, Nonce: 0, Expire: []int64{0}, Payload: 2, PushAt: 200},
			{SigTy: ethTy, Sender: 0, Nonce: 1, Expire: []int64{0}, Payload: 3, PushAt: 200},
			{SigTy: ethTy, Sender: 0, Nonce: int64(3 + i), Expire: []int64{0}, Payload: 4, PushAt: 200},
		}
		sc.Interval, sc.NowOff, sc.NoHeader, sc.ForkSort = 500, 300, false, 0
		sc.Nonces = map[int]nrep{0: {Kind: "timeout"}, 1: {Kind: "rep", N: 0}}
		runScenario(o, sc, []reqSpec{{Op: "event", Count: 10}})
	}
	// documented observation (not part of the property text): the count is applied before the
	// nonce sort, so unpackable eth transactions at the head of the queue use it up
	{
		sc := genScenario("starved", opts.Seed, 2000)
		sc.Txs = []txSpec{
			{SigTy: ethTy, Sender: 0, Nonce: 7, Expire: []int64{0}, Payload: 1, PushAt: 200},
			{SigTy: ethTy, Sender: 0, Nonce: 9, Expire: []int64{0}, Payload: 2, PushAt: 200},
			{SigTy: types.SECP256K1, Sender: 1, Nonce: 0, Expire: []int64{0}, Payload: 3, PushAt: 200},
		}
		sc.Interval, sc.NowOff, sc.NoHeader, sc.ForkSort = 500, 300, false, 0
		sc.Nonces = map[int]nrep{0: {Kind: "rep", N: 0}, 1: {Kind: "rep", N: 0}}
		runScenario(o, sc, []reqSpec{{Op: "event", Count: 1}, {Op: "event", Count: 2}, {Op: "event", Count: 3}})
	}
	fmt.Printf("cases: %d\n", o.Count())
}
