// hC15: operation histories against account.DB (account/account.go,
// execaccount.go, genesis.go) on a memory KV, every history from an empty ledger.
package main

import (
	"bytes"
	"fmt"
	"math"
	"math/big"
	"strings"

	"github.com/33cn/chain33/account"
	"github.com/33cn/chain33/common/address"
	dbm "github.com/33cn/chain33/common/db"
	clog "github.com/33cn/chain33/common/log"
	_ "github.com/33cn/chain33/system/address" // btc + eth address drivers
	"github.com/33cn/chain33/types"
	"verifharness/hlib"
)

// Op is one call (replay format).
type Op struct {
	Op  string `json:"op"`
	A   string `json:"a,omitempty"` // from / addr
	B   string `json:"b,omitempty"` // to
	X   string `json:"x,omitempty"` // execaddr
	Amt int64  `json:"amt"`
}

// Input is the replay format of one history.
type Input struct {
	Kind    string      `json:"kind,omitempty"` // "" = account.DB history, "coins", "multi"
	Guarded bool        `json:"guarded"`
	Ops     []Op        `json:"ops,omitempty"`
	Coins   *CoinsInput `json:"coins,omitempty"`
	Multi   *MultiInput `json:"multi,omitempty"`
}

type obsOut struct {
	Res  string      `json:"res"`
	Read [][2]int64  `json:"read"`
	Rcpt interface{} `json:"rcpt,omitempty"`
}

var cfg *types.Chain33Config
var miners []string

const maxAmount = int64(100000000000000000) // MaxCoin * precision
const maxToken = int64(9000000000000000000) // MaxTokenBalance

// ---- interning of byte strings and storage keys into a let-table of the Coq term

type table struct {
	names map[string]string
	order []string // binding lines "name := term"
}

func newTable() *table { return &table{names: map[string]string{}} }

func (t *table) bind(prefix, key, term string) string {
	if n, ok := t.names[key]; ok {
		return n
	}
	n := fmt.Sprintf("%s%d", prefix, len(t.order))
	t.names[key] = n
	t.order = append(t.order, n+" := "+term)
	return n
}

func (t *table) ref(s string) string { return t.bind("b", "s:"+s, hlib.Hx([]byte(s))) }

// keyTerm parses the part of a storage key after the ledger prefix.
func (t *table) keyTerm(rest string) string {
	if strings.HasPrefix(rest, "exec-") {
		p := strings.SplitN(rest[5:], ":", 2)
		if len(p) == 2 {
			return t.bind("k", "k:"+rest, hlib.App("SubK", t.ref(p[0]), t.ref(p[1])))
		}
	}
	return t.bind("k", "k:"+rest, hlib.App("MainK", t.ref(rest)))
}

func (t *table) wrap(body string) string {
	var sb strings.Builder
	sb.WriteString("(")
	for _, b := range t.order {
		sb.WriteString("let " + b + " in ")
	}
	sb.WriteString(body + ")")
	return sb.String()
}

// zlit: an int64 as a Z literal (the case files open Z_scope through check_preamble)
func zlit(v int64) string {
	if v < 0 {
		return fmt.Sprintf("(%d)", v)
	}
	return fmt.Sprintf("%d", v)
}

// ---- running one op

func resClass(err error) string {
	switch err {
	case nil:
		return "ROk"
	case types.ErrAmount:
		return "EAmount"
	case types.ErrNoBalance:
		return "ENoBalance"
	case types.ErrSendSameToRecv:
		return "ESameToRecv"
	case types.ErrNotAllowDeposit:
		return "ENotAllowDeposit"
	}
	return "EOther"
}

func call(acc *account.DB, o Op) (res string) {
	res, _ = callR(acc, o)
	return res
}

func callR(acc *account.DB, o Op) (res string, rc *types.Receipt) {
	defer func() {
		if r := recover(); r != nil {
			res, rc = "RPanic", nil
		}
	}()
	var err error
	switch o.Op {
	case "Transfer":
		rc, err = acc.Transfer(o.A, o.B, o.Amt)
	case "TransferToExec":
		rc, err = acc.TransferToExec(o.A, o.B, o.Amt)
	case "TransferWithdraw":
		rc, err = acc.TransferWithdraw(o.A, o.B, o.Amt)
	case "ExecFrozen":
		rc, err = acc.ExecFrozen(o.A, o.X, o.Amt)
	case "ExecActive":
		rc, err = acc.ExecActive(o.A, o.X, o.Amt)
	case "ExecTransfer":
		rc, err = acc.ExecTransfer(o.A, o.B, o.X, o.Amt)
	case "ExecTransferFrozen":
		rc, err = acc.ExecTransferFrozen(o.A, o.B, o.X, o.Amt)
	case "ExecDeposit":
		rc, err = acc.ExecDeposit(o.A, o.X, o.Amt)
	case "ExecWithdraw":
		rc, err = acc.ExecWithdraw(o.X, o.A, o.Amt)
	case "ExecDepositFrozen":
		rc, err = acc.ExecDepositFrozen(o.A, o.X, o.Amt)
	case "ExecIssueCoins":
		rc, err = acc.ExecIssueCoins(o.X, o.Amt)
	case "Mint":
		rc, err = acc.Mint(o.A, o.Amt)
	case "Burn":
		rc, err = acc.Burn(o.A, o.Amt)
	case "GenesisInit":
		rc, err = acc.GenesisInit(o.A, o.Amt)
	case "GenesisInitExec":
		rc, err = acc.GenesisInitExec(o.A, o.Amt, o.X)
	default:
		panic("unknown op " + o.Op)
	}
	return resClass(err), rc
}

type query struct {
	sub  bool
	a, x string
}

// touched mirrors Model.touched.
func touched(o Op) []query {
	switch o.Op {
	case "Transfer":
		return []query{{false, o.A, ""}, {false, o.B, ""}}
	case "TransferToExec", "TransferWithdraw":
		return []query{{false, o.A, ""}, {false, o.B, ""}, {true, o.A, o.B}}
	case "ExecFrozen", "ExecActive", "ExecDeposit", "ExecWithdraw", "ExecDepositFrozen":
		return []query{{true, o.A, o.X}, {false, o.X, ""}}
	case "ExecTransfer", "ExecTransferFrozen":
		return []query{{true, o.A, o.X}, {true, o.B, o.X}}
	case "ExecIssueCoins":
		return []query{{false, o.X, ""}}
	case "Mint", "Burn", "GenesisInit":
		return []query{{false, o.A, ""}}
	case "GenesisInitExec":
		return []query{{false, o.X, ""}, {true, o.A, o.X}}
	}
	return nil
}

func coqOp(t *table, o Op) string {
	a, b, x, m := t.ref(o.A), t.ref(o.B), t.ref(o.X), zlit(o.Amt)
	switch o.Op {
	case "Transfer", "TransferToExec", "TransferWithdraw":
		return hlib.App("O"+o.Op, a, b, m)
	case "ExecFrozen", "ExecActive", "ExecDeposit", "ExecDepositFrozen":
		return hlib.App("O"+o.Op, a, x, m)
	case "ExecWithdraw":
		return hlib.App("OExecWithdraw", x, a, m)
	case "ExecTransfer", "ExecTransferFrozen":
		return hlib.App("O"+o.Op, a, b, x, m)
	case "ExecIssueCoins":
		return hlib.App("OExecIssueCoins", x, m)
	case "Mint", "Burn", "GenesisInit":
		return hlib.App("O"+o.Op, a, m)
	case "GenesisInitExec":
		return hlib.App("OGenesisInitExec", a, m, x)
	}
	panic("unknown op")
}

type ledgerEnv struct {
	acc    *account.DB
	db     *dbm.GoMemDB
	prefix []byte
}

func newEnv() *ledgerEnv {
	acc := account.NewCoinsAccount(cfg)
	mdb, _ := dbm.NewGoMemDB("gomemdb", "c15", 128)
	acc.SetDB(mdb)
	return &ledgerEnv{acc: acc, db: mdb, prefix: acc.AccountKey("")}
}

func (e *ledgerEnv) read(q query) (res [2]int64) {
	defer func() {
		if r := recover(); r != nil {
			res = [2]int64{math.MinInt64, math.MinInt64}
		}
	}()
	var a *types.Account
	if q.sub {
		a = e.acc.LoadExecAccount(q.a, q.x)
	} else {
		a = e.acc.LoadAccount(q.a)
	}
	return [2]int64{a.Balance, a.Frozen}
}

type dumpEnt struct {
	Key  string `json:"key"`
	Addr string `json:"addr"`
	Bal  int64  `json:"bal"`
	Frz  int64  `json:"frz"`
}

func (e *ledgerEnv) dump(t *table) ([]string, []dumpEnt) {
	var terms []string
	var ents []dumpEnt
	it := e.db.Iterator([]byte{}, types.EmptyValue, false)
	defer it.Close()
	for it.Rewind(); it.Valid(); it.Next() {
		k := append([]byte{}, it.Key()...)
		var a types.Account
		if err := types.Decode(it.Value(), &a); err != nil {
			panic(err)
		}
		if !bytes.HasPrefix(k, e.prefix) {
			panic("foreign key in ledger db: " + string(k))
		}
		rest := string(k[len(e.prefix):])
		terms = append(terms, hlib.App("DE", t.keyTerm(rest), t.ref(a.Addr), zlit(a.Balance), zlit(a.Frozen)))
		ents = append(ents, dumpEnt{rest, a.Addr, a.Balance, a.Frozen})
	}
	return terms, ents
}

// runHistory executes ops on a fresh ledger and emits the case.
func runHistory(out *hlib.Out, kind string, guarded bool, ops []Op) {
	env := newEnv()
	t := newTable()
	var items []string
	var impl []obsOut
	okCount := 0
	for _, o := range ops {
		res, rc := callR(env.acc, o)
		if res == "ROk" {
			okCount++
		}
		var rb [][2]int64
		var rbs []string
		for _, q := range touched(o) {
			v := env.read(q)
			rb = append(rb, v)
			rbs = append(rbs, hlib.App("P", zlit(v[0]), zlit(v[1])))
		}
		rcTerm, rcOut := receiptTerm(t, env.prefix, rc)
		items = append(items, hlib.App("Ob", coqOp(t, o), res, hlib.List(rbs), rcTerm))
		impl = append(impl, obsOut{res, rb, rcOut})
	}
	dterms, dents := env.dump(t)
	ms := make([]string, len(miners))
	for i, m := range miners {
		ms[i] = t.ref(m)
	}
	body := hlib.App("Hist", hlib.Bool(guarded), hlib.List(ms), hlib.List(items), hlib.List(dterms))
	out.Emit(kind, okCount >= 3, t.wrap(body), Input{Guarded: guarded, Ops: ops},
		map[string]interface{}{"ops": impl, "dump": dents})
}

// ---- generators

type world struct {
	r *hlib.Rng
	// accounts[i] = spellings of account i (spelling 0 is canonical)
	users [][]string
	execs [][]string
}

func hexSpellings(r *hlib.Rng) []string {
	for {
		b := r.Bytes(20)
		h := hlib.HexS(b)
		up := strings.ToUpper(h)
		if up == h {
			continue
		}
		mixed := []byte(h)
		for i := range mixed {
			if r.Chance(1, 2) {
				mixed[i] = byte(strings.ToUpper(string(mixed[i]))[0])
			}
		}
		if string(mixed) == h || string(mixed) == up {
			continue
		}
		return []string{"0x" + h, "0x" + up, "0x" + string(mixed), "0X" + up}
	}
}

func base58ish(r *hlib.Rng) string {
	// a real btc-style address derived from random bytes
	return address.PubKeyToAddr(address.DefaultID, r.Bytes(33))
}

func newWorld(r *hlib.Rng) *world {
	w := &world{r: r}
	for i := 0; i < 3; i++ {
		w.users = append(w.users, []string{base58ish(r)})
	}
	for i := 0; i < 3; i++ {
		w.users = append(w.users, hexSpellings(r))
	}
	// an un-prefixed hex string: a different storage key from its 0x form
	h := w.users[3][0][2:]
	w.users = append(w.users, []string{h, strings.ToUpper(h)})
	w.execs = append(w.execs, []string{miners[0]})
	w.execs = append(w.execs, []string{address.ExecAddress("coins")})
	w.execs = append(w.execs, hexSpellings(r))
	return w
}

var edgeAmounts = []int64{0, -1, -1000, 1, 2, 3, 100, 1000, maxAmount - 1, maxAmount, maxAmount + 1,
	maxToken, maxToken - 1, maxToken + 1, maxToken - maxAmount, math.MaxInt64, math.MaxInt64 - 1,
	math.MinInt64, math.MinInt64 + 1, math.MaxInt64 - maxAmount + 1}

var opNames = []string{"Transfer", "TransferToExec", "TransferWithdraw", "ExecFrozen", "ExecActive",
	"ExecTransfer", "ExecTransferFrozen", "ExecDeposit", "ExecWithdraw", "ExecDepositFrozen",
	"ExecIssueCoins", "Mint", "Burn", "GenesisInit", "GenesisInitExec"}

type gen struct {
	w        *world
	r        *hlib.Rng
	env      *ledgerEnv // shadow ledger to pick mostly-valid amounts
	guarded  bool
	userSp   []int // guarded: fixed exec spelling per exec address
	execSp   []int
	mainBud  *big.Int
	subBud   *big.Int
	aliasPct int
}

func (g *gen) user() (int, string) {
	i := g.r.Intn(len(g.w.users))
	sp := g.w.users[i]
	return i, sp[g.r.Intn(len(sp))]
}

func (g *gen) exec() (int, string) {
	i := g.r.Intn(len(g.w.execs))
	sp := g.w.execs[i]
	if g.guarded {
		return i, sp[g.execSp[i]%len(sp)]
	}
	return i, sp[g.r.Intn(len(sp))]
}

// anyAddr: mostly a user, sometimes an exec address in the user position
func (g *gen) holder() string {
	if g.r.Chance(1, 12) {
		_, x := g.exec()
		return x
	}
	_, a := g.user()
	return a
}

func (g *gen) execAddr() string {
	if g.r.Chance(1, 15) && !g.guarded {
		_, a := g.user()
		return a
	}
	_, x := g.exec()
	return x
}

func lowerKey(s string) string { return string(address.FormatAddrKey(s)) }

func (g *gen) amount(avail int64) int64 {
	switch {
	case avail > 0 && g.r.Chance(7, 10):
		if g.r.Chance(1, 6) {
			return avail
		}
		if g.r.Chance(1, 10) {
			return avail + 1
		}
		lim := avail
		if lim >= maxAmount {
			lim = maxAmount - 1
		}
		return 1 + int64(g.r.U64()%uint64(lim))
	case g.r.Chance(1, 2):
		return hlib.Pick(g.r, edgeAmounts)
	default:
		return int64(g.r.Range(1, 5000))
	}
}

// funded lists the shadow ledger's records with a positive balance (frozen=false)
// or frozen amount (frozen=true): main accounts (sub=false) or sub-accounts.
func (g *gen) funded(sub, frozen bool) (res [][2]string) {
	it := g.env.db.Iterator([]byte{}, types.EmptyValue, false)
	defer it.Close()
	for it.Rewind(); it.Valid(); it.Next() {
		var a types.Account
		if types.Decode(it.Value(), &a) != nil {
			continue
		}
		if !bytes.HasPrefix(it.Key(), g.env.prefix) {
			continue // another ledger of a shared store
		}
		rest := string(it.Key()[len(g.env.prefix):])
		isSub := strings.HasPrefix(rest, "exec-")
		if isSub != sub || (!frozen && a.Balance <= 0) || (frozen && a.Frozen <= 0) {
			continue
		}
		if isSub {
			p := strings.SplitN(rest[5:], ":", 2)
			if len(p) != 2 {
				continue
			}
			res = append(res, [2]string{p[1], p[0]})
		} else {
			res = append(res, [2]string{rest, ""})
		}
	}
	return res
}

// respell returns a random spelling of the account that a belongs to.
func (g *gen) respell(a string) string {
	for _, sp := range append(append([][]string{}, g.w.users...), g.w.execs...) {
		for _, s := range sp {
			if lowerKey(s) == lowerKey(a) {
				return sp[g.r.Intn(len(sp))]
			}
		}
	}
	return a
}

// pickFunded overrides holder/exec with a funded record most of the time.
func (g *gen) pickFunded(o *Op, sub, frozen bool) {
	if !g.r.Chance(3, 4) {
		return
	}
	f := g.funded(sub, frozen)
	if len(f) == 0 {
		return
	}
	e := f[g.r.Intn(len(f))]
	o.A = g.respell(e[0])
	if sub {
		if o.Op == "TransferWithdraw" {
			o.B = e[1]
		} else {
			o.X = e[1]
		}
		if !g.guarded && g.r.Chance(1, 12) {
			if o.Op == "TransferWithdraw" {
				o.B = g.respell(e[1])
			} else {
				o.X = g.respell(e[1])
			}
		}
	}
}

func (g *gen) next() Op {
	r := g.r
	name := hlib.Pick(r, opNames)
	o := Op{Op: name}
	sameAcct := func(a string) string { // another (or the same) spelling of a's account
		for _, sp := range append(g.w.users, g.w.execs...) {
			for _, s := range sp {
				if s == a {
					return sp[r.Intn(len(sp))]
				}
			}
		}
		return a
	}
	switch name {
	case "Transfer":
		o.A, o.B = g.holder(), g.holder()
		if r.Chance(1, 10) {
			o.B = sameAcct(o.A)
		}
		g.pickFunded(&o, false, false)
		o.Amt = g.amount(g.env.read(query{false, o.A, ""})[0])
	case "TransferToExec":
		o.A, o.B = g.holder(), g.execAddr()
		g.pickFunded(&o, false, false)
		o.Amt = g.amount(g.env.read(query{false, o.A, ""})[0])
	case "TransferWithdraw":
		o.A, o.B = g.holder(), g.execAddr()
		g.pickFunded(&o, true, false)
		o.Amt = g.amount(g.env.read(query{true, o.A, o.B})[0])
	case "ExecFrozen", "ExecWithdraw":
		o.A, o.X = g.holder(), g.execAddr()
		g.pickFunded(&o, true, false)
		o.Amt = g.amount(g.env.read(query{true, o.A, o.X})[0])
	case "ExecActive":
		o.A, o.X = g.holder(), g.execAddr()
		g.pickFunded(&o, true, true)
		o.Amt = g.amount(g.env.read(query{true, o.A, o.X})[1])
	case "ExecTransfer", "ExecTransferFrozen":
		o.A, o.B, o.X = g.holder(), g.holder(), g.execAddr()
		g.pickFunded(&o, true, name == "ExecTransferFrozen")
		if r.Chance(g.aliasPct, 100) {
			o.B = sameAcct(o.A)
		}
		idx := 0
		if name == "ExecTransferFrozen" {
			idx = 1
		}
		o.Amt = g.amount(g.env.read(query{true, o.A, o.X})[idx])
	case "ExecDeposit", "ExecDepositFrozen":
		o.A, o.X = g.holder(), g.execAddr()
		if name == "ExecDepositFrozen" && r.Chance(2, 3) {
			o.X = miners[r.Intn(len(miners))]
		}
		o.Amt = g.amount(0)
	case "ExecIssueCoins":
		o.X = g.execAddr()
		if r.Chance(2, 3) {
			o.X = miners[r.Intn(len(miners))]
		}
		o.Amt = g.amount(0)
	case "Mint", "GenesisInit":
		o.A = g.holder()
		o.Amt = g.amount(0)
		if r.Chance(1, 3) {
			o.Amt = int64(r.Range(1, 1000000))
		}
		if name == "GenesisInit" && r.Chance(1, 8) {
			o.Amt = maxToken - int64(r.Range(0, 3))*maxAmount - int64(r.Range(0, 2))
		}
	case "Burn":
		o.A = g.holder()
		g.pickFunded(&o, false, false)
		o.Amt = g.amount(g.env.read(query{false, o.A, ""})[0])
	case "GenesisInitExec":
		o.A, o.X = g.holder(), g.execAddr()
		o.Amt = g.amount(0)
		if r.Chance(1, 2) {
			o.Amt = int64(r.Range(1, 1000000))
		}
	}
	return o
}

// guardOK mirrors Spec.op_guard plus the budget part of Spec.headroom.
func (g *gen) guardOK(o Op) bool {
	nd := func(a, b string) bool { return a == b || lowerKey(a) != lowerKey(b) }
	switch o.Op {
	case "ExecTransfer", "ExecTransferFrozen", "TransferWithdraw":
		if !nd(o.A, o.B) {
			return false
		}
	case "GenesisInit":
		if o.Amt < 0 {
			return false
		}
	case "GenesisInitExec":
		if !(o.Amt > 0 && o.Amt < maxAmount) || o.A == o.X {
			return false
		}
	}
	pos := big.NewInt(0)
	if o.Amt > 0 {
		pos.SetInt64(o.Amt)
	}
	switch o.Op {
	case "Mint", "GenesisInit", "GenesisInitExec", "ExecIssueCoins", "ExecDepositFrozen":
		nb := new(big.Int).Add(g.mainBud, pos)
		if nb.Cmp(big.NewInt(maxToken)) > 0 {
			return false
		}
		g.mainBud = nb
	}
	switch o.Op {
	case "TransferToExec", "ExecDeposit", "ExecDepositFrozen", "GenesisInitExec":
		nb := new(big.Int).Add(g.subBud, pos)
		if nb.Cmp(new(big.Int).SetUint64(1<<63-1)) > 0 {
			return false
		}
		g.subBud = nb
	}
	return true
}

func newGen(w *world, r *hlib.Rng, env *ledgerEnv, guarded bool, aliasPct int) *gen {
	g := &gen{w: w, r: r, env: env, guarded: guarded, mainBud: big.NewInt(0), subBud: big.NewInt(0), aliasPct: aliasPct}
	for range w.execs {
		g.execSp = append(g.execSp, r.Intn(8))
	}
	return g
}

func genHistory(w *world, r *hlib.Rng, guarded bool, n int, aliasPct int) []Op {
	g := newGen(w, r, newEnv(), guarded, aliasPct)
	var ops []Op
	// funding prologue so that most later operations have something to move
	pro := r.Range(0, 4)
	for i := 0; i < pro && len(ops) < n; i++ {
		var o Op
		if r.Chance(1, 2) {
			o = Op{Op: "GenesisInit", A: g.holder(), Amt: int64(r.Range(1, 100000))}
		} else {
			o = Op{Op: "GenesisInitExec", A: g.holder(), X: g.execAddr(), Amt: int64(r.Range(1, 100000))}
		}
		if guarded && !g.guardOK(o) {
			continue
		}
		call(g.env.acc, o)
		ops = append(ops, o)
	}
	for tries := 0; len(ops) < n && tries < 20*n; tries++ {
		o := g.next()
		if guarded && !g.guardOK(o) {
			continue
		}
		call(g.env.acc, o)
		ops = append(ops, o)
	}
	return ops
}

func directed(out *hlib.Out, r *hlib.Rng) {
	w := newWorld(r)
	lo, up, mix := w.users[3][0], w.users[3][1], w.users[3][2]
	u1, u2 := w.users[0][0], w.users[1][0]
	ex := w.execs[1][0]
	hx0, hx1 := w.execs[2][0], w.execs[2][1]
	m := miners[0]
	// finding 1: ExecTransfer / ExecTransferFrozen between two spellings of one account
	runHistory(out, "directed-alias-transfer", false, []Op{
		{Op: "GenesisInitExec", A: lo, X: ex, Amt: 1000},
		{Op: "ExecTransfer", A: lo, B: up, X: ex, Amt: 100}})
	runHistory(out, "directed-alias-transfer", false, []Op{
		{Op: "GenesisInitExec", A: lo, X: ex, Amt: 1000},
		{Op: "ExecFrozen", A: mix, X: ex, Amt: 400},
		{Op: "ExecTransferFrozen", A: up, B: lo, X: ex, Amt: 300}})
	runHistory(out, "directed-alias-transfer", false, []Op{
		{Op: "GenesisInitExec", A: lo, X: ex, Amt: 1000},
		{Op: "ExecTransfer", A: up, B: mix, X: ex, Amt: 1000},
		{Op: "ExecTransfer", A: lo, B: mix, X: ex, Amt: 2000}})
	// finding 2: panics after a partial write
	runHistory(out, "directed-panic", false, []Op{
		{Op: "GenesisInitExec", A: u1, X: ex, Amt: 0}})
	runHistory(out, "directed-panic", false, []Op{
		{Op: "GenesisInitExec", A: u1, X: ex, Amt: -5}})
	runHistory(out, "directed-panic", false, []Op{
		{Op: "GenesisInitExec", A: ex, X: ex, Amt: 7}})
	runHistory(out, "directed-panic", false, []Op{
		{Op: "GenesisInit", A: u1, Amt: maxToken},
		{Op: "GenesisInitExec", A: u1, X: ex, Amt: 1000},
		{Op: "TransferWithdraw", A: u1, B: ex, Amt: 10}})
	runHistory(out, "directed-panic", false, []Op{
		{Op: "GenesisInitExec", A: lo, X: up, Amt: 1000},
		{Op: "TransferWithdraw", A: lo, B: up, Amt: 10}})
	// finding 3: negative genesis grant
	runHistory(out, "directed-negative-genesis", false, []Op{
		{Op: "GenesisInit", A: u1, Amt: -5}})
	runHistory(out, "directed-negative-genesis", false, []Op{
		{Op: "GenesisInit", A: u1, Amt: 100},
		{Op: "GenesisInit", A: u1, Amt: math.MinInt64}})
	// finding 4: executor address spelled in two ways
	runHistory(out, "directed-exec-spelling", false, []Op{
		{Op: "GenesisInitExec", A: u1, X: hx0, Amt: 1000},
		{Op: "ExecWithdraw", A: u1, X: hx1, Amt: 10}})
	runHistory(out, "directed-exec-spelling", false, []Op{
		{Op: "GenesisInit", A: u1, Amt: 1000},
		{Op: "TransferToExec", A: u1, B: hx0, Amt: 500},
		{Op: "TransferToExec", A: u1, B: hx1, Amt: 100}})
	// finding 5: unchecked += in the sub-ledger
	var many []Op
	for i := 0; i < 95; i++ {
		many = append(many, Op{Op: "ExecDeposit", A: u1, X: ex, Amt: maxAmount - 1})
	}
	runHistory(out, "directed-sub-overflow", false, many)
	// plain sanity histories
	runHistory(out, "directed-plain", true, []Op{
		{Op: "GenesisInit", A: u1, Amt: 1000},
		{Op: "Transfer", A: u1, B: u2, Amt: 300},
		{Op: "TransferToExec", A: u2, B: m, Amt: 200},
		{Op: "ExecFrozen", A: u2, X: m, Amt: 150},
		{Op: "ExecTransferFrozen", A: u2, B: u1, X: m, Amt: 100},
		{Op: "ExecActive", A: u2, X: m, Amt: 50},
		{Op: "TransferWithdraw", A: u1, B: m, Amt: 100},
		{Op: "ExecDepositFrozen", A: u1, X: m, Amt: 77},
		{Op: "Mint", A: lo, Amt: 5}, {Op: "Burn", A: up, Amt: 3},
		{Op: "Transfer", A: mix, B: up, Amt: 1}})
}

func main() {
	opts := hlib.ParseFlags()
	clog.SetLogLevel("crit")
	cfg = types.NewChain33Config(types.GetDefaultCfgstring())
	for _, e := range cfg.GetMinerExecs() {
		miners = append(miners, address.ExecAddress(cfg.ExecName(e)))
	}
	initCoins()
	out := hlib.NewOut(opts.OutDir)
	defer out.Close()
	if opts.Replay != "" {
		var in Input
		if err := hlib.ReplayInput(opts.Replay, &in); err != nil {
			panic(err)
		}
		switch in.Kind {
		case "coins":
			runCoins(out, "replay", in.Guarded, in.Coins)
		case "multi":
			runMulti(out, "replay", in.Multi)
		default:
			runHistory(out, "replay", in.Guarded, in.Ops)
		}
		return
	}
	r := hlib.NewRng(opts.Seed)
	directed(out, r.Fork())
	directedCoins(out, r.Fork())
	directedMulti(out, r.Fork())
	nG, nU, nC, nM := 130, 130, 140, 50
	if opts.Thorough() {
		nG, nU, nC, nM = 4000, 4000, 3000, 1000
	}
	// small histories first
	for i := 0; i < nG+nU; i++ {
		guarded := i%2 == 0
		maxLen := 4 + (i*50)/(nG+nU)
		if maxLen > 50 {
			maxLen = 50
		}
		n := r.Range(1, maxLen)
		w := newWorld(r.Fork())
		if guarded {
			runHistory(out, "guarded", true, genHistory(w, r.Fork(), true, n, 0))
		} else {
			alias := 4
			if r.Chance(1, 3) {
				alias = 25
			}
			runHistory(out, "unrestricted", false, genHistory(w, r.Fork(), false, n, alias))
		}
	}
	for i := 0; i < nC; i++ {
		maxLen := 3 + (i*40)/nC
		genCoins(out, r.Fork(), r.Range(1, maxLen))
	}
	for i := 0; i < nM; i++ {
		maxLen := 4 + (i*30)/nM
		genMulti(out, r.Fork(), r.Range(2, maxLen))
	}
}
