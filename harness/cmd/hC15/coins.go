package main

// Coins transactions through the real coins driver (system/dapp/coins/executor):
// CheckTx, then Exec, on a memory KV.  Like the block executor, every
// transaction runs on an overlay of the state; the overlay is committed when
// Exec returns nil error and dropped otherwise.

import (
	"math"
	"math/big"
	"sort"
	"strings"

	"github.com/33cn/chain33/account"
	"github.com/33cn/chain33/client"
	"github.com/33cn/chain33/common/address"
	"github.com/33cn/chain33/common/crypto"
	dbm "github.com/33cn/chain33/common/db"
	_ "github.com/33cn/chain33/system/crypto/secp256k1"
	drivers "github.com/33cn/chain33/system/dapp"
	cexec "github.com/33cn/chain33/system/dapp/coins/executor"
	cty "github.com/33cn/chain33/system/dapp/coins/types"
	"github.com/33cn/chain33/types"
	"verifharness/hlib"
)

const forkTransferExec, forkWithdraw = 10, 20

// CTx is one coins transaction (replay format).
type CTx struct {
	H    int64  `json:"h"`
	Key  int    `json:"key"`  // index into coinsKeys
	Eth  bool   `json:"eth"`  // signature type carries the eth address id
	To   string `json:"to"`   // tx.To
	Act  string `json:"act"`  // Transfer, TransferToExec, Withdraw, Genesis, BadNil, BadTy, BadGenesis
	Name string `json:"name"` // ExecName
	Amt  int64  `json:"amt"`
	PTo  string `json:"pto"` // payload To / ReturnAddress for Genesis
}

// CoinsInput is the replay format of a coins case.
type CoinsInput struct {
	Para bool  `json:"para"`
	Txs  []CTx `json:"txs"`
}

type coinsAPI struct {
	client.QueueProtocolAPI
	cfg *types.Chain33Config
}

func (a *coinsAPI) GetConfig() *types.Chain33Config { return a.cfg }

var (
	paraCfg     *types.Chain33Config
	coinsKeys   [][]byte // public keys
	stubDrivers = []struct {
		name string
		h    int64
	}{{"c15mid", 5}, {"c15late", 15}}
	execNames = []string{"", "coins", "c15mid", "c15late", "c15foo", "c15bar"}
)

func initCoins() {
	cfg.SetFork("ForkTransferExec", forkTransferExec)
	cfg.SetFork("ForkWithdraw", forkWithdraw)
	cexec.Init("coins", cfg, nil)
	for _, d := range stubDrivers {
		drivers.Register(cfg, d.name, func() drivers.Driver { return nil }, d.h)
	}
	paraCfg = types.NewChain33Config(strings.Replace(types.GetDefaultCfgstring(),
		"Title=\"local\"", "Title=\"user.p.c15.\"", 1))
	c, err := crypto.Load("secp256k1", -1)
	if err != nil {
		panic(err)
	}
	for i := 0; i < 4; i++ {
		seed := make([]byte, 32)
		for j := range seed {
			seed[j] = byte(17*i + j + 1)
		}
		priv, err := c.PrivKeyFromBytes(seed)
		if err != nil {
			panic(err)
		}
		coinsKeys = append(coinsKeys, priv.PubKey().Bytes())
	}
}

func sigTy(eth bool) int32 {
	if eth {
		return types.EncodeSignID(types.SECP256K1, 2)
	}
	return types.SECP256K1
}

func (c CTx) from() string {
	return address.PubKeyToAddr(types.ExtractAddressID(sigTy(c.Eth)), coinsKeys[c.Key])
}

func (c CTx) build() *types.Transaction {
	var act *cty.CoinsAction
	switch c.Act {
	case "Transfer":
		act = &cty.CoinsAction{Ty: cty.CoinsActionTransfer, Value: &cty.CoinsAction_Transfer{
			Transfer: &types.AssetsTransfer{Amount: c.Amt, To: c.PTo}}}
	case "TransferToExec":
		act = &cty.CoinsAction{Ty: cty.CoinsActionTransferToExec, Value: &cty.CoinsAction_TransferToExec{
			TransferToExec: &types.AssetsTransferToExec{Amount: c.Amt, ExecName: c.Name, To: c.PTo}}}
	case "Withdraw":
		act = &cty.CoinsAction{Ty: cty.CoinsActionWithdraw, Value: &cty.CoinsAction_Withdraw{
			Withdraw: &types.AssetsWithdraw{Amount: c.Amt, ExecName: c.Name, To: c.PTo}}}
	case "Genesis":
		act = &cty.CoinsAction{Ty: cty.CoinsActionGenesis, Value: &cty.CoinsAction_Genesis{
			Genesis: &types.AssetsGenesis{Amount: c.Amt, ReturnAddress: c.PTo}}}
	case "BadTy": // a Ty whose value is of another kind / an unknown Ty
		if c.Amt%2 == 0 {
			act = &cty.CoinsAction{Ty: cty.CoinsActionWithdraw, Value: &cty.CoinsAction_Transfer{
				Transfer: &types.AssetsTransfer{Amount: 5, To: c.PTo}}}
		} else {
			act = &cty.CoinsAction{Ty: 99, Value: &cty.CoinsAction_Transfer{
				Transfer: &types.AssetsTransfer{Amount: 5, To: c.PTo}}}
		}
	case "BadGenesis":
		act = &cty.CoinsAction{Ty: cty.CoinsActionGenesis, Value: &cty.CoinsAction_Transfer{
			Transfer: &types.AssetsTransfer{Amount: 5, To: c.PTo}}}
	}
	tx := &types.Transaction{Execer: []byte("coins"), To: c.To,
		Signature: &types.Signature{Ty: sigTy(c.Eth), Pubkey: coinsKeys[c.Key]}}
	if act != nil {
		tx.Payload = types.Encode(act)
	}
	return tx
}

func (c CTx) coqAct(t *table) string {
	switch c.Act {
	case "Transfer":
		return hlib.App("CTransfer", zlit(c.Amt), t.ref(c.PTo))
	case "TransferToExec":
		return hlib.App("CTransferToExec", t.ref(c.Name), zlit(c.Amt), t.ref(c.PTo))
	case "Withdraw":
		return hlib.App("CWithdraw", t.ref(c.Name), zlit(c.Amt), t.ref(c.PTo))
	case "Genesis":
		return hlib.App("CGenesis", t.ref(c.PTo), zlit(c.Amt))
	case "BadGenesis":
		return "(CBad true)"
	}
	return "(CBad false)"
}

// realTo mirrors ModelCoins.real_to (used for the read-backs only).
func (c CTx) realTo(para bool) string {
	if para {
		switch c.Act {
		case "Transfer", "TransferToExec", "Withdraw":
			return c.PTo
		}
	}
	return c.To
}

func (c CTx) touched(para bool) []query {
	to := c.realTo(para)
	holder := c.from()
	if c.Act == "Genesis" {
		holder = c.PTo
	}
	return []query{{false, c.from(), ""}, {false, to, ""}, {true, holder, to}}
}

func coinsRes(err error) string {
	switch err {
	case nil:
		return "COk"
	case types.ErrAmount:
		return "(CLedger EAmount)"
	case types.ErrNoBalance:
		return "(CLedger ENoBalance)"
	case types.ErrSendSameToRecv:
		return "(CLedger ESameToRecv)"
	case types.ErrNotAllowDeposit:
		return "(CLedger ENotAllowDeposit)"
	case types.ErrActionNotSupport:
		return "CNotSupport"
	case types.ErrToAddrNotSameToExecAddr:
		return "CToAddr"
	case types.ErrReRunGenesis:
		return "CReRun"
	}
	return "COther"
}

// overlay: writes of one transaction on top of the committed state
type overlay struct {
	base dbm.KV
	w    map[string][]byte
	ord  []string
}

func (o *overlay) Get(key []byte) ([]byte, error) {
	if v, ok := o.w[string(key)]; ok {
		return v, nil
	}
	return o.base.Get(key)
}

func (o *overlay) Set(key []byte, value []byte) error {
	k := string(key)
	if _, ok := o.w[k]; !ok {
		o.ord = append(o.ord, k)
	}
	o.w[k] = append([]byte{}, value...)
	return nil
}
func (o *overlay) Begin()        {}
func (o *overlay) Commit() error { return nil }
func (o *overlay) Rollback()     {}

// execCoins runs CheckTx + Exec of the coins driver for one transaction.
func execCoins(state dbm.KV, api client.QueueProtocolAPI, c CTx) (res string, rc *types.Receipt) {
	defer func() {
		if r := recover(); r != nil {
			res, rc = "COther", nil // a panic that escapes DriverBase.Exec
		}
	}()
	drv, err := drivers.LoadDriver("coins", c.H)
	if err != nil {
		return "COther", nil
	}
	ov := &overlay{base: state, w: map[string][]byte{}}
	drv.SetAPI(api)
	drv.SetStateDB(ov)
	drv.SetEnv(c.H, 0, 0)
	tx := c.build()
	if err := drv.CheckTx(tx, 0); err != nil {
		return coinsRes(err), nil
	}
	rc, err = drv.Exec(tx, 0)
	if err != nil {
		return coinsRes(err), rc // rc must be nil; reported if not
	}
	for _, k := range ov.ord { // commit (what StateDB does for a successful tx)
		if e := state.Set([]byte(k), ov.w[k]); e != nil {
			panic(e)
		}
	}
	return "COk", rc
}

func envTerm(t *table, para bool) string {
	var ds, ns []string
	ds = append(ds, hlib.Pair(t.ref(address.ExecAddress("coins")), "0"))
	for _, d := range stubDrivers {
		ds = append(ds, hlib.Pair(t.ref(address.ExecAddress(d.name)), zlit(d.h)))
	}
	for _, n := range execNames {
		ns = append(ns, hlib.Pair(t.ref(n), t.ref(address.ExecAddress(n))))
	}
	return hlib.App("mkEnv", hlib.List(ds), hlib.List(ns), zlit(forkTransferExec), zlit(forkWithdraw), hlib.Bool(para))
}

type txOut struct {
	From string      `json:"from"`
	Res  string      `json:"res"`
	Read [][2]int64  `json:"read"`
	Rcpt interface{} `json:"rcpt,omitempty"`
}

func runCoins(out *hlib.Out, kind string, guarded bool, in *CoinsInput) {
	ety := types.LoadExecutorType("coins")
	if in.Para {
		ety.SetConfig(paraCfg)
		defer ety.SetConfig(cfg)
	}
	state, _ := dbm.NewGoMemDB("gomemdb", "c15coins", 128)
	api := &coinsAPI{cfg: cfg}
	reader := &ledgerEnv{acc: account.NewCoinsAccount(cfg), db: state}
	reader.acc.SetDB(state)
	reader.prefix = reader.acc.AccountKey("")
	t := newTable()
	var items []string
	var impl []txOut
	okCount := 0
	for _, c := range in.Txs {
		res, rc := execCoins(state, api, c)
		if res == "COk" {
			okCount++
		}
		var rb [][2]int64
		var rbs []string
		for _, q := range c.touched(in.Para) {
			v := reader.read(q)
			rb = append(rb, v)
			rbs = append(rbs, hlib.App("P", zlit(v[0]), zlit(v[1])))
		}
		rcTerm, rcOut := receiptTerm(t, reader.prefix, rc)
		items = append(items, hlib.App("T", zlit(c.H), t.ref(c.from()), t.ref(c.To), c.coqAct(t), res,
			hlib.List(rbs), rcTerm))
		impl = append(impl, txOut{c.from(), res, rb, rcOut})
	}
	dterms, dents := reader.dump(t)
	body := hlib.App("Coins", hlib.Bool(guarded), envTerm(t, in.Para), hlib.List(items), hlib.List(dterms))
	out.Emit(kind, okCount >= 3, t.wrap(body), Input{Kind: "coins", Guarded: guarded, Coins: in},
		map[string]interface{}{"txs": impl, "dump": dents})
}

// ---- generator

type coinsGen struct {
	r      *hlib.Rng
	para   bool
	users  []CTx    // (Key, Eth) pairs
	spell  []string // address spellings usable as receiver
	shadow dbm.KV
	api    client.QueueProtocolAPI
	acc    *account.DB
	mint   int64    // genesis budget used (guarded)
	dep    *big.Int // sum of positive amounts (guarded)
}

func upperHex(a string) string { return "0x" + strings.ToUpper(a[2:]) }

func newCoinsGen(r *hlib.Rng, para bool) *coinsGen {
	g := &coinsGen{r: r, para: para, dep: big.NewInt(0)}
	for k := 0; k < 3; k++ {
		g.users = append(g.users, CTx{Key: k})
	}
	g.users = append(g.users, CTx{Key: 2, Eth: true}, CTx{Key: 3, Eth: true})
	for _, u := range g.users {
		a := u.from()
		g.spell = append(g.spell, a)
		if u.Eth {
			mixed := []byte(a)
			for i := 2; i < len(mixed); i += 3 {
				mixed[i] = byte(strings.ToUpper(string(mixed[i]))[0])
			}
			g.spell = append(g.spell, upperHex(a), string(mixed))
		}
	}
	for _, n := range execNames {
		g.spell = append(g.spell, address.ExecAddress(n))
	}
	g.spell = append(g.spell, address.ExecAddress("c15other"))
	db, _ := dbm.NewGoMemDB("gomemdb", "c15shadow", 128)
	g.shadow = db
	g.api = &coinsAPI{cfg: cfg}
	g.acc = account.NewCoinsAccount(cfg)
	g.acc.SetDB(db)
	return g
}

var coinsHeights = []int64{0, 0, 0, 0, 1, 4, 5, 9, 10, 14, 15, 19, 20, 21, 30}

func (g *coinsGen) amount(avail int64) int64 {
	r := g.r
	switch {
	case avail > 0 && r.Chance(7, 10):
		if r.Chance(1, 6) {
			return avail
		}
		if r.Chance(1, 10) {
			return avail + 1
		}
		lim := avail
		if lim >= maxAmount {
			lim = maxAmount - 1
		}
		return 1 + int64(r.U64()%uint64(lim))
	case r.Chance(1, 3):
		return hlib.Pick(r, []int64{0, -1, 1, maxAmount - 1, maxAmount, maxAmount + 1, math.MaxInt64, math.MinInt64, -1000})
	default:
		return int64(r.Range(1, 5000))
	}
}

func (g *coinsGen) next(h int64) CTx {
	r := g.r
	u := hlib.Pick(r, g.users)
	c := CTx{H: h, Key: u.Key, Eth: u.Eth}
	to := hlib.Pick(r, g.spell)
	other := hlib.Pick(r, g.spell)
	if g.para {
		c.To, c.PTo = other, to
	} else {
		c.To, c.PTo = to, other
	}
	bal := g.acc.LoadAccount(c.from()).Balance
	pick := r.Intn(100)
	if h == 0 && pick < 55 {
		pick = 90 // mostly grants in the genesis block
	}
	switch {
	case pick < 30:
		c.Act, c.Amt = "Transfer", g.amount(bal)
		if r.Chance(1, 3) { // a driver address, before or after it becomes one
			c.setTo(g.para, address.ExecAddress(hlib.Pick(r, []string{"coins", "c15mid", "c15late"})))
		}
	case pick < 52:
		c.Act, c.Name, c.Amt = "TransferToExec", hlib.Pick(r, execNames), g.amount(bal)
		if r.Chance(4, 5) {
			c.setTo(g.para, address.ExecAddress(c.Name))
		}
	case pick < 80:
		c.Act, c.Name = "Withdraw", hlib.Pick(r, execNames)
		if r.Chance(4, 5) {
			c.setTo(g.para, address.ExecAddress(c.Name))
		}
		c.Amt = g.amount(g.acc.LoadExecAccount(c.from(), c.realTo(g.para)).Balance)
	case pick < 94:
		c.Act, c.To, c.PTo = "Genesis", to, hlib.Pick(r, g.spell[:8])
		c.Amt = int64(r.Range(1, 1000000))
		if r.Chance(1, 4) {
			c.Amt = hlib.Pick(r, []int64{0, -5, maxAmount - 1, maxAmount, maxToken / 4, maxToken, maxToken + 1, math.MaxInt64, math.MinInt64})
		}
	case pick < 96:
		c.Act = "BadNil"
	case pick < 98:
		c.Act, c.Amt = "BadTy", int64(r.Intn(2))
	default:
		c.Act = "BadGenesis"
	}
	return c
}

func (c *CTx) setTo(para bool, a string) {
	if para {
		c.PTo = a
	} else {
		c.To = a
	}
}

// guardOK keeps a history inside ModelCoins.coins_guard: genesis grants stay
// below MaxTokenBalance in total, and the positive amounts of ALL transactions
// (an upper bound of the model's deposit budget) stay below 2^63.
func (g *coinsGen) guardOK(c CTx) bool {
	if c.Amt > 0 {
		nd := new(big.Int).Add(g.dep, big.NewInt(c.Amt))
		if nd.Cmp(new(big.Int).SetUint64(1<<63-1)) > 0 {
			return false
		}
		if c.Act == "Genesis" && c.H == 0 {
			if c.Amt > maxToken-g.mint {
				return false
			}
			g.mint += c.Amt
		}
		g.dep = nd
	}
	return true
}

func genCoins(out *hlib.Out, r *hlib.Rng, n int) {
	para := r.Chance(1, 4)
	guarded := r.Chance(2, 3)
	g := newCoinsGen(r, para)
	ety := types.LoadExecutorType("coins")
	if para {
		ety.SetConfig(paraCfg)
	}
	hs := make([]int64, n)
	for i := range hs {
		hs[i] = hlib.Pick(r, coinsHeights)
	}
	sort.Slice(hs, func(i, j int) bool { return hs[i] < hs[j] })
	var txs []CTx
	for i := 0; i < n; i++ {
		c := g.next(hs[i])
		if guarded && !g.guardOK(c) {
			continue
		}
		execCoins(g.shadow, g.api, c)
		txs = append(txs, c)
	}
	if para {
		ety.SetConfig(cfg)
	}
	kind := "coins"
	if para {
		kind = "coins-para"
	}
	runCoins(out, kind, guarded, &CoinsInput{Para: para, Txs: txs})
}

func directedCoins(out *hlib.Out, r *hlib.Rng) {
	u0, u1 := CTx{Key: 0}, CTx{Key: 1}
	ue := CTx{Key: 2, Eth: true}
	coins, mid, late := address.ExecAddress("coins"), address.ExecAddress("c15mid"), address.ExecAddress("c15late")
	foo := address.ExecAddress("c15foo")
	mk := func(u CTx, h int64, act, to, name string, amt int64, pto string) CTx {
		return CTx{H: h, Key: u.Key, Eth: u.Eth, To: to, Act: act, Name: name, Amt: amt, PTo: pto}
	}
	// genesis grants, re-run, driver-address routing by height, forks
	runCoins(out, "coins-directed", true, &CoinsInput{Txs: []CTx{
		mk(u0, 0, "Genesis", u0.from(), "", 1000000, ""),
		mk(u0, 0, "Genesis", coins, "", 5000, u1.from()),
		mk(u0, 0, "Genesis", late, "", 700, u1.from()), // not yet a driver address at height 0
		mk(u0, 1, "Genesis", u0.from(), "", 1, ""),
		mk(u0, 3, "Transfer", u1.from(), "", 300, ""),
		mk(u0, 4, "Transfer", mid, "", 50, ""), // plain transfer
		mk(u0, 5, "Transfer", mid, "", 60, ""), // TransferToExec
		mk(u0, 9, "TransferToExec", foo, "c15foo", 10, ""),
		mk(u0, 10, "TransferToExec", foo, "c15foo", 10, ""),
		mk(u0, 10, "TransferToExec", foo, "c15bar", 10, ""),
		mk(u0, 19, "Withdraw", foo, "c15foo", 4, ""),
		mk(u0, 19, "Withdraw", mid, "c15foo", 4, ""),
		mk(u0, 20, "Withdraw", foo, "c15foo", 4, ""),
		mk(u1, 20, "Withdraw", coins, "", 5001, ""),
		mk(u1, 20, "Withdraw", coins, "", 5000, ""),
		mk(u0, 21, "Transfer", u0.from(), "", 5, ""),
		mk(u0, 21, "Transfer", u1.from(), "", -5, ""),
		mk(u0, 21, "BadNil", u1.from(), "", 0, ""),
		mk(u0, 21, "BadTy", u1.from(), "", 0, ""),
		mk(u0, 21, "BadTy", u1.from(), "", 1, ""),
		mk(u0, 21, "BadGenesis", u1.from(), "", 0, ""),
	}})
	// the panic paths of account.DB are recovered and leave nothing behind
	// (grants beyond MaxTokenBalance in total: outside coins_guard)
	runCoins(out, "coins-directed", false, &CoinsInput{Txs: []CTx{
		mk(u0, 0, "Genesis", coins, "", 0, u1.from()),         // ExecDeposit(0) panics after the save
		mk(u0, 0, "Genesis", coins, "", maxAmount, u1.from()), // same, amount too large
		mk(u0, 0, "Genesis", coins, "", 7, coins),             // addr == execaddr
		mk(u0, 0, "BadGenesis", coins, "", 0, ""),
		mk(u0, 0, "Genesis", u0.from(), "", -5, ""), // CheckTx
		mk(u0, 0, "Genesis", u0.from(), "", maxToken, ""),
		mk(u0, 0, "Genesis", u0.from(), "", 1, ""), // safeAdd
		mk(u0, 0, "Genesis", coins, "", 1000, u1.from()),
		mk(u1, 20, "Withdraw", coins, "", 10, ""),
	}})
	// mixed-case spellings of an eth-format account, as receiver and as sender
	el := ue.from()
	runCoins(out, "coins-directed", true, &CoinsInput{Txs: []CTx{
		mk(u0, 0, "Genesis", upperHex(el), "", 1000, ""),
		mk(ue, 2, "Transfer", u0.from(), "", 300, ""),
		mk(u0, 2, "Transfer", el, "", 100, ""),
		mk(ue, 2, "Transfer", upperHex(el), "", 1, ""),
		mk(ue, 12, "TransferToExec", coins, "coins", 200, ""),
		mk(ue, 22, "Withdraw", coins, "coins", 50, ""),
	}})
	// para chain: the receiver is taken from the payload
	runCoins(out, "coins-directed", true, &CoinsInput{Para: true, Txs: []CTx{
		mk(u0, 0, "Genesis", u0.from(), "", 1000, ""),
		mk(u0, 3, "Transfer", "anything", "", 100, u1.from()),
		mk(u0, 12, "TransferToExec", u1.from(), "coins", 100, coins),
		mk(u0, 22, "Withdraw", "", "coins", 40, coins),
	}})
	_ = r
}
