package main

import (
	"bytes"

	"github.com/33cn/chain33/types"
	"verifharness/hlib"
)

// decoded receipt (replay / evidence format)
type kvOut struct {
	Key  string `json:"key"`
	Addr string `json:"addr"`
	Bal  int64  `json:"bal"`
	Frz  int64  `json:"frz"`
}

type logOut struct {
	Ty   int32  `json:"ty"`
	Exec string `json:"exec,omitempty"`
	PA   string `json:"pa"`
	PB   int64  `json:"pb"`
	PF   int64  `json:"pf"`
	CA   string `json:"ca"`
	CB   int64  `json:"cb"`
	CF   int64  `json:"cf"`
}

type rcptOut struct {
	Ty   int32    `json:"ty"`
	KV   []kvOut  `json:"kv"`
	Logs []logOut `json:"logs"`
}

func acctOf(a *types.Account) (string, int64, int64) {
	if a == nil {
		return "", 0, 0
	}
	return a.Addr, a.Balance, a.Frozen
}

// decodeLog decodes an account log by its type; hasExec tells whether the
// message carries an ExecAddr.
func decodeLog(l *types.ReceiptLog) (lo logOut, hasExec bool, ok bool) {
	lo.Ty = l.Ty
	switch l.Ty {
	case types.TyLogTransfer, types.TyLogDeposit, types.TyLogGenesisTransfer, types.TyLogGenesis:
		var m types.ReceiptAccountTransfer
		if types.Decode(l.Log, &m) != nil {
			return lo, false, false
		}
		lo.PA, lo.PB, lo.PF = acctOf(m.Prev)
		lo.CA, lo.CB, lo.CF = acctOf(m.Current)
		return lo, false, true
	case types.TyLogMint:
		var m types.ReceiptAccountMint
		if types.Decode(l.Log, &m) != nil {
			return lo, false, false
		}
		lo.PA, lo.PB, lo.PF = acctOf(m.Prev)
		lo.CA, lo.CB, lo.CF = acctOf(m.Current)
		return lo, false, true
	case types.TyLogBurn:
		var m types.ReceiptAccountBurn
		if types.Decode(l.Log, &m) != nil {
			return lo, false, false
		}
		lo.PA, lo.PB, lo.PF = acctOf(m.Prev)
		lo.CA, lo.CB, lo.CF = acctOf(m.Current)
		return lo, false, true
	case types.TyLogExecTransfer, types.TyLogExecWithdraw, types.TyLogExecDeposit,
		types.TyLogExecFrozen, types.TyLogExecActive, types.TyLogGenesisDeposit:
		var m types.ReceiptExecAccountTransfer
		if types.Decode(l.Log, &m) != nil {
			return lo, true, false
		}
		lo.Exec = m.ExecAddr
		lo.PA, lo.PB, lo.PF = acctOf(m.Prev)
		lo.CA, lo.CB, lo.CF = acctOf(m.Current)
		return lo, true, true
	}
	return lo, false, false
}

// receiptTerm renders a receipt as a Check.rcI term: RN for nil, RA for the
// usual shape (KV i is the Current of log i, Prev and Current carry one
// address), RG verbatim otherwise.  prefix is the ledger's key prefix.
func receiptTerm(t *table, prefix []byte, rc *types.Receipt) (string, interface{}) {
	if rc == nil {
		return "RN", nil
	}
	o := rcptOut{Ty: rc.Ty}
	usual := len(rc.KV) == len(rc.Logs)
	for _, kv := range rc.KV {
		var a types.Account
		rest := string(kv.Key)
		if bytes.HasPrefix(kv.Key, prefix) {
			rest = string(kv.Key[len(prefix):])
		} else {
			rest = "?foreign?" + rest
		}
		if types.Decode(kv.Value, &a) != nil {
			a = types.Account{Addr: "?undecodable?"}
		}
		o.KV = append(o.KV, kvOut{rest, a.Addr, a.Balance, a.Frozen})
	}
	var hasExec []bool
	for i, l := range rc.Logs {
		lo, he, ok := decodeLog(l)
		if !ok {
			lo.PA, lo.CA = "?undecodable?", "?undecodable?"
			usual = false
		}
		o.Logs = append(o.Logs, lo)
		hasExec = append(hasExec, he)
		if usual {
			k := o.KV[i]
			if k.Addr != lo.CA || k.Bal != lo.CB || k.Frz != lo.CF || lo.PA != lo.CA {
				usual = false
			}
		}
	}
	xo := func(i int) string {
		if hasExec[i] {
			return hlib.App("XS", t.ref(o.Logs[i].Exec))
		}
		return "XN"
	}
	if usual {
		var es []string
		for i, lo := range o.Logs {
			es = append(es, hlib.App("E", zlit(int64(lo.Ty)), xo(i), t.keyTerm(o.KV[i].Key), t.ref(lo.CA),
				zlit(lo.PB), zlit(lo.PF), zlit(lo.CB), zlit(lo.CF)))
		}
		return hlib.App("RA", zlit(int64(rc.Ty)), hlib.List(es)), o
	}
	var kvTerms, logTerms []string
	for _, k := range o.KV {
		kvTerms = append(kvTerms, hlib.App("KV", t.keyTerm(k.Key), t.ref(k.Addr), zlit(k.Bal), zlit(k.Frz)))
	}
	for i, lo := range o.Logs {
		logTerms = append(logTerms, hlib.App("LG", zlit(int64(lo.Ty)), xo(i), t.ref(lo.PA), zlit(lo.PB), zlit(lo.PF),
			t.ref(lo.CA), zlit(lo.CB), zlit(lo.CF)))
	}
	return hlib.App("RG", zlit(int64(rc.Ty)), hlib.List(kvTerms), hlib.List(logTerms)), o
}
