package main

// Several account.DB instances (coins account + NewAccountDB(execer, symbol))
// on ONE memory KV: operations through one ledger, read-backs through all of
// them, raw dump of the shared store at the end.

import (
	"strings"

	"github.com/33cn/chain33/account"
	dbm "github.com/33cn/chain33/common/db"
	"github.com/33cn/chain33/types"
	"verifharness/hlib"
)

// LedgerName is an attempt to open a ledger.
type LedgerName struct {
	Execer string `json:"execer"`
	Symbol string `json:"symbol"`
}

// MOp is an operation through ledger L (index into the ACCEPTED ledgers).
type MOp struct {
	L  int `json:"l"`
	Op Op  `json:"op"`
}

// MultiInput is the replay format of a multi-ledger case.
type MultiInput struct {
	Names []LedgerName `json:"names"` // attempt 0 is the coins account (NewCoinsAccount)
	Ops   []MOp        `json:"ops"`
}

type multiEnv struct {
	db      *dbm.GoMemDB
	ledgers []*ledgerEnv // accepted ones
	lnames  []LedgerName
	results []string // per attempt: NOk / NExecName / NSymbol / other
}

func openLedgers(names []LedgerName) *multiEnv {
	mdb, _ := dbm.NewGoMemDB("gomemdb", "c15multi", 128)
	m := &multiEnv{db: mdb}
	for i, n := range names {
		var acc *account.DB
		var err error
		if i == 0 {
			acc = account.NewCoinsAccount(cfg)
			acc.SetDB(mdb)
		} else {
			acc, err = account.NewAccountDB(cfg, n.Execer, n.Symbol, mdb)
		}
		switch err {
		case nil:
			m.results = append(m.results, "NOk")
			m.ledgers = append(m.ledgers, &ledgerEnv{acc: acc, db: mdb, prefix: acc.AccountKey("")})
			m.lnames = append(m.lnames, n)
		case types.ErrExecNameNotAllow:
			m.results = append(m.results, "NExecName")
		case types.ErrSymbolNameNotAllow:
			m.results = append(m.results, "NSymbol")
		default:
			panic(err)
		}
	}
	return m
}

type fdOut struct {
	Key  string `json:"key"`
	Addr string `json:"addr"`
	Bal  int64  `json:"bal"`
	Frz  int64  `json:"frz"`
}

// chunks splits a raw key into interned pieces: a ledger prefix, "exec-",
// executor address, ":", address — whatever matches; the rest stays one piece.
func (m *multiEnv) chunks(t *table, key string) string {
	var parts []string
	rest := key
	best := ""
	for _, l := range m.ledgers {
		p := string(l.prefix)
		if strings.HasPrefix(rest, p) && len(p) > len(best) {
			best = p
		}
	}
	if best != "" {
		parts = append(parts, t.ref(best))
		rest = rest[len(best):]
		if strings.HasPrefix(rest, "exec-") {
			if i := strings.Index(rest, ":"); i > 5 {
				parts = append(parts, t.ref("exec-"), t.ref(rest[5:i]), t.ref(":"))
				rest = rest[i+1:]
			}
		}
	}
	parts = append(parts, t.ref(rest))
	return hlib.List(parts)
}

func (m *multiEnv) dump(t *table) ([]string, []fdOut) {
	var terms []string
	var ents []fdOut
	it := m.db.Iterator([]byte{}, types.EmptyValue, false)
	defer it.Close()
	for it.Rewind(); it.Valid(); it.Next() {
		var a types.Account
		if err := types.Decode(it.Value(), &a); err != nil {
			panic(err)
		}
		k := string(it.Key())
		terms = append(terms, hlib.App("FD", m.chunks(t, k), t.ref(a.Addr), zlit(a.Balance), zlit(a.Frozen)))
		ents = append(ents, fdOut{k, a.Addr, a.Balance, a.Frozen})
	}
	return terms, ents
}

type mobsOut struct {
	Res  string       `json:"res"`
	Read [][][2]int64 `json:"read"`
}

func runMulti(out *hlib.Out, kind string, in *MultiInput) {
	m := openLedgers(in.Names)
	t := newTable()
	var items []string
	var impl []mobsOut
	okCount := 0
	for _, mo := range in.Ops {
		if mo.L < 0 || mo.L >= len(m.ledgers) {
			continue
		}
		res := call(m.ledgers[mo.L].acc, mo.Op)
		if res == "ROk" {
			okCount++
		}
		var all [][][2]int64
		var allT []string
		for _, l := range m.ledgers {
			var rb [][2]int64
			var rbs []string
			for _, q := range touched(mo.Op) {
				v := l.read(q)
				rb = append(rb, v)
				rbs = append(rbs, hlib.App("P", zlit(v[0]), zlit(v[1])))
			}
			all = append(all, rb)
			allT = append(allT, hlib.List(rbs))
		}
		items = append(items, hlib.App("MOb", zlit(int64(mo.L)), coqOp(t, mo.Op), res, hlib.List(allT)))
		impl = append(impl, mobsOut{res, all})
	}
	var news []string
	for i, n := range in.Names {
		news = append(news, hlib.App("NW", t.ref(n.Execer), t.ref(n.Symbol), m.results[i]))
	}
	dterms, dents := m.dump(t)
	ms := make([]string, len(miners))
	for i, mn := range miners {
		ms[i] = t.ref(mn)
	}
	body := hlib.App("Multi", hlib.List(news), hlib.List(ms), hlib.List(items), hlib.List(dterms))
	out.Emit(kind, okCount >= 3, t.wrap(body), Input{Kind: "multi", Guarded: true, Multi: in},
		map[string]interface{}{"new": m.results, "ops": impl, "dump": dents})
}

// near-colliding names: prefixes of each other, symbols that continue the
// execer, an empty symbol, names that look like parts of a key
var goodNames = []LedgerName{
	{"token", "ABC"}, {"token", "AB"}, {"token", "ABCD"}, {"tokenA", "BC"}, {"toke", "nABC"},
	{"coins", "btyx"}, {"coins", "bt"}, {"coinsbty", ""}, {"coin", "sbty"}, {"token", "exec"},
	{"token", "bty"}, {"exec", "coins"}, {"mavl", "coins"}, {"token", "ABC:"}, {"user.p.x.token", "ABC"},
}

var badNames = []LedgerName{
	{"tok-en", "ABC"}, {"token", "A-B"}, {"a-b", "c-d"}, {"-", ""}, {"", "-"}, {"coins-bty", "x"},
	{"coins", "bty-exec"}, {"token", "ABC-"},
}

func genMulti(out *hlib.Out, r *hlib.Rng, n int) {
	names := []LedgerName{{cfg.GetCoinExec(), cfg.GetCoinSymbol()}}
	k := r.Range(1, 3)
	perm := append([]LedgerName{}, goodNames...)
	hlib.Shuffle(r, perm)
	names = append(names, perm[:k]...)
	for i := r.Range(0, 2); i > 0; i-- {
		names = append(names, hlib.Pick(r, badNames))
	}
	// rejected attempts may sit between accepted ones
	tail := names[1:]
	hlib.Shuffle(r, tail)
	shadow := openLedgers(names)
	w := newWorld(r.Fork())
	var gens []*gen
	for _, l := range shadow.ledgers {
		g := newGen(w, r.Fork(), l, true, 0)
		if len(gens) > 0 {
			// one spelling per executor address in the whole case: the read-backs
			// through the other ledgers use the spelling of the operation
			g.execSp = gens[0].execSp
		}
		gens = append(gens, g)
	}
	var ops []MOp
	for tries := 0; len(ops) < n && tries < 20*n; tries++ {
		li := r.Intn(len(gens))
		g := gens[li]
		var o Op
		if len(ops) < len(gens)+1 || r.Chance(1, 10) {
			// funding, mostly of the SAME accounts in every ledger
			if r.Chance(1, 2) {
				o = Op{Op: "GenesisInit", A: w.users[r.Intn(2)][0], Amt: int64(r.Range(1, 100000))}
			} else {
				o = Op{Op: "GenesisInitExec", A: w.users[r.Intn(2)][0], X: g.execAddr(), Amt: int64(r.Range(1, 100000))}
			}
		} else {
			o = g.next()
		}
		if !g.guardOK(o) {
			continue
		}
		call(g.env.acc, o)
		ops = append(ops, MOp{li, o})
	}
	runMulti(out, "multi", &MultiInput{Names: names, Ops: ops})
}

func directedMulti(out *hlib.Out, r *hlib.Rng) {
	w := newWorld(r)
	u1, u2 := w.users[0][0], w.users[1][0]
	lo, up := w.users[3][0], w.users[3][1]
	m := miners[0]
	coins := LedgerName{cfg.GetCoinExec(), cfg.GetCoinSymbol()}
	runMulti(out, "multi-directed", &MultiInput{
		Names: []LedgerName{coins, {"token", "ABC"}, {"tok-en", "ABC"}, {"token", "AB"}, {"token", "A-B"}, {"tokenA", "BC"}},
		Ops: []MOp{
			{0, Op{Op: "GenesisInit", A: u1, Amt: 1000}},
			{1, Op{Op: "GenesisInit", A: u1, Amt: 2000}},
			{2, Op{Op: "GenesisInit", A: u1, Amt: 3000}},
			{3, Op{Op: "GenesisInit", A: u1, Amt: 4000}},
			{1, Op{Op: "Transfer", A: u1, B: u2, Amt: 1500}},
			{0, Op{Op: "Transfer", A: u1, B: u2, Amt: 1500}}, // only 1000 in the coins ledger
			{2, Op{Op: "TransferToExec", A: u1, B: m, Amt: 700}},
			{1, Op{Op: "TransferWithdraw", A: u1, B: m, Amt: 1}}, // nothing deposited in this ledger
			{2, Op{Op: "ExecFrozen", A: u1, X: m, Amt: 300}},
			{3, Op{Op: "ExecActive", A: u1, X: m, Amt: 300}},
			{2, Op{Op: "TransferWithdraw", A: u1, B: m, Amt: 400}},
			{3, Op{Op: "Mint", A: lo, Amt: 5}},
			{1, Op{Op: "Burn", A: up, Amt: 3}},
			{3, Op{Op: "Burn", A: up, Amt: 3}},
		}})
}
