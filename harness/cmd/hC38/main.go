// hC38: the wallet lock flag of a real wallet.Wallet under sequential, timed,
// held-in-the-critical-section ("gated") and spinning-observer histories.
//
// The wallet runs on a memory DB wrapped by gateDB (registered through the
// add-only hook common/db/creator_verif.go).  gateDB can hold ONE goroutine at
// its n-th DB operation of a given kind (seed record read, password hash read,
// batch write).  Because ProcWalletSetPasswd / ProcWalletUnLock / the secret
// returning requests do those DB operations inside their critical sections,
// this gives deterministic interleavings at the granularity of the model's
// steps without any hook in the wallet code.
//
// Every case is generated from (stream, case seed) alone.
package main

import (
	"bytes"
	"encoding/hex"
	"fmt"
	"os"
	"sort"
	"strings"
	"sync"
	"sync/atomic"
	"time"

	"github.com/33cn/chain33/common"
	"github.com/33cn/chain33/common/address"
	dbm "github.com/33cn/chain33/common/db"
	"github.com/33cn/chain33/queue"
	_ "github.com/33cn/chain33/system"
	"github.com/33cn/chain33/types"
	"github.com/33cn/chain33/wallet"
	"github.com/33cn/chain33/wallet/bipwallet"
	bip39 "github.com/33cn/chain33/wallet/bipwallet/go-bip39"
	"verifharness/hlib"
)

// ---------------------------------------------------------------- gate DB

const (
	gSeed  = 0
	gHash  = 1
	gWrite = 2
)

var gkNames = []string{"GSeed", "GHash", "GWrite"}

// gate: one-shot hold point
type gate struct {
	mu      sync.Mutex
	armed   bool
	kind    int
	left    int
	reached chan struct{}
	release chan struct{}
}

func (g *gate) arm(kind, n int) {
	g.mu.Lock()
	g.armed, g.kind, g.left = true, kind, n
	g.reached = make(chan struct{})
	g.release = make(chan struct{})
	g.mu.Unlock()
}

func (g *gate) disarm() {
	g.mu.Lock()
	g.armed = false
	g.mu.Unlock()
}

// hit is called by the DB wrapper before an operation of the given kind
func (g *gate) hit(kind int) {
	g.mu.Lock()
	if !g.armed || g.kind != kind {
		g.mu.Unlock()
		return
	}
	g.left--
	if g.left > 0 {
		g.mu.Unlock()
		return
	}
	g.armed = false
	reached, release := g.reached, g.release
	g.mu.Unlock()
	close(reached)
	<-release
}

type gateDB struct {
	dbm.DB
	g *gate
}

type gateBatch struct {
	dbm.Batch
	g *gate
}

var (
	keySeed = []byte("walletseed")
	keyHash = []byte("PasswordHash")
)

func (d *gateDB) Get(key []byte) ([]byte, error) {
	if bytes.Equal(key, keySeed) {
		d.g.hit(gSeed)
	} else if bytes.Equal(key, keyHash) {
		d.g.hit(gHash)
	}
	return d.DB.Get(key)
}
func (d *gateDB) NewBatch(sync bool) dbm.Batch {
	return &gateBatch{Batch: d.DB.NewBatch(sync), g: d.g}
}
func (d *gateDB) Close() {} // survives a wallet restart
func (b *gateBatch) Write() error {
	b.g.hit(gWrite)
	return b.Batch.Write()
}

var (
	dbMu sync.Mutex
	dbs  = map[string]*gateDB{}
)

func init() {
	dbm.RegisterDBCreatorVerif("c38db", func(name, dir string, cache int) (dbm.DB, error) {
		dbMu.Lock()
		defer dbMu.Unlock()
		if d, ok := dbs[dir]; ok {
			return d, nil
		}
		m, err := dbm.NewGoMemDB(name, dir, cache)
		if err != nil {
			return nil, err
		}
		d := &gateDB{DB: m, g: &gate{}}
		dbs[dir] = d
		return d, nil
	})
}

func dropDB(dir string) {
	dbMu.Lock()
	delete(dbs, dir)
	dbMu.Unlock()
}

// ---------------------------------------------------------------- wallet environment

type env struct {
	dir  string
	cfg  *types.Chain33Config
	q    queue.Queue
	w    *wallet.Wallet
	mock []queue.Client
	g    *gate
}

var (
	cfgText string
	envSeq  int64
	cfgMu   sync.Mutex
)

func newEnv() *env {
	cfgMu.Lock()
	if cfgText == "" {
		cfgText = types.ReadFile("/repo/cmd/chain33/chain33.test.toml")
	}
	cfg := types.NewChain33Config(cfgText)
	cfgMu.Unlock()
	dir := fmt.Sprintf("c38-%d", atomic.AddInt64(&envSeq, 1))
	wc := cfg.GetModuleConfig().Wallet
	wc.Driver = "c38db"
	wc.DbPath = dir
	wc.SignType = "secp256k1"
	e := &env{dir: dir, cfg: cfg}
	e.start()
	dbMu.Lock()
	e.g = dbs[dir].g
	dbMu.Unlock()
	return e
}

func serve(c queue.Client, topic string, f func(msg *queue.Message) interface{}) {
	c.Sub(topic)
	go func() {
		for msg := range c.Recv() {
			if d := f(msg); d != nil {
				msg.Reply(c.NewMessage("", msg.Ty, d))
			} else {
				msg.Reply(c.NewMessage("", msg.Ty, types.ErrActionNotSupport))
			}
		}
	}()
}

var startMu sync.Mutex

func (e *env) start() {
	startMu.Lock()
	defer startMu.Unlock()
	e.q = queue.New("channel")
	e.q.SetConfig(e.cfg)
	bc, st, mp := e.q.Client(), e.q.Client(), e.q.Client()
	serve(bc, "blockchain", func(msg *queue.Message) interface{} {
		if msg.Ty == types.EventGetLastHeader {
			return &types.Header{}
		}
		return nil
	})
	serve(st, "store", func(msg *queue.Message) interface{} {
		if msg.Ty == types.EventStoreGet {
			g := msg.GetData().(*types.StoreGet)
			return &types.StoreReplyValue{Values: make([][]byte, len(g.Keys))}
		}
		return nil
	})
	serve(mp, "mempool", func(msg *queue.Message) interface{} {
		if msg.Ty == types.EventGetProperFee {
			return &types.ReplyProperFee{ProperFee: 100000}
		}
		return nil
	})
	e.mock = []queue.Client{bc, st, mp}
	e.w = wallet.New(e.cfg)
	e.w.SetQueueClient(e.q.Client())
}

func (e *env) stop() {
	e.w.Close()
	for _, c := range e.mock {
		c.Close()
	}
	e.q.Close()
}

func (e *env) destroy() {
	e.stop()
	dropDB(e.dir)
}

func mnemonic(r *hlib.Rng) string {
	m, err := bip39.NewMnemonic(r.Bytes(20), 0)
	if err != nil {
		panic(err)
	}
	return m
}

func errClass(err error) uint64 {
	switch err {
	case types.ErrVerifyOldpasswdFail:
		return 1
	case types.ErrInvalidPassWord:
		return 2
	case types.ErrInputPassword:
		return 3
	case types.ErrWalletIsLocked:
		return 4
	case types.ErrSaveSeedFirst:
		return 5
	case types.ErrSeedExist:
		return 6
	case types.ErrAddrNotExist:
		return 7
	case types.ErrInvalidParam:
		return 10
	case types.ErrInsufficientBalance:
		return 13
	case types.ErrOnlyTicketUnLocked:
		return 14
	}
	return 99
}

// ---------------------------------------------------------------- requests

// password table; must equal C38.Check.pwtab (case kind "dict" checks it)
var pwtab = []string{"alpha1234", "bravo5678", "charlie90x", "delta4321z", "short1", "nodigitshere", "has space 12", ""}

const nValidPw = 4
const poolSize = 4

type req struct {
	K      string `json:"k"`
	P      int    `json:"p,omitempty"`
	P2     int    `json:"p2,omitempty"`
	T      int64  `json:"t,omitempty"`
	Ticket bool   `json:"ticket,omitempty"`
	A      int    `json:"a,omitempty"`
	F      int    `json:"f,omitempty"` // sign: form of the ReqSignRawTx (all name the stored key by address; same model request)
}

func pwT(i int) string { return fmt.Sprintf("(p %d%%nat)", i) }

func (q req) coq() string {
	switch q.K {
	case "unlock":
		return hlib.App("QUnlock", pwT(q.P), hlib.Z(q.T), hlib.Bool(q.Ticket))
	case "lock":
		return "QLock"
	case "setpw":
		return hlib.App("QSetPasswd", pwT(q.P), pwT(q.P2))
	case "dump":
		return fmt.Sprintf("(QSecret (KDump %d%%N))", q.A)
	case "seed":
		return fmt.Sprintf("(QSecret (KSeed %s))", pwT(q.P))
	case "sign":
		return fmt.Sprintf("(QSecret (KSign %d%%N))", q.A)
	case "import":
		return "(QSecret KImport)"
	case "send":
		return "(QSecret KSend)"
	case "status":
		return "(QSecret KStatus)"
	case "islocked":
		return "QIsLocked"
	case "getstatus":
		return "QStatus"
	case "apipriv":
		return fmt.Sprintf("(QApiPriv %d%%N)", q.A)
	case "saveseed":
		return hlib.App("QSaveSeed", pwT(q.P))
	}
	panic("unknown request " + q.K)
}

func (q req) String() string {
	switch q.K {
	case "unlock":
		return fmt.Sprintf("Unlock(%q,T=%d,ticket=%v)", pwtab[q.P], q.T, q.Ticket)
	case "setpw":
		return fmt.Sprintf("SetPasswd(%q,%q)", pwtab[q.P], pwtab[q.P2])
	case "seed", "saveseed":
		return fmt.Sprintf("%s(%q)", q.K, pwtab[q.P])
	case "sign":
		return fmt.Sprintf("sign(acct %d,%s)", q.A, signForms[q.F%len(signForms)])
	case "dump", "apipriv":
		return fmt.Sprintf("%s(acct %d)", q.K, q.A)
	}
	return q.K
}

func (q req) lockFree() bool { return q.K == "lock" || q.K == "islocked" || q.K == "getstatus" }

type res struct {
	coq  string
	text string
}

func rErr(err error) res {
	if err == nil {
		return res{"ROk", "ok"}
	}
	return res{hlib.App("RErr", hlib.N(errClass(err))), "err:" + err.Error()}
}

var (
	rSecret = res{"RSecret", "SECRET"}
	rWrong  = res{"RWrongSecret", "wrong-secret"}
	rPanic  = res{"(RErr 98%N)", "panic"}
)

// world: one wallet plus what the harness needs to recognise secrets
type world struct {
	e     *env
	seed  string
	keys  [][]byte
	addrs []string
	nimp  int32
	nlab  int32
}

func newWorld(r *hlib.Rng) *world {
	w := &world{e: newEnv(), seed: mnemonic(r)}
	for len(w.keys) < poolSize {
		k := r.Bytes(32)
		pub, err := bipwallet.PrivkeyToPub(w.e.w.GetCoinType(), uint32(w.e.w.GetSignType()), k)
		if err != nil {
			continue
		}
		w.keys = append(w.keys, k)
		w.addrs = append(w.addrs, address.PubKeyToAddr(0, pub))
	}
	return w
}

func (w *world) unsignedTx() string {
	tx := &types.Transaction{Execer: []byte("none"), Payload: []byte("c38"), Fee: 1000000, To: w.addrs[0], Nonce: 38}
	return hex.EncodeToString(types.Encode(tx))
}

// forms of ReqSignRawTx that name the stored key by address (no Privkey in the
// request): a single transaction; one with Fee / NewToAddr / Expire set; a
// two-transaction group signed as a whole (Index 0) or one member only (Index 1)
var signForms = []string{"plain", "fee+to+expire", "group-all", "group-1"}

func (w *world) signReq(a, form int) *types.ReqSignRawTx {
	q := &types.ReqSignRawTx{Addr: w.addrs[a], TxHex: w.unsignedTx(), Expire: "0"}
	switch form % len(signForms) {
	case 1:
		q.Fee, q.NewToAddr, q.Expire = 2000000, w.addrs[1], "120s"
	case 2, 3:
		t1 := &types.Transaction{Execer: []byte("none"), Payload: []byte("c38-1"), Fee: 10000000, To: w.addrs[0], Nonce: 381}
		t2 := &types.Transaction{Execer: []byte("none"), Payload: []byte("c38-2"), Fee: 10000000, To: w.addrs[1], Nonce: 382}
		g, err := types.CreateTxGroup([]*types.Transaction{t1, t2}, 100000)
		if err != nil {
			panic(err)
		}
		q.TxHex = hex.EncodeToString(types.Encode(g.Tx()))
		if form%len(signForms) == 3 {
			q.Index = 1
		}
	}
	return q
}

// signedBy: every signature in the reply is valid, at least one is there, and
// all are made with the key of account a
func (w *world) signedBy(reply string, a int) bool {
	raw, err := hex.DecodeString(reply)
	if err != nil {
		return false
	}
	var tx types.Transaction
	if types.Decode(raw, &tx) != nil {
		return false
	}
	members := []*types.Transaction{&tx}
	if g, err := tx.GetTxGroup(); err != nil {
		return false
	} else if g != nil {
		members = g.Txs
	}
	n := 0
	for _, m := range members {
		if m.Signature == nil {
			continue
		}
		if !m.CheckSign(0) || address.PubKeyToAddr(0, m.Signature.Pubkey) != w.addrs[a] {
			return false
		}
		n++
	}
	return n > 0
}

func (w *world) exec(q req) (out res) {
	defer func() {
		if x := recover(); x != nil {
			out = rPanic
			out.text = fmt.Sprint("panic: ", x)
		}
	}()
	wl := w.e.w
	switch q.K {
	case "unlock":
		return rErr(wl.ProcWalletUnLock(&types.WalletUnLock{Passwd: pwtab[q.P], Timeout: q.T, WalletOrTicket: q.Ticket}))
	case "lock":
		return rErr(wl.ProcWalletLock())
	case "setpw":
		return rErr(wl.ProcWalletSetPasswd(&types.ReqWalletSetPasswd{OldPass: pwtab[q.P], NewPass: pwtab[q.P2]}))
	case "saveseed":
		_, err := wl.SaveSeed(pwtab[q.P], w.seed)
		return rErr(err)
	case "dump":
		s, err := wl.ProcDumpPrivkey(w.addrs[q.A])
		if err != nil {
			return rErr(err)
		}
		b, _ := common.FromHex(s)
		if bytes.Equal(b, w.keys[q.A]) {
			return rSecret
		}
		return rWrong
	case "apipriv":
		k, err := wl.GetPrivKeyByAddr(w.addrs[q.A])
		if err != nil {
			return rErr(err)
		}
		if bytes.Equal(k.Bytes(), w.keys[q.A]) {
			return rSecret
		}
		return rWrong
	case "seed":
		s, err := wl.GetSeed(pwtab[q.P])
		if err != nil {
			return rErr(err)
		}
		if s == w.seed {
			return rSecret
		}
		return rWrong
	case "sign":
		s, err := wl.ProcSignRawTx(w.signReq(q.A, q.F))
		if err != nil {
			return rErr(err)
		}
		if w.signedBy(s, q.A) {
			return rSecret
		}
		return rWrong
	case "import":
		i := atomic.LoadInt32(&w.nimp)
		if int(i) >= poolSize {
			panic("import beyond pool")
		}
		lab := fmt.Sprintf("L%d", atomic.AddInt32(&w.nlab, 1))
		_, err := wl.ProcImportPrivKey(&types.ReqWalletImportPrivkey{Privkey: common.ToHex(w.keys[i]), Label: lab})
		if err == nil {
			atomic.AddInt32(&w.nimp, 1)
		}
		return rErr(err)
	case "send":
		_, err := wl.ProcSendToAddress(&types.ReqWalletSendToAddress{From: w.addrs[0], To: w.addrs[1], Amount: 1})
		return rErr(err)
	case "status":
		_, err := wl.CheckWalletStatus()
		return rErr(err)
	case "islocked":
		b := wl.IsWalletLocked()
		return res{hlib.App("RBool", hlib.Bool(b)), fmt.Sprintf("locked=%v", b)}
	case "getstatus":
		s := wl.GetWalletStatus()
		return res{hlib.App("RStatus", hlib.Bool(s.IsWalletLock), hlib.Bool(s.IsHasSeed)),
			fmt.Sprintf("status{locked=%v,seed=%v}", s.IsWalletLock, s.IsHasSeed)}
	}
	panic("unknown request " + q.K)
}

// ---------------------------------------------------------------- histories

type hist struct {
	w     *world
	r     *hlib.Rng
	items []string
	text  []string
	// generation-side beliefs (never part of the verdict)
	cur      int // index of the current password, -1 = no seed
	mem      bool
	unlocked bool
	clock    int64 // planned ns since case start
	start    time.Time
	// interest counters
	winObs   int // lock-free observations made inside a SetPasswd hold
	waited   int // mutex requests seen waiting during a hold
	secrets  int
	sawTrans int // spinning observer completed a read during a SetPasswd on a locked wallet
	timedOut int // observations made after a timeout expired
	crossed  int // ... after a battery request had handed out a secret inside that window
	drift    time.Duration
}

func newHist(r *hlib.Rng) *hist {
	return &hist{w: newWorld(r), r: r, cur: -1}
}

func (h *hist) note(q req, out res) {
	ok := out.coq == "ROk"
	switch q.K {
	case "saveseed":
		if ok {
			h.cur, h.mem = q.P, true
		}
	case "setpw":
		if ok {
			h.cur, h.mem = q.P2, true
		}
	case "unlock":
		if ok {
			h.mem = true
			if !q.Ticket {
				h.unlocked = true
			}
		}
	case "lock":
		if ok {
			h.unlocked = false
		}
	}
	if out.coq == "RSecret" {
		h.secrets++
	}
}

func (h *hist) op(q req) res {
	out := h.w.exec(q)
	h.note(q, out)
	h.items = append(h.items, hlib.App("IOp", q.coq(), out.coq))
	h.text = append(h.text, q.String()+" -> "+out.text)
	return out
}

func (h *hist) restart() {
	h.w.e.stop()
	h.w.e.start()
	h.mem, h.unlocked = false, false
	h.items = append(h.items, "IRestart")
	h.text = append(h.text, "Restart")
}

// pass lets real time pass until the planned clock has advanced by d
func (h *hist) pass(d time.Duration) {
	h.clock += int64(d)
	target := h.start.Add(time.Duration(h.clock))
	if dt := time.Until(target); dt > 0 {
		time.Sleep(dt)
	}
	if late := time.Since(target); late > h.drift {
		h.drift = late
	}
	h.items = append(h.items, hlib.App("IPass", hlib.Z(int64(d))))
	h.text = append(h.text, fmt.Sprintf("Pass(%v)", d))
}

// gated: victim held at its n-th DB operation of the given kind
func (h *hist) gated(victim req, kind, n int, inner []req, blocked *req) {
	g := h.w.e.g
	g.arm(kind, n)
	vdone := make(chan res, 1)
	go func() { vdone <- h.w.exec(victim) }()
	reached := false
	var vres res
	haveV := false
	select {
	case <-g.reached:
		reached = true
	case vres = <-vdone:
		haveV = true
	case <-time.After(20 * time.Second):
		panic("gated victim neither reached the gate nor returned")
	}
	g.disarm()
	var inCoq, inTxt []string
	for _, q := range inner {
		out := h.w.exec(q)
		h.note(q, out)
		if reached && victim.K == "setpw" && (q.K == "islocked" || q.K == "getstatus") {
			h.winObs++
		}
		inCoq = append(inCoq, hlib.Pair(q.coq(), out.coq))
		inTxt = append(inTxt, q.String()+" -> "+out.text)
	}
	bl := "None"
	blTxt := ""
	var bdone chan res
	early := false
	var bres res
	if blocked != nil {
		bdone = make(chan res, 1)
		go func() { bdone <- h.w.exec(*blocked) }()
		wait := 30 * time.Millisecond
		if !reached {
			wait = 10 * time.Second
		}
		select {
		case bres = <-bdone:
			early = true
		case <-time.After(wait):
		}
	}
	if reached {
		close(g.release)
	}
	if !haveV {
		vres = <-vdone
	}
	h.note(victim, vres)
	if blocked != nil {
		if !early {
			bres = <-bdone
			h.waited++
		}
		h.note(*blocked, bres)
		bl = "(Some (" + blocked.coq() + ", " + hlib.Bool(early) + ", " + bres.coq + "))"
		blTxt = fmt.Sprintf("; waiting %s early=%v -> %s", blocked.String(), early, bres.text)
	}
	h.items = append(h.items, hlib.App("IGate", victim.coq(), gkNames[kind], hlib.Nat(n), hlib.Bool(reached),
		hlib.List(inCoq), bl, vres.coq))
	h.text = append(h.text, fmt.Sprintf("Gate{%s held at %s#%d reached=%v; during: [%s]%s} -> %s",
		victim.String(), gkNames[kind], n, reached, strings.Join(inTxt, ", "), blTxt, vres.text))
}

// spinner: a goroutine reading IsWalletLocked in a loop; a read counts for
// call k when the phase counter was 2k+1 both before and after it
type spinner struct {
	phase   int64
	stop    int32
	started int32
	sawU    []int32
	sawL    []int32
	done    chan struct{}
	reads   int64
	inop    int64
	ack     int64
	cnt     []int64
}

// begin opens call k and waits (briefly) until the observer is seen running
// right now (its read counter moves while we look) inside this call
func (s *spinner) begin() {
	p := atomic.AddInt64(&s.phase, 1)
	t0 := time.Now()
	for time.Since(t0) < 10*time.Millisecond {
		if atomic.LoadInt64(&s.ack) != p {
			continue
		}
		c1 := atomic.LoadInt64(&s.reads)
		for i := 0; i < 200; i++ {
			if atomic.LoadInt64(&s.reads) != c1 {
				return
			}
		}
	}
}

func startSpinner(w *wallet.Wallet, ncalls int) *spinner {
	s := &spinner{cnt: make([]int64, ncalls), sawU: make([]int32, ncalls), sawL: make([]int32, ncalls), done: make(chan struct{})}
	go func() {
		defer close(s.done)
		for atomic.LoadInt32(&s.stop) == 0 {
			p1 := atomic.LoadInt64(&s.phase)
			v := w.IsWalletLocked()
			p2 := atomic.LoadInt64(&s.phase)
			atomic.StoreInt32(&s.started, 1)
			atomic.StoreInt64(&s.ack, p2)
			atomic.AddInt64(&s.reads, 1)
			if p1 == p2 && p1&1 == 1 {
				s.inop++
				k := int(p1 / 2)
				if k < len(s.sawU) {
					s.cnt[k]++
					if v {
						s.sawL[k] = 1
					} else {
						s.sawU[k] = 1
					}
				}
			}
		}
	}()
	for atomic.LoadInt32(&s.started) == 0 {
		time.Sleep(50 * time.Microsecond)
	}
	return s
}

// spin runs the requests one after another under a spinning observer
func (h *hist) spin(qs []req) {
	s := startSpinner(h.w.e.w, len(qs))
	outs := make([]res, len(qs))
	was := make([]bool, len(qs))
	for k, q := range qs {
		was[k] = h.unlocked
		s.begin()
		outs[k] = h.w.exec(q)
		atomic.AddInt64(&s.phase, 1)
		h.note(q, outs[k])
	}
	atomic.StoreInt32(&s.stop, 1)
	<-s.done
	if os.Getenv("C38_DEBUG") != "" {
		fmt.Fprintf(os.Stderr, "spin: %d calls, %d reads, %d inside a call %v\n", len(qs), s.reads, s.inop, s.cnt)
	}
	for k, q := range qs {
		u, l := s.sawU[k] == 1, s.sawL[k] == 1
		if (u || l) && q.K == "setpw" && !was[k] {
			h.sawTrans++
		}
		h.items = append(h.items, hlib.App("ISpin", q.coq(), outs[k].coq, hlib.Bool(u), hlib.Bool(l)))
		h.text = append(h.text, fmt.Sprintf("Spin{%s} -> %s sawUnlocked=%v sawLocked=%v", q.String(), outs[k].text, u, l))
	}
}

func (h *hist) emit(o *hlib.Out, kind string, nontrivial bool, in caseIn) {
	outMu.Lock()
	defer outMu.Unlock()
	o.Emit(kind, nontrivial, hlib.App("CHist", hlib.List(h.items)), in, h.text)
}

var outMu sync.Mutex

type caseIn struct {
	Stream string `json:"stream"`
	CSeed  uint64 `json:"cseed"`
}

// ---------------------------------------------------------------- generators

func (h *hist) rightPw() int {
	if h.cur >= 0 {
		return h.cur
	}
	return h.r.Intn(nValidPw)
}

func (h *hist) otherPw() int {
	for {
		i := h.r.Intn(len(pwtab))
		if i != h.cur {
			return i
		}
	}
}

func (h *hist) anyPw(pRight int) int {
	if h.r.Chance(pRight, 100) {
		return h.rightPw()
	}
	return h.otherPw()
}

func (h *hist) unlockReq(pRight int, timeouts []int64) req {
	return req{K: "unlock", P: h.anyPw(pRight), T: hlib.Pick(h.r, timeouts), Ticket: h.r.Chance(1, 8)}
}

func (h *hist) setpwReq(pRight int) req {
	nw := h.r.Intn(nValidPw)
	if h.r.Chance(1, 6) {
		nw = nValidPw + h.r.Intn(len(pwtab)-nValidPw)
	}
	return req{K: "setpw", P: h.anyPw(pRight), P2: nw}
}

func (h *hist) secretReq(allowImport bool) req {
	switch h.r.Intn(8) {
	case 0, 1:
		return req{K: "dump", A: h.r.Intn(poolSize)}
	case 2:
		return req{K: "seed", P: h.anyPw(75)}
	case 3:
		return req{K: "sign", A: h.r.Intn(poolSize), F: h.r.Intn(len(signForms))}
	case 4:
		return req{K: "send"}
	case 5:
		return req{K: "status"}
	case 6:
		if allowImport && int(atomic.LoadInt32(&h.w.nimp)) < poolSize {
			return req{K: "import"}
		}
		return req{K: "dump", A: h.r.Intn(poolSize)}
	}
	return req{K: "apipriv", A: h.r.Intn(poolSize)}
}

func (h *hist) observerReq() req {
	if h.r.Chance(1, 2) {
		return req{K: "islocked"}
	}
	return req{K: "getstatus"}
}

var noTimer = []int64{0, 0, 0, 3600, 86400}

// one random sequential step
func (h *hist) randStep() {
	x := h.r.Intn(100)
	switch {
	case x < 4:
		h.op(req{K: "saveseed", P: h.r.Intn(len(pwtab))})
	case x < 22:
		h.op(h.unlockReq(70, noTimer))
	case x < 32:
		h.op(req{K: "lock"})
	case x < 46:
		h.op(h.setpwReq(60))
	case x < 72:
		h.op(h.secretReq(true))
	case x < 92:
		h.op(h.observerReq())
	default:
		h.restart()
	}
}

// the usual start: seed saved, unlocked, some accounts imported
func (h *hist) setup(pwi, naccts int) {
	h.op(req{K: "saveseed", P: pwi})
	h.op(req{K: "unlock", P: pwi})
	for i := 0; i < naccts; i++ {
		h.op(req{K: "import"})
	}
}

func genSeq(o *hlib.Out, in caseIn, r *hlib.Rng) {
	h := newHist(r)
	defer h.w.e.destroy()
	if r.Chance(4, 5) {
		h.setup(r.Intn(nValidPw), r.Range(0, 3))
		if r.Chance(1, 2) {
			h.op(req{K: "lock"})
		}
	}
	n := r.Range(4, 36)
	for i := 0; i < n; i++ {
		h.randStep()
		if r.Chance(1, 3) {
			h.op(h.observerReq())
		}
	}
	h.emit(o, "seq", h.secrets > 0, in)
}

// timed histories: real timers of 1-2 s; observations stay >= 450 ms away from every deadline.
//
// Each case fixes a battery of secret-returning requests (SignRawTx by address in
// one or two forms, DumpPrivkey, for one or two accounts; GetSeed; SendToAddress;
// a status read) and asks the SAME battery after every unlock (while the window
// is open), after every passage of time (before / beyond the deadline), after
// every explicit lock, after every failed or successful re-unlock and after
// every password change: whatever a request handed out inside the window must be
// refused for the same account once the window is closed.  The first round is
// always a right-password unlock with a 1-2 s timeout.
func genTimed(o *hlib.Out, in caseIn, r0 *hlib.Rng) {
	for attempt := 0; attempt < 4; attempt++ {
		r := hlib.NewRng(in.CSeed + uint64(attempt)*7919)
		h := newHist(r)
		na := r.Range(1, 2)
		h.setup(r.Intn(nValidPw), na)
		accts := []int{0}
		if na > 1 {
			accts = append(accts, na-1)
		}
		var bat []req
		for _, a := range accts {
			bat = append(bat, req{K: "sign", A: a, F: r.Intn(len(signForms))}, req{K: "dump", A: a})
		}
		if r.Chance(1, 2) { // account 0 in a second, different form
			bat = append(bat, req{K: "sign", A: 0, F: (bat[0].F + 1 + r.Intn(len(signForms)-1)) % len(signForms)})
		}
		bat = append(bat, req{K: "seed"}, req{K: "send"})
		for i := len(bat) - 1; i > 0; i-- {
			j := r.Intn(i + 1)
			bat[i], bat[j] = bat[j], bat[i]
		}
		h.op(req{K: "lock"})
		h.start = time.Now()
		h.clock = 0
		deadline := int64(-1) // planned ns; -1 = no timer pending
		rounds := r.Range(1, 3)
		open := false // a battery request handed out a secret since the last timed unlock
		battery := func() {
			h.op(h.observerReq())
			before := h.secrets
			for _, q := range bat {
				if q.K == "seed" {
					q.P = h.rightPw()
				}
				h.op(q)
			}
			if h.secrets > before && deadline >= 0 {
				open = true
			}
		}
		lateness := func() {
			if l := time.Since(h.start) - time.Duration(h.clock); l > h.drift {
				h.drift = l
			}
		}
		for k := 0; k < rounds; k++ {
			T := hlib.Pick(r, []int64{1, 1, 1, 2, 2, 2, 0, 0, -1, 9223372037, -9223372037})
			q := req{K: "unlock", P: h.anyPw(85), T: T, Ticket: r.Chance(1, 10)}
			if k == 0 {
				T = hlib.Pick(r, []int64{1, 1, 2})
				q = req{K: "unlock", P: h.rightPw(), T: T}
			}
			out := h.op(q)
			lateness()
			if out.coq == "ROk" && !q.Ticket && T != 0 {
				switch {
				case T == 1 || T == 2:
					deadline = h.clock + T*int64(time.Second)
				case T == -9223372037:
					deadline = -1 // int64 wrap-around to about 292 years
				default:
					deadline = h.clock // fires at once
				}
			}
			observeNow := T == 1 || T == 2 || T == 0 || T == -9223372037
			if observeNow {
				battery()
				lateness()
			}
			// a few moves before / after the deadline
			moves := r.Range(1, 3)
			for m := 0; m < moves; m++ {
				margin := int64(450+r.Intn(300)) * int64(time.Millisecond)
				var d int64
				switch {
				case deadline >= 0 && h.clock+int64(100*time.Millisecond) <= deadline-margin && r.Chance(1, 2):
					d = deadline - margin - h.clock // stop before the deadline
				case deadline >= 0:
					d = deadline + margin - h.clock // go beyond it
					h.timedOut++
					if open {
						h.crossed++
					}
				default:
					d = int64(50+r.Intn(150)) * int64(time.Millisecond)
				}
				h.pass(time.Duration(d))
				if deadline >= 0 && h.clock > deadline {
					deadline = -1
					open = false
				}
				battery()
				lateness()
				acted := true
				switch r.Intn(8) {
				case 0:
					h.op(req{K: "lock"})
				case 1:
					q := req{K: "unlock", P: h.anyPw(85), T: hlib.Pick(r, []int64{0, 2})}
					if out := h.op(q); out.coq == "ROk" && q.T != 0 {
						deadline = h.clock + q.T*int64(time.Second)
					}
				case 2:
					h.op(h.setpwReq(50))
				case 3, 4:
					// a re-unlock that fails (other password), asking for a longer window
					h.op(req{K: "unlock", P: h.otherPw(), T: hlib.Pick(r, []int64{2, 2, 3600, 0})})
				default:
					acted = false
				}
				if acted {
					lateness()
					battery()
				}
				lateness()
			}
		}
		h.w.e.destroy()
		if h.drift > 200*time.Millisecond {
			continue // the machine was too slow for the planned clock: generate again
		}
		h.emit(o, "timed", h.crossed > 0, in)
		return
	}
	panic("timed case: the planned clock could not be kept in 4 attempts")
}

// gated histories.  window = false: no lock-free observer while a SetPasswd is
// held; window = true: observers inside SetPasswd holds (the transient unlock that
// chain33 66be1e2 removed was visible there).
func genGate(o *hlib.Out, in caseIn, r *hlib.Rng, window bool) {
	h := newHist(r)
	defer h.w.e.destroy()
	h.setup(r.Intn(nValidPw), r.Range(1, 3))
	switch r.Intn(4) {
	case 0:
		h.op(req{K: "lock"})
	case 1:
		h.restart() // locked, no cached password: the password-hash read becomes a hold point
	case 2:
		h.restart()
		h.op(h.unlockReq(90, noTimer))
	}
	rounds := r.Range(2, 6)
	for k := 0; k < rounds; k++ {
		var victim req
		if window || r.Chance(1, 3) {
			victim = h.setpwReq(50)
		} else {
			switch r.Intn(3) {
			case 0:
				victim = h.unlockReq(65, noTimer)
			default:
				victim = h.secretReq(false)
			}
		}
		kind, n := gSeed, r.Range(1, 3)
		switch r.Intn(5) {
		case 0, 1:
			kind, n = gHash, 1
		case 2:
			kind, n = gWrite, 1
		}
		if victim.K != "setpw" && kind == gWrite {
			kind = gSeed
		}
		var inner []req
		for i, m := 0, r.Range(0, 3); i < m; i++ {
			if victim.K == "setpw" && !window {
				if r.Chance(1, 2) {
					inner = append(inner, req{K: "lock"})
				}
				continue
			}
			if r.Chance(1, 4) {
				inner = append(inner, req{K: "lock"})
			} else {
				inner = append(inner, h.observerReq())
			}
		}
		if window && len(inner) == 0 {
			inner = append(inner, h.observerReq())
		}
		var blocked *req
		if r.Chance(3, 5) {
			var b req
			switch r.Intn(6) {
			case 0:
				b = h.unlockReq(70, noTimer)
			case 1:
				b = h.setpwReq(50)
			default:
				b = h.secretReq(false)
			}
			blocked = &b
		}
		h.gated(victim, kind, n, inner, blocked)
		// look at the wallet afterwards
		h.op(h.observerReq())
		if r.Chance(1, 2) {
			h.op(req{K: "dump", A: 0})
		}
		for i, m := 0, r.Range(0, 3); i < m; i++ {
			h.randStep()
		}
	}
	if window {
		h.emit(o, "gate-window", h.winObs > 0, in)
	} else {
		h.emit(o, "gate-guarded", h.waited > 0, in)
	}
}

// the deterministic schedule of former finding 1 (fixed by chain33 66be1e2; a
// status "unlocked" inside the hold is a violation): a password change with a
// WRONG old password on a locked wallet (fresh process, nothing cached), held at
// the password-hash read; IsWalletLocked / GetWalletStatus are asked meanwhile,
// and a key dump is started and seen to wait
func genWitness(o *hlib.Out, in caseIn, r *hlib.Rng) {
	h := newHist(r)
	defer h.w.e.destroy()
	h.setup(0, 1)
	h.restart()
	h.op(req{K: "islocked"})
	b := req{K: "dump", A: 0}
	h.gated(req{K: "setpw", P: 1, P2: 2}, gHash, 1, []req{{K: "islocked"}, {K: "getstatus"}}, &b)
	h.op(req{K: "islocked"})
	h.op(req{K: "dump", A: 0})
	h.emit(o, "gate-window-witness", h.winObs > 0, in)
}

// spinning observer
func genSpin(o *hlib.Out, in caseIn, r *hlib.Rng) {
	h := newHist(r)
	defer h.w.e.destroy()
	h.setup(r.Intn(nValidPw), r.Range(1, 3))
	batches := r.Range(1, 3)
	for b := 0; b < batches; b++ {
		mode := r.Intn(3)
		switch mode {
		case 0: // locked, password cached: right-password changes have a long window
			h.op(req{K: "lock"})
		case 1: // fresh process: wrong-password changes go through the hash read
			h.restart()
		}
		var qs []req
		for i, m := 0, r.Range(8, 24); i < m; i++ {
			x := r.Intn(10)
			switch {
			case x < 5:
				pr := 50
				if mode == 1 {
					pr = 15
				}
				qs = append(qs, h.setpwReqFor(pr, qs))
			case x < 6:
				qs = append(qs, h.unlockReq(70, noTimer))
			case x < 7:
				qs = append(qs, req{K: "lock"})
			default:
				qs = append(qs, h.secretReq(false))
			}
		}
		h.spin(qs)
		h.op(h.observerReq())
	}
	h.emit(o, "spin", h.sawTrans > 0, in)
}

// inside a spin batch the belief about the current password is only updated
// afterwards; choose old passwords from the belief at batch start
func (h *hist) setpwReqFor(pRight int, _ []req) req {
	q := h.setpwReq(pRight)
	if q.P == h.cur {
		q.P2 = h.cur // keep the password: later requests of the batch stay meaningful
	}
	return q
}

// the hammer as a case: hits > 0 is a violation (former finding 2, fixed by chain33 66be1e2)
func genLostLock(o *hlib.Out, in caseIn, r *hlib.Rng) {
	budget := 2 * time.Second
	if thoroughRun {
		budget = 15 * time.Second
	}
	tr, hits := hammerLostLock(r, budget)
	o.Emit("lost-lock-hammer", tr > 0, hlib.App("CLostLock", hlib.N(uint64(tr)), hlib.N(uint64(hits))), in,
		map[string]interface{}{"trials": tr, "lock_undone": hits,
			"what": "A: loop ProcWalletSetPasswd(wrong old password) on an unlocked wallet; B: ProcWalletLock -> nil, then CheckWalletStatus; lock_undone = times it still reported unlocked"})
}

var thoroughRun bool

func genDict(o *hlib.Out, in caseIn, r *hlib.Rng) {
	var it []string
	for _, s := range pwtab {
		it = append(it, hlib.Hx([]byte(s)))
	}
	o.Emit("dict", true, hlib.App("CDict", hlib.List(it)), in, pwtab)
}

// ---------------------------------------------------------------- driver

type stream struct {
	name     string
	quick    int
	parallel int
	gen      func(o *hlib.Out, in caseIn, r *hlib.Rng)
}

func streams() []stream {
	return []stream{
		{"dict", 1, 1, genDict},
		{"gate-window-witness", 1, 1, genWitness},
		{"seq", 110, 1, genSeq},
		{"gate-guarded", 90, 1, func(o *hlib.Out, in caseIn, r *hlib.Rng) { genGate(o, in, r, false) }},
		{"gate-window", 40, 1, func(o *hlib.Out, in caseIn, r *hlib.Rng) { genGate(o, in, r, true) }},
		{"spin", 40, 1, genSpin},
		{"timed", 32, 16, genTimed},
		{"lost-lock-hammer", 1, 1, genLostLock},
	}
}

func main() {
	opts := hlib.ParseFlags()
	wallet.DisableLog()
	wallet.SetLogLevel("crit")
	queue.DisableLog()
	o := hlib.NewOut(opts.OutDir)
	defer o.Close()
	ss := streams()
	if os.Getenv("C38_HAMMER") != "" {
		d, _ := time.ParseDuration(os.Getenv("C38_HAMMER"))
		tr, hits := hammerLostLock(hlib.NewRng(opts.Seed), d)
		fmt.Printf("lost-lock hammer: %d trials, %d hits\n", tr, hits)
		return
	}
	if opts.Replay != "" {
		var in caseIn
		if err := hlib.ReplayInput(opts.Replay, &in); err != nil {
			fmt.Println("replay:", err)
			os.Exit(2)
		}
		for _, s := range ss {
			if s.name == in.Stream {
				s.gen(o, in, hlib.NewRng(in.CSeed))
				return
			}
		}
		fmt.Println("replay: unknown stream", in.Stream)
		os.Exit(2)
	}
	rng := hlib.NewRng(opts.Seed)
	mult := 1
	if opts.Thorough() {
		mult = 10
		thoroughRun = true
	}
	names := []string{}
	for _, s := range ss {
		sr := rng.Fork()
		n := s.quick * mult
		if s.quick == 1 {
			n = 1
		}
		seeds := make([]uint64, n)
		for i := range seeds {
			seeds[i] = sr.U64()
		}
		if s.parallel <= 1 {
			for _, cs := range seeds {
				s.gen(o, caseIn{Stream: s.name, CSeed: cs}, hlib.NewRng(cs))
			}
		} else {
			sem := make(chan struct{}, s.parallel)
			var wg sync.WaitGroup
			for _, cs := range seeds {
				wg.Add(1)
				sem <- struct{}{}
				go func(cs uint64) {
					defer wg.Done()
					defer func() { <-sem }()
					s.gen(o, caseIn{Stream: s.name, CSeed: cs}, hlib.NewRng(cs))
				}(cs)
			}
			wg.Wait()
		}
		names = append(names, s.name)
	}
	sort.Strings(names)
	fmt.Printf("hC38: %d cases (%s)\n", o.Count(), strings.Join(names, ","))
}

// ---------------------------------------------------------------- lost-lock hammer (a test)

// hammerLostLock tries to hit the race of the schedule of C38_lock_survives_setpasswd
// on the real wallet (before chain33 66be1e2 a lock that fell between the load and
// the CAS of ProcWalletSetPasswd was undone): goroutine A keeps calling
// ProcWalletSetPasswd with a wrong old password on an UNLOCKED wallet; goroutine
// B calls ProcWalletLock and then asks CheckWalletStatus (which waits for A's
// call in flight).  If the status is still "unlocked" although B's lock
// returned nil and nobody unlocked, the password change has cleared the flag.
func hammerLostLock(r *hlib.Rng, budget time.Duration) (trials int, hits int) {
	w := newWorld(r)
	defer w.e.destroy()
	w.exec(req{K: "saveseed", P: 0})
	w.exec(req{K: "unlock", P: 0})
	var stop int32
	done := make(chan struct{})
	go func() {
		defer close(done)
		q := &types.ReqWalletSetPasswd{OldPass: pwtab[1], NewPass: pwtab[2]}
		for atomic.LoadInt32(&stop) == 0 {
			w.e.w.ProcWalletSetPasswd(q)
		}
	}()
	t0 := time.Now()
	for time.Since(t0) < budget {
		trials++
		if err := w.e.w.ProcWalletLock(); err != nil {
			panic(err)
		}
		if ok, _ := w.e.w.CheckWalletStatus(); ok {
			hits++
		}
		w.e.w.ProcWalletLock()
		if err := w.e.w.ProcWalletUnLock(&types.WalletUnLock{Passwd: pwtab[0]}); err != nil {
			panic(err)
		}
	}
	atomic.StoreInt32(&stop, 1)
	<-done
	return
}
