package main

// (b) concurrent runs: several requesters and responders on several topics with random
// delays, recycling, timeouts and closes at random points. Every participant logs what it
// did; a monitor (Spec.conc_ok, evaluated in Coq on the merged log) checks: every reply
// taken names the taker's own request, no ID is read twice from Recv, sends started after a
// Close returned fail, waits started after a Close returned return. This is a TEST of the
// real code under real schedules, not a comparison with the LTS.

import (
	"fmt"
	"sync"
	"sync/atomic"
	"time"

	"github.com/33cn/chain33/queue"
	"verifharness/hlib"
)

type cev struct {
	seq  int64
	term string
}

type clog struct {
	mu  sync.Mutex
	evs []cev
	seq int64
}

func (l *clog) add(term string) {
	s := atomic.AddInt64(&l.seq, 1)
	l.mu.Lock()
	l.evs = append(l.evs, cev{s, term})
	l.mu.Unlock()
}

type concParams struct {
	Kind     string `json:"kind"`
	NTopics  int    `json:"ntopics"`
	NClients int    `json:"nclients"` // seed of the run (replay)
	NReq     int    `json:"nreq"`
	PerReq   int    `json:"perreq"`
	Hcap     int    `json:"hcap"`
	Lcap     int    `json:"lcap"`
}

func spin(r *hlib.Rng, maxMicros int) {
	if maxMicros > 0 {
		time.Sleep(time.Duration(r.Intn(maxMicros)) * time.Microsecond)
	}
}

func oneConcurrent(p concParams, seed uint64) (string, map[string]int) {
	rng := hlib.NewRng(seed)
	q := queue.New("c36c")
	if p.Hcap > 0 {
		for t := 0; t < p.NTopics; t++ {
			queue.VerifPresetTopic(q, topicName(t), p.Hcap, p.Lcap)
		}
	}
	lg := &clog{}
	var closedSeq [8]int64 // per subscriber: log sequence at which Close returned (0 = not)
	var qClosedSeq int64
	stats := map[string]int{}
	var smu sync.Mutex
	bump := func(k string) { smu.Lock(); stats[k]++; smu.Unlock() }

	subs := make([]queue.Client, p.NTopics)
	var wgSub sync.WaitGroup
	for t := 0; t < p.NTopics; t++ {
		subs[t] = q.Client()
		subs[t].Sub(topicName(t))
		r := rng.Fork()
		cl := subs[t]
		wgSub.Add(1)
		go func() {
			defer wgSub.Done()
			for msg := range cl.Recv() {
				id := msg.ID
				lg.add(hlib.App("CRecv", hlib.N(uint64(id))))
				spin(r, 300)
				if r.Chance(1, 12) {
					continue // a responder that does not answer: the requester times out
				}
				msg.Reply(cl.NewMessage("", 2, id))
			}
		}()
	}
	var wgReq sync.WaitGroup
	for k := 0; k < p.NReq; k++ {
		r := rng.Fork()
		cl := q.Client()
		wgReq.Add(1)
		go func() {
			defer wgReq.Done()
			for j := 0; j < p.PerReq; j++ {
				t := r.Intn(p.NTopics)
				msg := cl.NewMessage(topicName(t), 1, "req")
				own := msg.ID
				hi := r.Chance(3, 4)
				mode := []time.Duration{-1, 0, 2 * time.Millisecond}[r.Intn(3)]
				startQ := atomic.LoadInt64(&qClosedSeq)
				startT := atomic.LoadInt64(&closedSeq[t])
				err := cl.SendTimeout(msg, hi, mode)
				if startQ != 0 {
					lg.add(hlib.App("CSendAfterClose", hlib.Bool(err != nil)))
				}
				_ = startT
				if err != nil {
					bump("send-err")
					continue
				}
				bump("sent")
				if !hi {
					continue
				}
				to := time.Duration(r.Range(100, 3000)) * time.Microsecond
				switch r.Intn(4) {
				case 0:
					to = 60 * time.Millisecond
				case 1:
					to = -1 // Wait: woken by the reply or by a close
				}
				wq := atomic.LoadInt64(&qClosedSeq)
				done := make(chan struct{})
				var rep *queue.Message
				var werr error
				go func() { rep, werr = cl.WaitTimeout(msg, to); close(done) }()
				returned := true
				select {
				case <-done:
				case <-time.After(2 * time.Second):
					returned = false
				}
				if wq != 0 {
					lg.add(hlib.App("CWaitAfterClose", hlib.Bool(returned)))
				}
				if !returned {
					bump("wait-stuck")
					return
				}
				if werr == nil && rep != nil {
					named, _ := rep.Data.(int64)
					lg.add(hlib.App("CGot", hlib.N(uint64(own)), hlib.N(uint64(named))))
					bump("reply")
					cl.FreeMessage(msg, rep) // discipline: only after the reply was taken
				} else {
					bump("wait-err")
				}
				spin(r, 200)
			}
		}()
	}
	// closes at random points
	closer := rng.Fork()
	time.Sleep(time.Duration(closer.Range(5, 60)) * time.Millisecond)
	if closer.Chance(1, 2) {
		t := closer.Intn(p.NTopics)
		cd := make(chan struct{})
		go func() {
			defer func() {
				if x := recover(); x != nil {
					lg.add(hlib.App("CBad", "2%N"))
				}
			}()
			subs[t].Close()
			close(cd)
		}()
		select {
		case <-cd:
		case <-time.After(3 * time.Second):
			lg.add(hlib.App("CBad", "1%N")) // Client.Close did not return although its subscriber keeps reading
			bump("close-stuck")
		}
		atomic.StoreInt64(&closedSeq[t], atomic.AddInt64(&lg.seq, 1))
		time.Sleep(time.Duration(closer.Range(0, 10)) * time.Millisecond)
	}
	q.Close()
	atomic.StoreInt64(&qClosedSeq, atomic.AddInt64(&lg.seq, 1))
	fin := make(chan struct{})
	go func() { wgReq.Wait(); close(fin) }()
	select {
	case <-fin:
	case <-time.After(5 * time.Second):
		lg.add(hlib.App("CBad", "3%N")) // a requester never came back
		bump("requester-stuck")
	}
	for _, s := range subs {
		s := s
		go func() {
			defer func() { _ = recover() }()
			s.Close()
		}()
	}
	lg.mu.Lock()
	defer lg.mu.Unlock()
	terms := make([]string, len(lg.evs))
	// merge by sequence stamp
	evs := append([]cev(nil), lg.evs...)
	for i := 1; i < len(evs); i++ {
		for j := i; j > 0 && evs[j-1].seq > evs[j].seq; j-- {
			evs[j-1], evs[j] = evs[j], evs[j-1]
		}
	}
	for i, e := range evs {
		terms[i] = e.term
	}
	return hlib.App("Concurrent", hlib.List(terms)), stats
}

func runConcurrent(out *hlib.Out, rng *hlib.Rng, n int, replay *Scenario) {
	mkParams := func(seed uint64) concParams {
		r := hlib.NewRng(seed)
		p := concParams{Kind: "concurrent", NTopics: r.Range(1, 3), NClients: int(seed), NReq: r.Range(2, 5), PerReq: r.Range(10, 60)}
		if r.Chance(2, 3) {
			p.Hcap, p.Lcap = r.Range(1, 4), r.Range(1, 4)
		}
		return p
	}
	if replay != nil {
		p := mkParams(uint64(replay.NClients))
		term, st := oneConcurrent(p, uint64(replay.NClients))
		out.Emit("concurrent", st["reply"] > 0, term, p, st)
		return
	}
	type res struct {
		p    concParams
		term string
		st   map[string]int
	}
	results := make([]res, n)
	var wg sync.WaitGroup
	sem := make(chan struct{}, 3)
	for i := 0; i < n; i++ {
		seed := rng.U64() % 1000000
		p := mkParams(seed)
		wg.Add(1)
		sem <- struct{}{}
		go func(i int) {
			defer wg.Done()
			defer func() { <-sem }()
			t, st := oneConcurrent(p, seed)
			results[i] = res{p, t, st}
		}(i)
	}
	wg.Wait()
	for _, r := range results {
		out.Emit("concurrent", r.st["reply"] > 0, r.term, r.p, r.st)
	}
	_ = fmt.Sprint
}
