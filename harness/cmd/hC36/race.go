package main

import (
	"fmt"
	"time"

	"github.com/33cn/chain33/queue"
	"verifharness/hlib"
)

// raceMany: Queue.Close in one goroutine; as soon as it is inside its locked loop, op.N
// goroutines each send one message (slots O .. O+N-1, all for one never-used topic, high
// priority, wait-forever). Expected on the unchanged code: all of them read isClose = 0 and
// wait for q.mu; after the loop the first creates the topic (open, inside the closed queue),
// 64 sends are accepted, the others park for ever. Written as
// [Queue.Close called; accepted sends; parked sends; Queue.Close returned; refused sends].
func (e *exec) raceMany(op Op, v *view) bool {
	var msgs []*queue.Message
	for i := 0; i < op.N; i++ {
		m := e.slots[op.O+i]
		if m == nil {
			return false
		}
		msgs = append(msgs, m)
	}
	done := make(chan struct{})
	q := e.q
	go func() {
		defer func() { _ = recover() }()
		q.Close()
		close(done)
	}()
	t0 := time.Now()
	for !stackHas("(*queue).Close.func1") && time.Since(t0) < 2*time.Second {
	}
	chs := make([]chan sendRes, len(msgs))
	cl := e.cl[op.C]
	for i, m := range msgs {
		ch := make(chan sendRes, 1)
		chs[i] = ch
		m := m
		go func() {
			defer func() {
				if r := recover(); r != nil {
					ch <- sendRes{panicked: true}
				}
			}()
			ch <- sendRes{err: cl.SendTimeout(m, true, -1)}
		}()
	}
	select {
	case <-done:
	case <-time.After(settleLimit):
		e.dead = true
		e.noteLeak()
		return false
	}
	e.closed = true
	v.qClose = true
	e.settle()
	_, _, tclosed := queue.VerifLens(e.q, msgs[0].Topic)
	noObs := hlib.App("mkObs", hlib.List(nil), hlib.List(nil), hlib.List(nil))
	var okT, parkT, errOps []string
	var parked []*pendSend
	nok, npark, nerr := 0, 0, 0
	for i, m := range msgs {
		e.np++
		p := e.np
		term := func(out string) string {
			return hlib.App("OSend", n64(p), n64(op.C), n64(e.objOf(m)), "true", modeTerm(-1), out)
		}
		select {
		case r := <-chs[i]:
			if r.panicked {
				e.retry, e.dead = true, true
				return false
			}
			if r.err == nil {
				okT = append(okT, hlib.Pair(term("(Some SOk)"), noObs))
				v.status[op.O+i] = 2
				nok++
			} else {
				errOps = append(errOps, term("(Some "+sresTerm(r)+")"))
				nerr++
			}
		default:
			parkT = append(parkT, hlib.Pair(term("None"), noObs))
			parked = append(parked, &pendSend{p: p, ch: chs[i], slot: op.O + i, t: e.topicOf(m)})
			v.status[op.O+i] = 2
			npark++
		}
	}
	if tclosed || nok == 0 {
		// the topic was created before the loop, or every send came after the store: not the
		// interleaving this scenario is after
		e.retry, e.dead = true, true
		return false
	}
	e.impl = append(e.impl, fmt.Sprintf("queue.Close called; %d sends inside Close: %d accepted, %d parked, %d refused; topic open", len(msgs), nok, npark, nerr))
	e.terms = append(e.terms, hlib.Pair("OCloseQB", noObs))
	e.terms = append(e.terms, okT...)
	e.terms = append(e.terms, parkT...)
	e.pend = append(e.pend, parked...)
	e.nontriv = true
	if nerr == 0 {
		e.emit("OCloseQE", "queue.Close returned")
		return true
	}
	e.terms = append(e.terms, hlib.Pair("OCloseQE", noObs))
	for _, o := range errOps[:nerr-1] {
		e.terms = append(e.terms, hlib.Pair(o, noObs))
	}
	// the last refused send carries the observation
	e.emit(errOps[nerr-1], "queue.Close returned; refused sends")
	return true
}
