package main

// Scenario executor: runs one scripted scenario on the real queue, one API call
// after the other from a single orchestrating goroutine. Calls that may block run
// in a helper goroutine and count as blocked when they have not returned in 200 ms.

import (
	"fmt"
	"runtime"
	"strings"
	"sync/atomic"
	"time"

	"github.com/33cn/chain33/queue"
	"github.com/33cn/chain33/types"
	"verifharness/hlib"
)

const (
	shortTO     = 25 * time.Millisecond // timeout of timed sends / waits
	stillWait   = 3 * time.Second       // parked sends are looked at again this long after the last call
	recvCap     = 5
	settleLimit = 10 * time.Second
	timerLimit  = 10 * time.Second // a call with its own timer must return by itself
)

// Op is one scripted call (the replay format).
type Op struct {
	K     string `json:"k"` // new free sub send fill recv reply wait close closeq raceq
	C     int    `json:"c,omitempty"`
	T     int    `json:"t,omitempty"`
	O     int    `json:"o,omitempty"` // harness message slot (variable), not the pool object
	Hi    bool   `json:"hi,omitempty"`
	Mode  int    `json:"mode,omitempty"` // -1 forever, 0 now, 1 timed
	Timed bool   `json:"timed,omitempty"`
	N     int    `json:"n,omitempty"`
	Plain bool   `json:"plain,omitempty"` // queue.NewMessage instead of client.NewMessage
	Raw   bool   `json:"raw,omitempty"`   // queue.NewMessage(0, topic, 0, nil): looks like the close sentinel
	Over  bool   `json:"over,omitempty"`  // close: call it although a Close of this client has not returned
}

// Scenario is the replayable input.
type Scenario struct {
	Kind     string `json:"kind"`
	Hcap     int    `json:"hcap"` // 0 = package constants (no preset)
	Lcap     int    `json:"lcap"`
	NTopics  int    `json:"ntopics"`
	NClients int    `json:"nclients"`
	Fresh    int    `json:"fresh,omitempty"`  // further topics (numbers NTopics..) that are never preset
	Helper   int    `json:"helper,omitempty"` // unused preset topics: they make Queue.Close's locked loop long
	Ops      []Op   `json:"ops"`
}

type sendRes struct {
	err      error
	panicked bool
}

type pendSend struct {
	p    int
	ch   chan sendRes
	slot int
	t    int
}

type exec struct {
	sc      Scenario
	q       queue.Queue
	cl      []queue.Client
	subs    map[int][]int // client -> topics of its effective Subs
	objs    map[*queue.Message]int
	nobj    int
	slots   map[int]*queue.Message // harness variable -> message
	ids     map[int64]int          // real ID -> rank
	nid     int
	pend    []*pendSend
	np      int
	closeCh map[int]chan bool
	closed  bool // queue closed or a client closed: use the slow settle
	terms   []string
	impl    []string
	dead    bool // scenario must stop (a call we cannot continue after)
	nontriv bool
	leaked  int32
	retry   bool // the race op ended in an interleaving the scripted format cannot express: run again
}

func topicName(t int) string { return fmt.Sprintf("t%d", t) }

func newExec(sc Scenario) *exec {
	e := &exec{sc: sc, objs: map[*queue.Message]int{}, slots: map[int]*queue.Message{}, ids: map[int64]int{},
		closeCh: map[int]chan bool{}, subs: map[int][]int{}}
	e.q = queue.New("c36")
	if sc.Hcap > 0 {
		for t := 0; t < sc.NTopics; t++ {
			if !queue.VerifPresetTopic(e.q, topicName(t), sc.Hcap, sc.Lcap) {
				panic("preset failed")
			}
		}
	}
	for i := 0; i < sc.Helper; i++ {
		queue.VerifPresetTopic(e.q, fmt.Sprintf("helper%d", i), 1, 1)
	}
	for c := 0; c < sc.NClients; c++ {
		e.cl = append(e.cl, e.q.Client())
	}
	return e
}

func (e *exec) objOf(m *queue.Message) int {
	if i, ok := e.objs[m]; ok {
		return i
	}
	e.objs[m] = e.nobj
	e.nobj++
	return e.nobj - 1
}

func sresTerm(r sendRes) string {
	switch {
	case r.panicked:
		return "SOther"
	case r.err == nil:
		return "SOk"
	case r.err == queue.ErrIsQueueClosed:
		return "SErrClient"
	case r.err == types.ErrChannelClosed:
		return "SErrChan"
	case r.err == queue.ErrQueueChannelFull:
		return "SFull"
	case r.err == queue.ErrQueueTimeout:
		return "STimeout"
	}
	return "SOther"
}

func modeTerm(m int) string {
	switch m {
	case -1:
		return "MForever"
	case 0:
		return "MNow"
	}
	return "MTimed"
}

func modeDur(m int) time.Duration {
	switch m {
	case -1:
		return -1
	case 0:
		return 0
	}
	return shortTO
}

// lens reads (len high, len low) per topic and len recv per client.
func (e *exec) lens() ([][2]int, []int) {
	tl := make([][2]int, e.sc.NTopics+e.sc.Fresh)
	for t := range tl {
		h, l, _ := queue.VerifLens(e.q, topicName(t))
		tl[t] = [2]int{h, l}
	}
	cl := make([]int, len(e.cl))
	for c := range cl {
		cl[c] = len(e.cl[c].Recv())
	}
	return tl, cl
}

// collect gathers completions of blocked calls.
func (e *exec) collect(comps *[]string, human *[]string) bool {
	got := false
	keep := e.pend[:0]
	for _, p := range e.pend {
		select {
		case r := <-p.ch:
			*comps = append(*comps, hlib.App("CSend", hlib.N(uint64(p.p)), sresTerm(r)))
			*human = append(*human, fmt.Sprintf("send#%d->%s", p.p, sresTerm(r)))
			got = true
		default:
			keep = append(keep, p)
		}
	}
	e.pend = keep
	for c, ch := range e.closeCh {
		select {
		case <-ch:
			*comps = append(*comps, hlib.App("CClose", hlib.N(uint64(c))))
			*human = append(*human, fmt.Sprintf("close#%d returned", c))
			delete(e.closeCh, c)
			got = true
		default:
		}
	}
	return got
}

// allParked reports whether every goroutine of the process except the caller is parked
// (blocked on a channel, select, mutex, wait group, timer ...). The scripted scenarios run
// one after the other in this process, so this is exactly "the pump goroutines and all
// callers have come to rest" and does not depend on the machine's load.
var stackBuf = make([]byte, 4<<20)

var lastStackCost time.Duration

func allParked() bool {
	t0 := time.Now()
	n := runtime.Stack(stackBuf, true) // stops the world: do not do it back to back (see pollPause)
	lastStackCost = time.Since(t0)
	busy := 0
	for _, line := range strings.Split(string(stackBuf[:n]), "\n") {
		if !strings.HasPrefix(line, "goroutine ") {
			continue
		}
		i := strings.IndexByte(line, '[')
		if i < 0 {
			continue
		}
		st := line[i+1:]
		if strings.HasPrefix(st, "running") || strings.HasPrefix(st, "runnable") || strings.HasPrefix(st, "syscall") ||
			strings.HasPrefix(st, "preempted") || strings.HasPrefix(st, "copystack") {
			busy++
		}
	}
	return busy <= 1 // the caller itself
}

// stackHas reports whether some goroutine's stack contains the text.
func stackHas(text string) bool {
	n := runtime.Stack(stackBuf, true)
	return strings.Contains(string(stackBuf[:n]), text)
}

// quiesce waits until everything is parked (twice in a row, nothing completed in between).
func (e *exec) quiesce(comps, human *[]string) ([][2]int, []int) {
	start := time.Now()
	okCount := 0
	for okCount < 2 && time.Since(start) < settleLimit {
		runtime.Gosched()
		if e.collect(comps, human) {
			okCount = 0
			continue
		}
		if allParked() {
			okCount++
		} else {
			okCount = 0
		}
		pollPause()
	}
	e.collect(comps, human)
	return e.lens()
}

func (e *exec) observe() string {
	var comps, human []string
	ptl, pcl := e.quiesce(&comps, &human)
	tls := make([]string, len(ptl))
	for i, x := range ptl {
		tls[i] = hlib.Pair(hlib.N(uint64(x[0])), hlib.N(uint64(x[1])))
	}
	cls := make([]string, len(pcl))
	for i, x := range pcl {
		cls[i] = hlib.N(uint64(x))
	}
	e.impl[len(e.impl)-1] += fmt.Sprintf(" | %s lens=%v recv=%v", strings.Join(human, ","), ptl, pcl)
	return hlib.App("mkObs", hlib.List(comps), hlib.List(tls), hlib.List(cls))
}

func (e *exec) emit(opTerm, human string) {
	e.impl = append(e.impl, human)
	e.terms = append(e.terms, hlib.Pair(opTerm, e.observe()))
}

func (e *exec) noteLeak() { atomic.AddInt32(&e.leaked, 1) }

// pollPause: leave the other goroutines at least as much time as the last stack dump took.
func pollPause() {
	d := 3 * lastStackCost
	if d < 30*time.Microsecond {
		d = 30 * time.Microsecond
	}
	time.Sleep(d)
}

// cleanup releases what can be released of a finished scenario (pump goroutines, the
// queue's callback goroutine); calls that are parked for ever stay parked.
func (e *exec) cleanup() {
	for _, cl := range e.cl {
		cl := cl
		go func() {
			defer func() { _ = recover() }()
			cl.Close()
		}()
	}
	q := e.q
	go func() {
		defer func() { _ = recover() }()
		q.Close()
	}()
	// subscribers that stopped reading keep their pump parked on a full recv: drain
	for _, cl := range e.cl {
		cl := cl
		go func() {
			defer func() { _ = recover() }()
			for i := 0; i < 64; i++ {
				select {
				case _, ok := <-cl.Recv():
					if !ok {
						return
					}
				case <-time.After(50 * time.Millisecond):
					return
				}
			}
		}()
	}
}
