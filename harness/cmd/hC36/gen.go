package main

import "verifharness/hlib"

// fixed scenarios: the parked low-priority wait-forever sender that close must wake (fixed
// finding 1: before the repair of sendLowTimeout it stayed parked for ever) in several shapes,
// the stale reply through a recycled message (discipline violated), close behaviour.
func witnesses(thorough bool) []Scenario {
	var out []Scenario
	fillSend := func(kind string, h, l, nfill int, sub, drain, closeClient bool) Scenario {
		sc := Scenario{Kind: kind, Hcap: h, Lcap: l, NTopics: 1, NClients: 2, Ops: []Op{}}
		if sub {
			sc.Ops = append(sc.Ops, Op{K: "sub", C: 0, T: 0})
		}
		sc.Ops = append(sc.Ops, Op{K: "fill", C: 1, T: 0, N: nfill},
			Op{K: "new", C: 1, T: 0, O: 1}, Op{K: "send", C: 1, O: 1, Hi: false, Mode: -1})
		if closeClient {
			sc.Ops = append(sc.Ops, Op{K: "close", C: 0})
		}
		sc.Ops = append(sc.Ops, Op{K: "closeq"})
		if drain {
			for i := 0; i < 7; i++ {
				sc.Ops = append(sc.Ops, Op{K: "recv", C: 0})
			}
		}
		sc.Ops = append(sc.Ops, Op{K: "new", C: 1, T: 0, O: 2}, Op{K: "send", C: 1, O: 2, Hi: true, Mode: -1},
			Op{K: "new", C: 1, T: 0, O: 3}, Op{K: "send", C: 1, O: 3, Hi: false, Mode: -1})
		return sc
	}
	// no subscriber, low channel filled to capacity, one more Send(msg,false), Client.Close, Queue.Close
	out = append(out, fillSend("witness-low-woken", 2, 3, 3, false, false, true))
	// the same with the package's real capacities (64 / 40960)
	out = append(out, fillSend("witness-low-woken-realcaps", 0, 0, 40960, false, false, true))
	// subscriber that does not drain: the pump holds 1 + recv 5
	out = append(out, fillSend("witness-low-woken", 2, 3, 9, true, false, true))
	out = append(out, fillSend("witness-low-woken", 1, 2, 8, true, true, true))
	out = append(out, fillSend("witness-low-woken", 2, 2, 2, false, false, false))
	// the high-priority wait-forever sender is woken by close (selects on done)
	out = append(out, Scenario{Kind: "witness-high-woken", Hcap: 1, Lcap: 1, NTopics: 1, NClients: 2, Ops: []Op{
		{K: "sub", C: 0, T: 0},
		{K: "new", C: 1, O: 1}, {K: "send", C: 1, O: 1, Hi: true, Mode: -1},
		{K: "new", C: 1, O: 2}, {K: "send", C: 1, O: 2, Hi: true, Mode: -1},
		{K: "new", C: 1, O: 3}, {K: "send", C: 1, O: 3, Hi: true, Mode: -1},
		{K: "new", C: 1, O: 4}, {K: "send", C: 1, O: 4, Hi: true, Mode: -1},
		{K: "new", C: 1, O: 5}, {K: "send", C: 1, O: 5, Hi: true, Mode: -1},
		{K: "new", C: 1, O: 6}, {K: "send", C: 1, O: 6, Hi: true, Mode: -1},
		{K: "new", C: 1, O: 7}, {K: "send", C: 1, O: 7, Hi: true, Mode: -1},
		{K: "new", C: 1, O: 8}, {K: "send", C: 1, O: 8, Hi: true, Mode: -1}, // blocks: 5 recv + 1 held + 1 high
		{K: "closeq"},
		{K: "wait", C: 1, O: 1, Timed: false},
		{K: "new", C: 1, O: 9}, {K: "send", C: 1, O: 9, Hi: true, Mode: -1},
	}})
	// the same, woken by Client.Close of the subscriber (closeTopic); then Queue.Close
	{
		ops := []Op{{K: "sub", C: 0, T: 0}}
		for i := 1; i <= 8; i++ {
			ops = append(ops, Op{K: "new", C: 1, O: i}, Op{K: "send", C: 1, O: i, Hi: true, Mode: -1})
		}
		ops = append(ops, Op{K: "close", C: 0}, Op{K: "closeq"}, Op{K: "wait", C: 1, O: 2, Timed: false},
			Op{K: "recv", C: 0}, Op{K: "recv", C: 0})
		out = append(out, Scenario{Kind: "witness-high-woken", Hcap: 1, Lcap: 1, NTopics: 1, NClients: 2, Ops: ops})
	}
	// Close of a client that never subscribed closes it (fixed finding 2): its sends fail, its
	// wait returns, its recv channel is closed, a second Close and a late Sub do nothing
	out = append(out, Scenario{Kind: "witness-close-unsubscribed", Hcap: 3, Lcap: 2, NTopics: 1, NClients: 2, Ops: []Op{
		{K: "close", C: 0},
		{K: "new", C: 0, O: 1}, {K: "send", C: 0, O: 1, Hi: true, Mode: -1},
		{K: "wait", C: 0, O: 1, Timed: false},
		{K: "recv", C: 0},
		{K: "close", C: 0},
		{K: "sub", C: 0, T: 0},
		{K: "new", C: 0, O: 2}, {K: "send", C: 0, O: 2, Hi: false, Mode: -1},
		{K: "new", C: 1, O: 3}, {K: "send", C: 1, O: 3, Hi: true, Mode: 0},
		{K: "recv", C: 0},
		{K: "closeq"},
		{K: "new", C: 1, O: 4}, {K: "send", C: 1, O: 4, Hi: true, Mode: -1},
	}})
	// request / reply round trip, message recycled correctly
	out = append(out, Scenario{Kind: "witness-roundtrip", Hcap: 2, Lcap: 2, NTopics: 1, NClients: 2, Ops: []Op{
		{K: "sub", C: 0, T: 0},
		{K: "new", C: 1, O: 1}, {K: "send", C: 1, O: 1, Hi: true, Mode: -1},
		{K: "recv", C: 0}, {K: "reply", N: 0}, {K: "wait", C: 1, O: 1, Timed: true}, {K: "free", C: 1, O: 1},
		{K: "new", C: 1, O: 2}, {K: "send", C: 1, O: 2, Hi: true, Mode: -1},
		{K: "recv", C: 0}, {K: "reply", N: 1}, {K: "wait", C: 1, O: 2, Timed: false},
		{K: "close", C: 0}, {K: "new", C: 0, O: 3}, {K: "send", C: 0, O: 3, Hi: true, Mode: -1},
		{K: "wait", C: 0, O: 3, Timed: false},
	}})
	// discipline violated: wait times out, the message is freed and recycled while the
	// responder still holds it; the late reply reaches the next user of the object
	out = append(out, Scenario{Kind: "undisciplined", Hcap: 2, Lcap: 2, NTopics: 1, NClients: 2, Ops: []Op{
		{K: "sub", C: 0, T: 0},
		{K: "new", C: 1, O: 1}, {K: "send", C: 1, O: 1, Hi: true, Mode: -1},
		{K: "recv", C: 0}, {K: "wait", C: 1, O: 1, Timed: true}, {K: "free", C: 1, O: 1},
		{K: "new", C: 1, O: 2}, {K: "send", C: 1, O: 2, Hi: true, Mode: -1},
		{K: "reply", N: 0}, {K: "wait", C: 1, O: 2, Timed: true},
	}})
	out = append(out, extWitnesses()...)
	return out
}

// scenarios of the extension: several subscriptions of one client, the sentinel look-alike,
// overlapping Close calls, topics created while / after Queue.Close runs.
func extWitnesses() []Scenario {
	var out []Scenario
	// finding 3: client 0 subscribes to t0 and t1 and is closed: only t1 (the last Sub) is closed.
	// A request to t0 is accepted and its wait blocks for ever.
	out = append(out, Scenario{Kind: "witness-two-topics", Hcap: 2, Lcap: 2, NTopics: 2, NClients: 2, Ops: []Op{
		{K: "sub", C: 0, T: 0}, {K: "sub", C: 0, T: 1},
		{K: "new", C: 1, T: 0, O: 1}, {K: "send", C: 1, O: 1, Hi: true, Mode: -1},
		{K: "new", C: 1, T: 1, O: 2}, {K: "send", C: 1, O: 2, Hi: false, Mode: -1},
		{K: "recv", C: 0}, {K: "recv", C: 0}, {K: "recv", C: 0},
		{K: "reply", N: 0}, {K: "wait", C: 1, O: 1, Timed: false},
		{K: "close", C: 0},
		{K: "new", C: 1, T: 1, O: 3}, {K: "send", C: 1, O: 3, Hi: true, Mode: -1},
		{K: "new", C: 1, T: 0, O: 4}, {K: "send", C: 1, O: 4, Hi: true, Mode: -1},
		{K: "wait", C: 1, O: 4, Timed: true},
		{K: "wait", C: 1, O: 4, Timed: false},
	}})
	// the same shape inside the guard: both Subs name the same topic, or one Sub only
	out = append(out, Scenario{Kind: "witness-one-topic-twice", Hcap: 2, Lcap: 2, NTopics: 2, NClients: 2, Ops: []Op{
		{K: "sub", C: 0, T: 1}, {K: "sub", C: 0, T: 1},
		{K: "new", C: 1, T: 1, O: 1}, {K: "send", C: 1, O: 1, Hi: true, Mode: -1},
		{K: "recv", C: 0}, {K: "reply", N: 0}, {K: "wait", C: 1, O: 1, Timed: false},
		{K: "close", C: 0},
		{K: "new", C: 1, T: 1, O: 2}, {K: "send", C: 1, O: 2, Hi: true, Mode: -1},
		{K: "wait", C: 1, O: 2, Timed: false},
	}})
	// two subscriptions at work: both pumps deliver into the one recv channel
	out = append(out, Scenario{Kind: "witness-two-topics-roundtrip", Hcap: 2, Lcap: 2, NTopics: 2, NClients: 2, Ops: []Op{
		{K: "sub", C: 0, T: 0}, {K: "sub", C: 0, T: 1},
		{K: "new", C: 1, T: 1, O: 1}, {K: "send", C: 1, O: 1, Hi: true, Mode: -1},
		{K: "recv", C: 0}, {K: "reply", N: 0}, {K: "wait", C: 1, O: 1, Timed: false}, {K: "free", C: 1, O: 1},
		{K: "new", C: 1, T: 0, O: 2}, {K: "send", C: 1, O: 2, Hi: false, Mode: -1},
		{K: "recv", C: 0}, {K: "reply", N: 1}, {K: "wait", C: 1, O: 2, Timed: true},
		{K: "recv", C: 0},
	}})
	// finding 4: the subscriber does not read (recv full, the pump holds one more), the first
	// Close waits in wg.Wait(), a second Close of the same client panics in close(client.done)
	{
		ops := []Op{{K: "sub", C: 0, T: 0}}
		for i := 1; i <= 6; i++ {
			ops = append(ops, Op{K: "new", C: 1, T: 0, O: i}, Op{K: "send", C: 1, O: i, Hi: true, Mode: 0})
		}
		ops = append(ops, Op{K: "close", C: 0}, Op{K: "close", C: 0, Over: true},
			Op{K: "recv", C: 0}, Op{K: "recv", C: 0}, Op{K: "close", C: 0},
			Op{K: "new", C: 0, T: 0, O: 7}, Op{K: "send", C: 0, O: 7, Hi: true, Mode: -1})
		out = append(out, Scenario{Kind: "witness-overlapping-close", Hcap: 2, Lcap: 2, NTopics: 1, NClients: 2, Ops: ops})
	}
	// finding 5: a message with ID 0, Ty 0, nil Data stops the pump; the next request is lost
	out = append(out, Scenario{Kind: "witness-lookalike", Hcap: 2, Lcap: 2, NTopics: 1, NClients: 2, Ops: []Op{
		{K: "sub", C: 0, T: 0},
		{K: "new", C: 1, T: 0, O: 1}, {K: "send", C: 1, O: 1, Hi: true, Mode: -1},
		{K: "recv", C: 0}, {K: "reply", N: 0}, {K: "wait", C: 1, O: 1, Timed: false},
		{K: "new", C: 1, T: 0, O: 2, Raw: true}, {K: "send", C: 1, O: 2, Hi: true, Mode: -1},
		{K: "new", C: 1, T: 0, O: 3}, {K: "send", C: 1, O: 3, Hi: true, Mode: -1},
		{K: "recv", C: 0},
		{K: "wait", C: 1, O: 3, Timed: true},
		{K: "wait", C: 1, O: 3, Timed: false},
	}})
	out = append(out, Scenario{Kind: "witness-lookalike", Hcap: 3, Lcap: 3, NTopics: 1, NClients: 2, Ops: []Op{
		{K: "sub", C: 0, T: 0},
		{K: "new", C: 1, T: 0, O: 1, Raw: true}, {K: "send", C: 1, O: 1, Hi: false, Mode: 0},
		{K: "new", C: 1, T: 0, O: 2}, {K: "send", C: 1, O: 2, Hi: false, Mode: -1},
		{K: "recv", C: 0},
	}})
	// finding 6, no race needed: a Wait that names a topic for the first time after Queue.Close
	// makes chanSub create it, open, inside the closed queue, and blocks for ever
	out = append(out, Scenario{Kind: "witness-late-topic", Hcap: 2, Lcap: 2, NTopics: 1, NClients: 2, Fresh: 1, Ops: []Op{
		{K: "sub", C: 0, T: 0},
		{K: "new", C: 1, T: 0, O: 1}, {K: "send", C: 1, O: 1, Hi: true, Mode: -1},
		{K: "new", C: 1, T: 1, O: 2},
		{K: "closeq"},
		{K: "wait", C: 1, O: 1, Timed: false},
		{K: "send", C: 1, O: 2, Hi: true, Mode: -1},
		{K: "wait", C: 1, O: 2, Timed: true},
		{K: "wait", C: 1, O: 2, Timed: false},
	}})
	// finding 6, the race: a Send to a new topic while Queue.Close is inside its locked loop
	for _, hi := range []bool{true, false} {
		out = append(out, Scenario{Kind: "witness-race-queue-close", Hcap: 0, Lcap: 0, NTopics: 1, NClients: 2, Fresh: 1, Helper: 60000, Ops: []Op{
			{K: "sub", C: 0, T: 0},
			{K: "new", C: 1, T: 0, O: 1}, {K: "send", C: 1, O: 1, Hi: true, Mode: -1},
			{K: "new", C: 1, T: 1, O: 2},
			{K: "raceq", C: 1, O: 2, Hi: hi},
			{K: "wait", C: 1, O: 1, Timed: false},
			{K: "new", C: 1, T: 1, O: 3}, {K: "send", C: 1, O: 3, Hi: true, Mode: -1},
			{K: "wait", C: 1, O: 2, Timed: true},
			{K: "wait", C: 1, O: 2, Timed: false},
		}})
	}
	// finding 6 with parked sends: 66 wait-forever sends to a new topic inside Queue.Close's
	// window: 64 fill the new open topic, 2 park and are never woken (the queue is closed)
	{
		ops := []Op{{K: "sub", C: 0, T: 0}}
		for i := 0; i < 66; i++ {
			ops = append(ops, Op{K: "new", C: 1, T: 1, O: 10 + i})
		}
		ops = append(ops, Op{K: "raceq", C: 1, O: 10, N: 66},
			Op{K: "new", C: 1, T: 1, O: 90}, Op{K: "send", C: 1, O: 90, Hi: true, Mode: -1})
		out = append(out, Scenario{Kind: "witness-race-queue-close-park", Hcap: 0, Lcap: 0, NTopics: 1, NClients: 2, Fresh: 1, Helper: 60000, Ops: ops})
	}
	return out
}

type gen struct {
	sc    Scenario
	r     *hlib.Rng
	queue []Op
	slot  int
	step  int
	subs  []int // clients that subscribed
}

func newGen(sc Scenario, r *hlib.Rng) *gen {
	g := &gen{sc: sc, r: r}
	switch sc.Kind {
	case "multisub":
		// client 0 subscribes to both topics (t1 last); nobody else subscribes
		g.queue = append(g.queue, Op{K: "sub", C: 0, T: 0}, Op{K: "sub", C: 0, T: 1})
		g.subs = append(g.subs, 0)
		return g
	case "overlap":
		// a subscriber that does not read: recv fills up, the pump parks with one more message
		g.queue = append(g.queue, Op{K: "sub", C: 0, T: 0}, Op{K: "fill", C: 1, T: 0, N: 6})
		g.subs = append(g.subs, 0)
		return g
	}
	for t := 0; t < sc.NTopics && t < sc.NClients-1; t++ {
		if r.Chance(5, 6) {
			g.queue = append(g.queue, Op{K: "sub", C: t, T: t})
			g.subs = append(g.subs, t)
		}
	}
	return g
}

func (g *gen) slotsWith(v *view, want ...int) []int {
	var out []int
	for s := 1; s <= g.slot; s++ {
		for _, w := range want {
			if v.status[s] == w {
				out = append(out, s)
			}
		}
	}
	return out
}

func (g *gen) next(e *exec, v *view) (Op, bool) {
	if len(g.queue) > 0 {
		op := g.queue[0]
		g.queue = g.queue[1:]
		return op, true
	}
	g.step++
	r := g.r
	kind := g.sc.Kind
	for try := 0; try < 20; try++ {
		x := r.Intn(100)
		switch {
		case x < 34: // new + send
			g.slot++
			c := r.Intn(g.sc.NClients)
			t := r.Intn(g.sc.NTopics)
			hi := r.Chance(3, 5)
			mode := []int{-1, -1, 0, 1}[r.Intn(4)]
			if mode == -1 && len(e.pend) >= 2 {
				mode = r.Intn(2)
			}
			g.queue = append(g.queue, Op{K: "send", C: c, O: g.slot, Hi: hi, Mode: mode})
			if kind == "raw" && r.Chance(1, 5) {
				return Op{K: "new", C: c, T: t, O: g.slot, Raw: true}, true
			}
			return Op{K: "new", C: c, T: t, O: g.slot, Plain: r.Chance(1, 6)}, true
		case x < 54: // recv
			if len(g.subs) == 0 {
				continue
			}
			return Op{K: "recv", C: hlib.Pick(r, g.subs)}, true
		case x < 66: // reply
			var cand []int
			for i, rc := range v.recvd {
				if !rc.replied {
					cand = append(cand, i)
				}
			}
			if len(cand) == 0 {
				continue
			}
			return Op{K: "reply", N: hlib.Pick(r, cand)}, true
		case x < 78: // wait
			cand := g.slotsWith(v, 2)
			if len(cand) == 0 {
				continue
			}
			timed := true
			if (v.qClose || len(v.clClose) > 0) && r.Chance(1, 4) {
				timed = false
			}
			return Op{K: "wait", C: r.Intn(g.sc.NClients), O: hlib.Pick(r, cand), Timed: timed}, true
		case x < 88: // free
			cand := g.slotsWith(v, 1, 3)
			if kind == "undisciplined" {
				cand = g.slotsWith(v, 1, 2, 3)
			}
			if len(cand) == 0 {
				continue
			}
			return Op{K: "free", C: r.Intn(g.sc.NClients), O: hlib.Pick(r, cand)}, true
		case x < 92: // new only
			g.slot++
			return Op{K: "new", C: r.Intn(g.sc.NClients), T: r.Intn(g.sc.NTopics), O: g.slot}, true
		case x < 97: // close a client
			if g.step < 5 && kind != "overlap" {
				continue
			}
			// any client, subscribed or not (fixed finding 2: Close of a client that never
			// subscribed used to do nothing)
			if kind == "overlap" {
				// mostly the subscriber; when its Close is still waiting, call Close again
				c := 0
				if r.Chance(1, 4) {
					c = r.Intn(g.sc.NClients)
				}
				_, busy := e.closeCh[c]
				return Op{K: "close", C: c, Over: busy}, true
			}
			return Op{K: "close", C: r.Intn(g.sc.NClients)}, true
		default:
			if g.step < 6 || v.qClose {
				continue
			}
			return Op{K: "closeq"}, true
		}
	}
	return Op{}, false
}
