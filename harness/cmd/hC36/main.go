// hC36: correspondence harness for property C36 (message bus).
// (a) scripted scenarios on the real queue, compared call by call with the LTS;
// (b) concurrent runs with a property monitor (a test, see conc.go).
package main

import (
	"fmt"
	"os"
	"sync/atomic"
	"time"

	"github.com/33cn/chain33/queue"
	"verifharness/hlib"
)

var plainID int64 = 1 << 40

func nextPlainID() int64 { return atomic.AddInt64(&plainID, 1) }

type result struct {
	sc      Scenario
	term    string
	impl    []string
	nontriv bool
}

type partial struct {
	sc   Scenario
	e    *exec
	v    *view
	done []Op
}

// runScenario executes sc.Ops if given, else generates ops online with rng. The sends
// still parked are looked at later (finalize), 3 s after the last call when the queue was closed.
func runScenario(sc Scenario, rng *hlib.Rng, maxOps int) partial {
	e := newExec(sc)
	v := &view{status: map[int]int{}, clClose: map[int]bool{}}
	var done []Op
	if sc.Ops != nil {
		for try := 0; ; try++ {
			for _, op := range sc.Ops {
				if e.dead {
					break
				}
				if e.do(op, v) {
					done = append(done, op)
				}
			}
			if !e.retry || try >= 8 {
				break
			}
			// the race op ended in an interleaving the scripted format cannot express: once more
			e.cleanup()
			e = newExec(sc)
			v = &view{status: map[int]int{}, clClose: map[int]bool{}}
			done = nil
		}
	} else {
		g := newGen(sc, rng)
		for i := 0; i < maxOps && !e.dead; i++ {
			op, ok := g.next(e, v)
			if !ok {
				break
			}
			if e.do(op, v) {
				done = append(done, op)
			}
		}
	}
	return partial{sc: sc, e: e, v: v, done: done}
}

func (p partial) needsWait() bool { return p.v.qClose && len(p.e.pend) > 0 }

func finalize(p partial) result {
	e, sc := p.e, p.sc
	still := e.finish(p.v)
	st := make([]string, len(still))
	for i, x := range still {
		st[i] = hlib.N(uint64(x))
	}
	h, l := sc.Hcap, sc.Lcap
	if h == 0 {
		h, l = 64, 40960
	}
	npre := 0
	if sc.Hcap > 0 {
		npre = sc.NTopics
	}
	term := hlib.App("Scripted", hlib.App("mkCaps", n64(h), n64(l), n64(recvCap)), n64(npre), hlib.List(e.terms), hlib.List(st))
	sc.Ops = p.done
	e.impl = append(e.impl, fmt.Sprintf("still blocked: %v", still))
	e.cleanup()
	return result{sc: sc, term: term, impl: e.impl, nontriv: e.nontriv}
}

// runAll runs the scenarios one after the other. A scenario whose queue was closed while
// sends were parked is finalized at the end, at least 3 s after its last call; all others
// at once (their goroutines are released so that the process stays small).
func runAll(jobs []func() partial) []result {
	out := make([]result, len(jobs))
	type late struct {
		i int
		p partial
		t time.Time
	}
	var lates []late
	for i := range jobs {
		t0 := time.Now()
		p := jobs[i]()
		kindTime[p.sc.Kind] += time.Since(t0)
		if p.needsWait() {
			lates = append(lates, late{i, p, time.Now()})
		} else {
			out[i] = finalize(p)
		}
	}
	for _, l := range lates {
		if d := stillWait - time.Since(l.t); d > 0 {
			time.Sleep(d)
		}
		out[l.i] = finalize(l.p)
	}
	return out
}

var kindTime = map[string]time.Duration{}

func main() {
	o := hlib.ParseFlags()
	queue.DisableLog()
	out := hlib.NewOut(o.OutDir)
	defer out.Close()

	if o.Replay != "" {
		var sc Scenario
		if err := hlib.ReplayInput(o.Replay, &sc); err != nil {
			fmt.Println("replay:", err)
			os.Exit(2)
		}
		if sc.Kind == "concurrent" {
			runConcurrent(out, hlib.NewRng(uint64(sc.NClients)), 1, &sc)
			return
		}
		r := runAll([]func() partial{func() partial { return runScenario(sc, nil, 0) }})[0]
		out.Emit(sc.Kind, r.nontriv, r.term, r.sc, r.impl)
		return
	}

	rng := hlib.NewRng(o.Seed)
	if o.Extra == "conc" { // concurrent runs only (used with the race-detector build)
		n := 25
		if o.Thorough() {
			n = 250
		}
		runConcurrent(out, rng.Fork(), n, nil)
		fmt.Printf("hC36 conc-only: %d cases\n", out.Count())
		return
	}
	var jobs []func() partial
	add := func(sc Scenario, r *hlib.Rng, maxOps int) {
		jobs = append(jobs, func() partial { return runScenario(sc, r, maxOps) })
	}
	for _, sc := range witnesses(o.Thorough()) {
		add(sc, nil, 0)
	}
	nGuard, nUnres, nUndis := 120, 70, 40
	if o.Thorough() {
		nGuard, nUnres, nUndis = 1500, 900, 500
	}
	mk := func(kind string, n int) {
		for i := 0; i < n; i++ {
			r := rng.Fork()
			sc := Scenario{Kind: kind, Hcap: r.Range(1, 3), Lcap: r.Range(1, 4), NTopics: r.Range(1, 2), NClients: r.Range(2, 4)}
			maxOps := r.Range(6, 14)
			if i > n/3 {
				maxOps = r.Range(12, 40)
			}
			add(sc, r, maxOps)
		}
	}
	mk("disciplined", nGuard+nUnres) // inside every guard: every spec failure is a violation
	mk("undisciplined", nUndis)
	// streams of the extension; each may meet one open finding (its signature gives the code)
	nExt := 30
	if o.Thorough() {
		nExt = 200
	}
	mkx := func(kind string, n, ntopics int) {
		for i := 0; i < n; i++ {
			r := rng.Fork()
			sc := Scenario{Kind: kind, Hcap: r.Range(1, 3), Lcap: r.Range(1, 4), NTopics: ntopics, NClients: r.Range(2, 3)}
			add(sc, r, r.Range(10, 32))
		}
	}
	mkx("multisub", nExt, 2) // one client subscribed to two topics (finding 3)
	mkx("raw", nExt, 1)      // sentinel look-alikes among the requests (finding 5)
	mkx("overlap", nExt, 1)  // Close called again while a Close of the same client waits (finding 4)

	// one scenario after the other: "at rest" is judged from the states of all goroutines
	results := runAll(jobs)
	for _, r := range results {
		out.Emit(r.sc.Kind, r.nontriv, r.term, r.sc, r.impl)
	}
	nconc := 30
	if o.Thorough() {
		nconc = 400
	}
	t0 := time.Now()
	runConcurrent(out, rng.Fork(), nconc, nil)
	kindTime["concurrent"] = time.Since(t0)
	fmt.Printf("hC36: %d cases; seconds per stream:", out.Count())
	for k, d := range kindTime {
		if d > 500*time.Millisecond {
			fmt.Printf(" %s=%.1f", k, d.Seconds())
		}
	}
	fmt.Println()
}
