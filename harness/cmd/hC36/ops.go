package main

import (
	"fmt"
	"runtime"
	"time"

	"github.com/33cn/chain33/queue"
	"github.com/33cn/chain33/types"
	"verifharness/hlib"
)

type rcv struct {
	c, obj, id int
	realID     int64
	msg        *queue.Message
	replied    bool
}

// state the online generator may look at (API-level knowledge only)
type view struct {
	recvd   []rcv
	status  map[int]int // slot -> 0 free/unknown, 1 new, 2 sent, 3 reply taken
	clClose map[int]bool
	qClose  bool
}

func n64(i int) string { return hlib.N(uint64(i)) }

// do executes one op; it returns false when the op does not apply (skipped).
func (e *exec) do(op Op, v *view) bool {
	switch op.K {
	case "new":
		var m *queue.Message
		if op.Raw {
			// ID 0, Ty 0, nil Data: what isEnd takes for the close sentinel
			m = queue.NewMessage(0, topicName(op.T), 0, nil)
			o := e.objOf(m)
			e.slots[op.O] = m
			v.status[op.O] = 1
			e.emit(hlib.App("ONewRaw", n64(o), n64(op.T)), fmt.Sprintf("newraw slot%d -> obj%d", op.O, o))
			return true
		}
		if op.Plain {
			m = queue.NewMessage(nextPlainID(), topicName(op.T), 1, "req")
		} else {
			m = e.cl[op.C].NewMessage(topicName(op.T), 1, "req")
		}
		o := e.objOf(m)
		e.nid++
		rank := e.nid
		if _, dup := e.ids[m.ID]; dup {
			rank = 0 // an ID handed out twice: the model will refuse
		}
		e.ids[m.ID] = rank
		e.slots[op.O] = m
		v.status[op.O] = 1
		e.emit(hlib.App("ONew", n64(o), n64(op.T), n64(rank)), fmt.Sprintf("new slot%d -> obj%d id%d", op.O, o, rank))
	case "free":
		m := e.slots[op.O]
		if m == nil {
			return false
		}
		e.cl[op.C].FreeMessage(m)
		v.status[op.O] = 0
		e.emit(hlib.App("OFree", n64(e.objOf(m))), fmt.Sprintf("free slot%d", op.O))
	case "sub":
		e.cl[op.C].Sub(topicName(op.T))
		if _, closing := e.closeCh[op.C]; !closing && !v.clClose[op.C] {
			e.subs[op.C] = append(e.subs[op.C], op.T) // (Sub on a closing / closed client does nothing)
		}
		e.emit(hlib.App("OSub", n64(op.C), n64(op.T)), fmt.Sprintf("sub c%d t%d", op.C, op.T))
	case "send":
		m := e.slots[op.O]
		if m == nil {
			return false
		}
		e.np++
		p := e.np
		ch := make(chan sendRes, 1)
		cl := e.cl[op.C]
		go func() {
			defer func() {
				if r := recover(); r != nil {
					ch <- sendRes{panicked: true}
				}
			}()
			ch <- sendRes{err: cl.SendTimeout(m, op.Hi, modeDur(op.Mode))}
		}()
		out := "None"
		hum := "BLOCKED"
		if r, ok := awaitCall(e, ch, op.Mode > 0); ok {
			out = "(Some " + sresTerm(r) + ")"
			hum = sresTerm(r)
			if r.err == nil && !r.panicked {
				v.status[op.O] = 2
				e.nontriv = true
			}
		} else {
			e.pend = append(e.pend, &pendSend{p: p, ch: ch, slot: op.O, t: e.topicOf(m)})
			v.status[op.O] = 2
		}
		e.emit(hlib.App("OSend", n64(p), n64(op.C), n64(e.objOf(m)), hlib.Bool(op.Hi), modeTerm(op.Mode), out),
			fmt.Sprintf("send#%d c%d slot%d hi=%v mode=%d -> %s", p, op.C, op.O, op.Hi, op.Mode, hum))
		if hum == "SOther" {
			e.panicked(1)
		}
	case "fill":
		// n x (NewMessage; SendTimeout(msg,false,0)); every send must answer nil
		o0, i0 := e.nobj, e.nid+1
		okAll := true
		for k := 0; k < op.N; k++ {
			m := queue.NewMessage(nextPlainID(), topicName(op.T), 1, "fill")
			if e.objOf(m) != o0+k {
				okAll = false
			}
			e.nid++
			e.ids[m.ID] = e.nid
			if e.hasSub(op.T) {
				var a, b []string
				e.quiesce(&a, &b)
			}
			if err := e.cl[op.C].SendTimeout(m, false, 0); err != nil {
				okAll = false
			}
		}
		n := op.N
		if !okAll {
			n = op.N + 1 // the model will refuse: reported as disagreement
		}
		e.nontriv = true
		e.emit(hlib.App("OFill", n64(op.C), n64(op.T), n64(o0), n64(i0), n64(n)), fmt.Sprintf("fill c%d t%d n=%d ok=%v", op.C, op.T, op.N, okAll))
	case "recv":
		out := "None"
		hum := "empty"
		select {
		case m, ok := <-e.cl[op.C].Recv():
			if !ok {
				out, hum = "(Some None)", "closed"
			} else {
				o := e.objOf(m)
				id := e.ids[m.ID]
				v.recvd = append(v.recvd, rcv{c: op.C, obj: o, id: id, realID: m.ID, msg: m})
				out = "(Some (Some " + hlib.Pair(n64(o), n64(id)) + "))"
				hum = fmt.Sprintf("obj%d id%d", o, id)
			}
		default:
		}
		e.emit(hlib.App("ORecv", n64(op.C), out), fmt.Sprintf("recv c%d -> %s", op.C, hum))
	case "reply":
		if op.N >= len(v.recvd) || v.recvd[op.N].replied {
			return false
		}
		r := &v.recvd[op.N]
		r.replied = true
		done := make(chan struct{})
		pan := make(chan struct{}, 1)
		go func() {
			defer func() {
				if x := recover(); x != nil {
					pan <- struct{}{}
				}
			}()
			// the reply names the request the responder read from Recv
			r.msg.Reply(queue.NewMessage(nextPlainID(), "", 2, r.realID))
			close(done)
		}()
		ret := true
		e.settle()
		select {
		case <-pan:
			e.emit(hlib.App("OReply", n64(r.c), n64(r.obj), n64(r.id), "true"), "reply PANIC")
			e.panicked(4)
			return true
		case <-done:
		default:
			ret = false
			e.dead = true
			e.noteLeak()
		}
		e.emit(hlib.App("OReply", n64(r.c), n64(r.obj), n64(r.id), hlib.Bool(ret)), fmt.Sprintf("reply c%d obj%d id%d -> ret=%v", r.c, r.obj, r.id, ret))
	case "wait":
		m := e.slots[op.O]
		if m == nil {
			return false
		}
		type wr struct {
			m   *queue.Message
			err error
		}
		ch := make(chan wr, 1)
		cl := e.cl[op.C]
		to := time.Duration(-1)
		if op.Timed {
			to = shortTO
		}
		pan := make(chan struct{}, 1)
		go func() {
			defer func() {
				if x := recover(); x != nil {
					pan <- struct{}{}
				}
			}()
			r, err := cl.WaitTimeout(m, to)
			ch <- wr{r, err}
		}()
		out, hum := "None", "BLOCKED"
		e.settle()
		tmo := make(chan time.Time) // never fires: not returned although everything is parked = blocked
		var tm <-chan time.Time = tmo
		if op.Timed {
			tm = time.After(timerLimit) // the call has a timer: it must come back by itself
		} else {
			select {
			case r := <-ch:
				ch <- r // put it back for the select below
			case x := <-pan:
				pan <- x
			default:
				c0 := make(chan time.Time)
				close(c0)
				tm = c0
			}
		}
		select {
		case <-pan:
			e.panicked(2)
			return true
		case r := <-ch:
			switch {
			case r.err == queue.ErrQueueTimeout:
				out, hum = "(Some WTimeout)", "timeout"
			case r.err == queue.ErrIsQueueClosed:
				out, hum = "(Some WClient)", "ErrIsQueueClosed"
			case r.m == nil && r.err == types.ErrChannelClosed:
				out, hum = "(Some WChan)", "ErrChannelClosed"
			case r.m != nil && r.err == types.ErrChannelClosed:
				out, hum = "(Some (WGot RClosed))", "reply(ErrChannelClosed)"
				if v.status[op.O] == 2 {
					v.status[op.O] = 3
				}
			case r.m != nil && r.err == nil:
				named := 0
				if rid, ok := r.m.Data.(int64); ok {
					named = e.ids[rid]
				}
				out = "(Some (WGot (RFor " + n64(named) + ")))"
				hum = fmt.Sprintf("reply for id%d", named)
				if v.status[op.O] == 2 {
					v.status[op.O] = 3
				}
				e.nontriv = true
			default:
				out, hum = "(Some (WGot (RFor 0%N)))", fmt.Sprintf("unexpected %v %v", r.m, r.err)
			}
		case <-tm:
			e.dead = true
			e.noteLeak()
		}
		e.emit(hlib.App("OWait", n64(op.C), n64(e.objOf(m)), hlib.Bool(op.Timed), out), fmt.Sprintf("wait c%d slot%d timed=%v -> %s", op.C, op.O, op.Timed, hum))
	case "close":
		_, busy := e.closeCh[op.C]
		if busy && !op.Over {
			return false
		}
		ch := make(chan bool, 1)
		cl := e.cl[op.C]
		pan := make(chan string, 1)
		go func() {
			defer func() {
				if x := recover(); x != nil {
					pan <- fmt.Sprint(x)
				}
			}()
			cl.Close()
			ch <- true
		}()
		ret := true
		e.settle()
		select {
		case what := <-pan:
			if busy && what == "close of closed channel" {
				// the overlapping Close crashed in close(client.done); recovered here, the scenario goes on
				e.emit(hlib.App("OClosePanic", n64(op.C)), fmt.Sprintf("close c%d (overlapping) -> PANIC %s", op.C, what))
				return true
			}
			e.panicked(3)
			return true
		case <-ch:
			v.clClose[op.C] = true
		default:
			ret = false
			if busy {
				// a second Close that neither returned nor crashed: the scripted format has no word for it
				e.dead = true
				e.noteLeak()
			} else {
				e.closeCh[op.C] = ch
			}
		}
		e.emit(hlib.App("OClose", n64(op.C), hlib.Bool(ret)), fmt.Sprintf("close c%d -> ret=%v", op.C, ret))
	case "closeq":
		e.q.Close()
		e.closed = true
		v.qClose = true
		e.emit("OCloseQ", "queue.Close")
	case "raceq":
		// Queue.Close in one goroutine; as soon as it is inside its locked loop over the topics
		// (made long by the helper topics) this goroutine sends slot O. The outcome is written as
		// the interleaving of [Queue.Close called] / [send] / [Queue.Close returned] that explains it.
		if op.N > 0 {
			return e.raceMany(op, v)
		}
		m := e.slots[op.O]
		if m == nil {
			return false
		}
		done := make(chan struct{})
		q := e.q
		go func() {
			defer func() { _ = recover() }()
			q.Close()
			close(done)
		}()
		t0 := time.Now()
		for !stackHas("(*queue).Close.func1") && time.Since(t0) < 2*time.Second {
		}
		sch := make(chan sendRes, 1)
		cl := e.cl[op.C]
		go func() {
			defer func() {
				if r := recover(); r != nil {
					sch <- sendRes{panicked: true}
				}
			}()
			sch <- sendRes{err: cl.SendTimeout(m, op.Hi, -1)}
		}()
		select {
		case <-done:
		case <-time.After(settleLimit):
			e.dead = true
			e.noteLeak()
			return false
		}
		e.closed = true
		v.qClose = true
		r, returned := awaitCall(e, sch, false)
		_, _, tclosed := queue.VerifLens(e.q, m.Topic)
		e.np++
		p := e.np
		noObs := hlib.App("mkObs", hlib.List(nil), hlib.List(nil), hlib.List(nil))
		sendTerm := func(out string) string {
			return hlib.App("OSend", n64(p), n64(op.C), n64(e.objOf(m)), hlib.Bool(op.Hi), modeTerm(-1), out)
		}
		switch {
		case returned && r.err == nil && !r.panicked && !tclosed:
			// the send read isClose = 0, reached chanSub after the loop and created the topic
			e.impl = append(e.impl, "queue.Close called", fmt.Sprintf("send#%d c%d slot%d (inside Close) -> SOk, topic open", p, op.C, op.O))
			e.terms = append(e.terms, hlib.Pair("OCloseQB", noObs), hlib.Pair(sendTerm("(Some SOk)"), noObs))
			v.status[op.O] = 2
			e.nontriv = true
			e.emit("OCloseQE", "queue.Close returned")
		case returned && r.err == nil && !r.panicked && tclosed:
			// the send came first: the topic existed when the loop ran
			e.impl = append(e.impl, fmt.Sprintf("send#%d c%d slot%d (before Close) -> SOk", p, op.C, op.O))
			e.terms = append(e.terms, hlib.Pair(sendTerm("(Some SOk)"), noObs))
			v.status[op.O] = 2
			e.emit("OCloseQ", "queue.Close")
		case returned && !r.panicked && !tclosed:
			// the send came last
			e.impl = append(e.impl, "queue.Close")
			e.terms = append(e.terms, hlib.Pair("OCloseQ", noObs))
			e.emit(sendTerm("(Some "+sresTerm(r)+")"), fmt.Sprintf("send#%d c%d slot%d (after Close) -> %s", p, op.C, op.O, sresTerm(r)))
		default:
			// e.g. the topic was created before the loop and the send then saw done closed
			e.retry = true
			e.dead = true
		}
	default:
		return false
	}
	return true
}

// finish: sends still parked at the end (looked at 3 s after the last call when the queue
// was closed, see finalizeAll). A send that came back in the meantime although everything was
// parked is reported with a negative number: the model cannot explain it.
func (e *exec) finish(v *view) (still []int) {
	for _, p := range e.pend {
		select {
		case <-p.ch:
			still = append(still, -p.p)
		default:
			still = append(still, p.p)
		}
	}
	return still
}

func (e *exec) topicOf(m *queue.Message) int {
	var t int
	fmt.Sscanf(m.Topic, "t%d", &t)
	return t
}

func (e *exec) hasSub(t int) bool {
	for _, l := range e.subs {
		for _, x := range l {
			if x == t {
				return true
			}
		}
	}
	return false
}

// settle waits until every goroutine is parked, without collecting completions of parked
// calls (they stay in their channels and are collected by observe).
func (e *exec) settle() {
	start := time.Now()
	okCount := 0
	for okCount < 2 && time.Since(start) < settleLimit {
		runtime.Gosched()
		if allParked() {
			okCount++
		} else {
			okCount = 0
		}
		pollPause()
	}
}

// awaitCall: has the call returned once everything is parked? A call with its own timer is
// waited for (it must come back by itself).
func awaitCall(e *exec, ch chan sendRes, hasTimer bool) (sendRes, bool) {
	e.settle()
	if hasTimer {
		select {
		case r := <-ch:
			return r, true
		case <-time.After(timerLimit):
			return sendRes{}, false
		}
	}
	select {
	case r := <-ch:
		return r, true
	default:
		return sendRes{}, false
	}
}

// panicked records a crashed API call; the scenario stops there.
func (e *exec) panicked(k int) {
	e.dead = true
	e.emit(hlib.App("OPanic", n64(k)), fmt.Sprintf("PANIC in call kind %d", k))
}
