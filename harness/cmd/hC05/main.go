// hC05: drives chain33's mavl node database (system/store/mavl/db) with state
// pruning enabled (EnableMavlPrefix + EnableMavlPrune, as the store forces)
// through generated commit histories with forks, re-commits, empty heights and
// pruning runs, on a LevelDB WITHOUT the ARC node cache (reads behave as after
// a process restart).  After every operation every state root produced so far
// is read key by key; record counts by key class are taken from the database.
//
// The store streams run the same kind of history through a STORE created by
// mavl.New from a sub-configuration JSON (enableMavlPrune with enableMavlPrefix
// on or off, pruneHeight 2-10): Store.Set / MemSet+Commit / Get; the node cache
// the store switches on is emptied before every operation (as after a restart).
package main

import (
	"bytes"
	"encoding/hex"
	"fmt"
	"os"
	"path/filepath"
	"sort"
	"strings"

	dbm "github.com/33cn/chain33/common/db"
	clog "github.com/33cn/chain33/common/log"
	drivers "github.com/33cn/chain33/system/store"
	mavlstore "github.com/33cn/chain33/system/store/mavl"
	mavldb "github.com/33cn/chain33/system/store/mavl/db"
	"github.com/33cn/chain33/types"
	"verifharness/hlib"
)

// ---------- history description (also the replay format) ----------

type Write struct {
	K string `json:"k"` // hex
	V string `json:"v"`
}

// Op: T = "c" commit (height H, parent = index into the list of commits, -1 = empty
// root; M = 0 SetKVPair, 1 MemSet+Commit where an empty write set does nothing),
// "p" PruningTree(H), "r" restart (package globals reset).
type Op struct {
	T  string  `json:"t"`
	H  int64   `json:"h,omitempty"`
	P  int     `json:"p,omitempty"`
	M  int     `json:"m,omitempty"`
	KV []Write `json:"kv,omitempty"`
}

type History struct {
	PH      int32    `json:"ph"`
	Keys    []string `json:"keys"` // probe universe (hex)
	Ops     []Op     `json:"ops"`
	Kind    string   `json:"kind"`
	Guarded bool     `json:"guarded"`
	// Store: run through a store created by mavl.New with the sub-configuration
	// {enableMavlPrefix: Prefix, enableMavlPrune: Prune, pruneHeight: PH}
	Store  bool `json:"store,omitempty"`
	Prefix bool `json:"prefix,omitempty"`
	Prune  bool `json:"prune,omitempty"`
}

func unhex(s string) []byte {
	b, err := hex.DecodeString(s)
	if err != nil {
		panic(err)
	}
	if b == nil {
		b = []byte{}
	}
	return b
}

// ---------- implementation side ----------

type commitInfo struct {
	root   []byte
	rid    int
	height int64
	parent int
}

type counts struct {
	Nodes, L1, L2, Roots, Anc int
	Max, Sec                 int64
}

func getInt64(db dbm.DB, key string) int64 {
	v, err := db.Get([]byte(key))
	if err != nil || len(v) == 0 {
		return 0
	}
	var h types.Int64
	if types.Decode(v, &h) != nil {
		return 0
	}
	return h.Data
}

func dbCounts(db dbm.DB, dump bool) (c counts) {
	it := db.Iterator(nil, nil, false)
	defer it.Close()
	for it.Rewind(); it.Valid(); it.Next() {
		k := it.Key()
		switch {
		case bytes.HasPrefix(k, []byte("..mk..")), bytes.HasPrefix(k, []byte("..mok..")):
			var pd types.PruneData
			if err := types.Decode(it.Value(), &pd); err == nil {
				c.Anc += len(pd.Hashs)
			}
			if bytes.HasPrefix(k, []byte("..mk..")) {
				c.L1++
			} else {
				c.L2++
			}
			if dump {
				hs := []string{}
				for _, h := range pd.Hashs {
					hs = append(hs, short(h))
				}
				fmt.Fprintf(os.Stderr, "  IDX %q -> %v\n", shortIdx(k), hs)
			}
		case bytes.HasPrefix(k, []byte("_mrhp_")):
			c.Roots++
			if dump {
				fmt.Fprintf(os.Stderr, "  ROOT %s %s\n", k[6:16], short(k[16:]))
			}
		case string(k) == "_..mcmbh.._", string(k) == "_..mslphk.._":
		default:
			c.Nodes++
			if dump {
				var sn types.StoreNode
				_ = types.Decode(it.Value(), &sn)
				fmt.Fprintf(os.Stderr, "  NODE %s key=%q h=%d l=%s r=%s\n", short(k), sn.Key, sn.Height, short(sn.LeftHash), short(sn.RightHash))
			}
		}
	}
	c.Max = getInt64(db, "_..mcmbh.._")
	c.Sec = getInt64(db, "_..mslphk.._")
	return
}

func short(h []byte) string {
	if len(h) > 32 {
		return string(h[:len(h)-32]) + hex.EncodeToString(h[len(h)-32:len(h)-28])
	}
	if len(h) >= 4 {
		return hex.EncodeToString(h[:4])
	}
	return hex.EncodeToString(h)
}

func shortIdx(k []byte) string {
	// ..mk..<key><height 10><hash><len 3>
	n := len(k)
	var hl int
	fmt.Sscanf(string(k[n-3:]), "%d", &hl)
	hash := k[n-3-hl : n-3]
	rest := k[:n-3-hl]
	return string(rest) + "|" + short(hash)
}

// backend: what a history is run against.
type backend interface {
	// commit returns the state root; st 0 ok, 1 error, 2 panic
	commit(op Op, parentRoot []byte, kvs []*types.KeyValue) (root []byte, st int, note string)
	prune(cur int64) (st int, note string)
	restart()
	beforeReads()
	// probe one key at one root: 0 = failed (error or panic), 1 = absent, 2+i = value i
	probeKey(root, key []byte, vt *tab) int
	rawDB() dbm.DB
	close()
}

// ---- the node database API (mavl/db) with its own TreeConfig ----

type env struct {
	db  dbm.DB
	cfg *mavldb.TreeConfig
}

func (e *env) rawDB() dbm.DB { return e.db }
func (e *env) close()        { e.db.Close() }
func (e *env) restart()      { mavldb.VerifResetPruneGlobals() }
func (e *env) beforeReads()  {}

func (e *env) prune(cur int64) (st int, note string) {
	defer func() {
		if r := recover(); r != nil {
			st, note = 2, fmt.Sprint(r)
		}
	}()
	mavldb.PruningTree(e.db, cur, e.cfg)
	return
}

func (e *env) commit(op Op, parentRoot []byte, kvs []*types.KeyValue) (root []byte, st int, note string) {
	if op.M == 1 && len(kvs) == 0 {
		// Store.MemSet: "use preStateHash as stateHash for kvset is null"; Commit does nothing
		return parentRoot, 0, ""
	}
	defer mavldb.VerifWaitPrune()
	defer func() {
		if r := recover(); r != nil {
			root, st, note = nil, 2, fmt.Sprint(r)
		}
	}()
	r, err := mavldb.SetKVPair(e.db, &types.StoreSet{StateHash: parentRoot, KV: kvs, Height: op.H}, false, e.cfg)
	if err != nil {
		return nil, 1, err.Error()
	}
	return r, 0, ""
}

func (e *env) probeKey(root, key []byte, vt *tab) (code int) {
	defer func() {
		if r := recover(); r != nil {
			code = 0
		}
	}()
	if root == nil {
		return 1
	}
	vals, err := mavldb.GetKVPair(e.db, &types.StoreGet{StateHash: root, Keys: [][]byte{key}}, e.cfg)
	if err != nil {
		return 0
	}
	if vals[0] == nil {
		return 1
	}
	return 2 + vt.ix(vals[0])
}

// ---- the store (system/store/mavl) created by mavl.New from a sub-configuration ----

type storeEnv struct {
	dir string
	sub []byte
	ph  int32
	st  *mavlstore.Store
}

func subJSON(h *History) []byte {
	return []byte(fmt.Sprintf(`{"enableMavlPrefix":%v,"enableMavlPrune":%v,"pruneHeight":%d}`, h.Prefix, h.Prune, h.PH))
}

func (e *storeEnv) open() {
	cfg := &types.Store{Name: "mavl", Driver: "leveldb", DbPath: e.dir, DbCache: 16}
	e.st = mavlstore.New(cfg, e.sub, nil).(*mavlstore.Store)
}

func (e *storeEnv) rawDB() dbm.DB { return e.st.GetDB() }

// never Store.Close: it sets the package-wide quit flag of mavl/db, after which every pruning run is a no-op
func (e *storeEnv) close() { e.st.GetDB().Close() }

// a process restart: the database is closed and a new store is created on it
func (e *storeEnv) restart() {
	mavldb.VerifWaitPrune()
	e.st.GetDB().Close()
	mavldb.VerifResetPruneGlobals()
	e.open()
}

// the store's database has the ARC node cache on: empty it (what a restart does),
// so that reads and commits see the database as it is
func (e *storeEnv) purge() {
	if c := e.st.GetDB().GetCache(); c != nil {
		c.Purge()
	}
}

func (e *storeEnv) beforeReads() { e.purge() }

// the store has no call for a pruning run (Tree.Save starts them in the background);
// a synchronous run uses the package function on the store's database
func (e *storeEnv) prune(cur int64) (st int, note string) {
	e.purge()
	defer func() {
		if r := recover(); r != nil {
			st, note = 2, fmt.Sprint(r)
		}
	}()
	mavldb.PruningTree(e.st.GetDB(), cur, &mavldb.TreeConfig{PruneHeight: e.ph})
	return
}

func isEmptyRoot(r []byte) bool { return len(r) == 0 || bytes.Equal(r, drivers.EmptyRoot[:]) }

func (e *storeEnv) commit(op Op, parentRoot []byte, kvs []*types.KeyValue) (root []byte, st int, note string) {
	e.purge()
	if parentRoot == nil {
		parentRoot = drivers.EmptyRoot[:] // what the blockchain module passes for the first block
	}
	defer mavldb.VerifWaitPrune()
	defer func() {
		if r := recover(); r != nil {
			root, st, note = nil, 2, fmt.Sprint(r)
		}
	}()
	set := &types.StoreSet{StateHash: parentRoot, KV: kvs, Height: op.H}
	var r []byte
	var err error
	if op.M == 1 {
		r, err = e.st.MemSet(set, false)
		if err == nil {
			_, err = e.st.Commit(&types.ReqHash{Hash: r})
		}
	} else {
		r, err = e.st.Set(set, false)
	}
	if err != nil {
		return nil, 1, err.Error()
	}
	if isEmptyRoot(r) {
		r = nil
	}
	return r, 0, ""
}

// Store.Get gives nil for every key when the root does not load (code 1, like an absent key)
func (e *storeEnv) probeKey(root, key []byte, vt *tab) (code int) {
	defer func() {
		if r := recover(); r != nil {
			code = 0
		}
	}()
	if root == nil {
		return 1
	}
	vals := e.st.Get(&types.StoreGet{StateHash: root, Keys: [][]byte{key}})
	if len(vals) != 1 {
		return 0
	}
	if vals[0] == nil {
		return 1
	}
	return 2 + vt.ix(vals[0])
}

// inertPruning is set when the canary history's pruning runs deleted nothing
// (mavl/db's package-wide quit flag set by Store.Close / ClosePrune makes every run a no-op).
var inertPruning []string

// tab interns byte strings.
type tab struct {
	idx  map[string]int
	list [][]byte
}

func newTab() *tab { return &tab{idx: map[string]int{}} }

func (t *tab) ix(b []byte) int {
	i, ok := t.idx[string(b)]
	if !ok {
		i = len(t.list)
		t.idx[string(b)] = i
		t.list = append(t.list, append([]byte{}, b...))
	}
	return i
}

type implOp struct {
	St     int      `json:"st"` // 0 ok, 1 error, 2 panic
	Rid    int      `json:"rid,omitempty"`
	Root   string   `json:"root,omitempty"`
	Cnt    counts   `json:"cnt"`
	Probes []string `json:"probes,omitempty"`
	Note   string   `json:"note,omitempty"`
}

func runHistory(o *hlib.Out, h *History, workdir string, serial int, dump bool) {
	dir := filepath.Join(workdir, fmt.Sprintf("c05db-%d-%d", os.Getpid(), serial))
	os.RemoveAll(dir)
	defer os.RemoveAll(dir)
	mavldb.VerifResetPruneGlobals()
	var e backend
	if h.Store {
		se := &storeEnv{dir: dir, sub: subJSON(h), ph: h.PH}
		se.open()
		e = se
	} else {
		db := dbm.NewDB("store", "leveldb", dir, 16) // no SetCacheSize: node cache stays nil
		e = &env{db: db, cfg: &mavldb.TreeConfig{EnableMavlPrefix: true, EnableMavlPrune: true, PruneHeight: h.PH}}
	}
	defer func() { e.close() }()
	peakNodes, lastNodes := 0, 0

	kt, vt := newTab(), newTab()
	keys := make([][]byte, len(h.Keys))
	for i, k := range h.Keys {
		keys[i] = unhex(k)
		kt.ix(keys[i])
	}
	for _, op := range h.Ops {
		for _, w := range op.KV {
			if kt.ix(unhex(w.K)) >= len(keys) {
				keys = append(keys, unhex(w.K))
			}
			vt.ix(unhex(w.V))
		}
	}
	var commits []commitInfo
	var rootList [][]byte // distinct roots by first appearance (rid = index); nil root is not listed
	ridOf := func(r []byte) int {
		for i, x := range rootList {
			if bytes.Equal(x, r) {
				return i
			}
		}
		rootList = append(rootList, r)
		return len(rootList) - 1
	}
	tip := -1
	var prevRows []string // read matrix of the previous operation (the case carries deltas)
	var terms []string
	var impl []implOp
	stopped := false
	nCommit, nPrune, maxLeaves := 0, 0, 0

	for oi, op := range h.Ops {
		if stopped {
			break
		}
		var io implOp
		var term string
		switch op.T {
		case "r":
			e.restart()
			term = "OR"
		case "p":
			io.St, io.Note = e.prune(op.H)
			nPrune++
		case "c":
			var parentRoot []byte
			if op.P >= 0 {
				parentRoot = commits[op.P].root
			}
			kvs := make([]*types.KeyValue, len(op.KV))
			kvTerms := make([]string, len(op.KV))
			for i, w := range op.KV {
				k, v := unhex(w.K), unhex(w.V)
				kvs[i] = &types.KeyValue{Key: k, Value: v}
				kvTerms[i] = hexByte(kt.ix(k)) + hexByte(vt.ix(v))
			}
			var root []byte
			root, io.St, io.Note = e.commit(op, parentRoot, kvs)
			rid := -1
			if io.St == 0 {
				if root != nil {
					rid = ridOf(root)
				}
				commits = append(commits, commitInfo{root: root, rid: rid, height: op.H, parent: op.P})
				tip = len(commits) - 1
				io.Rid, io.Root = rid, hex.EncodeToString(root)
				nCommit++
			}
			term = fmt.Sprintf("OC %d %s %d (hx \"%s\") %d %s", op.H, zint(op.P), op.M, strings.Join(kvTerms, ""), io.St, zint(rid))
		default:
			panic("bad op " + op.T)
		}
		if op.T != "r" {
			io.Cnt = dbCounts(e.rawDB(), dump)
			lastNodes = io.Cnt.Nodes
			if lastNodes > peakNodes {
				peakNodes = lastNodes
			}
			e.beforeReads()
			// probe every root known so far
			live := map[int]bool{}
			if tip >= 0 {
				th := int64(0)
				for _, c := range commits {
					if c.height > th {
						th = c.height
					}
				}
				for c := tip; c >= 0; c = commits[c].parent {
					if commits[c].height >= th-int64(h.PH) && commits[c].rid >= 0 {
						live[commits[c].rid] = true
					}
				}
			}
			var rows []string
			liveFail := false
			for rid, r := range rootList {
				codes := make([]string, len(keys))
				var hexRow []string
				nl := 0
				for ki, k := range keys {
					c := e.probeKey(r, k, vt)
					codes[ki] = fmt.Sprint(c)
					hexRow = append(hexRow, hexByte(c))
					if c == 0 && live[rid] {
						liveFail = true
					}
					if c >= 2 {
						nl++
					}
				}
				full := strings.Join(hexRow, "")
				if rid >= len(prevRows) {
					prevRows = append(prevRows, "")
				}
				if prevRows[rid] != full {
					rows = append(rows, hexByte(rid)+full)
					prevRows[rid] = full
				}
				if nl > maxLeaves {
					maxLeaves = nl
				}
				io.Probes = append(io.Probes, strings.Join(codes, ","))
			}
			cnt := fmt.Sprintf("(CN %d %d %d %d %d %d %d)", io.Cnt.Nodes, io.Cnt.L1, io.Cnt.L2, io.Cnt.Roots, io.Cnt.Anc, io.Cnt.Max, io.Cnt.Sec)
			if op.T == "p" {
				term = fmt.Sprintf("OP %d %d", op.H, io.St)
			}
			term = "(" + term + " " + cnt + " (hx \"" + strings.Join(rows, "") + "\"))"
			if liveFail || io.St != 0 {
				stopped = true
			}
		}
		if dump {
			fmt.Fprintf(os.Stderr, "op %d %+v -> %+v\n", oi, op, io)
		}
		terms = append(terms, term)
		impl = append(impl, io)
	}
	coq := fmt.Sprintf("(Case %d %s %s [%s])", h.PH, hlib.ListHx(kt.list), hlib.ListHx(vt.list), strings.Join(terms, ";"))
	if h.Store {
		coq = fmt.Sprintf("(SCase %v %v %d %s %s [%s])", h.Prefix, h.Prune, h.PH, hlib.ListHx(kt.list), hlib.ListHx(vt.list), strings.Join(terms, ";"))
		if h.Kind == canaryKind && lastNodes >= peakNodes {
			inertPruning = append(inertPruning, fmt.Sprintf("%s: node records at the end %d, peak %d", h.Kind, lastNodes, peakNodes))
		}
	}
	nontrivial := nCommit >= 3 && maxLeaves >= 2 && (nPrune > 0 || autoPrunes(h) > 0)
	o.Emit(h.Kind, nontrivial, coq, h, impl)
}

func autoPrunes(h *History) int {
	n := 0
	for _, op := range h.Ops {
		if op.T == "c" && h.PH > 0 && op.H%int64(h.PH) == 0 && op.H/int64(h.PH) > 1 {
			n++
		}
	}
	return n
}

func hexByte(v int) string {
	if v < 0 || v > 255 {
		panic("index does not fit one byte")
	}
	return fmt.Sprintf("%02x", v)
}

func zint(v int) string {
	if v < 0 {
		return fmt.Sprintf("(%d)", v)
	}
	return fmt.Sprint(v)
}

// ---------- generators ----------

type gen struct {
	r *hlib.Rng
}

var alphabet = []string{"a", "b", "c", "d", "e", "f", "g", "h", "ab", "a0000000001", "b_", "mavl-coins-bty-x", "mavl-coins-bty-y", ""}

func hx(s string) string { return hex.EncodeToString([]byte(s)) }

type gparams struct {
	kind      string
	nkeys     int  // size of the key universe
	nops      int  // number of commit ops (prunes extra)
	guarded   bool // every non-empty commit produces a state not seen before in the history; no empty-write heights on forks
	sameVal   int  // chance /16 of a same-value rewrite (unrestricted only)
	forks     int  // chance /16 that a commit forks off an earlier live commit
	empties   int  // chance /16 of an empty write set
	prunes    int  // chance /16 of an explicit prune after a commit
	restarts  int  // chance /16 of a restart op
	bigSteps  bool // use height jumps that cross the second/third level thresholds
	maxWrites int
}

// simState tracks the abstract history for the generator (states as maps).
type simCommit struct {
	h      int64
	parent int
	state  map[string]string
	kv     []Write
	m      int
}

func stateKey(m map[string]string) string {
	ks := make([]string, 0, len(m))
	for k := range m {
		ks = append(ks, k)
	}
	sort.Strings(ks)
	var sb strings.Builder
	for _, k := range ks {
		sb.WriteString(k + "=" + m[k] + ";")
	}
	return sb.String()
}

func (g *gen) history(p gparams) *History {
	r := g.r
	ph := int32(r.Range(2, 5))
	perm := append([]string{}, alphabet...)
	hlib.Shuffle(r, perm)
	univ := perm[:p.nkeys]
	h := &History{PH: ph, Kind: p.kind, Guarded: p.guarded}
	for _, k := range univ {
		h.Keys = append(h.Keys, hx(k))
	}
	h.Keys = append(h.Keys, hx("zz-absent"))
	var cs []simCommit
	seen := map[string]bool{stateKey(map[string]string{}): true}
	tip := -1
	valCtr := 0
	freshVal := func() string { valCtr++; return fmt.Sprintf("v%d", valCtr) }
	for n := 0; n < p.nops; n++ {
		// choose the parent: usually the tip, sometimes an earlier commit of the tip's chain within the window
		parent := tip
		if tip >= 0 && r.Chance(p.forks, 16) {
			var cand []int
			th := int64(0)
			for _, c := range cs {
				if c.h > th {
					th = c.h
				}
			}
			for c := tip; c >= 0; c = cs[c].parent {
				if cs[c].h >= th-int64(ph) {
					cand = append(cand, c)
				}
			}
			// also allow forking from the empty root when it is within the window
			parent = hlib.Pick(r, cand)
			if r.Chance(1, 3) && len(cand) > 1 {
				parent = cand[len(cand)-1]
			}
		}
		ph64 := int64(0)
		var pstate map[string]string
		if parent >= 0 {
			ph64, pstate = cs[parent].h, cs[parent].state
		} else {
			pstate = map[string]string{}
		}
		height := ph64 + 1
		if parent < 0 && r.Chance(1, 3) {
			height = 0 // genesis height
		}
		strict := p.guarded && p.forks > 0 // guarded fork histories: consecutive heights, every height saves, >= 2 keys
		if r.Chance(1, 10) && !strict {
			height += int64(r.Range(1, 3))
		}
		if p.bigSteps && r.Chance(1, 4) {
			height += hlib.Pick(r, []int64{499990, 500000, 500003, 999995, 1000000, 1500000, 1500001})
		}
		// re-commit of an existing child of this parent (exact re-execution)
		var kv []Write
		m := 0
		if r.Chance(1, 3) {
			m = 1
		}
		redo := false
		if !p.guarded && r.Chance(1, 12) {
			for c := len(cs) - 1; c >= 0; c-- {
				if cs[c].parent == parent {
					kv, height, m, redo = cs[c].kv, cs[c].h, cs[c].m, true
					break
				}
			}
		}
		if !redo {
			if r.Chance(p.empties, 16) && !strict {
				kv = nil
			} else {
				nw := r.Range(1, p.maxWrites)
				if strict && parent < 0 {
					// first commit of a guarded fork history: two different keys
					kv = append(kv, Write{hx(univ[0]), hx(freshVal())}, Write{hx(univ[1]), hx(freshVal())})
				}
				for i := 0; i < nw; i++ {
					k := hlib.Pick(r, univ)
					v := freshVal()
					if old, ok := pstate[k]; ok && r.Chance(p.sameVal, 16) {
						v = old
					} else if r.Chance(1, 8) && !p.guarded {
						v = hlib.Pick(r, []string{"", "x", "y"})
					}
					kv = append(kv, Write{hx(k), hx(v)})
				}
			}
		}
		st := map[string]string{}
		for k, v := range pstate {
			st[k] = v
		}
		for _, w := range kv {
			st[string(unhex(w.K))] = string(unhex(w.V))
		}
		if p.guarded {
			if len(kv) == 0 {
				// guarded stream: empty heights only through SetKVPair on the tip (no node is written)
				if parent != tip {
					n--
					continue
				}
			} else if seen[stateKey(st)] {
				n--
				continue
			}
		}
		seen[stateKey(st)] = true
		cs = append(cs, simCommit{h: height, parent: parent, state: st, kv: kv, m: m})
		tip = len(cs) - 1
		h.Ops = append(h.Ops, Op{T: "c", H: height, P: parent, M: m, KV: kv})
		if r.Chance(p.prunes, 16) {
			cur := height
			if r.Chance(1, 4) {
				cur -= int64(r.Range(1, 3))
				if cur < 0 {
					cur = 0
				}
			}
			h.Ops = append(h.Ops, Op{T: "p", H: cur})
		}
		if r.Chance(p.restarts, 16) {
			h.Ops = append(h.Ops, Op{T: "r"})
		}
	}
	h.Ops = append(h.Ops, Op{T: "p", H: cs[tip].h})
	return h
}

// the recorded witness of known finding 1: key a rewritten with its old value at heights 1..6, PruningTree(6)
func witnessSameValue() *History {
	h := &History{PH: 2, Kind: "witness-same-value", Keys: []string{hx("a"), hx("b")}}
	for i := 1; i <= 6; i++ {
		kv := []Write{{hx("a"), hx("1")}}
		if i == 1 {
			kv = append(kv, Write{hx("b"), hx("2")})
		}
		h.Ops = append(h.Ops, Op{T: "c", H: int64(i), P: i - 2, KV: kv})
	}
	h.Ops = append(h.Ops, Op{T: "p", H: 6})
	return h
}

// suspected second witness: re-organisation onto a branch with an empty height
func witnessEmptyFork() *History {
	h := &History{PH: 2, Kind: "witness-empty-fork", Keys: []string{hx("a"), hx("b"), hx("c")}}
	h.Ops = []Op{
		{T: "c", H: 1, P: -1, KV: []Write{{hx("a"), hx("1")}, {hx("b"), hx("1")}, {hx("c"), hx("1")}}},
		{T: "c", H: 2, P: 0, KV: []Write{{hx("a"), hx("2")}}},      // branch A, height 2
		{T: "c", H: 2, P: 0, M: 1, KV: nil},                         // branch B, height 2: no state change (MemSet shortcut)
		{T: "c", H: 3, P: 2, KV: []Write{{hx("b"), hx("3")}}},      // B3
		{T: "c", H: 4, P: 3, KV: []Write{{hx("c"), hx("4")}}},      // B4 (triggers the background prune: 4 % 2 == 0, 4/2 > 1)
		{T: "c", H: 5, P: 4, KV: []Write{{hx("c"), hx("5")}}},      // B5
		{T: "p", H: 5},
	}
	return h
}

// ---------- store streams ----------

const canaryKind = "store-witness-returns"

// the shipped-style configuration (prune switched on, prefix left off): an account goes
// 100 -> 70 -> 100 (its value returns to an earlier value) while a counter changes on every
// block; the commit at height 2*PH starts a pruning run, one more is run at the tip.
// Also the canary against inert pruning: its runs must delete node records.
func witnessStoreReturns(ph int32, prefix bool) *History {
	h := &History{PH: ph, Kind: canaryKind, Guarded: true, Store: true, Prefix: prefix, Prune: true,
		Keys: []string{hx("acct-1"), hx("acct-2"), hx("acct-3"), hx("ctr"), hx("zz-absent")}}
	h.Ops = append(h.Ops, Op{T: "c", H: 1, P: -1, M: 1, KV: []Write{{hx("acct-1"), hx("100")}, {hx("acct-2"), hx("100")}, {hx("acct-3"), hx("100")}, {hx("ctr"), hx("h1")}}})
	h.Ops = append(h.Ops, Op{T: "c", H: 2, P: 0, M: 1, KV: []Write{{hx("acct-3"), hx("70")}, {hx("ctr"), hx("h2")}}})
	h.Ops = append(h.Ops, Op{T: "c", H: 3, P: 1, M: 1, KV: []Write{{hx("acct-3"), hx("100")}, {hx("ctr"), hx("h3")}}})
	tip := int64(2*ph + 1)
	for i := int64(4); i <= tip; i++ {
		h.Ops = append(h.Ops, Op{T: "c", H: i, P: int(i - 2), M: int(i % 2), KV: []Write{{hx("ctr"), hx(fmt.Sprintf("h%d", i))}}})
	}
	h.Ops = append(h.Ops, Op{T: "p", H: tip})
	return h
}

type sparams struct {
	kind    string
	nkeys   int // keys with a small value alphabet (values return), besides the counter
	clock   int // chance /16 that the history has a counter key written by every writing commit
	gaps    int // chance /16 of a height gap
	empties int // chance /16 of an empty write set
	prunes  int // chance /16 of a synchronous pruning run after a commit
	restart int // chance /16 of a restart (store closed and created again)
	maxPH   int
}

// storeHistory: a LINEAR history for the store in which every writing commit produces a state
// not seen before in the history (so every state root is new), while the values of single keys
// come from two or three values per key: they return to earlier values (A -> B -> A) and are
// rewritten unchanged next to other changes.
func (g *gen) storeHistory(p sparams) *History {
	r := g.r
	ph := int32(hlib.Pick(r, []int{2, 2, 3, 3, 4, 5, 6, 8, 10}))
	if int(ph) > p.maxPH {
		ph = int32(p.maxPH)
	}
	h := &History{PH: ph, Kind: p.kind, Guarded: true, Store: true, Prefix: r.Chance(1, 2), Prune: true}
	perm := append([]string{}, alphabet[:len(alphabet)-1]...) // without the empty key: the counter may be any key
	hlib.Shuffle(r, perm)
	univ := perm[:p.nkeys]
	clock := ""
	if r.Chance(p.clock, 16) {
		clock = perm[p.nkeys]
	}
	for _, k := range univ {
		h.Keys = append(h.Keys, hx(k))
	}
	if clock != "" {
		h.Keys = append(h.Keys, hx(clock))
	}
	h.Keys = append(h.Keys, hx("zz-absent"))
	vals := []string{"A", "B", "C"}[:r.Range(2, 3)]
	state := map[string]string{}
	seen := map[string]bool{stateKey(state): true}
	nops := 2*int(ph) + r.Range(1, 5)
	if nops > 24 {
		nops = 24
	}
	height := int64(0)
	if r.Chance(1, 3) {
		height = -1 // first commit at the genesis height 0
	}
	ncommit := 0
	for tries := 0; ncommit < nops && tries < 40*nops; tries++ {
		var kv []Write
		if !(ncommit > 0 && r.Chance(p.empties, 16)) {
			nw := r.Range(1, 3)
			if ncommit == 0 {
				nw = p.nkeys // the first block creates the accounts
			}
			for i := 0; i < nw; i++ {
				k := univ[(i+r.Intn(len(univ)))%len(univ)]
				if ncommit == 0 {
					k = univ[i]
				}
				kv = append(kv, Write{hx(k), hx(hlib.Pick(r, vals) + k[:1])})
			}
			if clock != "" {
				kv = append(kv, Write{hx(clock), hx(fmt.Sprintf("t%d", ncommit))})
			}
		}
		st := map[string]string{}
		for k, v := range state {
			st[k] = v
		}
		for _, w := range kv {
			st[string(unhex(w.K))] = string(unhex(w.V))
		}
		if len(kv) > 0 {
			if seen[stateKey(st)] {
				continue
			}
			seen[stateKey(st)] = true
		}
		height++
		if r.Chance(p.gaps, 16) {
			height += int64(r.Range(1, 2))
		}
		m := 1 // the way the blockchain module drives the store
		if r.Chance(1, 3) {
			m = 0
		}
		h.Ops = append(h.Ops, Op{T: "c", H: height, P: ncommit - 1, M: m, KV: kv})
		state = st
		ncommit++
		if r.Chance(p.prunes, 16) {
			cur := height
			if r.Chance(1, 4) && cur > 0 {
				cur -= int64(r.Range(1, 2))
				if cur < 0 {
					cur = 0
				}
			}
			h.Ops = append(h.Ops, Op{T: "p", H: cur})
		}
		if r.Chance(p.restart, 16) {
			h.Ops = append(h.Ops, Op{T: "r"})
		}
	}
	h.Ops = append(h.Ops, Op{T: "p", H: height})
	return h
}

func main() {
	opts := hlib.ParseFlags()
	clog.SetLogLevel("crit")
	out := hlib.NewOut(opts.OutDir)
	defer out.Close()
	// scratch databases: memory-backed file system when there is one (every commit and pruning batch is
	// written with sync), else below the output directory
	workdir := filepath.Join(opts.OutDir, "db")
	if d, err := os.MkdirTemp("/dev/shm", "hC05-"); err == nil {
		workdir = d
	}
	os.MkdirAll(workdir, 0o755)
	defer os.RemoveAll(workdir)
	dump := opts.Extra == "dump"

	if opts.Replay != "" {
		var h History
		if err := hlib.ReplayInput(opts.Replay, &h); err != nil {
			fmt.Fprintln(os.Stderr, "replay:", err)
			out.Close()
			os.RemoveAll(workdir)
			os.Exit(2)
		}
		runHistory(out, &h, workdir, 0, dump)
		return
	}

	g := &gen{r: hlib.NewRng(opts.Seed)}
	serial := 0
	run := func(h *History) { serial++; runHistory(out, h, workdir, serial, dump) }
	run(witnessSameValue())
	run(witnessEmptyFork())
	mult := 1
	if opts.Thorough() {
		mult = 12
	}
	streams := []struct {
		n int
		p gparams
	}{
		{30, gparams{kind: "guarded-linear-small", nkeys: 3, nops: 8, guarded: true, prunes: 4, restarts: 1, maxWrites: 2}},
		{40, gparams{kind: "guarded-linear", nkeys: 6, nops: 14, guarded: true, prunes: 4, restarts: 1, empties: 1, maxWrites: 4}},
		{40, gparams{kind: "guarded-forks", nkeys: 5, nops: 14, guarded: true, forks: 4, prunes: 4, restarts: 1, empties: 1, maxWrites: 3}},
		{20, gparams{kind: "guarded-levels", nkeys: 4, nops: 12, guarded: true, prunes: 6, bigSteps: true, maxWrites: 3}},
		{30, gparams{kind: "free-linear", nkeys: 4, nops: 12, sameVal: 5, prunes: 4, restarts: 1, empties: 2, maxWrites: 3}},
		{40, gparams{kind: "free-forks", nkeys: 5, nops: 14, sameVal: 3, forks: 5, prunes: 4, restarts: 1, empties: 3, maxWrites: 3}},
		{15, gparams{kind: "free-levels", nkeys: 4, nops: 12, sameVal: 2, forks: 2, prunes: 6, empties: 2, bigSteps: true, maxWrites: 3}},
		{6, gparams{kind: "guarded-large", nkeys: 12, nops: 30, guarded: true, forks: 2, prunes: 3, maxWrites: 6}},
	}
	for _, s := range streams {
		for i := 0; i < s.n*mult; i++ {
			run(g.history(s.p))
		}
	}
	// the store created by mavl.New (own generator state: the streams above stay as they were)
	gs := &gen{r: hlib.NewRng(opts.Seed ^ 0xC05B)}
	run(witnessStoreReturns(2, false))
	run(witnessStoreReturns(3, true))
	run(witnessStoreReturns(10, false))
	if len(inertPruning) > 0 {
		// not a pass: nothing below would exercise pruning
		fmt.Fprintln(os.Stderr, "hC05: FATAL pruning runs are inert (mavl/db quit flag set?):", strings.Join(inertPruning, "; "))
		out.Close()
		os.RemoveAll(workdir)
		os.Exit(3)
	}
	sstreams := []struct {
		n int
		p sparams
	}{
		{24, sparams{kind: "store-returns-small", nkeys: 2, clock: 12, prunes: 3, restart: 1, maxPH: 4}},
		{30, sparams{kind: "store-returns", nkeys: 4, clock: 10, gaps: 2, empties: 1, prunes: 3, restart: 1, maxPH: 10}},
	}
	for _, s := range sstreams {
		for i := 0; i < s.n*mult; i++ {
			run(gs.storeHistory(s.p))
		}
	}
	// fork / re-commit histories through the store (same generator as the node database streams)
	for i := 0; i < 10*mult; i++ {
		h := gs.history(gparams{kind: "store-guarded-forks", nkeys: 5, nops: 12, guarded: true, forks: 4, prunes: 4, restarts: 1, empties: 1, maxWrites: 3})
		h.Store, h.Prefix, h.Prune = true, gs.r.Chance(1, 2), true
		run(h)
	}
	for i := 0; i < 10*mult; i++ {
		h := gs.history(gparams{kind: "store-free-forks", nkeys: 4, nops: 12, sameVal: 3, forks: 4, prunes: 4, restarts: 1, empties: 3, maxWrites: 3})
		h.Store, h.Prefix, h.Prune = true, gs.r.Chance(1, 2), true
		run(h)
	}
	fmt.Printf("hC05: %d cases\n", out.Count())
}
