// hC03: state proofs of chain33's mavl store.
//
// One case = one committed tree + probes:
//   - the tree is built with the real SetKVPair over several block heights (with /
//     without EnableMavlPrefix and EnableMavlPrune, memdb or LevelDB) and then READ
//     BACK FROM THE RAW DATABASE by this harness (own walker over StoreNode records:
//     structure, keys, values, stored child hashes incl. their prefixes);
//   - prove probes: GetKVPairProof / Tree.ConstructProof for keys of the tree and
//     absent neighbours, plus the result of verifying the returned proof;
//   - verify probes: VerifyKVPairProof / Proof.Verify on single-field mutations of
//     (key, value, root, every proof node field, node list), on cross-version roots,
//     on malformed / truncated / random proof bytes (under recover()).
//
// The SHA-256 table handed to the Coq model is computed here with crypto/sha256 over
// an own protobuf encoder of the 4-field node message - nothing from proof.go,
// tree.go or types.go is used for it.
package main

import (
	"bytes"
	"crypto/sha256"
	"encoding/hex"
	"fmt"
	"os"
	"path/filepath"
	"strings"

	dbm "github.com/33cn/chain33/common/db"
	clog "github.com/33cn/chain33/common/log"
	mavl "github.com/33cn/chain33/system/store/mavl/db"
	"github.com/33cn/chain33/types"
	"verifharness/hlib"
)

// ---------------------------------------------------------------- replay format

type KV struct {
	K string `json:"k"`
	V string `json:"v"`
}

// ProbeIn is one probe with all its bytes explicit (hex).
type ProbeIn struct {
	Op    string `json:"op"` // prove | cons | verify | struct
	Key   string `json:"key,omitempty"`
	Val   string `json:"val,omitempty"`
	Root  string `json:"root,omitempty"`  // root argument
	Proof string `json:"proof,omitempty"` // proof bytes (verify: as passed; struct: encodes the InnerNodes)
	Leaf  string `json:"leaf,omitempty"`  // struct: Proof.LeafHash
	PRoot string `json:"proot,omitempty"` // struct: Proof.RootHash
	Note  string `json:"note,omitempty"`
}

type Hist struct {
	Kind    string    `json:"kind"`
	Prefix  bool      `json:"prefix"`
	Prune   bool      `json:"prune"`
	LevelDB bool      `json:"leveldb"`
	Mem     bool      `json:"mem"` // last batch through the Tree API; "cons" probes run on the UNSAVED tree
	Batches [][]KV    `json:"batches"`
	Probes  []ProbeIn `json:"probes"`
}

func hx(b []byte) string { return hex.EncodeToString(b) }
func unhx(s string) []byte {
	b, err := hex.DecodeString(s)
	if err != nil {
		panic(err)
	}
	return b
}

// ---------------------------------------------------------------- independent hashing

func putVarint(b []byte, v uint64) []byte {
	for v >= 0x80 {
		b = append(b, byte(v)|0x80)
		v >>= 7
	}
	return append(b, byte(v))
}

// encNode: proto3 encoding of {bytes f1 = 1; bytes f2 = 2; int32 h = 3; int32 s = 4}.
func encNode(f1, f2 []byte, h, s int32) []byte {
	var b []byte
	if len(f1) > 0 {
		b = append(b, 0x0a)
		b = putVarint(b, uint64(len(f1)))
		b = append(b, f1...)
	}
	if len(f2) > 0 {
		b = append(b, 0x12)
		b = putVarint(b, uint64(len(f2)))
		b = append(b, f2...)
	}
	if h != 0 {
		b = append(b, 0x18)
		b = putVarint(b, uint64(int64(h)))
	}
	if s != 0 {
		b = append(b, 0x20)
		b = putVarint(b, uint64(int64(s)))
	}
	return b
}

func refTrim(b []byte) []byte {
	if len(b) > 32 {
		return b[len(b)-32:]
	}
	return b
}

// ---------------------------------------------------------------- per-case tables

type pnodeT struct {
	h, s int32
	l, r []byte
}

type tables struct {
	tbl    []string
	tblIx  map[string]int
	pns    []string
	pnIx   map[string]int
	ht     []string
	htSeen map[string]bool
}

func newTables() *tables {
	t := &tables{tblIx: map[string]int{}, pnIx: map[string]int{}, htSeen: map[string]bool{}}
	t.B(nil) // index 0 = empty string
	return t
}

func (t *tables) B(b []byte) int {
	if i, ok := t.tblIx[string(b)]; ok {
		return i
	}
	i := len(t.tbl)
	t.tblIx[string(b)] = i
	t.tbl = append(t.tbl, xlit(b))
	return i
}

func (t *tables) PN(p pnodeT) int {
	s := fmt.Sprintf("P %s %s %d %d", zlit(p.h), zlit(p.s), t.B(p.l), t.B(p.r))
	if i, ok := t.pnIx[s]; ok {
		return i
	}
	i := len(t.pns)
	t.pnIx[s] = i
	t.pns = append(t.pns, s)
	return i
}

func (t *tables) PI(pi []pnodeT) string {
	it := make([]string, len(pi))
	for i, p := range pi {
		it[i] = fmt.Sprint(t.PN(p))
	}
	return hlib.List(it)
}

// xlit: a byte string as (X len 0xHEX) - see Check.v
func xlit(b []byte) string {
	if len(b) == 0 {
		return "X 0 0"
	}
	return fmt.Sprintf("X %d 0x%s", len(b), hex.EncodeToString(b))
}

func zlit(v int32) string {
	if v < 0 {
		return fmt.Sprintf("(%d)", v)
	}
	return fmt.Sprint(v)
}

// Hh: SHA-256 of the encoded node (arguments already trimmed); records the table entry.
func (t *tables) Hh(f1, f2 []byte, h, s int32) []byte {
	d := sha256.Sum256(encNode(f1, f2, h, s))
	key := fmt.Sprintf("E %d %d %s %s", t.B(f1), t.B(f2), zlit(h), zlit(s))
	if !t.htSeen[key] {
		t.htSeen[key] = true
		t.ht = append(t.ht, fmt.Sprintf("%s %d", key, t.B(d[:])))
	}
	return d[:]
}

func (t *tables) leaf(k, v []byte) []byte { return t.Hh(k, v, 0, 1) }

// chain: the digests along a supplied path (reference recomputation, for the table only).
func (t *tables) chain(k, v []byte, pi []pnodeT) []byte {
	h := t.leaf(k, v)
	for _, p := range pi {
		if len(p.l) == 0 {
			h = t.Hh(refTrim(h), refTrim(p.r), p.h, p.s)
		} else {
			h = t.Hh(refTrim(p.l), refTrim(h), p.h, p.s)
		}
	}
	return h
}

// ---------------------------------------------------------------- raw database walker

type rnode struct {
	key, val []byte
	h, s     int32
	lf, rf   []byte // stored child hash fields
	l, r     *rnode
}

func readNode(db dbm.DB, hash []byte) *rnode {
	buf, err := db.Get(hash)
	if err != nil || len(buf) == 0 {
		panic(fmt.Sprintf("raw walker: node %x missing", hash))
	}
	var sn types.StoreNode
	if err := types.Decode(buf, &sn); err != nil {
		panic(err)
	}
	n := &rnode{key: sn.Key, val: sn.Value, h: sn.Height, s: sn.Size, lf: sn.LeftHash, rf: sn.RightHash}
	if sn.Height != 0 {
		n.l = readNode(db, sn.LeftHash)
		n.r = readNode(db, sn.RightHash)
	}
	return n
}

func splitPrefix(field []byte) []byte {
	if len(field) >= 32 {
		return field[:len(field)-32]
	}
	return field
}

// shape: pre-order dump + table entries for every node; returns the digest.
func (t *tables) shape(n *rnode, prefix []byte, out *[]string) []byte {
	if n.h == 0 {
		*out = append(*out, fmt.Sprintf("SL %d %d %d", t.B(n.key), t.B(n.val), t.B(prefix)))
		return t.leaf(n.key, n.val)
	}
	*out = append(*out, fmt.Sprintf("SN %d %s %s %d", t.B(n.key), zlit(n.h), zlit(n.s), t.B(prefix)))
	t.shape(n.l, splitPrefix(n.lf), out)
	t.shape(n.r, splitPrefix(n.rf), out)
	return t.Hh(refTrim(n.lf), refTrim(n.rf), n.h, n.s)
}

func (n *rnode) leaves(out *[]KVb) {
	if n.h == 0 {
		*out = append(*out, KVb{n.key, n.val})
		return
	}
	n.l.leaves(out)
	n.r.leaves(out)
}

type KVb struct{ k, v []byte }

// ---------------------------------------------------------------- implementation side

var heightCounter int64 // block heights grow monotonically over the whole run (prune mode keeps a package-level maximum)

type env struct {
	memCons map[string]consRes
	db    dbm.DB
	cfg   *mavl.TreeConfig
	dir   string
	roots [][]byte
}

var envSerial int

func openEnv(h *Hist, workdir string) *env {
	e := &env{cfg: &mavl.TreeConfig{EnableMavlPrefix: h.Prefix, EnableMavlPrune: h.Prune, PruneHeight: 0}}
	envSerial++
	if h.LevelDB {
		e.dir = filepath.Join(workdir, fmt.Sprintf("ldb%d", envSerial))
		os.RemoveAll(e.dir)
		e.db = dbm.NewDB("c03", "leveldb", e.dir, 16)
	} else {
		e.db = dbm.NewDB("c03", "memdb", "", 0)
	}
	return e
}

func (e *env) close() {
	e.db.Close()
	if e.dir != "" {
		os.RemoveAll(e.dir)
	}
}

func (e *env) build(h *Hist) {
	var root []byte
	for bi, b := range h.Batches {
		heightCounter++
		if h.Mem && bi == len(h.Batches)-1 {
			// Tree API; proofs are constructed before the tree is saved (mixed persisted / new nodes)
			t := mavl.NewTree(e.db, true, e.cfg)
			t.SetBlockHeight(heightCounter)
			if err := t.Load(root); err != nil {
				panic(err)
			}
			for _, kv := range b {
				t.Set(unhx(kv.K), unhx(kv.V))
			}
			e.memCons = map[string]consRes{}
			for _, p := range h.Probes {
				if p.Op == "cons" {
					e.memCons[p.Key] = consOn(t, unhx(p.Key))
				}
			}
			root = t.Save()
			e.roots = append(e.roots, root)
			continue
		}
		set := &types.StoreSet{StateHash: root, Height: heightCounter}
		for _, kv := range b {
			set.KV = append(set.KV, &types.KeyValue{Key: unhx(kv.K), Value: unhx(kv.V)})
		}
		r, err := mavl.SetKVPair(e.db, set, true, e.cfg)
		if err != nil {
			panic(err)
		}
		root = r
		e.roots = append(e.roots, r)
	}
}

func (e *env) root() []byte {
	if len(e.roots) == 0 {
		return nil
	}
	return e.roots[len(e.roots)-1]
}

type verifyRes struct {
	acc      bool
	panicked string
}

func safeVerifyKV(root, k, v, proof []byte) (res verifyRes) {
	defer func() {
		if r := recover(); r != nil {
			res = verifyRes{panicked: fmt.Sprint(r)}
		}
	}()
	// ReadProof is also an exported entry point: it must not panic either
	_, _ = mavl.ReadProof(root, nil, proof)
	res.acc = mavl.VerifyKVPairProof(nil, root, &types.KeyValue{Key: k, Value: v}, proof)
	return
}

func safeStructVerify(leaf, proot []byte, nodes []*types.InnerNode, k, v, root []byte) (res verifyRes) {
	defer func() {
		if r := recover(); r != nil {
			res = verifyRes{panicked: fmt.Sprint(r)}
		}
	}()
	p := &mavl.Proof{LeafHash: append([]byte{}, leaf...), InnerNodes: nodes, RootHash: proot}
	res.acc = p.Verify(k, v, root)
	return
}

type proveRes struct {
	proof    []byte
	ok       bool // a proof was returned
	err      bool
	panicked string
}

func safeProve(e *env, root, k []byte) (res proveRes) {
	defer func() {
		if r := recover(); r != nil {
			res = proveRes{panicked: fmt.Sprint(r)}
		}
	}()
	p, err := mavl.GetKVPairProof(e.db, root, k, e.cfg)
	if err != nil {
		res.err = true
		return
	}
	res.proof, res.ok = p, p != nil
	return
}

type consRes struct {
	value    []byte
	proof    *mavl.Proof
	panicked string
}

func consOn(t *mavl.Tree, k []byte) (res consRes) {
	defer func() {
		if r := recover(); r != nil {
			res = consRes{panicked: fmt.Sprint(r)}
		}
	}()
	res.value, res.proof = t.ConstructProof(k)
	return
}

func safeCons(e *env, root, k []byte) (res consRes) {
	if r, ok := e.memCons[hx(k)]; ok {
		return r
	}
	defer func() {
		if r := recover(); r != nil {
			res = consRes{panicked: fmt.Sprint(r)}
		}
	}()
	t := mavl.NewTree(e.db, true, e.cfg)
	if err := t.Load(root); err != nil {
		panic(err)
	}
	res.value, res.proof = t.ConstructProof(k)
	return
}

// decode: the protobuf library as decoding oracle (same call as ReadProof).
func decode(data []byte) ([]pnodeT, []*types.InnerNode, bool) {
	var mp types.MAVLProof
	if err := types.Decode(data, &mp); err != nil {
		return nil, nil, false
	}
	var out []pnodeT
	for _, n := range mp.InnerNodes {
		out = append(out, pnodeT{h: n.GetHeight(), s: n.GetSize(), l: n.GetLeftHash(), r: n.GetRightHash()})
	}
	return out, mp.InnerNodes, true
}

func encodeNodes(pi []pnodeT) []byte {
	mp := &types.MAVLProof{}
	for _, p := range pi {
		mp.InnerNodes = append(mp.InnerNodes, &types.InnerNode{Height: p.h, Size: p.s, LeftHash: p.l, RightHash: p.r})
	}
	return types.Encode(mp)
}

// ---------------------------------------------------------------- running one case

func runHist(o *hlib.Out, h *Hist, workdir string) {
	e := openEnv(h, workdir)
	defer e.close()
	e.build(h)
	root := e.root()
	t := newTables()
	var shape []string
	var leaves []KVb
	if len(root) != 0 {
		rn := readNode(e.db, root)
		t.shape(rn, nil, &shape)
		rn.leaves(&leaves)
	}
	valOf := map[string][]byte{}
	for _, kv := range leaves {
		valOf[string(kv.k)] = kv.v
	}
	var probes []string
	var implLog []string
	mutations := 0
	for _, p := range h.Probes {
		k, v := unhx(p.Key), unhx(p.Val)
		switch p.Op {
		case "prove":
			r := safeProve(e, root, k)
			if r.panicked != "" || r.err {
				probes = append(probes, fmt.Sprintf("PPanic %d", t.B(k)))
				implLog = append(implLog, "prove "+p.Key+" PANIC/ERR "+r.panicked)
				continue
			}
			if !r.ok {
				probes = append(probes, fmt.Sprintf("PProve %d None true", t.B(k)))
				continue
			}
			pi, _, ok := decode(r.proof)
			if !ok {
				probes = append(probes, fmt.Sprintf("PPanic %d", t.B(r.proof)))
				implLog = append(implLog, "prove "+p.Key+": returned proof does not decode")
				continue
			}
			sv, present := valOf[string(k)]
			self := false
			if present {
				vr := safeVerifyKV(root, k, sv, r.proof)
				if vr.panicked != "" {
					probes = append(probes, fmt.Sprintf("PPanic %d", t.B(r.proof)))
					continue
				}
				self = vr.acc
				t.chain(k, sv, pi)
			}
			probes = append(probes, fmt.Sprintf("PProve %d (Some %s) %s", t.B(k), t.PI(pi), hlib.Bool(self)))
		case "cons":
			r := safeCons(e, root, k)
			if r.panicked != "" {
				probes = append(probes, fmt.Sprintf("PPanic %d", t.B(k)))
				implLog = append(implLog, "cons "+p.Key+" PANIC "+r.panicked)
				continue
			}
			if r.proof == nil {
				probes = append(probes, fmt.Sprintf("PCons %d None true", t.B(k)))
				continue
			}
			var pi []pnodeT
			for _, n := range r.proof.InnerNodes {
				pi = append(pi, pnodeT{h: n.Height, s: n.Size, l: n.LeftHash, r: n.RightHash})
			}
			lh, pr := append([]byte{}, r.proof.LeafHash...), append([]byte{}, r.proof.RootHash...)
			vr := safeStructVerify(lh, pr, r.proof.InnerNodes, k, r.value, pr)
			if vr.panicked != "" {
				probes = append(probes, fmt.Sprintf("PPanic %d", t.B(k)))
				continue
			}
			t.chain(k, r.value, pi)
			probes = append(probes, fmt.Sprintf("PCons %d (Some (CR %d %d %d %s)) %s", t.B(k), t.B(r.value), t.B(lh), t.B(pr), t.PI(pi), hlib.Bool(vr.acc)))
		case "verify":
			mutations++
			rootArg, proof := unhx(p.Root), unhx(p.Proof)
			vr := safeVerifyKV(rootArg, k, v, proof)
			if vr.panicked != "" {
				probes = append(probes, fmt.Sprintf("PPanic %d", t.B(proof)))
				implLog = append(implLog, "verify PANIC "+vr.panicked+" proof="+p.Proof)
				continue
			}
			pi, _, ok := decode(proof)
			if !ok {
				probes = append(probes, fmt.Sprintf("PVerify %d %d %d None %s", t.B(rootArg), t.B(k), t.B(v), hlib.Bool(vr.acc)))
			} else {
				t.chain(k, v, pi)
				probes = append(probes, fmt.Sprintf("PVerify %d %d %d (Some %s) %s", t.B(rootArg), t.B(k), t.B(v), t.PI(pi), hlib.Bool(vr.acc)))
			}
			if vr.acc {
				implLog = append(implLog, "accepted: "+p.Note)
			}
		case "struct":
			mutations++
			rootArg, proof, leaf, proot := unhx(p.Root), unhx(p.Proof), unhx(p.Leaf), unhx(p.PRoot)
			pi, nodes, ok := decode(proof)
			if !ok {
				panic("struct probe with undecodable node list")
			}
			vr := safeStructVerify(leaf, proot, nodes, k, v, rootArg)
			if vr.panicked != "" {
				probes = append(probes, fmt.Sprintf("PPanic %d", t.B(proof)))
				implLog = append(implLog, "struct verify PANIC "+vr.panicked)
				continue
			}
			t.chain(k, v, pi)
			probes = append(probes, fmt.Sprintf("PStruct %d %d %s %d %d %d %s", t.B(leaf), t.B(proot), t.PI(pi), t.B(k), t.B(v), t.B(rootArg), hlib.Bool(vr.acc)))
			if vr.acc {
				implLog = append(implLog, "accepted(struct): "+p.Note)
			}
		default:
			panic("unknown probe op " + p.Op)
		}
	}
	term := "(Case " + "[" + strings.Join(t.tbl, ";") + "] " + plist(t.pns) + " " + plist(t.ht) + " " + plist(shape) +
		fmt.Sprintf(" %d ", t.B(root)) + plist(probes) + ")"
	nontrivial := len(leaves) >= 3 && mutations >= 1
	if len(implLog) > 12 {
		implLog = append(implLog[:12], fmt.Sprintf("... %d more", len(implLog)-12))
	}
	o.Emit(h.Kind, nontrivial, term, h, map[string]interface{}{"root": hx(root), "leaves": len(leaves), "probes": len(probes), "log": implLog})
}

func plist(items []string) string {
	if len(items) == 0 {
		return "[]"
	}
	return "[" + strings.Join(items, ";") + "]"
}

// ---------------------------------------------------------------- generators

var prefixes = []string{"", "mavl-coins-bty-", "mavl-coins-bty-exec-1HPkPopVe3ERfvaAgedDtJQ792taZFEHCe:", "mavl-ticket-", "a", "\x00", "\xff", "\xff\xff"}
var alpha = []byte{0x00, 0x01, 0x61, 0x62, 0xfe, 0xff}

func genKey(r *hlib.Rng) []byte {
	switch r.Intn(12) {
	case 0:
		return []byte{}
	case 1:
		return []byte{alpha[r.Intn(len(alpha))]}
	}
	p := []byte(prefixes[r.Intn(len(prefixes))])
	n := r.Range(0, 3)
	for i := 0; i < n; i++ {
		p = append(p, alpha[r.Intn(len(alpha))])
	}
	return p
}

func genVal(r *hlib.Rng, k []byte) []byte {
	if (len(k) > 32 && r.Chance(1, 6)) || r.Chance(1, 10) {
		// hash-sized value, also under short keys (a leaf that shares its hash input
		// with an inner node {height 0, size 1}: no restriction since the fix c3a108e)
		return r.Bytes(32)
	}
	n := r.Range(0, 3)
	if n == 0 && !r.Chance(1, 4) {
		n = 1
	}
	v := make([]byte, n)
	for i := range v {
		v[i] = byte(r.Intn(4)) + 0x30
	}
	return v
}

func flip(r *hlib.Rng, b []byte) []byte {
	c := append([]byte{}, b...)
	if len(c) == 0 {
		return []byte{0x01}
	}
	c[r.Intn(len(c))] ^= 1 << uint(r.Intn(8))
	return c
}

func neighbour(r *hlib.Rng, k []byte) []byte {
	c := append([]byte{}, k...)
	switch r.Intn(4) {
	case 0:
		return append(c, 0x00)
	case 1:
		if len(c) > 0 {
			return c[:len(c)-1]
		}
		return []byte{0x00}
	case 2:
		if len(c) > 0 {
			c[len(c)-1]++
			return c
		}
		return []byte{0x01}
	}
	return flip(r, c)
}

func genBatches(r *hlib.Rng, nBatches, lo, hi int) [][]KV {
	var out [][]KV
	var known [][]byte
	for b := 0; b < nBatches; b++ {
		n := r.Range(lo, hi)
		var kvs []KV
		for i := 0; i < n; i++ {
			var k []byte
			if len(known) > 0 && r.Chance(1, 5) {
				k = known[r.Intn(len(known))] // overwrite
			} else {
				k = genKey(r)
				known = append(known, k)
			}
			kvs = append(kvs, KV{hx(k), hx(genVal(r, k))})
		}
		out = append(out, kvs)
	}
	return out
}

// genProbes builds the tree once to obtain honest proofs, then derives the probes.
type plan struct {
	proveAll   bool
	proveN     int
	consN      int
	mutKeys    int  // keys whose proof gets the full mutation set
	lightMuts  bool // only a handful of mutations per key
	sampled    bool // each node-level mutation kind at one random node instead of at every node
	malformedN int
}

func addProbes(r *hlib.Rng, h *Hist, workdir string, pl plan) {
	e := openEnv(h, workdir)
	defer e.close()
	e.build(h)
	root := e.root()
	var leaves []KVb
	if len(root) != 0 {
		readNode(e.db, root).leaves(&leaves)
	}
	// prove probes
	idx := make([]int, len(leaves))
	for i := range idx {
		idx[i] = i
	}
	hlib.Shuffle(r, idx)
	nProve := len(leaves)
	if !pl.proveAll && pl.proveN < nProve {
		nProve = pl.proveN
	}
	for _, i := range idx[:nProve] {
		h.Probes = append(h.Probes, ProbeIn{Op: "prove", Key: hx(leaves[i].k)})
	}
	// absent keys
	nAbs := 3
	for i := 0; i < nAbs; i++ {
		var k []byte
		if len(leaves) > 0 {
			k = neighbour(r, leaves[r.Intn(len(leaves))].k)
		} else {
			k = genKey(r)
		}
		h.Probes = append(h.Probes, ProbeIn{Op: "prove", Key: hx(k)})
		if i == 0 {
			h.Probes = append(h.Probes, ProbeIn{Op: "cons", Key: hx(k)})
		}
	}
	for i := 0; i < pl.consN && i < len(leaves); i++ {
		h.Probes = append(h.Probes, ProbeIn{Op: "cons", Key: hx(leaves[idx[i]].k)})
	}
	// mutations
	for i := 0; i < pl.mutKeys && i < len(leaves); i++ {
		kv := leaves[idx[len(idx)-1-i]]
		pr := safeProve(e, root, kv.k)
		if !pr.ok {
			continue
		}
		mutate(r, h, e, root, leaves, kv, pr.proof, pl.lightMuts, pl.sampled)
		if i == 0 {
			cr := safeCons(e, root, kv.k)
			if cr.proof != nil {
				structMutations(r, h, root, kv, cr.proof)
			}
		}
	}
	for i := 0; i < pl.malformedN; i++ {
		var kv KVb
		var honest []byte
		if len(leaves) > 0 {
			kv = leaves[r.Intn(len(leaves))]
			honest = safeProve(e, root, kv.k).proof
		}
		h.Probes = append(h.Probes, ProbeIn{Op: "verify", Key: hx(kv.k), Val: hx(kv.v), Root: hx(root), Proof: hx(malformed(r, honest)), Note: "malformed"})
	}
}

func vprobe(h *Hist, root, k, v, proof []byte, note string) {
	h.Probes = append(h.Probes, ProbeIn{Op: "verify", Key: hx(k), Val: hx(v), Root: hx(root), Proof: hx(proof), Note: note})
}

func clonePI(pi []pnodeT) []pnodeT {
	c := make([]pnodeT, len(pi))
	copy(c, pi)
	return c
}

func mutate(r *hlib.Rng, h *Hist, e *env, root []byte, leaves []KVb, kv KVb, proof []byte, light, sampled bool) {
	pi, _, ok := decode(proof)
	if !ok {
		return
	}
	k, v := kv.k, kv.v
	vprobe(h, root, k, v, proof, "honest")
	// value
	vprobe(h, root, k, flip(r, v), proof, "value bit flipped")
	vprobe(h, root, k, append(append([]byte{}, v...), 0x00), proof, "value + 00")
	if len(v) > 0 {
		vprobe(h, root, k, v[:len(v)-1], proof, "value truncated")
		vprobe(h, root, k, nil, proof, "value empty")
	}
	// key
	vprobe(h, root, flip(r, k), v, proof, "key bit flipped")
	vprobe(h, root, append(append([]byte{}, k...), 0x00), v, proof, "key + 00")
	if len(leaves) > 1 {
		o := leaves[r.Intn(len(leaves))]
		if !bytes.Equal(o.k, k) {
			vprobe(h, root, o.k, o.v, proof, "other pair of the tree with this proof")
			vprobe(h, root, o.k, v, proof, "other key, this value")
			vprobe(h, root, k, o.v, proof, "this key, other value")
		}
	}
	vprobe(h, root, v, k, proof, "key and value swapped")
	// root
	vprobe(h, flip(r, root), k, v, proof, "root bit flipped")
	vprobe(h, nil, k, v, proof, "root empty")
	vprobe(h, root[:len(root)-1], k, v, proof, "root truncated")
	vprobe(h, append([]byte("_mh-0000000001-"), root...), k, v, proof, "root with a prefix")
	for i, or := range e.roots {
		if i < len(e.roots)-1 && len(or) > 0 && !bytes.Equal(or, root) && (i == 0 || r.Chance(1, 2)) {
			vprobe(h, or, k, v, proof, "older root of the same store")
			// and the older version's own proof against the new root
			op := safeProve(e, or, k)
			if op.ok && !bytes.Equal(op.proof, proof) {
				vprobe(h, root, k, v, op.proof, "proof produced at an older root")
			}
		}
	}
	// two-sided proof nodes (both sibling slots filled), combined with right and wrong claims
	if len(pi) > 0 {
		var at []int
		if light || sampled {
			at = []int{0}
			if j := r.Intn(len(pi)); j != 0 {
				at = append(at, j)
			}
		} else {
			for i := range pi {
				at = append(at, i)
			}
		}
		twoSided(r, h, root, leaves, kv, pi, at)
	}
	if light {
		if len(pi) > 0 {
			i := r.Intn(len(pi))
			c := clonePI(pi)
			c[i].h++
			vprobe(h, root, k, v, encodeNodes(c), "height+1")
			c = clonePI(pi)
			c[i].l, c[i].r = c[i].r, c[i].l
			vprobe(h, root, k, v, encodeNodes(c), "sides swapped")
			vprobe(h, root, k, v, encodeNodes(pi[:len(pi)-1]), "last node dropped")
		}
		return
	}
	// node fields: every kind at every node (full) or each kind at one random node (sampled)
	for i0 := range pi {
		i := i0
		mut := func(note string, f func(p *pnodeT)) {
			if sampled {
				if i0 != 0 {
					return
				}
				i = r.Intn(len(pi))
			}
			c := clonePI(pi)
			f(&c[i])
			vprobe(h, root, k, v, encodeNodes(c), fmt.Sprintf("node %d: %s", i, note))
		}
		mut("height+1", func(p *pnodeT) { p.h++ })
		mut("height-1", func(p *pnodeT) { p.h-- })
		mut("size+1", func(p *pnodeT) { p.s++ })
		mut("size-1", func(p *pnodeT) { p.s-- })
		mut("sides swapped", func(p *pnodeT) { p.l, p.r = p.r, p.l })
		mut("sibling digest bit flipped", func(p *pnodeT) {
			if len(p.l) > 0 {
				c := append([]byte{}, p.l...)
				c[len(c)-1-r.Intn(32)] ^= 1 << uint(r.Intn(8))
				p.l = c
			} else {
				c := append([]byte{}, p.r...)
				c[len(c)-1-r.Intn(32)] ^= 1 << uint(r.Intn(8))
				p.r = c
			}
		})
		mut("sibling emptied", func(p *pnodeT) { p.l, p.r = nil, nil })
		mut("sibling truncated", func(p *pnodeT) {
			if len(p.l) > 0 {
				p.l = p.l[len(p.l)-31:]
			} else {
				p.r = p.r[len(p.r)-31:]
			}
		})
		// neutral or not, decided by the model: garbage in front of the sibling hash
		mut("garbage before sibling hash", func(p *pnodeT) {
			if len(p.l) > 0 {
				p.l = append([]byte("xyz"), p.l...)
			} else {
				p.r = append([]byte("xyz"), p.r...)
			}
		})
		mut("prefix of sibling hash removed", func(p *pnodeT) { p.l, p.r = refTrim(p.l), refTrim(p.r) })
		mut("empty side filled", func(p *pnodeT) {
			if len(p.l) == 0 {
				p.l = []byte{0x01}
			} else {
				p.r = []byte{0x01}
			}
		})
		mut("height 0 size 1", func(p *pnodeT) { p.h, p.s = 0, 1 })
		mut("height negative", func(p *pnodeT) { p.h = -p.h })
		mut("height/size swapped", func(p *pnodeT) { p.h, p.s = p.s, p.h })
	}
	// node list
	for i := range pi {
		if sampled && i != len(pi)/2 {
			continue
		}
		c := append(clonePI(pi[:i]), pi[i+1:]...)
		vprobe(h, root, k, v, encodeNodes(c), fmt.Sprintf("node %d dropped", i))
		d := append(clonePI(pi[:i+1]), pi[i:]...)
		vprobe(h, root, k, v, encodeNodes(d), fmt.Sprintf("node %d duplicated", i))
		if i+1 < len(pi) {
			s := clonePI(pi)
			s[i], s[i+1] = s[i+1], s[i]
			vprobe(h, root, k, v, encodeNodes(s), fmt.Sprintf("nodes %d,%d exchanged", i, i+1))
		}
	}
	if len(pi) > 1 {
		rev := clonePI(pi)
		for i, j := 0, len(rev)-1; i < j; i, j = i+1, j-1 {
			rev[i], rev[j] = rev[j], rev[i]
		}
		vprobe(h, root, k, v, encodeNodes(rev), "nodes reversed")
	}
	vprobe(h, root, k, v, nil, "empty proof")
	extra := pnodeT{h: 1, s: 2, r: r.Bytes(32)}
	vprobe(h, root, k, v, encodeNodes(append(clonePI(pi), extra)), "extra node appended")
	vprobe(h, root, k, v, encodeNodes(append([]pnodeT{extra}, pi...)), "extra node prepended")
	// byte level, harmless for the decoder
	vprobe(h, root, k, v, append(append([]byte{}, proof...), 0x0a, 0x02, 0xaa, 0xbb), "MAVLProof.leafHash field appended")
	vprobe(h, root, k, v, append(append([]byte{}, proof...), 0x1a, 0x01, 0xcc), "MAVLProof.rootHash field appended")
	vprobe(h, root, k, v, append(append([]byte{}, proof...), 0x78, 0x05), "unknown field appended")
	// truncations of the honest bytes
	for _, cut := range []int{1, 2, len(proof) / 2, len(proof) - 1} {
		if cut > 0 && cut < len(proof) {
			vprobe(h, root, k, v, proof[:cut], fmt.Sprintf("proof bytes cut at %d", cut))
		}
	}
}

// refDigests: the genuine digest entering each node of an honest path (index 0 = the
// leaf digest), computed with the harness's own encoder.
func refDigests(k, v []byte, pi []pnodeT) [][]byte {
	d := sha256.Sum256(encNode(k, v, 0, 1))
	cur := d[:]
	out := [][]byte{cur}
	for _, p := range pi {
		if len(p.l) == 0 {
			d = sha256.Sum256(encNode(refTrim(cur), refTrim(p.r), p.h, p.s))
		} else {
			d = sha256.Sum256(encNode(refTrim(p.l), refTrim(cur), p.h, p.s))
		}
		cur = append([]byte{}, d[:]...)
		out = append(out, cur)
	}
	return out
}

// twoSided: forged proofs whose node i has BOTH sibling slots filled: the empty slot of
// the honest node gets (a) the genuine digest of the child on the path, (b) a copy of the
// genuine sibling, (c) random 32 bytes, (d) the genuine child digest behind a prefix.
// Each forged proof is offered with the right pair (answer decided by the model), and
// with wrong values / wrong keys (present and absent), which must all be rejected.
func twoSided(r *hlib.Rng, h *Hist, root []byte, leaves []KVb, kv KVb, pi []pnodeT, at []int) {
	k, v := kv.k, kv.v
	ds := refDigests(k, v, pi)
	for _, i := range at {
		sib := pi[i].l
		if len(sib) == 0 {
			sib = pi[i].r
		}
		fills := []struct {
			name string
			b    []byte
		}{
			{"genuine child digest", ds[i]},
			{"copy of the sibling", append([]byte{}, sib...)},
			{"random 32 bytes", r.Bytes(32)},
		}
		if i == 0 && r.Chance(1, 2) {
			fills = append(fills, struct {
				name string
				b    []byte
			}{"prefixed genuine child digest", append([]byte("_mh-0000000001-"), ds[i]...)})
		}
		for fi, f := range fills {
			c := clonePI(pi)
			if len(c[i].l) == 0 {
				c[i].l = f.b
			} else {
				c[i].r = f.b
			}
			enc := encodeNodes(c)
			note := fmt.Sprintf("node %d two-sided (%s): ", i, f.name)
			vprobe(h, root, k, v, enc, note+"right pair")
			vprobe(h, root, k, flip(r, v), enc, note+"value bit flipped")
			if fi != 0 {
				continue
			}
			// the full set of wrong claims for the genuine child digest
			vprobe(h, root, flip(r, k), v, enc, note+"key bit flipped")
			vprobe(h, root, neighbour(r, k), r.Bytes(r.Range(0, 4)), enc, note+"neighbour key, random value")
			if len(leaves) > 1 {
				o := leaves[r.Intn(len(leaves))]
				if !bytes.Equal(o.k, k) {
					vprobe(h, root, o.k, v, enc, note+"other key, this value")
				}
			}
			// the suffix of the forged path alone: node i upwards says nothing about the leaf
			if i > 0 {
				vprobe(h, root, k, flip(r, v), encodeNodes(c[i:]), note+"path from node i only, value bit flipped")
			}
		}
	}
}

func sprobe(h *Hist, leaf, proot []byte, nodes []pnodeT, k, v, root []byte, note string) {
	h.Probes = append(h.Probes, ProbeIn{Op: "struct", Key: hx(k), Val: hx(v), Root: hx(root), Proof: hx(encodeNodes(nodes)), Leaf: hx(leaf), PRoot: hx(proot), Note: note})
}

func structMutations(r *hlib.Rng, h *Hist, root []byte, kv KVb, p *mavl.Proof) {
	var pi []pnodeT
	for _, n := range p.InnerNodes {
		pi = append(pi, pnodeT{h: n.Height, s: n.Size, l: n.LeftHash, r: n.RightHash})
	}
	lh, pr := append([]byte{}, p.LeafHash...), append([]byte{}, p.RootHash...)
	k, v := kv.k, kv.v
	sprobe(h, lh, pr, pi, k, v, root, "honest struct")
	sprobe(h, flip(r, refTrim(lh)), pr, pi, k, v, root, "LeafHash digest bit flipped")
	sprobe(h, append([]byte("_mlb-0000000099-"), refTrim(lh)...), pr, pi, k, v, root, "LeafHash with another prefix")
	sprobe(h, refTrim(lh), pr, pi, k, v, root, "LeafHash without prefix")
	sprobe(h, refTrim(lh)[1:], pr, pi, k, v, root, "LeafHash 31 bytes")
	sprobe(h, nil, pr, pi, k, v, root, "LeafHash empty")
	sprobe(h, lh, flip(r, pr), pi, k, v, root, "RootHash differs from root argument")
	fr := flip(r, pr)
	sprobe(h, lh, fr, pi, k, v, fr, "RootHash and root argument both altered")
	sprobe(h, lh, pr, pi, k, flip(r, v), root, "struct: value bit flipped")
	sprobe(h, lh, pr, pi, flip(r, k), v, root, "struct: key bit flipped")
	if len(pi) > 0 {
		sprobe(h, lh, pr, pi[1:], k, v, root, "struct: first node dropped")
	}
}

func malformed(r *hlib.Rng, honest []byte) []byte {
	switch r.Intn(10) {
	case 0:
		return r.Bytes(r.Range(1, 12))
	case 1:
		return r.Bytes(r.Range(13, 90))
	case 2: // random cut of an honest proof
		if len(honest) > 1 {
			return honest[:r.Range(1, len(honest)-1)]
		}
		return []byte{0x12}
	case 3: // bit flip anywhere in the honest bytes
		if len(honest) > 0 {
			return flip(r, honest)
		}
		return []byte{0x12, 0x00}
	case 4: // length prefix far beyond the data
		return append([]byte{0x12, 0xff, 0xff, 0xff, 0xff, 0x0f}, r.Bytes(r.Range(0, 8))...)
	case 5: // over-long varint / varint overflow inside a node
		return []byte{0x12, 0x0c, 0x18, 0xff, 0xff, 0xff, 0xff, 0xff, 0xff, 0xff, 0xff, 0xff, 0x7f, 0x20}
	case 6: // wrong wire types for known fields
		return append([]byte{0x10, 0x05, 0x12, 0x04, 0x0d, 0x01, 0x02, 0x03}, r.Bytes(r.Range(0, 3))...)
	case 7: // group markers / field number 0
		return [][]byte{{0x13}, {0x14}, {0x00}, {0x12, 0x02, 0x00, 0x00}, {0x12, 0x01, 0x0b}, {0x0b, 0x0c}}[r.Intn(6)]
	case 8: // nodes with int32 extremes and empty hashes
		return encodeNodes([]pnodeT{{h: -2147483648, s: 2147483647}, {h: 0, s: 0, l: []byte{}, r: []byte{}}, {h: 1, s: 2, l: r.Bytes(70), r: r.Bytes(5)}})
	default: // honest bytes with a random insertion
		if len(honest) > 0 {
			i := r.Intn(len(honest))
			c := append([]byte{}, honest[:i]...)
			c = append(c, r.Bytes(r.Range(1, 3))...)
			return append(c, honest[i:]...)
		}
		return []byte{0xff}
	}
}

// ---- finding C03-leaf-inner-confusion (fixed in chain33 c3a108e): a leaf that reads as an inner
// node (LeafNode and InnerNode share one encoding). Every probe of these streams must be REJECTED.

// confuseHist: the tree holds a leaf (k0, v0) where one of k0 / v0 is the 32-byte leaf
// digest of a pair (fk, fv) that is NOT in the tree; the forged proof puts a node
// {height 0, size 1} in front of the honest path of k0 (without the height test of
// Proof.Verify the chain ends in the root). guarded: the same attempt on a tree whose
// leaf cannot be read as an inner node (long key / long value).
func confuseHist(r *hlib.Rng, variant int, nOther int, prefix bool, workdir string, guarded bool) *Hist {
	h := &Hist{Kind: "confuse", Prefix: prefix}
	if guarded {
		h.Kind = "nearmiss"
	}
	fk, fv := []byte("mavl-coins-bty-forged"), []byte("1000000")
	d := sha256.Sum256(encNode(fk, fv, 0, 1))
	var k0, v0 []byte
	var forged pnodeT
	switch variant {
	case 0: // value = digest, short non-empty key:   InnerNode{left = k0, right = child}
		k0, v0 = []byte("cfg-hash"), d[:]
		if guarded {
			k0 = []byte("mavl-coins-bty-a-key-longer-than-32-bytes")
		}
		forged = pnodeT{h: 0, s: 1, l: k0}
	default: // key = digest, short value:             InnerNode{left = child, right = v0}
		k0, v0 = d[:], []byte("v")
		if guarded {
			v0 = r.Bytes(33)
		}
		forged = pnodeT{h: 0, s: 1, r: v0}
	}
	h.Batches = genBatches(r, 1+r.Intn(2), nOther, nOther)
	if nOther == 0 {
		h.Batches = nil
	}
	h.Batches = append(h.Batches, []KV{{hx(k0), hx(v0)}})
	e := openEnv(h, workdir)
	defer e.close()
	e.build(h)
	root := e.root()
	pr := safeProve(e, root, k0)
	pi, _, _ := decode(pr.proof)
	h.Probes = append(h.Probes, ProbeIn{Op: "prove", Key: hx(k0)}, ProbeIn{Op: "prove", Key: hx(fk)})
	vprobe(h, root, fk, fv, encodeNodes(append([]pnodeT{forged}, pi...)), "FORGED: pair not in the tree, leaf read as inner node")
	// further attempts that must all fail
	f2 := forged
	f2.h = 1
	vprobe(h, root, fk, fv, encodeNodes(append([]pnodeT{f2}, pi...)), "forged with height 1")
	f3 := forged
	f3.h = -1
	vprobe(h, root, fk, fv, encodeNodes(append([]pnodeT{f3}, pi...)), "forged with height -1")
	return h
}

// ---------------------------------------------------------------- main

func main() {
	opts := hlib.ParseFlags()
	clog.SetLogLevel("crit")
	o := hlib.NewOut(opts.OutDir)
	defer o.Close()
	workdir := opts.OutDir
	if opts.Replay != "" {
		var h Hist
		if err := hlib.ReplayInput(opts.Replay, &h); err != nil {
			panic(err)
		}
		runHist(o, &h, workdir)
		return
	}
	r := hlib.NewRng(opts.Seed)
	mult := 1
	if opts.Thorough() {
		mult = 8
	}
	cfgOf := func(i int) (bool, bool, bool) { return i%2 == 1, i%4 >= 2, i%7 == 6 }
	emit := func(kind string, i int, batches [][]KV, pl plan) {
		p, pr, l := cfgOf(i)
		h := &Hist{Kind: kind, Prefix: p, Prune: pr, LevelDB: l, Batches: batches, Mem: i%3 == 0 && len(batches) > 0}
		if h.Mem {
			h.Kind = kind + "-mem"
		}
		addProbes(r, h, workdir, pl)
		runHist(o, h, workdir)
	}
	// empty tree and single leaves
	emit("tiny", 0, nil, plan{proveAll: true, malformedN: 2})
	emit("tiny", 1, [][]KV{{}}, plan{proveAll: true, malformedN: 2})
	for i := 0; i < 28*mult; i++ {
		emit("tiny", i, genBatches(r, r.Range(1, 3), 1, 2), plan{proveAll: true, consN: 3, mutKeys: 1, malformedN: 2})
	}
	for i := 0; i < 40*mult; i++ {
		emit("small", i, genBatches(r, r.Range(2, 4), 2, 6), plan{proveAll: true, consN: 3, mutKeys: 1, sampled: true, malformedN: 2})
	}
	for i := 0; i < 12*mult; i++ {
		emit("medium", i, genBatches(r, r.Range(3, 8), 4, 12), plan{proveAll: true, consN: 3, mutKeys: 2, lightMuts: true, malformedN: 1})
	}
	for i := 0; i < 2*mult; i++ {
		emit("large", i, genBatches(r, r.Range(5, 10), 20, 40), plan{proveN: 12, consN: 3, mutKeys: 2, lightMuts: true})
	}
	for i := 0; i < 24*mult; i++ {
		emit("malformed", i, genBatches(r, 1, 1, 4), plan{proveN: 1, malformedN: 14})
	}
	// the forgeries of the fixed finding C03-leaf-inner-confusion, and the same attempts on trees without a confusable leaf
	for i := 0; i < 6*mult; i++ {
		runHist(o, confuseHist(r, i%2, []int{0, 0, 2, 5, 9, 14}[i%6], i%4 >= 2, workdir, false), workdir)
	}
	for i := 0; i < 6*mult; i++ {
		runHist(o, confuseHist(r, i%2, []int{0, 0, 2, 5, 9, 14}[i%6], i%4 >= 2, workdir, true), workdir)
	}
}
