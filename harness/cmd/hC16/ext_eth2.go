package main

import (
	"math/big"
	"strings"

	"github.com/33cn/chain33/common/crypto"
	ethdrv "github.com/33cn/chain33/system/crypto/secp256k1eth"
	"github.com/33cn/chain33/types"
	ecommon "github.com/ethereum/go-ethereum/common"
	etypes "github.com/ethereum/go-ethereum/core/types"
	"verifharness/hlib"
)

type ealt struct {
	name string
	t    *types.Transaction
}

// alterations of the wrapped payload: each changes exactly Transaction.Payload
func ethPayloadAlts(r *hlib.Rng, b *ethBase) []ealt {
	var out []ealt
	add := func(name string, f func(a *types.EVMContractAction4Chain33)) {
		a := types.Clone(b.act).(*types.EVMContractAction4Chain33)
		f(a)
		t := pclone(b.t0)
		t.Payload = types.Encode(a)
		out = append(out, ealt{"payload:" + name, t})
	}
	raw := func(name string, p []byte) {
		t := pclone(b.t0)
		t.Payload = p
		out = append(out, ealt{"payload:" + name, t})
	}
	add("gasLimit", func(a *types.EVMContractAction4Chain33) { a.GasLimit = uint64(r.Intn(100)) })
	add("gasPrice", func(a *types.EVMContractAction4Chain33) { a.GasPrice = uint32(2 + r.Intn(100)) })
	add("alias", func(a *types.EVMContractAction4Chain33) { a.Alias = "zz" })
	add("amount", func(a *types.EVMContractAction4Chain33) { a.Amount++ })
	add("para", func(a *types.EVMContractAction4Chain33) { a.Para = append(append([]byte{}, a.Para...), 1) })
	add("contractAddr", func(a *types.EVMContractAction4Chain33) { a.ContractAddr = "0x1111111111111111111111111111111111111111" })
	add("code", func(a *types.EVMContractAction4Chain33) { a.Code = append(append([]byte{}, a.Code...), 1) })
	add("note-empty", func(a *types.EVMContractAction4Chain33) { a.Note = "" })
	add("note-0x", func(a *types.EVMContractAction4Chain33) { a.Note = "0x" + a.Note })
	add("note-0X", func(a *types.EVMContractAction4Chain33) { a.Note = "0X" + a.Note })
	add("note-upper", func(a *types.EVMContractAction4Chain33) { a.Note = strings.ToUpper(a.Note) })
	add("note-tail", func(a *types.EVMContractAction4Chain33) { a.Note += "zz" + hlib.HexS(r.Bytes(2)) })
	add("note-odd", func(a *types.EVMContractAction4Chain33) { a.Note = a.Note[1:] })
	add("note-flip", func(a *types.EVMContractAction4Chain33) {
		nb := ecommon.FromHex(a.Note)
		nb[r.Intn(len(nb))] ^= byte(1 << uint(r.Intn(8)))
		a.Note = ecommon.Bytes2Hex(nb)
	})
	// the Ethereum transaction re-wrapped with other (v, r, s) values inside the note
	if other, err := b.stx.WithSignature(etypes.NewLondonSigner(big.NewInt(ethChain)), append(r.Bytes(64), byte(r.Intn(2)))); err == nil {
		if rawTx, err := other.MarshalBinary(); err == nil {
			add("note-inner-sig", func(a *types.EVMContractAction4Chain33) { a.Note = ecommon.Bytes2Hex(rawTx) })
		}
	}
	// unknown / repeated fields inside the payload
	enc := types.Encode(b.act)
	raw("unknown-field", append(append([]byte{}, enc...), rUnknown(r)...))
	raw("repeat-gasLimit", append(append([]byte{}, enc...), fVar(2, 5)...))
	raw("repeat-amount", append(append([]byte{}, enc...), fVar(1, b.act.Amount+1)...))
	raw("repeat-amount-same", append(append([]byte{}, enc...), fVar(1, b.act.Amount)...))
	raw("garbage", r.Bytes(r.Range(1, 9)))
	raw("empty", nil)
	return out
}

func ethStream(o *hlib.Out, r *hlib.Rng, cfgs []cfgIn, nBase int) {
	st := drvByName(ethdrv.Name)
	if st == nil || !st.Enable {
		return
	}
	for k := 0; k < nBase; k++ {
		b := rEthTx(r, k)
		if b == nil {
			continue
		}
		t0 := b.t0
		h := enabledHeight(st, r)
		for _, hh := range []int64{-1, st.Height - 1, st.Height, h} {
			emitEth(o, "eth-unchanged", cfgs, hh, t0, pclone(t0))
		}
		names, muts := fieldMutants(r, t0)
		for i, m := range muts {
			f := strings.SplitN(names[i], ":", 2)[0]
			if f == "Payload" {
				continue // covered field by field below
			}
			emitEth(o, "eth-field/"+f, cfgs, h, t0, m)
		}
		for _, a := range ethPayloadAlts(r, b) {
			emitEth(o, "eth-"+a.name, cfgs, h, t0, a.t)
		}
		// signature message
		s := t0.Signature
		m := pclone(t0)
		m.Signature.Signature = append(append([]byte{}, s.Signature[:10]...), s.Signature[10]^1)
		m.Signature.Signature = append(m.Signature.Signature, s.Signature[11:]...)
		emitEth(o, "eth-sig:flip", cfgs, h, t0, m)
		m = pclone(t0)
		m.Signature.Pubkey = append([]byte{}, s.Pubkey[:64]...)
		emitEth(o, "eth-pub:trunc", cfgs, h, t0, m)
		m = pclone(t0)
		m.Signature = nil
		emitEth(o, "eth-sig:nil", cfgs, h, t0, m)
	}
	// transactions signed by Transaction.Sign with a secp256k1eth key
	c, err := crypto.Load(ethdrv.Name, -1)
	if err != nil {
		panic(err)
	}
	for k := 0; k < nBase; k++ {
		priv, err := c.PrivKeyFromBytes(r.Bytes(32))
		if err != nil || priv == nil {
			continue
		}
		t0 := signable(r)
		switch k % 4 {
		case 0: // coins transfer with a note
			t0.Execer = []byte("coins")
			t0.Payload = fBytes(1, append(fVar(2, uint64(1+r.Intn(100))), append(fBytes(3, []byte("hi")), fBytes(4, []byte(hlib.Pick(r, tos[1:3])))...)...))
		case 1: // coins transfer without a note
			t0.Execer = []byte("coins")
			t0.Payload = fBytes(1, append(fVar(2, uint64(1+r.Intn(100))), fBytes(4, []byte(hlib.Pick(r, tos[1:3])))...))
		case 2: // evm action with a note that is not a transaction
			t0.Execer = []byte("evm")
			t0.Payload = types.Encode(&types.EVMContractAction4Chain33{Amount: 1, Note: hlib.Pick(r, []string{"00", "c0", "abzz"}), Para: r.Bytes(4)})
		default: // evm action without a note
			t0.Execer = []byte("user.evm.x")
			t0.Payload = types.Encode(&types.EVMContractAction4Chain33{Amount: 1, Para: r.Bytes(4), Alias: "a"})
		}
		func() {
			defer func() { recover() }()
			t0.Sign(types.EncodeSignID(ethdrv.ID, 2), priv)
		}()
		if t0.Signature == nil {
			continue
		}
		h := enabledHeight(st, r)
		emitEth(o, "eth-signed-by-Sign", cfgs, h, t0, pclone(t0))
		m := pclone(t0)
		m.Fee++
		emitEth(o, "eth-signed-by-Sign/Fee", cfgs, h, t0, m)
	}
}
