package main

import (
	"math"

	"github.com/33cn/chain33/common/address"
	"github.com/33cn/chain33/common/crypto"
	"github.com/33cn/chain33/types"
	"verifharness/hlib"
)

// honestly signed transaction of the named driver (nil if the key is unusable)
func signedBy(r *hlib.Rng, name string, ty int32) (t0 *types.Transaction, key []byte) {
	c, err := crypto.Load(name, -1)
	if err != nil {
		panic(err)
	}
	key = r.Bytes(32)
	priv, err := c.PrivKeyFromBytes(key)
	if err != nil || priv == nil {
		return nil, nil
	}
	t0 = signable(r)
	func() {
		defer func() { recover() }()
		t0.Sign(ty, priv)
	}()
	if t0.Signature == nil || len(t0.Signature.Signature) == 0 || len(t0.Signature.Pubkey) == 0 {
		return nil, nil
	}
	return t0, key
}

func drvByName(name string) *drvState {
	for _, d := range registry {
		if d.Name == name {
			return d
		}
	}
	return nil
}

func enabledHeight(st *drvState, r *hlib.Rng) int64 {
	h := st.Height
	if h < 0 {
		h = 0
	}
	return h + int64(r.Intn(3))
}

// wireStream: per base transaction, the canonical encoding with unknown fields
// appended / prepended / inserted, declared fields repeated or mistyped, fields
// reordered, and malformed input; some of the unknown-carrying messages are
// then signed again.
func wireStream(o *hlib.Out, r *hlib.Rng, cfgs []cfgIn, nBase int) {
	drvs := []string{"secp256k1", "ed25519", "secp256k1", "sm2", "secp256r1", "secp256k1eth"}
	for k := 0; k < nBase; k++ {
		name := drvs[k%len(drvs)]
		st := drvByName(name)
		if st == nil || !st.Enable {
			continue
		}
		t0, key := signedBy(r, name, st.ID)
		if t0 == nil {
			continue
		}
		h := enabledHeight(st, r)
		enc := types.Encode(t0)
		bs := boundaries(enc)
		emitWire(o, "wire-canonical", cfgs, h, t0, wEdit(nil, len(enc), nil))
		var resign [][]byte
		for i := 0; i < 5; i++ {
			u := rUnknown(r)
			if i >= 3 {
				u = append(u, rUnknown(r)...)
			}
			w := wEdit(nil, len(enc), u)
			switch i {
			case 1:
				w = wEdit(u, 0, nil)
			case 2:
				w = wEdit(nil, hlib.Pick(r, bs), u)
			}
			if emitWire(o, "wire-unknown", cfgs, h, t0, w) != nil && i%2 == 0 {
				resign = append(resign, w.bytes(enc))
			}
		}
		emitWire(o, "wire-mistyped", cfgs, h, t0, wEdit(nil, hlib.Pick(r, bs), rMistyped(r)))
		for i := 0; i < 4; i++ {
			rep := rRepeat(r, t0)
			w := wEdit(nil, len(enc), rep)
			if i == 3 {
				w = wEdit(rep, 0, nil) // in front: the canonical value wins
			}
			if d := emitWire(o, "wire-repeat", cfgs, h, t0, w); d != nil && i == 0 {
				if _, unk := unknownOf(d); len(unk) == 0 {
					resign = append(resign, w.bytes(enc))
				}
			}
		}
		// reordered fields
		if len(bs) > 2 {
			var parts [][]byte
			for i := 0; i+1 < len(bs); i++ {
				parts = append(parts, enc[bs[i]:bs[i+1]])
			}
			hlib.Shuffle(r, parts)
			var sh []byte
			for _, p := range parts {
				sh = append(sh, p...)
			}
			emitWire(o, "wire-reorder", cfgs, h, t0, wRaw(sh))
		}
		emitWire(o, "wire-malformed", cfgs, h, t0, wEdit(nil, hlib.Pick(r, bs), rMalformed(r)))
		if k%3 == 0 {
			emitWire(o, "wire-malformed", cfgs, h, t0, wRaw(enc[:len(enc)-1-r.Intn(3)]))
		}
		// disabled height: unknown fields do not open the gate
		if st.Height > 0 {
			emitWire(o, "wire-unknown-disabled", cfgs, st.Height-1, t0, wEdit(nil, len(enc), rUnknown(r)))
		}
		for _, wb := range resign {
			emitResign(o, "resign", cfgs, h, name, key, st.ID, wb)
		}
	}
}

// ---------- Signature.Ty bits and From() ----------

var addrIDs []int32

func initAddrIDs() {
	for id := int32(0); id <= address.MaxID; id++ {
		// ids whose driver derives an address from a public key (3 = utxo is registered but panics "implement me")
		ok := func() (ok bool) {
			defer func() {
				if r := recover(); r != nil {
					ok = false
				}
			}()
			address.PubKeyToAddr(id, append([]byte{2}, make([]byte, 32)...))
			return true
		}()
		if ok {
			addrIDs = append(addrIDs, id)
		}
	}
}
func coqAddrIDs() string {
	var it []string
	for _, id := range addrIDs {
		it = append(it, hlib.Z(int64(id)))
	}
	return hlib.List(it)
}

func safeFrom(t *types.Transaction) (out []byte, ok bool) {
	defer func() {
		if r := recover(); r != nil {
			out, ok = nil, false
		}
	}()
	return []byte(t.From()), true
}
func optBytes(b []byte, ok bool) string {
	if !ok {
		return "None"
	}
	return "(Some " + hxc(b) + ")"
}

func emitFrom(o *hlib.Out, kind string, cfgs []cfgIn, h int64, t0 *types.Transaction, ty2 int32) {
	t1 := pclone(t0)
	t1.Signature.Ty = ty2
	_, dout := driverVerdict(t1)
	chk := safeCheck(t1, h)
	f0, ok0 := safeFrom(t0)
	f1, ok1 := safeFrom(t1)
	o.Emit(kind, true,
		hlib.App("CFrom", coqDrivers(), coqAddrIDs(), hlib.Z(h), coqTx(t0), hlib.Z(int64(ty2)), hlib.N(uint64(dout)), hlib.N(uint64(chk)),
			optBytes(f0, ok0), optBytes(f1, ok1)),
		map[string]interface{}{"op": "from", "cfgs": cfgs, "h": h, "t": toJ(t0), "ty2": ty2},
		map[string]interface{}{"checksign": chk, "from0": string(f0), "from0_ok": ok0, "from1": string(f1), "from1_ok": ok1})
}

func fromStream(o *hlib.Out, r *hlib.Rng, cfgs []cfgIn, perDriver int) {
	for _, name := range signDrivers {
		st := drvByName(name)
		if st == nil {
			continue
		}
		for k := 0; k < perDriver; k++ {
			// honest types: plain id, every address id (3..7 have no driver)
			aid := int32((k*3 + r.Intn(3)) % 8)
			ty := st.ID | aid<<12
			t0, _ := signedBy(r, name, ty)
			if t0 == nil {
				continue
			}
			h := enabledHeight(st, r)
			emitFrom(o, "from-honest", cfgs, h, t0, ty)
			if st.Height > 0 {
				emitFrom(o, "from-honest", cfgs, st.Height-1, t0, ty)
			}
			for a := int32(0); a < 8; a++ {
				if a != aid {
					emitFrom(o, "from-addrid", cfgs, h, t0, ty&^0x7000|a<<12)
				}
			}
			emitFrom(o, "from-bit30", cfgs, h, t0, ty|0x40000000)
			emitFrom(o, "from-bit31", cfgs, h, t0, ty|math.MinInt32)
			emitFrom(o, "from-bit15", cfgs, h, t0, ty|0x8000)
			emitFrom(o, "from-bit16", cfgs, h, t0, ty|0x10000)
			other := hlib.Pick(r, registry)
			if other.Name == "sm2" && name != "sm2" {
				other = st // a foreign key under sm2 may panic in the driver (finding 7, covered by verify-ty)
			}
			emitFrom(o, "from-other-driver", cfgs, h, t0, other.ID|aid<<12)
			emitFrom(o, "from-addrid-neg-height", cfgs, -1, t0, ty^0x1000)
		}
	}
}

// ---------- From() and CheckSign of arbitrary presented transactions ----------

// no honest signer behind the presented transaction: any crypto id (registered, "none", unknown), every
// address id, the signer's key / no key / one byte / 65 random bytes, and no Signature at all.
// From() is asked first, as mempool.checkTx does before the signature is checked.
func emitFromAny(o *hlib.Out, kind string, cfgs []cfgIn, h int64, t1 *types.Transaction) {
	f1, ok1 := safeFrom(t1)
	_, dout := driverVerdict(t1)
	chk := safeCheck(t1, h)
	o.Emit(kind, true,
		hlib.App("CFromAny", coqDrivers(), coqAddrIDs(), hlib.Z(h), coqTx(t1), hlib.N(uint64(dout)), hlib.N(uint64(chk)), optBytes(f1, ok1)),
		map[string]interface{}{"op": "fromany", "cfgs": cfgs, "h": h, "t": toJ(t1)},
		map[string]interface{}{"checksign": chk, "from1": string(f1), "from1_ok": ok1})
}

func fromAnyStream(o *hlib.Out, r *hlib.Rng, cfgs []cfgIn, perDriver int) {
	emitFromAny(o, "fromany-nosig", cfgs, 1, signable(r))
	for _, name := range signDrivers {
		st := drvByName(name)
		if st == nil || name == "sm2" { // a foreign / damaged key under sm2 may panic in the driver (finding 7, covered by verify-pub)
			continue
		}
		for k := 0; k < perDriver; k++ {
			t0, _ := signedBy(r, name, st.ID)
			if t0 == nil {
				continue
			}
			h := enabledHeight(st, r)
			ids := []int32{st.ID, st.ID | 0x40000000, 12345}
			if nd := drvByName("none"); nd != nil {
				ids = append(ids, nd.ID)
			}
			for _, id := range ids {
				if id != st.ID && k > 0 {
					continue
				}
				for a := int32(0); a < 8; a++ {
					pubs := [][]byte{t0.Signature.Pubkey, nil}
					if k == 0 {
						pubs = append(pubs, []byte{byte(r.Intn(256))}, r.Bytes(65))
					}
					for pi, pub := range pubs {
						t1 := pclone(t0)
						t1.Signature.Ty = id&^0x7000 | a<<12
						t1.Signature.Pubkey = pub
						kind := "fromany-key"
						switch pi {
						case 1:
							kind = "fromany-nokey"
						case 2, 3:
							kind = "fromany-otherkey"
						}
						hh := h
						if pi == 1 && a%2 == 1 {
							hh = -1
						}
						emitFromAny(o, kind, cfgs, hh, t1)
					}
				}
			}
		}
	}
}
