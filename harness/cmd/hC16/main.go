// hC16: transaction encoding / Hash / FullHash / Clone / Sign / CheckSign of
// chain33 on generated transactions, per registered signature driver.
package main

import (
	"bytes"
	"crypto/sha256"
	"encoding/hex"
	"fmt"
	"math"
	"math/big"
	"reflect"
	"strconv"
	"strings"

	"github.com/33cn/chain33/common/crypto"
	_ "github.com/33cn/chain33/system/address"
	_ "github.com/33cn/chain33/system/crypto/init"
	"github.com/33cn/chain33/types"
	btcec "github.com/btcsuite/btcd/btcec/v2"
	"github.com/golang/protobuf/proto"
	"verifharness/hlib"
)

// ---------- JSON (replay) form of a transaction ----------

type jsig struct {
	Ty  int32  `json:"ty"`
	Pub string `json:"pub"`
	Sig string `json:"sig"`
}
type jtx struct {
	Execer     string `json:"execer"`
	Payload    string `json:"payload"`
	Sig        *jsig  `json:"sig,omitempty"`
	Fee        int64  `json:"fee"`
	Expire     int64  `json:"expire"`
	Nonce      int64  `json:"nonce"`
	To         string `json:"to"` // hex of the string bytes
	GroupCount int32  `json:"groupCount"`
	Header     string `json:"header"`
	Next       string `json:"next"`
	ChainID    int32  `json:"chainID"`
}

func toJ(t *types.Transaction) *jtx {
	j := &jtx{Execer: hlib.HexS(t.Execer), Payload: hlib.HexS(t.Payload), Fee: t.Fee, Expire: t.Expire,
		Nonce: t.Nonce, To: hlib.HexS([]byte(t.To)), GroupCount: t.GroupCount, Header: hlib.HexS(t.Header),
		Next: hlib.HexS(t.Next), ChainID: t.ChainID}
	if t.Signature != nil {
		j.Sig = &jsig{Ty: t.Signature.Ty, Pub: hlib.HexS(t.Signature.Pubkey), Sig: hlib.HexS(t.Signature.Signature)}
	}
	return j
}
func unhex(s string) []byte {
	b, err := hex.DecodeString(s)
	if err != nil {
		panic(err)
	}
	if len(b) == 0 {
		return nil
	}
	return b
}
func fromJ(j *jtx) *types.Transaction {
	t := &types.Transaction{Execer: unhex(j.Execer), Payload: unhex(j.Payload), Fee: j.Fee, Expire: j.Expire,
		Nonce: j.Nonce, To: string(unhex(j.To)), GroupCount: j.GroupCount, Header: unhex(j.Header),
		Next: unhex(j.Next), ChainID: j.ChainID}
	if j.Sig != nil {
		t.Signature = &types.Signature{Ty: j.Sig.Ty, Pubkey: unhex(j.Sig.Pub), Signature: unhex(j.Sig.Sig)}
	}
	return t
}

// hxc renders a byte string; runs of >= 48 equal bytes become (nrep len byte)
// so that long payloads stay small literals.
func hxc(b []byte) string {
	var parts []string
	start := 0
	i := 0
	for i < len(b) {
		j := i
		for j < len(b) && b[j] == b[i] {
			j++
		}
		if j-i >= 48 {
			if i > start {
				parts = append(parts, hlib.Hx(b[start:i]))
			}
			parts = append(parts, fmt.Sprintf("(nrep %d%%N %d%%N)", j-i, b[i]))
			start = j
		}
		i = j
	}
	if start < len(b) || len(parts) == 0 {
		parts = append(parts, hlib.Hx(b[start:]))
	}
	if len(parts) == 1 {
		return parts[0]
	}
	return "(" + strings.Join(parts, " ++ ") + ")%list"
}

// Gallina term of Model.tx
func coqTx(t *types.Transaction) string {
	sg := "None"
	if t.Signature != nil {
		sg = "(Some " + hlib.App("mk_sig", hlib.Z(int64(t.Signature.Ty)), hxc(t.Signature.Pubkey), hxc(t.Signature.Signature)) + ")"
	}
	return hlib.App("mk_tx", hxc(t.Execer), hxc(t.Payload), sg, hlib.Z(t.Fee), hlib.Z(t.Expire), hlib.Z(t.Nonce),
		hxc([]byte(t.To)), hlib.Z(int64(t.GroupCount)), hxc(t.Header), hxc(t.Next), hlib.Z(int64(t.ChainID)))
}

// deep copy independent of the code under test
func pclone(t *types.Transaction) *types.Transaction { return proto.Clone(t).(*types.Transaction) }

// ---------- schema by reflection ----------

func schema(v interface{}) string {
	ty := reflect.TypeOf(v)
	var items []string
	for i := 0; i < ty.NumField(); i++ {
		f := ty.Field(i)
		if f.PkgPath != "" { // unexported (state, sizeCache, unknownFields)
			continue
		}
		tag := f.Tag.Get("protobuf")
		parts := strings.Split(tag, ",")
		num, name := 0, ""
		if len(parts) >= 2 {
			num, _ = strconv.Atoi(parts[1])
		}
		for _, p := range parts {
			if strings.HasPrefix(p, "name=") {
				name = p[5:]
			}
		}
		kind := 99
		switch f.Type.Kind() {
		case reflect.Int64:
			kind = 0
		case reflect.Int32:
			kind = 1
		case reflect.Slice:
			if f.Type.Elem().Kind() == reflect.Uint8 {
				kind = 2
			}
		case reflect.String:
			kind = 3
		case reflect.Ptr:
			kind = 4
		}
		if len(parts) < 1 || (kind <= 1 && parts[0] != "varint") || (kind >= 2 && kind <= 4 && parts[0] != "bytes") {
			kind = 98
		}
		items = append(items, "("+hlib.N(uint64(num))+", "+hlib.N(uint64(kind))+", "+hlib.Hx([]byte(name))+")")
	}
	return hlib.List(items)
}

// ---------- generators ----------

var execers = []string{"", "coins", "none", "user.p.para.token", "user.write", "ticket", "evm"}
var tos = []string{"", "1JmFaA6unrCFYEWPGRi7uuXY1KthTJxJEP", "0xd83b69c56834e85e023b1738e69bfa2f0dd52905", "a", "地址-ü-😀", "14KEKbYtKKQm4wMthSK9J4La4nAiidGozt"}
var i64s = []int64{0, 1, -1, 127, 128, 100000, 1 << 32, math.MaxInt64, math.MinInt64, -100000, 1<<63 - 2}
var i32s = []int32{0, 1, 2, 20, -1, 33, 127, 128, math.MaxInt32, math.MinInt32, 16384}

// small: keep byte fields short (sign/verify and pair cases repeat the whole
// transaction several times in one case term)
var small bool

func rBytes(r *hlib.Rng, allowLong bool) []byte {
	if small {
		switch r.Intn(8) {
		case 0:
			return nil
		case 1:
			return []byte{}
		case 2:
			return make([]byte, 1+r.Intn(3))
		case 3:
			return r.Bytes(32)
		default:
			return r.Bytes(r.Range(1, 24))
		}
	}
	switch r.Intn(20) {
	case 0:
		return nil
	case 1:
		return []byte{}
	case 2:
		return r.Bytes(1)
	case 3:
		return r.Bytes(127)
	case 4:
		return r.Bytes(128)
	case 5:
		return r.Bytes(32)
	case 6:
		if allowLong {
			return bytes.Repeat([]byte{byte(r.Intn(256))}, 16383+r.Intn(3))
		}
		return r.Bytes(300)
	case 7:
		return make([]byte, 1+r.Intn(5)) // zero bytes
	default:
		return r.Bytes(r.Range(1, 80))
	}
}
func rI64(r *hlib.Rng) int64 {
	if r.Chance(2, 3) {
		return hlib.Pick(r, i64s)
	}
	return int64(r.U64()) >> uint(r.Intn(64))
}
func rI32(r *hlib.Rng) int32 {
	if r.Chance(2, 3) {
		return hlib.Pick(r, i32s)
	}
	return int32(r.U64()) >> uint(r.Intn(32))
}
func rSig(r *hlib.Rng) *types.Signature {
	switch r.Intn(6) {
	case 0:
		return nil
	case 1:
		return &types.Signature{}
	default:
		return &types.Signature{Ty: rI32(r), Pubkey: rBytes(r, false), Signature: rBytes(r, false)}
	}
}
func rTx(r *hlib.Rng, long bool) *types.Transaction {
	t := &types.Transaction{}
	if r.Chance(4, 5) {
		t.Execer = []byte(hlib.Pick(r, execers))
	} else {
		t.Execer = rBytes(r, false)
	}
	t.Payload = rBytes(r, long)
	t.Signature = rSig(r)
	t.Fee, t.Expire, t.Nonce = rI64(r), rI64(r), rI64(r)
	if r.Chance(4, 5) {
		t.To = hlib.Pick(r, tos)
	} else {
		if small {
			t.To = strings.Repeat("x", r.Range(1, 20))
		} else {
			t.To = strings.Repeat("x", r.Range(1, 200))
		}
	}
	t.GroupCount = rI32(r)
	t.Header = rBytes(r, false)
	t.Next = rBytes(r, false)
	t.ChainID = rI32(r)
	// sparse transactions: default most fields
	if r.Chance(1, 4) {
		v := reflect.ValueOf(t).Elem()
		for i := 0; i < v.NumField(); i++ {
			if v.Type().Field(i).PkgPath == "" && r.Chance(2, 3) {
				v.Field(i).Set(reflect.Zero(v.Field(i).Type()))
			}
		}
	}
	return t
}

// mutations of one exported field (by reflection, so that new fields are covered);
// returns descriptions and mutated copies that differ from t in exactly that field.
func fieldMutants(r *hlib.Rng, t *types.Transaction) (names []string, outs []*types.Transaction) {
	ty := reflect.TypeOf(*t)
	for i := 0; i < ty.NumField(); i++ {
		f := ty.Field(i)
		if f.PkgPath != "" {
			continue
		}
		add := func(desc string, set func(v reflect.Value)) {
			c := pclone(t)
			set(reflect.ValueOf(c).Elem().Field(i))
			names = append(names, f.Name+":"+desc)
			outs = append(outs, c)
		}
		cur := reflect.ValueOf(t).Elem().Field(i)
		switch {
		case f.Type.Kind() == reflect.Slice:
			b := cur.Bytes()
			if len(b) > 0 {
				add("flip", func(v reflect.Value) {
					nb := append([]byte{}, b...)
					nb[r.Intn(len(nb))] ^= byte(1 << uint(r.Intn(8)))
					v.SetBytes(nb)
				})
				add("clear", func(v reflect.Value) { v.SetBytes(nil) })
				add("trunc", func(v reflect.Value) { v.SetBytes(append([]byte{}, b[:len(b)-1]...)) })
			}
			add("append", func(v reflect.Value) { v.SetBytes(append(append([]byte{}, b...), byte(r.Intn(256)))) })
		case f.Type.Kind() == reflect.String:
			s := cur.String()
			add("append", func(v reflect.Value) { v.SetString(s + "1") })
			if len(s) > 0 {
				add("clear", func(v reflect.Value) { v.SetString("") })
				add("case", func(v reflect.Value) {
					nb := []byte(s)
					k := r.Intn(len(nb))
					if nb[k] < 0x80 {
						nb[k] ^= 1
					} else {
						nb = append(nb, 'z')
					}
					v.SetString(string(nb))
				})
			}
		case f.Type.Kind() == reflect.Int64 || f.Type.Kind() == reflect.Int32:
			x := cur.Int()
			max := int64(math.MaxInt64)
			if f.Type.Kind() == reflect.Int32 {
				max = math.MaxInt32
			}
			if x != max {
				add("inc", func(v reflect.Value) { v.SetInt(x + 1) })
			} else {
				add("dec", func(v reflect.Value) { v.SetInt(x - 1) })
			}
			if x != 0 {
				add("zero", func(v reflect.Value) { v.SetInt(0) })
				if x != -max-1 {
					add("neg", func(v reflect.Value) { v.SetInt(-x) })
				}
			} else {
				add("neg1", func(v reflect.Value) { v.SetInt(-1) })
			}
		case f.Type.Kind() == reflect.Ptr:
			// Signature: handled by the caller (sigMutants)
		default:
			// a field kind the harness does not know: still change it if possible
			names = append(names, f.Name+":unknown-kind")
			outs = append(outs, pclone(t))
		}
	}
	return
}

// ---------- encode / hash cases ----------

func sha(b []byte) []byte { h := sha256.Sum256(b); return h[:] }

func emitEnc(o *hlib.Out, kind string, t *types.Transaction) {
	enc := types.Encode(t)
	cl := t.Clone()
	cenc := types.Encode(cl)
	ctenc := types.Encode(types.CloneTx(t))
	c := pclone(t)
	c.Signature = nil
	c.Header = nil
	hp := types.Encode(c)
	hOK := bytes.Equal(sha(hp), t.Hash())
	fOK := bytes.Equal(sha(cenc), t.FullHash())
	chOK := bytes.Equal(cl.Hash(), t.Hash()) && bytes.Equal(cl.FullHash(), t.FullHash()) &&
		bytes.Equal(types.CloneTx(t).Hash(), t.Hash())
	nontriv := len(enc) > 0
	o.Emit(kind, nontriv,
		hlib.App("CEnc", coqTx(t), hxc(enc), optSame(enc, cenc), optSame(enc, ctenc), optSame(enc, hp), hlib.Bool(hOK), hlib.Bool(fOK), hlib.Bool(chOK)),
		map[string]interface{}{"op": "enc", "t": toJ(t)},
		map[string]interface{}{"enc_len": len(enc), "hash": hlib.HexS(t.Hash()), "fullhash": hlib.HexS(t.FullHash()), "hash_sha_ok": hOK, "full_sha_ok": fOK, "clone_hash_ok": chOK})
}

// optSame: None when b is byte-equal to the reference (keeps case terms small)
func optSame(ref, b []byte) string {
	if bytes.Equal(ref, b) {
		return "None"
	}
	return "(Some " + hxc(b) + ")"
}

// second transaction of a pair, relative to the first when it differs in one field
func pairAlt(a, b *types.Transaction) (term string) {
	defer func() {
		if r := recover(); r != nil {
			term = hlib.App("PFull", coqTx(b))
		}
	}()
	return hlib.App("PMut", mutTerm(a, b))
}

func emitPair(o *hlib.Out, kind string, a, b *types.Transaction) {
	he := bytes.Equal(a.Hash(), b.Hash())
	fe := bytes.Equal(a.FullHash(), b.FullHash())
	o.Emit(kind, true, hlib.App("CPair", coqTx(a), pairAlt(a, b), hlib.Bool(he), hlib.Bool(fe)),
		map[string]interface{}{"op": "pair", "t": toJ(a), "t2": toJ(b)},
		map[string]interface{}{"hash_eq": he, "full_eq": fe})
}

// ---------- driver registry mirror ----------

type drvState struct {
	Name   string `json:"name"`
	ID     int32  `json:"id"`
	Enable bool   `json:"enable"`
	Height int64  `json:"height"`
}

var registry []*drvState

func initRegistry() {
	names, ids := crypto.GetCryptoList()
	for i, n := range names {
		registry = append(registry, &drvState{Name: n, ID: ids[i], Enable: n != "none", Height: 0})
	}
	// deterministic order
	for i := range registry {
		for j := i + 1; j < len(registry); j++ {
			if registry[j].ID < registry[i].ID {
				registry[i], registry[j] = registry[j], registry[i]
			}
		}
	}
}

// applyCfg calls crypto.Init and mirrors its documented effect.
func applyCfg(enableTypes []string, heights map[string]int64) {
	crypto.Init(&crypto.Config{EnableTypes: enableTypes, EnableHeight: heights}, ethSub)
	if len(enableTypes) > 0 {
		for _, d := range registry {
			d.Enable = false
			for _, n := range enableTypes {
				if n == d.Name {
					d.Enable = true
				}
			}
		}
	}
	for _, d := range registry {
		if h, ok := heights[d.Name]; ok && d.Enable {
			d.Height = h
		}
	}
}

func coqDrivers() string {
	var it []string
	for _, d := range registry {
		it = append(it, fmt.Sprintf("(%d,%s,%d)", d.ID, hlib.Bool(d.Enable), d.Height))
	}
	return "(" + hlib.List(it) + ")%Z"
}

type cfgIn struct {
	EnableTypes []string         `json:"enableTypes"`
	Heights     map[string]int64 `json:"heights"`
}

// ---------- verify cases ----------

// outcomes: 0 = false / error, 1 = true / nil, 2 = panic
func safeCheck(t *types.Transaction, h int64) (out int) {
	defer func() {
		if r := recover(); r != nil {
			out = 2
		}
	}()
	if t.CheckSign(h) {
		return 1
	}
	return 0
}

// direct call of the driver that the signature type names
func driverVerdict(t *types.Transaction) (msg []byte, out int) {
	c := pclone(t)
	c.Signature = nil
	msg = types.Encode(c)
	if t.Signature == nil {
		return msg, 0
	}
	defer func() {
		if r := recover(); r != nil {
			out = 2
		}
	}()
	name := crypto.GetName(int(types.ExtractCryptoID(t.Signature.Ty)))
	d, err := crypto.Load(name, -1)
	if err != nil {
		return msg, 0
	}
	if d.Validate(msg, t.Signature.Pubkey, t.Signature.Signature) == nil {
		return msg, 1
	}
	return msg, 0
}

// the single-field difference between t0 and t1 as a Check.mut term
func mutTerm(t0, t1 *types.Transaction) string {
	var diffs []string
	v0, v1 := reflect.ValueOf(t0).Elem(), reflect.ValueOf(t1).Elem()
	for i := 0; i < v0.NumField(); i++ {
		f := v0.Type().Field(i)
		if f.PkgPath != "" {
			continue
		}
		a, b := v0.Field(i), v1.Field(i)
		switch f.Name {
		case "Execer", "Payload", "Header", "Next":
			if !bytes.Equal(a.Bytes(), b.Bytes()) {
				diffs = append(diffs, hlib.App("M"+f.Name, hxc(b.Bytes())))
			}
		case "To":
			if a.String() != b.String() {
				diffs = append(diffs, hlib.App("MTo", hxc([]byte(b.String()))))
			}
		case "Fee", "Expire", "Nonce", "GroupCount", "ChainID":
			if a.Int() != b.Int() {
				diffs = append(diffs, hlib.App("M"+f.Name, hlib.Z(b.Int())))
			}
		case "Signature":
			s0, s1 := t0.Signature, t1.Signature
			switch {
			case s0 == nil && s1 == nil:
			case s1 == nil:
				diffs = append(diffs, "MSigNone")
			case s0 == nil:
				panic("harness: signature added")
			default:
				if s0.Ty != s1.Ty {
					diffs = append(diffs, hlib.App("MTy", hlib.Z(int64(s1.Ty))))
				}
				if !bytes.Equal(s0.Pubkey, s1.Pubkey) {
					diffs = append(diffs, hlib.App("MPub", hxc(s1.Pubkey)))
				}
				if !bytes.Equal(s0.Signature, s1.Signature) {
					diffs = append(diffs, hlib.App("MSigBytes", hxc(s1.Signature)))
				}
			}
		default:
			if !reflect.DeepEqual(a.Interface(), b.Interface()) {
				diffs = append(diffs, "MUnknownField")
			}
		}
	}
	switch len(diffs) {
	case 0:
		return "MSame"
	case 1:
		return diffs[0]
	}
	panic("harness: more than one field altered: " + strings.Join(diffs, " "))
}

func emitVerify(o *hlib.Out, kind string, cfgs []cfgIn, h int64, t0, t1 *types.Transaction) {
	msg, dout := driverVerdict(t1)
	impl := safeCheck(t1, h)
	changed := !proto.Equal(t0, t1)
	o.Emit(kind, changed || impl == 1,
		hlib.App("CVerify", coqDrivers(), coqAddrIDs(), hlib.Z(h), coqTx(t0), mutTerm(t0, t1), hxc(msg), hlib.N(uint64(dout)), hlib.N(uint64(impl))),
		map[string]interface{}{"op": "verify", "cfgs": cfgs, "h": h, "t": toJ(t0), "t2": toJ(t1)},
		map[string]interface{}{"checksign": impl, "driver_validate": dout})
}

func canon(v *big.Int) []byte {
	b := v.Bytes()
	if len(b) == 0 {
		b = []byte{0}
	}
	if b[0]&0x80 != 0 {
		b = append([]byte{0}, b...)
	}
	return b
}
func derEnc(rb, sb []byte) []byte {
	out := []byte{0x30, byte(4 + len(rb) + len(sb)), 2, byte(len(rb))}
	out = append(out, rb...)
	out = append(out, 2, byte(len(sb)))
	return append(out, sb...)
}
func derRS(sig []byte) (r, s *big.Int, ok bool) {
	if len(sig) < 8 || sig[0] != 0x30 || sig[2] != 2 {
		return nil, nil, false
	}
	rl := int(sig[3])
	if 6+rl > len(sig) || sig[4+rl] != 2 {
		return nil, nil, false
	}
	sl := int(sig[5+rl])
	if 6+rl+sl != len(sig) {
		return nil, nil, false
	}
	return new(big.Int).SetBytes(sig[4 : 4+rl]), new(big.Int).SetBytes(sig[6+rl:]), true
}

var curveN = map[string]*big.Int{}

func init() {
	curveN["secp256k1"] = btcec.S256().N
	curveN["secp256r1"], _ = new(big.Int).SetString("FFFFFFFF00000000FFFFFFFFFFFFFFFFBCE6FAADA7179E84F3B9CAC2FC632551", 16)
	curveN["sm2"], _ = new(big.Int).SetString("FFFFFFFEFFFFFFFFFFFFFFFFFFFFFFFF7203DF6B21C6052B53BBF40939D54123", 16)
}

type smut struct {
	name string
	sig  *types.Signature // nil = remove the signature
}

// alterations of the Signature message of a signed transaction
func sigMutants(r *hlib.Rng, drv string, s *types.Signature) []smut {
	var out []smut
	cp := func() *types.Signature {
		return &types.Signature{Ty: s.Ty, Pubkey: append([]byte{}, s.Pubkey...), Signature: append([]byte{}, s.Signature...)}
	}
	withSig := func(name string, b []byte) {
		c := cp()
		c.Signature = b
		out = append(out, smut{"sig:" + name, c})
	}
	withPub := func(name string, b []byte) {
		c := cp()
		c.Pubkey = b
		out = append(out, smut{"pub:" + name, c})
	}
	withTy := func(name string, ty int32) {
		c := cp()
		c.Ty = ty
		out = append(out, smut{"ty:" + name, c})
	}
	sig, pub := s.Signature, s.Pubkey
	out = append(out, smut{"sig:nil", nil})
	// generic signature alterations
	for k := 0; k < 3; k++ {
		b := append([]byte{}, sig...)
		b[r.Intn(len(b))] ^= byte(1 << uint(r.Intn(8)))
		withSig("flip", b)
	}
	withSig("flip-last", append(append([]byte{}, sig[:len(sig)-1]...), sig[len(sig)-1]^1))
	withSig("trunc", append([]byte{}, sig[:len(sig)-1]...))
	withSig("empty", nil)
	withSig("append00", append(append([]byte{}, sig...), 0))
	withSig("append-rand", append(append([]byte{}, sig...), r.Bytes(r.Range(1, 40))...))
	withSig("zero", make([]byte, len(sig)))
	// generic public key alterations
	for k := 0; k < 2; k++ {
		b := append([]byte{}, pub...)
		b[r.Intn(len(b))] ^= byte(1 << uint(r.Intn(8)))
		withPub("flip", b)
	}
	withPub("flip-parity", append([]byte{pub[0] ^ 1}, pub[1:]...))
	withPub("trunc", append([]byte{}, pub[:len(pub)-1]...))
	withPub("append00", append(append([]byte{}, pub...), 0))
	withPub("empty", nil)
	if len(pub) < 65 {
		withPub("pad65-zero", append(append([]byte{}, pub...), make([]byte, 65-len(pub))...))
		withPub("pad65-rand", append(append([]byte{}, pub...), r.Bytes(65-len(pub))...))
	}
	if len(pub) == 33 {
		if pk, err := btcec.ParsePubKey(pub); err == nil && (drv == "secp256k1") {
			withPub("uncompressed", pk.SerializeUncompressed())
		}
	}
	if len(pub) == 65 {
		if pk, err := btcec.ParsePubKey(pub); err == nil {
			withPub("compressed", pk.SerializeCompressed())
			hy := append([]byte{}, pub...)
			hy[0] = 6 + pub[64]&1
			withPub("hybrid", hy)
		}
	}
	// type alterations
	for _, other := range registry {
		if other.ID != types.ExtractCryptoID(s.Ty) {
			withTy("other-"+other.Name, other.ID)
		}
	}
	withTy("addrid-1", s.Ty|0x1000)
	withTy("addrid-2", s.Ty|0x2000)
	withTy("addrid-7", s.Ty|0x7000)
	withTy("bit30", s.Ty|0x40000000)
	withTy("bit31", s.Ty|math.MinInt32)
	withTy("bit15", s.Ty|0x8000)
	withTy("zero", 0)
	withTy("unknown", 12345)
	// algebraic alterations
	if n, ok := curveN[drv]; ok {
		if rr, ss, ok := derRS(sig); ok {
			withSig("ecdsa-r,n-s", derEnc(canon(rr), canon(new(big.Int).Sub(n, ss))))
			withSig("der-reencode-same", derEnc(canon(rr), canon(ss)))
			withSig("der-pad-r", derEnc(append([]byte{0}, canon(rr)...), canon(ss)))
			withSig("der-pad-s", derEnc(canon(rr), append([]byte{0}, canon(ss)...)))
			withSig("der-longform-len", append([]byte{0x30, 0x81, sig[1]}, sig[2:]...))
			withSig("ecdsa-r+n", derEnc(canon(new(big.Int).Add(rr, n)), canon(ss)))
			withSig("ecdsa-s+n", derEnc(canon(rr), canon(new(big.Int).Add(ss, n))))
			withSig("ecdsa-n-r", derEnc(canon(new(big.Int).Sub(n, rr)), canon(ss)))
			if len(sig) < 120 {
				w := append([]byte{0x0a, byte(len(sig))}, sig...)
				withSig("certwrap-sig", append([]byte{}, w...))
				withSig("certwrap-sig+cert", append(append([]byte{}, w...), 0x12, 3, 'a', 'b', 'c'))
				withSig("certwrap-sig+uid", append(append([]byte{}, w...), 0x1a, 2, 'i', 'd'))
				withSig("certwrap-sig+cert+uid", append(append([]byte{}, w...), 0x12, 1, 'c', 0x1a, 2, 'i', 'd'))
			}
		}
	}
	if drv == "ed25519" && len(sig) == 64 {
		L, _ := new(big.Int).SetString("1000000000000000000000000000000014DEF9DEA2F79CD65812631A5CF5D3ED", 16)
		le := func(v *big.Int) []byte {
			b := v.Bytes()
			o := make([]byte, 32)
			for i := 0; i < len(b) && i < 32; i++ {
				o[i] = b[len(b)-1-i]
			}
			return o
		}
		sb := make([]byte, 32)
		for i := 0; i < 32; i++ {
			sb[i] = sig[63-i]
		}
		S := new(big.Int).SetBytes(sb)
		for k, name := range []string{"", "ed-S+L", "ed-S+2L"} {
			if k == 0 {
				continue
			}
			S2 := new(big.Int).Add(S, new(big.Int).Mul(L, big.NewInt(int64(k))))
			if S2.BitLen() <= 256 {
				withSig(name, append(append([]byte{}, sig[:32]...), le(S2)...))
			}
		}
		// R with the sign bit of x flipped, R replaced by another encoding
		rb := append([]byte{}, sig...)
		rb[31] ^= 0x80
		withSig("ed-R-signbit", rb)
	}
	if drv == "secp256k1eth" && len(sig) == 65 {
		n := curveN["secp256k1"]
		ss := new(big.Int).SetBytes(sig[32:64])
		ns := new(big.Int).Sub(n, ss).Bytes()
		b := append([]byte{}, sig...)
		copy(b[32:64], make([]byte, 32))
		copy(b[64-len(ns):64], ns)
		withSig("eth-r,n-s", append([]byte{}, b...))
		b[64] ^= 1
		withSig("eth-r,n-s,v^1", append([]byte{}, b...))
		b2 := append([]byte{}, sig...)
		b2[64] ^= 1
		withSig("eth-v^1", b2)
		b3 := append([]byte{}, sig...)
		b3[64] += 27
		withSig("eth-v+27", b3)
		withSig("eth-no-v", append([]byte{}, sig[:64]...))
	}
	return out
}

func signable(r *hlib.Rng) *types.Transaction {
	t := rTx(r, false)
	t.Signature = nil
	clip := func(b []byte, n int) []byte {
		if len(b) > n {
			return b[:n]
		}
		return b
	}
	t.Payload, t.Header, t.Next = clip(t.Payload, 12), clip(t.Header, 8), clip(t.Next, 8)
	t.Execer = clip(t.Execer, 17)
	if len(t.To) > 34 && t.To[0] != '0' {
		t.To = t.To[:8]
	}
	return t
}

var signDrivers = []string{"secp256k1", "ed25519", "sm2", "secp256r1", "secp256k1eth"}

func verifyStream(o *hlib.Out, r *hlib.Rng, cfgs []cfgIn, perDriver int, full bool) {
	for _, name := range signDrivers {
		var st *drvState
		for _, d := range registry {
			if d.Name == name {
				st = d
			}
		}
		if st == nil {
			continue
		}
		c, err := crypto.Load(name, -1)
		if err != nil {
			panic(err)
		}
		for k := 0; k < perDriver; k++ {
			priv, err := c.PrivKeyFromBytes(r.Bytes(32))
			if err != nil || priv == nil {
				continue
			}
			t0 := signable(r)
			ty := st.ID
			if r.Chance(1, 3) {
				ty = types.EncodeSignID(st.ID, int32(r.Intn(3)))
			}
			func() {
				defer func() { recover() }()
				t0.Sign(ty, priv)
			}()
			if t0.Signature == nil || len(t0.Signature.Signature) == 0 || len(t0.Signature.Pubkey) == 0 {
				continue
			}
			// heights around the enable height, unchanged transaction
			hs := []int64{-1, 0, 1, st.Height - 1, st.Height, st.Height + 1, 1 << 40}
			for _, h := range hs {
				emitVerify(o, "verify-unchanged/"+name, cfgs, h, t0, pclone(t0))
			}
			hOK := st.Height
			if hOK < 0 {
				hOK = 0
			}
			hOK += int64(r.Intn(3))
			// every field altered
			names, muts := fieldMutants(r, t0)
			for i, m := range muts {
				emitVerify(o, "verify-field/"+strings.SplitN(names[i], ":", 2)[0], cfgs, hOK, t0, m)
			}
			// signature message altered
			for _, sm := range sigMutants(r, name, t0.Signature) {
				// driver-level alterations are independent of the registry configuration:
				// under the non-default configurations only the type alterations are repeated
				if !full && !strings.HasPrefix(sm.name, "ty:") && sm.name != "sig:nil" && sm.name != "sig:flip-last" && sm.name != "pub:flip-parity" {
					continue
				}
				m := pclone(t0)
				m.Signature = sm.sig
				emitVerify(o, "verify-"+sm.name, cfgs, hOK, t0, m)
				if strings.HasPrefix(sm.name, "ty:") {
					emitVerify(o, "verify-"+sm.name, cfgs, -1, t0, m)
				}
			}
		}
	}
}

// ---------- main ----------

func main() {
	opts := hlib.ParseFlags()
	o := hlib.NewOut(opts.OutDir)
	defer o.Close()
	initRegistry()
	initAddrIDs()
	crypto.Init(&crypto.Config{}, ethSub) // evm chain id / coins precision of the secp256k1eth driver; enable state untouched

	if opts.Replay != "" {
		var in struct {
			Op   string  `json:"op"`
			T    *jtx    `json:"t"`
			T2   *jtx    `json:"t2"`
			H    int64   `json:"h"`
			Cfgs []cfgIn `json:"cfgs"`
			W    string  `json:"w"`
			Drv  string  `json:"drv"`
			Key  string  `json:"key"`
			Ty   int32   `json:"ty"`
			Ty2  int32   `json:"ty2"`
			Msg  string  `json:"msg"`
		}
		if err := hlib.ReplayInput(opts.Replay, &in); err != nil {
			panic(err)
		}
		switch in.Op {
		case "schema":
			o.Emit("replay", true, hlib.App("CSchema", schema(types.Transaction{}), schema(types.Signature{})), map[string]string{"op": "schema"}, nil)
		case "enc":
			emitEnc(o, "replay", fromJ(in.T))
		case "pair":
			emitPair(o, "replay", fromJ(in.T), fromJ(in.T2))
		case "verify":
			for _, c := range in.Cfgs {
				applyCfg(c.EnableTypes, c.Heights)
			}
			emitVerify(o, "replay", in.Cfgs, in.H, fromJ(in.T), fromJ(in.T2))
		case "wire", "resign", "from", "fromany", "eth":
			for _, c := range in.Cfgs {
				applyCfg(c.EnableTypes, c.Heights)
			}
			switch in.Op {
			case "wire":
				emitWire(o, "replay", in.Cfgs, in.H, fromJ(in.T), wRaw(unhex(in.W)))
			case "resign":
				emitResign(o, "replay", in.Cfgs, in.H, in.Drv, unhex(in.Key), in.Ty, unhex(in.W))
			case "from":
				emitFrom(o, "replay", in.Cfgs, in.H, fromJ(in.T), in.Ty2)
			case "fromany":
				emitFromAny(o, "replay", in.Cfgs, in.H, fromJ(in.T))
			case "eth":
				emitEth(o, "replay", in.Cfgs, in.H, fromJ(in.T), fromJ(in.T2))
			}
		case "action":
			emitAction(o, "replay", unhex(in.Msg))
		default:
			panic("unknown op " + in.Op)
		}
		return
	}

	r := hlib.NewRng(opts.Seed)
	nEnc, nPairBase, perDriver := 220, 25, 2
	nWire, nFrom, nAction, nEth := 12, 2, 250, 5
	if opts.Thorough() {
		nEnc, nPairBase, perDriver = 6000, 600, 40
		nWire, nFrom, nAction, nEth = 300, 24, 6000, 100
	}

	o.Emit("schema", true, hlib.App("CSchema", schema(types.Transaction{}), schema(types.Signature{})), map[string]string{"op": "schema"},
		map[string]string{"tx": schema(types.Transaction{}), "sig": schema(types.Signature{})})

	// 1. encodings: small / default-heavy first
	emitEnc(o, "enc-empty", &types.Transaction{})
	emitEnc(o, "enc-emptysig", &types.Transaction{Signature: &types.Signature{}})
	for _, v := range i64s {
		emitEnc(o, "enc-int-edge", &types.Transaction{Fee: v})
		emitEnc(o, "enc-int-edge", &types.Transaction{Expire: v, Nonce: -v})
	}
	for _, v := range i32s {
		emitEnc(o, "enc-int-edge", &types.Transaction{GroupCount: v, ChainID: -v, Signature: &types.Signature{Ty: v}})
	}
	for i := 0; i < nEnc; i++ {
		emitEnc(o, "enc-rand", rTx(r, i%25 == 0))
	}

	// 2. hash pairs: every field altered in turn; signature / header altered
	small = true
	for i := 0; i < nPairBase; i++ {
		t := rTx(r, false)
		emitPair(o, "pair-same", t, pclone(t))
		names, muts := fieldMutants(r, t)
		for k, m := range muts {
			emitPair(o, "pair-field/"+strings.SplitN(names[k], ":", 2)[0], t, m)
		}
		for k := 0; k < 3; k++ {
			m := pclone(t)
			m.Signature = rSig(r)
			emitPair(o, "pair-sig", t, m)
		}
		m := pclone(t)
		m.Signature, m.Header = rSig(r), rBytes(r, false)
		emitPair(o, "pair-sig+header", t, m)
		emitPair(o, "pair-unrelated", t, rTx(r, false))
	}

	// 3. sign / verify under three registry configurations
	var cfgs []cfgIn
	verifyStream(o, r, cfgs, perDriver, true) // default registration: everything but "none" enabled from height 0
	// 4. extension streams under the default registration
	wireStream(o, r, cfgs, nWire)
	fromStream(o, r, cfgs, nFrom)
	fromAnyStream(o, r, cfgs, nFrom)
	actionStream(o, r, nAction)
	ethStream(o, r, cfgs, nEth)
	c1 := cfgIn{Heights: map[string]int64{"secp256k1": 0, "ed25519": 10, "sm2": 7, "secp256r1": 100, "secp256k1eth": 3, "none": 2}}
	applyCfg(c1.EnableTypes, c1.Heights)
	cfgs = append(cfgs, c1)
	verifyStream(o, r, cfgs, (perDriver+1)/2, opts.Thorough())
	wireStream(o, r, cfgs, (nWire+1)/2)
	fromStream(o, r, cfgs, (nFrom+1)/2)
	fromAnyStream(o, r, cfgs, (nFrom+1)/2)
	ethStream(o, r, cfgs, (nEth+2)/3)
	c2 := cfgIn{EnableTypes: []string{"secp256k1", "sm2", "secp256k1eth", "none"}, Heights: map[string]int64{"secp256k1": 5, "sm2": -1, "none": 4, "ed25519": 2}}
	applyCfg(c2.EnableTypes, c2.Heights)
	cfgs = append(cfgs, c2)
	verifyStream(o, r, cfgs, (perDriver+1)/2, opts.Thorough())
	fmt.Println("cases:", o.Count())
}
