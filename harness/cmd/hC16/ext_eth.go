// hC16 extension: the secp256k1eth driver's DecodeTxAction / VerifyBytes on
// chain33 transactions that wrap a raw Ethereum transaction ("note mode").
package main

import (
	"bytes"
	"fmt"
	"math/big"
	"strings"

	"github.com/33cn/chain33/common"
	"github.com/33cn/chain33/common/address"
	"github.com/33cn/chain33/common/crypto"
	ethdrv "github.com/33cn/chain33/system/crypto/secp256k1eth"
	ethtypes "github.com/33cn/chain33/system/crypto/secp256k1eth/types"
	"github.com/33cn/chain33/types"
	ecommon "github.com/ethereum/go-ethereum/common"
	etypes "github.com/ethereum/go-ethereum/core/types"
	ethcrypto "github.com/ethereum/go-ethereum/crypto"
	"verifharness/hlib"
)

const ethChain, ethPrec = 3999, 100000000

var ethSub = map[string][]byte{"secp256k1eth": []byte(fmt.Sprintf(`{"evmChainID":%d,"coinsPrecision":%d}`, ethChain, ethPrec))}

func safeExecAddr(execer []byte) (s string) {
	defer func() {
		if r := recover(); r != nil {
			s = ""
		}
	}()
	return address.ExecAddress(string(execer))
}

// ---------- DecodeTxAction ----------

func emitAction(o *hlib.Out, kind string, msg []byte) {
	var xa string
	var d types.Transaction
	if types.Decode(msg, &d) == nil {
		xa = safeExecAddr(d.Execer)
	}
	impl := "None"
	var obs interface{} = "error"
	func() {
		defer func() {
			if r := recover(); r != nil {
				impl, obs = "None", "panic"
			}
		}()
		a, err := ethtypes.DecodeTxAction(msg)
		if err == nil && a != nil {
			impl = "(Some (" + strings.Join([]string{hxc(a.Note), hxc([]byte(a.To)), hlib.N(a.Amount), hxc(a.Code), hlib.Z(a.Nonce)}, ", ") + "))"
			obs = map[string]interface{}{"note": hlib.HexS(a.Note), "to": a.To, "amount": a.Amount, "code": hlib.HexS(a.Code), "nonce": a.Nonce}
		}
	}()
	o.Emit(kind, true, hlib.App("CAction", hxc(msg), hxc([]byte(xa)), impl),
		map[string]interface{}{"op": "action", "msg": hlib.HexS(msg)}, obs)
}

var noteStrs = []string{"", "00", "0x", "0xabc", "ABcd", "abzz12", "0Xff", "f", "zz", "0x0", "é"}
var evmExecers = []string{"evm", "user.evm.x", "user.p.para.evm", "xevmx", "coins", "none", "", "ev", "EVM"}

func rEvmAction(r *hlib.Rng, execer string) []byte {
	a := &types.EVMContractAction4Chain33{Amount: uint64(r.Intn(4)), GasLimit: uint64(r.Intn(3)), GasPrice: uint32(r.Intn(3)), Alias: hlib.Pick(r, []string{"", "a"})}
	if r.Chance(1, 3) {
		a.Code = r.Bytes(r.Range(1, 4))
	}
	if r.Chance(2, 3) {
		a.Para = r.Bytes(r.Range(1, 20))
	}
	switch r.Intn(4) {
	case 0:
		a.ContractAddr = safeExecAddr([]byte(execer))
	case 1:
		a.ContractAddr = "0x" + hlib.HexS(r.Bytes(20))
	case 2:
		a.ContractAddr = hlib.Pick(r, tos)
	}
	a.Note = hlib.Pick(r, noteStrs)
	if r.Chance(1, 4) {
		a.Note = hlib.HexS(r.Bytes(r.Range(1, 6)))
	}
	return types.Encode(a)
}

func rCoinsPayload(r *hlib.Rng) []byte {
	xfer := func() []byte {
		var b []byte
		if r.Chance(1, 2) {
			b = append(b, fBytes(1, []byte("BTY"))...)
		}
		if r.Chance(2, 3) {
			b = append(b, fVar(2, hlib.Pick(r, []uint64{1, 500, 1 << 63, ^uint64(0)}))...)
		}
		if r.Chance(2, 3) {
			b = append(b, fBytes(3, r.Bytes(r.Intn(4)))...)
		}
		if r.Chance(2, 3) {
			b = append(b, fBytes(4, []byte(hlib.Pick(r, tos)))...)
		}
		if r.Chance(1, 8) {
			b = append(b, fBytes(4, []byte{0xff})...) // invalid UTF-8
		}
		return b
	}
	var p []byte
	for i, n := 0, r.Range(1, 3); i < n; i++ {
		switch r.Intn(6) {
		case 0, 1, 2:
			p = append(p, fBytes(1, xfer())...)
		case 3:
			p = append(p, fBytes(2, xfer())...)
		case 4:
			p = append(p, fVar(3, uint64(r.Intn(12)))...)
		default:
			p = append(p, rUnknown(r)...)
		}
	}
	return p
}

func actionStream(o *hlib.Out, r *hlib.Rng, n int) {
	for i := 0; i < n; i++ {
		t := &types.Transaction{Execer: []byte(hlib.Pick(r, evmExecers)), Nonce: rI64(r), Fee: int64(r.Intn(3)), To: hlib.Pick(r, tos)}
		switch r.Intn(6) {
		case 0, 1:
			t.Payload = rEvmAction(r, string(t.Execer))
		case 2, 3:
			t.Payload = rCoinsPayload(r)
		case 4:
			t.Payload = r.Bytes(r.Intn(10))
		default:
			t.Payload = append(rEvmAction(r, string(t.Execer)), rRepeatEvm(r)...)
		}
		msg := types.Encode(t)
		kind := "action"
		switch r.Intn(8) {
		case 0:
			msg = append(msg, rUnknown(r)...)
			kind = "action-unknown"
		case 1:
			msg = append(msg, fBytes(2, rCoinsPayload(r))...)
			kind = "action-repeat-payload"
		case 2:
			msg = append(msg, rMalformed(r)...)
			kind = "action-malformed"
		}
		emitAction(o, kind, msg)
	}
}

func rRepeatEvm(r *hlib.Rng) []byte {
	switch r.Intn(5) {
	case 0:
		return fBytes(7, []byte(hlib.Pick(r, noteStrs)))
	case 1:
		return fBytes(4, nil) // code := empty
	case 2:
		return fBytes(8, []byte{0xc0}) // invalid UTF-8: falls through to the coins decoding
	case 3:
		return fVar(1, r.U64())
	default:
		return fVar(7, 1) // mistyped note
	}
}

// ---------- VerifyBytes ----------

type ethBase struct {
	t0  *types.Transaction
	act *types.EVMContractAction4Chain33
	stx *etypes.Transaction
}

// an Ethereum transaction signed with a fresh key, wrapped like rpc/ethrpc AssembleChain33Tx
func rEthTx(r *hlib.Rng, kind int) *ethBase {
	key, err := ethcrypto.ToECDSA(r.Bytes(32))
	if err != nil {
		return nil
	}
	to := ecommon.BytesToAddress(r.Bytes(20))
	nonce := uint64(r.Intn(50))
	gas := uint64(21000 + r.Intn(1000))
	val := new(big.Int).Mul(big.NewInt(int64(r.Intn(1000))), big.NewInt(1e10))
	chain := big.NewInt(ethChain)
	var inner etypes.TxData
	var data []byte
	toP := &to
	switch kind % 5 {
	case 0: // plain transfer
	case 1: // contract call
		data = r.Bytes(r.Range(4, 12))
	case 2: // contract creation
		data, toP = r.Bytes(r.Range(4, 12)), nil
	}
	switch kind % 5 {
	case 3:
		inner = &etypes.DynamicFeeTx{ChainID: chain, Nonce: nonce, GasTipCap: big.NewInt(1), GasFeeCap: big.NewInt(10), Gas: gas, To: toP, Value: val, Data: data}
	case 4:
		inner = &etypes.AccessListTx{ChainID: chain, Nonce: nonce, GasPrice: big.NewInt(10), Gas: gas, To: toP, Value: val, Data: data}
	default:
		inner = &etypes.LegacyTx{Nonce: nonce, GasPrice: big.NewInt(10), Gas: gas, To: toP, Value: val, Data: data}
	}
	signer := etypes.NewLondonSigner(chain)
	stx, err := etypes.SignTx(etypes.NewTx(inner), signer, key)
	if err != nil {
		return nil
	}
	raw, _ := stx.MarshalBinary()
	sig, err := ethcrypto.Sign(signer.Hash(stx).Bytes(), key)
	if err != nil {
		return nil
	}
	exec := "evm"
	amount := new(big.Int).Div(val, big.NewInt(1e18/ethPrec)).Uint64()
	act := &types.EVMContractAction4Chain33{Amount: amount, GasLimit: gas, GasPrice: 1, Note: ecommon.Bytes2Hex(raw)}
	var toS string
	switch {
	case len(data) != 0 && toP == nil:
		act.Code = data
		toS = address.ExecAddress(exec)
		act.ContractAddr = toS
	case len(data) != 0:
		act.Para = data
		toS = strings.ToLower(to.String())
		act.ContractAddr = toS
	default:
		toS = strings.ToLower(to.String())
		act.Para = ecommon.FromHex(toS)
		act.ContractAddr = address.ExecAddress(exec)
	}
	t0 := &types.Transaction{Execer: []byte(exec), Payload: types.Encode(act), Fee: int64(gas), Nonce: int64(nonce), To: toS,
		ChainID: int32(r.Intn(2) * 33), Expire: int64(r.Intn(2) * 1000),
		Signature: &types.Signature{Ty: types.EncodeSignID(ethdrv.ID, 2), Pubkey: ethcrypto.FromECDSAPub(&key.PublicKey), Signature: sig}}
	return &ethBase{t0: t0, act: act, stx: stx}
}

func innerVerdict(hash, pub, sig []byte) (out int) {
	defer func() {
		if r := recover(); r != nil {
			out = 2
		}
	}()
	c, err := crypto.Load(ethdrv.Name, -1)
	if err != nil {
		return 0
	}
	pk, err := c.PubKeyFromBytes(pub)
	if err != nil {
		return 0
	}
	rec, err := ethcrypto.Ecrecover(hash, sig)
	if err != nil || !bytes.Equal(rec, pk.Bytes()) {
		return 0
	}
	if ethcrypto.VerifySignature(pk.Bytes(), hash, sig[:64]) {
		return 1
	}
	return 0
}

// London signing hash of the Ethereum transaction carried in the note of t (nil if there is none)
func noteSigHash(t *types.Transaction) (out []byte) {
	defer func() {
		if r := recover(); r != nil {
			out = nil
		}
	}()
	c := pclone(t)
	c.Signature = nil
	a, err := ethtypes.DecodeTxAction(types.Encode(c))
	if err != nil || a == nil || len(a.Note) == 0 {
		return nil
	}
	etx := new(etypes.Transaction)
	if etx.UnmarshalBinary(a.Note) != nil {
		return nil
	}
	return etypes.NewLondonSigner(etx.ChainId()).Hash(etx).Bytes()
}

func emitEth(o *hlib.Out, kind string, cfgs []cfgIn, h int64, t0, t1 *types.Transaction) {
	h0, h1 := noteSigHash(t0), noteSigHash(t1)
	sameEth := h0 != nil && bytes.Equal(h0, h1)
	c := pclone(t1)
	c.Signature = nil
	msg := types.Encode(c)
	var note []byte
	ev := "None"
	innerEth := 0
	var evObs interface{}
	func() {
		defer func() { recover() }()
		a, err := ethtypes.DecodeTxAction(msg)
		if err != nil || a == nil {
			return
		}
		note = a.Note
		if len(note) == 0 {
			return
		}
		etx := new(etypes.Transaction)
		if etx.UnmarshalBinary(note) != nil {
			return
		}
		to := "None"
		if etx.To() != nil {
			to = "(Some " + hlib.Hx(etx.To().Bytes()) + ")"
		}
		ev = "(Some (" + strings.Join([]string{hlib.Z(etx.ChainId().Int64()), hlib.Z(int64(etx.Nonce())),
			`(nx "` + etx.Value().Text(16) + `")`, hxc(etx.Data()), to}, ", ") + "))"
		evObs = map[string]interface{}{"chain": etx.ChainId().String(), "nonce": etx.Nonce(), "value": etx.Value().String()}
		sh := etypes.NewLondonSigner(etx.ChainId()).Hash(etx)
		if t1.Signature != nil {
			innerEth = innerVerdict(sh.Bytes(), t1.Signature.Pubkey, t1.Signature.Signature)
		}
	}()
	innerMsg := 0
	if t1.Signature != nil {
		innerMsg = innerVerdict(common.Sha3(msg), t1.Signature.Pubkey, t1.Signature.Signature)
	}
	impl := safeCheck(t1, h)
	o.Emit(kind, true,
		hlib.App("CEth", coqDrivers(), coqAddrIDs(), hlib.Z(h), fmt.Sprintf("((%d)%%Z, %d%%N)", ethChain, ethPrec), coqTx(t0), mutTerm(t0, t1),
			hxc([]byte(safeExecAddr(t0.Execer))), hxc([]byte(safeExecAddr(t1.Execer))), hxc(note), ev, hlib.Bool(sameEth),
			hlib.N(uint64(innerMsg)), hlib.N(uint64(innerEth)), hlib.N(uint64(impl))),
		map[string]interface{}{"op": "eth", "cfgs": cfgs, "h": h, "t": toJ(t0), "t2": toJ(t1)},
		map[string]interface{}{"checksign": impl, "inner_msg": innerMsg, "inner_eth": innerEth, "note": hlib.HexS(note), "eth": evObs, "same_signing_hash": sameEth})
}
