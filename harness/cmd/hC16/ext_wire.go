// hC16 extension: wire bytes with unknown / repeated / reordered fields decoded
// by types.Decode, Sign on a message that carries unknown fields, and From()
// under altered Signature.Ty bits.
package main

import (
	"bytes"
	"math"

	"github.com/33cn/chain33/common/crypto"
	"github.com/33cn/chain33/types"
	"google.golang.org/protobuf/encoding/protowire"
	"verifharness/hlib"
)

// a fresh struct with the declared fields only
func strip(d *types.Transaction) *types.Transaction { return fromJ(toJ(d)) }

func unknownOf(d *types.Transaction) (sunk, unk []byte) {
	unk = d.ProtoReflect().GetUnknown()
	if d.Signature != nil {
		sunk = d.Signature.ProtoReflect().GetUnknown()
	}
	return
}

type wspec struct {
	Pre string `json:"pre,omitempty"`
	Cut int    `json:"cut"`
	Ins string `json:"ins,omitempty"`
	Raw string `json:"raw,omitempty"`
	raw bool
}

func wEdit(pre []byte, cut int, ins []byte) wspec {
	return wspec{Pre: hlib.HexS(pre), Cut: cut, Ins: hlib.HexS(ins)}
}
func wRaw(b []byte) wspec { return wspec{Raw: hlib.HexS(b), raw: true} }
func (w wspec) bytes(enc []byte) []byte {
	if w.raw || w.Raw != "" {
		return unhex(w.Raw)
	}
	out := append([]byte{}, unhex(w.Pre)...)
	out = append(out, enc[:w.Cut]...)
	out = append(out, unhex(w.Ins)...)
	return append(out, enc[w.Cut:]...)
}
func (w wspec) term() string {
	if w.raw || w.Raw != "" {
		return hlib.App("WRaw", hxc(unhex(w.Raw)))
	}
	return hlib.App("WEdit", hxc(unhex(w.Pre)), hlib.N(uint64(w.Cut)), hxc(unhex(w.Ins)))
}

func safeDecode(w []byte) (d *types.Transaction, ok bool) {
	defer func() {
		if r := recover(); r != nil {
			d, ok = nil, false
		}
	}()
	d = &types.Transaction{}
	if err := types.Decode(w, d); err != nil {
		return nil, false
	}
	return d, true
}

func emitWire(o *hlib.Out, kind string, cfgs []cfgIn, h int64, t0 *types.Transaction, w wspec) *types.Transaction {
	enc := types.Encode(t0)
	wb := w.bytes(enc)
	in := map[string]interface{}{"op": "wire", "cfgs": cfgs, "h": h, "t": toJ(t0), "w": hlib.HexS(wb)}
	d, ok := safeDecode(wb)
	if !ok {
		o.Emit(kind, true, hlib.App("CWireErr", coqTx(t0), w.term()), in, map[string]interface{}{"decode": "error"})
		return nil
	}
	sunk, unk := unknownOf(d)
	p := strip(d)
	plain := types.Encode(p)
	reenc := types.Encode(d)
	cenc := types.Encode(d.Clone())
	ctenc := types.Encode(types.CloneTx(d))
	hp := pclone(p)
	hp.Signature, hp.Header = nil, nil
	hashPlain := bytes.Equal(d.Hash(), sha(types.Encode(hp)))
	fullPlain := bytes.Equal(d.FullHash(), sha(plain))
	ct := types.CloneTx(d)
	cloneOK := bytes.Equal(d.Clone().Hash(), d.Hash()) && bytes.Equal(d.Clone().FullHash(), d.FullHash()) &&
		bytes.Equal(ct.Hash(), d.Hash()) && bytes.Equal(ct.FullHash(), d.FullHash())
	_, dout := driverVerdict(p)
	impl := safeCheck(d, h)
	o.Emit(kind, true,
		hlib.App("CWire", coqDrivers(), coqAddrIDs(), hlib.Z(h), coqTx(t0), w.term(), pairAlt(t0, p), hxc(sunk), hxc(unk),
			optSame(plain, reenc), optSame(plain, cenc), optSame(plain, ctenc),
			hlib.Bool(hashPlain), hlib.Bool(fullPlain), hlib.Bool(cloneOK), hlib.N(uint64(dout)), hlib.N(uint64(impl))),
		in,
		map[string]interface{}{"decoded": toJ(p), "sig_unknown": hlib.HexS(sunk), "unknown": hlib.HexS(unk), "size": types.Size(d),
			"reenc": hlib.HexS(reenc), "hash_is_plain": hashPlain, "fullhash_is_plain": fullPlain, "clone_ok": cloneOK,
			"checksign": impl, "driver_validate": dout})
	return d
}

// records what Transaction.Sign hands to the key
type recPriv struct {
	crypto.PrivKey
	msg []byte
}

func (p *recPriv) Sign(m []byte) crypto.Signature {
	p.msg = append([]byte{}, m...)
	return p.PrivKey.Sign(m)
}

func emitResign(o *hlib.Out, kind string, cfgs []cfgIn, h int64, drv string, key []byte, ty int32, wb []byte) {
	in := map[string]interface{}{"op": "resign", "cfgs": cfgs, "h": h, "drv": drv, "key": hlib.HexS(key), "ty": ty, "w": hlib.HexS(wb)}
	d, ok := safeDecode(wb)
	if !ok {
		return
	}
	c, err := crypto.Load(drv, -1)
	if err != nil {
		panic(err)
	}
	priv, err := c.PrivKeyFromBytes(key)
	if err != nil || priv == nil {
		return
	}
	sunk, unk := unknownOf(d)
	rec := &recPriv{PrivKey: priv}
	func() {
		defer func() { recover() }()
		d.Sign(ty, rec)
	}()
	if d.Signature == nil || rec.msg == nil {
		return
	}
	p := strip(d)
	pm := pclone(p)
	pm.Signature = nil
	plainMsg := types.Encode(pm)
	_, dout := driverVerdict(p)
	impl := safeCheck(d, h)
	o.Emit(kind, true,
		hlib.App("CResign", coqDrivers(), coqAddrIDs(), hlib.Z(h), coqTx(p), hxc(sunk), hxc(unk), hlib.Z(int64(ty)),
			optSame(plainMsg, rec.msg), hlib.N(uint64(dout)), hlib.N(uint64(impl))),
		in, map[string]interface{}{"signed": hlib.HexS(rec.msg), "checksign": impl, "driver_validate": dout, "unknown": hlib.HexS(unk)})
}

// ---------- raw field builders ----------

func fVar(fn uint64, v uint64) []byte {
	return protowire.AppendVarint(protowire.AppendVarint(nil, fn<<3), v)
}
func fBytes(fn uint64, b []byte) []byte {
	return protowire.AppendBytes(protowire.AppendVarint(nil, fn<<3|2), b)
}
func fFix32(fn uint64, b []byte) []byte { return append(protowire.AppendVarint(nil, fn<<3|5), b[:4]...) }
func fFix64(fn uint64, b []byte) []byte { return append(protowire.AppendVarint(nil, fn<<3|1), b[:8]...) }
func fGroup(fn uint64, body []byte) []byte {
	out := protowire.AppendVarint(nil, fn<<3|3)
	out = append(out, body...)
	return protowire.AppendVarint(out, fn<<3|4)
}

// an over-long (non-canonical) varint of v with extra continuation bytes
func longVarint(v uint64, extra int) []byte {
	b := protowire.AppendVarint(nil, v)
	if len(b)+extra > 10 {
		extra = 10 - len(b)
	}
	if extra <= 0 {
		return b
	}
	b[len(b)-1] |= 0x80
	for i := 0; i < extra-1; i++ {
		b = append(b, 0x80)
	}
	return append(b, 0)
}

var unkNums = []uint64{12, 13, 15, 16, 100, 2047, 2048, 1<<29 - 1}

func rUnknown(r *hlib.Rng) []byte {
	fn := hlib.Pick(r, unkNums)
	switch r.Intn(9) {
	case 0:
		return fVar(fn, uint64(r.Intn(300)))
	case 1:
		return fVar(fn, r.U64())
	case 2:
		return fBytes(fn, r.Bytes(r.Intn(6)))
	case 3:
		return fFix32(fn, r.Bytes(4))
	case 4:
		return fFix64(fn, r.Bytes(8))
	case 5:
		return fGroup(fn, nil)
	case 6:
		return fGroup(fn, append(fVar(1, 7), fGroup(1<<30, fBytes(2, []byte("x")))...))
	case 7: // over-long value varint, canonical key
		return append(protowire.AppendVarint(nil, fn<<3), longVarint(uint64(r.Intn(200)), 1+r.Intn(3))...)
	default: // over-long key
		return append(longVarint(fn<<3, 1+r.Intn(2)), byte(r.Intn(128)))
	}
}

// a declared field number with a wire type the field does not have
func rMistyped(r *hlib.Rng) []byte {
	switch r.Intn(6) {
	case 0:
		return fFix64(4, r.Bytes(8))
	case 1:
		return fVar(1, uint64(r.Intn(100)))
	case 2:
		return fVar(3, 1)
	case 3:
		return fFix32(7, r.Bytes(4))
	case 4:
		return fBytes(6, r.Bytes(2))
	default:
		return fGroup(11, fVar(11, 5))
	}
}

// a declared field again (decoded value = the last occurrence; Signature occurrences merge)
func rRepeat(r *hlib.Rng, t0 *types.Transaction) []byte {
	switch r.Intn(16) {
	case 0:
		return fVar(4, uint64(t0.Fee)) // same value
	case 1:
		return fVar(4, uint64(r.Intn(1000)))
	case 2:
		return fVar(4, 0) // explicit default
	case 3:
		return fBytes(2, r.Bytes(r.Intn(4)))
	case 4:
		return fBytes(1, []byte(hlib.Pick(r, execers)))
	case 5:
		return fBytes(7, []byte(hlib.Pick(r, tos)))
	case 6:
		return fVar(5, uint64(rI64(r)))
	case 7:
		return fVar(6, uint64(rI64(r)))
	case 8:
		return fVar(8, uint64(hlib.Pick(r, []uint64{0, 1, 1<<32 + 5, 1 << 31, math.MaxUint64, 1<<63 | 3})))
	case 9:
		return fVar(11, uint64(hlib.Pick(r, []uint64{0, 7, 1 << 32, 1<<32 - 1, math.MaxUint64 - 1})))
	case 10:
		return fBytes(9, r.Bytes(r.Intn(3)))
	case 11:
		return fBytes(10, r.Bytes(r.Intn(3)))
	case 12: // Signature: ty only (merged)
		return fBytes(3, fVar(1, uint64(hlib.Pick(r, []uint64{1, 2, 1<<32 + 1, 0x2001}))))
	case 13: // Signature: unknown field inside
		return fBytes(3, rUnknown(r))
	case 14: // Signature: empty body
		return fBytes(3, nil)
	default: // Signature: pubkey replaced and an unknown field
		return fBytes(3, append(fBytes(2, r.Bytes(3)), fVar(9, 1)...))
	}
}

func rMalformed(r *hlib.Rng) []byte {
	switch r.Intn(11) {
	case 0:
		return []byte{12<<3 | 4} // stray end group
	case 1:
		return []byte{0, 1} // field number 0
	case 2:
		return fVar(1<<29, 1) // number above the maximum
	case 3:
		return append([]byte{12 << 3}, bytes.Repeat([]byte{0xff}, 10)...) // varint overflow
	case 4:
		return append([]byte{12 << 3}, 0xff, 0xff, 0xff, 0xff, 0xff, 0xff, 0xff, 0xff, 0xff, 0x02)
	case 5:
		return []byte{12<<3 | 2, 5, 1, 2} // length beyond the end
	case 6:
		return []byte{12<<3 | 6, 0}
	case 7:
		return []byte{12<<3 | 7}
	case 8:
		return fBytes(7, []byte{0xed, 0xa0, 0x80}) // invalid UTF-8 in to
	case 9:
		return append(protowire.AppendVarint(nil, 12<<3|3), protowire.AppendVarint(nil, 13<<3|4)...) // mismatched end
	default:
		return fBytes(3, []byte{0x0a}) // truncated Signature body
	}
}

// offsets of the top-level field boundaries of a canonical encoding
func boundaries(enc []byte) []int {
	out := []int{0}
	off := 0
	for off < len(enc) {
		_, _, n := protowire.ConsumeField(enc[off:])
		if n <= 0 {
			break
		}
		off += n
		out = append(out, off)
	}
	return out
}
