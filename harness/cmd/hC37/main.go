// hC37: wallet secret encryption (wallet/common CBC, wallet GCM seed) and
// password-change histories on a real wallet.Wallet.
//
// Every case is generated from (stream, case seed) alone, so a replay file
// needs only these two values; the random IV / nonce drawn inside the wallet
// code is an observable (blob prefix) and is handed to the model as an input.
package main

import (
	"bytes"
	"crypto/aes"
	"crypto/cipher"
	"errors"
	"fmt"
	"os"
	"sort"
	"strings"
	"sync"

	"github.com/33cn/chain33/common"
	"github.com/33cn/chain33/common/address"
	dbm "github.com/33cn/chain33/common/db"
	"github.com/33cn/chain33/queue"
	_ "github.com/33cn/chain33/system"
	"github.com/33cn/chain33/types"
	"github.com/33cn/chain33/wallet"
	"github.com/33cn/chain33/wallet/bipwallet"
	bip39 "github.com/33cn/chain33/wallet/bipwallet/go-bip39"
	wcom "github.com/33cn/chain33/wallet/common"
	"verifharness/hlib"
)

// ---------------------------------------------------------------- independent crypto

func deriveKey(pw []byte) []byte {
	k := make([]byte, 32)
	if len(pw) > 32 {
		copy(k, pw[:32])
	} else {
		copy(k, pw)
	}
	return k
}

// legacyCBC: the fixed-IV format (IV = key[:16], no prefix), written with
// single-block AES calls only. len(p) must be a multiple of 16.
func legacyCBC(pw, p []byte) []byte {
	key := deriveKey(pw)
	blk, err := aes.NewCipher(key)
	if err != nil {
		panic(err)
	}
	prev := append([]byte{}, key[:16]...)
	out := make([]byte, 0, len(p))
	for i := 0; i+16 <= len(p); i += 16 {
		x := make([]byte, 16)
		for j := 0; j < 16; j++ {
			x[j] = p[i+j] ^ prev[j]
		}
		y := make([]byte, 16)
		blk.Encrypt(y, x)
		out = append(out, y...)
		prev = y
	}
	return out
}

// legacyGCM: the fixed-nonce format (nonce = key[:12], no prefix).
func legacyGCM(pw, seed []byte) []byte {
	key := deriveKey(pw)
	blk, err := aes.NewCipher(key)
	if err != nil {
		panic(err)
	}
	g, err := cipher.NewGCM(blk)
	if err != nil {
		panic(err)
	}
	return g.Seal(nil, key[:12], seed, nil)
}

// table of single-block AES evaluations: pairs (AES^-1_k(y), y).
func mkTable(pws [][]byte, blobs [][]byte) string {
	var ps []pwBlob
	for _, p := range pws {
		for _, b := range blobs {
			ps = append(ps, pwBlob{p, b})
		}
	}
	return mkTablePairs(ps)
}

type pwBlob struct{ pw, blob []byte }

// mkTablePairs: for every (password, blob) pair the AES^-1 of every aligned block of the blob.
func mkTablePairs(ps []pwBlob) string {
	var keys [][]byte
	idx := map[string]int{}
	seen := []map[string]bool{}
	ents := [][]string{}
	for _, p := range ps {
		k := deriveKey(p.pw)
		i, ok := idx[string(k)]
		if !ok {
			i = len(keys)
			idx[string(k)] = i
			keys = append(keys, k)
			seen = append(seen, map[string]bool{})
			ents = append(ents, nil)
		}
		blk, err := aes.NewCipher(k)
		if err != nil {
			panic(err)
		}
		for j := 0; j+16 <= len(p.blob); j += 16 {
			y := p.blob[j : j+16]
			if seen[i][string(y)] {
				continue
			}
			seen[i][string(y)] = true
			x := make([]byte, 16)
			blk.Decrypt(x, y)
			ents[i] = append(ents[i], hlib.Pair(hlib.Hx(x), hlib.Hx(y)))
		}
	}
	var ks []string
	for i, k := range keys {
		ks = append(ks, hlib.Pair(hlib.Hx(k), hlib.List(ents[i])))
	}
	return hlib.List(ks)
}

// ---------------------------------------------------------------- calls into the code under test

func safeEnc(pw, priv []byte) (out []byte, panicked bool) {
	defer func() {
		if r := recover(); r != nil {
			out, panicked = nil, true
		}
	}()
	out = wcom.CBCEncrypterPrivkey(pw, priv)
	if out == nil {
		out = []byte{}
	}
	return out, false
}

func safeDec(pw, blob []byte) (out []byte, panicked bool) {
	defer func() {
		if r := recover(); r != nil {
			out, panicked = nil, true
		}
	}()
	out = wcom.CBCDecrypterPrivkey(pw, blob)
	if out == nil {
		out = []byte{}
	}
	return out, false
}

func optHx(b []byte, none bool) string {
	if none {
		return "None"
	}
	if b == nil {
		b = []byte{}
	}
	return "(Some " + hlib.Hx(b) + ")"
}

func gcmDec(pw, blob []byte) (out []byte, failed bool) {
	defer func() {
		if r := recover(); r != nil {
			out, failed = nil, true
		}
	}()
	o, err := wallet.AesgcmDecrypter(pw, blob)
	if err != nil {
		return nil, true
	}
	if o == nil {
		o = []byte{}
	}
	return o, false
}

// ---------------------------------------------------------------- generators for passwords / keys

const alnum = "abcdefghijklmnopqrstuvwxyzABCDEFGHIJKLMNOPQRSTUVWXYZ0123456789"

func validPw(r *hlib.Rng) []byte {
	n := r.Range(8, 30)
	for {
		b := make([]byte, n)
		for i := range b {
			b[i] = alnum[r.Intn(len(alnum))]
		}
		l, d := false, false
		for _, c := range b {
			if c >= '0' && c <= '9' {
				d = true
			} else {
				l = true
			}
		}
		if l && d {
			return b
		}
	}
}

// anyPw: lengths 0..40, arbitrary bytes, boundary lengths favoured.
func anyPw(r *hlib.Rng) []byte {
	var n int
	switch r.Intn(8) {
	case 0:
		n = hlib.Pick(r, []int{31, 32, 33})
	case 1:
		n = r.Range(33, 40)
	case 2:
		n = r.Range(1, 4)
	case 3:
		return validPw(r)
	default:
		n = r.Range(1, 40)
	}
	b := r.Bytes(n)
	if r.Chance(1, 6) && n > 0 {
		b[n-1] = 0 // trailing zero byte
	}
	return b
}

// collidePw: a different password with the same derived key.
func collidePw(r *hlib.Rng, pw []byte) []byte {
	if len(pw) < 32 {
		// zero padding
		q := append(append([]byte{}, pw...), make([]byte, r.Range(1, 32-len(pw)))...)
		return q
	}
	q := append([]byte{}, pw[:32]...)
	if len(pw) == 32 || r.Chance(1, 2) {
		q = append(q, r.Bytes(r.Range(1, 8))...)
	}
	if bytes.Equal(q, pw) {
		q = append(q, 1)
	}
	return q
}

type caseIn struct {
	Stream string `json:"stream"`
	CSeed  uint64 `json:"cseed"`
	Note   string `json:"note,omitempty"`
}

// ---------------------------------------------------------------- direct streams

func genCbcEnc(o *hlib.Out, in caseIn, r *hlib.Rng, unsupported bool) {
	pw := anyPw(r)
	var n int
	if unsupported {
		n = hlib.Pick(r, []int{0, 16, 48, 80, 96, 1, 15, 17, 31, 33, 63, 65, 20})
	} else {
		n = hlib.Pick(r, []int{32, 64})
	}
	priv := r.Bytes(n)
	blob, p1 := safeEnc(pw, priv)
	var dec []byte
	p2 := true
	if !p1 {
		dec, p2 = safeDec(pw, blob)
	}
	kind := "cbc-enc"
	if unsupported {
		kind = "cbc-enc-unsupported-len"
	}
	o.Emit(kind, !p1 && !p2,
		hlib.App("CCbcEnc", mkTable([][]byte{pw}, [][]byte{blob}), hlib.Hx(pw), hlib.Hx(priv), optHx(blob, p1), optHx(dec, p2)),
		in, map[string]interface{}{"pw": hlib.HexS(pw), "priv": hlib.HexS(priv), "blob": hlib.HexS(blob), "dec": hlib.HexS(dec), "encPanic": p1, "decPanic": p2})
}

func genCbcLegacy(o *hlib.Out, in caseIn, r *hlib.Rng, unsupported bool) {
	pw := anyPw(r)
	n := hlib.Pick(r, []int{32, 64})
	kind := "cbc-legacy"
	if unsupported {
		n = hlib.Pick(r, []int{16, 48, 80, 96, 112})
		kind = "cbc-legacy-unsupported-len"
	}
	priv := r.Bytes(n)
	leg := legacyCBC(pw, priv)
	dec, p := safeDec(pw, leg)
	o.Emit(kind, !p,
		hlib.App("CCbcLegacy", mkTable([][]byte{pw}, [][]byte{leg}), hlib.Hx(pw), hlib.Hx(priv), hlib.Hx(leg), optHx(dec, p)),
		in, map[string]interface{}{"pw": hlib.HexS(pw), "priv": hlib.HexS(priv), "legacy": hlib.HexS(leg), "dec": hlib.HexS(dec), "decPanic": p})
}

func genCbcCross(o *hlib.Out, in caseIn, r *hlib.Rng, mode int) {
	// mode 0: same password; 1: unrelated (valid wallet passwords); 2: unrelated arbitrary; 3: colliding
	var pw1, pw2 []byte
	kind := ""
	switch mode {
	case 0:
		pw1 = anyPw(r)
		pw2 = append([]byte{}, pw1...)
		kind = "cbc-cross-same"
	case 1:
		pw1, pw2 = validPw(r), validPw(r)
		if r.Chance(1, 3) { // near miss: one character differs
			pw2 = append([]byte{}, pw1...)
			i := r.Intn(len(pw2))
			if pw2[i] == 'a' {
				pw2[i] = 'b'
			} else {
				pw2[i] = 'a'
			}
		}
		kind = "cbc-cross-valid"
	case 2:
		pw1, pw2 = anyPw(r), anyPw(r)
		for bytes.Equal(deriveKey(pw1), deriveKey(pw2)) {
			pw2 = append(r.Bytes(1), pw2...)
		}
		kind = "cbc-cross-any"
	default:
		pw1 = anyPw(r)
		pw2 = collidePw(r, pw1)
		kind = "cbc-cross-collide"
	}
	priv := r.Bytes(hlib.Pick(r, []int{32, 64}))
	blob, p1 := safeEnc(pw1, priv)
	if p1 {
		panic("unexpected encrypter panic")
	}
	dec, p2 := safeDec(pw2, blob)
	o.Emit(kind, !p2,
		hlib.App("CCbcCross", mkTable([][]byte{pw1, pw2}, [][]byte{blob}), hlib.Hx(pw1), hlib.Hx(pw2), hlib.Hx(priv), hlib.Hx(blob), optHx(dec, p2)),
		in, map[string]interface{}{"pw1": hlib.HexS(pw1), "pw2": hlib.HexS(pw2), "priv": hlib.HexS(priv), "blob": hlib.HexS(blob), "dec": hlib.HexS(dec)})
}

func genCbcDecRaw(o *hlib.Out, in caseIn, r *hlib.Rng) {
	pw := anyPw(r)
	var n int
	if r.Chance(2, 3) {
		n = hlib.Pick(r, []int{0, 16, 32, 48, 64, 80, 96, 112})
	} else {
		n = r.Range(0, 100)
	}
	blob := r.Bytes(n)
	dec, p := safeDec(pw, blob)
	o.Emit("cbc-dec-raw", !p,
		hlib.App("CCbcDecRaw", mkTable([][]byte{pw}, [][]byte{blob}), hlib.Hx(pw), hlib.Hx(blob), optHx(dec, p)),
		in, map[string]interface{}{"pw": hlib.HexS(pw), "blob": hlib.HexS(blob), "dec": hlib.HexS(dec), "panic": p})
}

func genSeedBytes(r *hlib.Rng, pw []byte) []byte {
	for {
		var s []byte
		if r.Chance(1, 2) {
			s = []byte(mnemonic(r))
		} else {
			s = r.Bytes(r.Range(0, 120))
		}
		// the ideal AEAD of the model is only faithful when the plaintext does not start with key[:12]
		if len(s) >= 12 && bytes.Equal(s[:12], deriveKey(pw)[:12]) {
			continue
		}
		return s
	}
}

func genGcm(o *hlib.Out, in caseIn, r *hlib.Rng) {
	pw := anyPw(r)
	seed := genSeedBytes(r, pw)
	blob, err := wallet.AesgcmEncrypter(pw, seed)
	if err != nil {
		panic(err)
	}
	nonce := blob
	if len(nonce) > 12 {
		nonce = blob[:12]
	}
	dec, f := gcmDec(pw, blob)
	o.Emit("gcm", !f,
		hlib.App("CGcm", hlib.Hx(pw), hlib.Hx(seed), hlib.Hx(nonce), hlib.N(uint64(len(blob))), optHx(dec, f)),
		in, map[string]interface{}{"pw": hlib.HexS(pw), "seed": hlib.HexS(seed), "blob": hlib.HexS(blob), "dec": hlib.HexS(dec), "err": f})
}

func genGcmLegacy(o *hlib.Out, in caseIn, r *hlib.Rng) {
	pw := anyPw(r)
	seed := genSeedBytes(r, pw)
	blob := legacyGCM(pw, seed)
	dec, f := gcmDec(pw, blob)
	o.Emit("gcm-legacy", !f,
		hlib.App("CGcmLegacy", hlib.Hx(pw), hlib.Hx(seed), optHx(dec, f)),
		in, map[string]interface{}{"pw": hlib.HexS(pw), "seed": hlib.HexS(seed), "blob": hlib.HexS(blob), "dec": hlib.HexS(dec), "err": f})
}

func genGcmCross(o *hlib.Out, in caseIn, r *hlib.Rng, mode int) {
	var pw1, pw2 []byte
	kind := ""
	switch mode {
	case 0:
		pw1 = anyPw(r)
		pw2 = append([]byte{}, pw1...)
		kind = "gcm-cross-same"
	case 1:
		pw1, pw2 = validPw(r), validPw(r)
		for bytes.Equal(pw1, pw2) {
			pw2 = validPw(r)
		}
		kind = "gcm-cross-valid"
	case 2:
		pw1, pw2 = anyPw(r), anyPw(r)
		for bytes.Equal(deriveKey(pw1), deriveKey(pw2)) {
			pw2 = append(r.Bytes(1), pw2...)
		}
		kind = "gcm-cross-any"
	default:
		pw1 = anyPw(r)
		pw2 = collidePw(r, pw1)
		kind = "gcm-cross-collide"
	}
	legacy := r.Chance(1, 3)
	seed := genSeedBytes(r, pw1)
	var blob, nonce []byte
	if legacy {
		blob = legacyGCM(pw1, seed)
	} else {
		var err error
		blob, err = wallet.AesgcmEncrypter(pw1, seed)
		if err != nil {
			panic(err)
		}
		nonce = blob[:12]
	}
	dec, f := gcmDec(pw2, blob)
	o.Emit(kind, !f,
		hlib.App("CGcmCross", hlib.Bool(legacy), hlib.Hx(pw1), hlib.Hx(pw2), hlib.Hx(seed), hlib.Hx(nonce), optHx(dec, f)),
		in, map[string]interface{}{"pw1": hlib.HexS(pw1), "pw2": hlib.HexS(pw2), "seed": hlib.HexS(seed), "blob": hlib.HexS(blob), "dec": hlib.HexS(dec), "err": f, "legacy": legacy})
}

func genGcmTamper(o *hlib.Out, in caseIn, r *hlib.Rng) {
	pw := anyPw(r)
	seed := genSeedBytes(r, pw)
	var blob []byte
	if r.Chance(1, 4) {
		blob = r.Bytes(r.Range(0, 60))
	} else {
		if r.Chance(1, 2) {
			blob = legacyGCM(pw, seed)
		} else {
			blob, _ = wallet.AesgcmEncrypter(pw, seed)
		}
		i := r.Intn(len(blob))
		blob[i] ^= 1 << uint(r.Intn(8))
	}
	dec, f := gcmDec(pw, blob)
	o.Emit("gcm-tamper", f,
		hlib.App("CGcmTamper", hlib.Hx(pw), hlib.Hx(seed), optHx(dec, f)),
		in, map[string]interface{}{"pw": hlib.HexS(pw), "seed": hlib.HexS(seed), "blob": hlib.HexS(blob), "dec": hlib.HexS(dec), "err": f})
}

// ---------------------------------------------------------------- wallet environment

var errInjected = errors.New("injected batch write failure")

// faultDB: a memdb that survives Close (restart = reopen the same dir) and
// whose batches fail on demand.
type faultDB struct {
	dbm.DB
	arm *bool
}

type faultBatch struct {
	dbm.Batch
	arm *bool
}

func (d *faultDB) NewBatch(sync bool) dbm.Batch {
	return &faultBatch{Batch: d.DB.NewBatch(sync), arm: d.arm}
}
func (d *faultDB) Close() {}
func (b *faultBatch) Write() error {
	if *b.arm {
		*b.arm = false
		return errInjected
	}
	return b.Batch.Write()
}

var (
	dbMu   sync.Mutex
	dbs    = map[string]*faultDB{}
	armAll = new(bool)
)

func init() {
	dbm.RegisterDBCreatorVerif("c37db", func(name, dir string, cache int) (dbm.DB, error) {
		dbMu.Lock()
		defer dbMu.Unlock()
		if d, ok := dbs[dir]; ok {
			return d, nil
		}
		m, err := dbm.NewGoMemDB(name, dir, cache)
		if err != nil {
			return nil, err
		}
		d := &faultDB{DB: m, arm: armAll}
		dbs[dir] = d
		return d, nil
	})
}

type env struct {
	cfg  *types.Chain33Config
	q    queue.Queue
	w    *wallet.Wallet
	mock []queue.Client
}

var cfgText string
var envSeq int

func newCfg(ed bool, dir string) *types.Chain33Config {
	if cfgText == "" {
		cfgText = types.ReadFile("/repo/cmd/chain33/chain33.test.toml")
	}
	cfg := types.NewChain33Config(cfgText)
	w := cfg.GetModuleConfig().Wallet
	w.Driver = "c37db"
	w.DbPath = dir
	if ed {
		w.SignType = "ed25519"
	} else {
		w.SignType = "secp256k1"
	}
	return cfg
}

func (e *env) start() {
	e.q = queue.New("channel")
	e.q.SetConfig(e.cfg)
	bc := e.q.Client()
	bc.Sub("blockchain")
	go func() {
		for msg := range bc.Recv() {
			switch msg.Ty {
			case types.EventGetLastHeader:
				msg.Reply(bc.NewMessage("", types.EventHeader, &types.Header{}))
			default:
				msg.Reply(bc.NewMessage("", msg.Ty, types.ErrActionNotSupport))
			}
		}
	}()
	st := e.q.Client()
	st.Sub("store")
	go func() {
		for msg := range st.Recv() {
			switch msg.Ty {
			case types.EventStoreGet:
				g := msg.GetData().(*types.StoreGet)
				msg.Reply(st.NewMessage("", types.EventStoreGetReply, &types.StoreReplyValue{Values: make([][]byte, len(g.Keys))}))
			default:
				msg.Reply(st.NewMessage("", msg.Ty, types.ErrActionNotSupport))
			}
		}
	}()
	e.mock = []queue.Client{bc, st}
	e.w = wallet.New(e.cfg)
	e.w.SetQueueClient(e.q.Client())
}

func (e *env) stop() {
	e.w.Close()
	for _, c := range e.mock {
		c.Close()
	}
	e.q.Close()
}

func mnemonic(r *hlib.Rng) string {
	m, err := bip39.NewMnemonic(r.Bytes(20), 0)
	if err != nil {
		panic(err)
	}
	return m
}

func errClass(err error) uint64 {
	switch err {
	case nil:
		return 0
	case types.ErrVerifyOldpasswdFail:
		return 1
	case types.ErrInvalidPassWord:
		return 2
	case types.ErrInputPassword:
		return 3
	case types.ErrWalletIsLocked:
		return 4
	case types.ErrSaveSeedFirst:
		return 5
	case types.ErrSeedExist:
		return 6
	case types.ErrAddrNotExist:
		return 7
	case types.ErrPrivkeyExist:
		return 8
	case types.ErrPrivkey:
		return 9
	case types.ErrInvalidParam:
		return 10
	case errInjected:
		return 11
	case types.ErrPrivkeyToPub:
		return 12
	}
	return 99
}

// result of one wallet call, as a Coq [res]
type res struct {
	coq  string
	text string
	ok   bool
	byt  bool
}

func rErr(err error) res {
	if err == nil {
		return res{coq: "ROk", text: "ok", ok: true}
	}
	return res{coq: hlib.App("RErr", hlib.N(errClass(err))), text: err.Error()}
}
func rBytes(b []byte) res {
	return res{coq: hlib.App("RBytes", hlib.Hx(b)), text: "bytes:" + hlib.HexS(b), byt: true}
}

var rPanic = res{coq: "RPanic", text: "panic"}

func guard(f func() res) (r res) {
	defer func() {
		if x := recover(); x != nil {
			r = rPanic
			r.text = fmt.Sprint("panic: ", x)
		}
	}()
	return f()
}

// ---------------------------------------------------------------- histories

type hist struct {
	e       *env
	r       *hlib.Rng
	ed      bool
	pool    [][]byte // keys, id = index
	addrs   []string
	pws     [][]byte // password alphabet (valid)
	cur     []byte   // harness's belief of the current password (generation only)
	seeded  bool
	steps   []string
	text    []string
	pairs   []pwBlob
	prev    string
	nlabel  int
	okSet   bool
	dumpOK  bool
	naccts  int
	setWith bool
}

func (h *hist) addrOf(key []byte) string {
	pub, err := bipwallet.PrivkeyToPub(h.e.w.GetCoinType(), uint32(h.e.w.GetSignType()), key)
	if err != nil {
		panic(err)
	}
	return address.PubKeyToAddr(0, pub)
}

// snapshot: account records (sorted by id) and seed record length
func (h *hist) snapshot() (string, [][2]interface{}, uint64) {
	var items []string
	var raw [][2]interface{}
	n := 0
	for id, a := range h.addrs {
		acc, err := h.e.w.GetAccountByAddr(a)
		if err != nil || acc == nil {
			continue
		}
		b, err := common.FromHex(acc.Privkey)
		if err != nil {
			panic("stored privkey is not hex")
		}
		h.pairs = append(h.pairs, pwBlob{h.cur, b})
		items = append(items, hlib.Pair(hlib.N(uint64(id)), hlib.Hx(b)))
		raw = append(raw, [2]interface{}{id, b})
		n++
	}
	h.naccts = n
	sb, _ := h.e.w.GetDBStore().Get(wallet.WalletSeed)
	return hlib.List(items), raw, uint64(len(sb))
}

func ivList(raw [][2]interface{}) string {
	var it []string
	for _, x := range raw {
		b := x[1].([]byte)
		if len(b) > 16 {
			b = b[:16]
		}
		it = append(it, hlib.Pair(hlib.N(uint64(x[0].(int))), hlib.Hx(b)))
	}
	return hlib.List(it)
}

func (h *hist) seedNonce() []byte {
	sb, _ := h.e.w.GetDBStore().Get(wallet.WalletSeed)
	if len(sb) > 12 {
		return sb[:12]
	}
	return sb
}

// record: op is a function of the post-state (IVs / nonce are read from it)
func (h *hist) record(desc string, r res, mkop func(raw [][2]interface{}) string) {
	snap, raw, sl := h.snapshot()
	op := mkop(raw)
	osnap := "(Some " + snap + ")"
	if snap == h.prev {
		osnap = "None"
	}
	h.prev = snap
	h.steps = append(h.steps, "("+op+", "+r.coq+", "+osnap+", "+hlib.N(sl)+")")
	h.text = append(h.text, desc+" -> "+r.text)
}


func (h *hist) opSaveSeed(pw []byte, seed string) {
	r := guard(func() res {
		_, err := h.e.w.SaveSeed(string(pw), seed)
		return rErr(err)
	})
	if r.ok {
		h.cur = pw
		h.seeded = true
	}
	h.record(fmt.Sprintf("SaveSeed(%q)", pw), r, func(_ [][2]interface{}) string {
		return hlib.App("OSaveSeed", hlib.Hx(pw), hlib.Hx([]byte(seed)), hlib.Hx(h.seedNonce()))
	})
}

func (h *hist) opUnlock(pw []byte) {
	r := guard(func() res {
		return rErr(h.e.w.ProcWalletUnLock(&types.WalletUnLock{Passwd: string(pw)}))
	})
	h.record(fmt.Sprintf("Unlock(%q)", pw), r, func(_ [][2]interface{}) string { return hlib.App("OUnlock", hlib.Hx(pw)) })
}

func (h *hist) opLock() {
	r := guard(func() res { return rErr(h.e.w.ProcWalletLock()) })
	h.record("Lock", r, func(_ [][2]interface{}) string { return "OLock" })
}

func (h *hist) opRestart() {
	h.e.stop()
	h.e.start()
	h.record("Restart", res{coq: "ROk", text: "ok", ok: true}, func(_ [][2]interface{}) string { return "ORestart" })
}

func (h *hist) opImport(id int, key []byte) {
	h.nlabel++
	label := fmt.Sprintf("L%d", h.nlabel)
	r := guard(func() res {
		_, err := h.e.w.ProcImportPrivKey(&types.ReqWalletImportPrivkey{Privkey: common.ToHex(key), Label: label})
		return rErr(err)
	})
	h.record(fmt.Sprintf("Import(%d,%x)", id, key), r, func(raw [][2]interface{}) string {
		iv := []byte{}
		for _, x := range raw {
			if x[0].(int) == id {
				iv = x[1].([]byte)
				if len(iv) > 16 {
					iv = iv[:16]
				}
			}
		}
		if !r.ok {
			iv = make([]byte, 16) // not stored: the IV drawn is not observable and does not matter
		}
		return hlib.App("OImport", hlib.N(uint64(id)), hlib.Hx(key), hlib.Hx(iv))
	})
}

// putRecord stores an account record directly (as an older release of the
// wallet would have left it), keeping the record's timestamp when it exists.
func (h *hist) putRecord(id int, blob []byte) {
	addr := h.addrs[id]
	acc, err := h.e.w.GetAccountByAddr(addr)
	if err == nil && acc != nil {
		acc.Privkey = common.ToHex(blob)
		if err := h.e.w.SetWalletAccount(true, addr, acc); err != nil {
			panic(err)
		}
		return
	}
	h.nlabel++
	st := &types.WalletAccountStore{Privkey: common.ToHex(blob), Label: fmt.Sprintf("L%d", h.nlabel), Addr: addr}
	if err := h.e.w.SetWalletAccount(false, addr, st); err != nil {
		panic(err)
	}
}

func (h *hist) opInjectLegacyAcct(id int, pw, key []byte) {
	blob := legacyCBC(pw, key)
	h.pairs = append(h.pairs, pwBlob{pw, blob})
	h.putRecord(id, blob)
	h.record(fmt.Sprintf("InjectLegacyAcct(%d,%q,%x)", id, pw, key), res{coq: "ROk", text: "ok", ok: true}, func(_ [][2]interface{}) string {
		return hlib.App("OInjectLegacyAcct", hlib.N(uint64(id)), hlib.Hx(pw), hlib.Hx(key))
	})
}

func (h *hist) opInjectRawAcct(id int, blob []byte) {
	h.putRecord(id, blob)
	h.record(fmt.Sprintf("InjectRawAcct(%d,%x)", id, blob), res{coq: "ROk", text: "ok", ok: true}, func(_ [][2]interface{}) string {
		return hlib.App("OInjectRawAcct", hlib.N(uint64(id)), hlib.Hx(blob))
	})
}

func (h *hist) opInjectLegacySeed(pw []byte, seed string) {
	if err := h.e.w.GetDBStore().Set(wallet.WalletSeed, legacyGCM(pw, []byte(seed))); err != nil {
		panic(err)
	}
	h.record(fmt.Sprintf("InjectLegacySeed(%q)", pw), res{coq: "ROk", text: "ok", ok: true}, func(_ [][2]interface{}) string {
		return hlib.App("OInjectLegacySeed", hlib.Hx(pw), hlib.Hx([]byte(seed)))
	})
}

func (h *hist) opSetPasswd(old, nw []byte, wfail bool) {
	*armAll = wfail
	r := guard(func() res {
		return rErr(h.e.w.ProcWalletSetPasswd(&types.ReqWalletSetPasswd{OldPass: string(old), NewPass: string(nw)}))
	})
	*armAll = false
	if r.ok {
		h.cur = nw
		h.okSet = true
		if h.naccts > 0 {
			h.setWith = true
		}
	}
	h.record(fmt.Sprintf("SetPasswd(%q,%q,wfail=%v)", old, nw, wfail), r, func(raw [][2]interface{}) string {
		return hlib.App("OSetPasswd", hlib.Hx(old), hlib.Hx(nw), hlib.Hx(h.seedNonce()), ivList(raw), hlib.Bool(wfail))
	})
}

func (h *hist) opDump(id int) {
	r := guard(func() res {
		s, err := h.e.w.ProcDumpPrivkey(h.addrs[id])
		if err != nil {
			return rErr(err)
		}
		b, err := common.FromHex(s)
		if err != nil {
			panic("dump result is not hex")
		}
		return rBytes(b)
	})
	if r.byt && h.setWith {
		h.dumpOK = true
	}
	h.record(fmt.Sprintf("Dump(%d)", id), r, func(_ [][2]interface{}) string { return hlib.App("ODump", hlib.N(uint64(id))) })
}

func (h *hist) opGetSeed(pw []byte) {
	r := guard(func() res {
		s, err := h.e.w.GetSeed(string(pw))
		if err != nil {
			return rErr(err)
		}
		return rBytes([]byte(s))
	})
	h.record(fmt.Sprintf("GetSeed(%q)", pw), r, func(_ [][2]interface{}) string { return hlib.App("OGetSeed", hlib.Hx(pw)) })
}

func (h *hist) observe() {
	for _, p := range h.pws {
		if bytes.Equal(p, h.cur) || h.r.Chance(1, 3) {
			h.opGetSeed(p)
		}
	}
	for id := range h.pool {
		h.opDump(id)
	}
}

var badPws = []string{"short1", "nodigitshere", "12345678", "has space 12", "toolongtoolongtoolongtoolong1234", "sym!bol123", ""}

// genHist: mode "plain" (API only), "legacy" (wallet left by an older release),
// "edge" (arbitrary / unsupported records), "fault" (batch write failures).
func genHist(o *hlib.Out, in caseIn, r *hlib.Rng, mode string) {
	ed := r.Chance(1, 3)
	envSeq++
	dir := fmt.Sprintf("c37-%d-%d", os.Getpid(), envSeq)
	e := &env{cfg: newCfg(ed, dir)}
	e.start()
	h := &hist{e: e, r: r, ed: ed}
	defer func() {
		h.e.stop()
		dbMu.Lock()
		delete(dbs, dir)
		dbMu.Unlock()
	}()
	np := r.Range(2, 3)
	for i := 0; i < np; i++ {
		p := validPw(r)
		h.pws = append(h.pws, p)
	}
	nk := r.Range(1, 3)
	for i := 0; i < nk; i++ {
		n := 32
		if ed && r.Chance(2, 3) {
			n = 64
		}
		k := r.Bytes(n)
		h.pool = append(h.pool, k)
		h.addrs = append(h.addrs, h.addrOf(k))
	}
	seed := mnemonic(r)

	// prologue on the seedless wallet (rare)
	if r.Chance(1, 6) {
		switch r.Intn(4) {
		case 0:
			h.opUnlock(h.pws[0])
		case 1:
			h.opSetPasswd(h.pws[0], h.pws[1], false)
		case 2:
			h.opImport(0, h.pool[0])
		case 3:
			h.opSaveSeed([]byte(hlib.Pick(r, badPws)), seed)
		}
	}
	h.opSaveSeed(h.pws[0], seed)
	if mode == "legacy" {
		h.opInjectLegacySeed(h.pws[0], seed)
		for id := range h.pool {
			if r.Chance(3, 4) {
				h.opInjectLegacyAcct(id, h.pws[0], h.pool[id])
			}
		}
		if r.Chance(1, 2) {
			h.opRestart()
		}
	}
	h.opUnlock(h.pws[0])
	if mode != "legacy" {
		for id := range h.pool {
			if r.Chance(2, 3) {
				h.opImport(id, h.pool[id])
			}
		}
	}

	nops := r.Range(4, 10)
	for i := 0; i < nops; i++ {
		x := r.Intn(100)
		switch {
		case x < 22:
			id := r.Intn(len(h.pool))
			key := h.pool[id]
			if r.Chance(1, 10) {
				// wrong-length or variant key
				if ed && len(key) == 64 && r.Chance(1, 2) {
					key = key[:32] // same address under ed25519
				} else {
					key = r.Bytes(hlib.Pick(r, []int{16, 31, 33, 48, 64}))
					if len(key) == 64 && ed {
						id = -1
					}
				}
			}
			if id >= 0 {
				h.opImport(id, key)
			}
		case x < 50:
			var old []byte
			y := r.Intn(10)
			switch {
			case y < 6:
				old = h.cur
			case y < 9:
				old = hlib.Pick(r, h.pws)
			default:
				old = []byte(hlib.Pick(r, badPws))
			}
			var nw []byte
			if r.Chance(5, 6) {
				nw = hlib.Pick(r, h.pws)
			} else {
				nw = []byte(hlib.Pick(r, badPws))
			}
			wfail := mode == "fault" && r.Chance(1, 2)
			h.opSetPasswd(old, nw, wfail)
			h.observe()
		case x < 56:
			h.opLock()
		case x < 66:
			if r.Chance(2, 3) {
				h.opUnlock(h.cur)
			} else {
				h.opUnlock(hlib.Pick(r, h.pws))
			}
		case x < 74:
			h.opRestart()
			if r.Chance(1, 2) {
				h.opUnlock(h.cur)
			}
		case x < 84:
			h.opDump(r.Intn(len(h.pool)))
		case x < 90:
			h.opGetSeed(hlib.Pick(r, h.pws))
		default:
			switch mode {
			case "legacy":
				if r.Chance(1, 3) {
					h.opInjectLegacySeed(h.cur, seed)
				} else {
					id := r.Intn(len(h.pool))
					h.opInjectLegacyAcct(id, h.cur, h.pool[id])
				}
			case "edge":
				id := r.Intn(len(h.pool))
				switch r.Intn(4) {
				case 0:
					h.opInjectRawAcct(id, r.Bytes(hlib.Pick(r, []int{0, 16, 32, 48, 64, 80, 96})))
				case 1:
					h.opInjectRawAcct(id, r.Bytes(hlib.Pick(r, []int{1, 15, 20, 33, 47})))
				case 2:
					h.opInjectLegacyAcct(id, h.cur, r.Bytes(hlib.Pick(r, []int{16, 48, 80})))
				default:
					h.opInjectLegacyAcct(id, hlib.Pick(r, h.pws), h.pool[id])
				}
			default:
				h.opDump(r.Intn(len(h.pool)))
			}
		}
	}
	// epilogue: make sure the secrets are read under the final password
	h.opUnlock(h.cur)
	h.observe()
	if mode == "collide" {
		// GetSeed does not validate its password argument: NUL padding reaches the key derivation
		h.opGetSeed(append(append([]byte{}, h.cur...), make([]byte, r.Range(1, 32-len(h.cur)))...))
	}

	tbl := mkTablePairs(h.pairs)
	o.Emit("hist-"+mode, h.dumpOK,
		hlib.App("CHist", hlib.Bool(ed), tbl, hlib.List(h.steps)),
		in, h.text)
}

// ---------------------------------------------------------------- driver

type stream struct {
	name  string
	quick int
	gen   func(o *hlib.Out, in caseIn, r *hlib.Rng)
}

func streams() []stream {
	return []stream{
		{"cbc-enc", 100, func(o *hlib.Out, in caseIn, r *hlib.Rng) { genCbcEnc(o, in, r, false) }},
		{"cbc-enc-unsupported-len", 30, func(o *hlib.Out, in caseIn, r *hlib.Rng) { genCbcEnc(o, in, r, true) }},
		{"cbc-legacy", 60, func(o *hlib.Out, in caseIn, r *hlib.Rng) { genCbcLegacy(o, in, r, false) }},
		{"cbc-legacy-unsupported-len", 20, func(o *hlib.Out, in caseIn, r *hlib.Rng) { genCbcLegacy(o, in, r, true) }},
		{"cbc-cross-same", 25, func(o *hlib.Out, in caseIn, r *hlib.Rng) { genCbcCross(o, in, r, 0) }},
		{"cbc-cross-valid", 30, func(o *hlib.Out, in caseIn, r *hlib.Rng) { genCbcCross(o, in, r, 1) }},
		{"cbc-cross-any", 24, func(o *hlib.Out, in caseIn, r *hlib.Rng) { genCbcCross(o, in, r, 2) }},
		{"cbc-cross-collide", 25, func(o *hlib.Out, in caseIn, r *hlib.Rng) { genCbcCross(o, in, r, 3) }},
		{"cbc-dec-raw", 60, func(o *hlib.Out, in caseIn, r *hlib.Rng) { genCbcDecRaw(o, in, r) }},
		{"gcm", 80, func(o *hlib.Out, in caseIn, r *hlib.Rng) { genGcm(o, in, r) }},
		{"gcm-legacy", 60, func(o *hlib.Out, in caseIn, r *hlib.Rng) { genGcmLegacy(o, in, r) }},
		{"gcm-cross-same", 30, func(o *hlib.Out, in caseIn, r *hlib.Rng) { genGcmCross(o, in, r, 0) }},
		{"gcm-cross-valid", 40, func(o *hlib.Out, in caseIn, r *hlib.Rng) { genGcmCross(o, in, r, 1) }},
		{"gcm-cross-any", 30, func(o *hlib.Out, in caseIn, r *hlib.Rng) { genGcmCross(o, in, r, 2) }},
		{"gcm-cross-collide", 30, func(o *hlib.Out, in caseIn, r *hlib.Rng) { genGcmCross(o, in, r, 3) }},
		{"gcm-tamper", 50, func(o *hlib.Out, in caseIn, r *hlib.Rng) { genGcmTamper(o, in, r) }},
		{"hist-plain", 56, func(o *hlib.Out, in caseIn, r *hlib.Rng) { genHist(o, in, r, "plain") }},
		{"hist-legacy", 36, func(o *hlib.Out, in caseIn, r *hlib.Rng) { genHist(o, in, r, "legacy") }},
		{"hist-fault", 30, func(o *hlib.Out, in caseIn, r *hlib.Rng) { genHist(o, in, r, "fault") }},
		{"hist-edge", 28, func(o *hlib.Out, in caseIn, r *hlib.Rng) { genHist(o, in, r, "edge") }},
		{"hist-collide", 6, func(o *hlib.Out, in caseIn, r *hlib.Rng) { genHist(o, in, r, "collide") }},
	}
}

func main() {
	opts := hlib.ParseFlags()
	wallet.DisableLog()
	wallet.SetLogLevel("crit")
	queue.DisableLog()
	o := hlib.NewOut(opts.OutDir)
	defer o.Close()
	ss := streams()
	if opts.Replay != "" {
		var in caseIn
		if err := hlib.ReplayInput(opts.Replay, &in); err != nil {
			fmt.Println("replay:", err)
			os.Exit(2)
		}
		for _, s := range ss {
			if s.name == in.Stream {
				s.gen(o, in, hlib.NewRng(in.CSeed))
				return
			}
		}
		fmt.Println("replay: unknown stream", in.Stream)
		os.Exit(2)
	}
	rng := hlib.NewRng(opts.Seed)
	mult := 1
	if opts.Thorough() {
		mult = 12
	}
	names := []string{}
	for _, s := range ss {
		sr := rng.Fork()
		for i := 0; i < s.quick*mult; i++ {
			cs := sr.U64()
			s.gen(o, caseIn{Stream: s.name, CSeed: cs}, hlib.NewRng(cs))
		}
		names = append(names, s.name)
	}
	sort.Strings(names)
	fmt.Printf("hC37: %d cases (%s)\n", o.Count(), strings.Join(names, ","))
}
