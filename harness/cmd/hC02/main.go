// hC02: replays one generated history of mavl store operations (updates on
// several parents, pending updates, commits, rollbacks, whole-version reads)
// under every sub-option combination mavl.New admits and under direct Set versus
// MemSet+Commit, and records what every run returned: result class, root bytes
// (as equality classes over the whole case) and node structure of probed versions.
package main

import (
	"bytes"
	"encoding/hex"
	"fmt"
	"os"
	"path/filepath"
	"strings"
	"time"

	clog "github.com/33cn/chain33/common/log"
	"github.com/33cn/chain33/system/store/mavl"
	mavldb "github.com/33cn/chain33/system/store/mavl/db"
	"github.com/33cn/chain33/types"
	"verifharness/hlib"
)

// ---------- history (also the replay format) ----------

type KV struct {
	K string `json:"k"` // hex
	V string `json:"v"`
}

type Op struct {
	T      string `json:"t"` // upd | commit | rollback | probe
	Parent int    `json:"parent,omitempty"`
	Height int64  `json:"height,omitempty"`
	KVs    []KV   `json:"kvs,omitempty"`
	Now    bool   `json:"now,omitempty"`
	N      int    `json:"n,omitempty"`
	Legal  bool   `json:"legal,omitempty"` // generator's intent for commit/rollback
}

type Run struct {
	Bits   int  `json:"bits"`
	Direct bool `json:"direct"`
}

type History struct {
	Ops     []Op   `json:"ops"`
	Runs    []Run  `json:"runs"`
	LevelDB bool   `json:"leveldb"`
	Kind    string `json:"kind"`
}

func unhex(s string) []byte {
	b, err := hex.DecodeString(s)
	if err != nil {
		panic(err)
	}
	if b == nil {
		b = []byte{}
	}
	return b
}

// ---------- implementation side ----------

type obs struct {
	code  int
	root  []byte
	shape []mavldb.VerifNode
	msg   string
}

var pruneRuns int64 // prune runs so far in this process (maxBlockHeight is a process global)

func subJSON(bits int) []byte {
	b := func(i uint) bool { return bits&(1<<i) != 0 }
	ph, tk := 0, 0
	if b(5) {
		ph = 1000000
	}
	if b(6) {
		tk = 7
	}
	return []byte(fmt.Sprintf(`{"enableMavlPrefix":%v,"enableMVCC":%v,"enableMavlPrune":%v,"pruneHeight":%d,"enableMemTree":%v,"enableMemVal":%v,"tkCloseCacheLen":%d}`,
		b(0), b(1), b(2), ph, b(3), b(4), tk))
}

func isEmptyRoot(r []byte) bool { return len(r) == 0 || bytes.Equal(r, make([]byte, 32)) }

func runHistory(dir string, h *History, run Run) []obs {
	os.RemoveAll(dir)
	defer os.RemoveAll(dir)
	mavldb.VerifClearGlobalMem()
	prune := run.Bits&4 != 0
	var hoff int64
	if prune {
		// heights of a prune run lie above every height saved earlier in this process
		pruneRuns++
		hoff = pruneRuns * 1000
	}
	driver := "memdb"
	if prune || h.LevelDB {
		driver = "leveldb" // memdb.Delete of an absent key fails (C06), which the prune bookkeeping does
	}
	st := mavl.New(&types.Store{Name: "mavl", Driver: driver, DbPath: dir, DbCache: 16}, subJSON(run.Bits), nil).(*mavl.Store)
	defer st.Close()
	treeCfg := &mavldb.TreeConfig{
		EnableMavlPrefix: run.Bits&1 != 0 || prune, EnableMVCC: run.Bits&2 != 0, EnableMavlPrune: prune,
		EnableMemTree: run.Bits&8 != 0, EnableMemVal: run.Bits&16 != 0,
	}
	if run.Bits&32 != 0 {
		treeCfg.PruneHeight = 1000000
	}
	roots := make([][]byte, len(h.Ops)+1)
	have := make([]bool, len(h.Ops)+1)
	have[0] = true
	var out []obs
	for i, op := range h.Ops {
		var o obs
		func() {
			defer func() {
				if r := recover(); r != nil {
					o = obs{code: 3, msg: fmt.Sprint(r)}
					if !strings.Contains(o.msg, "ErrNodeNotExist") {
						o.code = 4
					}
				}
			}()
			errCode := func(err error) obs {
				switch err {
				case mavldb.ErrNodeNotExist:
					return obs{code: 1, msg: err.Error()}
				case types.ErrHashNotFound:
					return obs{code: 2, msg: err.Error()}
				}
				return obs{code: 4, msg: err.Error()}
			}
			switch op.T {
			case "upd":
				if !have[op.Parent] {
					o = obs{code: 5}
					return
				}
				kvs := make([]*types.KeyValue, len(op.KVs))
				for j, kv := range op.KVs {
					kvs[j] = &types.KeyValue{Key: unhex(kv.K), Value: unhex(kv.V)}
				}
				set := &types.StoreSet{StateHash: roots[op.Parent], KV: kvs, Height: op.Height + hoff}
				if op.Now && run.Direct {
					r, err := st.Set(set, false)
					if err != nil {
						o = errCode(err)
						return
					}
					o = obs{root: r}
					return
				}
				r, err := st.MemSet(set, false)
				if err != nil {
					o = errCode(err)
					return
				}
				if op.Now {
					r2, err := st.Commit(&types.ReqHash{Hash: r})
					if err != nil {
						o = errCode(err)
						return
					}
					if !bytes.Equal(r, r2) {
						o = obs{code: 4, msg: "Commit returned another hash than MemSet"}
						return
					}
				}
				o = obs{root: r}
			case "commit", "rollback":
				if !have[op.N] {
					o = obs{code: 5}
					return
				}
				var r []byte
				var err error
				if op.T == "commit" {
					r, err = st.Commit(&types.ReqHash{Hash: roots[op.N]})
				} else {
					r, err = st.Rollback(&types.ReqHash{Hash: roots[op.N]})
				}
				if err != nil {
					o = errCode(err)
					return
				}
				o = obs{root: r}
			case "probe":
				if !have[op.N] {
					o = obs{code: 5}
					return
				}
				tree := mavldb.NewTree(st.GetDB(), true, treeCfg)
				if err := tree.Load(roots[op.N]); err != nil {
					o = errCode(err)
					return
				}
				o = obs{root: roots[op.N], shape: tree.VerifDump()}
			}
		}()
		out = append(out, o)
		if os.Getenv("C02DBG") == "roots" {
			fmt.Fprintf(os.Stderr, "bits=%d direct=%v op=%d code=%d root=%x %s\n", run.Bits, run.Direct, i+1, o.code, o.root, o.msg)
		}
		if o.code == 0 {
			roots[i+1], have[i+1] = o.root, true
		}
		if o.code == 3 || o.code == 4 {
			break // the store may be half-updated after a panic
		}
	}
	return out
}

// ---------- Coq rendering ----------

type tab struct {
	idx  map[string]int
	list [][]byte
}

func newTab() *tab { return &tab{idx: map[string]int{}} }

func (t *tab) ix(b []byte) string {
	i, ok := t.idx[string(b)]
	if !ok {
		i = len(t.list)
		t.idx[string(b)] = i
		t.list = append(t.list, append([]byte{}, b...))
	}
	return fmt.Sprint(i)
}

type classes struct {
	seen [][]byte
}

func (c *classes) of(r []byte) int {
	if isEmptyRoot(r) {
		return 0
	}
	for i, s := range c.seen {
		if bytes.Equal(s, r) {
			return i + 1
		}
	}
	c.seen = append(c.seen, append([]byte{}, r...))
	return len(c.seen)
}

func zlit(v int64) string {
	if v < 0 {
		return fmt.Sprintf("(%d)", v)
	}
	return fmt.Sprint(v)
}

func (o *obs) coq(t *tab, cl *classes) string {
	shape := make([]string, len(o.shape))
	for i, n := range o.shape {
		if n.Leaf {
			shape[i] = "(SL " + t.ix(n.Key) + ")"
		} else {
			shape[i] = "(SN " + t.ix(n.Key) + " " + zlit(int64(n.Height)) + " " + zlit(int64(n.Size)) + ")"
		}
	}
	k := 0
	if o.code == 0 {
		k = cl.of(o.root)
	}
	return fmt.Sprintf("(OB %d %d %s)", o.code, k, hlib.List(shape))
}

type implRun struct {
	Bits   int      `json:"bits"`
	Direct bool     `json:"direct"`
	Obs    []string `json:"obs"`
	Msg    string   `json:"msg,omitempty"`
}

func emitCase(o *hlib.Out, h *History, all [][]obs) {
	t := newTab()
	cl := &classes{}
	ops := make([]string, len(h.Ops))
	for i, op := range h.Ops {
		switch op.T {
		case "upd":
			kvs := make([]string, len(op.KVs))
			for j, kv := range op.KVs {
				kvs[j] = "(KV " + t.ix(unhex(kv.K)) + " " + t.ix(unhex(kv.V)) + ")"
			}
			ops[i] = fmt.Sprintf("(UUpd %d %s %s %s)", op.Parent, zlit(op.Height), hlib.List(kvs), hlib.Bool(op.Now))
		case "commit":
			ops[i] = fmt.Sprintf("(UCommit %d)", op.N)
		case "rollback":
			ops[i] = fmt.Sprintf("(URollback %d)", op.N)
		default:
			ops[i] = fmt.Sprintf("(UProbe %d)", op.N)
		}
	}
	var runs []string
	var impl []implRun
	var ref []string
	nontrivial := false
	maxSize := int32(0)
	for ri, run := range h.Runs {
		terms := make([]string, len(all[ri]))
		msg := ""
		for i := range all[ri] {
			terms[i] = all[ri][i].coq(t, cl)
			if all[ri][i].msg != "" && msg == "" {
				msg = fmt.Sprintf("op %d: %s", i+1, all[ri][i].msg)
			}
			for _, n := range all[ri][i].shape {
				if n.Size > maxSize {
					maxSize = n.Size
				}
			}
		}
		var ro string
		if ri == 0 {
			ref = terms
			ro = "(RFull " + hlib.List(terms) + ")"
		} else {
			same := len(terms) == len(ref)
			firstDiff := -1
			for i := range terms {
				if i >= len(ref) || terms[i] != ref[i] {
					same = false
					if firstDiff < 0 {
						firstDiff = i
					}
				}
			}
			switch {
			case same:
				ro = "RSame"
			case firstDiff >= 0 && firstDiff == len(terms)-1:
				ro = fmt.Sprintf("(RCut %d %s)", firstDiff+1, terms[firstDiff])
			default:
				ro = "(RFull " + hlib.List(terms) + ")"
			}
		}
		runs = append(runs, fmt.Sprintf("(RUN %d %s %s)", run.Bits, hlib.Bool(run.Direct), ro))
		if ri == 0 || ro != "RSame" {
			impl = append(impl, implRun{Bits: run.Bits, Direct: run.Direct, Obs: terms, Msg: msg})
		}
	}
	nUpd := 0
	for _, op := range h.Ops {
		if op.T == "upd" {
			nUpd++
		}
	}
	nontrivial = nUpd >= 3 && len(cl.seen) >= 2
	term := hlib.App("CASE", hlib.ListHx(t.list), hlib.List(ops), hlib.List(runs))
	o.Emit(h.Kind, nontrivial, term, h, map[string]interface{}{"runs": impl, "distinctRoots": len(cl.seen), "maxSize": maxSize})
}

// ---------- generation ----------

var alpha = []string{"a", "b", "c", "d", "e", "f", "g", "h", "i", "j", "k", "l", "m", "n", "o", "p"}

type genState struct {
	r         *hlib.Rng
	ops       []Op
	content   map[int]map[string]string // op number -> content of its root (ideal execution)
	committed []int
	pending   []int
	resolved  []int
}

func (g *genState) add(op Op) int {
	g.ops = append(g.ops, op)
	return len(g.ops)
}

func copyMap(m map[string]string) map[string]string {
	c := map[string]string{}
	for k, v := range m {
		c[k] = v
	}
	return c
}

func genHistory(r *hlib.Rng, class string) *History {
	g := &genState{r: r, content: map[int]map[string]string{0: {}}}
	var nops, nkeys, maxw, nh int
	mixed := true
	switch class {
	case "guarded-small":
		nops, nkeys, maxw, nh, mixed = r.Range(3, 7), r.Range(3, 6), 3, r.Range(1, 3), false
	case "guarded-large":
		nops, nkeys, maxw, nh, mixed = r.Range(6, 12), r.Range(8, 16), 8, r.Range(1, 4), false
	case "mixed-small":
		nops, nkeys, maxw, nh = r.Range(4, 9), r.Range(3, 6), 3, r.Range(1, 3)
	case "rewrite":
		nops, nkeys, maxw, nh = r.Range(4, 8), r.Range(2, 5), 3, r.Range(2, 3)
	case "alias":
		// large trees (root height > 2: ARC-cached), few block heights (the prune bookkeeping
		// reloads the roots of a height), many updates without writes: known finding 2 and the
		// repaired finding 3 (a cached root object must say its own hash)
		nops, nkeys, maxw, nh, mixed = r.Range(8, 14), r.Range(8, 14), 4, r.Range(1, 2), false
	default: // mixed-large
		nops, nkeys, maxw, nh = r.Range(8, 16), r.Range(8, 16), 8, r.Range(1, 4)
	}
	keys := alpha[:nkeys]
	val := func() string { return string([]byte{byte('0' + r.Intn(3))}) }
	pickParent := func() int {
		if len(g.committed) == 0 || r.Chance(1, 10) {
			return 0
		}
		// mostly the most recent committed roots, sometimes an old one (fork)
		if r.Chance(1, 2) && class != "alias" {
			return g.committed[len(g.committed)-1]
		}
		return g.committed[r.Intn(len(g.committed))]
	}
	genUpd := func(now bool) {
		p := pickParent()
		cur := g.content[p]
		op := Op{T: "upd", Parent: p, Height: int64(r.Range(1, nh)), Now: now}
		n := r.Range(1, maxw)
		if len(g.ops) == 0 && nkeys > 6 {
			n = r.Range(nkeys/2, nkeys) // a first tree of height > 2
		}
		if r.Chance(1, 15) || (class == "alias" && len(g.ops) > 1 && r.Chance(2, 5)) {
			n = 0
		}
		rewrite := (class == "rewrite" && r.Chance(1, 2)) || r.Chance(1, 8)
		next := copyMap(cur)
		for j := 0; j < n; j++ {
			k := keys[r.Intn(len(keys))]
			v := val()
			if old, ok := next[k]; ok && (rewrite || r.Chance(1, 6)) {
				v = old // the same value again
			} else if rewrite && len(next) > 0 {
				// rewrite an existing key with its current value
				var ks []string
				for _, kk := range keys {
					if _, ok := next[kk]; ok {
						ks = append(ks, kk)
					}
				}
				k = ks[r.Intn(len(ks))]
				v = next[k]
			}
			next[k] = v
			op.KVs = append(op.KVs, KV{K: hex.EncodeToString([]byte(k)), V: hex.EncodeToString([]byte(v))})
		}
		id := g.add(op)
		g.content[id] = next
		if now {
			g.committed = append(g.committed, id)
		} else {
			g.pending = append(g.pending, id)
		}
	}
	if class == "rewrite" {
		// the shape that poisons memTree under prefix+memTree: a pending update that rewrites
		// values already present (same root, other block height) and is rolled back or left
		// pending, then more work on the same parent
		genUpd(true)
		for r.Chance(1, 3) {
			genUpd(true)
		}
		p := g.committed[r.Intn(len(g.committed))]
		cur := g.content[p]
		var ks []string
		for _, kk := range keys {
			if _, ok := cur[kk]; ok {
				ks = append(ks, kk)
			}
		}
		times := r.Range(1, 2)
		for t := 0; t < times && len(ks) > 0; t++ {
			op := Op{T: "upd", Parent: p, Height: int64(r.Range(1, nh+1))}
			n := r.Range(1, len(ks))
			for j := 0; j < n; j++ {
				k := ks[r.Intn(len(ks))]
				if r.Chance(1, 3) {
					op.KVs = append(op.KVs, KV{K: hex.EncodeToString([]byte(k)), V: hex.EncodeToString([]byte("9"))})
				}
				op.KVs = append(op.KVs, KV{K: hex.EncodeToString([]byte(k)), V: hex.EncodeToString([]byte(cur[k]))})
			}
			id := g.add(op)
			g.content[id] = copyMap(cur)
			if r.Chance(3, 4) {
				g.add(Op{T: "rollback", N: id, Legal: true})
			}
		}
		nops = len(g.ops) + r.Range(1, 3)
		mixed = r.Chance(1, 2)
		// continue on the same parent first
		g.committed = append(g.committed, p)
	}
	for len(g.ops) < nops {
		x := r.Intn(100)
		switch {
		case len(g.ops) == 0:
			genUpd(true)
		case !mixed && x < 80, mixed && x < 40:
			genUpd(true)
		case mixed && x < 62:
			genUpd(false)
		case mixed && x < 72 && len(g.pending) > 0:
			i := r.Intn(len(g.pending))
			n := g.pending[i]
			g.pending = append(g.pending[:i], g.pending[i+1:]...)
			id := g.add(Op{T: "commit", N: n, Legal: true})
			g.content[id] = g.content[n]
			g.committed = append(g.committed, id)
			g.resolved = append(g.resolved, n)
		case mixed && x < 84 && len(g.pending) > 0:
			i := r.Intn(len(g.pending))
			n := g.pending[i]
			g.pending = append(g.pending[:i], g.pending[i+1:]...)
			g.add(Op{T: "rollback", N: n, Legal: true})
			g.resolved = append(g.resolved, n)
		case mixed && x < 88 && len(g.resolved) > 0:
			// an illegal commit / rollback: that hash is not pending any more
			n := g.resolved[r.Intn(len(g.resolved))]
			t := "commit"
			if r.Chance(1, 2) {
				t = "rollback"
			}
			g.add(Op{T: t, N: n, Legal: false})
		default:
			if len(g.committed) > 0 {
				g.add(Op{T: "probe", N: g.committed[r.Intn(len(g.committed))]})
			}
		}
	}
	// read the last committed version at the end
	if len(g.committed) > 0 {
		g.add(Op{T: "probe", N: g.committed[len(g.committed)-1]})
	}
	h := &History{Ops: g.ops, Kind: class}
	return h
}

func allRuns(r *hlib.Rng) []Run {
	var runs []Run
	for bits := 0; bits < 32; bits++ {
		for _, direct := range []bool{true, false} {
			b := bits
			if bits != 0 {
				if b&4 != 0 && r.Chance(1, 2) {
					b |= 32
				}
				if r.Chance(1, 3) {
					b |= 64
				}
			}
			runs = append(runs, Run{Bits: b, Direct: direct})
		}
	}
	return runs
}

// legality of every commit/rollback by root bytes, under both table semantics
// (direct: a Set does not touch the table of pending trees; pending: a
// MemSet+Commit of an equal root replaces and removes an older entry); the
// history is only used if both agree with the generator's intent.
func consistent(h *History, ref []obs) bool {
	if len(ref) != len(h.Ops) {
		return false
	}
	for _, o := range ref {
		if o.code != 0 && o.code != 2 {
			return false
		}
	}
	for mode := 0; mode < 2; mode++ {
		table := map[string]bool{}
		roots := make([][]byte, len(h.Ops)+1)
		for i, op := range h.Ops {
			roots[i+1] = ref[i].root
			switch op.T {
			case "upd":
				key := string(ref[i].root)
				if len(op.KVs) == 0 {
					key = string(roots[op.Parent])
				}
				if !op.Now {
					table[key] = true
				} else if mode == 1 {
					delete(table, key)
				}
			case "commit", "rollback":
				key := string(roots[op.N])
				if op.Legal && ref[i].code != 0 || !op.Legal && ref[i].code != 2 {
					return false
				}
				if table[key] != op.Legal {
					return false
				}
				delete(table, key)
				if !op.Legal {
					roots[i+1] = nil
				}
			}
		}
	}
	return true
}

func main() {
	opts := hlib.ParseFlags()
	clog.SetLogLevel("crit")
	mavl.DisableLog()
	o := hlib.NewOut(opts.OutDir)
	defer o.Close()
	// scratch databases: in memory-backed /dev/shm when it exists (LevelDB open/close is
	// slow on a loaded disk), else below the output directory
	base := opts.OutDir
	if st, err := os.Stat("/dev/shm"); err == nil && st.IsDir() {
		base = "/dev/shm"
	}
	dir := filepath.Join(base, fmt.Sprintf("c02db-%d", os.Getpid()))
	runCase := func(h *History) {
		all := make([][]obs, len(h.Runs))
		for i, run := range h.Runs {
			t0 := time.Now()
			all[i] = runHistory(dir, h, run)
			if os.Getenv("C02DBG") != "" {
				fmt.Fprintf(os.Stderr, "run bits=%d direct=%v ops=%d %v\n", run.Bits, run.Direct, len(h.Ops), time.Since(t0))
			}
		}
		emitCase(o, h, all)
	}
	if opts.Replay != "" {
		var h History
		if err := hlib.ReplayInput(opts.Replay, &h); err != nil {
			panic(err)
		}
		h.Kind = "replay"
		runCase(&h)
		return
	}
	r := hlib.NewRng(opts.Seed)
	plan := []struct {
		class string
		n     int
	}{{"guarded-small", 14}, {"rewrite", 16}, {"mixed-small", 18}, {"guarded-large", 10}, {"alias", 16}, {"mixed-large", 16}}
	if opts.Thorough() {
		for i := range plan {
			plan[i].n *= 10
		}
	}
	serial := 0
	for _, p := range plan {
		for i := 0; i < p.n; i++ {
			var h *History
			for tries := 0; tries < 200; tries++ {
				c := genHistory(r, p.class)
				c.Runs = allRuns(r)
				ref0 := runHistory(dir, c, c.Runs[0])
				if os.Getenv("C02DBG") != "" {
					fmt.Fprintln(os.Stderr, "try", p.class, tries, len(c.Ops), len(ref0), consistent(c, ref0))
				}
				if consistent(c, ref0) {
					h = c
					break
				}
			}
			if h == nil {
				continue
			}
			serial++
			h.LevelDB = serial%7 == 0
			runCase(h)
		}
	}
}
