// hC30: drives the real BaseClient.AddTxsToBlock / CheckTxExpire of a solo
// consensus client (no node: queue + config only) on generated pool outputs.
package main

import (
	"crypto/sha256"
	"encoding/binary"
	"fmt"
	"strings"

	log "github.com/33cn/chain33/common/log/log15"
	"github.com/33cn/chain33/queue"
	"github.com/33cn/chain33/system/consensus/solo"
	"github.com/33cn/chain33/types"
	"verifharness/hlib"
)

// ---------- case descriptions (pure data, enough to replay) ----------

type txSpec struct {
	ID      uint64   `json:"id"`
	Pay     int      `json:"pay"`            // payload length
	To      int      `json:"to,omitempty"`   // 0 normal, 1/2 blocked address
	From    int      `json:"from,omitempty"` // 0 unsigned, 1 normal signer, 2 blocked signer
	Exp     int64    `json:"exp,omitempty"`
	GC      int32    `json:"gc,omitempty"`
	Next    bool     `json:"next,omitempty"`
	Hdr     int      `json:"hdr,omitempty"` // 0 nil, 1 32-byte hash, 2 empty non-nil, 3 Encode(members), 4 junk, 5 truncated Encode(members), 6 32-byte hash that decodes as protobuf
	Members []txSpec `json:"members,omitempty"`
}

type cfgSpec struct {
	Base, V1, V2     int64
	H1, H2, HBl, HTx int64 // fork heights: ForkChainParamV1, ForkChainParamV2, ForkAccountBlacklist, ForkTxHeight (-1 = never)
	TxHeight         bool
	Low, High        int64
}

type caseSpec struct {
	Op     string     `json:"op"` // add | rep | exp
	Cfg    cfgSpec    `json:"cfg"`
	Height int64      `json:"height"`
	BT     int64      `json:"bt,omitempty"`
	Init   []txSpec   `json:"init,omitempty"`
	Pool   []txSpec   `json:"pool,omitempty"`
	Rep    int        `json:"rep,omitempty"`
	Segs   [][]txSpec `json:"segs,omitempty"`
	Kind   string     `json:"kind"`
}

// ---------- building real objects ----------

const (
	addrNormal   = "1BQXS6TxaYYG5mADaWij4AxhZZUTpw95a5"
	addrBlockedA = "14KEKbYtKKQm4wMthSK9J4La4nAiidGozt"
	addrBlockedB = "1Ji3W12KGScCM7C2p8bg635sNkayDM8MGY"
)

var (
	bigbuf      = make([]byte, 20100000)
	pubNormal   = make([]byte, 33)
	pubBlocked  = make([]byte, 33)
	addrBlkFrom string
	blockedSet  = map[string]bool{}
)

func initAddrs() {
	pubNormal[0], pubBlocked[0] = 2, 3
	for i := 1; i < 33; i++ {
		pubNormal[i] = byte(i)
		pubBlocked[i] = byte(7 * i)
	}
	t := &types.Transaction{Signature: &types.Signature{Ty: 1, Pubkey: pubBlocked}}
	addrBlkFrom = t.From()
	types.SetBlockedAccountsForTest([]string{addrBlockedA, addrBlockedB, addrBlkFrom})
	blockedSet[addrBlockedA], blockedSet[addrBlockedB], blockedSet[addrBlkFrom] = true, true, true
}

func goodHash(seed uint64) []byte {
	for i := uint64(0); ; i++ {
		var b [16]byte
		binary.LittleEndian.PutUint64(b[:8], seed)
		binary.LittleEndian.PutUint64(b[8:], i)
		h := sha256.Sum256(b[:])
		var txs types.Transactions
		if types.Decode(h[:], &txs) == nil {
			return h[:]
		}
	}
}

func build(s *txSpec) *types.Transaction {
	tx := &types.Transaction{Execer: []byte("none"), Nonce: int64(s.ID), Expire: s.Exp, GroupCount: s.GC}
	if s.Pay > 0 {
		tx.Payload = bigbuf[:s.Pay]
	}
	switch s.To {
	case 0:
		tx.To = addrNormal
	case 1:
		tx.To = addrBlockedA
	case 2:
		tx.To = addrBlockedB
	}
	switch s.From {
	case 1:
		tx.Signature = &types.Signature{Ty: 1, Pubkey: pubNormal, Signature: []byte{1, 2, 3}}
	case 2:
		tx.Signature = &types.Signature{Ty: 1, Pubkey: pubBlocked, Signature: []byte{1, 2, 3}}
	}
	if s.Next {
		h := sha256.Sum256([]byte(fmt.Sprint("next", s.ID)))
		tx.Next = h[:]
	}
	switch s.Hdr {
	case 1:
		h := sha256.Sum256([]byte(fmt.Sprint("hdr", s.ID)))
		tx.Header = h[:]
		if types.Decode(tx.Header, &types.Transactions{}) == nil { // keep kind 1 undecodable
			tx.Header[0], tx.Header[1] = 0x0f, 0xff
		}
	case 2:
		tx.Header = []byte{}
	case 3, 5:
		g := &types.Transactions{}
		for i := range s.Members {
			g.Txs = append(g.Txs, build(&s.Members[i]))
		}
		tx.Header = types.Encode(g)
		if tx.Header == nil {
			tx.Header = []byte{}
		}
		if s.Hdr == 5 && len(tx.Header) > 3 {
			tx.Header = tx.Header[:len(tx.Header)-3]
		}
	case 4:
		tx.Header = []byte{0x0a, 0x05, 0x01}
	case 6:
		tx.Header = goodHash(s.ID)
	}
	return tx
}

func buildAll(ss []txSpec) []*types.Transaction {
	out := make([]*types.Transaction, len(ss))
	for i := range ss {
		out[i] = build(&ss[i])
	}
	return out
}

// fit adjusts the payload so that Size() == target (when reachable).
func fit(s *txSpec, target int) bool {
	for k := 0; k < 8; k++ {
		d := target - build(s).Size()
		if d == 0 {
			return true
		}
		if s.Pay+d < 0 {
			return false
		}
		s.Pay += d
	}
	return build(s).Size() == target
}

// ---------- configs ----------

var cfgCache = map[cfgSpec]*types.Chain33Config{}
var baseToml string

func fh(h int64) int64 { // fork height as the config resolves it
	if h == -1 {
		return types.MaxHeight
	}
	return h
}

func getCfg(c cfgSpec) *types.Chain33Config {
	key := c
	key.Low, key.High = 0, 0
	if v, ok := cfgCache[key]; ok {
		return v
	}
	s := baseToml
	rep := func(old, new string) {
		if !strings.Contains(s, old) {
			panic("config template changed: " + old)
		}
		s = strings.Replace(s, old, new, 1)
	}
	rep("maxTxNumber = 1600      #160", fmt.Sprintf("maxTxNumber = %d", c.Base))
	rep("[mver.consensus.ForkChainParamV1]\nmaxTxNumber = 10000", fmt.Sprintf("[mver.consensus.ForkChainParamV1]\nmaxTxNumber = %d", c.V1))
	rep("[mver.consensus.ForkChainParamV2]\n", fmt.Sprintf("[mver.consensus.ForkChainParamV2]\nmaxTxNumber = %d\n", c.V2))
	if !c.TxHeight {
		rep("TxHeight=true", "TxHeight=false")
	}
	s = "disableForkCheck=true\n" + s + fmt.Sprintf("\n[fork.system]\nForkChainParamV1=%d\nForkChainParamV2=%d\nForkAccountBlacklist=%d\nForkTxHeight=%d\n", c.H1, c.H2, c.HBl, c.HTx)
	cfg := types.NewChain33Config(s)
	types.SetBlockedAccountsForTest([]string{addrBlockedA, addrBlockedB, addrBlkFrom}) // NewChain33Config may reset the set
	cfgCache[key] = cfg
	return cfg
}

var clients = map[*types.Chain33Config]*solo.Client{}

func getClient(cfg *types.Chain33Config) *solo.Client {
	if c, ok := clients[cfg]; ok {
		return c
	}
	q := queue.New("channel")
	q.SetConfig(cfg)
	sc := solo.New(&types.Consensus{Name: "solo"}, nil).(*solo.Client)
	sc.InitClient(q.Client(), func() {})
	clients[cfg] = sc
	return sc
}

// ---------- Coq rendering ----------

func gtBlocked(tx *types.Transaction) bool {
	if blockedSet[tx.To] {
		return true
	}
	if tx.Signature != nil && blockedSet[tx.From()] {
		return true
	}
	return false
}

func coqItx(tx *types.Transaction) string {
	return hlib.App("mk_itx", hlib.N(uint64(tx.Nonce)), hlib.Z(int64(tx.Size())), hlib.Z(int64(tx.GroupCount)),
		hlib.Bool(gtBlocked(tx)), hlib.Z(tx.Expire))
}

func coqTx(tx *types.Transaction) string {
	hdr := "HNil"
	if tx.Header != nil {
		var g types.Transactions
		if err := types.Decode(tx.Header, &g); err != nil {
			hdr = "HBad"
		} else {
			it := make([]string, len(g.Txs))
			for i, m := range g.Txs {
				it[i] = coqItx(m)
			}
			hdr = hlib.App("HTxs", hlib.List(it))
		}
	}
	return hlib.App("mk_tx", coqItx(tx), hlib.Bool(tx.Next != nil), hdr)
}

func coqTxs(txs []*types.Transaction) string {
	it := make([]string, len(txs))
	for i, t := range txs {
		it[i] = coqTx(t)
	}
	return hlib.List(it)
}

func coqEnv(c cfgSpec) string {
	vers := hlib.List([]string{hlib.Pair(hlib.Z(fh(c.H1)), hlib.Z(c.V1)), hlib.Pair(hlib.Z(fh(c.H2)), hlib.Z(c.V2))})
	return hlib.App("mk_env", hlib.Z(c.Base), vers, hlib.Z(fh(c.HBl)), "false", hlib.Bool(c.TxHeight), hlib.Z(fh(c.HTx)), hlib.Z(c.Low), hlib.Z(c.High))
}

func ids(txs []*types.Transaction) ([]string, []int64) {
	a := make([]string, len(txs))
	b := make([]int64, len(txs))
	for i, t := range txs {
		if t == nil {
			a[i], b[i] = hlib.N(999999999), -1
			continue
		}
		a[i], b[i] = hlib.N(uint64(t.Nonce)), t.Nonce
	}
	return a, b
}

// ---------- running ----------

func runAdd(o *hlib.Out, cs *caseSpec) {
	cfg := getCfg(cs.Cfg)
	sc := getClient(cfg)
	init := buildAll(cs.Init)
	blk := &types.Block{Height: cs.Height, Txs: init}
	isz := blk.Size()
	initIDs, _ := ids(init)
	maxtx := cfg.GetP(cs.Height).MaxTxNumber
	fork := cfg.IsFork(cs.Height, types.ForkAccountBlacklist)
	if cs.Op == "rep" {
		proto := build(&cs.Pool[0])
		pool := make([]*types.Transaction, cs.Rep)
		for i := range pool {
			pool[i] = proto
		}
		ret := sc.AddTxsToBlock(blk, pool)
		if len(ret) != len(blk.Txs) {
			panic("rep: returned slice differs from block")
		}
		term := hlib.App("CAddRep", coqEnv(cs.Cfg), hlib.Z(cs.Height), hlib.Z(int64(isz)), coqTx(proto),
			fmt.Sprintf("%d%%positive", cs.Rep), hlib.Z(maxtx), hlib.Z(int64(len(ret))), hlib.Z(int64(blk.Size())))
		o.Emit(cs.Kind, len(ret) > 0, term, cs, map[string]interface{}{"taken": len(ret), "size": blk.Size(), "maxtx": maxtx})
		return
	}
	pool := buildAll(cs.Pool)
	poolTerm := coqTxs(pool) // before the call
	var ret []*types.Transaction
	panicked := false
	func() {
		defer func() {
			if r := recover(); r != nil {
				panicked = true
			}
		}()
		ret = sc.AddTxsToBlock(blk, pool)
	}()
	if panicked {
		term := hlib.App("CAddPanic", coqEnv(cs.Cfg), hlib.Z(cs.Height), hlib.Z(int64(len(init))), hlib.Z(int64(isz)), poolTerm)
		o.Emit(cs.Kind, false, term, cs, map[string]interface{}{"panic": true})
		return
	}
	blkIDs, blkN := ids(blk.Txs)
	retIDs, retN := ids(ret)
	term := hlib.App("CAdd", coqEnv(cs.Cfg), hlib.Z(cs.Height), hlib.Z(int64(len(init))), hlib.Z(int64(isz)),
		hlib.List(initIDs), poolTerm, hlib.Z(maxtx), hlib.Bool(fork), hlib.List(blkIDs), hlib.List(retIDs), hlib.Z(int64(blk.Size())))
	o.Emit(cs.Kind, len(ret) > 0, term, cs, map[string]interface{}{"block": blkN, "ret": retN, "size": blk.Size(), "maxtx": maxtx, "fork": fork, "init_size": isz})
}

func runExp(o *hlib.Out, cs *caseSpec) {
	cfg := getCfg(cs.Cfg)
	sc := getClient(cfg)
	types.LowAllowPackHeight, types.HighAllowPackHeight = cs.Cfg.Low, cs.Cfg.High
	var flat []*types.Transaction
	segTerms := make([]string, len(cs.Segs))
	for i := range cs.Segs {
		txs := buildAll(cs.Segs[i])
		segTerms[i] = coqTxs(txs)
		flat = append(flat, txs...)
	}
	n := len(flat)
	var out []*types.Transaction
	panicked := false
	func() {
		defer func() {
			if r := recover(); r != nil {
				panicked = true
			}
		}()
		out = sc.CheckTxExpire(flat, cs.Height, cs.BT)
	}()
	types.LowAllowPackHeight, types.HighAllowPackHeight = 200, 600
	outIDs, outN := ids(out)
	term := hlib.App("CExp", coqEnv(cs.Cfg), hlib.Z(cs.Height), hlib.Z(cs.BT), hlib.List(segTerms),
		hlib.Opt(!panicked, hlib.List(outIDs)))
	o.Emit(cs.Kind, !panicked && len(out) < n, term, cs, map[string]interface{}{"out": outN, "panic": panicked})
}

func run(o *hlib.Out, cs *caseSpec) {
	if cs.Op == "exp" {
		runExp(o, cs)
	} else {
		runAdd(o, cs)
	}
}

func main() {
	opts := hlib.ParseFlags()
	log.Root().SetHandler(log.DiscardHandler())
	baseToml = types.ReadFile("/repo/cmd/chain33/chain33.test.toml")
	initAddrs()
	o := hlib.NewOut(opts.OutDir)
	defer o.Close()
	if opts.Replay != "" {
		var cs caseSpec
		if err := hlib.ReplayInput(opts.Replay, &cs); err != nil {
			panic(err)
		}
		cs.Kind = "replay"
		run(o, &cs)
		return
	}
	generate(o, hlib.NewRng(opts.Seed), opts.Thorough())
}
