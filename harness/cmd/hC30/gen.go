package main

import (
	"github.com/33cn/chain33/types"
	"verifharness/hlib"
)

const bound = types.MaxBlockSize - 100000

var nextID uint64 = 1

func newID() uint64 { nextID++; return nextID }

// unit: what the generator thinks of as one pool entry (single or group)
type unit struct {
	members []txSpec
	group   bool
	mal     int // malformed variant, 0 = none
}

func genSingle(r *hlib.Rng, blockedOK bool, maxPay int) txSpec {
	s := txSpec{ID: newID(), Pay: r.Intn(maxPay + 1)}
	if r.Chance(1, 3) {
		s.From = 1
	}
	if blockedOK && r.Chance(1, 7) {
		switch r.Intn(3) {
		case 0:
			s.To = 1
		case 1:
			s.To = 2
		default:
			s.From = 2
		}
	}
	return s
}

func genUnit(r *hlib.Rng, blockedOK, malOK bool, maxPay int) unit {
	if malOK && r.Chance(1, 6) {
		u := unit{mal: 1 + r.Intn(12)}
		k := 2 + r.Intn(2)
		for i := 0; i < k; i++ {
			m := genSingle(r, false, maxPay)
			m.GC, m.Hdr, m.Next = int32(k), 1, i < k-1
			u.members = append(u.members, m)
		}
		return u
	}
	if r.Chance(3, 5) {
		return unit{members: []txSpec{genSingle(r, blockedOK, maxPay)}}
	}
	k := 2 + r.Intn(3)
	u := unit{group: true}
	blk := blockedOK && r.Chance(1, 3)
	for i := 0; i < k; i++ {
		m := genSingle(r, blk && r.Chance(1, 2), maxPay)
		m.GC, m.Hdr, m.Next = int32(k), 1, i < k-1
		u.members = append(u.members, m)
	}
	return u
}

// entry renders a unit as the pool entry the mempool would hand out.
func (u unit) entry() txSpec {
	if !u.group && u.mal == 0 {
		return u.members[0]
	}
	h := u.members[0]
	h.Hdr = 3
	h.Members = append([]txSpec(nil), u.members...)
	switch u.mal {
	case 1: // GroupCount 1
		h.GC = 1
	case 2: // GroupCount 21
		h.GC = 21
	case 3: // negative GroupCount
		h.GC = -1
	case 4: // plain transaction with a header
		h.GC, h.Hdr, h.Members = 0, 1, nil
	case 5: // plain transaction with Next
		h.GC, h.Hdr, h.Members, h.Next = 0, 0, nil, true
	case 6: // group head without header: decodes to an empty group
		h.Hdr, h.Members = 0, nil
	case 7: // empty non-nil header
		h.Hdr, h.Members = 2, nil
	case 8: // junk header
		h.Hdr, h.Members = 4, nil
	case 9: // truncated encoding
		h.Hdr = 5
	case 10: // GroupCount disagrees with the encoded group
		h.GC = int32(len(u.members) + 1 + int(h.ID%3))
	case 11: // GroupCount 20, few members
		h.GC = 20
	case 12: // plain transaction, empty non-nil header
		h.GC, h.Hdr, h.Members, h.Next = 0, 2, nil, false
	}
	return h
}

func entries(us []unit) []txSpec {
	out := make([]txSpec, len(us))
	for i, u := range us {
		out[i] = u.entry()
	}
	return out
}

func (u unit) size() int {
	if u.mal != 0 {
		return 0
	}
	t := 0
	for i := range u.members {
		t += build(&u.members[i]).Size()
	}
	return t
}

func (u unit) clean() bool {
	if u.mal != 0 {
		return false
	}
	for _, m := range u.members {
		if m.To != 0 || m.From == 2 {
			return false
		}
	}
	return true
}

var addCfgs = []cfgSpec{
	{Base: 3, V1: 5, V2: 7, H1: 10, H2: 20, HBl: 15, HTx: 12, TxHeight: true, Low: 200, High: 600},
	{Base: 4, V1: 2, V2: 6, H1: 10, H2: 10, HBl: 0, HTx: 0, TxHeight: true, Low: 200, High: 600},
	{Base: 6, V1: 0, V2: 3, H1: 8, H2: -1, HBl: -1, HTx: -1, TxHeight: true, Low: 200, High: 600},
	{Base: 20, V1: 8, V2: 12, H1: 30, H2: 25, HBl: 27, HTx: 28, TxHeight: true, Low: 200, High: 600},
	{Base: -2, V1: 1, V2: 9, H1: 3, H2: 6, HBl: 4, HTx: 0, TxHeight: false, Low: 200, High: 600},
}

var bigCfg = cfgSpec{Base: 10000, V1: 1600, V2: 9, H1: 50, H2: 60, HBl: 5, HTx: 0, TxHeight: true, Low: 200, High: 600}

func heightsFor(c cfgSpec, r *hlib.Rng) int64 {
	cands := []int64{-1, 0, 1}
	for _, f := range []int64{c.H1, c.H2, c.HBl} {
		if f >= 0 {
			cands = append(cands, f-1, f, f+1)
		}
	}
	if r.Chance(1, 5) {
		return int64(r.Intn(45))
	}
	h := hlib.Pick(r, cands)
	if h < -1 {
		h = 0
	}
	return h
}

func genCount(o *hlib.Out, r *hlib.Rng, n int) {
	for i := 0; i < n; i++ {
		c := addCfgs[i%len(addCfgs)]
		cs := &caseSpec{Op: "add", Cfg: c, Kind: "add-count", Height: heightsFor(c, r)}
		nu := r.Intn(11)
		if i < 20 {
			nu = i % 4
		}
		var us []unit
		for j := 0; j < nu; j++ {
			us = append(us, genUnit(r, true, true, 120))
		}
		cs.Pool = entries(us)
		if r.Chance(1, 4) {
			k := r.Intn(9)
			for j := 0; j < k; j++ {
				cs.Init = append(cs.Init, genSingle(r, false, 50))
			}
			cs.Kind = "add-count-init"
		}
		run(o, cs)
	}
}

// fitBlock adjusts the filler (last initial transaction) so that the initial block has the given size.
func fitBlock(cs *caseSpec, target int) bool {
	f := &cs.Init[len(cs.Init)-1]
	for k := 0; k < 8; k++ {
		blk := &types.Block{Height: cs.Height, Txs: buildAll(cs.Init)}
		d := target - blk.Size()
		if d == 0 {
			return true
		}
		if f.Pay+d < 0 {
			return false
		}
		f.Pay += d
	}
	return false
}

// genSize: the block (through a big initial transaction, or through a big first pool entry)
// is brought to within a few hundred bytes of the bound, then one unit is tuned so that the
// running size lands at bound+delta.
func genSize(o *hlib.Out, r *hlib.Rng, n int) {
	for i := 0; i < n; i++ {
		c := bigCfg
		if r.Chance(1, 5) {
			c = addCfgs[r.Intn(4)]
		}
		cs := &caseSpec{Op: "add", Cfg: c, Kind: "add-size", Height: heightsFor(c, r)}
		room := r.Intn(2500)
		over := r.Chance(1, 12)
		var us []unit
		viaPool := r.Chance(1, 9) && !over
		if viaPool {
			cs.Kind = "add-size-bigpool"
			empty := (&types.Block{Height: cs.Height}).Size()
			big := txSpec{ID: newID(), Pay: 1000}
			if !fit(&big, bound-empty-room) {
				continue
			}
			us = append(us, unit{members: []txSpec{big}})
		} else {
			cs.Init = []txSpec{{ID: newID(), Pay: bound - 3000}}
			target := bound - room
			if over {
				target = bound + 1 + r.Intn(5)
				cs.Kind = "add-size-initover"
			}
			if !fitBlock(cs, target) {
				continue
			}
		}
		nu := 2 + r.Intn(8)
		first := len(us)
		for j := 0; j < nu; j++ {
			us = append(us, genUnit(r, true, j > 0, 420))
		}
		// tune one unit: cumulative size of the clean prefix = room + delta
		j := first + r.Intn(nu)
		cum, okp := 0, true
		for k := first; k < j; k++ {
			if !us[k].clean() {
				okp = false
			}
			cum += us[k].size()
		}
		if okp && us[j].mal == 0 && !over {
			delta := r.Intn(5) - 2
			want := room + delta - cum // size the unit should have
			cur := us[j].size()
			m := &us[j].members[len(us[j].members)-1]
			msz := build(m).Size()
			if want > 0 && msz+(want-cur) > 0 && fit(m, msz+(want-cur)) {
				cs.Kind += "-tuned"
			}
		}
		cs.Pool = entries(us)
		run(o, cs)
	}
}

// genBigGroups: groups of multi-megabyte members around the bound.
func genBigGroups(o *hlib.Out, r *hlib.Rng, n int) {
	for i := 0; i < n; i++ {
		cs := &caseSpec{Op: "add", Cfg: bigCfg, Kind: "add-size-biggroup", Height: int64(r.Intn(70))}
		empty := (&types.Block{Height: cs.Height}).Size()
		k := 2 + r.Intn(2)
		u := unit{group: true}
		per := (bound - empty) / k
		for j := 0; j < k; j++ {
			m := txSpec{ID: newID(), Pay: per - 200, GC: int32(k), Hdr: 1, Next: j < k-1}
			u.members = append(u.members, m)
		}
		total := 0
		for j := range u.members {
			total += build(&u.members[j]).Size()
		}
		delta := r.Intn(5) - 2
		m := &u.members[k-1]
		if !fit(m, build(m).Size()+(bound-empty+delta-total)) {
			continue
		}
		us := []unit{u, {members: []txSpec{genSingle(r, false, 10)}}}
		if r.Chance(1, 2) {
			us = []unit{{members: []txSpec{genSingle(r, false, 10)}}, u}
		}
		cs.Pool = entries(us)
		run(o, cs)
	}
}

func genRep(o *hlib.Out) {
	type rc struct {
		maxtx int64
		n     int
		size  int
		h     int64
	}
	for _, c := range []rc{
		{20000, 25000, 995, 3}, // 20000*995 = bound exactly; framing 60000 <= margin
		{20000, 20001, 100, 3}, // count stops it
		{20000, 21000, 996, 3}, // size stops it just before the count
		{40000, 40000, 497, 3}, // framing 3*40000 > margin: encoded block > MaxBlockSize (finding 3)
		{34000, 34000, 585, 3}, // guard violated, still inside MaxBlockSize
	} {
		cfg := cfgSpec{Base: c.maxtx, V1: c.maxtx, V2: c.maxtx, H1: 0, H2: 0, HBl: -1, HTx: 0, TxHeight: true, Low: 200, High: 600}
		p := txSpec{ID: newID(), Pay: 100}
		if !fit(&p, c.size) {
			panic("rep fit")
		}
		kind := "rep-guarded"
		if 5*c.maxtx > 100000 {
			kind = "rep-unguarded"
		}
		run(o, &caseSpec{Op: "rep", Cfg: cfg, Height: c.h, Pool: []txSpec{p}, Rep: c.n, Kind: kind})
	}
}

// ---------- CheckTxExpire ----------

var expCfgs = []cfgSpec{
	{Base: 100, V1: 100, V2: 100, H1: 0, H2: 0, HBl: -1, HTx: 0, TxHeight: true, Low: 200, High: 600},
	{Base: 100, V1: 100, V2: 100, H1: 0, H2: 0, HBl: -1, HTx: 1000, TxHeight: true, Low: 2, High: 3},
	{Base: 100, V1: 100, V2: 100, H1: 0, H2: 0, HBl: -1, HTx: -1, TxHeight: true, Low: 200, High: 600},
	{Base: 100, V1: 100, V2: 100, H1: 0, H2: 0, HBl: -1, HTx: 0, TxHeight: false, Low: 2, High: 3},
}

const flag = int64(1) << 62

func genExpire(r *hlib.Rng, c cfgSpec, h, bt int64) int64 {
	if r.Chance(2, 5) {
		return 0
	}
	p := []int64{1, h - 1, h, h + 1, h + 50, 1000000000, 1000000001, bt - 1, bt, bt + 1, bt + 1000,
		flag, flag + 1, flag + h + c.Low - 1, flag + h + c.Low, flag + h + c.Low + 1,
		flag + h - c.High - 1, flag + h - c.High, flag + h - c.High + 1, flag + h, 9223372036854775807}
	v := hlib.Pick(r, p)
	if v < 0 {
		v = 0
	}
	return v
}

func genSegs(r *hlib.Rng, c cfgSpec, h, bt int64, n int, expProb int) [][]txSpec {
	var segs [][]txSpec
	for i := 0; i < n; i++ {
		k := 1
		gc := int32(0)
		if r.Chance(2, 5) {
			k = 1 + r.Intn(4)
			gc = int32(k)
		}
		var s []txSpec
		for j := 0; j < k; j++ {
			m := txSpec{ID: newID(), Pay: r.Intn(20), GC: gc}
			if gc > 0 {
				m.Hdr, m.Next = 1, j < k-1
			}
			if r.Chance(expProb, 10) {
				m.Exp = genExpire(r, c, h, bt)
			}
			s = append(s, m)
		}
		segs = append(segs, s)
	}
	return segs
}

func genExp(o *hlib.Out, r *hlib.Rng, n int) {
	hs := []int64{0, 1, 999, 1000, 1001, 5000, -1}
	bts := []int64{0, 1, 1600000000, 1600000000, 1600000000}
	for i := 0; i < n; i++ {
		c := expCfgs[i%len(expCfgs)]
		h, bt := hlib.Pick(r, hs), hlib.Pick(r, bts)
		if i%3 != 0 {
			h, bt = hs[3+r.Intn(3)-1], 1600000000
		}
		cs := &caseSpec{Op: "exp", Cfg: c, Height: h, BT: bt, Kind: "exp-wf"}
		ns := 1 + r.Intn(7)
		if i < 8 {
			ns = i % 3
		}
		cs.Segs = genSegs(r, c, h, bt, ns, 5)
		switch {
		case i%11 == 5: // trailing group that runs past the end
			k := 2 + r.Intn(3)
			have := 1 + r.Intn(k-1)
			var s []txSpec
			for j := 0; j < have; j++ {
				m := txSpec{ID: newID(), Pay: 3, GC: int32(k), Hdr: 1, Next: true}
				if r.Chance(1, 2) {
					m.Exp = genExpire(r, c, h, bt)
				}
				s = append(s, m)
			}
			cs.Segs = append(cs.Segs, s)
			cs.Kind = "exp-trailing-truncated"
		case i%23 == 7: // negative GroupCount
			m := txSpec{ID: newID(), Pay: 3, GC: int32(-1 - r.Intn(3))}
			pos := r.Intn(len(cs.Segs) + 1)
			cs.Segs = append(cs.Segs[:pos], append([][]txSpec{{m}}, cs.Segs[pos:]...)...)
			cs.Kind = "exp-negative-gc"
		case i%13 == 9: // group whose 32-byte header happens to parse as protobuf
			k := 2 + r.Intn(2)
			var s []txSpec
			hid := newID()
			for j := 0; j < k; j++ {
				m := txSpec{ID: newID(), Pay: 3, GC: int32(k), Hdr: 6, Next: j < k-1}
				if r.Chance(1, 2) {
					m.Exp = genExpire(r, c, h, bt)
				}
				s = append(s, m)
			}
			_ = hid
			pos := r.Intn(len(cs.Segs) + 1)
			cs.Segs = append(cs.Segs[:pos], append([][]txSpec{s}, cs.Segs[pos:]...)...)
			cs.Kind = "exp-parsable-header"
		}
		run(o, cs)
	}
}

func generate(o *hlib.Out, r *hlib.Rng, thorough bool) {
	mul := 1
	if thorough {
		mul = 12
	}
	genCount(o, r.Fork(), 700*mul)
	genSize(o, r.Fork(), 300*mul)
	genBigGroups(o, r.Fork(), 3*mul)
	genRep(o)
	genExp(o, r.Fork(), 700*mul)
}
