// hC01: drives chain33's mavl state store (system/store/mavl + mavl/db) through
// generated histories of committed write batches and records every observable:
// point reads / range iterations / Size / Height / node structure at every
// root, root-hash coincidences, database binding counts, before and after
// closing and reopening the LevelDB.
package main

import (
	"bytes"
	"encoding/hex"
	"fmt"
	"os"
	"path/filepath"

	clog "github.com/33cn/chain33/common/log"
	"github.com/33cn/chain33/system/store/mavl"
	mavldb "github.com/33cn/chain33/system/store/mavl/db"
	"github.com/33cn/chain33/types"
	"verifharness/hlib"
)

// ---------- history description (also the replay format) ----------

type hexb string // hex; "-" = nil

func hb(b []byte) hexb {
	if b == nil {
		return "-"
	}
	return hexb(hex.EncodeToString(b))
}

func (h hexb) bytes() []byte {
	if h == "-" {
		return nil
	}
	b, err := hex.DecodeString(string(h))
	if err != nil {
		panic(err)
	}
	if b == nil {
		b = []byte{}
	}
	return b
}

type Write struct {
	K hexb `json:"k"`
	V hexb `json:"v"`
}

type Batch struct {
	Mode   int     `json:"mode"` // 0 store.Set, 1 tree API, 2 MemSet+Commit, 3 DelKVPair (Dels)
	Sync   bool    `json:"sync"`
	Writes []Write `json:"writes"`
	Dels   []hexb  `json:"dels,omitempty"`
}

type Query struct {
	Lim   int  `json:"lim"` // -1 = never stop
	Start hexb `json:"start"`
	End   hexb `json:"end"`
	Asc   bool `json:"asc"`
	Incl  bool `json:"incl"`
}

type History struct {
	Prefix   bool    `json:"prefix"`
	ZeroRoot bool    `json:"zeroRoot"` // first batch applied at 32 zero bytes instead of nil
	Deep     bool    `json:"deep"`
	Keys     []hexb  `json:"keys"`
	Queries  []Query `json:"queries"`
	Gbis     []int32 `json:"gbis"`
	Batches  []Batch `json:"batches"`
	Kind     string  `json:"kind"`
}

// ---------- implementation side ----------

type env struct {
	dir    string
	prefix bool
	st     *mavl.Store
	cfg    *mavldb.TreeConfig
}

func (e *env) open() {
	sub := []byte(`{"enableMavlPrefix":false}`)
	if e.prefix {
		sub = []byte(`{"enableMavlPrefix":true}`)
	}
	cfg := &types.Store{Name: "mavl", Driver: "leveldb", DbPath: e.dir, DbCache: 16}
	e.st = mavl.New(cfg, sub, nil).(*mavl.Store)
	e.cfg = &mavldb.TreeConfig{EnableMavlPrefix: e.prefix}
}

func (e *env) close() { e.st.Close() }

func (e *env) dbCount() int {
	it := e.st.GetDB().Iterator(nil, nil, false)
	defer it.Close()
	n := 0
	for it.Rewind(); it.Valid(); it.Next() {
		n++
	}
	return n
}

type read struct {
	idx   int32
	val   []byte
	ok    bool
	has   bool
	store []byte
}

type gbiRes struct {
	panicked bool
	k, v     []byte
}

type rangeRes struct {
	kvs     [][2][]byte
	stopped bool
}

type probe struct {
	err    bool
	size   int32
	height int32
	shape  []mavldb.VerifNode
	reads  []read
	gbi    []gbiRes
	ranges []rangeRes
	panic  string
}

func (e *env) probe(root []byte, h *History) (p probe) {
	defer func() {
		if r := recover(); r != nil {
			p.err = true
			p.panic = fmt.Sprint(r)
		}
	}()
	db := e.st.GetDB()
	tree := mavldb.NewTree(db, true, e.cfg)
	if err := tree.Load(root); err != nil {
		p.err = true
		return
	}
	p.size, p.height = tree.Size(), tree.Height()
	p.shape = tree.VerifDump()
	keys := make([][]byte, len(h.Keys))
	for i, k := range h.Keys {
		keys[i] = k.bytes()
	}
	svals := e.st.Get(&types.StoreGet{StateHash: root, Keys: keys})
	for i, k := range keys {
		idx, v, ok := tree.Get(k)
		p.reads = append(p.reads, read{idx: idx, val: v, ok: ok, has: tree.Has(k), store: svals[i]})
	}
	if p.size > 0 {
		for _, ix := range h.Gbis {
			p.gbi = append(p.gbi, gbi(tree, ix))
		}
	}
	for qi, q := range h.Queries {
		var rr rangeRes
		fn := func(k, v []byte) bool {
			rr.kvs = append(rr.kvs, [2][]byte{append([]byte{}, k...), append([]byte{}, v...)})
			return q.Lim >= 0 && len(rr.kvs) >= q.Lim
		}
		start, end := q.Start.bytes(), q.End.bytes()
		if q.Incl {
			rr.stopped = tree.IterateRangeInclusive(start, end, q.Asc, fn)
		} else if qi%2 == 0 {
			rr.stopped = tree.IterateRange(start, end, q.Asc, fn)
		} else {
			// the store wrapper (no stop flag returned: derive it from the callback)
			stopped := false
			e.st.IterateRangeByStateHash(root, start, end, q.Asc, func(k, v []byte) bool {
				s := fn(k, v)
				if s {
					stopped = true
				}
				return s
			})
			rr.stopped = stopped
		}
		p.ranges = append(p.ranges, rr)
	}
	return
}

func gbi(tree *mavldb.Tree, ix int32) (g gbiRes) {
	defer func() {
		if r := recover(); r != nil {
			g = gbiRes{panicked: true}
		}
	}()
	k, v := tree.GetByIndex(ix)
	return gbiRes{k: k, v: v}
}

// ---------- Coq rendering ----------

// tab interns byte strings: the case carries each string once, the rest refers to it by index.
type tab struct {
	idx  map[string]int
	list [][]byte
}

func newTab() *tab { return &tab{idx: map[string]int{}} }

func (t *tab) ix(b []byte) string {
	i, ok := t.idx[string(b)]
	if !ok {
		i = len(t.list)
		t.idx[string(b)] = i
		t.list = append(t.list, append([]byte{}, b...))
	}
	return fmt.Sprint(i)
}

func (t *tab) optIx(b []byte, present bool) string {
	if !present {
		return "None"
	}
	return "(Some " + t.ix(b) + "%N)"
}

func (t *tab) optKey(h hexb) string {
	if h == "-" {
		return "None"
	}
	return "(Some " + t.ix(h.bytes()) + "%N)"
}

func (t *tab) kv(k, v []byte) string { return "(KV " + t.ix(k) + " " + t.ix(v) + ")" }

func zlit(v int64) string {
	if v < 0 {
		return fmt.Sprintf("(%d)", v)
	}
	return fmt.Sprint(v)
}

func (p *probe) coq(t *tab) string {
	shape := make([]string, len(p.shape))
	for i, n := range p.shape {
		if n.Leaf {
			shape[i] = "(SL " + t.ix(n.Key) + ")"
		} else {
			shape[i] = "(SN " + t.ix(n.Key) + " " + zlit(int64(n.Height)) + " " + zlit(int64(n.Size)) + ")"
		}
	}
	reads := make([]string, len(p.reads))
	for i, r := range p.reads {
		reads[i] = "(RD " + zlit(int64(r.idx)) + " " + t.optIx(r.val, r.ok) + " " + hlib.Bool(r.has) + " " + t.ix(r.store) + ")"
	}
	gb := make([]string, len(p.gbi))
	for i, g := range p.gbi {
		gb[i] = hlib.Opt(!g.panicked, t.kv(g.k, g.v))
	}
	rs := make([]string, len(p.ranges))
	for i, r := range p.ranges {
		it := make([]string, len(r.kvs))
		for j, kv := range r.kvs {
			it[j] = t.kv(kv[0], kv[1])
		}
		rs[i] = "(RG " + hlib.List(it) + " " + hlib.Bool(r.stopped) + ")"
	}
	return hlib.App("PR", hlib.Bool(p.err), zlit(int64(p.size)), zlit(int64(p.height)),
		hlib.List(shape), hlib.List(reads), hlib.List(gb), hlib.List(rs))
}

// canonical text of a probe, for "does an old root still read the same"
func (p *probe) canon(t *tab) string { return p.coq(t) + "|" + p.panic }

type implBatch struct {
	Root     string `json:"root"`
	Class    int    `json:"class"`
	DBCount  int    `json:"dbcount"`
	Size     int32  `json:"size"`
	Height   int32  `json:"height"`
	OldSame  bool   `json:"oldSame"`
	ProbeErr string `json:"probeErr,omitempty"`
	Changed  string `json:"changedOldRoot,omitempty"`
}

// ---------- running one history ----------

func runHistory(o *hlib.Out, h *History, workdir string, serial int) {
	dir := filepath.Join(workdir, fmt.Sprintf("c01db-%d-%d", os.Getpid(), serial))
	os.RemoveAll(dir)
	defer os.RemoveAll(dir)
	e := &env{dir: dir, prefix: h.Prefix}
	e.open()
	t := newTab()

	var root []byte
	if h.ZeroRoot {
		root = make([]byte, 32)
	}
	var roots [][]byte
	var first []string // canonical first probe of each root
	var batchTerms []string
	var impl []implBatch
	failed := ""
	finalSize := int32(0)

	for bi, b := range h.Batches {
		height := int64(bi + 1)
		kvs := make([]*types.KeyValue, len(b.Writes))
		for i, w := range b.Writes {
			kvs[i] = &types.KeyValue{Key: w.K.bytes(), Value: w.V.bytes()}
		}
		var newRoot []byte
		var updated []bool
		var delVals [][]byte
		var err error
		func() {
			defer func() {
				if r := recover(); r != nil {
					failed = fmt.Sprintf("batch %d panicked: %v", bi+1, r)
				}
			}()
			set := &types.StoreSet{StateHash: root, KV: kvs, Height: height}
			switch b.Mode {
			case 3:
				dk := make([][]byte, len(b.Dels))
				for i, k := range b.Dels {
					dk[i] = k.bytes()
				}
				newRoot, delVals, err = mavldb.DelKVPair(e.st.GetDB(), &types.StoreGet{StateHash: root, Keys: dk}, e.cfg)
			case 0:
				newRoot, err = e.st.Set(set, b.Sync)
			case 1:
				tree := mavldb.NewTree(e.st.GetDB(), b.Sync, e.cfg)
				tree.SetBlockHeight(height)
				err = tree.Load(root)
				if err == nil {
					updated = []bool{}
					for _, kv := range kvs {
						updated = append(updated, tree.Set(kv.Key, kv.Value))
					}
					newRoot = tree.Save()
				}
			default:
				var hsh []byte
				hsh, err = e.st.MemSet(set, b.Sync)
				if err == nil {
					newRoot, err = e.st.Commit(&types.ReqHash{Hash: hsh})
				}
			}
		}()
		if failed == "" && err != nil {
			failed = fmt.Sprintf("batch %d error: %v", bi+1, err)
		}
		if failed != "" {
			break
		}
		// the empty tree is reported as nil, or as the (empty) parent root by MemSet
		isEmpty := len(newRoot) == 0 || bytes.Equal(newRoot, make([]byte, 32))
		class := 0
		if !isEmpty {
			class = len(roots) + 1
			for i, r := range roots {
				if bytes.Equal(r, newRoot) {
					class = i + 1
					break
				}
			}
		}
		roots = append(roots, newRoot)
		root = newRoot
		p := e.probe(newRoot, h)
		first = append(first, p.canon(t))
		oldSame := true
		changed := ""
		for i := 0; i < bi; i++ {
			q := e.probe(roots[i], h)
			if q.canon(t) != first[i] {
				oldSame = false
				changed = fmt.Sprintf("root of batch %d reads differently after batch %d", i+1, bi+1)
				break
			}
		}
		cnt := e.dbCount()
		dbc := "None"
		if !h.Prefix {
			dbc = "(Some " + hlib.N(uint64(cnt)) + ")"
		}
		ws := make([]string, len(b.Writes))
		for i, w := range b.Writes {
			ws[i] = t.kv(w.K.bytes(), w.V.bytes())
		}
		upd := "None"
		if updated != nil {
			us := make([]string, len(updated))
			for i, u := range updated {
				us[i] = hlib.Bool(u)
			}
			upd = "(Some " + hlib.List(us) + ")"
		}
		if b.Mode == 3 {
			ds := make([]string, len(b.Dels))
			for i, k := range b.Dels {
				ds[i] = t.kv(k.bytes(), delVals[i])
			}
			batchTerms = append(batchTerms, hlib.App("BD", hlib.List(ds), fmt.Sprint(class), dbc, p.coq(t), hlib.Bool(oldSame)))
		} else {
			batchTerms = append(batchTerms, hlib.App("BT", hlib.List(ws), upd, fmt.Sprint(class), dbc, p.coq(t), hlib.Bool(oldSame)))
		}
		impl = append(impl, implBatch{Root: hex.EncodeToString(newRoot), Class: class, DBCount: cnt, Size: p.size,
			Height: p.height, OldSame: oldSame, ProbeErr: p.panic, Changed: changed})
		finalSize = p.size
	}

	// close + reopen, probe every root again
	var reopened []string
	reSame := true
	if failed == "" {
		e.close()
		e.open()
		full := h.Deep
		pickOne := len(roots) - 1
		for i, r := range roots {
			p := e.probe(r, h)
			if full || i == pickOne || i == len(roots)/2 {
				reopened = append(reopened, "(RO "+fmt.Sprint(i+1)+" "+p.coq(t)+")")
			}
			if p.canon(t) != first[i] {
				reSame = false
			}
		}
	}
	e.close()

	if failed != "" {
		// the implementation refused or crashed on a legal history: report it as a case the
		// model cannot agree with (the probe list is cut short).
		fmt.Println("hC01:", failed)
	}
	keys := make([]string, len(h.Keys))
	for i, k := range h.Keys {
		keys[i] = t.ix(k.bytes()) + "%N"
	}
	qs := make([]string, len(h.Queries))
	for i, q := range h.Queries {
		lim := "None"
		if q.Lim >= 0 {
			lim = "(Some " + hlib.N(uint64(q.Lim)) + ")"
		}
		qs[i] = hlib.App("QR", lim, t.optKey(q.Start), t.optKey(q.End), hlib.Bool(q.Asc), hlib.Bool(q.Incl))
	}
	gs := make([]string, len(h.Gbis))
	for i, g := range h.Gbis {
		gs[i] = hlib.Z(int64(g))
	}
	if failed != "" {
		// make the case disagree explicitly: a batch with an erroring probe
		batchTerms = append(batchTerms, "(BT [] None 0 None (PR true 0 0 [] [] [] []) false)")
	}
	term := hlib.App("CHist", hlib.Bool(h.Deep), hlib.ListHx(t.list), hlib.List(keys), hlib.List(qs), hlib.List(gs),
		hlib.List(batchTerms), hlib.Bool(reSame), hlib.List(reopened))
	o.Emit(h.Kind, finalSize >= 3 && len(h.Batches) >= 2, term, h,
		map[string]interface{}{"batches": impl, "reopenSame": reSame, "failed": failed})
}

// ---------- generation ----------

var alpha = []byte{0x00, 0x01, 0x61, 0x62, 0xfe, 0xff}
var prefixes = []string{"", "mavl-coins-bty-", "mavl-coins-bty-exec-", "mavl-", "a", "\x00", "\xff", "\xff\xff"}

func genKey(r *hlib.Rng) []byte {
	switch r.Intn(10) {
	case 0:
		return []byte{} // the empty key
	case 1:
		return []byte{alpha[r.Intn(len(alpha))]}
	}
	p := []byte(prefixes[r.Intn(len(prefixes))])
	n := r.Range(0, 3)
	for i := 0; i < n; i++ {
		p = append(p, alpha[r.Intn(len(alpha))])
	}
	return p
}

func genVal(r *hlib.Rng) []byte {
	n := r.Range(0, 3)
	if n == 0 && !r.Chance(1, 4) {
		n = 1
	}
	v := make([]byte, n)
	for i := range v {
		v[i] = byte(r.Intn(4)) + 0x30
	}
	return v
}

func neighbour(r *hlib.Rng, k []byte) []byte {
	c := append([]byte{}, k...)
	switch r.Intn(4) {
	case 0:
		return append(c, 0x00)
	case 1:
		if len(c) > 0 {
			return c[:len(c)-1]
		}
		return []byte{0x00}
	case 2:
		if len(c) > 0 {
			c[len(c)-1]++
			return c
		}
		return []byte{0xff}
	default:
		if len(c) > 0 {
			c[len(c)-1]--
			return c
		}
		return []byte{0x00, 0x00}
	}
}

func genHistory(r *hlib.Rng, class int, prefix bool, dels bool) *History {
	var nb, maxw int
	switch class {
	case 0: // small
		nb, maxw = r.Range(1, 4), r.Range(1, 8)
	case 1: // medium
		nb, maxw = r.Range(2, 10), r.Range(1, 25)
	default: // large: up to 20 batches x up to 60 writes, total bounded
		nb = r.Range(5, 20)
		maxw = r.Range(10, 60)
		for nb*maxw > 500 {
			if r.Chance(1, 2) && nb > 5 {
				nb--
			} else if maxw > 10 {
				maxw--
			} else {
				nb--
			}
		}
	}
	h := &History{Prefix: prefix, ZeroRoot: r.Chance(1, 2)}
	// key pool: distinct keys, about 70% of the expected number of writes
	poolN := nb*maxw*7/20 + 1
	seen := map[string]bool{}
	var pool [][]byte
	for tries := 0; len(pool) < poolN && tries < poolN*20; tries++ {
		k := genKey(r)
		if !seen[string(k)] {
			seen[string(k)] = true
			pool = append(pool, k)
		}
	}
	cur := map[string][]byte{}
	used := map[string]bool{}
	total := 0
	var prev []Write
	for b := 0; b < nb; b++ {
		bt := Batch{Mode: r.Intn(3), Sync: r.Chance(1, 4)}
		nw := r.Range(1, maxw)
		if r.Chance(1, 15) {
			nw = 0 // an empty batch
		}
		if !prefix && dels && len(used) > 0 && r.Chance(1, 5) {
			// a DelKVPair batch: mostly keys that exist, some that do not
			bt.Mode = 3
			nd := r.Range(1, maxw/2+1)
			for i := 0; i < nd; i++ {
				k := pool[r.Intn(len(pool))]
				for t := 0; t < 6 && cur[string(k)] == nil; t++ {
					k = pool[r.Intn(len(pool))]
				}
				if r.Chance(1, 6) {
					k = neighbour(r, k)
				}
				bt.Dels = append(bt.Dels, hb(k))
				delete(cur, string(k))
			}
			prev = nil
			h.Batches = append(h.Batches, bt)
			continue
		}
		if b > 0 && len(prev) > 0 && r.Chance(1, 10) {
			// re-commit the previous batch unchanged: the root must coincide
			bt.Writes = append(bt.Writes, prev...)
		} else {
			for i := 0; i < nw; i++ {
				var k []byte
				if len(used) > 0 && r.Chance(3, 10) {
					// overwrite of a key written before
					k = pool[r.Intn(len(pool))]
					for t := 0; t < 8 && !used[string(k)]; t++ {
						k = pool[r.Intn(len(pool))]
					}
				} else {
					k = pool[r.Intn(len(pool))]
				}
				v := genVal(r)
				if old, ok := cur[string(k)]; ok && r.Chance(1, 8) {
					v = old // same value again
				}
				cur[string(k)] = v
				used[string(k)] = true
				bt.Writes = append(bt.Writes, Write{K: hb(k), V: hb(v)})
			}
		}
		for _, w := range bt.Writes {
			cur[string(w.K.bytes())] = w.V.bytes()
			used[string(w.K.bytes())] = true
		}
		total += len(bt.Writes)
		prev = bt.Writes
		h.Batches = append(h.Batches, bt)
	}
	// key table: everything in the pool (written or not) + absent neighbours
	keyset := map[string]bool{}
	var keys [][]byte
	add := func(k []byte) {
		if !keyset[string(k)] {
			keyset[string(k)] = true
			keys = append(keys, k)
		}
	}
	for _, k := range pool {
		add(k)
	}
	nabs := len(pool)/4 + 3
	for i := 0; i < nabs; i++ {
		add(neighbour(r, pool[r.Intn(len(pool))]))
	}
	add([]byte{})
	add([]byte{0x00})
	add([]byte{0xff, 0xff, 0xff, 0xff})
	hlib.Shuffle(r, keys)
	for _, k := range keys {
		h.Keys = append(h.Keys, hb(k))
	}
	// range queries
	pick := func() hexb {
		switch r.Intn(8) {
		case 0:
			return "-"
		case 1:
			return hb([]byte{})
		case 2:
			return hb(neighbour(r, keys[r.Intn(len(keys))]))
		default:
			return hb(keys[r.Intn(len(keys))])
		}
	}
	h.Queries = append(h.Queries,
		Query{Lim: -1, Start: "-", End: "-", Asc: true},
		Query{Lim: -1, Start: "-", End: "-", Asc: false})
	nq := 8
	if class == 2 {
		nq = 6
	}
	for i := 0; i < nq; i++ {
		q := Query{Lim: -1, Start: pick(), End: pick(), Asc: r.Chance(1, 2), Incl: r.Chance(1, 2)}
		if r.Chance(1, 4) {
			q.Lim = r.Range(0, 4)
		}
		if r.Chance(1, 3) && q.Start != "-" && q.End != "-" && bytes.Compare(q.Start.bytes(), q.End.bytes()) > 0 {
			q.Start, q.End = q.End, q.Start
		}
		h.Queries = append(h.Queries, q)
	}
	h.Gbis = []int32{-1, 0, 1, 2, 3, int32(r.Intn(12)), int32(r.Intn(40)), int32(len(pool)), int32(len(pool)) + 1, 100000}
	h.Deep = !prefix && total <= 100
	names := []string{"small", "medium", "large"}
	cfg := "plain"
	if prefix {
		cfg = "prefix"
	}
	h.Kind = cfg + "-" + names[class]
	if h.Deep {
		h.Kind += "-deep"
	}
	if dels && !prefix {
		h.Kind += "-del"
	}
	return h
}

// exhaustive-ish stream: every insertion order of n distinct keys as single-write batches
func permHistory(keys [][]byte, perm []int, prefix bool) *History {
	h := &History{Prefix: prefix, Deep: !prefix, Kind: "perm"}
	for _, i := range perm {
		h.Batches = append(h.Batches, Batch{Mode: i % 3, Writes: []Write{{K: hb(keys[i]), V: hb([]byte{byte(0x30 + i)})}}})
	}
	for _, k := range keys {
		h.Keys = append(h.Keys, hb(k))
	}
	h.Keys = append(h.Keys, hb([]byte{0x7f}))
	h.Queries = []Query{{Lim: -1, Start: "-", End: "-", Asc: true}, {Lim: -1, Start: hb(keys[1]), End: hb(keys[len(keys)-1]), Asc: false},
		{Lim: 2, Start: hb(keys[0]), End: hb(keys[len(keys)-2]), Asc: true, Incl: true}}
	h.Gbis = []int32{0, int32(len(keys)) - 1, int32(len(keys))}
	return h
}

// insert all keys in one batch, then delete keys[p[0]], keys[p[1]], ... one per batch
func delPermHistory(keys [][]byte, perm []int) *History {
	h := &History{Deep: true, Kind: "delperm"}
	var ws []Write
	for i, k := range keys {
		ws = append(ws, Write{K: hb(k), V: hb([]byte{byte(0x30 + i)})})
	}
	h.Batches = append(h.Batches, Batch{Mode: 0, Writes: ws})
	for _, i := range perm {
		h.Batches = append(h.Batches, Batch{Mode: 3, Dels: []hexb{hb(keys[i])}})
	}
	for _, k := range keys {
		h.Keys = append(h.Keys, hb(k))
	}
	h.Queries = []Query{{Lim: -1, Start: "-", End: "-", Asc: true}, {Lim: -1, Start: hb(keys[1]), End: "-", Asc: false}}
	h.Gbis = []int32{0, 1, int32(len(keys)) - 1}
	return h
}

func permutations(n int, f func([]int)) {
	p := make([]int, n)
	for i := range p {
		p[i] = i
	}
	var rec func(k int)
	rec = func(k int) {
		if k == n {
			f(append([]int{}, p...))
			return
		}
		for i := k; i < n; i++ {
			p[k], p[i] = p[i], p[k]
			rec(k + 1)
			p[k], p[i] = p[i], p[k]
		}
	}
	rec(0)
}

func main() {
	opts := hlib.ParseFlags()
	clog.SetLogLevel("crit")
	mavl.DisableLog()
	o := hlib.NewOut(opts.OutDir)
	defer o.Close()
	workdir := opts.OutDir
	if opts.Replay != "" {
		var h History
		if err := hlib.ReplayInput(opts.Replay, &h); err != nil {
			panic(err)
		}
		h.Kind = "replay"
		runHistory(o, &h, workdir, 0)
		return
	}
	r := hlib.NewRng(opts.Seed)
	serial := 0
	run := func(h *History) {
		serial++
		runHistory(o, h, workdir, serial)
	}
	// all insertion orders of 4 keys (24), one write per batch: every rotation case on tiny trees
	pk := [][]byte{{}, {0x00}, {0x61}, {0x61, 0x00}, {0xff}}
	permutations(4, func(p []int) { run(permHistory(pk[:4], p, false)) })
	nSmall, nMed, nLarge := 30, 24, 8
	if opts.Thorough() {
		nSmall, nMed, nLarge = 300, 500, 200
		permutations(5, func(p []int) { run(permHistory(pk, p, r.Chance(1, 2))) })
	}
	// the "-del" histories also contain DelKVPair batches (exported by the tree package; not on
	// the block path) - every second non-prefix history
	for i := 0; i < nSmall; i++ {
		run(genHistory(r, 0, i%3 == 2, i%2 == 1))
	}
	for i := 0; i < nMed; i++ {
		run(genHistory(r, 1, i%3 == 2, i%2 == 1))
	}
	for i := 0; i < nLarge; i++ {
		run(genHistory(r, 2, i%4 == 3, i%2 == 1))
	}
	// removal orders on tiny trees: insert 5 keys, then delete them in every order of 4 of them
	permutations(4, func(p []int) { run(delPermHistory(pk, p)) })
	// random removal orders on trees of 6-12 keys (every key removed, one per batch)
	nDel := 30
	if opts.Thorough() {
		nDel = 1500
	}
	for i := 0; i < nDel; i++ {
		n := r.Range(6, 12)
		seen := map[string]bool{}
		var ks [][]byte
		for len(ks) < n {
			k := genKey(r)
			if !seen[string(k)] {
				seen[string(k)] = true
				ks = append(ks, k)
			}
		}
		p := make([]int, n)
		for j := range p {
			p[j] = j
		}
		hlib.Shuffle(r, p)
		h := delPermHistory(ks, p)
		h.Kind = "delrand"
		run(h)
	}
}
