// hC06: runs generated operation histories (Set/Delete/Batch/Get/Iterator with
// Rewind/Seek/Next) on chain33's memdb, leveldb and gobadgerdb backends and
// records what every Get and iterator call returned.
package main

import (
	"bytes"
	"fmt"
	"os"
	"path/filepath"
	"sort"
	"strings"

	dbm "github.com/33cn/chain33/common/db"
	"github.com/33cn/chain33/types"
	"verifharness/hlib"
)

// ---------- input format (also the replay format) ----------

type wr struct {
	K   string `json:"k"`
	V   string `json:"v,omitempty"`
	Del bool   `json:"del,omitempty"`
}

type iopIn struct {
	T string `json:"t"` // rewind | seek | next | drain (= Next while valid)
	K string `json:"k,omitempty"`
}

type opIn struct {
	T        string  `json:"t"` // set | del | batch | get | iter
	K        string  `json:"k,omitempty"`
	V        string  `json:"v,omitempty"`
	VNil     bool    `json:"vnil,omitempty"` // Set with a nil value slice
	Ws       []wr    `json:"ws,omitempty"`
	Start    string  `json:"start,omitempty"`
	StartNil bool    `json:"startnil,omitempty"` // pass nil instead of an empty start
	EndKind  string  `json:"endkind,omitempty"`  // nil | emptyvalue | bytes
	End      string  `json:"end,omitempty"`
	Rev      bool    `json:"rev,omitempty"`
	Iops     []iopIn `json:"iops,omitempty"`
}

type caseIn struct {
	Backend string `json:"backend"`
	Ops     []opIn `json:"ops"`
}

func unhex(s string) []byte {
	b := make([]byte, len(s)/2)
	for i := range b {
		fmt.Sscanf(s[2*i:2*i+2], "%02x", &b[i])
	}
	return b
}

// ---------- running one history on one backend ----------

type runner struct {
	dbs  map[string]dbm.DB
	dirs string
}

func (r *runner) db(be string) dbm.DB {
	if d, ok := r.dbs[be]; ok {
		return d
	}
	dir := filepath.Join(r.dirs, be)
	os.MkdirAll(dir, 0o755)
	d := dbm.NewDB("c06", be, dir, 16)
	r.dbs[be] = d
	return d
}

func (r *runner) closeAll() {
	for _, d := range r.dbs {
		d.Close()
	}
	os.RemoveAll(r.dirs)
}

// wipe removes every key (so that the next history starts from an empty store).
func wipe(db dbm.DB) {
	var ks [][]byte
	it := db.Iterator(nil, types.EmptyValue, false)
	for it.Rewind(); it.Valid(); it.Next() {
		ks = append(ks, append([]byte{}, it.Key()...))
	}
	it.Close()
	for _, k := range ks {
		db.Delete(k)
	}
}

func coqBackend(be string) string {
	switch be {
	case "memdb":
		return "BMem"
	case "leveldb":
		return "BLdb"
	}
	return "BBadger"
}

type iterObs struct {
	Op    string `json:"op"`
	Ret   bool   `json:"ret"`
	Valid bool   `json:"valid"`
	Key   string `json:"key,omitempty"`
	Val   string `json:"val,omitempty"`
}

func observe(it dbm.Iterator, ret bool) (string, iterObs) {
	v := it.Valid()
	var k, x []byte
	if v {
		k = it.Key()
		x = it.Value()
	}
	term := "(" + hlib.Bool(ret) + ", " + hlib.Bool(v) + ", " + hlib.Hx(k) + ", " + hlib.Hx(x) + ")"
	return term, iterObs{Ret: ret, Valid: v, Key: hlib.HexS(k), Val: hlib.HexS(x)}
}

// run executes the history; returns the Gallina term, the executed input (iterator
// calls that were skipped are removed, "drain" is expanded), the observables and
// whether the case is non-trivial.
func (r *runner) run(c caseIn) (string, caseIn, []interface{}, bool) {
	db := r.db(c.Backend)
	defer wipe(db)
	isBadger := c.Backend == "gobadgerdb"
	var terms []string
	var obs []interface{}
	nontrivial := false
	done := caseIn{Backend: c.Backend}
	for _, o := range c.Ops {
		switch o.T {
		case "set":
			var v []byte
			if !o.VNil {
				v = unhex(o.V)
				if v == nil {
					v = []byte{}
				}
			}
			if err := db.Set(unhex(o.K), v); err != nil {
				panic(err)
			}
			terms = append(terms, hlib.App("OSet", hlib.Hx(unhex(o.K)), hlib.Hx(v)))
			obs = append(obs, "set")
		case "del":
			// memdb's Delete (and a memBatch ending in such a Delete) reports
			// "not found" for an absent key; the store is unchanged. Not an
			// observable of this property (Get / Iterator results are).
			if err := db.Delete(unhex(o.K)); err != nil && c.Backend != "memdb" {
				panic(err)
			}
			terms = append(terms, hlib.App("ODel", hlib.Hx(unhex(o.K))))
			obs = append(obs, "del")
		case "batch":
			b := db.NewBatch(false)
			var ws []string
			for _, w := range o.Ws {
				if w.Del {
					b.Delete(unhex(w.K))
					ws = append(ws, hlib.Pair(hlib.Hx(unhex(w.K)), "None"))
				} else {
					v := unhex(w.V)
					b.Set(unhex(w.K), v)
					ws = append(ws, hlib.Pair(hlib.Hx(unhex(w.K)), "Some "+hlib.Hx(v)))
				}
			}
			if err := b.Write(); err != nil && c.Backend != "memdb" {
				panic(err)
			}
			terms = append(terms, hlib.App("OBatch", hlib.List(ws)))
			obs = append(obs, "batch")
		case "get":
			v, err := db.Get(unhex(o.K))
			var g string
			switch {
			case err == nil && v != nil:
				g = hlib.App("GFound", hlib.Hx(v))
				nontrivial = true
			case err == types.ErrNotFound && v == nil:
				g = "GNotFound"
			default:
				g = "GOther"
			}
			terms = append(terms, hlib.App("OGet", hlib.Hx(unhex(o.K)), g))
			obs = append(obs, map[string]interface{}{"get": hlib.HexS(v), "nil": v == nil, "err": fmt.Sprint(err)})
		case "iter":
			var start, end []byte
			if !o.StartNil {
				start = unhex(o.Start)
				if start == nil {
					start = []byte{}
				}
			}
			endTerm := "None"
			switch o.EndKind {
			case "emptyvalue":
				end = types.EmptyValue
				endTerm = "(Some " + hlib.Hx(end) + ")"
			case "bytes":
				end = unhex(o.End)
				if end == nil {
					end = []byte{}
				}
				endTerm = "(Some " + hlib.Hx(end) + ")"
			}
			it := db.Iterator(start, end, o.Rev)
			var its []string
			var iobs []iterObs
			var executed []iopIn
			call := func(name string, k []byte, f func() bool) {
				ret := f()
				t, ob := observe(it, ret)
				ob.Op = name
				if ob.Valid {
					nontrivial = true
				}
				switch name {
				case "rewind":
					its = append(its, hlib.Pair("IRewind", t))
					executed = append(executed, iopIn{T: "rewind"})
				case "seek":
					its = append(its, hlib.Pair(hlib.App("ISeek", hlib.Hx(k)), t))
					executed = append(executed, iopIn{T: "seek", K: hlib.HexS(k)})
				default:
					its = append(its, hlib.Pair("INext", t))
					executed = append(executed, iopIn{T: "next"})
				}
				iobs = append(iobs, ob)
			}
			for _, io := range o.Iops {
				switch io.T {
				case "rewind":
					call("rewind", nil, it.Rewind)
				case "seek":
					k := unhex(io.K)
					if k == nil {
						k = []byte{}
					}
					call("seek", k, func() bool { return it.Seek(k) })
				case "next":
					// Next on a not-valid badger iterator dereferences nil inside
					// the library; the call is never issued on that backend.
					if isBadger && !it.Valid() {
						continue
					}
					call("next", nil, it.Next)
				case "drain":
					for n := 0; n < 64 && it.Valid(); n++ {
						call("next", nil, it.Next)
					}
				}
			}
			it.Close()
			oo := o
			oo.Iops = executed
			done.Ops = append(done.Ops, oo)
			terms = append(terms, hlib.App("OIter", hlib.Hx(start), endTerm, hlib.Bool(o.Rev), hlib.List(its)))
			obs = append(obs, iobs)
			continue
		}
		done.Ops = append(done.Ops, o)
	}
	term := hlib.App("Case", coqBackend(c.Backend), hlib.List(terms))
	return term, done, obs, nontrivial
}

// ---------- generation ----------

type gen struct {
	r      *hlib.Rng
	alpha  []byte
	shadow map[string]bool // keys present (to make bounds, targets and writes collide)
	// inside: no stored key equals the resolved end bound and every Seek target is
	// non-empty and inside [start,end) (iterator calls are valid more often);
	// otherwise anything goes
	inside bool
}

func (g *gen) str(lo, hi int) []byte {
	n := g.r.Range(lo, hi)
	b := make([]byte, n)
	for i := range b {
		b[i] = hlib.Pick(g.r, g.alpha)
	}
	return b
}

func (g *gen) key() []byte {
	// mostly reuse a small universe so that overwrites, deletes and bounds collide
	if len(g.shadow) > 0 && g.r.Chance(1, 3) {
		ks := g.keys()
		return []byte(ks[g.r.Intn(len(ks))])
	}
	return g.str(1, 3)
}

func (g *gen) keys() []string {
	ks := make([]string, 0, len(g.shadow))
	for k := range g.shadow {
		ks = append(ks, k)
	}
	sort.Strings(ks)
	return ks
}

func (g *gen) value() []byte {
	if g.r.Chance(1, 4) {
		return []byte{}
	}
	return g.r.Bytes(g.r.Range(1, 2))
}

func bytesPrefixLimit(p []byte) []byte {
	for i := len(p) - 1; i >= 0; i-- {
		if p[i] < 0xff {
			l := append([]byte{}, p[:i+1]...)
			l[i]++
			return l
		}
	}
	return nil
}

// resolved end bound of an iterator (nil = none)
func resolveEnd(o opIn) []byte {
	var end []byte
	switch o.EndKind {
	case "nil":
		end = bytesPrefixLimit(unhex(o.Start))
	case "emptyvalue":
		return nil
	default:
		end = unhex(o.End)
		if end == nil {
			end = []byte{}
		}
	}
	if bytes.Equal(end, types.EmptyValue) {
		return nil
	}
	return end
}

func (g *gen) seekTarget() []byte {
	switch g.r.Intn(10) {
	case 0:
		return []byte{}
	case 1, 2, 3:
		if len(g.shadow) > 0 {
			ks := g.keys()
			return []byte(ks[g.r.Intn(len(ks))])
		}
	}
	return g.str(1, 3)
}

func (g *gen) iter() opIn {
	for try := 0; ; try++ {
		o := opIn{T: "iter", Rev: g.r.Chance(1, 2)}
		st := g.str(0, 2)
		if g.r.Chance(1, 4) {
			st = nil
		}
		o.Start = hlib.HexS(st)
		o.StartNil = len(st) == 0 && g.r.Chance(1, 2)
		switch x := g.r.Intn(20); {
		case x < 8:
			o.EndKind = "nil"
		case x < 11:
			o.EndKind = "emptyvalue"
		case x < 12 && !g.inside:
			o.EndKind = "bytes" // empty, non-nil end
		default:
			o.EndKind = "bytes"
			var e []byte
			if len(g.shadow) > 0 && g.r.Chance(1, 3) {
				ks := g.keys()
				e = []byte(ks[g.r.Intn(len(ks))])
			} else {
				e = g.str(1, 3)
			}
			o.End = hlib.HexS(e)
		}
		end := resolveEnd(o)
		if g.inside && end != nil && g.shadow[string(end)] {
			if try < 50 {
				continue
			}
			o.EndKind, o.End = "emptyvalue", ""
			end = nil
		}
		inRange := func(k []byte) bool {
			return len(k) > 0 && bytes.Compare(k, st) >= 0 && (end == nil || bytes.Compare(k, end) < 0)
		}
		pickSeek := func() (iopIn, bool) {
			for t := 0; t < 30; t++ {
				k := g.seekTarget()
				if !g.inside || inRange(k) {
					return iopIn{T: "seek", K: hlib.HexS(k)}, true
				}
			}
			return iopIn{T: "rewind"}, false
		}
		if g.r.Chance(7, 10) {
			o.Iops = append(o.Iops, iopIn{T: "rewind"})
		} else {
			io, _ := pickSeek()
			o.Iops = append(o.Iops, io)
		}
		if g.r.Chance(1, 4) {
			o.Iops = append(o.Iops, iopIn{T: "drain"})
			if g.r.Chance(1, 2) {
				o.Iops = append(o.Iops, iopIn{T: "next"})
			}
		}
		n := g.r.Range(0, 7)
		for i := 0; i < n; i++ {
			switch x := g.r.Intn(10); {
			case x < 7:
				o.Iops = append(o.Iops, iopIn{T: "next"})
			case x < 9:
				io, _ := pickSeek()
				o.Iops = append(o.Iops, io)
			default:
				o.Iops = append(o.Iops, iopIn{T: "rewind"})
			}
		}
		return o
	}
}

func (g *gen) history(nops int) []opIn {
	g.shadow = map[string]bool{}
	var ops []opIn
	for i := 0; i < nops; i++ {
		x := g.r.Intn(100)
		if len(g.shadow) < 2 {
			x = x % 45 // fill first
		}
		switch {
		case x < 30:
			k := g.key()
			o := opIn{T: "set", K: hlib.HexS(k)}
			if g.r.Chance(1, 8) {
				o.VNil = true
			} else {
				o.V = hlib.HexS(g.value())
			}
			g.shadow[string(k)] = true
			ops = append(ops, o)
		case x < 45:
			o := opIn{T: "batch"}
			n := g.r.Range(1, 5)
			for j := 0; j < n; j++ {
				k := g.key()
				if j > 0 && g.r.Chance(1, 3) {
					k = unhex(o.Ws[g.r.Intn(j)].K) // same key twice in one batch
				}
				if g.r.Chance(1, 3) {
					o.Ws = append(o.Ws, wr{K: hlib.HexS(k), Del: true})
					delete(g.shadow, string(k))
				} else {
					o.Ws = append(o.Ws, wr{K: hlib.HexS(k), V: hlib.HexS(g.value())})
					g.shadow[string(k)] = true
				}
			}
			ops = append(ops, o)
		case x < 55:
			k := g.key()
			delete(g.shadow, string(k))
			ops = append(ops, opIn{T: "del", K: hlib.HexS(k)})
		case x < 70:
			ops = append(ops, opIn{T: "get", K: hlib.HexS(g.key())})
		default:
			ops = append(ops, g.iter())
		}
	}
	// final full scans in both directions
	ops = append(ops, opIn{T: "iter", StartNil: true, EndKind: "emptyvalue", Iops: []iopIn{{T: "rewind"}, {T: "drain"}}})
	ops = append(ops, opIn{T: "iter", EndKind: "nil", Rev: true, Iops: []iopIn{{T: "rewind"}, {T: "drain"}}})
	return ops
}

func has0xff(a []byte) bool { return bytes.IndexByte(a, 0xff) >= 0 }

func main() {
	opts := hlib.ParseFlags()
	o := hlib.NewOut(opts.OutDir)
	defer o.Close()
	rn := &runner{dbs: map[string]dbm.DB{}, dirs: filepath.Join(opts.OutDir, "c06dbs")}
	os.RemoveAll(rn.dirs)
	defer rn.closeAll()

	emit := func(kind string, c caseIn) {
		term, done, obs, nt := rn.run(c)
		o.Emit(kind, nt, term, done, obs)
	}

	if opts.Replay != "" {
		var in caseIn
		if err := hlib.ReplayInput(opts.Replay, &in); err != nil {
			panic(err)
		}
		emit("replay", in)
		return
	}

	// fixed cases: the inputs of the two repaired Badger findings (a stored key equal
	// to the exclusive end bound; Seek with an empty target or a target outside
	// [start,end)), on all three backends
	wit := func(be string) caseIn {
		c := caseIn{Backend: be}
		for _, k := range []string{"a", "a1", "a2", "b", "c"} {
			c.Ops = append(c.Ops, opIn{T: "set", K: hlib.HexS([]byte(k)), V: hlib.HexS([]byte("v" + k))})
		}
		for _, rev := range []bool{false, true} {
			c.Ops = append(c.Ops,
				opIn{T: "iter", Start: hlib.HexS([]byte("a")), EndKind: "nil", Rev: rev, Iops: []iopIn{{T: "rewind"}, {T: "drain"}}},
				opIn{T: "iter", Start: hlib.HexS([]byte("a")), EndKind: "bytes", End: hlib.HexS([]byte("b")), Rev: rev, Iops: []iopIn{{T: "rewind"}, {T: "drain"}}})
		}
		return c
	}
	witSeek := func(be string) caseIn {
		c := caseIn{Backend: be}
		for _, k := range []string{"a", "a1", "a2", "b", "c", "d", "\x00"} {
			c.Ops = append(c.Ops, opIn{T: "set", K: hlib.HexS([]byte(k)), V: hlib.HexS([]byte("v" + k))})
		}
		sk := func(k string) iopIn { return iopIn{T: "seek", K: hlib.HexS([]byte(k))} }
		for _, rev := range []bool{false, true} {
			c.Ops = append(c.Ops,
				opIn{T: "iter", Start: hlib.HexS([]byte("b")), EndKind: "bytes", End: hlib.HexS([]byte("d")), Rev: rev,
					Iops: []iopIn{sk("a"), sk("e"), sk("d"), sk(""), sk("b"), sk("c"), {T: "next"}, sk("a2"), sk("b1")}},
				opIn{T: "iter", StartNil: true, EndKind: "emptyvalue", Rev: rev, Iops: []iopIn{sk(""), sk("\x00"), {T: "next"}, sk("e")}},
				opIn{T: "iter", Start: hlib.HexS([]byte("a1")), EndKind: "nil", Rev: rev, Iops: []iopIn{sk(""), sk("a"), sk("a2"), sk("b")}})
		}
		return c
	}
	for _, be := range []string{"memdb", "leveldb", "gobadgerdb"} {
		emit("witness/"+be, wit(be))
		emit("witness-seek/"+be, witSeek(be))
	}

	r := hlib.NewRng(opts.Seed)
	alphas := [][]byte{
		[]byte("ab"), []byte("ab"), []byte("abc1"), {0x00, 0x01, 0xfe}, {0x00, 0xff, 0x61}, {0xfe, 0xff},
	}
	nseq := 130
	nbadger := 45
	if opts.Thorough() {
		nseq, nbadger = 2500, 500
	}
	for _, inside := range []bool{true, false} {
		stream := "any"
		if inside {
			stream = "inside"
		}
		bad := 0
		for i := 0; i < nseq; i++ {
			g := &gen{r: r.Fork(), inside: inside}
			g.alpha = alphas[i%len(alphas)]
			nops := 4 + i%17
			if i < 12 {
				nops = 2 + i/3 // small cases first
			}
			ops := g.history(nops)
			bes := []string{"memdb", "leveldb"}
			// Badger: keys and bounds without 0xff (its documented limitation); fewer
			// histories (every write is a synchronous transaction).
			if !has0xff(g.alpha) && bad < nbadger {
				bes = append(bes, "gobadgerdb")
				bad++
			}
			for _, be := range bes {
				emit(stream+"/"+be+"/"+strings.ReplaceAll(fmt.Sprintf("%x", g.alpha), " ", ""), caseIn{Backend: be, Ops: ops})
			}
		}
	}
}
