package main

// Child process: ONE rpc configuration per process (the rpc package keeps its
// white/black lists in package-level maps that are only ever added to, so a
// fresh process per configuration is the faithful way to run InitCfg).
//
// Starts the real servers the way rpc.RPC does (rpc.New -> SetAPI ->
// SetQueueClientNoListen -> Listen) with a spy QueueProtocolAPI and serves the
// requests read from stdin over real TCP, binding the client socket's local
// address.  The eth gate is additionally driven through http.Handler with a
// forged RemoteAddr.

import (
	"bytes"
	"compress/gzip"
	"context"
	"encoding/base64"
	"encoding/json"
	"fmt"
	"io"
	"net"
	"net/http"
	"net/http/httptest"
	"os"
	"reflect"
	"sort"
	"strings"
	"sync"
	"time"

	"github.com/33cn/chain33/client"
	"github.com/33cn/chain33/queue"
	"github.com/33cn/chain33/rpc"
	"github.com/33cn/chain33/rpc/ethrpc"
	"github.com/33cn/chain33/types"
	"google.golang.org/grpc"
	"google.golang.org/grpc/credentials/insecure"
	"google.golang.org/grpc/status"
)

// ---------- wire types parent <-> child ----------

// Cfg is one generated [rpc] configuration. nil list = key absent.
type Cfg struct {
	Whitelist *[]string `json:"whitelist"`
	Whitlist  *[]string `json:"whitlist"`
	JFW       *[]string `json:"jfw"`
	GFW       *[]string `json:"gfw"`
	JFB       *[]string `json:"jfb"`
	GFB       *[]string `json:"gfb"`
	User      string    `json:"user"`
	Pass      string    `json:"pass"`
}

// JV is a JSON value class of a request field.
type JV struct {
	T string `json:"t"`           // str null numu numo arr0 arrok arrbad obj bool
	S string `json:"s,omitempty"` // decoded string for T=str
	R string `json:"r"`           // raw JSON text that is sent
}

// Field is one key/value of the request object, in order.
type Field struct {
	K string `json:"k"`
	V JV     `json:"v"`
}

// JReq is one JSON-RPC request.
type JReq struct {
	Client string  `json:"client"` // local address to bind (may carry %zone)
	Path   string  `json:"path"`
	HTTPM  string  `json:"httpm"`
	AuthK  string  `json:"authk"` // none bad creds
	AuthH  string  `json:"authh"` // header value sent ("" = no header)
	AuthU  string  `json:"authu,omitempty"`
	AuthP  string  `json:"authp,omitempty"`
	BodyK  string  `json:"bodyk"` // obj bad
	Fields []Field `json:"fields,omitempty"`
	Raw    string  `json:"raw"` // body bytes sent
	Gzip   bool    `json:"gzip,omitempty"`
	Wait   bool    `json:"wait,omitempty"` // may reach CloseQueue, whose handler calls the API 100 ms later
}

// GReq is one gRPC request.
type GReq struct {
	Client string `json:"client"`
	Full   string `json:"full"`
}

// EReq is one eth JSON-RPC request (real TCP if Client != "", else forged RemoteAddr).
type EReq struct {
	Client string `json:"client,omitempty"`
	Forged string `json:"forged,omitempty"`
	HTTPM  string `json:"httpm"`
}

// Job is what the parent sends.
type Job struct {
	Cfg Cfg      `json:"cfg"`
	J   []JReq   `json:"j"`
	G   []GReq   `json:"g"`
	E   []EReq   `json:"e"`
	IPs []string `json:"ips"` // host strings for rpc.CheckIPWhitelist
}

// JObs etc. are the observables.
type JObs struct {
	Class string   `json:"class"` // rej_ip rej_auth rej_method rej_parse passed conn_err
	Spy   []string `json:"spy"`
}
type GObs struct {
	Class string   `json:"class"` // rej_ip rej_method unimpl passed conn_err
	Spy   []string `json:"spy"`
}
type EObs struct {
	Class  string `json:"class"` // options forbidden served conn_err
	IPGate bool   `json:"ipgate"`
	Host   string `json:"host"` // host part the gates saw (classification input)
	Split  bool   `json:"split"`
}
type Result struct {
	Err        string      `json:"err,omitempty"`
	Registered []string    `json:"registered"` // names of the alphabet that *rpc.Chain33 really has
	GTable     [][3]string `json:"gtable"`     // (service, method, unary|stream) restricted to the alphabet
	J          []JObs      `json:"j"`
	G          []GObs      `json:"g"`
	E          []EObs      `json:"e"`
	IPs        []bool      `json:"ips"`
}

// ---------- spy API ----------

type spyAPI struct {
	client.QueueProtocolAPI
	cfg   *types.Chain33Config
	mu    sync.Mutex
	calls []string
}

func (s *spyAPI) rec(n string) {
	s.mu.Lock()
	s.calls = append(s.calls, n)
	s.mu.Unlock()
}

// waitCall waits until an API call has been recorded (at most 10 s).
func (s *spyAPI) waitCall() {
	for i := 0; i < 1000; i++ {
		s.mu.Lock()
		n := len(s.calls)
		s.mu.Unlock()
		if n > 0 {
			return
		}
		time.Sleep(10 * time.Millisecond)
	}
}

func (s *spyAPI) take() []string {
	s.mu.Lock()
	defer s.mu.Unlock()
	c := s.calls
	s.calls = nil
	if c == nil {
		c = []string{}
	}
	return c
}
func (s *spyAPI) GetConfig() *types.Chain33Config { return s.cfg }
func (s *spyAPI) Close()                          {}
func (s *spyAPI) Version() (*types.VersionInfo, error) {
	s.rec("Version")
	return &types.VersionInfo{Chain33: "spy"}, nil
}
func (s *spyAPI) IsSync() (*types.Reply, error) {
	s.rec("IsSync")
	return &types.Reply{IsOk: true}, nil
}
func (s *spyAPI) GetLastHeader() (*types.Header, error) {
	s.rec("GetLastHeader")
	return &types.Header{Height: 7}, nil
}
func (s *spyAPI) CloseQueue() (*types.Reply, error) {
	s.rec("CloseQueue")
	return &types.Reply{IsOk: true}, nil
}
func (s *spyAPI) AddPushSubscribe(*types.PushSubscribeReq) (*types.ReplySubscribePush, error) {
	s.rec("SubEvent")
	return &types.ReplySubscribePush{IsOk: false, Msg: "spy"}, nil
}

// ---------- config rendering ----------

func tomlList(l []string) string {
	q := make([]string, len(l))
	for i, s := range l {
		b, _ := json.Marshal(s) // TOML basic strings accept JSON escapes for our ASCII alphabet
		q[i] = string(b)
	}
	return "[" + strings.Join(q, ",") + "]"
}

func renderToml(c Cfg) string {
	var b strings.Builder
	b.WriteString("Title=\"local\"\nTestNet=true\n\n[mempool]\nminTxFeeRate=100000\n\n[wallet]\nminFee=100000\n\n[rpc]\n")
	b.WriteString("jrpcBindAddr=\":0\"\ngrpcBindAddr=\":0\"\n")
	put := func(k string, l *[]string) {
		if l != nil {
			b.WriteString(k + "=" + tomlList(*l) + "\n")
		}
	}
	put("whitelist", c.Whitelist)
	put("whitlist", c.Whitlist)
	put("jrpcFuncWhitelist", c.JFW)
	put("grpcFuncWhitelist", c.GFW)
	put("jrpcFuncBlacklist", c.JFB)
	put("grpcFuncBlacklist", c.GFB)
	if c.User != "" {
		u, _ := json.Marshal(c.User)
		b.WriteString("jrpcUserName=" + string(u) + "\n")
	}
	if c.Pass != "" {
		p, _ := json.Marshal(c.Pass)
		b.WriteString("jrpcUserPasswd=" + string(p) + "\n")
	}
	b.WriteString("\n[rpc.sub.eth]\nenable=true\nhttpAddr=\":0\"\nhttpApi=[\"web3\"]\nwsAddr=\":0\"\nwsApi=[\"web3\"]\nweb3CliVer=\"c39spy\"\n")
	return b.String()
}

// ---------- client helpers ----------

func localTCP(host string) *net.TCPAddr {
	zone := ""
	if i := strings.Index(host, "%"); i >= 0 {
		zone = host[i+1:]
		host = host[:i]
	}
	return &net.TCPAddr{IP: net.ParseIP(host), Zone: zone}
}

func dialFrom(clientHost string, port int) (net.Conn, error) {
	d := net.Dialer{LocalAddr: localTCP(clientHost), Timeout: 3 * time.Second}
	// connect to the same (local) address: every server listens on all addresses
	return d.Dial("tcp", net.JoinHostPort(clientHost, fmt.Sprint(port)))
}

func httpClientFrom(clientHost string, port int) *http.Client {
	tr := &http.Transport{
		DialContext: func(ctx context.Context, network, addr string) (net.Conn, error) {
			return dialFrom(clientHost, port)
		},
		DisableKeepAlives:  true,
		DisableCompression: true,
	}
	return &http.Client{Transport: tr, Timeout: 5 * time.Second}
}

func classifyJ(body []byte) string {
	var resp struct {
		Error interface{} `json:"error"`
	}
	if len(bytes.TrimSpace(body)) == 0 {
		return "passed"
	}
	if err := json.Unmarshal(body, &resp); err != nil {
		return "passed"
	}
	es, _ := resp.Error.(string)
	switch {
	case strings.HasSuffix(es, "Address is not authorized!"):
		return "rej_ip"
	case es == "Unauthozied":
		return "rej_auth"
	case strings.HasSuffix(es, "method is not authorized!"):
		return "rej_method"
	case strings.HasPrefix(es, "invalid json request"):
		return "rej_parse"
	}
	return "passed"
}

func doJ(r JReq, port int, spy *spyAPI) JObs {
	spy.take()
	cl := httpClientFrom(r.Client, port)
	req, err := http.NewRequest(r.HTTPM, "http://rpc.test"+r.Path, strings.NewReader(r.Raw))
	if err != nil {
		return JObs{Class: "conn_err:" + err.Error(), Spy: []string{}}
	}
	if r.AuthH != "" {
		req.Header.Set("Authorization", r.AuthH)
	}
	if r.Gzip {
		req.Header.Set("Accept-Encoding", "gzip")
	}
	resp, err := cl.Do(req)
	if err != nil {
		return JObs{Class: "conn_err:" + err.Error(), Spy: []string{}}
	}
	defer resp.Body.Close()
	var rd io.Reader = resp.Body
	if resp.Header.Get("Content-Encoding") == "gzip" {
		if gz, err := gzip.NewReader(resp.Body); err == nil {
			rd = gz
		}
	}
	body, _ := io.ReadAll(rd)
	cls := classifyJ(body)
	if cls == "passed" && r.Wait && bytes.Contains(body, []byte(`"error":null`)) {
		spy.waitCall() // CloseQueue answers first and calls the API 100 ms later
	}
	return JObs{Class: cls, Spy: spy.take()}
}

func doG(r GReq, port int, spy *spyAPI) GObs {
	spy.take()
	ctx, cancel := context.WithTimeout(context.Background(), 5*time.Second)
	defer cancel()
	conn, err := grpc.DialContext(ctx, "passthrough:///c39", grpc.WithTransportCredentials(insecure.NewCredentials()),
		grpc.WithContextDialer(func(ctx context.Context, _ string) (net.Conn, error) { return dialFrom(r.Client, port) }))
	if err != nil {
		return GObs{Class: "conn_err:" + err.Error(), Spy: []string{}}
	}
	defer conn.Close()
	var in types.ReqNil
	var out types.ReqNil
	err = conn.Invoke(ctx, r.Full, &in, &out)
	cls := "passed"
	if err != nil {
		st, _ := status.FromError(err)
		msg := st.Message()
		switch {
		case strings.HasSuffix(msg, "Address is not authorized"):
			cls = "rej_ip"
		case strings.HasSuffix(msg, "method is not authorized"):
			cls = "rej_method"
		case st.Code().String() == "Unimplemented":
			cls = "unimpl"
		case st.Code().String() == "Unavailable" || st.Code().String() == "DeadlineExceeded":
			cls = "conn_err:" + msg
		}
	}
	if err == nil && strings.HasSuffix(r.Full, "CloseQueue") {
		spy.waitCall()
	}
	return GObs{Class: cls, Spy: spy.take()}
}

const ethBody = `{"jsonrpc":"2.0","id":1,"method":"web3_clientVersion","params":[]}`

func classifyE(code int, body []byte) string {
	switch {
	case code == http.StatusNoContent:
		return "options"
	case code == http.StatusForbidden:
		return "forbidden"
	case code == 200 && bytes.Contains(body, []byte("c39spy")):
		return "served"
	}
	return fmt.Sprintf("other:%d", code)
}

func doE(r EReq, port int, forged http.Handler) EObs {
	var o EObs
	if r.Forged != "" || r.Client == "" {
		req := httptest.NewRequest(r.HTTPM, "http://eth.test/", strings.NewReader(ethBody))
		req.Header.Set("Content-Type", "application/json")
		req.RemoteAddr = r.Forged
		w := httptest.NewRecorder()
		forged.ServeHTTP(w, req)
		o.Class = classifyE(w.Code, w.Body.Bytes())
		host, _, err := net.SplitHostPort(r.Forged)
		o.Host, o.Split = host, err == nil
	} else {
		cl := httpClientFrom(r.Client, port)
		req, _ := http.NewRequest(r.HTTPM, "http://eth.test/", strings.NewReader(ethBody))
		req.Header.Set("Content-Type", "application/json")
		resp, err := cl.Do(req)
		if err != nil {
			o.Class = "conn_err:" + err.Error()
		} else {
			body, _ := io.ReadAll(resp.Body)
			resp.Body.Close()
			o.Class = classifyE(resp.StatusCode, body)
		}
		// what a Go server reports as RemoteAddr host for this client
		o.Host, o.Split = (&net.TCPAddr{IP: localTCP(r.Client).IP, Zone: localTCP(r.Client).Zone, Port: 1}).String(), true
		o.Host, _, _ = net.SplitHostPort(o.Host)
	}
	// the IP gate of the other two endpoints, on the same host string
	o.IPGate = o.Split && rpc.CheckIPWhitelist(o.Host)
	return o
}

func runChild() {
	var job Job
	var res Result
	defer func() {
		if e := recover(); e != nil {
			res.Err = fmt.Sprint("panic: ", e)
		}
		b, _ := json.Marshal(&res)
		if p := os.Getenv("C39_RESULT"); p != "" {
			os.WriteFile(p, b, 0o644)
		} else {
			os.Stdout.Write(append(b, '\n'))
		}
	}()
	if err := json.NewDecoder(os.Stdin).Decode(&job); err != nil {
		res.Err = "decode job: " + err.Error()
		return
	}
	cfg := types.NewChain33Config(renderToml(job.Cfg))
	q := queue.New("channel")
	q.SetConfig(cfg)
	qc := q.Client()
	spy := &spyAPI{cfg: cfg}
	r := rpc.New(cfg)
	r.SetAPI(spy)
	r.SetQueueClientNoListen(qc)
	gport, jport, eport, _ := r.Listen()
	if gport == 0 || jport == 0 || eport == 0 {
		res.Err = fmt.Sprintf("listen failed: %d %d %d", gport, jport, eport)
		return
	}
	ct := reflect.TypeOf(&rpc.Chain33{})
	seen := map[string]bool{}
	for _, n := range jFns {
		if _, ok := ct.MethodByName(n); ok && !seen[n] {
			seen[n] = true
			res.Registered = append(res.Registered, n)
		}
	}
	alpha := map[string]bool{}
	for _, f := range gFulls {
		alpha[f[strings.LastIndex(f, "/")+1:]] = true
	}
	info := r.GRPC().GetServiceInfo()
	svcs := make([]string, 0, len(info))
	for s := range info {
		svcs = append(svcs, s)
	}
	sort.Strings(svcs)
	for _, s := range svcs {
		for _, m := range info[s].Methods {
			if alpha[m.Name] {
				k := "unary"
				if m.IsServerStream || m.IsClientStream {
					k = "stream"
				}
				res.GTable = append(res.GTable, [3]string{s, m.Name, k})
			}
		}
	}
	forged, ok := ethrpc.NewHTTPServer(qc, spy).(http.Handler)
	if !ok {
		res.Err = "eth server is not an http.Handler"
		return
	}
	forged.(ethrpc.ServerAPI).EnableRPC()
	for _, jr := range job.J {
		res.J = append(res.J, doJ(jr, jport, spy))
	}
	for _, gr := range job.G {
		res.G = append(res.G, doG(gr, gport, spy))
	}
	for _, er := range job.E {
		res.E = append(res.E, doE(er, eport, forged))
	}
	for _, h := range job.IPs {
		res.IPs = append(res.IPs, rpc.CheckIPWhitelist(h))
	}
}

func basic(u, p string) string {
	return "Basic " + base64.StdEncoding.EncodeToString([]byte(u+":"+p))
}
