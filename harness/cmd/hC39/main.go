// hC39: RPC access control. Generates [rpc] configurations and requests, runs
// every configuration in a fresh child process against the real JSON-RPC, gRPC
// and eth servers over real TCP from several local addresses (aliases are added
// to lo for the duration of the run), and writes one case per request.
package main

import (
	"bytes"
	"encoding/base64"
	"encoding/json"
	"fmt"
	"net"
	"os"
	"os/exec"
	"os/signal"
	"path/filepath"
	"strings"
	"sync"
	"syscall"

	"verifharness/hlib"
)

// ---------- Coq rendering ----------

func clit(s string) string { return `"` + strings.ReplaceAll(s, `"`, `""`) + `"` }

// cstr renders a string; strings of the generator alphabets are rendered as a
// reference (d k) into C39.Dict.dict (elaborating string literals is what makes
// the in-kernel evaluation slow). A CDict case checks that both copies agree.
func cstr(s string) string {
	if k, ok := dictIdx[s]; ok {
		return fmt.Sprintf("(d %d)", k)
	}
	return clit(s)
}

var dictList []string
var dictIdx = map[string]int{}

func dictAdd(ss ...string) {
	for _, s := range ss {
		if _, ok := dictIdx[s]; !ok && len(s) > 1 {
			dictIdx[s] = len(dictList)
			dictList = append(dictList, s)
		}
	}
}

func buildDict() {
	dictAdd(ipEntries...)
	dictAdd(fnEntries...)
	dictAdd(jFns...)
	for _, a := range jSvcs {
		for _, b := range jFns {
			dictAdd(a + b)
		}
	}
	dictAdd(gFulls...)
	for _, f := range forgedAddrs {
		if h, _, err := net.SplitHostPort(f); err == nil {
			dictAdd(h)
		}
	}
	for _, k := range []string{"method", "params", "id"} {
		dictAdd(k, strings.ToUpper(k), strings.ToUpper(k[:1])+k[1:])
	}
	dictAdd("jsonrpc", "2.0", "methods", "method ", "meth", "Chain33.CloseQueue", "Chain33.Version", "Chain33.IsSync", "[]",
		"types.chain33", "grpc.reflection.v1alpha.ServerReflection", "ServerReflectionInfo", "127.0.0.2", "::ffff:192.0.2.2",
		"admin", "a:b", "pw:1", "secret", "other", "px", "pw:1x", "secretx", "b:px", "b:pw:1x", "b:secretx", "b:p", "b:pw:1", "b:secret")
}

func cstrs(l []string) string {
	it := make([]string, len(l))
	for i, s := range l {
		it[i] = cstr(s)
	}
	return hlib.List(it)
}

func optList(l *[]string) []string {
	if l == nil {
		return nil
	}
	return *l
}

func coqCfg(c Cfg) string {
	return hlib.App("mkConfig", cstrs(optList(c.Whitelist)), cstrs(optList(c.Whitlist)), cstrs(optList(c.JFW)),
		cstrs(optList(c.GFW)), cstrs(optList(c.JFB)), cstrs(optList(c.GFB)), cstr(c.User), cstr(c.Pass))
}

// coqClient classifies a host string the way net.ParseIP does (the parsing oracle).
func coqClient(host string) (term string, loopback bool, kind string) {
	ip := net.ParseIP(host)
	if ip == nil {
		return hlib.App("Unparsable", cstr(host)), false, "unparsable"
	}
	if v4 := ip.To4(); v4 != nil {
		ctor, k := "V4", "v4"
		if strings.Contains(host, ":") {
			ctor, k = "V4Mapped", "v4mapped"
		}
		return hlib.App(ctor, hlib.N(uint64(v4[0])), hlib.N(uint64(v4[1])), hlib.N(uint64(v4[2])), hlib.N(uint64(v4[3]))), v4[0] == 127, k
	}
	bs := make([]string, 16)
	for i, b := range ip.To16() {
		bs[i] = hlib.N(uint64(b))
	}
	return hlib.App("V6", hlib.List(bs), cstr(host)), ip.Equal(net.IPv6loopback), "v6"
}

func coqJV(v JV) string {
	switch v.T {
	case "str":
		return hlib.App("JStr", cstr(v.S))
	case "null":
		return "JNull"
	case "numu":
		return "JNumU"
	case "numo":
		return "JNumO"
	case "arr0":
		return "JArrEmpty"
	case "arrok":
		return "JArrOk"
	case "arrbad":
		return "JArrBad"
	case "obj":
		return "JObj"
	case "bool":
		return "JBool"
	}
	panic("jv " + v.T)
}

func coqAuth(r JReq) string {
	switch r.AuthK {
	case "none":
		return "AuthNone"
	case "bad":
		return "AuthBad"
	}
	return hlib.App("AuthCreds", cstr(r.AuthU), cstr(r.AuthP))
}

func coqJreq(r JReq) string {
	body := "BBad"
	if r.BodyK == "obj" {
		fs := make([]string, len(r.Fields))
		for i, f := range r.Fields {
			fs[i] = hlib.Pair(cstr(f.K), coqJV(f.V))
		}
		body = hlib.App("BObj", hlib.List(fs))
	}
	return hlib.App("mkJreq", hlib.Bool(r.Path == "/"), coqAuth(r), body)
}

// ---------- alphabets ----------

var ipEntries = []string{"192.0.2.2", "10.39.1.1", "10.39.1.2", "10.39.2.1", "fd39::1", "fd39::2", "fd00::2",
	"192.0.2.2", "10.39.1.1", "fd39::1", // weight
	"FD39::1", "fd39:0::1", "::ffff:10.39.1.1", "fe80::39:1%lo", "127.0.0.1", "::1", "0.0.0.0", "*", "1.2.3.4", "010.39.1.1", ""}

var fnEntries = []string{"Version", "IsSync", "GetLastHeader", "CloseQueue", "SubEvent", "Version", "IsSync",
	"version", "VERSION", "Chain33.Version", "*", "Nope", "ServerReflectionInfo", ""}

var jFns = []string{"Version", "Version", "IsSync", "IsSync", "GetLastHeader", "CloseQueue", "Nope", "version", "VERSION", "*", ""}
var jSvcs = []string{"Chain33.", "Chain33.", "Chain33.", "Chain33.", "Chain33.", "Chain33.", "chain33.", "", "X.Chain33.", "Chain33.X.", "Chain33..", "."}

var gFulls = []string{"/types.chain33/Version", "/types.chain33/Version", "/types.chain33/IsSync", "/types.chain33/GetLastHeader",
	"/types.chain33/CloseQueue", "/types.chain33/SubEvent", "/types.chain33/SubEvent", "types.chain33/Version", "types.chain33/SubEvent",
	"/types.chain33/version", "/types.chain33/Nope", "/types.Chain33/Version", "/x/types.chain33/Version", "/types.chain33/x/Version",
	"/types.chain33/IsSync", "//types.chain33/Version", "/Version",
	"/grpc.reflection.v1alpha.ServerReflection/ServerReflectionInfo"}

var forgedAddrs = []string{"1.2.3.4:5", "10.39.1.1:80", "[::ffff:10.39.1.1]:5", "[::ffff:a27:101]:5", "[::ffff:127.0.0.1]:9", "127.9.9.9:1",
	"[2001:DB8::1]:1", "[FD39::1]:7", "[fd39::1]:7", "[fd39:0::1]:7", "[::1]:3", "[0:0:0:0:0:0:0:1]:3", "[fe80::1%eth0]:80", "garbage", "",
	"example.com:80", "192.0.2.2:1", "[fd00::2]:1", "0.0.0.0:1", "*:1", ":80", "010.39.1.1:1"}

// ---------- generators ----------

func genList(r *hlib.Rng, alphabet []string, pAbsent, pEmpty, pStar int) *[]string {
	x := r.Intn(100)
	switch {
	case x < pAbsent:
		return nil
	case x < pAbsent+pEmpty:
		return &[]string{}
	case x < pAbsent+pEmpty+pStar:
		return &[]string{"*"}
	}
	n := r.Range(1, 3)
	l := make([]string, n)
	for i := range l {
		l[i] = hlib.Pick(r, alphabet)
	}
	return &l
}

func sl(s ...string) *[]string { return &s }

func fixedCfgs() []Cfg {
	return []Cfg{
		{},                           // all defaults
		{Whitlist: sl("10.39.1.1")},  // list under the misspelt key only
		{Whitelist: sl("10.39.1.1")}, // same list under the proper key
		{Whitelist: sl("10.39.1.1"), Whitlist: sl("*")},
		{Whitelist: sl("*")},
		{Whitlist: sl("*")},
		{Whitelist: sl("10.39.1.2", "0.0.0.0")},
		{Whitelist: sl("192.0.2.2"), Whitlist: sl("10.39.1.1", "fd39::1")},
		{Whitelist: sl("*", "10.39.1.1")},
		{Whitlist: sl("fd39::1", "fe80::39:1%lo"), JFW: sl("Version"), GFW: sl("Version"), User: "u", Pass: "p"},
		{Whitelist: sl("192.0.2.2", "10.39.1.1", "fd39::1"), JFB: sl("Version"), GFB: sl("SubEvent", "Version")},
		{Whitelist: sl("192.0.2.2", "10.39.1.1", "fd39::1"), JFW: sl("IsSync", "*"), GFW: sl("CloseQueue"), JFB: sl("IsSync"), User: "admin"},
		{Whitelist: sl("*"), User: "u", Pass: "p"}, // every address passes the IP gate: authentication decides
		{Whitlist: sl("0.0.0.0"), User: "a:b", Pass: "pw:1"},
		{Whitelist: sl("*"), Pass: "p", JFW: sl("Version", "IsSync"), JFB: sl("IsSync")},
	}
}

func genCfg(r *hlib.Rng) Cfg {
	var c Cfg
	switch r.Intn(10) {
	case 0, 1, 2: // proper key only
		c.Whitelist = genList(r, ipEntries, 0, 5, 10)
	case 3, 4, 5: // misspelt key only
		c.Whitlist = genList(r, ipEntries, 0, 5, 10)
	default:
		c.Whitelist = genList(r, ipEntries, 25, 5, 12)
		c.Whitlist = genList(r, ipEntries, 25, 5, 20)
	}
	c.JFW = genList(r, fnEntries, 40, 3, 10)
	c.GFW = genList(r, fnEntries, 40, 3, 10)
	c.JFB = genList(r, fnEntries, 50, 3, 0)
	c.GFB = genList(r, fnEntries, 50, 3, 0)
	switch x := r.Intn(100); {
	case x < 50:
	case x < 80:
		c.User, c.Pass = hlib.Pick(r, []string{"u", "admin", "a:b"}), hlib.Pick(r, []string{"p", "pw:1", "secret"})
	case x < 90:
		c.User = "u"
	default:
		c.Pass = "p"
	}
	return c
}

func mkAuth(rq *JReq, scheme, u, p string) {
	raw := u + ":" + p
	rq.AuthH = scheme + " " + base64.StdEncoding.EncodeToString([]byte(raw))
	rq.AuthK = "creds"
	i := strings.Index(raw, ":") // what strings.SplitN(raw, ":", 2) yields
	rq.AuthU, rq.AuthP = raw[:i], raw[i+1:]
}

func genAuth(r *hlib.Rng, c Cfg, rq *JReq) {
	configured := c.User != "" || c.Pass != ""
	x := r.Intn(100)
	switch {
	case configured && x < 50:
		mkAuth(rq, "Basic", c.User, c.Pass)
	case configured && x < 56:
		mkAuth(rq, hlib.Pick(r, []string{"Bearer", "basic", "X"}), c.User, c.Pass)
	case x < 64:
		mkAuth(rq, "Basic", c.User, c.Pass+"x")
	case x < 70:
		mkAuth(rq, "Basic", "other", c.Pass)
	case x < 74:
		mkAuth(rq, "Basic", c.Pass, c.User)
	case x < 78:
		mkAuth(rq, "Basic", "", "")
	case x < 88:
		rq.AuthK = "bad"
		rq.AuthH = hlib.Pick(r, []string{"Basic", "Basic !!!", "Basic " + base64.StdEncoding.EncodeToString([]byte("nocolon")),
			"Basic  " + base64.StdEncoding.EncodeToString([]byte(c.User+":"+c.Pass)), "Basic dTpw=x"})
	default:
		rq.AuthK = "none"
	}
}

func jstr(s string, escaped bool) JV {
	b, _ := json.Marshal(s)
	raw := string(b)
	if escaped && len(s) > 0 {
		// spell every character as \u00XX
		var sb strings.Builder
		sb.WriteByte('"')
		for _, ch := range []byte(s) {
			fmt.Fprintf(&sb, `\u%04x`, ch)
		}
		sb.WriteByte('"')
		raw = sb.String()
	}
	return JV{T: "str", S: s, R: raw}
}

var (
	vNull   = JV{T: "null", R: "null"}
	vArrN   = JV{T: "arrok", R: "[null]"}
	vArrO   = JV{T: "arrok", R: "[{}]"}
	vArrOX  = JV{T: "arrok", R: `[{"x":1,"method":"Chain33.CloseQueue"}]`}
	vArr2   = JV{T: "arrok", R: "[{},{}]"}
	vArr0   = JV{T: "arr0", R: "[]"}
	vArrNum = JV{T: "arrbad", R: "[1]"}
	vArrStr = JV{T: "arrbad", R: `["s"]`}
	vObj    = JV{T: "obj", R: `{"a":[1,{"method":"x"}]}`}
	vBool   = JV{T: "bool", R: "true"}
	vNumU   = JV{T: "numu", R: "1"}
	vNumBig = JV{T: "numu", R: "18446744073709551615"}
	vNumNeg = JV{T: "numo", R: "-1"}
	vNumFl  = JV{T: "numo", R: "1.5"}
	vNumOv  = JV{T: "numo", R: "18446744073709551616"}
)

func genMethod(r *hlib.Rng) string { return hlib.Pick(r, jSvcs) + hlib.Pick(r, jFns) }

func keyCase(r *hlib.Rng, k string) string {
	switch r.Intn(4) {
	case 0:
		return strings.ToUpper(k)
	case 1:
		return strings.ToUpper(k[:1]) + k[1:]
	case 2:
		b := []byte(k)
		for i := range b {
			if r.Chance(1, 2) {
				b[i] = byte(strings.ToUpper(string(b[i]))[0])
			}
		}
		return string(b)
	}
	return k
}

func render(fs []Field) string {
	var sb strings.Builder
	sb.WriteByte('{')
	for i, f := range fs {
		if i > 0 {
			sb.WriteByte(',')
		}
		k, _ := json.Marshal(f.K)
		sb.Write(k)
		sb.WriteByte(':')
		sb.WriteString(f.V.R)
	}
	sb.WriteByte('}')
	return sb.String()
}

func genBody(r *hlib.Rng, rq *JReq) string {
	m := genMethod(r)
	mf := Field{"method", jstr(m, false)}
	pf := Field{"params", hlib.Pick(r, []JV{vArrN, vArrO})}
	idf := Field{"id", vNumU}
	fs := []Field{mf, pf, idf}
	shape := "plain"
	switch x := r.Intn(100); {
	case x < 30:
	case x < 36:
		shape = "key-case"
		fs[0].K = keyCase(r, "method")
		fs[1].K = keyCase(r, "params")
		fs[2].K = keyCase(r, "id")
	case x < 46:
		shape = "dup-method"
		m2 := Field{"method", jstr(genMethod(r), false)}
		if r.Chance(1, 2) {
			m2.K = keyCase(r, "method")
		}
		if r.Chance(1, 3) {
			fs = []Field{mf, pf, idf, m2}
		} else {
			fs = []Field{mf, m2, pf, idf}
		}
	case x < 50:
		shape = "method-null"
		if r.Chance(1, 2) {
			fs = []Field{mf, {keyCase(r, "method"), vNull}, pf, idf}
		} else {
			fs = []Field{{"method", vNull}, pf, idf}
		}
	case x < 56:
		shape = "method-type"
		bad := Field{keyCase(r, "method"), hlib.Pick(r, []JV{vNumU, vArrO, vObj, vBool})}
		if r.Chance(1, 2) {
			fs = []Field{mf, bad, pf, idf}
		} else {
			fs = []Field{bad, mf, pf, idf}
		}
	case x < 64:
		shape = "extra-fields"
		ex := []Field{{"jsonrpc", jstr("2.0", false)}, {"methods", jstr("Chain33.CloseQueue", false)}, {"method ", jstr("Chain33.Version", false)},
			{"x", vObj}, {"meth", jstr("Chain33.IsSync", false)}, {"", jstr("Chain33.IsSync", false)}}
		fs = append([]Field{hlib.Pick(r, ex)}, fs...)
		fs = append(fs, hlib.Pick(r, ex))
	case x < 76:
		shape = "params-shape"
		switch r.Intn(8) {
		case 0:
			fs = []Field{mf, idf}
		case 1:
			fs[1].V = vNull
		case 2:
			fs = []Field{mf, pf, {keyCase(r, "params"), vNull}, idf}
		case 3:
			fs = []Field{mf, {"params", vNull}, pf, idf}
		case 4:
			fs[1].V = hlib.Pick(r, []JV{vArr0, vArr2, vArrOX})
		case 5:
			fs[1].V = hlib.Pick(r, []JV{vArrNum, vArrStr})
		case 6:
			fs[1].V = hlib.Pick(r, []JV{vObj, vBool, vNumU, jstr("[]", false)})
		case 7:
			fs = []Field{mf, {"params", vArrNum}, {keyCase(r, "params"), vArrO}, idf}
		}
	case x < 84:
		shape = "id-shape"
		switch r.Intn(4) {
		case 0:
			fs = []Field{mf, pf}
		case 1:
			fs[2].V = hlib.Pick(r, []JV{vNumNeg, vNumFl, vNumOv, jstr("1", false), vBool})
		case 2:
			fs[2].V = hlib.Pick(r, []JV{vNull, vNumBig})
		case 3:
			fs = []Field{mf, pf, {"id", vNumNeg}, {keyCase(r, "id"), vNumU}}
		}
	case x < 88:
		shape = "escaped"
		fs[0].V = jstr(m, true)
	case x < 91:
		shape = "order"
		fs = []Field{idf, pf, mf}
	default:
		shape = "bad-body"
		rq.BodyK = "bad"
		good := render(fs)
		rq.Raw = hlib.Pick(r, []string{"[" + good + "]", "[" + good + "," + good + "]", good + good, good + " x", "", "{method:", good[:len(good)-1],
			"null x", `"Chain33.Version"`, "{" + good[1:len(good)-1] + ",}"})
		return shape
	}
	rq.BodyK = "obj"
	rq.Fields = fs
	rq.Raw = render(fs)
	return shape
}

func genJReq(r *hlib.Rng, c Cfg, clients []string) (JReq, string) {
	var rq JReq
	rq.Client = hlib.Pick(r, clients)
	rq.Path = "/"
	if r.Chance(1, 25) {
		rq.Path = hlib.Pick(r, []string{"/root", "//", "/x/"})
	}
	rq.HTTPM = "POST"
	if r.Chance(1, 15) {
		rq.HTTPM = hlib.Pick(r, []string{"GET", "PUT", "OPTIONS"})
	}
	rq.Gzip = r.Chance(1, 12)
	genAuth(r, c, &rq)
	shape := genBody(r, &rq)
	rq.Wait = strings.Contains(rq.Raw, "CloseQueue")
	for _, f := range rq.Fields {
		if strings.Contains(f.V.S, "CloseQueue") {
			rq.Wait = true
		}
	}
	return rq, shape
}

// ---------- IP aliases ----------

type alias struct {
	addr, cidr string
	v6         bool
}

var aliases = []alias{{"10.39.1.1", "10.39.1.1/32", false}, {"10.39.1.2", "10.39.1.2/32", false}, {"10.39.2.1", "10.39.2.1/32", false},
	{"fd39::1", "fd39::1/128", true}, {"fd39::2", "fd39::2/128", true}, {"fe80::39:1%lo", "fe80::39:1/64", true}}

func usable(host string) bool {
	l, err := net.ListenTCP("tcp", localTCP(host))
	if err != nil {
		return false
	}
	l.Close()
	return true
}

func setupAliases() (clients []string, cleanup func(), notes []string) {
	lock, err := os.OpenFile("/var/tmp/hC39-ip.lock", os.O_CREATE|os.O_RDWR, 0o600)
	if err == nil {
		syscall.Flock(int(lock.Fd()), syscall.LOCK_EX)
	}
	var added []alias
	for _, a := range aliases {
		args := []string{"addr", "add", a.cidr, "dev", "lo"}
		if a.v6 {
			args = append([]string{"-6"}, append(args, "nodad")...)
		}
		out, err := exec.Command("ip", args...).CombinedOutput()
		if err == nil || bytes.Contains(out, []byte("exists")) {
			added = append(added, a)
		} else {
			notes = append(notes, fmt.Sprintf("alias %s not added: %s", a.cidr, strings.TrimSpace(string(out))))
		}
	}
	cleanup = func() {
		for _, a := range added {
			args := []string{"addr", "del", a.cidr, "dev", "lo"}
			if a.v6 {
				args = append([]string{"-6"}, args...)
			}
			exec.Command("ip", args...).Run()
		}
		if lock != nil {
			syscall.Flock(int(lock.Fd()), syscall.LOCK_UN)
			lock.Close()
		}
	}
	cand := []string{"127.0.0.1", "127.0.0.2", "::1", "192.0.2.2", "fd00::2"}
	for _, a := range added {
		cand = append(cand, a.addr)
	}
	for _, h := range cand {
		if usable(h) {
			clients = append(clients, h)
		} else {
			notes = append(notes, "client address "+h+" not usable")
		}
	}
	return
}

// ---------- running ----------

func runJob(job *Job, dir string, idx int) (*Result, error) {
	self, err := os.Executable()
	if err != nil {
		return nil, err
	}
	resPath := filepath.Join(dir, fmt.Sprintf("child-%d.json", idx))
	in, _ := json.Marshal(job)
	cmd := exec.Command(self, "--extra", "child")
	cmd.Env = append(os.Environ(), "C39_RESULT="+resPath)
	cmd.Stdin = bytes.NewReader(in)
	var errb bytes.Buffer
	cmd.Stdout = nil
	cmd.Stderr = &errb
	if err := cmd.Run(); err != nil {
		return nil, fmt.Errorf("child %d: %v: %s", idx, err, tail(errb.String()))
	}
	b, err := os.ReadFile(resPath)
	if err != nil {
		return nil, err
	}
	os.Remove(resPath)
	var res Result
	if err := json.Unmarshal(b, &res); err != nil {
		return nil, err
	}
	if res.Err != "" {
		return nil, fmt.Errorf("child %d: %s", idx, res.Err)
	}
	if len(res.J) != len(job.J) || len(res.G) != len(job.G) || len(res.E) != len(job.E) || len(res.IPs) != len(job.IPs) {
		return nil, fmt.Errorf("child %d: short result", idx)
	}
	return &res, nil
}

func tail(s string) string {
	if len(s) > 600 {
		return s[len(s)-600:]
	}
	return s
}

type caseIn struct {
	Kind string `json:"kind"` // j g e ip
	Cfg  Cfg    `json:"cfg"`
	J    *JReq  `json:"j,omitempty"`
	G    *GReq  `json:"g,omitempty"`
	E    *EReq  `json:"e,omitempty"`
	IP   string `json:"ip,omitempty"`
}

var jcls = map[string]string{"rej_ip": "OJRejIP", "rej_auth": "OJRejAuth", "rej_method": "OJRejMethod", "rej_parse": "OJRejParse", "passed": "OJPassed"}
var gcls = map[string]string{"rej_ip": "OGRejIP", "rej_method": "OGRejMethod", "unimpl": "OGUnimpl", "passed": "OGPassed"}
var ecls = map[string]string{"options": "OEOptions", "forbidden": "OEForbidden", "served": "OEServed"}

func cfgKind(c Cfg) string {
	wl, wh := len(optList(c.Whitelist)) > 0, len(optList(c.Whitlist)) > 0
	switch {
	case wl && wh:
		return "both"
	case wl:
		return "whitelist"
	case wh:
		return "whitlist"
	}
	return "nolist"
}

func emitAll(o *hlib.Out, job *Job, res *Result, shapes []string, replay bool) error {
	cc := coqCfg(job.Cfg)
	ck := cfgKind(job.Cfg)
	gt := make([]string, len(res.GTable))
	for i, e := range res.GTable {
		gt[i] = hlib.Pair(hlib.Pair(cstr(e[0]), cstr(e[1])), hlib.Bool(e[2] == "stream"))
	}
	for i, rq := range job.J {
		ob := res.J[i]
		cls, ok := jcls[ob.Class]
		if !ok {
			return fmt.Errorf("jsonrpc request %d from %s: %s", i, rq.Client, ob.Class)
		}
		ct, lb, ak := coqClient(rq.Client)
		kind := "jrpc/" + shapes[i]
		if replay {
			kind = "replay"
		}
		_ = ak
		r := rq
		o.Emit(kind, !lb && (ob.Class != "rej_ip"), hlib.App("CJ", cc, cstrs(res.Registered), ct, coqJreq(rq), cls, cstrs(ob.Spy)),
			caseIn{Kind: "j", Cfg: job.Cfg, J: &r}, ob)
	}
	for i, rq := range job.G {
		ob := res.G[i]
		cls, ok := gcls[ob.Class]
		if !ok {
			return fmt.Errorf("grpc request %d from %s %s: %s", i, rq.Client, rq.Full, ob.Class)
		}
		ct, lb, _ := coqClient(rq.Client)
		kind := "grpc/" + ck
		if replay {
			kind = "replay"
		}
		r := rq
		o.Emit(kind, !lb, hlib.App("CG", cc, hlib.List(gt), ct, cstr(rq.Full), cls, cstrs(ob.Spy)),
			caseIn{Kind: "g", Cfg: job.Cfg, G: &r}, ob)
	}
	for i, rq := range job.E {
		ob := res.E[i]
		cls, ok := ecls[ob.Class]
		if !ok {
			return fmt.Errorf("eth request %d %+v: %s", i, rq, ob.Class)
		}
		remote, lb, ak := "None", false, "nosplit"
		if ob.Split {
			var ct string
			ct, lb, ak = coqClient(ob.Host)
			remote = "(Some " + ct + ")"
		}
		kind := "eth/" + ck + "/" + ak
		if rq.Forged != "" || rq.Client == "" {
			kind = "eth-forged/" + ck + "/" + ak
		}
		if replay {
			kind = "replay"
		}
		r := rq
		o.Emit(kind, !lb && rq.HTTPM != "OPTIONS", hlib.App("CE", cc, hlib.Bool(rq.HTTPM == "OPTIONS"), remote, cls, hlib.Bool(ob.IPGate)),
			caseIn{Kind: "e", Cfg: job.Cfg, E: &r}, ob)
	}
	for i, h := range job.IPs {
		ct, lb, ak := coqClient(h)
		kind := "ipgate/" + ak
		if replay {
			kind = "replay"
		}
		o.Emit(kind, !lb, hlib.App("CI", cc, ct, hlib.Bool(res.IPs[i])), caseIn{Kind: "ip", Cfg: job.Cfg, IP: h}, res.IPs[i])
	}
	return nil
}

func main() {
	opts := hlib.ParseFlags()
	if opts.Extra == "child" {
		runChild()
		return
	}
	buildDict()
	if opts.Extra == "dict" { // prints coq/theories/C39/Dict.v
		fmt.Println("(** C39 — GENERATED by `hC39 --extra dict`: the generator alphabets, so that cases can refer to\n    strings by index.  A CDict case in every run checks that this copy equals the harness's. *)")
		fmt.Println("From Coq Require Import List String.\nImport ListNotations.\nOpen Scope string_scope.\n")
		fmt.Println("Definition dict : list string := [")
		for i, s := range dictList {
			sep := ";"
			if i == len(dictList)-1 {
				sep = ""
			}
			fmt.Printf("  %s%s\n", clit(s), sep)
		}
		fmt.Println("].\n\nDefinition d (k : nat) : string := nth k dict \"\".")
		return
	}
	o := hlib.NewOut(opts.OutDir)
	defer o.Close()
	clients, cleanup, notes := setupAliases()
	defer cleanup()
	sig := make(chan os.Signal, 1)
	signal.Notify(sig, syscall.SIGINT, syscall.SIGTERM)
	go func() { <-sig; cleanup(); os.Exit(2) }()
	for _, n := range notes {
		fmt.Println("hC39: note:", n)
	}
	fmt.Println("hC39: client addresses:", strings.Join(clients, " "))

	if opts.Replay != "" {
		var in caseIn
		if err := hlib.ReplayInput(opts.Replay, &in); err != nil {
			cleanup()
			panic(err)
		}
		job := &Job{Cfg: in.Cfg}
		switch in.Kind {
		case "j":
			job.J = []JReq{*in.J}
		case "g":
			job.G = []GReq{*in.G}
		case "e":
			job.E = []EReq{*in.E}
		case "ip":
			job.IPs = []string{in.IP}
		case "dict":
			lits := make([]string, len(dictList))
			for i, s := range dictList {
				lits[i] = clit(s)
			}
			o.Emit("replay", false, hlib.App("CDict", hlib.List(lits)), caseIn{Kind: "dict"}, len(dictList))
			return
		}
		res, err := runJob(job, opts.OutDir, 0)
		if err != nil {
			cleanup()
			fmt.Println("hC39:", err)
			os.Exit(1)
		}
		if err := emitAll(o, job, res, []string{"replay"}, true); err != nil {
			cleanup()
			fmt.Println("hC39:", err)
			os.Exit(1)
		}
		return
	}

	{
		lits := make([]string, len(dictList))
		for i, s := range dictList {
			lits[i] = clit(s)
		}
		o.Emit("dict", false, hlib.App("CDict", hlib.List(lits)), caseIn{Kind: "dict"}, len(dictList))
	}
	r := hlib.NewRng(opts.Seed)
	ncfg, nj, ng, ne, nip := 60, 24, 12, 8, 4
	nsm, nsd := 4, 16 // smuggle stream: per suitable configuration / per dedicated configuration
	if opts.Thorough() {
		ncfg, nj, ng, ne, nip = 400, 40, 20, 12, 6
		nsm, nsd = 8, 80
	}
	rs := hlib.NewRng(opts.Seed + 0x39000) // own generator: the other streams stay as they were
	cfgs := fixedCfgs()
	for len(cfgs) < ncfg {
		cfgs = append(cfgs, genCfg(r))
	}
	jobs := make([]*Job, len(cfgs))
	shapes := make([][]string, len(cfgs))
	for ci, c := range cfgs {
		job := &Job{Cfg: c}
		for i := 0; i < nj; i++ {
			rq, sh := genJReq(r, c, clients)
			job.J = append(job.J, rq)
			shapes[ci] = append(shapes[ci], sh)
		}
		if aim, ok := aimOf(c, clients); ok {
			for i := 0; i < nsm; i++ {
				rq, sh := genSmuggle(rs, c, aim)
				job.J = append(job.J, rq)
				shapes[ci] = append(shapes[ci], sh)
			}
		}
		for i := 0; i < ng; i++ {
			job.G = append(job.G, GReq{Client: hlib.Pick(r, clients), Full: hlib.Pick(r, gFulls)})
		}
		// eth: every real client address once (POST), a few OPTIONS/GET, and forged addresses
		for _, cl := range clients {
			job.E = append(job.E, EReq{Client: cl, HTTPM: "POST"})
		}
		for i := 0; i < ne; i++ {
			m := "POST"
			if r.Chance(1, 8) {
				m = hlib.Pick(r, []string{"OPTIONS", "GET"})
			}
			if r.Chance(1, 4) {
				job.E = append(job.E, EReq{Client: hlib.Pick(r, clients), HTTPM: m})
			} else {
				job.E = append(job.E, EReq{Forged: hlib.Pick(r, forgedAddrs), HTTPM: m})
			}
		}
		for i := 0; i < nip; i++ {
			h, _, err := net.SplitHostPort(hlib.Pick(r, forgedAddrs))
			if err != nil {
				h = hlib.Pick(r, []string{"::ffff:192.0.2.2", "192.0.2.2", "fd39::1"})
			}
			job.IPs = append(job.IPs, h)
		}
		jobs[ci] = job
	}
	for _, c := range smuggleCfgs() {
		aim, ok := aimOf(c, clients)
		if !ok {
			continue
		}
		job := &Job{Cfg: c}
		var shs []string
		job.J, shs = canonicalSmuggle(c, aim)
		for i := 0; i < nsd; i++ {
			rq, sh := genSmuggle(rs, c, aim)
			job.J = append(job.J, rq)
			shs = append(shs, sh)
		}
		cfgs, jobs, shapes = append(cfgs, c), append(jobs, job), append(shapes, shs)
	}
	results := make([]*Result, len(jobs))
	errs := make([]error, len(jobs))
	sem := make(chan struct{}, 4)
	var wg sync.WaitGroup
	for i := range jobs {
		wg.Add(1)
		sem <- struct{}{}
		go func(i int) {
			defer wg.Done()
			defer func() { <-sem }()
			results[i], errs[i] = runJob(jobs[i], opts.OutDir, i)
			if errs[i] != nil { // one retry (port exhaustion, slow start)
				results[i], errs[i] = runJob(jobs[i], opts.OutDir, i)
			}
		}(i)
	}
	wg.Wait()
	for i := range jobs {
		if errs[i] != nil {
			cleanup()
			fmt.Println("hC39:", errs[i])
			os.Exit(1)
		}
		if err := emitAll(o, jobs[i], results[i], shapes[i], false); err != nil {
			cleanup()
			o.Close()
			fmt.Println("hC39:", err)
			os.Exit(1)
		}
	}
	fmt.Printf("hC39: %d configurations, %d cases\n", len(cfgs), o.Count())
}
