package main

// Directed JSON-RPC stream "smuggle": request objects that carry SEVERAL keys
// folding to "method" (method / Method / METHOD / mixed case, both orders, exact
// duplicates, a trailing null), whose values differ in permission: one method
// the function lists allow for the client, one they forbid (blacklisted or not
// whitelisted).  Sent only from non-loopback clients that pass the IP gate, with
// valid credentials, to configurations whose function lists are non-trivial.
// The gate (rpc.parseJSONRpcParams) and the dispatcher (net/rpc/jsonrpc) decode
// the body separately: whenever they pick different keys, a forbidden method is
// seen by the spy, which the spec oracle (may_run) flags on that very request.
//
// The policy computed here only AIMS the stream (which name is sent as allowed,
// which as forbidden); verdicts come from the Coq model and spec.

import (
	"net"
	"strings"

	"verifharness/hlib"
)

var smuggleFns = []string{"Version", "IsSync", "GetLastHeader", "CloseQueue"}

// spellings of the key; "method" (what the gate's struct tag says) is weighted
var methodKeys = []string{"method", "method", "method", "Method", "METHOD", "mEthod", "methoD", "MeThOd"}

func has(l []string, s string) bool {
	for _, x := range l {
		if x == s {
			return true
		}
	}
	return false
}

func isStarList(l []string) bool { return len(l) == 1 && l[0] == "*" }

// fnSplit: registered methods the JSON-RPC function lists allow / forbid.
func fnSplit(c Cfg) (allowed, forbidden []string) {
	jb, jw := optList(c.JFB), optList(c.JFW)
	if len(jb) == 0 {
		jb = []string{"CloseQueue"}
	}
	if len(jw) == 0 {
		jw = []string{"*"}
	}
	for _, fn := range smuggleFns {
		if !has(jb, fn) && (has(jw, "*") || has(jw, fn)) {
			allowed = append(allowed, fn)
		} else {
			forbidden = append(forbidden, fn)
		}
	}
	return
}

// gatedClients: non-loopback client addresses that the IP whitelist admits.
func gatedClients(c Cfg, clients []string) []string {
	wl, wh := optList(c.Whitelist), optList(c.Whitlist)
	var ipl []string
	switch {
	case len(wl) == 0 && len(wh) == 0:
		ipl = []string{"127.0.0.1"}
	case isStarList(wl) || isStarList(wh):
		ipl = []string{"0.0.0.0"}
	case len(wl) > 0:
		ipl = wl
	default:
		ipl = wh
	}
	var out []string
	for _, h := range clients {
		if ip := net.ParseIP(h); ip != nil && ip.IsLoopback() {
			continue
		}
		if has(ipl, "0.0.0.0") || has(ipl, h) {
			out = append(out, h)
		}
	}
	return out
}

type smuggleAim struct {
	allowed, forbidden, clients []string
}

func aimOf(c Cfg, clients []string) (smuggleAim, bool) {
	a, f := fnSplit(c)
	g := gatedClients(c, clients)
	return smuggleAim{a, f, g}, len(a) > 0 && len(f) > 0 && len(g) > 0
}

type mkv struct {
	k     string
	v     string // "A" allowed name, "F" forbidden name, "null"
	atEnd bool   // placed after params and id
}

func smuggleReq(c Cfg, client, a, f string, ms []mkv) (JReq, string) {
	var rq JReq
	rq.Client, rq.Path, rq.HTTPM = client, "/", "POST"
	rq.AuthK = "none"
	if c.User != "" || c.Pass != "" {
		mkAuth(&rq, "Basic", c.User, c.Pass)
	}
	var head, tailf []Field
	exact, last, keys := true, "", []string{}
	for _, m := range ms {
		var v JV
		switch m.v {
		case "A":
			v = jstr("Chain33."+a, false)
		case "F":
			v = jstr("Chain33."+f, false)
		default:
			v = vNull
		}
		if m.v != "null" && !m.atEnd {
			last = m.v
		}
		if m.k != ms[0].k {
			exact = false
		}
		keys = append(keys, m.k)
		if m.atEnd {
			tailf = append(tailf, Field{m.k, v})
		} else {
			head = append(head, Field{m.k, v})
		}
	}
	for _, m := range ms {
		if m.v != "null" && m.atEnd {
			last = m.v
		}
	}
	fs := append(head, Field{"params", vArrO}, Field{"id", vNumU})
	fs = append(fs, tailf...)
	rq.BodyK, rq.Fields, rq.Raw = "obj", fs, render(fs)
	rq.Wait = strings.Contains(rq.Raw, "CloseQueue")
	shape := "smuggle-case"
	if exact {
		shape = "smuggle-exact"
	}
	if len(ms) > 2 {
		shape += "3"
	}
	return rq, shape + "-last" + last
}

// the spellings every client library / attacker would try first
func canonicalSmuggle(c Cfg, aim smuggleAim) (rqs []JReq, shapes []string) {
	a, f, cl := aim.allowed[0], aim.forbidden[0], aim.clients[0]
	add := func(ms ...mkv) {
		rq, sh := smuggleReq(c, cl, a, f, ms)
		rqs, shapes = append(rqs, rq), append(shapes, sh)
	}
	add(mkv{"method", "A", false}) // the lists are in force: A runs, F is refused
	add(mkv{"method", "F", false})
	add(mkv{"method", "A", false}, mkv{"Method", "F", false})
	add(mkv{"Method", "F", false}, mkv{"method", "A", false})
	add(mkv{"method", "F", false}, mkv{"Method", "A", false})
	add(mkv{"METHOD", "A", false}, mkv{"method", "F", false})
	add(mkv{"method", "A", false}, mkv{"METHOD", "F", true})
	add(mkv{"Method", "A", false}, mkv{"METHOD", "F", false})
	add(mkv{"method", "A", false}, mkv{"method", "F", false})
	add(mkv{"method", "F", false}, mkv{"method", "A", false})
	add(mkv{"method", "A", false}, mkv{"Method", "F", false}, mkv{"METHOD", "null", false})
	return
}

func genSmuggle(r *hlib.Rng, c Cfg, aim smuggleAim) (JReq, string) {
	a, f, cl := hlib.Pick(r, aim.allowed), hlib.Pick(r, aim.forbidden), hlib.Pick(r, aim.clients)
	n := 2
	if r.Chance(1, 4) {
		n = 3
	}
	ms := make([]mkv, n)
	exact := r.Chance(1, 6)
	k0 := hlib.Pick(r, methodKeys)
	startA := r.Chance(1, 2)
	for i := range ms {
		ms[i].k = k0
		if !exact {
			ms[i].k = hlib.Pick(r, methodKeys)
		}
		if (i%2 == 0) == startA {
			ms[i].v = "A"
		} else {
			ms[i].v = "F"
		}
	}
	if !exact && ms[0].k == ms[1].k { // two different spellings at least
		for ms[1].k == ms[0].k {
			ms[1].k = hlib.Pick(r, methodKeys)
		}
	}
	if r.Chance(1, 3) {
		ms[n-1].atEnd = true
	}
	if r.Chance(1, 8) {
		ms = append(ms, mkv{hlib.Pick(r, methodKeys), "null", r.Chance(1, 2)})
	}
	return smuggleReq(c, cl, a, f, ms)
}

// configurations dedicated to this stream: non-trivial function lists, several
// non-loopback clients admitted
func smuggleCfgs() []Cfg {
	return []Cfg{
		{Whitelist: sl("192.0.2.2", "10.39.1.1", "fd39::1"), JFW: sl("IsSync", "Version"), JFB: sl("Version")},
		{Whitelist: sl("*"), JFB: sl("IsSync", "GetLastHeader")},
		{Whitlist: sl("10.39.1.1", "10.39.1.2", "fd39::2", "192.0.2.2"), JFW: sl("GetLastHeader")},
		{Whitelist: sl("0.0.0.0"), JFW: sl("Version", "GetLastHeader", "CloseQueue"), JFB: sl("CloseQueue", "GetLastHeader"), User: "admin", Pass: "secret"},
		{Whitelist: sl("192.0.2.2", "fd00::2", "10.39.2.1"), JFW: sl("*"), JFB: sl("Version")},
	}
}
