// TransactionCache part of hC19: the transaction alphabet with its oracle
// description, and the calls on wrapper objects / bare transactions.
package main

import (
	"bytes"
	"fmt"

	"github.com/33cn/chain33/common/address"
	"github.com/33cn/chain33/common/crypto"
	"github.com/33cn/chain33/types"
	"verifharness/hlib"
)

// memDesc: oracle description of one (member) transaction.
type memDesc struct {
	Chain, Fee int64
	Units      int64 // -1 = ErrTxMsgSizeTooBig
	Sig        int   // -1 = no signature, else index into tcSigs
	Title      int   // -1 = no para title
	Para       bool
}

// txDesc: oracle description of a wrapped transaction.
type txDesc struct {
	Shape string // err | single | group
	Err   string
	Ms    []memDesc
	St    string // verdict of the structural loop of CheckWithFork
}

type sigDesc struct {
	Ty  int64
	Okv bool
	Fok bool // a sender address can be derived from (address id of Ty, public key)
}

// senderDerivable: the address id of the sign type has a registered driver and
// the driver converts the key (oracle for Transaction.fromAddr, 909acb0).
func senderDerivable(ty int32, pub []byte) (ok bool) {
	d, err := address.LoadDriver((ty>>12)&7, -1)
	if err != nil {
		return false
	}
	defer func() {
		if recover() != nil {
			ok = false
		}
	}()
	d.PubKeyToAddr(pub)
	return true
}

var tcTxs []*types.Transaction
var tcDesc []txDesc
var tcSigs []sigDesc
var tcTitles = map[string]int{}
var tcChain int64

const cryptoIDMask = 0x3fff8fff

func classifyT(e error) string {
	switch e {
	case nil:
		return "TNil"
	case types.ErrTxGroupCount:
		return "TGroupCount"
	case types.ErrNomalTx:
		return "TNormalTx"
	case types.ErrTxChainID:
		return "TChainID"
	case types.ErrTxFeeTooLow:
		return "TFeeLow"
	case types.ErrTxFeeTooHigh:
		return "TFeeHigh"
	case types.ErrTxMsgSizeTooBig:
		return "TTooBig"
	case types.ErrTxGroupCountLessThanTwo:
		return "TLessThanTwo"
	case types.ErrTxGroupParaCount:
		return "TParaCount"
	case types.ErrTxGroupParaMainMixed:
		return "TParaMixed"
	case types.ErrTxGroupFeeNotZero:
		return "TFeeNotZero"
	case types.ErrTxGroupHeader:
		return "TGroupHeader"
	case types.ErrTxGroupCountBigThanMaxSize:
		return "TCountBig"
	case types.ErrTxGroupNext:
		return "TGroupNext"
	}
	return "TOther"
}

// structVerdict recomputes the header/count/next loop of CheckWithFork
// (independent of height and fee arguments).
func structVerdict(txs []*types.Transaction) string {
	for i := range txs {
		if i == 0 {
			if !bytes.Equal(txs[0].Hash(), txs[0].Header) {
				return "TGroupHeader"
			}
		} else if !bytes.Equal(txs[0].Header, txs[i].Header) {
			return "TGroupHeader"
		}
		if txs[i].GroupCount > types.MaxTxGroupSize {
			return "TCountBig"
		}
		if txs[i].GroupCount != int32(len(txs)) {
			return "TGroupCount"
		}
		if i < len(txs)-1 {
			if !bytes.Equal(txs[i].Next, txs[i+1].Hash()) {
				return "TGroupNext"
			}
		} else if txs[i].Next != nil {
			return "TGroupNext"
		}
	}
	return "TNil"
}

func describeMember(tx *types.Transaction) memDesc {
	m := memDesc{Chain: int64(tx.ChainID), Fee: tx.Fee, Units: -1, Sig: -1, Title: -1}
	if u, err := tx.GetRealFee(1); err == nil {
		m.Units = u
	}
	if sg := tx.GetSignature(); sg != nil {
		okv := false
		name := crypto.GetName(int(sg.Ty & cryptoIDMask))
		if c, err := crypto.Load(name, -1); err == nil {
			cp := types.CloneTx(tx)
			cp.Signature = nil
			okv = c.Validate(types.Encode(cp), sg.Pubkey, sg.Signature) == nil
		}
		m.Sig = len(tcSigs)
		tcSigs = append(tcSigs, sigDesc{int64(sg.Ty), okv, senderDerivable(sg.Ty, sg.Pubkey)})
	}
	if t, ok := types.GetParaExecTitleName(string(tx.Execer)); ok {
		if _, seen := tcTitles[t]; !seen {
			tcTitles[t] = len(tcTitles)
		}
		m.Title = tcTitles[t]
	}
	m.Para = types.IsParaExecName(string(tx.Execer))
	return m
}

func describeTx(tx *types.Transaction) txDesc {
	g, err := tx.GetTxGroup()
	if err != nil {
		return txDesc{Shape: "err", Err: classifyT(err)}
	}
	if g == nil {
		return txDesc{Shape: "single", Ms: []memDesc{describeMember(tx)}}
	}
	d := txDesc{Shape: "group", St: structVerdict(g.Txs)}
	feesZero := true
	for i, m := range g.Txs {
		d.Ms = append(d.Ms, describeMember(m))
		if i > 0 && m.Fee != 0 {
			feesZero = false
		}
	}
	// cross-check the recomputed structural verdict with the real loop where the
	// real code reaches it without any argument-dependent check in front
	if len(g.Txs) >= 2 && feesZero {
		real := classifyT(g.CheckWithFork(chainCfg, false, false, 0, 0, 0))
		if real != d.St && real != "TChainID" {
			panic(fmt.Sprintf("structural verdict mismatch: %s vs %s", real, d.St))
		}
	}
	return d
}

type signer struct {
	ty   int32
	priv crypto.PrivKey
}

func setupTc() {
	tcChain = int64(chainCfg.GetChainID())
	chainCfg.SetFork(types.ForkTxChainIDStrict, types.MaxHeight)
	load := func(name, tag string, n int) crypto.PrivKey {
		c, err := crypto.Load(name, -1)
		if err != nil {
			panic(err)
		}
		p, err := c.PrivKeyFromBytes(detBytes(tag, n))
		if err != nil {
			panic(err)
		}
		return p
	}
	secp := load("secp256k1", "secp0", 32)
	secp2 := load("secp256k1", "secp1", 32)
	var ed crypto.PrivKey
	func() {
		defer func() {
			if recover() != nil {
				ed = load("ed25519", "ed", 32)
			}
		}()
		ed = load("ed25519", "ed", 64)
	}()
	sm := load("sm2", "sm2", 32)
	sSecp := signer{types.SECP256K1, secp}
	sEd := signer{types.ED25519, ed}
	nonce := int64(100)
	mk := func(execer string, plen int, fee int64, chain int64) *types.Transaction {
		nonce++
		return &types.Transaction{Execer: []byte(execer), Payload: detBytes(fmt.Sprintf("tcp%d", nonce), plen),
			Fee: fee, Nonce: nonce, To: addrs[0], ChainID: int32(chain)}
	}
	signed := func(tx *types.Transaction, s signer) *types.Transaction {
		tx.Sign(s.ty, s.priv)
		return tx
	}
	add := func(tx *types.Transaction) { tcTxs = append(tcTxs, tx) }

	// --- single transactions ---
	add(signed(mk("none", 20, 100000, tcChain), sSecp))                        // 0 fee = 1 unit * 1e5
	add(signed(mk("none", 20, 99999, tcChain), sSecp))                         // 1 one below
	add(signed(mk("none", 1500, 250000, tcChain), sSecp))                      // 2 two units
	add(signed(mk("none", 20, 20000000, tcChain), sSecp))                      // 3 above maxfee 1e7
	add(signed(mk("none", 20, 1000000, tcChain+1), sSecp))                     // 4 foreign chain id
	add(signed(mk("none", 20, 1000000, tcChain), sEd))                         // 5 ed25519
	t6 := signed(mk("none", 20, 1000000, tcChain), signer{types.SECP256K1, secp2}) // 6 tampered
	t6.Payload = detBytes("tampered", 20)
	add(t6)
	add(mk("none", 20, 1000000, tcChain))                                      // 7 unsigned
	add(signed(mk("none", types.MaxTxSize+1, 1000000, tcChain), sSecp))        // 8 oversize
	add(signed(mk("none", 20, 1000000, tcChain), signer{999, secp}))           // 9 unknown sign type
	t10 := mk("none", 20, 1000000, tcChain)                                    // 10 "none" crypto driver
	t10.Signature = &types.Signature{Ty: 10, Pubkey: detBytes("nonepub", 33), Signature: detBytes("nonesig", 64)}
	add(t10)
	add(signed(mk("none", 20, 1000000, tcChain), signer{types.SM2, sm}))       // 11 sm2
	add(signed(mk("none", 20, 1000000, tcChain), signer{2<<12 | types.SECP256K1, secp})) // 12 address id 2
	add(signed(mk("none", 20, 1000000, tcChain), signer{0x40000001, secp}))    // 13 bit 30 is masked away
	add(signed(mk("none", 20, 1000000, tcChain), signer{0x8001, secp}))        // 14 bit 15 is kept: unknown
	add(signed(mk("none", 20, 0, tcChain), sSecp))                             // 15 fee 0
	// --- GetTxGroup fails ---
	t16 := signed(mk("none", 20, 1000000, tcChain), sSecp)
	t16.GroupCount = 1
	add(t16) // 16
	t17 := signed(mk("none", 20, 1000000, tcChain), sSecp)
	t17.Header = []byte("x")
	add(t17) // 17 ErrNomalTx
	t18 := signed(mk("none", 20, 1000000, tcChain), sSecp)
	t18.GroupCount, t18.Header = 2, []byte{0xff, 0xff, 0xff}
	add(t18) // 18 decode error
	t19 := signed(mk("none", 20, 1000000, tcChain), sSecp)
	t19.GroupCount = 21
	add(t19) // 19
	t20 := signed(mk("none", 20, 1000000, tcChain), sSecp)
	t20.GroupCount = 2
	add(t20) // 20 empty header: a group without members

	// --- groups ---
	group := func(rate int64, signers []signer, txs ...*types.Transaction) *types.Transactions {
		g, err := types.CreateTxGroup(txs, rate)
		if err != nil {
			panic(err)
		}
		for i, s := range signers {
			if s.priv != nil {
				g.SignN(i, s.ty, s.priv)
			}
		}
		return g
	}
	n := func() *types.Transaction { return mk("none", 20, 0, tcChain) }
	g21 := group(100000, []signer{sSecp, sSecp}, n(), n())
	add(g21.Tx()) // 21 valid group of two
	g22 := group(100000, []signer{sSecp, sEd, sSecp}, n(), n(), n())
	add(g22.Tx()) // 22 secp, ed, secp
	g23 := group(100000, []signer{sSecp, sSecp}, n(), n())
	g23.Txs[1].Signature.Signature = detBytes("badsig", len(g23.Txs[1].Signature.Signature))
	add(g23.Tx()) // 23 second signature bad
	g24 := group(100000, []signer{sSecp, sSecp}, n(), n())
	g24.Txs[1].Fee = 5
	g24.SignN(1, types.SECP256K1, secp)
	add(g24.Tx()) // 24 member fee not zero (and hashes broken)
	g25 := group(100000, []signer{sSecp, sSecp}, n(), n())
	g25.Txs[0].Next = detBytes("next", 32)
	add(g25.Tx()) // 25 structural error
	g26 := group(100000, []signer{sSecp, sSecp}, n(), mk("none", 20, 0, tcChain+1))
	add(g26.Tx()) // 26 member with a foreign chain id
	g27 := group(100000, []signer{sSecp, sSecp}, mk("user.p.foo.none", 20, 0, tcChain), mk("user.p.foo.none", 20, 0, tcChain))
	add(g27.Tx()) // 27 para group, one title
	g28 := group(100000, []signer{sSecp, sSecp}, mk("user.p.foo.none", 20, 0, tcChain), mk("user.p.bar.none", 20, 0, tcChain))
	add(g28.Tx()) // 28 two titles
	g29 := group(100000, []signer{sSecp, sSecp}, mk("user.p.foo.none", 20, 0, tcChain), n())
	add(g29.Tx()) // 29 para + main chain
	g30 := group(100000, []signer{{}, {}}, n(), n())
	g30.Txs[0].Fee = 20000000
	g30.RebuiltGroup()
	g30.SignN(0, types.SECP256K1, secp)
	g30.SignN(1, types.SECP256K1, secp)
	add(g30.Tx()) // 30 head fee above maxfee
	g31 := group(100000, []signer{sSecp, sSecp}, n(), mk("none", 1500, 0, tcChain))
	add(g31.Tx()) // 31 three fee units
	g32 := group(100000, []signer{sSecp, sSecp}, mk("user.p.foo.none", 20, 0, tcChain), mk("user.p.foo", 20, 0, tcChain))
	add(g32.Tx()) // 32 para name without title next to a titled one
	one := signed(mk("none", 20, 1000000, tcChain), sSecp)
	one.GroupCount = 2
	w33 := types.CloneTx(one)
	w33.Header = types.Encode(&types.Transactions{Txs: []*types.Transaction{one}})
	add(w33) // 33 "group" of one member
	g34 := group(100000, []signer{sSecp, {types.SM2, sm}}, n(), n())
	add(g34.Tx()) // 34 secp + sm2

	// --- sign types whose address id yields no sender address (909acb0): valid signatures, refused ---
	add(signed(mk("none", 20, 1000000, tcChain), signer{3<<12 | types.SECP256K1, secp})) // 35 utxo driver: "implement me"
	add(signed(mk("none", 20, 1000000, tcChain), signer{6<<12 | types.SECP256K1, secp})) // 36 no driver registered
	g37 := group(100000, []signer{sSecp, {6<<12 | types.SECP256K1, secp}}, n(), n())
	add(g37.Tx()) // 37 group with such a member

	for _, tx := range tcTxs {
		tcDesc = append(tcDesc, describeTx(tx))
	}
	// the oracle computation above converted public keys through the drivers: give
	// the process (also a "fresh process" child) back the empty caches it started with
	resetCaches(Cfg{Cap: defaultCap, PCap: defaultCap})
}

// bareSign: the memo-free composition TransactionCache.CheckSign memoises.
func bareSign(tx *types.Transaction, h int64) bool {
	g, err := tx.GetTxGroup()
	if err != nil {
		return false
	}
	if g == nil {
		return tx.CheckSign(h)
	}
	return g.CheckSign(h)
}

func feeAnswer(v int64, err error) answer {
	if err != nil {
		return answer{"fee", classifyT(err) + " 0"}
	}
	return answer{"fee", fmt.Sprintf("TNil %d", v)}
}

// runTop runs one call; objs = the wrapper objects of this history.
func runTop(o Op, objs []*types.TransactionCache) (res answer) {
	defer func() {
		if r := recover(); r != nil {
			res = answer{Kind: "panic"}
		}
	}()
	switch o.K {
	case "tcheck":
		return answer{"terr", classifyT(objs[o.A].Check(chainCfg, o.H, o.Min, o.Max))}
	case "tsign":
		return answer{"bool", hlib.Bool(objs[o.A].CheckSign(o.H))}
	case "tfee":
		return feeAnswer(objs[o.A].GetTotalFee(o.Min))
	case "xcheck":
		return answer{"terr", classifyT(tcTxs[o.A].Check(chainCfg, o.H, o.Min, o.Max))}
	case "xsign":
		return answer{"bool", hlib.Bool(bareSign(tcTxs[o.A], o.H))}
	}
	panic("unknown op " + o.K)
}

// freshTop: the same call on a fresh wrapper and through the memo-free function.
func freshTop(o Op, objTx []int) []answer {
	wrap := func() []*types.TransactionCache {
		ws := make([]*types.TransactionCache, len(objTx))
		for i, t := range objTx {
			ws[i] = types.NewTransactionCache(tcTxs[t])
		}
		return ws
	}
	out := []answer{runTop(o, wrap())}
	switch o.K {
	case "tcheck":
		out = append(out, runTop(Op{K: "xcheck", A: objTx[o.A], H: o.H, Min: o.Min, Max: o.Max}, nil))
	case "tsign":
		out = append(out, runTop(Op{K: "xsign", A: objTx[o.A], H: o.H}, nil))
	}
	return out
}

func isTop(k string) bool {
	return k == "tcheck" || k == "tsign" || k == "tfee" || k == "xcheck" || k == "xsign"
}
