// TransactionCache part of hC19: running, emitting and generating histories.
package main

import (
	"fmt"
	"strings"

	"github.com/33cn/chain33/types"
	"verifharness/hlib"
)

func topCoq(o Op) string {
	switch o.K {
	case "tcheck":
		return hlib.App("TCheck", hlib.N(uint64(o.A)), hlib.Z(o.H), hlib.Z(o.Min), hlib.Z(o.Max))
	case "tsign":
		return hlib.App("TSign", hlib.N(uint64(o.A)), hlib.Z(o.H))
	case "tfee":
		return hlib.App("TFee", hlib.N(uint64(o.A)), hlib.Z(o.Min))
	case "xcheck":
		return hlib.App("XCheck", hlib.N(uint64(o.A)), hlib.Z(o.H), hlib.Z(o.Min), hlib.Z(o.Max))
	}
	return hlib.App("XSign", hlib.N(uint64(o.A)), hlib.Z(o.H))
}

func (a answer) tcoq() string {
	switch a.Kind {
	case "terr":
		return "(TAErr " + a.V + ")"
	case "bool":
		return "(TABool " + a.V + ")"
	case "fee":
		p := strings.SplitN(a.V, " ", 2)
		var v int64
		fmt.Sscan(p[1], &v)
		return "(TAFee " + p[0] + " " + hlib.Z(v) + ")"
	}
	// a panic is no answer of the model: an impossible verdict makes the case fail
	return "(TAFee TOther (-1)%Z)"
}

func topKey(o Op) string { return fmt.Sprintf("%s/%d/%d/%d/%d", o.K, o.A, o.H, o.Min, o.Max) }

func runTcCase(in Input, kind string, wantProc func(Op) bool) *caseRun {
	cr := &caseRun{in: in, kind: kind}
	applyCfg(in.Cfg, false)
	objs := make([]*types.TransactionCache, len(in.Objs))
	for i, t := range in.Objs {
		objs[i] = types.NewTransactionCache(tcTxs[t])
	}
	for _, o := range in.Ops {
		cr.hist = append(cr.hist, runTop(o, objs))
	}
	seen := map[string]bool{}
	for _, o := range in.Ops {
		var fr []answer
		var pr *procReq
		if !seen[topKey(o)] {
			seen[topKey(o)] = true
			fr = freshTop(o, in.Objs)
			if wantProc != nil && wantProc(o) {
				pr = &procReq{cfg: in.Cfg, op: o, objs: in.Objs}
			}
		}
		cr.fresh = append(cr.fresh, fr)
		cr.procs = append(cr.procs, pr)
	}
	return cr
}

func memCoq(m memDesc) string {
	units := "None"
	if m.Units >= 0 {
		units = "(Some " + hlib.Z(m.Units) + ")"
	}
	sig := "None"
	if m.Sig >= 0 {
		sig = "(Some " + hlib.N(uint64(m.Sig)) + ")"
	}
	title := "None"
	if m.Title >= 0 {
		title = "(Some " + hlib.N(uint64(m.Title)) + ")"
	}
	return hlib.App("mkM", hlib.Z(m.Chain), hlib.Z(m.Fee), units, sig, title, hlib.Bool(m.Para))
}

func shapeCoq(d txDesc) string {
	switch d.Shape {
	case "err":
		return "(SErr " + d.Err + ")"
	case "single":
		return "(SSingle " + memCoq(d.Ms[0]) + ")"
	}
	var ms []string
	for _, m := range d.Ms {
		ms = append(ms, memCoq(m))
	}
	return hlib.App("SGroup", hlib.List(ms), d.St)
}

func cryCoq(id int, c [2]int64) string {
	return hlib.Pair(hlib.N(uint64(id)), hlib.Pair(hlib.Bool(c[0] != 0), hlib.Z(c[1])))
}

func (cr *caseRun) emitTc(out *hlib.Out) {
	in := cr.in
	c := in.Cfg
	usedT := map[int]bool{}
	keyCount := map[string]int{}
	nontrivial := false
	for _, o := range in.Ops {
		switch o.K {
		case "tcheck", "tsign":
			k := fmt.Sprintf("%s/%d", o.K, o.A)
			keyCount[k]++
			if keyCount[k] > 1 {
				nontrivial = true
			}
			usedT[in.Objs[o.A]] = true
		case "tfee":
			usedT[in.Objs[o.A]] = true
		default:
			usedT[o.A] = true
		}
	}
	usedS := map[int]bool{}
	var txs, obs, sigs, objs []string
	for t := range tcTxs {
		if !usedT[t] {
			continue
		}
		txs = append(txs, hlib.App("TX", hlib.N(uint64(t)), shapeCoq(tcDesc[t])))
		for _, m := range tcDesc[t].Ms {
			if m.Sig >= 0 {
				usedS[m.Sig] = true
			}
		}
	}
	for s := range tcSigs {
		if usedS[s] {
			sigs = append(sigs, hlib.App("SGT", hlib.N(uint64(s)), hlib.Z(tcSigs[s].Ty), hlib.Bool(tcSigs[s].Okv), hlib.Bool(tcSigs[s].Fok)))
		}
	}
	for x, t := range in.Objs {
		objs = append(objs, hlib.App("OB", hlib.N(uint64(x)), hlib.N(uint64(t))))
	}
	cry := []string{cryCoq(types.SECP256K1, c.Secp), cryCoq(types.ED25519, c.Ed), cryCoq(types.SM2, c.Sm2), cryCoq(10, c.NoneC)}
	type implOb struct {
		Op    Op       `json:"op"`
		Hist  answer   `json:"hist"`
		Fresh []answer `json:"fresh"`
	}
	var impl []implOb
	for i, o := range in.Ops {
		fr := cr.fresh[i]
		if cr.procs[i] != nil && cr.procs[i].ans != nil {
			fr = append(append([]answer{}, fr...), *cr.procs[i].ans)
		}
		var fs []string
		for _, a := range fr {
			fs = append(fs, a.tcoq())
		}
		obs = append(obs, hlib.App("TOb", topCoq(o), cr.hist[i].tcoq(), hlib.List(fs)))
		impl = append(impl, implOb{o, cr.hist[i], fr})
	}
	cfgT := hlib.App("TCfg", hlib.List(cry), hlib.List(sigs), hlib.Z(tcChain), hlib.Z(c.Strict), hlib.Z(c.BCheck),
		hlib.Z(c.GPara), hlib.List(txs), hlib.List(objs))
	term := hlib.App("TcHist", hlib.N(uint64(in.G)), cfgT, hlib.List(obs))
	out.Emit(cr.kind, nontrivial, term, in, impl)
}

// ---------- generators ----------

var minfeeAlphabet = []int64{0, 100000, 100000, 200000, 1000000, 1 << 62}
var maxfeeAlphabet = []int64{0, 10000000, 10000000, 150000}

func genTcCfg(r *hlib.Rng) Cfg {
	c := defaultCfg()
	c.Secp = [2]int64{int64(r.Intn(6)+4) / 5, hlib.Pick(r, []int64{0, 10, 10, -1})}
	c.Ed = [2]int64{int64(r.Intn(6)+4) / 5, hlib.Pick(r, []int64{0, 20, 20})}
	c.Sm2 = [2]int64{int64(r.Intn(2)), hlib.Pick(r, []int64{0, 30})}
	c.NoneC = [2]int64{int64(r.Intn(2)), hlib.Pick(r, []int64{0, 15, 15})}
	c.Strict = hlib.Pick(r, []int64{types.MaxHeight, 12, 12})
	c.BCheck = hlib.Pick(r, []int64{0, 18, 18})
	c.GPara = hlib.Pick(r, []int64{0, 22, 22})
	return c
}

// genTcHist draws wrappers and calls under the configuration already applied.
// level 0: anything; 2: calls of one method on one wrapper agree on the (fresh) verdict;
// 3: no method twice on one wrapper.
func genTcHist(r *hlib.Rng, level int, n int) ([]int, []Op) {
	nt := r.Range(1, 3)
	var ts []int
	for i := 0; i < nt; i++ {
		ts = append(ts, r.Intn(len(tcTxs)))
	}
	nobj := r.Range(1, 4)
	if level == 3 {
		nobj = r.Range(2, 6)
	} else if level == 0 {
		nobj = r.Range(1, 2)
	}
	var objs []int
	for i := 0; i < nobj; i++ {
		objs = append(objs, hlib.Pick(r, ts))
	}
	var hs, mins, maxs []int64
	for i := 0; i < r.Range(2, 4); i++ {
		hs = append(hs, hlib.Pick(r, heightAlphabet))
	}
	for i := 0; i < r.Range(1, 3); i++ {
		mins = append(mins, hlib.Pick(r, minfeeAlphabet))
		maxs = append(maxs, hlib.Pick(r, maxfeeAlphabet))
	}
	first := map[string]answer{}
	var ops []Op
	for tries := 0; len(ops) < n && tries < 40*n; tries++ {
		var o Op
		switch x := r.Intn(12); {
		case x < 4:
			o = Op{K: "tcheck", A: r.Intn(nobj), H: hlib.Pick(r, hs), Min: hlib.Pick(r, mins), Max: hlib.Pick(r, maxs)}
		case x < 8:
			o = Op{K: "tsign", A: r.Intn(nobj), H: hlib.Pick(r, hs)}
		case x < 9:
			o = Op{K: "tfee", A: r.Intn(nobj), Min: hlib.Pick(r, mins)}
		case x < 10:
			o = Op{K: "xcheck", A: hlib.Pick(r, ts), H: hlib.Pick(r, hs), Min: hlib.Pick(r, mins), Max: hlib.Pick(r, maxs)}
		default:
			o = Op{K: "xsign", A: hlib.Pick(r, ts), H: hlib.Pick(r, hs)}
		}
		if level >= 2 && (o.K == "tcheck" || o.K == "tsign") {
			k := fmt.Sprintf("%s/%d", o.K, o.A)
			v := freshTop(o, objs)[0]
			if f, ok := first[k]; ok && (level >= 3 || f != v) {
				continue
			}
			first[k] = v
		}
		ops = append(ops, o)
	}
	if len(ops) == 0 {
		ops = append(ops, Op{K: "xsign", A: ts[0], H: 0})
	}
	return objs, ops
}

// signHist: a history dense in signature checks of several transactions of the
// same sign types on both sides of the enable heights (bare and wrapped, a new
// wrapper per call: single use).
func genSignHist(r *hlib.Rng, n int) ([]int, []Op) {
	pool := []int{0, 2, 5, 6, 9, 10, 11, 12, 13, 14, 21, 22, 23, 34, 7, 35, 36, 37}
	var objs []int
	var ops []Op
	for len(ops) < n {
		t := hlib.Pick(r, pool)
		h := hlib.Pick(r, heightAlphabet)
		if r.Chance(1, 2) {
			ops = append(ops, Op{K: "xsign", A: t, H: h})
		} else {
			objs = append(objs, t)
			ops = append(ops, Op{K: "tsign", A: len(objs) - 1, H: h})
		}
	}
	return objs, ops
}

func tcWitnesses() []Input {
	secp10 := defaultCfg()
	secp10.Secp = [2]int64{1, 10}
	secp10.Ed = [2]int64{1, 20}
	secp10.Sm2, secp10.NoneC = [2]int64{1, 30}, [2]int64{1, 15}
	secp10.Strict, secp10.BCheck, secp10.GPara = 12, 18, 22
	w := func(g int, objs []int, ops ...Op) Input { return Input{T: "tc", G: g, Cfg: secp10, Objs: objs, Ops: ops} }
	return []Input{
		// the first CheckSign verdict sticks across the enable height, both directions
		w(0, []int{0}, Op{K: "tsign", A: 0, H: 5}, Op{K: "tsign", A: 0, H: 20}),
		w(0, []int{0}, Op{K: "tsign", A: 0, H: 20}, Op{K: "tsign", A: 0, H: 5}),
		w(0, []int{22}, Op{K: "tsign", A: 0, H: 14}, Op{K: "tsign", A: 0, H: 25}),
		w(0, []int{10}, Op{K: "tsign", A: 0, H: -1}, Op{K: "tsign", A: 0, H: 3}),
		// the first Check verdict sticks across a fee rate, ForkBlockCheck, ForkTxChainIDStrict, ForkTxGroupPara
		w(0, []int{0}, Op{K: "tcheck", A: 0, H: 20, Min: 0, Max: 0}, Op{K: "tcheck", A: 0, H: 20, Min: 200000, Max: 0}),
		w(0, []int{0}, Op{K: "tcheck", A: 0, H: 20, Min: 200000, Max: 0}, Op{K: "tcheck", A: 0, H: 20, Min: 100000, Max: 0}),
		w(0, []int{3}, Op{K: "tcheck", A: 0, H: 5, Min: 100000, Max: 10000000}, Op{K: "tcheck", A: 0, H: 20, Min: 100000, Max: 10000000}),
		w(0, []int{4}, Op{K: "tcheck", A: 0, H: 5, Min: 0, Max: 0}, Op{K: "tcheck", A: 0, H: 20, Min: 0, Max: 0}),
		w(0, []int{28}, Op{K: "tcheck", A: 0, H: 30, Min: 100000, Max: 0}, Op{K: "tcheck", A: 0, H: 5, Min: 100000, Max: 0}),
		// a second wrapper of the same transaction is not affected; GetTotalFee in between
		w(0, []int{0, 0}, Op{K: "tsign", A: 0, H: 5}, Op{K: "tsign", A: 1, H: 20}, Op{K: "tfee", A: 0, Min: 7}, Op{K: "tsign", A: 0, H: 20}),
		// guarded: same side of every threshold; single use (the mempool's pattern)
		w(2, []int{0, 0}, Op{K: "tsign", A: 0, H: 12}, Op{K: "tcheck", A: 0, H: 12, Min: 100000, Max: 0}, Op{K: "tsign", A: 0, H: 30},
			Op{K: "tcheck", A: 0, H: 15, Min: 50000, Max: 0}, Op{K: "tsign", A: 1, H: 5}, Op{K: "tsign", A: 1, H: 9}),
		w(3, []int{0, 0, 21}, Op{K: "tcheck", A: 0, H: 6, Min: 100000, Max: 0}, Op{K: "tsign", A: 0, H: 6},
			Op{K: "tcheck", A: 1, H: 21, Min: 200000, Max: 0}, Op{K: "tsign", A: 1, H: 21}, Op{K: "tcheck", A: 2, H: 21, Min: 100000, Max: 0},
			Op{K: "tsign", A: 2, H: 21}, Op{K: "xsign", A: 21, H: 5}),
		// GetTxGroup fails: GetTotalFee writes checkok before / after Check
		w(2, []int{16, 18}, Op{K: "tfee", A: 0, Min: 5}, Op{K: "tcheck", A: 0, H: 5, Min: 0, Max: 0}, Op{K: "tcheck", A: 1, H: 5, Min: 100000, Max: 0},
			Op{K: "tfee", A: 1, Min: 5}, Op{K: "tcheck", A: 1, H: 20, Min: 0, Max: 0}, Op{K: "tsign", A: 0, H: 20}),
		// int64 wrap-around of the real fee
		w(2, []int{2, 31}, Op{K: "tcheck", A: 0, H: 5, Min: 1 << 62, Max: 0}, Op{K: "tfee", A: 0, Min: 1 << 62},
			Op{K: "tcheck", A: 1, H: 5, Min: 1 << 62, Max: 0}, Op{K: "tfee", A: 1, Min: 1 << 62}),
	}
}

// tcStreams appends the TransactionCache streams.
func tcStreams(rng *hlib.Rng, thorough bool, wantProc func(*hlib.Rng) func(Op) bool) []*caseRun {
	var runs []*caseRun
	for _, w := range tcWitnesses() {
		runs = append(runs, runTcCase(w, "tc-witness", nil))
	}
	nGuard, nSingle, nFree, nSign, maxOps := 90, 50, 110, 50, 10
	if thorough {
		nGuard, nSingle, nFree, nSign, maxOps = 2500, 1200, 3000, 1500, 24
	}
	stream := func(n int, kind string, level int) {
		r := rng.Fork()
		for i := 0; i < n; i++ {
			c := genTcCfg(r)
			applyCfg(c, false)
			hi := maxOps
			if i < n/4 {
				hi = 4
			}
			var objs []int
			var ops []Op
			if kind == "tc-sign-load" {
				objs, ops = genSignHist(r, r.Range(2, hi))
			} else {
				objs, ops = genTcHist(r, level, r.Range(1, hi))
			}
			runs = append(runs, runTcCase(Input{T: "tc", G: level, Cfg: c, Objs: objs, Ops: ops}, kind, wantProc(r)))
		}
	}
	stream(nGuard, "tc-guarded", 2)
	stream(nSingle, "tc-single-use", 3)
	stream(nFree, "tc-unrestricted", 0)
	stream(nSign, "tc-sign-load", 3)
	return runs
}
