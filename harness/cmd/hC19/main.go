// hC19: query histories against the process-wide validity caches
// (address.CheckAddress, dapp.CheckAddress, address.PubKeyToAddr /
// Transaction.From, Transaction.CheckSign), each answer next to the answers
// the same single query gets from fresh caches (reset in this process; for a
// sample also a fresh OS process: this binary re-executed with --extra child).
//
// Second kind of case (tc.go, tccase.go): histories of TransactionCache.Check /
// CheckSign / GetTotalFee calls on wrapper objects created fresh per history,
// next to the answers of a fresh wrapper, of the memo-free Transaction.Check /
// CheckSign and (sampled) of a fresh OS process.
//
// No hook file in /repo: the unexported cache variables are reached through
// go:linkname (purge = fresh caches, replacement by a small lru = tiny capacity).
package main

import (
	"bufio"
	"bytes"
	"encoding/json"
	"fmt"
	"os"
	"os/exec"
	"sort"
	"strings"
	"sync"
	"time"
	_ "unsafe"

	"github.com/33cn/chain33/client/mocks"
	"github.com/33cn/chain33/common"
	"github.com/33cn/chain33/common/address"
	"github.com/33cn/chain33/common/crypto"
	cryptocli "github.com/33cn/chain33/common/crypto/client"
	clog "github.com/33cn/chain33/common/log"
	_ "github.com/33cn/chain33/system/address" // btc, btcMultiSign, eth, utxo
	"github.com/33cn/chain33/system/address/btc"
	_ "github.com/33cn/chain33/system/crypto/init"
	drivers "github.com/33cn/chain33/system/dapp"
	"github.com/33cn/chain33/types"
	"github.com/decred/base58"
	ethcommon "github.com/ethereum/go-ethereum/common"
	ethcrypto "github.com/ethereum/go-ethereum/crypto"
	lru "github.com/hashicorp/golang-lru"
	"verifharness/hlib"
)

//go:linkname checkAddressCache github.com/33cn/chain33/common/address.checkAddressCache
var checkAddressCache *lru.Cache

//go:linkname ethAddrCache github.com/33cn/chain33/system/address/eth.addrCache
var ethAddrCache *lru.Cache

//go:linkname btcNormalCache github.com/33cn/chain33/system/address/btc.normalAddrCache
var btcNormalCache *lru.Cache

//go:linkname btcMultiCache github.com/33cn/chain33/system/address/btc.multiSignAddrCache
var btcMultiCache *lru.Cache

const defaultCap = 10240

// ---------- replay format ----------

// Cfg is the node configuration of one case.
type Cfg struct {
	En     [4]int64 `json:"en"`  // enable heights of btc, btcMultiSign, eth, utxo
	Def    int      `json:"def"` // default driver id (0 or 2)
	FMulti int64    `json:"fmulti"`
	FB58   int64    `json:"fb58"`
	FFmt   int64    `json:"ffmt"`
	API    bool     `json:"api"`
	Cap    int      `json:"cap"`
	PCap   int      `json:"pcap"`
	Secp   [2]int64 `json:"secp"` // enabled (0/1), enable height
	Ed     [2]int64 `json:"ed"`
	// TransactionCache histories only (zero in the address histories)
	Sm2    [2]int64 `json:"sm2,omitempty"`
	NoneC  [2]int64 `json:"nonec,omitempty"` // crypto driver "none"
	Strict int64    `json:"strict,omitempty"` // ForkTxChainIDStrict
	BCheck int64    `json:"bcheck,omitempty"` // ForkBlockCheck
	GPara  int64    `json:"gpara,omitempty"`  // ForkTxGroupPara
}

// Op is one query.
type Op struct {
	K     string `json:"k"` // check | dapp | pub | sign ; tcheck | tsign | tfee | xcheck | xsign
	A     int    `json:"a"` // address / pubkey / signed-tx number ; wrapper object (t*) / transaction number (x*)
	D     int    `json:"d"` // pub: driver id (-1 = default)
	H     int64  `json:"h"`
	ViaTx bool   `json:"viatx,omitempty"`
	Min   int64  `json:"min,omitempty"` // tcheck/xcheck/tfee: fee rate
	Max   int64  `json:"max,omitempty"` // tcheck/xcheck: max fee
}

// Input is one case.
type Input struct {
	T    string `json:"t,omitempty"` // "" = address/pubkey/sign history, "tc" = TransactionCache history
	G    int    `json:"g"`
	Cfg  Cfg    `json:"cfg"`
	Objs []int  `json:"objs,omitempty"` // tc: wrapper object i wraps transaction Objs[i]
	Ops  []Op   `json:"ops"`
}

var drvNames = []string{"btc", "btcMultiSign", "eth", "utxo"}

// ---------- alphabets (fixed, so that replay files stay meaningful) ----------

var addrs []string            // address strings
var addrVal [][4]string       // oracle: ValidateAddr class per driver
var execHeight = map[int]int64{}
var pubs [][]byte
var pubRaw [][4]*string // oracle: unformatted address per driver (nil = panics)
var sigTxs []*types.Transaction
var sigInfo [][2]int64 // crypto type id, verifies (0/1)
var sigFrom [][2]int   // address id of the sign type, public key number

var errAddrType error

func classify(e error) string {
	switch e {
	case nil:
		return "ENil"
	case address.ErrDecodeBase58:
		return "EDecode"
	case address.ErrAddressLength:
		return "ELength"
	case address.ErrCheckVersion:
		return "EVersion"
	case address.ErrCheckChecksum:
		return "ECheckChecksum"
	case address.ErrAddressChecksum:
		return "EAddrChecksum"
	case errAddrType:
		return "EAddrType"
	}
	if e.Error() == "ErrInvalidEthAddr" {
		return "EInvalidEth"
	}
	return "EOther"
}

func b58addr(ver byte, payload []byte, extra []byte, goodSum bool) string {
	raw := append([]byte{ver}, payload...)
	raw = append(raw, extra...)
	sum := common.Sha2Sum(raw)[:4]
	if !goodSum {
		sum = []byte{sum[0] ^ 0x55, sum[1], sum[2], sum[3] ^ 1}
	}
	return base58.Encode(append(raw, sum...))
}

func newDrv() drivers.Driver { return nil }

func detBytes(tag string, n int) []byte {
	out := []byte{}
	for i := 0; len(out) < n; i++ {
		out = append(out, common.Sha256([]byte(fmt.Sprintf("C19-%s-%d", tag, i)))...)
	}
	return out[:n]
}

var chainCfg *types.Chain33Config
var mockAPI *mocks.QueueProtocolAPI

func setup() {
	clog.SetLogLevel("crit")
	chainCfg = types.NewChain33Config(types.GetDefaultCfgstring())
	mockAPI = new(mocks.QueueProtocolAPI)
	mockAPI.On("GetConfig").Return(chainCfg)
	u, _ := address.LoadDriver(3, -1)
	errAddrType = u.ValidateAddr("x")

	drivers.Register(chainCfg, "c19drv", newDrv, 12)
	drivers.Register(chainCfg, "c19drvz", newDrv, 0)

	h160 := detBytes("h160", 20)
	secpC, err := crypto.Load("secp256k1", -1)
	if err != nil {
		panic(err)
	}
	edC, err := crypto.Load("ed25519", -1)
	if err != nil {
		panic(err)
	}
	var secpPriv []crypto.PrivKey
	for i := 0; i < 3; i++ {
		p, err := secpC.PrivKeyFromBytes(detBytes(fmt.Sprintf("secp%d", i), 32))
		if err != nil {
			panic(err)
		}
		secpPriv = append(secpPriv, p)
	}
	edPriv, err := edC.PrivKeyFromBytes(detBytes("ed", 64))
	if err != nil {
		edPriv, err = edC.PrivKeyFromBytes(detBytes("ed", 32))
		if err != nil {
			panic(err)
		}
	}
	ethLower := "0x" + hlib.HexS(h160)
	addrs = []string{
		btc.FormatBtcAddr(0, secpPriv[0].PubKey().Bytes()),           // 0 valid btc
		btc.FormatBtcAddr(5, secpPriv[0].PubKey().Bytes()),           // 1 valid multisig
		ethLower,                                                     // 2 eth lower case
		ethcommon.HexToAddress(ethLower).Hex(),                       // 3 eth mixed case
		hlib.HexS(h160),                                              // 4 eth without prefix
		hlib.HexS(detBytes("txid", 32)) + ":1",                       // 5 utxo outpoint
		b58addr(7, h160, nil, true),                                  // 6 version 7, good checksum
		b58addr(0, h160, nil, false),                                 // 7 version 0, bad checksum
		b58addr(5, h160, nil, false),                                 // 8 version 5, bad checksum
		b58addr(0, h160, []byte{9}, false),                           // 9 26 bytes, version 0, bad checksum
		b58addr(5, h160, []byte{9}, false),                           // 10 26 bytes, version 5, bad checksum
		b58addr(0, h160, []byte{9}, true),                            // 11 26 bytes, version 0, good checksum
		"xyz",                                                        // 12
		"",                                                           // 13
		"0x123",                                                      // 14
		"0OIl0OIl0OIl0OIl0OIl0OIl0OIl0OIl",                           // 15 no base58 characters
		address.ExecAddress("c19drv"),                                // 16 exec driver from height 12
		address.ExecAddress("c19drvz"),                               // 17 exec driver from height 0
		b58addr(7, h160, []byte{9}, false),                           // 18 26 bytes, version 7, bad checksum
		strings.ToUpper(hlib.HexS(h160)) + "zz",                      // 19
	}
	execHeight[16] = 12
	execHeight[17] = 0
	for i, a := range addrs {
		var v [4]string
		for d := 0; d < 4; d++ {
			drv, err := address.LoadDriver(int32(d), -1)
			if err != nil {
				panic(err)
			}
			v[d] = classify(drv.ValidateAddr(a))
		}
		addrVal = append(addrVal, v)
		_, isExec := execHeight[i]
		if drivers.IsDriverAddress(a, -1) != isExec {
			panic("exec driver table out of sync: " + a)
		}
	}
	seen := map[string]bool{}
	for _, a := range addrs {
		if seen[a] {
			panic("duplicate address in alphabet")
		}
		seen[a] = true
	}

	pubs = [][]byte{
		secpPriv[0].PubKey().Bytes(),
		secpPriv[1].PubKey().Bytes(),
		secpPriv[2].PubKey().Bytes(),
		edPriv.PubKey().Bytes(),
		append([]byte{7}, detBytes("junk", 32)...),
		detBytes("short", 5),
	}
	for _, p := range pubs {
		var r [4]*string
		s0 := btc.FormatBtcAddr(0, p)
		s1 := btc.FormatBtcAddr(5, p)
		var s2 string
		if pk, err := ethcrypto.DecompressPubkey(p); err == nil {
			s2 = ethcrypto.PubkeyToAddress(*pk).Hex()
		} else {
			s2 = ethcommon.BytesToAddress(ethcrypto.Keccak256(p[1:])[12:]).Hex()
		}
		r[0], r[1], r[2] = &s0, &s1, &s2
		pubRaw = append(pubRaw, r)
	}

	mk := func(ty int32, priv crypto.PrivKey, tamper bool) *types.Transaction {
		tx := &types.Transaction{Execer: []byte("none"), Payload: detBytes("payload", 20), Fee: 100000, Nonce: 7, To: addrs[0]}
		tx.Sign(ty, priv)
		if tamper {
			tx.Payload = detBytes("payload2", 20)
		}
		return tx
	}
	sigTxs = []*types.Transaction{
		mk(types.SECP256K1, secpPriv[0], false),
		mk(types.SECP256K1, secpPriv[1], true),
		mk(types.ED25519, edPriv, false),
		mk(types.ED25519, edPriv, true),
		mk(types.EncodeSignID(types.SECP256K1, 2), secpPriv[2], false),
		mk(999, secpPriv[0], false),
	}
	for _, tx := range sigTxs {
		cid := int64(types.ExtractCryptoID(tx.Signature.Ty))
		name := crypto.GetName(int(cid))
		okv := int64(0)
		if c, err := crypto.Load(name, -1); err == nil {
			cp := types.CloneTx(tx)
			cp.Signature = nil
			if c.Validate(types.Encode(cp), tx.Signature.Pubkey, tx.Signature.Signature) == nil {
				okv = 1
			}
		}
		sigInfo = append(sigInfo, [2]int64{cid, okv})
		pk := -1
		for i, p := range pubs {
			if bytes.Equal(p, tx.Signature.Pubkey) {
				pk = i
			}
		}
		if pk < 0 {
			panic("signer key missing from the public key alphabet")
		}
		sigFrom = append(sigFrom, [2]int{int(tx.Signature.Ty>>12) & 7, pk})
	}
}

// ---------- applying a configuration, fresh caches ----------

func applyCfg(c Cfg, child bool) {
	eh := map[string]int64{}
	for i, n := range drvNames {
		eh[n] = c.En[i]
	}
	address.Init(&address.Config{DefaultDriver: drvNames[c.Def], EnableHeight: eh})
	chainCfg.SetFork("ForkMultiSignAddress", c.FMulti)
	chainCfg.SetFork("ForkBase58AddressCheck", c.FB58)
	chainCfg.SetFork(address.ForkFormatAddressKey, c.FFmt)
	chainCfg.SetFork(types.ForkTxChainIDStrict, c.Strict)
	chainCfg.SetFork("ForkBlockCheck", c.BCheck)
	chainCfg.SetFork("ForkTxGroupPara", c.GPara)
	if c.API {
		cryptocli.SetQueueAPI(mockAPI)
	} else {
		cryptocli.SetQueueAPI(nil)
	}
	names, _ := crypto.GetCryptoList()
	var enabled []string
	for _, n := range names {
		if (n == "secp256k1" && c.Secp[0] == 0) || (n == "ed25519" && c.Ed[0] == 0) ||
			(n == "sm2" && c.Sm2[0] == 0) || (n == "none" && c.NoneC[0] == 0) {
			continue
		}
		enabled = append(enabled, n)
	}
	sort.Strings(enabled)
	crypto.Init(&crypto.Config{EnableTypes: enabled,
		EnableHeight: map[string]int64{"secp256k1": c.Secp[1], "ed25519": c.Ed[1], "sm2": c.Sm2[1], "none": c.NoneC[1]}}, nil)
	if !child {
		resetCaches(c)
	}
}

// resetCaches gives every cache the state it has in a fresh process (empty),
// with the case's capacities.
func resetCaches(c Cfg) {
	var err error
	if checkAddressCache, err = lru.New(c.Cap); err != nil {
		panic(err)
	}
	if ethAddrCache, err = lru.New(c.PCap); err != nil {
		panic(err)
	}
	btcNormalCache.Purge()
	btcMultiCache.Purge()
}

// ---------- running one query ----------

type answer struct {
	Kind string `json:"kind"` // err | str | bool | panic
	V    string `json:"v"`
}

func (a answer) coq() string {
	switch a.Kind {
	case "err":
		return "(AErr " + a.V + ")"
	case "str":
		return "(AStr " + hlib.Hx([]byte(a.V)) + ")"
	case "bool":
		return "(ABool " + a.V + ")"
	}
	return "APanic"
}

func runOp(o Op) (res answer) {
	defer func() {
		if r := recover(); r != nil {
			res = answer{Kind: "panic"}
		}
	}()
	switch o.K {
	case "check":
		return answer{"err", classify(address.CheckAddress(addrs[o.A], o.H))}
	case "dapp":
		return answer{"err", classify(drivers.CheckAddress(chainCfg, addrs[o.A], o.H))}
	case "pub":
		cryptocli.SetCurrentBlock(o.H, 0)
		if viaFrom(o) {
			tx := &types.Transaction{Signature: &types.Signature{Ty: int32(o.D)<<12 | types.SECP256K1, Pubkey: pubs[o.A]}}
			return answer{"str", tx.From()}
		}
		return answer{"str", address.PubKeyToAddr(int32(o.D), pubs[o.A])}
	case "sign":
		// since 909acb0 checkSign derives the sender address (through the driver's cache,
		// formatted at the crypto context's height): pin the context to the call's height
		cryptocli.SetCurrentBlock(o.H, 0)
		return answer{"bool", hlib.Bool(sigTxs[o.A].CheckSign(o.H))}
	}
	panic("unknown op " + o.K)
}

func opCoq(o Op) string {
	switch o.K {
	case "check":
		return hlib.App("OCheck", hlib.N(uint64(o.A)), hlib.Z(o.H))
	case "dapp":
		return hlib.App("ODapp", hlib.N(uint64(o.A)), hlib.Z(o.H))
	case "pub":
		if viaFrom(o) {
			return hlib.App("OFrom", hlib.N(uint64(o.D)), hlib.N(uint64(o.A)), hlib.Z(o.H))
		}
		return hlib.App("OPub", hlib.Z(int64(o.D)), hlib.N(uint64(o.A)), hlib.Z(o.H))
	}
	return hlib.App("OSign", hlib.N(uint64(o.A)), hlib.Z(o.H))
}

func opKey(o Op) string { return fmt.Sprintf("%s/%d/%d/%d/%v", o.K, o.A, o.D, o.H, viaFrom(o)) }

// viaFrom: the conversion goes through Transaction.From() (address id in the sign type)
func viaFrom(o Op) bool { return o.K == "pub" && o.ViaTx && o.D >= 0 && o.D <= 7 }

// ---------- fresh OS process ----------

func childMain() {
	setup()
	setupTc()
	sc := bufio.NewScanner(os.Stdin)
	sc.Buffer(make([]byte, 1<<20), 1<<20)
	if !sc.Scan() {
		os.Exit(2)
	}
	var in Input
	if err := json.Unmarshal(sc.Bytes(), &in); err != nil || len(in.Ops) != 1 {
		os.Exit(2)
	}
	applyCfg(in.Cfg, true)
	var a answer
	if in.T == "tc" {
		objs := make([]*types.TransactionCache, len(in.Objs))
		for i, t := range in.Objs {
			objs[i] = types.NewTransactionCache(tcTxs[t])
		}
		a = runTop(in.Ops[0], objs)
	} else {
		a = runOp(in.Ops[0])
	}
	b, _ := json.Marshal(a)
	fmt.Println(string(b))
}

func freshProcess(c Cfg, o Op, objs []int) (answer, error) {
	in := Input{Cfg: c, Ops: []Op{o}, Objs: objs}
	if isTop(o.K) {
		in.T = "tc"
	}
	b, _ := json.Marshal(in)
	cmd := exec.Command(os.Args[0], "--extra", "child")
	cmd.Stdin = bytes.NewReader(append(b, '\n'))
	var out bytes.Buffer
	cmd.Stdout = &out
	done := make(chan error, 1)
	if err := cmd.Start(); err != nil {
		return answer{}, err
	}
	go func() { done <- cmd.Wait() }()
	select {
	case err := <-done:
		if err != nil {
			return answer{}, err
		}
	case <-time.After(60 * time.Second):
		cmd.Process.Kill()
		return answer{}, fmt.Errorf("child timeout")
	}
	var a answer
	lines := strings.Split(strings.TrimSpace(out.String()), "\n")
	if err := json.Unmarshal([]byte(lines[len(lines)-1]), &a); err != nil {
		return answer{}, err
	}
	return a, nil
}

// ---------- one case ----------

type procReq struct {
	cfg  Cfg
	op   Op
	objs []int
	ans  *answer
	err  error
}

type caseRun struct {
	in    Input
	kind  string
	hist  []answer
	fresh [][]answer
	procs []*procReq // per op (nil = none)
}

const freshReps = 4

func runCase(in Input, kind string, wantProc func(Op) bool) *caseRun {
	cr := &caseRun{in: in, kind: kind}
	applyCfg(in.Cfg, false)
	for _, o := range in.Ops {
		cr.hist = append(cr.hist, runOp(o))
	}
	seen := map[string]bool{}
	for _, o := range in.Ops {
		var fr []answer
		var pr *procReq
		if !seen[opKey(o)] {
			seen[opKey(o)] = true
			reps := 1
			if o.K == "check" || o.K == "dapp" {
				reps = freshReps
			}
			for i := 0; i < reps; i++ {
				resetCaches(in.Cfg)
				fr = append(fr, runOp(o))
			}
			if in.Cfg.Cap == defaultCap && in.Cfg.PCap == defaultCap && wantProc != nil && wantProc(o) {
				pr = &procReq{cfg: in.Cfg, op: o}
			}
		}
		cr.fresh = append(cr.fresh, fr)
		cr.procs = append(cr.procs, pr)
	}
	return cr
}

func (cr *caseRun) emit(out *hlib.Out) {
	in := cr.in
	c := in.Cfg
	usedA := map[int]bool{}
	usedP := map[[2]int]bool{}
	usedS := map[int]bool{}
	keys := map[string]int{}
	nontrivial := false
	for _, o := range in.Ops {
		switch o.K {
		case "check", "dapp":
			usedA[o.A] = true
			k := fmt.Sprintf("a%d", o.A)
			keys[k]++
			if keys[k] > 1 {
				nontrivial = true
			}
		case "pub":
			d := o.D
			if d < 0 {
				d = c.Def
			}
			usedP[[2]int{d, o.A}] = true
			k := fmt.Sprintf("p%d/%d", d, o.A)
			keys[k]++
			if keys[k] > 1 {
				nontrivial = true
			}
		case "sign":
			usedS[o.A] = true
			usedP[sigFrom[o.A]] = true
			k := fmt.Sprintf("p%d/%d", sigFrom[o.A][0], sigFrom[o.A][1])
			keys[k]++
			if keys[k] > 1 {
				nontrivial = true
			}
		}
	}
	var drv, val, ex, raw, cry, sigs, obs []string
	for d := 0; d < 4; d++ {
		drv = append(drv, hlib.App("DV", hlib.N(uint64(d)), hlib.Z(c.En[d])))
	}
	for a := range addrs {
		if !usedA[a] {
			continue
		}
		val = append(val, hlib.App("VA", hlib.N(uint64(a)), hlib.List(addrVal[a][:])))
		if h, ok := execHeight[a]; ok {
			ex = append(ex, hlib.App("EX", hlib.N(uint64(a)), hlib.Z(h)))
		}
	}
	for d := 0; d < 8; d++ {
		for p := range pubs {
			if !usedP[[2]int{d, p}] || d >= 4 {
				continue
			}
			r := "None"
			if pubRaw[p][d] != nil {
				r = "(Some " + hlib.Hx([]byte(*pubRaw[p][d])) + ")"
			}
			raw = append(raw, hlib.App("RW", hlib.N(uint64(d)), hlib.N(uint64(p)), r))
		}
	}
	cry = append(cry, hlib.App("CR", hlib.N(uint64(types.SECP256K1)), hlib.Bool(c.Secp[0] != 0), hlib.Z(c.Secp[1])))
	cry = append(cry, hlib.App("CR", hlib.N(uint64(types.ED25519)), hlib.Bool(c.Ed[0] != 0), hlib.Z(c.Ed[1])))
	for s := range sigTxs {
		if usedS[s] {
			sigs = append(sigs, hlib.App("SG", hlib.N(uint64(s)), hlib.N(uint64(sigInfo[s][0])), hlib.Bool(sigInfo[s][1] != 0),
				hlib.N(uint64(sigFrom[s][0])), hlib.N(uint64(sigFrom[s][1]))))
		}
	}
	type implOb struct {
		Op    Op       `json:"op"`
		Hist  answer   `json:"hist"`
		Fresh []answer `json:"fresh"`
	}
	var impl []implOb
	for i, o := range in.Ops {
		fr := cr.fresh[i]
		if cr.procs[i] != nil && cr.procs[i].ans != nil {
			fr = append(append([]answer{}, fr...), *cr.procs[i].ans)
		}
		var fs []string
		for _, a := range fr {
			fs = append(fs, a.coq())
		}
		obs = append(obs, hlib.App("Ob", opCoq(o), cr.hist[i].coq(), hlib.List(fs)))
		impl = append(impl, implOb{o, cr.hist[i], fr})
	}
	cfgT := hlib.App("Cfg", hlib.List(drv), hlib.List(val), hlib.Z(c.FMulti), hlib.Z(c.FB58), hlib.Z(c.FFmt),
		hlib.Bool(c.API), hlib.List(ex), hlib.N(uint64(c.Cap)), hlib.N(uint64(c.PCap)), hlib.N(uint64(c.Def)),
		hlib.List(raw), hlib.List(cry), hlib.List(sigs))
	term := hlib.App("Hist", hlib.N(uint64(in.G)), cfgT, hlib.List(obs))
	out.Emit(cr.kind, nontrivial, term, in, impl)
}

// ---------- generators ----------

var heightAlphabet = []int64{-1, 0, 5, 9, 10, 11, 14, 15, 19, 20, 24, 25, 29, 30, 35}
var enableAlphabet = []int64{0, 0, 10, 30, -1}

func defaultCfg() Cfg {
	return Cfg{En: [4]int64{0, 0, 0, 0}, Def: 0, FMulti: 0, FB58: 0, FFmt: 0, API: true,
		Cap: defaultCap, PCap: defaultCap, Secp: [2]int64{1, 0}, Ed: [2]int64{1, 0}}
}

func genCfg(r *hlib.Rng, zeroEnable bool) Cfg {
	c := defaultCfg()
	if !zeroEnable {
		for d := 0; d < 4; d++ {
			c.En[d] = hlib.Pick(r, enableAlphabet)
		}
		if r.Chance(1, 5) {
			c.Def = 2
		}
		c.En[c.Def] = 0
	}
	c.FMulti = hlib.Pick(r, []int64{0, 20, 20})
	c.FB58 = hlib.Pick(r, []int64{0, 25, 25})
	c.FFmt = hlib.Pick(r, []int64{0, 15, 15})
	c.API = !r.Chance(1, 6)
	if r.Chance(1, 3) {
		c.Cap = r.Range(1, 3)
	}
	if r.Chance(1, 3) {
		c.PCap = r.Range(1, 2)
	}
	c.Secp = [2]int64{int64(r.Intn(4)+2) / 3, hlib.Pick(r, []int64{0, 10, -1})}
	c.Ed = [2]int64{int64(r.Intn(4)+2) / 3, hlib.Pick(r, []int64{0, 20})}
	return c
}

func isEnable(h, en int64) bool {
	if h < 0 {
		return true
	}
	return !(en < 0 || en > h)
}

// zoneKey: which drivers are enabled at h (heights with one key are "on one side" of every enable height)
func zoneKey(c Cfg, h int64) string {
	s := ""
	for d := 0; d < 4; d++ {
		if isEnable(h, c.En[d]) {
			s += "1"
		} else {
			s += "0"
		}
	}
	return s
}

// ambiguous: no enabled driver accepts and the enabled drivers' errors differ
func ambiguous(c Cfg, a int, h int64) bool {
	set := map[string]bool{}
	for d := 0; d < 4; d++ {
		if !isEnable(h, c.En[d]) {
			continue
		}
		if addrVal[a][d] == "ENil" {
			return false
		}
		set[addrVal[a][d]] = true
	}
	return len(set) > 1
}

func isFork(h, fk int64) bool { return h == -1 || h >= fk }

// genOps draws a history. level 0: anything; 1: every address / eth pubkey
// keeps its queries inside one zone; 2: additionally only unambiguous queries.
func genOps(r *hlib.Rng, c Cfg, level int, n int) []Op {
	na := r.Range(1, 4)
	if c.Cap < defaultCap {
		na = r.Range(2, 6)
	}
	var as []int
	for i := 0; i < na; i++ {
		as = append(as, r.Intn(len(addrs)))
	}
	np := r.Range(1, 3)
	var ps []int
	for i := 0; i < np; i++ {
		ps = append(ps, r.Intn(len(pubs)))
	}
	hs := []int64{}
	for i := 0; i < r.Range(2, 5); i++ {
		hs = append(hs, hlib.Pick(r, heightAlphabet))
	}
	addrZone := map[int]string{}
	pubSide := map[int]bool{}
	pubSideSet := map[int]bool{}
	var ops []Op
	for tries := 0; len(ops) < n && tries < 40*n; tries++ {
		x := r.Intn(10)
		switch {
		case x < 4 || x < 7 && r.Chance(1, 2):
			k := "check"
			if x >= 3 {
				k = "dapp"
			}
			o := Op{K: k, A: hlib.Pick(r, as), H: hlib.Pick(r, hs)}
			if level >= 1 {
				z := zoneKey(c, o.H)
				if cur, ok := addrZone[o.A]; ok && cur != z {
					continue
				}
				if level >= 2 && ambiguous(c, o.A, o.H) {
					continue
				}
				addrZone[o.A] = z
			}
			ops = append(ops, o)
		case x < 9:
			o := Op{K: "pub", A: hlib.Pick(r, ps), D: hlib.Pick(r, []int{-1, 0, 1, 2, 2, 2, 2, 3, 6}), H: hlib.Pick(r, hs), ViaTx: r.Chance(1, 3)}
			if level >= 1 {
				side := !c.API || isFork(o.H, c.FFmt)
				if pubSideSet[o.A] && pubSide[o.A] != side {
					continue
				}
				pubSide[o.A], pubSideSet[o.A] = side, true
			}
			ops = append(ops, o)
		default:
			o := Op{K: "sign", A: r.Intn(len(sigTxs)), H: hlib.Pick(r, hs)}
			if level >= 1 {
				// checkSign converts the signer's key through the address driver's cache (909acb0)
				pk := sigFrom[o.A][1]
				side := !c.API || isFork(o.H, c.FFmt)
				if pubSideSet[pk] && pubSide[pk] != side {
					continue
				}
				pubSide[pk], pubSideSet[pk] = side, true
			}
			ops = append(ops, o)
		}
	}
	if len(ops) == 0 {
		ops = append(ops, Op{K: "sign", A: 0, H: 0})
	}
	return ops
}

func witnesses() []Input {
	eth10 := defaultCfg()
	eth10.En[2] = 10
	eth10.En[3] = -1 // utxo off: below height 10 the two base58 drivers agree on the error
	pre := defaultCfg()
	pre.FMulti, pre.FB58 = 20, 25
	fmtFork := defaultCfg()
	fmtFork.FFmt = 15
	return []Input{
		// cache poisoning across a driver's enable height, both directions
		{G: 0, Cfg: eth10, Ops: []Op{{K: "check", A: 2, H: 5}, {K: "check", A: 2, H: 20}}},
		{G: 0, Cfg: eth10, Ops: []Op{{K: "check", A: 2, H: 20}, {K: "check", A: 2, H: 5}}},
		{G: 0, Cfg: eth10, Ops: []Op{{K: "dapp", A: 2, H: 5}, {K: "dapp", A: 2, H: 20}}},
		// several drivers reject: the error depends on the map order
		{G: 1, Cfg: defaultCfg(), Ops: []Op{{K: "check", A: 12, H: 20}, {K: "check", A: 12, H: 20}}},
		{G: 1, Cfg: defaultCfg(), Ops: []Op{{K: "check", A: 6, H: 20}, {K: "check", A: 9, H: 20}}},
		// ... and below the forks dapp.CheckAddress turns some of those errors into nil
		{G: 1, Cfg: pre, Ops: []Op{{K: "dapp", A: 6, H: 5}, {K: "dapp", A: 6, H: 5}}},
		{G: 1, Cfg: pre, Ops: []Op{{K: "dapp", A: 9, H: 22}, {K: "dapp", A: 18, H: 10}}},
		{G: 1, Cfg: pre, Ops: []Op{{K: "check", A: 6, H: 30}, {K: "dapp", A: 6, H: 5}, {K: "dapp", A: 6, H: 30}}},
		// eth pubkey cache in front of the fork-dependent formatting
		{G: 0, Cfg: fmtFork, Ops: []Op{{K: "pub", A: 0, D: 2, H: 10}, {K: "pub", A: 0, D: 2, H: 20}}},
		{G: 0, Cfg: fmtFork, Ops: []Op{{K: "pub", A: 1, D: 2, H: 20, ViaTx: true}, {K: "pub", A: 1, D: 2, H: 10, ViaTx: true}}},
		// sanity: default configuration, valid inputs
		{G: 2, Cfg: defaultCfg(), Ops: []Op{{K: "check", A: 0, H: 0}, {K: "dapp", A: 1, H: 3}, {K: "check", A: 2, H: 9}, {K: "check", A: 0, H: 100},
			{K: "pub", A: 0, D: -1, H: 1}, {K: "pub", A: 0, D: 2, H: 1}, {K: "sign", A: 0, H: 1}, {K: "sign", A: 1, H: 1}}},
	}
}

func main() {
	opts := hlib.ParseFlags()
	if opts.Extra == "child" {
		childMain()
		return
	}
	setup()
	setupTc()
	out := hlib.NewOut(opts.OutDir)
	defer out.Close()

	if opts.Replay != "" {
		var in Input
		if err := hlib.ReplayInput(opts.Replay, &in); err != nil {
			fmt.Println("replay:", err)
			os.Exit(2)
		}
		if in.T == "tc" {
			cr := runTcCase(in, "replay", func(Op) bool { return true })
			runProcs([]*caseRun{cr}, 4)
			cr.emitTc(out)
			return
		}
		cr := runCase(in, "replay", func(Op) bool { return true })
		runProcs([]*caseRun{cr}, 4)
		cr.emit(out)
		return
	}

	rng := hlib.NewRng(opts.Seed)
	nGuard, nValid, nFree, procBudget, maxOps := 160, 160, 200, 10, 10
	if opts.Thorough() {
		nGuard, nValid, nFree, procBudget, maxOps = 3000, 3000, 4000, 120, 24
	}
	var runs []*caseRun
	procLeft := procBudget
	wantProc := func(r *hlib.Rng) func(Op) bool {
		return func(o Op) bool {
			if procLeft > 0 && r.Chance(1, 12) {
				procLeft--
				return true
			}
			return false
		}
	}
	for _, w := range witnesses() {
		runs = append(runs, runCase(w, "witness", nil))
	}
	stream := func(n int, kind string, level int, zeroEnable func(*hlib.Rng) bool) {
		r := rng.Fork()
		for i := 0; i < n; i++ {
			c := genCfg(r, zeroEnable(r))
			hi := maxOps
			if i < n/4 {
				hi = 4
			}
			ops := genOps(r, c, level, r.Range(1, hi))
			runs = append(runs, runCase(Input{G: level, Cfg: c, Ops: ops}, kind, wantProc(r)))
		}
	}
	stream(nGuard, "guarded-exact", 2, func(r *hlib.Rng) bool { return r.Chance(1, 4) })
	stream(nValid, "guarded-validity", 1, func(r *hlib.Rng) bool { return r.Chance(1, 2) })
	stream(nFree, "unrestricted", 0, func(r *hlib.Rng) bool { return r.Chance(1, 5) })
	procLeft = procBudget
	runs = append(runs, tcStreams(rng, opts.Thorough(), wantProc)...)
	nproc := runProcs(runs, 4)
	for _, cr := range runs {
		if cr.in.T == "tc" {
			cr.emitTc(out)
		} else {
			cr.emit(out)
		}
	}
	fmt.Printf("hC19: %d cases, %d fresh-process answers\n", out.Count(), nproc)
}

// runProcs answers the sampled queries in fresh OS processes (at most par at a time).
func runProcs(runs []*caseRun, par int) int {
	var reqs []*procReq
	for _, cr := range runs {
		for _, p := range cr.procs {
			if p != nil {
				reqs = append(reqs, p)
			}
		}
	}
	sem := make(chan struct{}, par)
	var wg sync.WaitGroup
	for _, p := range reqs {
		wg.Add(1)
		sem <- struct{}{}
		go func(p *procReq) {
			defer wg.Done()
			defer func() { <-sem }()
			a, err := freshProcess(p.cfg, p.op, p.objs)
			if err != nil {
				p.err = err
				return
			}
			p.ans = &a
		}(p)
	}
	wg.Wait()
	for _, p := range reqs {
		if p.err != nil {
			fmt.Println("fresh process failed:", p.err)
			os.Exit(3)
		}
	}
	return len(reqs)
}
