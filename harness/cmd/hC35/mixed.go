// mixed.go: peer lists with DIFFERENT reported heights (PeerInfoManager.PeerHeight)
// and latency orders that put a peer which is behind a requested height in
// front of the peers that have it.  availbTask walks the latency-sorted list
// and must skip - not stop at - a peer that is behind; the height filter only
// matters for such lists, and only for the heights above the fastest peer's.
//
// Every case of this stream is guarded: for every requested height some given
// peer reports a height >= it and answers it with the block, so the spec
// demands delivery of the whole range and no goroutine ever has to sleep (a
// run takes milliseconds).  When the implementation does leave a goroutine
// without a peer, it sleeps 50 x 400 ms in phase one and again in phase two:
// the cases therefore run in lane processes (several cases per process, one
// world each) next to the fast lane, with a budget that covers both phases, so
// that the run still ends and the missing delivery is reported with its input.
package main

import (
	"bufio"
	"encoding/json"
	"fmt"
	"os"
	"os/exec"
	"path/filepath"
	"sort"
	"sync"
	"time"

	"verifharness/hlib"
)

// ---------------------------------------------------------------- classification

func effLat(cs *caseSpec, p int) int64 {
	if p < 0 || p >= len(cs.Lat) || cs.Lat[p] == 0 {
		return 1000000000
	}
	return cs.Lat[p]
}

// latOrder: the given peers in the order of tasks.Sort (stable by latency; classification only)
func latOrder(cs *caseSpec) []int {
	var ps []int
	for _, p := range cs.Pids {
		if p >= 0 {
			ps = append(ps, p)
		}
	}
	sort.SliceStable(ps, func(a, b int) bool { return effLat(cs, ps[a]) < effLat(cs, ps[b]) })
	return ps
}

// behindFirst: for some requested height a peer that is behind it sorts before every peer that reports it
func behindFirst(cs *caseSpec) bool {
	ord := latOrder(cs)
	return len(ord) > 0 && cs.Adv[ord[0]] < cs.End
}

// someBehind: some given peer reports a height below a requested height
func someBehind(cs *caseSpec) bool {
	for _, p := range cs.Pids {
		if p >= 0 && p < len(cs.Adv) && cs.Adv[p] < cs.End {
			return true
		}
	}
	return false
}

// ---------------------------------------------------------------- generators

// mixedBudget covers 50 looks of 400 ms in phase one (all heights at once) and in phase two (one height after the other)
func mixedBudget(nh int) int { return 30 + 21*nh }

// the fixed members of the stream
func mixedWitnesses() []*caseSpec {
	var out []*caseSpec
	// "near" is fast and at height 5, "far" is slow and at height 8; 4..6: 4 and 5 come from near, 6 from far
	a := newSpec("guarded-mixed-behind-first", 3, 4)
	a.Pids = []int{0, 1}
	a.Lat = []int64{1000000, 5000000, 0, 0, 0, 0}
	a.Adv = []int64{5, 8, 0, 0, 0, 0}
	a.Beh[0] = []int{bOk, bOk, bRefuse}
	a.Budget = mixedBudget(3)
	out = append(out, a)
	// no latency sample at all: the order of the pid list decides; the peer that is behind is named first
	b := newSpec("guarded-mixed-behind-first", 2, 10)
	b.Pids = []int{2, 0}
	b.Lat = []int64{0, 0, 0, 0, 0, 0}
	b.Adv = []int64{11, 0, 9, 0, 0, 0}
	b.Beh[2] = []int{bOk, bOk}
	b.Budget = mixedBudget(2)
	out = append(out, b)
	// one height, three peers: behind / high enough but refusing / serving, in latency order
	c := newSpec("guarded-mixed-behind-first", 1, 7)
	c.Pids = []int{3, 4, 5}
	c.Lat = []int64{0, 0, 0, 3000000, 2000000, 1000000}
	c.Adv = []int64{0, 0, 0, 7, 9, 6}
	c.Beh[4] = []int{bRefuse}
	c.Beh[5] = []int{bOk}
	c.Budget = mixedBudget(1)
	out = append(out, c)
	// the peer that is behind sorts last: the filter is not needed for the outcome
	d := newSpec("guarded-mixed", 2, 20)
	d.Pids = []int{0, 1}
	d.Lat = []int64{1000000, 2000000, 0, 0, 0, 0}
	d.Adv = []int64{21, 20, 0, 0, 0, 0}
	d.Budget = mixedBudget(2)
	out = append(out, d)
	return out
}

// genMixed: 2-5 peers whose reported heights lie around the range (below some requested heights and
// at/above others), a latency order that usually starts with a peer that is behind, any failing
// behaviour (wrong heights included) - and for every height one peer that reports >= it and serves it.
func genMixed(rng *hlib.Rng, small bool) *caseSpec {
	nh := 1 + rng.Intn(3)
	if !small {
		nh = 2 + rng.Intn(4)
	}
	cs := newSpec("guarded-mixed", nh, int64(2+rng.Intn(500)))
	k := 2 + rng.Intn(2)
	if !small {
		k = 2 + rng.Intn(4)
	}
	peers := somePeers(rng, k)
	cs.Pids = peers
	// reported heights: Start-2 .. End+1, one peer covers the whole range
	for _, p := range peers {
		cs.Adv[p] = cs.Start - 2 + int64(rng.Intn(nh+4))
	}
	top := peers[rng.Intn(len(peers))]
	cs.Adv[top] = cs.End + int64(rng.Intn(3))
	// and one other peer is behind the end of the range
	for _, p := range peers {
		if p != top {
			if cs.Adv[p] >= cs.End {
				cs.Adv[p] = cs.Start - 1 + int64(rng.Intn(nh))
			}
			break
		}
	}
	// latencies: distinct, with ties, or unknown (then the pid order decides)
	switch rng.Intn(5) {
	case 0:
		for _, p := range peers {
			cs.Lat[p] = 0
		}
	case 1:
		randLat(rng, cs)
	default:
		perm := []int64{1, 2, 3, 4, 5, 6}
		hlib.Shuffle(rng, perm)
		for i, p := range peers {
			cs.Lat[p] = perm[i] * 1000000
		}
	}
	if rng.Chance(1, 3) && !behindFirst(cs) {
		// the fastest peer is one that is behind
		var low []int
		for _, p := range peers {
			if cs.Adv[p] < cs.End {
				low = append(low, p)
			}
		}
		if len(low) > 0 {
			p := hlib.Pick(rng, low)
			cs.Lat[p] = 500000
			// when all latencies are unknown the pid order decides
			for i, q := range cs.Pids {
				if q == p {
					cs.Pids[0], cs.Pids[i] = cs.Pids[i], cs.Pids[0]
				}
			}
		}
	}
	fillBeh(rng, cs, peers, 60, !small)
	// a peer that is behind may well have the block (stale peer info): it must not be asked
	// the guard: every height has a peer that reports >= it and serves it
	for i := 0; i < nh; i++ {
		h := cs.Start + int64(i)
		var can []int
		for _, p := range peers {
			if cs.Adv[p] >= h {
				can = append(can, p)
			}
		}
		cs.Beh[hlib.Pick(rng, can)][i] = bOk
	}
	if behindFirst(cs) {
		cs.Kind = "guarded-mixed-behind-first"
	}
	cs.Seed = rng.U64()
	cs.Variant = rng.Intn(5)
	cs.Budget = mixedBudget(nh)
	return cs
}

func mixedCases(rng *hlib.Rng, thorough bool) []*caseSpec {
	out := mixedWitnesses()
	n := 44
	if thorough {
		n = 600
	}
	for i := 0; i < n; i++ {
		out = append(out, genMixed(rng, i < n/2))
	}
	return out
}

// ---------------------------------------------------------------- lanes

type laneIn struct {
	Box   int         `json:"box"` // seconds after which no further case is started
	Specs []*caseSpec `json:"specs"`
}

type laneLine struct {
	I   int    `json:"i"`
	Res result `json:"res"`
}

// runLane: child process; the cases one after the other in one world, one flushed line per finished case
func runLane(dir string) {
	var in laneIn
	b, err := os.ReadFile(filepath.Join(dir, "lane.json"))
	if err != nil {
		panic(err)
	}
	if err := json.Unmarshal(b, &in); err != nil {
		panic(err)
	}
	f, err := os.Create(filepath.Join(dir, "results.jsonl"))
	if err != nil {
		panic(err)
	}
	defer f.Close()
	w := newWorld()
	t0 := time.Now()
	for i, cs := range in.Specs {
		if time.Since(t0) > time.Duration(in.Box)*time.Second {
			break
		}
		r := w.runCase(cs)
		lb, _ := json.Marshal(laneLine{I: i, Res: r})
		_, _ = f.Write(append(lb, '\n'))
		_ = f.Sync()
		if !r.Finished {
			// the task is still running inside this process
			break
		}
	}
}

// runLanes deals the cases round-robin to lane processes; res[i] == nil: case i was not run (the lane's
// time box was used up by earlier cases, which only happens when goroutines sleep)
func runLanes(outDir string, specs []*caseSpec, lanes, box int) []*result {
	res := make([]*result, len(specs))
	var wg sync.WaitGroup
	for l := 0; l < lanes; l++ {
		var idx []int
		for i := l; i < len(specs); i += lanes {
			idx = append(idx, i)
		}
		if len(idx) == 0 {
			continue
		}
		wg.Add(1)
		go func(l int, idx []int) {
			defer wg.Done()
			dir := filepath.Join(outDir, fmt.Sprintf("lane%d", l))
			_ = os.MkdirAll(dir, 0o755)
			_ = os.Remove(filepath.Join(dir, "results.jsonl"))
			in := laneIn{Box: box}
			for _, i := range idx {
				in.Specs = append(in.Specs, specs[i])
			}
			b, _ := json.Marshal(in)
			_ = os.WriteFile(filepath.Join(dir, "lane.json"), b, 0o644)
			cmd := exec.Command(os.Args[0], "--extra", "lane:"+dir)
			cmd.Stdout, cmd.Stderr = nil, nil
			runErr := cmd.Run()
			seen := 0
			if f, err := os.Open(filepath.Join(dir, "results.jsonl")); err == nil {
				sc := bufio.NewScanner(f)
				sc.Buffer(make([]byte, 1<<20), 1<<26)
				for sc.Scan() {
					var ln laneLine
					if json.Unmarshal(sc.Bytes(), &ln) == nil && ln.I == seen && ln.I < len(idx) {
						r := ln.Res
						res[idx[ln.I]] = &r
						seen++
					}
				}
				f.Close()
			}
			if runErr != nil && seen < len(idx) {
				// the lane process died (or never started): charged to the case it was running
				res[idx[seen]] = &result{Ack: "none", Odd: "lane process failed"}
			}
		}(l, idx)
	}
	wg.Wait()
	return res
}
