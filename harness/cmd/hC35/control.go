// control.go: runs one download task of the real protocol under a controller
// that serialises phase one: after the initial burst (every height goroutine
// has sent its first request or has nothing to ask) exactly one held request is
// answered at a time and the controller waits until that goroutine has sent
// its next request, delivered a block, or left the game (finished, or asleep
// with nothing left to ask), before it answers the next one.  Requests to a
// silent peer are set aside: the downloader's stream deadline ends them.
package main

import (
	"fmt"
	"sort"
	"time"

	"github.com/33cn/chain33/system/p2p/dht/protocol"
	"github.com/33cn/chain33/types"
	"github.com/libp2p/go-libp2p/core/peer"
	"verifharness/hlib"
)

// caseSpec is the replayable input of one case.
type caseSpec struct {
	Kind  string  `json:"kind"`
	Pids  []int   `json:"pids"` // >= 0: pool index, -1: undecodable string, -2: the downloader itself
	Conn  []int   `json:"conn"` // what ConnManager.FetchConnPeers returns (pool indexes)
	Lat   []int64 `json:"lat"`  // per pool index, ns (0 = unknown)
	Adv   []int64 `json:"adv"`  // per pool index, advertised height
	Start int64   `json:"start"`
	End   int64   `json:"end"`
	// Beh[p][i]: behaviour of peer p for height Start+i (bOk..bWrong); Wrong[p][i]: block height sent when bWrong
	Beh     [][]int   `json:"beh"`
	Wrong   [][]int64 `json:"wrong"`
	Variant int       `json:"variant"` // malformed variant base
	Fixed   []int64   `json:"fixed"`   // heights to answer first, in this order (when held); then random
	Seed    uint64    `json:"seed"`    // controller randomness
	Budget  int       `json:"budget"`  // seconds
}

// obs is one observable in controller order.
type obs struct {
	K string `json:"k"` // "req" | "del" | "init"
	H int64  `json:"h,omitempty"`
	P int    `json:"p,omitempty"`
	L []int  `json:"l,omitempty"` // init: pool indexes whose latency was asked
}

type result struct {
	Ack      string  `json:"ack"` // "ok" | "start>end" | "no pid" | "none"
	Trace    []obs   `json:"trace"`
	Replies  []int64 `json:"replies"` // heights answered in phase one, in order
	Order2   []int64 `json:"order2"`  // heights rechecked in phase two, in order
	Finished bool    `json:"finished"`
	Odd      string  `json:"odd,omitempty"` // anything the controller did not expect
	MaxConc  int     `json:"maxconc"`       // largest number of simultaneously held requests at one peer
	Millis   int64   `json:"ms"`
}

func (w *world) behOf(cs *caseSpec, p int, h int64) (int, int64) {
	i := h - cs.Start
	if p < 0 || p >= len(cs.Beh) || i < 0 || i >= int64(len(cs.Beh[p])) {
		return bRefuse, 0
	}
	return cs.Beh[p][i], cs.Wrong[p][i]
}

func (w *world) runCase(cs *caseSpec) (res result) {
	t0 := time.Now()
	defer func() { res.Millis = time.Since(t0).Milliseconds() }()
	rng := hlib.NewRng(cs.Seed)
	// configure the fakes
	w.mu.Lock()
	w.adv = map[peer.ID]int64{}
	w.lat = map[peer.ID]time.Duration{}
	for i, s := range w.servers {
		if i < len(cs.Adv) {
			w.adv[s.ID()] = cs.Adv[i]
		}
		if i < len(cs.Lat) {
			w.lat[s.ID()] = time.Duration(cs.Lat[i])
		}
	}
	w.conn = nil
	for _, c := range cs.Conn {
		if c >= 0 && c < len(w.servers) {
			w.conn = append(w.conn, w.servers[c].ID())
		}
	}
	w.stop = make(chan struct{})
	stop := w.stop
	w.mu.Unlock()
	defer close(stop)
	// drain stale events
	for drained := false; !drained; {
		select {
		case <-w.ev:
		default:
			drained = true
		}
	}
	var pids []string
	for _, p := range cs.Pids {
		switch {
		case p >= 0 && p < len(w.servers):
			pids = append(pids, w.servers[p].ID().String())
		case p == -2:
			pids = append(pids, w.dl.ID().String())
		default:
			pids = append(pids, fmt.Sprintf("not-a-peer-id-%d", -p))
		}
	}
	budget := time.Duration(cs.Budget) * time.Second
	if budget == 0 {
		budget = 20 * time.Second
	}
	deadline := time.After(budget)

	msg := w.cli.NewMessage("p2p", types.EventFetchBlocks, &types.ReqBlocks{Start: cs.Start, End: cs.End, Pid: pids})
	ackCh := make(chan string, 1)
	go func() {
		// the reply is put on the message's own channel by msg.Reply
		protocol.GetEventHandler(types.EventFetchBlocks).CallBack(msg)
		w.ev <- event{kind: evDone}
	}()
	go func() {
		r, err := w.cli.WaitTimeout(msg, budget)
		if err != nil {
			ackCh <- "none"
			return
		}
		switch v := r.Data.(type) {
		case types.Reply:
			ackCh <- string(v.Msg)
		case *types.Reply:
			ackCh <- string(v.Msg)
		default:
			ackCh <- "none"
		}
	}()
	select {
	case res.Ack = <-ackCh:
	case <-deadline:
		res.Ack = "none"
		res.Odd = "no acknowledgement"
		return
	}

	n := 0
	if cs.End >= cs.Start {
		n = int(cs.End - cs.Start + 1)
	}
	if res.Ack != "ok" {
		n = 0
	}
	held := map[int64]event{}
	perPeer := map[int]int{}
	inflight := n
	phase := 1
	var burst []obs
	inBurst := true
	var latRun []int
	flushLat := func() {
		if latRun != nil {
			res.Trace = append(res.Trace, obs{K: "init", L: latRun})
			latRun = nil
		}
	}
	record := func(o obs) {
		flushLat()
		if inBurst && o.K == "req" {
			burst = append(burst, o)
			return
		}
		res.Trace = append(res.Trace, o)
	}
	endBurst := func() {
		if !inBurst {
			return
		}
		inBurst = false
		sort.SliceStable(burst, func(a, b int) bool { return burst[a].H < burst[b].H })
		flushLat()
		res.Trace = append(res.Trace, burst...)
	}
	// after an accepted answer the block travels through the queue to the fake
	// blockchain; everything else that arrives meanwhile waits for it
	awaiting := false
	var awaitSince time.Time
	var pending []event
	// Silent peers: a request whose behaviour is stall is never answered.  The downloader's stream
	// deadline (10 s) ends it; what the goroutine does next (a new request, or nothing when it has
	// nobody left to ask) is the consequence of that "reply", so the height enters Replies when the
	// consequence is seen.  A request that is still pending after 13 s never ends.
	stalled := map[int64]time.Time{} // phase one: height -> since when its request is ignored
	var stalled2 time.Time           // phase two: since when the re-download waits for a silent peer
	resolveStalls := func() {
		var hs []int64
		for h := range stalled {
			hs = append(hs, h)
			delete(stalled, h)
		}
		sort.Slice(hs, func(a, b int) bool { return hs[a] < hs[b] })
		res.Replies = append(res.Replies, hs...)
	}
	answer := func(e event) {
		b, wh := w.behOf(cs, e.peer, e.height)
		a := action{beh: b, variant: cs.Variant + int(e.height) + e.peer, height: e.height}
		if b == bWrong {
			a.height = wh
		}
		perPeer[e.peer]--
		if b == bStall {
			// phase two (phase one sets the request aside before it gets here)
			stalled2 = time.Now()
			return
		}
		if b == bOk {
			// a block of another height is refused by the downloader: nothing to wait for
			awaiting = true
			awaitSince = time.Now()
		}
		e.act <- a
	}
	groupSize := 0
	var lastLat time.Time
	started := false // the first task list has been built and the goroutines run
	handle := func(e event) {
		if phase == 2 {
			stalled2 = time.Time{} // the re-download has moved on
		}
		switch e.kind {
		case evLat:
			if !started && len(latRun) > 0 && time.Since(lastLat) > time.Second {
				// the calls of one initJob are microseconds apart; the goroutines have been running for a while
				started = true
			}
			lastLat = time.Now()
			if started && phase == 1 {
				// a second initJob: phase two has begun
				groupSize = len(latRun)
				for _, o := range res.Trace {
					if o.K == "init" {
						groupSize = len(o.L)
						break
					}
				}
				flushLat()
				phase = 2
				endBurst()
				inflight = 0
				resolveStalls() // wg.Wait has returned: every goroutine of phase one is gone
				if len(held) > 0 {
					res.Odd = "phase two began while requests were held"
				}
			}
			latRun = append(latRun, e.peer)
			if phase == 2 && groupSize > 0 && len(latRun) == groupSize {
				// every initJob asks for the same peers: one group per re-download
				flushLat()
			}
		case evReq:
			started = true
			if e.end != e.height {
				res.Odd = "request with start != end"
			}
			perPeer[e.peer]++
			if perPeer[e.peer] > res.MaxConc {
				res.MaxConc = perPeer[e.peer]
			}
			if phase == 2 {
				record(obs{K: "req", H: e.height, P: e.peer})
				if len(res.Order2) == 0 || res.Order2[len(res.Order2)-1] != e.height {
					res.Order2 = append(res.Order2, e.height)
				}
				answer(e)
				return
			}
			if _, dup := held[e.height]; dup {
				res.Odd = "two outstanding requests for one height"
			}
			if _, st := stalled[e.height]; st {
				// the ignored request has run into the stream deadline and the goroutine asks the next peer
				delete(stalled, e.height)
				res.Replies = append(res.Replies, e.height)
				record(obs{K: "req", H: e.height, P: e.peer})
				held[e.height] = e
				return
			}
			record(obs{K: "req", H: e.height, P: e.peer})
			held[e.height] = e
			if inflight > 0 {
				inflight--
			}
		case evDeliver:
			started = true
			p := e.peer
			if p < 0 {
				p = 99
			}
			record(obs{K: "del", H: e.height, P: p})
			if phase == 1 && inflight > 0 {
				inflight--
			}
		case evDone:
			flushLat()
			endBurst()
			resolveStalls()
			res.Finished = true
		}
	}
	var dispatch func(e event)
	flushPending := func() {
		ps := pending
		pending = nil
		for _, x := range ps {
			dispatch(x)
		}
	}
	dispatch = func(e event) {
		if awaiting && e.kind != evDeliver {
			pending = append(pending, e)
			return
		}
		if e.kind == evReq && phase == 1 && inflight > 0 {
			if _, st := stalled[e.height]; st {
				// a stream deadline fired while another goroutine is being waited for: one at a time
				pending = append(pending, e)
				return
			}
		}
		handle(e)
		if e.kind == evDeliver && awaiting {
			awaiting = false
			flushPending()
		}
	}
	checkAwait := func() {
		if awaiting && time.Since(awaitSince) > 2*time.Second {
			awaiting = false // the block never arrived
			flushPending()
		}
	}
	// settle: wait until no phase-one goroutine is in flight
	settle := func() bool {
		for (inflight > 0 || awaiting) && !res.Finished && phase == 1 {
			select {
			case e := <-w.ev:
				dispatch(e)
			case <-time.After(4 * time.Millisecond):
				checkAwait()
				if awaiting || inflight == 0 {
					continue
				}
				live, sleeping, reading, _, inWait := census()
				if inWait && sleeping+reading == live && reading <= len(held)+len(stalled) {
					inflight = 0
				}
			case <-deadline:
				res.Odd = "budget exhausted while settling"
				return false
			}
		}
		if !awaiting && len(pending) > 0 {
			flushPending()
		}
		return true
	}
	// stallOver looks after the requests that nobody answers.  true = one of them is still
	// pending 13 s after it was made (the downloader's deadline is 10 s): it never ends.
	stallOver := func() bool {
		oldest := stalled2
		for _, t := range stalled {
			if oldest.IsZero() || t.Before(oldest) {
				oldest = t
			}
		}
		if oldest.IsZero() || time.Since(oldest) < 10500*time.Millisecond {
			return false
		}
		_, _, reading, reading2, _ := census()
		if len(stalled) > 0 && reading <= len(held) {
			// nobody waits for the silent peer any more and nothing new was asked:
			// the goroutine had nobody left to ask (it returned, or sleeps)
			resolveStalls()
		}
		if !stalled2.IsZero() && !reading2 {
			stalled2 = time.Time{}
		}
		if len(stalled) == 0 && stalled2.IsZero() {
			return false
		}
		return time.Since(oldest) > 13*time.Second
	}
	if !settle() {
		return
	}
	started = true
	endBurst()
	fixed := append([]int64(nil), cs.Fixed...)
	for !res.Finished {
		if phase == 1 && len(held) > 0 && !awaiting {
			var hs []int64
			for h := range held {
				hs = append(hs, h)
			}
			sort.Slice(hs, func(a, b int) bool { return hs[a] < hs[b] })
			pick := int64(-1)
			for len(fixed) > 0 && pick < 0 {
				if _, ok := held[fixed[0]]; ok {
					pick = fixed[0]
				}
				fixed = fixed[1:]
			}
			if pick < 0 {
				pick = hs[rng.Intn(len(hs))]
			}
			e := held[pick]
			delete(held, pick)
			if b, _ := w.behOf(cs, e.peer, e.height); b == bStall {
				// never answered; everybody else carries on
				perPeer[e.peer]--
				stalled[pick] = time.Now()
				continue
			}
			res.Replies = append(res.Replies, pick)
			inflight = 1
			answer(e)
			if !settle() {
				return
			}
			continue
		}
		select {
		case e := <-w.ev:
			dispatch(e)
		case <-time.After(200 * time.Millisecond):
			checkAwait()
			if stallOver() {
				// a goroutine still waits for the silent peer: the task does not return
				flushLat()
				endBurst()
				return
			}
		case <-deadline:
			res.Odd = "budget exhausted"
			return
		}
	}
	return
}
