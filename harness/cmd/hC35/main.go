package main

import (
	"encoding/json"
	"fmt"

	log "github.com/33cn/chain33/common/log/log15"
)

func uniform(n, h int, b int) ([][]int, [][]int64) {
	beh := make([][]int, n)
	wr := make([][]int64, n)
	for i := range beh {
		beh[i] = make([]int, h)
		wr[i] = make([]int64, h)
		for j := range beh[i] {
			beh[i][j] = b
		}
	}
	return beh, wr
}

func main() {
	log.Root().SetHandler(log.DiscardHandler())
	w := newWorld()
	// witness: 3 peers, P0 adv 1, P1,P2 adv 2; heights 1..2; P0 refuses h1, P1 refuses h2
	beh, wr := uniform(6, 2, bOk)
	beh[0][0] = bRefuse
	beh[1][1] = bRefuse
	cs := &caseSpec{Kind: "w", Pids: []int{0, 1, 2}, Lat: []int64{1, 2, 3, 4, 5, 6}, Adv: []int64{1, 2, 2, 9, 9, 9},
		Start: 1, End: 2, Beh: beh, Wrong: wr, Fixed: []int64{1, 2}, Seed: 1}
	for i := 0; i < 3; i++ {
		r := w.runCase(cs)
		b, _ := json.Marshal(r)
		fmt.Println(string(b))
	}
	beh, wr = uniform(6, 4, bRefuse)
	cs = &caseSpec{Kind: "w", Pids: []int{0, 1, 2, -1, -2}, Lat: []int64{0, 2, 0, 4, 5, 6}, Adv: []int64{9, 9, 9, 9, 9, 9},
		Start: 1, End: 4, Beh: beh, Wrong: wr, Seed: 7}
	r := w.runCase(cs)
	b, _ := json.Marshal(r)
	fmt.Println(string(b))
}
