// hC35: runs chain33's block download protocol (system/p2p/dht/protocol/download)
// between in-process libp2p hosts.  The downloading host executes the real
// handleEventDownloadBlock / downloadBlock / checkTask; the serving hosts hand
// every request to a controller that answers according to the generated
// behaviour (ok / refuse / stall / malformed / wrong height) and fixes the
// interleaving of the height goroutines (control.go).  One case = one task
// with everything the peers and a fake blockchain module saw.  A silent peer
// (stall) is never answered: the downloader's 10 s stream deadline ends the
// request.
//
// No hook file in /repo is used.
package main

import (
	"encoding/json"
	"fmt"
	"os"
	"os/exec"
	"path/filepath"
	"strings"
	"sync"

	log "github.com/33cn/chain33/common/log/log15"
	"verifharness/hlib"
)

// ---------------------------------------------------------------- Coq rendering

func respTerm(b int, wrong int64) string {
	switch b {
	case bOk:
		return "ROk"
	case bRefuse:
		return "RRefuse"
	case bStall:
		return "RStall"
	case bMalformed:
		return "RMalformed"
	default:
		return "(W " + hlib.Z(wrong) + ")"
	}
}

func natList(xs []int) string {
	it := make([]string, len(xs))
	for i, x := range xs {
		it[i] = fmt.Sprint(x)
	}
	return "([" + strings.Join(it, "; ") + "]%nat)"
}

func zList(xs []int64) string {
	it := make([]string, len(xs))
	for i, x := range xs {
		it[i] = hlib.Z(x)
	}
	return hlib.List(it)
}

func coqCase(cs *caseSpec, r *result) string {
	var pids []string
	for _, p := range cs.Pids {
		switch {
		case p >= 0:
			pids = append(pids, fmt.Sprintf("P %d%%nat", p))
		case p == -2:
			pids = append(pids, "PSelf")
		default:
			pids = append(pids, "PBad")
		}
	}
	np := 0
	for _, p := range append(append([]int(nil), cs.Pids...), cs.Conn...) {
		if p+1 > np {
			np = p + 1
		}
	}
	var lat, beh []string
	for p := 0; p < np; p++ {
		lat = append(lat, hlib.N(uint64(cs.Lat[p])))
		var row []string
		for i := range cs.Beh[p] {
			row = append(row, respTerm(cs.Beh[p][i], cs.Wrong[p][i]))
		}
		beh = append(beh, hlib.List(row))
	}
	ack := "None"
	switch r.Ack {
	case "ok":
		ack = "(Some AckOk)"
	case "start>end":
		ack = "(Some AckStartGtEnd)"
	case "no pid":
		ack = "(Some AckNoPid)"
	}
	var tr []string
	for _, o := range r.Trace {
		switch o.K {
		case "init":
			tr = append(tr, "I "+natList(o.L))
		case "req":
			tr = append(tr, fmt.Sprintf("Q %s %d%%nat", hlib.Z(o.H), o.P))
		case "del":
			tr = append(tr, fmt.Sprintf("D %s %d%%nat", hlib.Z(o.H), o.P))
		}
	}
	return hlib.App("Case", hlib.List(pids), natList(cs.Conn), hlib.List(lat), zList(cs.Adv[:np]),
		hlib.List(beh), hlib.Z(cs.Start), hlib.Z(cs.End), ack, zList(r.Replies), hlib.List(tr),
		hlib.Bool(r.Finished), hlib.Bool(r.Odd != ""))
}

// nontrivial: the task had something to tolerate or to reject
func nontrivial(cs *caseSpec, r *result) bool {
	if r.Ack != "ok" {
		return true
	}
	for _, o := range r.Trace {
		if o.K == "req" {
			if b, _ := (&world{}).behOf(cs, o.P, o.H); b != bOk {
				return true
			}
		}
	}
	// or the height filter of availbTask had to pass over a peer
	return someBehind(cs)
}

// ---------------------------------------------------------------- generators

func newSpec(kind string, nh int, start int64) *caseSpec {
	cs := &caseSpec{Kind: kind, Start: start, End: start + int64(nh) - 1,
		Lat: make([]int64, poolSize), Adv: make([]int64, poolSize),
		Beh: make([][]int, poolSize), Wrong: make([][]int64, poolSize), Conn: []int{}}
	for p := 0; p < poolSize; p++ {
		cs.Adv[p] = cs.End + 5
		cs.Beh[p] = make([]int, nh)
		cs.Wrong[p] = make([]int64, nh)
	}
	return cs
}

func somePeers(rng *hlib.Rng, k int) []int {
	all := []int{0, 1, 2, 3, 4, 5}
	hlib.Shuffle(rng, all)
	return append([]int(nil), all[:k]...)
}

var failKinds = []int{bRefuse, bRefuse, bMalformed}

func randLat(rng *hlib.Rng, cs *caseSpec) {
	for p := range cs.Lat {
		switch rng.Intn(4) {
		case 0:
			cs.Lat[p] = 0 // unknown -> one second
		case 1:
			cs.Lat[p] = 1000000000
		default:
			cs.Lat[p] = int64(1+rng.Intn(4)) * 1000000
		}
	}
}

// fillBeh: per peer a profile (healthy, dead, flaky per height), all peers high enough
func fillBeh(rng *hlib.Rng, cs *caseSpec, peers []int, pFail int, wrong bool) {
	nh := int(cs.End - cs.Start + 1)
	for _, p := range peers {
		profile := rng.Intn(100)
		for i := 0; i < nh; i++ {
			b := bOk
			switch {
			case profile < pFail/2: // dead for every height
				b = hlib.Pick(rng, failKinds)
			case profile < pFail+20: // fails some heights
				if rng.Chance(1, 2) {
					b = hlib.Pick(rng, failKinds)
				}
			}
			if wrong && rng.Chance(1, 6) {
				b = bWrong
				if rng.Chance(1, 2) && nh > 1 {
					// another height of the range
					cs.Wrong[p][i] = cs.Start + int64((i+1+rng.Intn(nh-1))%nh)
				} else {
					cs.Wrong[p][i] = cs.End + 1 + int64(rng.Intn(3))
				}
			}
			cs.Beh[p][i] = b
		}
	}
}

func genSingle(rng *hlib.Rng, guarded bool) *caseSpec {
	kind := "single"
	if guarded {
		kind = "guarded-single"
	}
	cs := newSpec(kind, 1, int64(1+rng.Intn(50)))
	peers := somePeers(rng, 1+rng.Intn(5))
	cs.Pids = peers
	randLat(rng, cs)
	fillBeh(rng, cs, peers, 60, false)
	if guarded {
		// some peer serves the height
		cs.Beh[peers[rng.Intn(len(peers))]][0] = bOk
	} else if rng.Chance(1, 4) {
		// decorate the pid list
		var dec []int
		for _, p := range peers {
			if rng.Chance(1, 3) {
				dec = append(dec, -1)
			}
			if rng.Chance(1, 4) {
				dec = append(dec, -2)
			}
			dec = append(dec, p)
		}
		cs.Pids = dec
	}
	cs.Seed = rng.U64()
	cs.Variant = rng.Intn(5)
	return cs
}

func genMulti(rng *hlib.Rng, kind string) *caseSpec {
	nh := 2 + rng.Intn(4)
	if rng.Chance(1, 8) {
		nh = 6 + rng.Intn(7)
	}
	cs := newSpec(kind, nh, int64(1+rng.Intn(1000)))
	peers := somePeers(rng, 2+rng.Intn(4))
	cs.Pids = peers
	randLat(rng, cs)
	switch kind {
	case "guarded-multi":
		// peers fail in every way (wrong heights included), but every height is served by
		// somebody: no height fails in phase one, so nothing may go wrong at all
		fillBeh(rng, cs, peers, 70, true)
		for i := 0; i < nh; i++ {
			cs.Beh[peers[rng.Intn(len(peers))]][i] = bOk
		}
	case "wrong":
		fillBeh(rng, cs, peers, 50, true)
	default:
		fillBeh(rng, cs, peers, 70, false)
	}
	cs.Seed = rng.U64()
	cs.Variant = rng.Intn(5)
	return cs
}

func genAck(rng *hlib.Rng, i int) *caseSpec {
	cs := newSpec("ack", 2, 10)
	randLat(rng, cs)
	peers := somePeers(rng, 2)
	fillBeh(rng, cs, peers, 40, false)
	switch i % 6 {
	case 0: // start > end
		cs.Pids = peers
		cs.Start, cs.End = 11, 10
	case 1: // no pid at all
		cs.Pids = []int{}
	case 2: // nothing decodes: the connected peers are used
		cs.Pids = []int{-1, -1}
		cs.Conn = peers
	case 3: // nothing decodes and nobody is connected
		cs.Pids = []int{-1}
	case 4: // only the downloader itself
		cs.Pids = []int{-2}
		cs.Conn = peers
	case 5: // a peer named twice
		cs.Kind = "dup"
		cs.Pids = []int{peers[0], peers[1], peers[0]}
	}
	cs.Seed = rng.U64()
	return cs
}

// the witnesses of the findings (three fixed in chain33, one open), with all peers high enough (no sleeping)
func witnesses() []*caseSpec {
	var out []*caseSpec
	// aliasing (fixed by 203ed0e): P0 refuses both heights, P1 serves both, P2 serves the first only.
	// With tasks.Remove the goroutine of height 1 removed P0 and picked P1 (Index 0); the goroutine of
	// height 2 then removed index 0 of its longer view (= P1), kept [P2,P2], asked P2 twice and gave up.
	a := newSpec("witness-alias", 2, 1)
	a.Pids = []int{0, 1, 2}
	a.Beh[0] = []int{bRefuse, bRefuse}
	a.Beh[2] = []int{bOk, bRefuse}
	a.Fixed = []int64{1, 2, 2, 2}
	out = append(out, a)
	// wrong height (accepted before be3c9ca)
	b := newSpec("witness-wrong", 1, 1)
	b.Pids = []int{0, 1}
	b.Beh[0] = []int{bWrong}
	b.Wrong[0] = []int64{2}
	out = append(out, b)
	// second phase asks the failed peer again (open finding)
	c := newSpec("witness-again", 1, 1)
	c.Pids = []int{0}
	c.Beh[0] = []int{bRefuse}
	out = append(out, c)
	return out
}

// slow cases (own process each): sleeping goroutines and real timeouts
func slowCases(rng *hlib.Rng, thorough bool) []*caseSpec {
	var out []*caseSpec
	// the model's example cfg_lost (the former aliasing witness): one goroutine ends up with nobody to ask and sleeps out its retries
	a := newSpec("slow-lost", 2, 1)
	a.Pids = []int{0, 1, 2}
	a.Adv = []int64{1, 2, 0, 0, 0, 0}
	a.Beh[0] = []int{bRefuse, bOk}
	a.Beh[1] = []int{bOk, bRefuse}
	a.Fixed = []int64{2, 1}
	a.Budget = 70
	out = append(out, a)
	// the model's example cfg_reask (the former aliasing witness)
	b := newSpec("slow-reask", 2, 1)
	b.Pids = []int{0, 1}
	b.Adv = []int64{1, 2, 0, 0, 0, 0}
	b.Beh[0] = []int{bRefuse, bOk}
	b.Beh[1] = []int{bOk, bRefuse}
	b.Fixed = []int64{1, 2}
	b.Budget = 70
	out = append(out, b)
	// a silent peer in front of a healthy one: the stream deadline (10 s) ends the request (85423f4)
	c := newSpec("slow-stall", 1, 7)
	c.Pids = []int{0, 1}
	c.Lat = []int64{1, 2, 3, 4, 5, 6}
	c.Beh[0] = []int{bStall}
	c.Budget = 40
	out = append(out, c)
	// silent for one height only, the other goroutine carries on
	c2 := newSpec("slow-stall", 2, 3)
	c2.Pids = []int{0, 1}
	c2.Lat = []int64{1, 2, 3, 4, 5, 6}
	c2.Beh[0] = []int{bStall, bRefuse}
	c2.Fixed = []int64{4, 3}
	c2.Budget = 40
	out = append(out, c2)
	// the only peer is silent: the deadline ends the request in phase one, nobody is left, and
	// checkTask asks the silent peer again (open finding 2) and waits for the deadline once more
	c3 := newSpec("slow-stall", 1, 5)
	c3.Pids = []int{0}
	c3.Beh[0] = []int{bStall}
	c3.Budget = 50
	out = append(out, c3)
	// a silent peer in front of a peer that is too low: after the deadline the goroutine sleeps out its retries
	c4 := newSpec("slow-stall-sleep", 1, 5)
	c4.Pids = []int{0, 1}
	c4.Lat = []int64{1, 2, 3, 4, 5, 6}
	c4.Adv = []int64{9, 3, 0, 0, 0, 0}
	c4.Beh[0] = []int{bStall}
	c4.Budget = 100
	out = append(out, c4)
	// nobody high enough: 50 looks, twice
	d := newSpec("slow-low", 1, 9)
	d.Pids = []int{0, 1}
	d.Adv = []int64{8, 3, 0, 0, 0, 0}
	d.Budget = 70
	out = append(out, d)
	if thorough {
		for i := 0; i < 8; i++ {
			nh := 2 + rng.Intn(2)
			e := newSpec("slow-mixed", nh, int64(1+rng.Intn(20)))
			peers := somePeers(rng, 2+rng.Intn(2))
			e.Pids = peers
			randLat(rng, e)
			fillBeh(rng, e, peers, 60, false)
			for _, p := range peers {
				e.Adv[p] = e.Start - 1 + int64(rng.Intn(nh+1))
			}
			if rng.Chance(1, 3) {
				e.Beh[peers[0]][0] = bStall
			}
			e.Seed = rng.U64()
			e.Budget = 150
			out = append(out, e)
		}
	}
	return out
}

// ---------------------------------------------------------------- driver

type childOut struct {
	Spec *caseSpec `json:"spec"`
	Res  result    `json:"res"`
}

func runChild(dir string) {
	var cs caseSpec
	b, err := os.ReadFile(filepath.Join(dir, "spec.json"))
	if err != nil {
		panic(err)
	}
	if err := json.Unmarshal(b, &cs); err != nil {
		panic(err)
	}
	w := newWorld()
	r := w.runCase(&cs)
	ob, _ := json.Marshal(childOut{Spec: &cs, Res: r})
	if err := os.WriteFile(filepath.Join(dir, "result.json"), ob, 0o644); err != nil {
		panic(err)
	}
}

func main() {
	opts := hlib.ParseFlags()
	log.Root().SetHandler(log.DiscardHandler())
	if strings.HasPrefix(opts.Extra, "child:") {
		runChild(strings.TrimPrefix(opts.Extra, "child:"))
		return
	}
	if strings.HasPrefix(opts.Extra, "lane:") {
		runLane(strings.TrimPrefix(opts.Extra, "lane:"))
		return
	}
	out := hlib.NewOut(opts.OutDir)
	defer out.Close()
	emit := func(cs *caseSpec, r *result) {
		out.Emit(cs.Kind, nontrivial(cs, r), coqCase(cs, r), cs, r)
	}
	emitLimit := func(ls *limitSpec, r *limitResult) {
		term := hlib.App("CaseLimit", hlib.Nat(ls.Heights), hlib.Z(int64(r.BurstHeld)), hlib.Z(int64(r.MaxConc)),
			hlib.Nat(r.Delivered), hlib.Bool(r.Finished))
		out.Emit(ls.Kind, true, term, ls, r)
	}
	if opts.Replay != "" {
		var probe limitSpec
		if err := hlib.ReplayInput(opts.Replay, &probe); err == nil && probe.Limit {
			w := newWorld()
			r := w.runLimit(&probe)
			emitLimit(&probe, &r)
			return
		}
		var cs caseSpec
		if err := hlib.ReplayInput(opts.Replay, &cs); err != nil {
			panic(err)
		}
		w := newWorld()
		r := w.runCase(&cs)
		emit(&cs, &r)
		return
	}
	rng := hlib.NewRng(opts.Seed)

	// slow cases run in child processes next to the fast lane
	slow := slowCases(rng.Fork(), opts.Thorough())
	slowRes := make([]*childOut, len(slow))
	var wg sync.WaitGroup
	sem := make(chan struct{}, 6)
	for i, cs := range slow {
		wg.Add(1)
		go func(i int, cs *caseSpec) {
			defer wg.Done()
			sem <- struct{}{}
			defer func() { <-sem }()
			dir := filepath.Join(opts.OutDir, fmt.Sprintf("slow%d", i))
			_ = os.MkdirAll(dir, 0o755)
			b, _ := json.Marshal(cs)
			_ = os.WriteFile(filepath.Join(dir, "spec.json"), b, 0o644)
			_ = os.Remove(filepath.Join(dir, "result.json"))
			cmd := exec.Command(os.Args[0], "--extra", "child:"+dir)
			cmd.Stdout, cmd.Stderr = nil, nil
			_ = cmd.Run()
			var co childOut
			if rb, err := os.ReadFile(filepath.Join(dir, "result.json")); err == nil && json.Unmarshal(rb, &co) == nil {
				slowRes[i] = &co
			} else {
				slowRes[i] = &childOut{Spec: cs, Res: result{Ack: "none", Odd: "child process failed"}}
			}
		}(i, cs)
	}

	// mixed reported heights: lane processes next to the fast lane
	mixed := mixedCases(rng.Fork(), opts.Thorough())
	var mixedRes []*result
	wg.Add(1)
	go func() {
		defer wg.Done()
		box := 45
		if opts.Thorough() {
			box = 600
		}
		mixedRes = runLanes(opts.OutDir, mixed, 3, box)
	}()

	w := newWorld()
	healthy := true
	run := func(cs *caseSpec) {
		if !healthy {
			return
		}
		r := w.runCase(cs)
		emit(cs, &r)
		if !r.Finished {
			// the task is still running inside this process: nothing after it can be trusted
			healthy = false
		}
	}
	for _, cs := range witnesses() {
		run(cs)
	}
	// the per-peer limit (50 for a single peer): 52-54 heights, at least two goroutines sleep
	for i := 0; i < 2 && healthy; i++ {
		ls := &limitSpec{Kind: "limit", Heights: 52 + rng.Intn(3), Limit: true}
		r := w.runLimit(ls)
		emitLimit(ls, &r)
		if !r.Finished {
			healthy = false
		}
	}
	n := 120
	if opts.Thorough() {
		n = 1500
	}
	for i := 0; i < 6; i++ {
		run(genAck(rng, i))
	}
	for i := 0; i < n; i++ {
		run(genSingle(rng, i%3 == 0))
		run(genMulti(rng, "multi"))
		run(genMulti(rng, "multi"))
		if i%2 == 0 {
			run(genMulti(rng, "wrong"))
		}
		if i%4 == 0 {
			run(genMulti(rng, "guarded-multi"))
		}
		if i%10 == 0 {
			run(genAck(rng, i/10))
		}
	}
	wg.Wait()
	mixedRun := 0
	for i, r := range mixedRes {
		if r != nil {
			emit(mixed[i], r)
			mixedRun++
		}
	}
	for _, co := range slowRes {
		emit(co.Spec, &co.Res)
	}
	fmt.Printf("hC35: %d cases (fast lane healthy: %v; mixed-height lanes ran %d of %d)\n", out.Count(), healthy, mixedRun, len(mixed))
}
