// limit.go: the per-peer limit of availbTask (TaskNum < limit, limit = 128/len
// clamped to [20,50]) and the sleep/retry path.  One healthy peer, more heights
// than its limit: the surplus goroutines sleep and get a slot only when
// releaseJob has freed one.
package main

import (
	"time"

	"github.com/33cn/chain33/system/p2p/dht/protocol"
	"github.com/33cn/chain33/types"
	"github.com/libp2p/go-libp2p/core/peer"
)

type limitSpec struct {
	Kind    string `json:"kind"`
	Heights int    `json:"heights"`
	Limit   bool   `json:"limit"` // marks the replay format
}

type limitResult struct {
	BurstHeld int   `json:"burst_held"`
	MaxConc   int   `json:"maxconc"`
	Delivered int   `json:"delivered"`
	Finished  bool  `json:"finished"`
	Millis    int64 `json:"ms"`
}

func (w *world) runLimit(ls *limitSpec) (res limitResult) {
	t0 := time.Now()
	defer func() { res.Millis = time.Since(t0).Milliseconds() }()
	cs := newSpec(ls.Kind, ls.Heights, 1)
	cs.Pids = []int{0}
	cs.Lat[0] = 1
	w.mu.Lock()
	w.adv = map[peer.ID]int64{w.servers[0].ID(): cs.End + 5}
	w.lat = map[peer.ID]time.Duration{w.servers[0].ID(): 1}
	w.conn = nil
	w.stop = make(chan struct{})
	stop := w.stop
	w.mu.Unlock()
	defer close(stop)
	for drained := false; !drained; {
		select {
		case <-w.ev:
		default:
			drained = true
		}
	}
	msg := w.cli.NewMessage("p2p", types.EventFetchBlocks,
		&types.ReqBlocks{Start: cs.Start, End: cs.End, Pid: []string{w.servers[0].ID().String()}})
	go func() {
		protocol.GetEventHandler(types.EventFetchBlocks).CallBack(msg)
		w.ev <- event{kind: evDone}
	}()
	deadline := time.After(60 * time.Second)
	var held []event
	outstanding := 0
	delivered := map[int64]bool{}
	ok := func(e event) { outstanding--; e.act <- action{beh: bOk, height: e.height} }
	take := func(e event) {
		switch e.kind {
		case evReq:
			held = append(held, e)
			outstanding++
			if outstanding > res.MaxConc {
				res.MaxConc = outstanding
			}
		case evDeliver:
			delivered[e.height] = true
		case evDone:
			res.Finished = true
		}
	}
	// 1. the burst: until every goroutine waits for an answer or sleeps
	for quiet := false; !quiet; {
		select {
		case e := <-w.ev:
			take(e)
		case <-time.After(5 * time.Millisecond):
			live, sleeping, _, _, inWait := census()
			if inWait && len(held)+sleeping == live {
				quiet = true
			}
		case <-deadline:
			return
		}
	}
	res.BurstHeld = len(held)
	// 2. one answer frees one slot; the sleepers look again every 400 ms
	if len(held) > 0 {
		ok(held[0])
		held = held[1:]
	}
	settle := time.After(1500 * time.Millisecond)
	for waiting := true; waiting; {
		select {
		case e := <-w.ev:
			take(e)
		case <-settle:
			waiting = false
		case <-deadline:
			return
		}
	}
	// 3. answer everything
	for !res.Finished {
		for _, e := range held {
			ok(e)
		}
		held = nil
		select {
		case e := <-w.ev:
			take(e)
		case <-deadline:
			res.Delivered = len(delivered)
			return
		}
	}
	// blocks may still be on their way through the queue
	for t := time.After(2 * time.Second); len(delivered) < ls.Heights; {
		select {
		case e := <-w.ev:
			take(e)
		case <-t:
			res.Delivered = len(delivered)
			return
		}
	}
	res.Delivered = len(delivered)
	return
}
