// world.go: the in-process network of hC35 - one downloading libp2p host that
// runs chain33's real download protocol, a pool of serving libp2p hosts whose
// stream handlers hand every request to the controller, a fake blockchain
// module that collects EventSyncBlock, and fakes for the two interfaces the
// protocol queries (peer heights, peer latencies).
package main

import (
	"context"
	"crypto/ed25519"
	"fmt"
	"runtime"
	"strings"
	"sync"
	"time"

	"github.com/33cn/chain33/queue"
	"github.com/33cn/chain33/system/p2p/dht/protocol"
	_ "github.com/33cn/chain33/system/p2p/dht/protocol/download"
	"github.com/33cn/chain33/types"
	"github.com/libp2p/go-libp2p"
	"github.com/libp2p/go-libp2p/core/crypto"
	"github.com/libp2p/go-libp2p/core/host"
	"github.com/libp2p/go-libp2p/core/metrics"
	"github.com/libp2p/go-libp2p/core/network"
	"github.com/libp2p/go-libp2p/core/peer"
	"github.com/libp2p/go-libp2p/core/peerstore"
	"github.com/libp2p/go-msgio"
)

const (
	protoOld = "/chain33/downloadBlockReq/1.0.0"
	poolSize = 6
)

// behaviour codes (also the wire format of the case input)
const (
	bOk = iota
	bRefuse
	bStall
	bMalformed
	bWrong
)

// ---------------------------------------------------------------- events seen by the controller

type evKind int

const (
	evReq     evKind = iota // a serving peer received a block request
	evDeliver               // the fake blockchain received EventSyncBlock
	evLat                   // the protocol asked the peerstore for a peer's latency (initJob)
	evDone                  // handleEventDownloadBlock returned
)

type action struct {
	beh     int
	variant int   // malformed variant
	height  int64 // block height to answer with (ok / wrong)
}

type event struct {
	kind   evKind
	peer   int // pool index
	height int64
	end    int64
	act    chan action
}

type world struct {
	dl      host.Host
	servers []host.Host
	pidIdx  map[peer.ID]int
	q       queue.Queue
	cli     queue.Client
	ev      chan event

	mu     sync.Mutex
	adv    map[peer.ID]int64
	lat    map[peer.ID]time.Duration
	conn   []peer.ID
	caseNo int
	stop   chan struct{} // closed at the end of a case: releases stalled handlers
}

// ---- fakes

type peerInfo struct{ w *world }

func (p *peerInfo) Refresh(info *types.Peer)      {}
func (p *peerInfo) Fetch(pid peer.ID) *types.Peer { return nil }
func (p *peerInfo) FetchAll() []*types.Peer       { return nil }
func (p *peerInfo) PeerHeight(pid peer.ID) int64 {
	p.w.mu.Lock()
	defer p.w.mu.Unlock()
	if h, ok := p.w.adv[pid]; ok {
		return h
	}
	return -1
}
func (p *peerInfo) PeerMaxHeight() int64 { return 0 }

type connMgr struct{ w *world }

func (c *connMgr) FetchConnPeers() []peer.ID {
	c.w.mu.Lock()
	defer c.w.mu.Unlock()
	return append([]peer.ID(nil), c.w.conn...)
}
func (c *connMgr) BoundSize() (int, int)                          { return 0, 0 }
func (c *connMgr) GetNetRate() metrics.Stats                      { return metrics.Stats{} }
func (c *connMgr) BandTrackerByProtocol() *types.NetProtocolInfos { return nil }
func (c *connMgr) RateCalculate(ratebytes float64) string         { return "" }

// latStore overrides LatencyEWMA of the real peerstore.
type latStore struct {
	peerstore.Peerstore
	w *world
}

func (s *latStore) LatencyEWMA(p peer.ID) time.Duration {
	s.w.mu.Lock()
	d := s.w.lat[p]
	idx, ok := s.w.pidIdx[p]
	s.w.mu.Unlock()
	if !ok {
		idx = -1
	}
	s.w.ev <- event{kind: evLat, peer: idx}
	return d
}

type dlHost struct {
	host.Host
	ps *latStore
}

func (h *dlHost) Peerstore() peerstore.Peerstore { return h.ps }

// ---- construction

func detKey(tag byte, i int) crypto.PrivKey {
	seed := make([]byte, ed25519.SeedSize)
	copy(seed, []byte("hC35-deterministic-key"))
	seed[30], seed[31] = tag, byte(i)
	sk, err := crypto.UnmarshalEd25519PrivateKey(ed25519.NewKeyFromSeed(seed))
	if err != nil {
		panic(err)
	}
	return sk
}

func newHost(sk crypto.PrivKey) host.Host {
	h, err := libp2p.New(
		libp2p.Identity(sk),
		libp2p.ListenAddrStrings("/ip4/127.0.0.1/tcp/0"),
		libp2p.DisableRelay(),
		libp2p.Ping(false),
		libp2p.ResourceManager(&network.NullResourceManager{}),
	)
	if err != nil {
		panic(err)
	}
	return h
}

func newWorld() *world {
	w := &world{pidIdx: map[peer.ID]int{}, ev: make(chan event, 4096),
		adv: map[peer.ID]int64{}, lat: map[peer.ID]time.Duration{}, stop: make(chan struct{})}
	w.q = queue.New("hC35")
	w.cli = w.q.Client()
	base := newHost(detKey('d', 0))
	w.dl = &dlHost{Host: base, ps: &latStore{Peerstore: base.Peerstore(), w: w}}
	for i := 0; i < poolSize; i++ {
		s := newHost(detKey('s', i))
		idx := i
		s.SetStreamHandler(protoOld, func(st network.Stream) { w.serve(idx, st) })
		w.servers = append(w.servers, s)
		w.pidIdx[s.ID()] = i
		if err := base.Connect(context.Background(), peer.AddrInfo{ID: s.ID(), Addrs: s.Addrs()}); err != nil {
			panic(fmt.Sprintf("connect %d: %v", i, err))
		}
	}
	env := &protocol.P2PEnv{
		Ctx:             context.Background(),
		QueueClient:     w.q.Client(),
		Host:            w.dl,
		PeerInfoManager: &peerInfo{w},
		ConnManager:     &connMgr{w},
	}
	protocol.InitAllProtocol(env)
	// the fake blockchain module
	bc := w.q.Client()
	bc.Sub("blockchain")
	go func() {
		for msg := range bc.Recv() {
			if msg.Ty != types.EventSyncBlock {
				continue
			}
			bp, ok := msg.Data.(*types.BlockPid)
			if !ok || bp.Block == nil {
				w.ev <- event{kind: evDeliver, peer: -1, height: -1}
				continue
			}
			pid, err := peer.Decode(bp.Pid)
			idx := -1
			if err == nil {
				if i, ok := w.pidIdx[pid]; ok {
					idx = i
				}
			}
			w.ev <- event{kind: evDeliver, peer: idx, height: bp.Block.Height}
		}
	}()
	return w
}

// serve: stream handler of a serving peer.
func (w *world) serve(idx int, st network.Stream) {
	var req types.MessageGetBlocksReq
	if err := protocol.ReadStream(&req, st); err != nil || req.Message == nil {
		_ = st.Reset()
		return
	}
	w.mu.Lock()
	stop := w.stop
	w.mu.Unlock()
	e := event{kind: evReq, peer: idx, height: req.Message.StartHeight, end: req.Message.EndHeight, act: make(chan action, 1)}
	w.ev <- e
	var a action
	select {
	case a = <-e.act:
	case <-stop:
		_ = st.Reset()
		return
	}
	switch a.beh {
	case bOk, bWrong:
		resp := &types.MessageGetBlocksResp{Message: &types.InvDatas{Items: []*types.InvData{
			{Ty: 2, Value: &types.InvData_Block{Block: &types.Block{Height: a.height, Version: 35}}}}}}
		_ = protocol.WriteStream(resp, st)
		_ = st.Close()
	case bRefuse:
		_ = st.Reset()
	case bMalformed:
		writeMalformed(st, a.variant)
		_ = st.Close()
	case bStall:
		<-stop
		_ = st.Reset()
	}
}

func writeMalformed(st network.Stream, variant int) {
	switch variant % 5 {
	case 0: // 17 bytes that are not the protocol header, then noise
		_, _ = st.Write([]byte("not-the-header-17xxxxxxxx"))
	case 1: // good header, frame that is not a protobuf message of the expected type
		hdr := &types.MessageGetBlocksResp{}
		_ = hdr
		writeFramed(st, []byte{0xff, 0xff, 0xff, 0x07, 0x01})
	case 2: // empty item list
		_ = protocol.WriteStream(&types.MessageGetBlocksResp{Message: &types.InvDatas{}}, st)
	case 3: // first item is not a block
		_ = protocol.WriteStream(&types.MessageGetBlocksResp{Message: &types.InvDatas{Items: []*types.InvData{
			{Ty: 1, Value: &types.InvData_Tx{Tx: &types.Transaction{}}}}}}, st)
	case 4: // no message at all
		_ = protocol.WriteStream(&types.MessageGetBlocksResp{}, st)
	}
}

// writeFramed writes the protocol header followed by one msgio frame with the given payload.
func writeFramed(st network.Stream, payload []byte) {
	// obtain the header bytes by writing an empty message into a buffer-backed recorder
	var rec recorder
	_ = protocol.WriteStream(&types.MessageGetBlocksResp{}, &streamRecorder{Stream: st, rec: &rec})
	hdr := rec.b
	if len(hdr) >= 17 {
		_, _ = st.Write(hdr[:17])
	}
	_ = msgio.NewWriter(st).WriteMsg(payload)
}

type recorder struct{ b []byte }
type streamRecorder struct {
	network.Stream
	rec *recorder
}

func (s *streamRecorder) Write(p []byte) (int, error) {
	s.rec.b = append(s.rec.b, p...)
	return len(p), nil
}

// ---------------------------------------------------------------- goroutine census

// census inspects the goroutine dump: number of live per-height goroutines of
// handleEventDownloadBlock, how many of them are inside the 400 ms sleep of
// downloadBlock, how many are inside a request (downloadBlockFromPeerOld),
// whether the handler itself is inside a request (checkTask), and whether it
// waits in wg.Wait.
func census() (live, sleeping, reading int, reading2, inWait bool) {
	buf := make([]byte, 1<<20)
	for {
		n := runtime.Stack(buf, true)
		if n < len(buf) {
			buf = buf[:n]
			break
		}
		buf = make([]byte, 2*len(buf))
	}
	for _, blk := range strings.Split(string(buf), "\n\n") {
		if strings.Contains(blk, ".handleEventDownloadBlock.func1(") {
			live++
			if strings.Contains(blk, ".downloadBlockFromPeerOld(") {
				reading++
				continue
			}
			if i := strings.Index(blk, "time.Sleep("); i >= 0 {
				rest := blk[i:]
				// next frame after time.Sleep must be downloadBlock
				lines := strings.SplitN(rest, "\n", 4)
				if len(lines) >= 3 && strings.Contains(lines[2], ".downloadBlock(") {
					sleeping++
				}
			}
			continue
		}
		if strings.Contains(blk, ".handleEventDownloadBlock(") {
			if strings.Contains(blk, "sync.(*WaitGroup).Wait(") {
				inWait = true
			}
			if strings.Contains(blk, ".downloadBlockFromPeerOld(") {
				reading2 = true
			}
		}
	}
	return
}
